import Ivg.Gen.Tie.Code.DecoderAux
import Ivg.Gen.Code.P_generate
import Ivg.Model.Generator
/-!
# Tie: the Generator's gradient helpers (`generate/generate.go`: `SetGradient`, `SetLinearGradient`,
`SetCircularGradient`, `SetEllipticalGradient`) as TRANSLATED from the Go source (`Ivg/Gen/Code/P_generate.lean`) = the
model's `Gen.setGradient`, `Gen.linearMatrix`, `Gen.circularMatrix`, `Gen.ellipticalMatrix` (`Ivg/Model/Generator.lean`)
at `(F32, F64)`, for all inputs (C19)

The translation takes the Destination as an abstract object (`ivg_Destination_ops R`) and `color.Color.RGBA()` as a
pure observer `X : Go.Ref → UInt32 × UInt32 × UInt32 × UInt32`.

* The three matrix helpers are tied for EVERY Destination object and observer: each is the generated `SetGradient` at the
  model's matrix (the float32 / float64-sqrt expressions agree operation by operation — the proofs are `rfl`).
* `SetGradient` is tied on the objects `SelLog` (selector answers + call log, `selOps upd`).  The model's `cSel`/`nSel`
  inputs are the object's answers; the generated code reads `CSel()` three times and `NSel()` once, all before its first
  delivery, so the tie holds however deliveries change the answers (`upd`).  Corollaries: the object with fixed answers
  (`setGradient_fixed`), and a faithful register object (`regUpd`) on which the selectors end as they began
  (`setGradient_selectors_restored`).
* Error texts: the generated code returns the full `Error()` text (`"ivg: too many gradient stops"`,
  `"ivg: CSEL used as both gradient and stop"`), which is exactly the model's `GenErr.message` — no finding.
-/
namespace Ivg.Gen.Tie
open Ivg Ivg.Num Ivg.Gen Ivg.Gen.Code

/-- the Go `Aff3` (`[6]float32`) of a model matrix -/
def aff3Vec (a : Gen.Aff3 F32) : Vector F32 6 := #v[a.a0, a.a1, a.a2, a.a3, a.a4, a.a5]
/-- the model matrix of a Go `Aff3` -/
def aff3Of (v : Vector F32 6) : Gen.Aff3 F32 := ⟨v[0], v[1], v[2], v[3], v[4], v[5]⟩

/-! ## the matrix helpers, for every Destination -/

section
variable {R : Type} [Inhabited R] (I : ivg_Destination_ops R) (X : Go.Ref → UInt32 × UInt32 × UInt32 × UInt32)

tolerant
/-- `(*Generator).SetLinearGradient` = `SetGradient(GradientShapeLinear, …)` at the model's `linearMatrix`, for every
    Destination object -/
theorem setLinearGradient_code_tie (fuel : Nat) (g : R) (x1 y1 x2 y2 : F32) (spread : UInt8)
    (stops : List generate_GradientStop) :
    generate_Generator_SetLinearGradient I X fuel g x1 y1 x2 y2 spread stops
      = generate_Generator_SetGradient I X fuel g 0 spread stops (aff3Vec (Gen.linearMatrix x1 y1 x2 y2)) := by
  rfl

tolerant
/-- `(*Generator).SetCircularGradient` = `SetGradient(GradientShapeRadial, …)` at the model's `circularMatrix`
    (float64 `math.Sqrt`, then back to float32) -/
theorem setCircularGradient_code_tie (fuel : Nat) (g : R) (cx cy rx ry : F32) (spread : UInt8)
    (stops : List generate_GradientStop) :
    generate_Generator_SetCircularGradient I X fuel g cx cy rx ry spread stops
      = generate_Generator_SetGradient I X fuel g 1 spread stops
          (aff3Vec (Gen.circularMatrix (β := F64) cx cy rx ry)) := by
  rfl

tolerant
/-- `(*Generator).SetEllipticalGradient` = `SetGradient(GradientShapeRadial, …)` at the model's `ellipticalMatrix` -/
theorem setEllipticalGradient_code_tie (fuel : Nat) (g : R) (cx cy rx ry sx sy : F32) (spread : UInt8)
    (stops : List generate_GradientStop) :
    generate_Generator_SetEllipticalGradient I X fuel g cx cy rx ry sx sy spread stops
      = generate_Generator_SetGradient I X fuel g 1 spread stops
          (aff3Vec (Gen.ellipticalMatrix cx cy rx ry sx sy)) := by
  rfl
end

/-! ## `SetGradient` on a selector-answering, logging object -/

/-- The object behind the Generator's `ivg.Destination`: it ANSWERS the selector reads `CSel()`/`NSel()` with `cSel`/`nSel`
    and LOGS every delivering call.  How a delivered call changes the answers is a PARAMETER of the object
    (`SelUpd`, see `selOps`): `fun _ p => p` gives the object whose answers stay fixed, `regUpd` a faithful register
    object (SetCSel/SetNSel set, incrementing SetCReg/SetNReg increment, mod 64); the ties hold for every such function,
    because `SetGradient` reads the selectors before it delivers anything. -/
structure SelLog where
  cSel : UInt8
  nSel : UInt8
  log : List (Call F32)
deriving DecidableEq

instance : Inhabited SelLog := ⟨⟨0, 0, []⟩⟩

/-- how a delivered call changes the selector answers `(cSel, nSel)` -/
abbrev SelUpd := Call F32 → UInt8 × UInt8 → UInt8 × UInt8

/-- deliver one call: update the answers, append to the log -/
def SelLog.deliver (upd : SelUpd) (s : SelLog) (c : Call F32) : SelLog :=
  ⟨(upd c (s.cSel, s.nSel)).1, (upd c (s.cSel, s.nSel)).2, s.log ++ [c]⟩

/-- deliver a list of calls in order -/
def SelLog.deliverAll (upd : SelUpd) (s : SelLog) (cs : List (Call F32)) : SelLog := cs.foldl (SelLog.deliver upd) s

/-- the Destination methods of a `SelLog` object -/
def selOps (upd : SelUpd) : ivg_Destination_ops SelLog where
  AbsArcTo s rx ry rot la sw x y := s.deliver upd (.arc false rx ry rot la sw x y)
  AbsCubeTo s x1 y1 x2 y2 x y := s.deliver upd (.d6 .C x1 y1 x2 y2 x y)
  AbsHLineTo s x := s.deliver upd (.d1 .H x)
  AbsLineTo s x y := s.deliver upd (.d2 .L x y)
  AbsQuadTo s x1 y1 x y := s.deliver upd (.d4 .Q x1 y1 x y)
  AbsSmoothCubeTo s x2 y2 x y := s.deliver upd (.d4 .S x2 y2 x y)
  AbsSmoothQuadTo s x y := s.deliver upd (.d2 .T x y)
  AbsVLineTo s y := s.deliver upd (.d1 .V y)
  CSel s := (s.cSel, s)
  ClosePathAbsMoveTo s x y := s.deliver upd (.d2 .Y x y)
  ClosePathEndPath s := s.deliver upd .closeEnd
  ClosePathRelMoveTo s x y := s.deliver upd (.d2 .y x y)
  NSel s := (s.nSel, s)
  RelArcTo s rx ry rot la sw x y := s.deliver upd (.arc true rx ry rot la sw x y)
  RelCubeTo s x1 y1 x2 y2 x y := s.deliver upd (.d6 .c x1 y1 x2 y2 x y)
  RelHLineTo s x := s.deliver upd (.d1 .h x)
  RelLineTo s x y := s.deliver upd (.d2 .l x y)
  RelQuadTo s x1 y1 x y := s.deliver upd (.d4 .q x1 y1 x y)
  RelSmoothCubeTo s x2 y2 x y := s.deliver upd (.d4 .s x2 y2 x y)
  RelSmoothQuadTo s x y := s.deliver upd (.d2 .t x y)
  RelVLineTo s y := s.deliver upd (.d1 .v y)
  Reset s vb pal := s.deliver upd (.reset (vbTo vb) (palTo pal))
  SetCReg s adj incr c := s.deliver upd (.setCReg adj incr (colorTo c))
  SetCSel s v := s.deliver upd (.setCSel v)
  SetLOD s a b := s.deliver upd (.setLOD a b)
  SetNReg s adj incr f := s.deliver upd (.setNReg adj incr f)
  SetNSel s v := s.deliver upd (.setNSel v)
  StartPath s adj x y := s.deliver upd (.startPath adj x y)

/-- `color.RGBA{uint8(r>>8), uint8(g>>8), uint8(b>>8), uint8(a>>8)}` of a stop's `Color.RGBA()` (the observer `X`) -/
def stopRGBA (X : Go.Ref → UInt32 × UInt32 × UInt32 × UInt32) (st : generate_GradientStop) : RGBA :=
  ⟨Go.cvt_u32_u8 ((X st.Color).1 >>> 8), Go.cvt_u32_u8 ((X st.Color).2.1 >>> 8),
   Go.cvt_u32_u8 ((X st.Color).2.2.1 >>> 8), Go.cvt_u32_u8 ((X st.Color).2.2.2 >>> 8)⟩

/-- the two calls per gradient stop -/
def stopCalls (X : Go.Ref → UInt32 × UInt32 × UInt32 × UInt32) (st : generate_GradientStop) : List (Call F32) :=
  [.setCReg 0 true (Color.rgbaColor (stopRGBA X st)), .setNReg 0 true st.Offset]

tolerant
theorem grad_vec6_cases (m : Vector F32 6) : ∃ a b c d e g, m = #v[a, b, c, d, e, g] := by
  obtain ⟨⟨l⟩, h⟩ := m
  match l, h with
  | [a, b, c, d, e, g], _ => exact ⟨a, b, c, d, e, g, rfl⟩

variable (upd : SelUpd) (X : Go.Ref → UInt32 × UInt32 × UInt32 × UInt32)

tolerant
theorem grad_loop11_4 (stops : List generate_GradientStop) (r3 r4 : UInt8 × SelLog) :
    ∀ (n k fuel : Nat) (m11 : generate_GradientStop) (s : SelLog), k + n = stops.length → n + 1 ≤ fuel →
    generate_Generator_SetGradient.loop8_3.loop11_4 (selOps upd) X stops r3 r4 (stops.length : Int) fuel
        ((k : Int) - 1) m11 s
      = (none, s.deliverAll upd ((stops.drop k).flatMap (stopCalls X) ++ [.setCSel r3.1, .setNSel r4.1])) := by
  intro n
  induction n with
  | zero =>
    intro k fuel m11 s hk hf
    obtain ⟨f, rfl⟩ : ∃ f, fuel = f + 1 := ⟨fuel - 1, by omega⟩
    have hk' : k = stops.length := by omega
    subst hk'
    rw [generate_Generator_SetGradient.loop8_3.loop11_4]
    have e1 : (stops.length : Int) - 1 + 1 = stops.length := by omega
    simp [e1, selOps, SelLog.deliverAll]
  | succ n ih =>
    intro k fuel m11 s hk hf
    obtain ⟨f, rfl⟩ : ∃ f, fuel = f + 1 := ⟨fuel - 1, by omega⟩
    have hklt : k < stops.length := by omega
    rw [generate_Generator_SetGradient.loop8_3.loop11_4]
    have e1 : (k : Int) - 1 + 1 = k := by omega
    have e2 : (k : Int) < (stops.length : Int) := by omega
    have e3 : (k : Int) = ((k + 1 : Nat) : Int) - 1 := by omega
    have hget : Go.sliceGet stops k = stops[k] := by simp [Go.sliceGet, hklt]
    simp only [e1, e2, decide_true, if_true, Go.idx_int, Int.toNat_natCast, hget]
    rw [e3, ih (k + 1) f _ _ (by omega) (by omega), List.drop_eq_getElem_cons hklt]
    have hc : ivg_RGBAColor ⟨Go.cvt_u32_u8 ((X stops[k].Color).1 >>> 8), Go.cvt_u32_u8 ((X stops[k].Color).2.1 >>> 8),
        Go.cvt_u32_u8 ((X stops[k].Color).2.2.1 >>> 8), Go.cvt_u32_u8 ((X stops[k].Color).2.2.2 >>> 8)⟩
        = colorOf (Color.rgbaColor (stopRGBA X stops[k])) := rfl
    simp only [hc, selOps, colorTo_colorOf, List.flatMap_cons, stopCalls, SelLog.deliverAll, List.cons_append,
      List.nil_append, List.foldl_cons]

/-- the six calls that store the transform in NREG[NSEL-6 … NSEL-1] -/
def transformCalls (t : Vector F32 6) : List (Call F32) :=
  [.setNReg 6 false t[0], .setNReg 5 false t[1], .setNReg 4 false t[2],
   .setNReg 3 false t[3], .setNReg 2 false t[4], .setNReg 1 false t[5]]

tolerant
theorem grad_loop8_3 (stops : List generate_GradientStop) (transform : Vector F32 6) (r3 r4 : UInt8 × SelLog)
    (f : Nat) (s : SelLog) :
    generate_Generator_SetGradient.loop8_3 (selOps upd) X stops transform r3 r4 (f + 7) (-1) s
      = generate_Generator_SetGradient.loop8_3.loop11_4 (selOps upd) X stops r3 r4 (stops.length : Int) f (-1)
          generate_GradientStop.zero (s.deliverAll upd (transformCalls transform)) := by
  obtain ⟨a, b, c, d, e, g, rfl⟩ := grad_vec6_cases transform
  simp +decide only [generate_Generator_SetGradient.loop8_3, if_true, if_false, Int.reduceAdd, Int.reduceNeg,
    Int.reduceSub]
  rfl
tolerant
theorem grad_loop11_8 (stops : List generate_GradientStop) (r3 r4 : UInt8 × SelLog) :
    ∀ (n k fuel : Nat) (m11 : generate_GradientStop) (s : SelLog), k + n = stops.length → n + 1 ≤ fuel →
    generate_Generator_SetGradient.loop8_7.loop11_8 (selOps upd) X stops r3 r4 (stops.length : Int) fuel
        ((k : Int) - 1) m11 s
      = (none, s.deliverAll upd ((stops.drop k).flatMap (stopCalls X) ++ [.setCSel r3.1, .setNSel r4.1])) := by
  intro n
  induction n with
  | zero =>
    intro k fuel m11 s hk hf
    obtain ⟨f, rfl⟩ : ∃ f, fuel = f + 1 := ⟨fuel - 1, by omega⟩
    have hk' : k = stops.length := by omega
    subst hk'
    rw [generate_Generator_SetGradient.loop8_7.loop11_8]
    have e1 : (stops.length : Int) - 1 + 1 = stops.length := by omega
    simp [e1, selOps, SelLog.deliverAll]
  | succ n ih =>
    intro k fuel m11 s hk hf
    obtain ⟨f, rfl⟩ : ∃ f, fuel = f + 1 := ⟨fuel - 1, by omega⟩
    have hklt : k < stops.length := by omega
    rw [generate_Generator_SetGradient.loop8_7.loop11_8]
    have e1 : (k : Int) - 1 + 1 = k := by omega
    have e2 : (k : Int) < (stops.length : Int) := by omega
    have e3 : (k : Int) = ((k + 1 : Nat) : Int) - 1 := by omega
    have hget : Go.sliceGet stops k = stops[k] := by simp [Go.sliceGet, hklt]
    simp only [e1, e2, decide_true, if_true, Go.idx_int, Int.toNat_natCast, hget]
    rw [e3, ih (k + 1) f _ _ (by omega) (by omega), List.drop_eq_getElem_cons hklt]
    have hc : ivg_RGBAColor ⟨Go.cvt_u32_u8 ((X stops[k].Color).1 >>> 8), Go.cvt_u32_u8 ((X stops[k].Color).2.1 >>> 8),
        Go.cvt_u32_u8 ((X stops[k].Color).2.2.1 >>> 8), Go.cvt_u32_u8 ((X stops[k].Color).2.2.2 >>> 8)⟩
        = colorOf (Color.rgbaColor (stopRGBA X stops[k])) := rfl
    simp only [hc, selOps, colorTo_colorOf, List.flatMap_cons, stopCalls, SelLog.deliverAll, List.cons_append,
      List.nil_append, List.foldl_cons]

tolerant
theorem grad_loop8_7 (stops : List generate_GradientStop) (transform : Vector F32 6) (r3 r4 : UInt8 × SelLog)
    (f : Nat) (s : SelLog) :
    generate_Generator_SetGradient.loop8_7 (selOps upd) X stops transform r3 r4 (f + 7) (-1) s
      = generate_Generator_SetGradient.loop8_7.loop11_8 (selOps upd) X stops r3 r4 (stops.length : Int) f (-1)
          generate_GradientStop.zero (s.deliverAll upd (transformCalls transform)) := by
  obtain ⟨a, b, c, d, e, g, rfl⟩ := grad_vec6_cases transform
  simp +decide only [generate_Generator_SetGradient.loop8_7, if_true, if_false, Int.reduceAdd, Int.reduceNeg,
    Int.reduceSub]
  rfl
tolerant
theorem grad_loop11_12 (stops : List generate_GradientStop) (r3 r4 : UInt8 × SelLog) :
    ∀ (n k fuel : Nat) (m11 : generate_GradientStop) (s : SelLog), k + n = stops.length → n + 1 ≤ fuel →
    generate_Generator_SetGradient.loop8_11.loop11_12 (selOps upd) X stops r3 r4 (stops.length : Int) fuel
        ((k : Int) - 1) m11 s
      = (none, s.deliverAll upd ((stops.drop k).flatMap (stopCalls X) ++ [.setCSel r3.1, .setNSel r4.1])) := by
  intro n
  induction n with
  | zero =>
    intro k fuel m11 s hk hf
    obtain ⟨f, rfl⟩ : ∃ f, fuel = f + 1 := ⟨fuel - 1, by omega⟩
    have hk' : k = stops.length := by omega
    subst hk'
    rw [generate_Generator_SetGradient.loop8_11.loop11_12]
    have e1 : (stops.length : Int) - 1 + 1 = stops.length := by omega
    simp [e1, selOps, SelLog.deliverAll]
  | succ n ih =>
    intro k fuel m11 s hk hf
    obtain ⟨f, rfl⟩ : ∃ f, fuel = f + 1 := ⟨fuel - 1, by omega⟩
    have hklt : k < stops.length := by omega
    rw [generate_Generator_SetGradient.loop8_11.loop11_12]
    have e1 : (k : Int) - 1 + 1 = k := by omega
    have e2 : (k : Int) < (stops.length : Int) := by omega
    have e3 : (k : Int) = ((k + 1 : Nat) : Int) - 1 := by omega
    have hget : Go.sliceGet stops k = stops[k] := by simp [Go.sliceGet, hklt]
    simp only [e1, e2, decide_true, if_true, Go.idx_int, Int.toNat_natCast, hget]
    rw [e3, ih (k + 1) f _ _ (by omega) (by omega), List.drop_eq_getElem_cons hklt]
    have hc : ivg_RGBAColor ⟨Go.cvt_u32_u8 ((X stops[k].Color).1 >>> 8), Go.cvt_u32_u8 ((X stops[k].Color).2.1 >>> 8),
        Go.cvt_u32_u8 ((X stops[k].Color).2.2.1 >>> 8), Go.cvt_u32_u8 ((X stops[k].Color).2.2.2 >>> 8)⟩
        = colorOf (Color.rgbaColor (stopRGBA X stops[k])) := rfl
    simp only [hc, selOps, colorTo_colorOf, List.flatMap_cons, stopCalls, SelLog.deliverAll, List.cons_append,
      List.nil_append, List.foldl_cons]

tolerant
theorem grad_loop8_11 (stops : List generate_GradientStop) (transform : Vector F32 6) (r3 r4 : UInt8 × SelLog)
    (f : Nat) (s : SelLog) :
    generate_Generator_SetGradient.loop8_11 (selOps upd) X stops transform r3 r4 (f + 7) (-1) s
      = generate_Generator_SetGradient.loop8_11.loop11_12 (selOps upd) X stops r3 r4 (stops.length : Int) f (-1)
          generate_GradientStop.zero (s.deliverAll upd (transformCalls transform)) := by
  obtain ⟨a, b, c, d, e, g, rfl⟩ := grad_vec6_cases transform
  simp +decide only [generate_Generator_SetGradient.loop8_11, if_true, if_false, Int.reduceAdd, Int.reduceNeg,
    Int.reduceSub]
  rfl
tolerant
theorem grad_loop11_16 (stops : List generate_GradientStop) (r3 r4 : UInt8 × SelLog) :
    ∀ (n k fuel : Nat) (m11 : generate_GradientStop) (s : SelLog), k + n = stops.length → n + 1 ≤ fuel →
    generate_Generator_SetGradient.loop8_15.loop11_16 (selOps upd) X stops r3 r4 (stops.length : Int) fuel
        ((k : Int) - 1) m11 s
      = (none, s.deliverAll upd ((stops.drop k).flatMap (stopCalls X) ++ [.setCSel r3.1, .setNSel r4.1])) := by
  intro n
  induction n with
  | zero =>
    intro k fuel m11 s hk hf
    obtain ⟨f, rfl⟩ : ∃ f, fuel = f + 1 := ⟨fuel - 1, by omega⟩
    have hk' : k = stops.length := by omega
    subst hk'
    rw [generate_Generator_SetGradient.loop8_15.loop11_16]
    have e1 : (stops.length : Int) - 1 + 1 = stops.length := by omega
    simp [e1, selOps, SelLog.deliverAll]
  | succ n ih =>
    intro k fuel m11 s hk hf
    obtain ⟨f, rfl⟩ : ∃ f, fuel = f + 1 := ⟨fuel - 1, by omega⟩
    have hklt : k < stops.length := by omega
    rw [generate_Generator_SetGradient.loop8_15.loop11_16]
    have e1 : (k : Int) - 1 + 1 = k := by omega
    have e2 : (k : Int) < (stops.length : Int) := by omega
    have e3 : (k : Int) = ((k + 1 : Nat) : Int) - 1 := by omega
    have hget : Go.sliceGet stops k = stops[k] := by simp [Go.sliceGet, hklt]
    simp only [e1, e2, decide_true, if_true, Go.idx_int, Int.toNat_natCast, hget]
    rw [e3, ih (k + 1) f _ _ (by omega) (by omega), List.drop_eq_getElem_cons hklt]
    have hc : ivg_RGBAColor ⟨Go.cvt_u32_u8 ((X stops[k].Color).1 >>> 8), Go.cvt_u32_u8 ((X stops[k].Color).2.1 >>> 8),
        Go.cvt_u32_u8 ((X stops[k].Color).2.2.1 >>> 8), Go.cvt_u32_u8 ((X stops[k].Color).2.2.2 >>> 8)⟩
        = colorOf (Color.rgbaColor (stopRGBA X stops[k])) := rfl
    simp only [hc, selOps, colorTo_colorOf, List.flatMap_cons, stopCalls, SelLog.deliverAll, List.cons_append,
      List.nil_append, List.foldl_cons]

tolerant
theorem grad_loop8_15 (stops : List generate_GradientStop) (transform : Vector F32 6) (r3 r4 : UInt8 × SelLog)
    (f : Nat) (s : SelLog) :
    generate_Generator_SetGradient.loop8_15 (selOps upd) X stops transform r3 r4 (f + 7) (-1) s
      = generate_Generator_SetGradient.loop8_15.loop11_16 (selOps upd) X stops r3 r4 (stops.length : Int) f (-1)
          generate_GradientStop.zero (s.deliverAll upd (transformCalls transform)) := by
  obtain ⟨a, b, c, d, e, g, rfl⟩ := grad_vec6_cases transform
  simp +decide only [generate_Generator_SetGradient.loop8_15, if_true, if_false, Int.reduceAdd, Int.reduceNeg,
    Int.reduceSub]
  rfl

/-- the stops as the model takes them: offset and the colour after `Color.RGBA()>>8` -/
def modelStops (X : Go.Ref → UInt32 × UInt32 × UInt32 × UInt32) (stops : List generate_GradientStop) : List (F32 × RGBA) :=
  stops.map fun st => (st.Offset, stopRGBA X st)

tolerant
theorem grad_flatMap (stops : List generate_GradientStop) :
    (modelStops X stops).flatMap (fun (p : F32 × RGBA) => [Call.setCReg 0 true (Color.rgbaColor p.2), .setNReg 0 true p.1])
      = stops.flatMap (stopCalls X) := by
  simp only [modelStops, List.flatMap_map]
  rfl

tolerant
theorem grad_nStops (n : Nat) : Go.cvt_int_u8 (Int.ofNat n) = UInt8.ofNat n := by
  apply UInt8.toNat_inj.1
  simp [Go.cvt_int_u8]
  omega

tolerant
theorem deliverAll_append (s : SelLog) (a b : List (Call F32)) :
    (s.deliverAll upd a).deliverAll upd b = s.deliverAll upd (a ++ b) := by
  simp [SelLog.deliverAll, List.foldl_append]

/-- the calls of a successful `SetGradient` (the `.ok` list of the model's `setGradient`) -/
def gradCalls (X : Go.Ref → UInt32 × UInt32 × UInt32 × UInt32) (cSel nSel shape spread : UInt8)
    (stops : List generate_GradientStop) (transform : Vector F32 6) : List (Call F32) :=
  [Call.setCReg 0 false (Color.rgbaColor (encodeGradient 10 10 shape spread (UInt8.ofNat stops.length))),
    .setCSel 10, .setNSel 10] ++ transformCalls transform ++ stops.flatMap (stopCalls X) ++
    [.setCSel cSel, .setNSel nSel]

tolerant
theorem grad_ok_3 (f : Nat) (s : SelLog) (shape spread : UInt8) (stops : List generate_GradientStop)
    (transform : Vector F32 6) (hf : stops.length + 1 ≤ f) :
    generate_Generator_SetGradient.loop8_3 (selOps upd) X stops transform (s.cSel, s) (s.nSel, s) (f + 7) (-1)
        ((selOps upd).SetNSel ((selOps upd).SetCSel ((selOps upd).SetCReg s 0 false
          (ivg_RGBAColor (ivg_EncodeGradient 10 10 shape spread (UInt8.ofNat stops.length)))) 10) 10)
      = (none, s.deliverAll upd (gradCalls X s.cSel s.nSel shape spread stops transform)) := by
  have h11 := grad_loop11_4 upd X stops (s.cSel, s) (s.nSel, s) stops.length 0 f
  simp only [Int.ofNat_zero, Int.zero_sub, Nat.zero_add, List.drop_zero] at h11
  rw [grad_loop8_3, h11 _ _ trivial hf, deliverAll_append]
  have hc : ivg_RGBAColor (ivg_EncodeGradient 10 10 shape spread (UInt8.ofNat stops.length))
      = colorOf (Color.rgbaColor (encodeGradient 10 10 shape spread (UInt8.ofNat stops.length))) := rfl
  simp only [hc, selOps, colorTo_colorOf, SelLog.deliverAll, gradCalls, List.foldl_append, List.foldl_cons,
    List.foldl_nil, List.cons_append, List.nil_append]

tolerant
theorem grad_ok_7 (f : Nat) (s : SelLog) (shape spread : UInt8) (stops : List generate_GradientStop)
    (transform : Vector F32 6) (hf : stops.length + 1 ≤ f) :
    generate_Generator_SetGradient.loop8_7 (selOps upd) X stops transform (s.cSel, s) (s.nSel, s) (f + 7) (-1)
        ((selOps upd).SetNSel ((selOps upd).SetCSel ((selOps upd).SetCReg s 0 false
          (ivg_RGBAColor (ivg_EncodeGradient 10 10 shape spread (UInt8.ofNat stops.length)))) 10) 10)
      = (none, s.deliverAll upd (gradCalls X s.cSel s.nSel shape spread stops transform)) := by
  have h11 := grad_loop11_8 upd X stops (s.cSel, s) (s.nSel, s) stops.length 0 f
  simp only [Int.ofNat_zero, Int.zero_sub, Nat.zero_add, List.drop_zero] at h11
  rw [grad_loop8_7, h11 _ _ trivial hf, deliverAll_append]
  have hc : ivg_RGBAColor (ivg_EncodeGradient 10 10 shape spread (UInt8.ofNat stops.length))
      = colorOf (Color.rgbaColor (encodeGradient 10 10 shape spread (UInt8.ofNat stops.length))) := rfl
  simp only [hc, selOps, colorTo_colorOf, SelLog.deliverAll, gradCalls, List.foldl_append, List.foldl_cons,
    List.foldl_nil, List.cons_append, List.nil_append]

tolerant
theorem grad_ok_11 (f : Nat) (s : SelLog) (shape spread : UInt8) (stops : List generate_GradientStop)
    (transform : Vector F32 6) (hf : stops.length + 1 ≤ f) :
    generate_Generator_SetGradient.loop8_11 (selOps upd) X stops transform (s.cSel, s) (s.nSel, s) (f + 7) (-1)
        ((selOps upd).SetNSel ((selOps upd).SetCSel ((selOps upd).SetCReg s 0 false
          (ivg_RGBAColor (ivg_EncodeGradient 10 10 shape spread (UInt8.ofNat stops.length)))) 10) 10)
      = (none, s.deliverAll upd (gradCalls X s.cSel s.nSel shape spread stops transform)) := by
  have h11 := grad_loop11_12 upd X stops (s.cSel, s) (s.nSel, s) stops.length 0 f
  simp only [Int.ofNat_zero, Int.zero_sub, Nat.zero_add, List.drop_zero] at h11
  rw [grad_loop8_11, h11 _ _ trivial hf, deliverAll_append]
  have hc : ivg_RGBAColor (ivg_EncodeGradient 10 10 shape spread (UInt8.ofNat stops.length))
      = colorOf (Color.rgbaColor (encodeGradient 10 10 shape spread (UInt8.ofNat stops.length))) := rfl
  simp only [hc, selOps, colorTo_colorOf, SelLog.deliverAll, gradCalls, List.foldl_append, List.foldl_cons,
    List.foldl_nil, List.cons_append, List.nil_append]

tolerant
theorem grad_ok_15 (f : Nat) (s : SelLog) (shape spread : UInt8) (stops : List generate_GradientStop)
    (transform : Vector F32 6) (hf : stops.length + 1 ≤ f) :
    generate_Generator_SetGradient.loop8_15 (selOps upd) X stops transform (s.cSel, s) (s.nSel, s) (f + 7) (-1)
        ((selOps upd).SetNSel ((selOps upd).SetCSel ((selOps upd).SetCReg s 0 false
          (ivg_RGBAColor (ivg_EncodeGradient 10 10 shape spread (UInt8.ofNat stops.length)))) 10) 10)
      = (none, s.deliverAll upd (gradCalls X s.cSel s.nSel shape spread stops transform)) := by
  have h11 := grad_loop11_16 upd X stops (s.cSel, s) (s.nSel, s) stops.length 0 f
  simp only [Int.ofNat_zero, Int.zero_sub, Nat.zero_add, List.drop_zero] at h11
  rw [grad_loop8_15, h11 _ _ trivial hf, deliverAll_append]
  have hc : ivg_RGBAColor (ivg_EncodeGradient 10 10 shape spread (UInt8.ofNat stops.length))
      = colorOf (Color.rgbaColor (encodeGradient 10 10 shape spread (UInt8.ofNat stops.length))) := rfl
  simp only [hc, selOps, colorTo_colorOf, SelLog.deliverAll, gradCalls, List.foldl_append, List.foldl_cons,
    List.foldl_nil, List.cons_append, List.nil_append]

/-- what `SetGradient` returns on the object `s` for the model's result -/
def gradResOf (upd : SelUpd) (s : SelLog) : Except Gen.GenErr (List (Call F32)) → Go.Err × SelLog
  | .error e => (some e.message, s)
  | .ok calls => (none, s.deliverAll upd calls)

tolerant
/-- `(*Generator).SetGradient` (generate/generate.go) on a `SelLog` object = the model's `Gen.setGradient` at the object's
    selector answers, for EVERY observer `X` of `color.Color.RGBA()`, selector-update function `upd`, object `s`, shape,
    spread, stops, transform and `fuel ≥ len(stops) + 8` (six transform entries + the two loop exits):
    `.error e` ↦ `(e.message, object unchanged)`, `.ok calls` ↦ `(nil, the object after delivering calls)`. -/
theorem setGradient_code_tie (fuel : Nat) (s : SelLog) (shape spread : UInt8) (stops : List generate_GradientStop)
    (transform : Vector F32 6) (hf : stops.length + 8 ≤ fuel) :
    generate_Generator_SetGradient (selOps upd) X fuel s shape spread stops transform
      = gradResOf upd s (Gen.setGradient s.cSel s.nSel shape spread (modelStops X stops) (aff3Of transform)) := by
  obtain ⟨f, rfl⟩ : ∃ f, fuel = f + 7 := ⟨fuel - 7, by omega⟩
  have hlen : (modelStops X stops).length = stops.length := by simp [modelStops]
  unfold generate_Generator_SetGradient Gen.setGradient
  simp only [hlen, grad_nStops, grad_flatMap]
  by_cases h59 : 59 ≤ stops.length
  · have h1 : (59 : Int) ≤ Int.ofNat stops.length := by simp; omega
    have h2 : stops.length > 64 - 6 := by omega
    rw [if_pos (by simpa using h1), if_pos h2]
    rfl
  · have h1 : ¬ (59 : Int) ≤ Int.ofNat stops.length := by simp; omega
    have h2 : ¬ stops.length > 64 - 6 := by omega
    have hC : (selOps upd).CSel s = (s.cSel, s) := rfl
    have hN : (selOps upd).NSel s = (s.nSel, s) := rfl
    simp only [h1, h2, decide_false, Bool.false_eq_true, if_false, hC, hN]
    have hcalls : ([Call.setCReg 0 false (Color.rgbaColor (encodeGradient 10 10 shape spread (UInt8.ofNat stops.length))),
                Call.setCSel 10, Call.setNSel 10, Call.setNReg 6 false (aff3Of transform).a0,
                Call.setNReg 5 false (aff3Of transform).a1, Call.setNReg 4 false (aff3Of transform).a2,
                Call.setNReg 3 false (aff3Of transform).a3, Call.setNReg 2 false (aff3Of transform).a4,
                Call.setNReg 1 false (aff3Of transform).a5] ++
              List.flatMap (stopCalls X) stops ++
            [Call.setCSel s.cSel, Call.setNSel s.nSel]) = gradCalls X s.cSel s.nSel shape spread stops transform := rfl
    rw [hcalls, grad_ok_3 upd X f s shape spread stops transform (by omega),
      grad_ok_7 upd X f s shape spread stops transform (by omega),
      grad_ok_11 upd X f s shape spread stops transform (by omega),
      grad_ok_15 upd X f s shape spread stops transform (by omega)]
    have eE : gradResOf upd s (Except.error GenErr.cselUsedAsBothGradientAndStop)
        = (some "ivg: CSEL used as both gradient and stop", s) := rfl
    have eO : ∀ cs, gradResOf upd s (Except.ok cs) = (none, s.deliverAll upd cs) := fun _ => rfl
    by_cases c1 : 10 ≤ s.cSel <;> by_cases c2 : s.cSel < 10 + UInt8.ofNat stops.length <;>
      by_cases c3 : 10 ≤ s.cSel + 64 <;> by_cases c4 : s.cSel + 64 < 10 + UInt8.ofNat stops.length <;>
      simp only [c1, c2, c3, c4, decide_true, decide_false, if_true, if_false, and_true,
        and_false, or_true, or_false, or_self, and_self, Bool.false_eq_true, eE, eO]

/-! ## readings of `setGradient_code_tie` -/

tolerant
theorem aff3Of_aff3Vec (a : Gen.Aff3 F32) : aff3Of (aff3Vec a) = a := rfl

tolerant
/-- the log of the object after delivering calls -/
theorem deliverAll_log (s : SelLog) (cs : List (Call F32)) : (s.deliverAll upd cs).log = s.log ++ cs := by
  induction cs generalizing s with
  | nil => simp [SelLog.deliverAll]
  | cons c cs ih =>
    have := ih (s.deliver upd c)
    simp only [SelLog.deliverAll, List.foldl_cons] at this ⊢
    rw [this]; simp [SelLog.deliver]

tolerant
/-- the object whose selector answers stay fixed: only the log grows -/
theorem deliverAll_fixed (s : SelLog) (cs : List (Call F32)) :
    s.deliverAll (fun _ p => p) cs = ⟨s.cSel, s.nSel, s.log ++ cs⟩ := by
  induction cs generalizing s with
  | nil => simp [SelLog.deliverAll]
  | cons c cs ih =>
    have := ih (s.deliver (fun _ p => p) c)
    simp only [SelLog.deliverAll, List.foldl_cons] at this ⊢
    rw [this]; simp [SelLog.deliver]

tolerant
/-- `SetGradient` on the object with FIXED selector answers: the error and the log, exactly as the property states it -/
theorem setGradient_fixed (fuel : Nat) (s : SelLog) (shape spread : UInt8) (stops : List generate_GradientStop)
    (transform : Vector F32 6) (hf : stops.length + 8 ≤ fuel) :
    generate_Generator_SetGradient (selOps fun _ p => p) X fuel s shape spread stops transform
      = match Gen.setGradient s.cSel s.nSel shape spread (modelStops X stops) (aff3Of transform) with
        | .error e => (some e.message, s)
        | .ok calls => (none, ⟨s.cSel, s.nSel, s.log ++ calls⟩) := by
  rw [setGradient_code_tie _ X fuel s shape spread stops transform hf]
  cases Gen.setGradient s.cSel s.nSel shape spread (modelStops X stops) (aff3Of transform) with
  | error e => rfl
  | ok calls => simp only [gradResOf, deliverAll_fixed]

/-- a faithful register object: `SetCSel`/`SetNSel` set the selector (6 bits), an incrementing `SetCReg`/`SetNReg`
    increments it (mod 64), nothing else touches the selectors -/
def regUpd : SelUpd
  | .setCSel v, (_, n) => (v &&& 0x3f, n)
  | .setNSel v, (c, _) => (c, v &&& 0x3f)
  | .setCReg _ true _, (c, n) => ((c + 1) &&& 0x3f, n)
  | .setNReg _ true _, (c, n) => (c, (n + 1) &&& 0x3f)
  | _, p => p

tolerant
/-- "CSEL and NSEL are left as they were": on the faithful register object a successful `SetGradient` ends with the
    selector answers it started with (as 6-bit values; equal to the initial ones when those are `< 64`). -/
theorem setGradient_selectors_restored (fuel : Nat) (s : SelLog) (shape spread : UInt8)
    (stops : List generate_GradientStop) (transform : Vector F32 6) (hf : stops.length + 8 ≤ fuel)
    (hok : (generate_Generator_SetGradient (selOps regUpd) X fuel s shape spread stops transform).1 = none) :
    (generate_Generator_SetGradient (selOps regUpd) X fuel s shape spread stops transform).2.cSel = s.cSel &&& 0x3f ∧
    (generate_Generator_SetGradient (selOps regUpd) X fuel s shape spread stops transform).2.nSel = s.nSel &&& 0x3f := by
  rw [setGradient_code_tie _ X fuel s shape spread stops transform hf] at hok ⊢
  unfold Gen.setGradient at hok ⊢
  split at hok
  · simp [gradResOf] at hok
  · rename_i h1
    simp only [h1, if_false] at hok ⊢
    split at hok
    · simp [gradResOf] at hok
    · rename_i h2
      simp only [h2, if_false, gradResOf, SelLog.deliverAll, List.foldl_append, List.foldl_cons, List.foldl_nil]
      exact ⟨rfl, rfl⟩

/-! ## the helpers on a `SelLog` object, against the model -/

tolerant
theorem setLinearGradient_model_tie (fuel : Nat) (s : SelLog) (x1 y1 x2 y2 : F32) (spread : UInt8)
    (stops : List generate_GradientStop) (hf : stops.length + 8 ≤ fuel) :
    generate_Generator_SetLinearGradient (selOps upd) X fuel s x1 y1 x2 y2 spread stops
      = gradResOf upd s (Gen.setGradient s.cSel s.nSel 0 spread (modelStops X stops) (Gen.linearMatrix x1 y1 x2 y2)) := by
  rw [setLinearGradient_code_tie, setGradient_code_tie _ X fuel s _ spread stops _ hf, aff3Of_aff3Vec]

tolerant
theorem setCircularGradient_model_tie (fuel : Nat) (s : SelLog) (cx cy rx ry : F32) (spread : UInt8)
    (stops : List generate_GradientStop) (hf : stops.length + 8 ≤ fuel) :
    generate_Generator_SetCircularGradient (selOps upd) X fuel s cx cy rx ry spread stops
      = gradResOf upd s (Gen.setGradient s.cSel s.nSel 1 spread (modelStops X stops)
          (Gen.circularMatrix (β := F64) cx cy rx ry)) := by
  rw [setCircularGradient_code_tie, setGradient_code_tie _ X fuel s _ spread stops _ hf, aff3Of_aff3Vec]

tolerant
theorem setEllipticalGradient_model_tie (fuel : Nat) (s : SelLog) (cx cy rx ry sx sy : F32) (spread : UInt8)
    (stops : List generate_GradientStop) (hf : stops.length + 8 ≤ fuel) :
    generate_Generator_SetEllipticalGradient (selOps upd) X fuel s cx cy rx ry sx sy spread stops
      = gradResOf upd s (Gen.setGradient s.cSel s.nSel 1 spread (modelStops X stops)
          (Gen.ellipticalMatrix cx cy rx ry sx sy)) := by
  rw [setEllipticalGradient_code_tie, setGradient_code_tie _ X fuel s _ spread stops _ hf, aff3Of_aff3Vec]

/-! concrete instances: two stops on a fresh object (3 + 6 + 2·2 + 2 = 15 calls, selectors restored on the register
    object); CSEL = 10 collides with the first stop register -/
example : (generate_Generator_SetGradient (selOps regUpd) (fun _ => (0xffff, 0, 0, 0xffff)) 10 ⟨3, 5, []⟩ 0 0
      [⟨⟨0⟩, Go.ref "a"⟩, ⟨⟨0x3f800000⟩, Go.ref "b"⟩] (aff3Vec (Gen.linearMatrix ⟨0⟩ ⟨0⟩ ⟨0x3f800000⟩ ⟨0⟩))).1 = none ∧
    (generate_Generator_SetGradient (selOps regUpd) (fun _ => (0xffff, 0, 0, 0xffff)) 10 ⟨3, 5, []⟩ 0 0
      [⟨⟨0⟩, Go.ref "a"⟩, ⟨⟨0x3f800000⟩, Go.ref "b"⟩] (aff3Vec (Gen.linearMatrix ⟨0⟩ ⟨0⟩ ⟨0x3f800000⟩ ⟨0⟩))).2.log.length = 15 ∧
    (generate_Generator_SetGradient (selOps regUpd) (fun _ => (0xffff, 0, 0, 0xffff)) 10 ⟨3, 5, []⟩ 0 0
      [⟨⟨0⟩, Go.ref "a"⟩, ⟨⟨0x3f800000⟩, Go.ref "b"⟩] (aff3Vec (Gen.linearMatrix ⟨0⟩ ⟨0⟩ ⟨0x3f800000⟩ ⟨0⟩))).2.cSel = 3 := by
  decide +kernel
example : generate_Generator_SetGradient (selOps regUpd) (fun _ => (0xffff, 0, 0, 0xffff)) 10 ⟨10, 5, []⟩ 0 0
      [⟨⟨0⟩, Go.ref "a"⟩] (Vector.replicate 6 ⟨0⟩)
    = (some "ivg: CSEL used as both gradient and stop", ⟨10, 5, []⟩) := by
  decide +kernel

end Ivg.Gen.Tie
