import Ivg.Gen.Tie.Code.Encoder2
/-!
# Tie: `(*Encoder).Reset` of `encode/encode.go`, as TRANSLATED from the Go source, against the model's `Encoder.reset`
(`Encoder.step … (.reset vb pal)`)   (part 6 of the Encoder ties)

The Go method has three loops in sequence for the suggested-palette chunk: find the last entry `n` that is not opaque
black (`loop11`), decide which of the 1/2/3-byte formats fit all of `palette[:n+1]` (`loop13`), emit the entries
(`loop27/31/35/37`, one per format).  The translator puts each later loop inside the exit of the earlier one (tail
position), and splits the whole body on `mcViewBox` and `mcSuggestedPalette` repeatedly, so the generated `Reset`
contains 16 copies of `loop11`, each with two copies of `loop13` (reached from the `n < 0` exit and from the
"not black" exit), each with the four emit loops.  Only two copies of `loop11` are reachable (view box chunk
written or not), and under `palette ≠ DefaultPalette` the `n < 0` exit never is: 12 loops carry the proof.

Stages: each emit loop appends `flatMap palFk` of the remaining entries and finishes with `resetDone`
(`loopNN_MM_spec`); `loop13` computes the three `all` flags and ends in `palDone` (`loop13_*_spec`); `loop11` finds
`lastNB pal 63` (`loop11_*_spec`); `lastNB` is the model's `explicitCount - 1` (`explicitCount_lastNB`), and the
flags / entry encoders on `palOf pal` are the model's (`palChunkAt_model`).  Fuel: `203 ≤ fuel` (64 + 65 + 65 rounds
and one step per loop entry).

`reset_code_tie` gives all 14 fields `Reset` writes (`*e = Encoder{…}`): the eleven modelled ones are those of the
model's reset state, `metadata` is the argument pair, `scratch` is zero, and `altBuf` holds the last chunk written
(`resetAltBuf`).  The incoming `e.buf` is irrelevant (`e.buf[:0]`), as is the whole previous state.
-/
namespace Ivg.Gen.Tie
open Ivg Ivg.Num Ivg.Gen Ivg.Gen.Code
set_option linter.unusedSimpArgs false

/-- the 14 field values `Reset` returns: a zero Encoder except `buf`, `altBuf`, `metadata`, `lod1`, `mode` -/
def resetTuple (md : ivg_Metadata) (inf : F32) (buf alt : Bytes) :
    Bool × Bool × Bytes × Bytes × ivg_Metadata × Go.Err × F32 × F32 × UInt8 × UInt8 × UInt8 × UInt8 × List F32 ×
      Vector UInt8 12 :=
  ((encode_Encoder.zero).HighResolutionCoordinates, (encode_Encoder.zero).highResolutionCoordinates, buf, alt, md,
    (encode_Encoder.zero).err, (encode_Encoder.zero).lod0, inf, (encode_Encoder.zero).cSel,
    (encode_Encoder.zero).nSel, 1, (encode_Encoder.zero).drawOp, (encode_Encoder.zero).drawArgs,
    (encode_Encoder.zero).scratch)

/-- the end of each palette loop: the chunk `alt` is appended to `buf` behind its length -/
def resetDone (md : ivg_Metadata) (inf : F32) (buf alt : Bytes) :=
  resetTuple md inf (encode_buffer_encodeNatural buf (Go.cvt_int_u32 (Int.ofNat alt.length)) ++ alt) alt

def palF1 (c : image_color_RGBA) : Bytes := [(ivg_Color_Encode1 (ivg_RGBAColor c)).1]
def palF2 (c : image_color_RGBA) : Bytes :=
  [Go.arrGet (ivg_Color_Encode2 (ivg_RGBAColor c)).1 0, Go.arrGet (ivg_Color_Encode2 (ivg_RGBAColor c)).1 1]
def palF3 (c : image_color_RGBA) : Bytes := [c.R, c.G, c.B]
def palF4 (c : image_color_RGBA) : Bytes := [c.R, c.G, c.B, c.A]

tolerant
theorem encAux_sliceGet_lt {T} [Inhabited T] (l : List T) (i : Nat) (h : i < l.length) : Go.sliceGet l i = l[i] := by
  simp [Go.sliceGet, h]

set_option hygiene false in
/-- proof of the specification of one of the generated emit loops of `Reset` -/
macro "emit_loop_tac" loop:ident f:ident : tactic =>
  `(tactic| (
    intro k
    induction k with
    | zero =>
      intro fuel i alt buf hk hf
      obtain ⟨f', rfl⟩ : ∃ f', fuel = f' + 1 := ⟨fuel - 1, by omega⟩
      rw [$loop:ident]
      have hlt : ¬ ((i : Int) - 1 + 1 < Int.ofNat lst.length) := by simp only [Int.ofNat_eq_natCast]; omega
      have hd : lst.drop i = [] := List.drop_eq_nil_of_le (by omega)
      simp only [hlt, decide_false, Bool.false_eq_true, if_false, hd, List.flatMap_nil, List.append_nil, resetDone,
        resetTuple]
    | succ k ih =>
      intro fuel i alt buf hk hf
      obtain ⟨f', rfl⟩ : ∃ f', fuel = f' + 1 := ⟨fuel - 1, by omega⟩
      rw [$loop:ident]
      have hi : i < lst.length := by omega
      have hlt : ((i : Int) - 1 + 1 < Int.ofNat lst.length) := by simp only [Int.ofNat_eq_natCast]; omega
      have e1 : (i : Int) - 1 + 1 = ((i + 1 : Nat) : Int) - 1 := by omega
      have e2 : Go.idx_int ((i : Int) - 1 + 1) = i := by simp [Go.idx_int]
      simp only [hlt, decide_true, if_true, e2, encAux_sliceGet_lt _ _ hi]
      rw [e1, ih f' (i + 1) _ buf (by omega) (by omega)]
      rw [List.drop_eq_getElem_cons hi]
      simp only [$f:ident, List.flatMap_cons, List.append_assoc, List.cons_append, List.nil_append]))

set_option hygiene false in
/-- proof of the specification of one of the generated emit loops of `Reset` that carry the range variable -/
macro "emit_loop_tac2" loop:ident f:ident : tactic =>
  `(tactic| (
    intro k
    induction k with
    | zero =>
      intro fuel i c0 alt buf hk hf
      obtain ⟨f', rfl⟩ : ∃ f', fuel = f' + 1 := ⟨fuel - 1, by omega⟩
      rw [$loop:ident]
      have hlt : ¬ ((i : Int) - 1 + 1 < Int.ofNat lst.length) := by simp only [Int.ofNat_eq_natCast]; omega
      have hd : lst.drop i = [] := List.drop_eq_nil_of_le (by omega)
      simp only [hlt, decide_false, Bool.false_eq_true, if_false, hd, List.flatMap_nil, List.append_nil, resetDone,
        resetTuple]
    | succ k ih =>
      intro fuel i c0 alt buf hk hf
      obtain ⟨f', rfl⟩ : ∃ f', fuel = f' + 1 := ⟨fuel - 1, by omega⟩
      rw [$loop:ident]
      have hi : i < lst.length := by omega
      have hlt : ((i : Int) - 1 + 1 < Int.ofNat lst.length) := by simp only [Int.ofNat_eq_natCast]; omega
      have e1 : (i : Int) - 1 + 1 = ((i + 1 : Nat) : Int) - 1 := by omega
      have e2 : Go.idx_int ((i : Int) - 1 + 1) = i := by simp [Go.idx_int]
      simp only [hlt, decide_true, if_true, e2, encAux_sliceGet_lt _ _ hi]
      rw [e1, ih f' (i + 1) _ _ buf (by omega) (by omega)]
      rw [List.drop_eq_getElem_cons hi]
      simp only [$f:ident, List.flatMap_cons, List.append_assoc, List.cons_append, List.nil_append]))


tolerant
theorem loop27_63_spec (md : ivg_Metadata) (inf : F32) (lst : List image_color_RGBA) :
    ∀ (k fuel i : Nat) (alt buf : Bytes), i + k = lst.length → k + 1 ≤ fuel →
      encode_Encoder_Reset.loop11_53.loop13_62.loop27_63 md inf lst (Int.ofNat lst.length) fuel ((i : Int) - 1) alt buf
        = resetDone md inf buf (alt ++ (lst.drop i).flatMap palF1) := by
  emit_loop_tac encode_Encoder_Reset.loop11_53.loop13_62.loop27_63 palF1

tolerant
theorem loop31_64_spec (md : ivg_Metadata) (inf : F32) (lst : List image_color_RGBA) :
    ∀ (k fuel i : Nat) (alt buf : Bytes), i + k = lst.length → k + 1 ≤ fuel →
      encode_Encoder_Reset.loop11_53.loop13_62.loop31_64 md inf lst (Int.ofNat lst.length) fuel ((i : Int) - 1) alt buf
        = resetDone md inf buf (alt ++ (lst.drop i).flatMap palF2) := by
  emit_loop_tac encode_Encoder_Reset.loop11_53.loop13_62.loop31_64 palF2

tolerant
theorem loop35_65_spec (md : ivg_Metadata) (inf : F32) (lst : List image_color_RGBA) :
    ∀ (k fuel i : Nat) (c0 : image_color_RGBA) (alt buf : Bytes), i + k = lst.length → k + 1 ≤ fuel →
      encode_Encoder_Reset.loop11_53.loop13_62.loop35_65 md inf lst (Int.ofNat lst.length) fuel ((i : Int) - 1) c0 alt buf
        = resetDone md inf buf (alt ++ (lst.drop i).flatMap palF3) := by
  emit_loop_tac2 encode_Encoder_Reset.loop11_53.loop13_62.loop35_65 palF3

tolerant
theorem loop37_66_spec (md : ivg_Metadata) (inf : F32) (lst : List image_color_RGBA) :
    ∀ (k fuel i : Nat) (c0 : image_color_RGBA) (alt buf : Bytes), i + k = lst.length → k + 1 ≤ fuel →
      encode_Encoder_Reset.loop11_53.loop13_62.loop37_66 md inf lst (Int.ofNat lst.length) fuel ((i : Int) - 1) c0 alt buf
        = resetDone md inf buf (alt ++ (lst.drop i).flatMap palF4) := by
  emit_loop_tac2 encode_Encoder_Reset.loop11_53.loop13_62.loop37_66 palF4

tolerant
theorem loop27_458_spec (md : ivg_Metadata) (inf : F32) (lst : List image_color_RGBA) :
    ∀ (k fuel i : Nat) (alt buf : Bytes), i + k = lst.length → k + 1 ≤ fuel →
      encode_Encoder_Reset.loop11_448.loop13_457.loop27_458 md inf lst (Int.ofNat lst.length) fuel ((i : Int) - 1) alt buf
        = resetDone md inf buf (alt ++ (lst.drop i).flatMap palF1) := by
  emit_loop_tac encode_Encoder_Reset.loop11_448.loop13_457.loop27_458 palF1

tolerant
theorem loop31_459_spec (md : ivg_Metadata) (inf : F32) (lst : List image_color_RGBA) :
    ∀ (k fuel i : Nat) (alt buf : Bytes), i + k = lst.length → k + 1 ≤ fuel →
      encode_Encoder_Reset.loop11_448.loop13_457.loop31_459 md inf lst (Int.ofNat lst.length) fuel ((i : Int) - 1) alt buf
        = resetDone md inf buf (alt ++ (lst.drop i).flatMap palF2) := by
  emit_loop_tac encode_Encoder_Reset.loop11_448.loop13_457.loop31_459 palF2

tolerant
theorem loop35_460_spec (md : ivg_Metadata) (inf : F32) (lst : List image_color_RGBA) :
    ∀ (k fuel i : Nat) (c0 : image_color_RGBA) (alt buf : Bytes), i + k = lst.length → k + 1 ≤ fuel →
      encode_Encoder_Reset.loop11_448.loop13_457.loop35_460 md inf lst (Int.ofNat lst.length) fuel ((i : Int) - 1) c0 alt buf
        = resetDone md inf buf (alt ++ (lst.drop i).flatMap palF3) := by
  emit_loop_tac2 encode_Encoder_Reset.loop11_448.loop13_457.loop35_460 palF3

tolerant
theorem loop37_461_spec (md : ivg_Metadata) (inf : F32) (lst : List image_color_RGBA) :
    ∀ (k fuel i : Nat) (c0 : image_color_RGBA) (alt buf : Bytes), i + k = lst.length → k + 1 ≤ fuel →
      encode_Encoder_Reset.loop11_448.loop13_457.loop37_461 md inf lst (Int.ofNat lst.length) fuel ((i : Int) - 1) c0 alt buf
        = resetDone md inf buf (alt ++ (lst.drop i).flatMap palF4) := by
  emit_loop_tac2 encode_Encoder_Reset.loop11_448.loop13_457.loop37_461 palF4

/-- `Encode1` succeeds on the palette entry -/
def palOk1 (c : image_color_RGBA) : Bool := (ivg_Color_Encode1 (ivg_RGBAColor c)).2

/-- what `Reset` does once it knows `n` (as the Go `int` `t72`) and the three flags: emit the palette chunk in the
    shortest admissible format -/
def palDone (pal : Vector image_color_RGBA 64) (md : ivg_Metadata) (inf : F32) (t72 : Int) (E1 E2 E3 : Bool)
    (buf : Bytes) :=
  let lst' := Go.slice pal.toList 0 (Go.idx_int (t72 + 1))
  let a0 := encode_buffer_encodeNatural [] 1
  let nb := Go.cvt_int_u8 t72
  if E1 then resetDone md inf buf (a0 ++ [nb ||| 0] ++ lst'.flatMap palF1)
  else if E2 then resetDone md inf buf (a0 ++ [nb ||| 64] ++ lst'.flatMap palF2)
  else if E3 then resetDone md inf buf (a0 ++ [nb ||| 128] ++ lst'.flatMap palF3)
  else resetDone md inf buf (a0 ++ [nb ||| 192] ++ lst'.flatMap palF4)

tolerant
theorem encAux_slice_pal_length (pal : Vector image_color_RGBA 64) (j : Nat) : (Go.slice pal.toList 0 j).length ≤ 64 := by
  simp [Go.slice]; omega

tolerant
theorem loop13_62_spec (pal : Vector image_color_RGBA 64) (md : ivg_Metadata) (inf : F32) (t72 : Int)
    (lst : List image_color_RGBA) :
    ∀ (k fuel i : Nat) (e1 e2 e3 : Bool) (alt buf : Bytes), i + k = lst.length → k + 67 ≤ fuel →
      encode_Encoder_Reset.loop11_53.loop13_62 pal md inf t72 lst (Int.ofNat lst.length) fuel e1 e2 e3
          ((i : Int) - 1) alt buf
        = palDone pal md inf t72 (e1 && (lst.drop i).all palOk1) (e2 && (lst.drop i).all ivg_Is2)
            (e3 && (lst.drop i).all ivg_Is3) buf := by
  intro k
  induction k with
  | zero =>
    intro fuel i e1 e2 e3 alt buf hk hf
    obtain ⟨f', rfl⟩ : ∃ f', fuel = f' + 1 := ⟨fuel - 1, by omega⟩
    rw [encode_Encoder_Reset.loop11_53.loop13_62]
    have hlt : ¬ ((i : Int) - 1 + 1 < Int.ofNat lst.length) := by simp only [Int.ofNat_eq_natCast]; omega
    have hd : lst.drop i = [] := List.drop_eq_nil_of_le (by omega)
    have hL := encAux_slice_pal_length pal (Go.idx_int (t72 + 1))
    have hm1 : (-1 : Int) = ((0 : Nat) : Int) - 1 := by simp
    simp only [hlt, decide_false, Bool.false_eq_true, if_false, hd, List.all_nil, Bool.and_true, palDone,
      encAux_slice_kk, hm1]
    rw [loop27_63_spec md inf _ _ f' 0 _ buf (Nat.zero_add _) (by omega),
      loop31_64_spec md inf _ _ f' 0 _ buf (Nat.zero_add _) (by omega),
      loop35_65_spec md inf _ _ f' 0 _ _ buf (Nat.zero_add _) (by omega),
      loop37_66_spec md inf _ _ f' 0 _ _ buf (Nat.zero_add _) (by omega)]
    simp only [List.drop_zero]
  | succ k ih =>
    intro fuel i e1 e2 e3 alt buf hk hf
    obtain ⟨f', rfl⟩ : ∃ f', fuel = f' + 1 := ⟨fuel - 1, by omega⟩
    rw [encode_Encoder_Reset.loop11_53.loop13_62]
    have hi : i < lst.length := by omega
    have hlt : ((i : Int) - 1 + 1 < Int.ofNat lst.length) := by simp only [Int.ofNat_eq_natCast]; omega
    have e1' : (i : Int) - 1 + 1 = ((i + 1 : Nat) : Int) - 1 := by omega
    have e2' : Go.idx_int ((i : Int) - 1 + 1) = i := by simp [Go.idx_int]
    simp only [hlt, decide_true, if_true, e2', encAux_sliceGet_lt _ _ hi]
    rw [e1']
    simp only [ih f' (i + 1) _ _ _ alt buf (by omega) (by omega)]
    rw [List.drop_eq_getElem_cons hi]
    simp only [List.all_cons]
    have ho : (ivg_Color_Encode1 (ivg_RGBAColor lst[i])).2 = palOk1 lst[i] := rfl
    rw [ho]
    cases e1 <;> cases e2 <;> cases e3 <;> cases palOk1 lst[i] <;> cases ivg_Is2 lst[i] <;> cases ivg_Is3 lst[i] <;>
      simp

tolerant
theorem loop13_457_spec (pal : Vector image_color_RGBA 64) (md : ivg_Metadata) (inf : F32) (t72 : Int)
    (lst : List image_color_RGBA) :
    ∀ (k fuel i : Nat) (e1 e2 e3 : Bool) (alt buf : Bytes), i + k = lst.length → k + 67 ≤ fuel →
      encode_Encoder_Reset.loop11_448.loop13_457 pal md inf t72 lst (Int.ofNat lst.length) fuel e1 e2 e3
          ((i : Int) - 1) alt buf
        = palDone pal md inf t72 (e1 && (lst.drop i).all palOk1) (e2 && (lst.drop i).all ivg_Is2)
            (e3 && (lst.drop i).all ivg_Is3) buf := by
  intro k
  induction k with
  | zero =>
    intro fuel i e1 e2 e3 alt buf hk hf
    obtain ⟨f', rfl⟩ : ∃ f', fuel = f' + 1 := ⟨fuel - 1, by omega⟩
    rw [encode_Encoder_Reset.loop11_448.loop13_457]
    have hlt : ¬ ((i : Int) - 1 + 1 < Int.ofNat lst.length) := by simp only [Int.ofNat_eq_natCast]; omega
    have hd : lst.drop i = [] := List.drop_eq_nil_of_le (by omega)
    have hL := encAux_slice_pal_length pal (Go.idx_int (t72 + 1))
    have hm1 : (-1 : Int) = ((0 : Nat) : Int) - 1 := by simp
    simp only [hlt, decide_false, Bool.false_eq_true, if_false, hd, List.all_nil, Bool.and_true, palDone,
      encAux_slice_kk, hm1]
    rw [loop27_458_spec md inf _ _ f' 0 _ buf (Nat.zero_add _) (by omega),
      loop31_459_spec md inf _ _ f' 0 _ buf (Nat.zero_add _) (by omega),
      loop35_460_spec md inf _ _ f' 0 _ _ buf (Nat.zero_add _) (by omega),
      loop37_461_spec md inf _ _ f' 0 _ _ buf (Nat.zero_add _) (by omega)]
    simp only [List.drop_zero]
  | succ k ih =>
    intro fuel i e1 e2 e3 alt buf hk hf
    obtain ⟨f', rfl⟩ : ∃ f', fuel = f' + 1 := ⟨fuel - 1, by omega⟩
    rw [encode_Encoder_Reset.loop11_448.loop13_457]
    have hi : i < lst.length := by omega
    have hlt : ((i : Int) - 1 + 1 < Int.ofNat lst.length) := by simp only [Int.ofNat_eq_natCast]; omega
    have e1' : (i : Int) - 1 + 1 = ((i + 1 : Nat) : Int) - 1 := by omega
    have e2' : Go.idx_int ((i : Int) - 1 + 1) = i := by simp [Go.idx_int]
    simp only [hlt, decide_true, if_true, e2', encAux_sliceGet_lt _ _ hi]
    rw [e1']
    simp only [ih f' (i + 1) _ _ _ alt buf (by omega) (by omega)]
    rw [List.drop_eq_getElem_cons hi]
    simp only [List.all_cons]
    have ho : (ivg_Color_Encode1 (ivg_RGBAColor lst[i])).2 = palOk1 lst[i] := rfl
    rw [ho]
    cases e1 <;> cases e2 <;> cases e3 <;> cases palOk1 lst[i] <;> cases ivg_Is2 lst[i] <;> cases ivg_Is3 lst[i] <;>
      simp

/-- Go `color.RGBA{0x00, 0x00, 0x00, 0xff}` -/
def goBlack : image_color_RGBA := ⟨0, 0, 0, 255⟩

/-- the index the first loop of the palette part of `Reset` stops at, scanning down from `t`: the last entry `≤ t`
    that is not opaque black -/
def lastNB (pal : Vector image_color_RGBA 64) : Nat → Option Nat
  | 0 => if Go.arrGet pal 0 = goBlack then none else some 0
  | t + 1 => if Go.arrGet pal (t + 1) = goBlack then lastNB pal t else some (t + 1)

/-- the palette chunk for a known `n` -/
def palChunkAt (pal : Vector image_color_RGBA 64) (md : ivg_Metadata) (inf : F32) (n : Nat) (buf : Bytes) :=
  palDone pal md inf (n : Int) ((Go.slice pal.toList 0 (n + 1)).all palOk1) ((Go.slice pal.toList 0 (n + 1)).all ivg_Is2)
    ((Go.slice pal.toList 0 (n + 1)).all ivg_Is3) buf

tolerant
theorem loop11_53_spec (pal : Vector image_color_RGBA 64) (md : ivg_Metadata) (inf : F32) :
    ∀ (t fuel : Nat) (alt buf : Bytes) (n : Nat), lastNB pal t = some n → t + 140 ≤ fuel →
      encode_Encoder_Reset.loop11_53 pal md inf fuel (t : Int) alt buf = palChunkAt pal md inf n buf := by
  have hexit : ∀ (t f' : Nat) (alt buf : Bytes), 139 ≤ f' →
      encode_Encoder_Reset.loop11_53.loop13_62 pal md inf (t : Int)
        (Go.slice pal.toList 0 (Go.idx_int ((t : Int) + 1)))
        (Int.ofNat (Go.slice pal.toList 0 (Go.idx_int ((t : Int) + 1))).length) f' true true true (-1) alt buf
        = palChunkAt pal md inf t buf := by
    intro t f' alt buf hf
    have hL := encAux_slice_pal_length pal (Go.idx_int ((t : Int) + 1))
    have hm1 : (-1 : Int) = ((0 : Nat) : Int) - 1 := by simp
    rw [hm1, loop13_62_spec pal md inf _ _ _ f' 0 true true true alt buf (Nat.zero_add _) (by omega)]
    have : Go.idx_int ((t : Int) + 1) = t + 1 := by simp only [Go.idx_int]; omega
    simp only [List.drop_zero, Bool.true_and, palChunkAt, this]
  intro t
  induction t with
  | zero =>
    intro fuel alt buf n hn hf
    obtain ⟨f', rfl⟩ : ∃ f', fuel = f' + 1 := ⟨fuel - 1, by omega⟩
    rw [encode_Encoder_Reset.loop11_53]
    have h0 : ((0 : Int) ≤ ((0 : Nat) : Int)) := by simp
    have hidx : Go.idx_int ((0 : Nat) : Int) = 0 := rfl
    simp only [lastNB] at hn
    split at hn
    · cases hn
    · rename_i hb
      cases hn
      have hb' : ¬ (Go.arrGet pal 0 = (⟨0, 0, 0, 255⟩ : image_color_RGBA)) := hb
      simp only [h0, decide_true, if_true, hidx, hb', decide_false, Bool.false_eq_true, if_false]
      exact hexit 0 f' alt buf (by omega)
  | succ t ih =>
    intro fuel alt buf n hn hf
    obtain ⟨f', rfl⟩ : ∃ f', fuel = f' + 1 := ⟨fuel - 1, by omega⟩
    rw [encode_Encoder_Reset.loop11_53]
    have h0 : ((0 : Int) ≤ ((t + 1 : Nat) : Int)) := by omega
    have hidx : Go.idx_int ((t + 1 : Nat) : Int) = t + 1 := by simp [Go.idx_int]
    have hsub : ((t + 1 : Nat) : Int) - 1 = (t : Int) := by omega
    simp only [lastNB] at hn
    split at hn
    · rename_i hb
      have hb' : (Go.arrGet pal (t + 1) = (⟨0, 0, 0, 255⟩ : image_color_RGBA)) := hb
      simp only [h0, decide_true, if_true, hidx, hb', hsub]
      exact ih f' alt buf n hn (by omega)
    · rename_i hb
      cases hn
      have hb' : ¬ (Go.arrGet pal (t + 1) = (⟨0, 0, 0, 255⟩ : image_color_RGBA)) := hb
      simp only [h0, decide_true, if_true, hidx, hb', decide_false, Bool.false_eq_true, if_false]
      exact hexit (t + 1) f' alt buf (by omega)

tolerant
theorem loop11_448_spec (pal : Vector image_color_RGBA 64) (md : ivg_Metadata) (inf : F32) :
    ∀ (t fuel : Nat) (alt buf : Bytes) (n : Nat), lastNB pal t = some n → t + 140 ≤ fuel →
      encode_Encoder_Reset.loop11_448 pal md inf fuel (t : Int) alt buf = palChunkAt pal md inf n buf := by
  have hexit : ∀ (t f' : Nat) (alt buf : Bytes), 139 ≤ f' →
      encode_Encoder_Reset.loop11_448.loop13_457 pal md inf (t : Int)
        (Go.slice pal.toList 0 (Go.idx_int ((t : Int) + 1)))
        (Int.ofNat (Go.slice pal.toList 0 (Go.idx_int ((t : Int) + 1))).length) f' true true true (-1) alt buf
        = palChunkAt pal md inf t buf := by
    intro t f' alt buf hf
    have hL := encAux_slice_pal_length pal (Go.idx_int ((t : Int) + 1))
    have hm1 : (-1 : Int) = ((0 : Nat) : Int) - 1 := by simp
    rw [hm1, loop13_457_spec pal md inf _ _ _ f' 0 true true true alt buf (Nat.zero_add _) (by omega)]
    have : Go.idx_int ((t : Int) + 1) = t + 1 := by simp only [Go.idx_int]; omega
    simp only [List.drop_zero, Bool.true_and, palChunkAt, this]
  intro t
  induction t with
  | zero =>
    intro fuel alt buf n hn hf
    obtain ⟨f', rfl⟩ : ∃ f', fuel = f' + 1 := ⟨fuel - 1, by omega⟩
    rw [encode_Encoder_Reset.loop11_448]
    have h0 : ((0 : Int) ≤ ((0 : Nat) : Int)) := by simp
    have hidx : Go.idx_int ((0 : Nat) : Int) = 0 := rfl
    simp only [lastNB] at hn
    split at hn
    · cases hn
    · rename_i hb
      cases hn
      have hb' : ¬ (Go.arrGet pal 0 = (⟨0, 0, 0, 255⟩ : image_color_RGBA)) := hb
      simp only [h0, decide_true, if_true, hidx, hb', decide_false, Bool.false_eq_true, if_false]
      exact hexit 0 f' alt buf (by omega)
  | succ t ih =>
    intro fuel alt buf n hn hf
    obtain ⟨f', rfl⟩ : ∃ f', fuel = f' + 1 := ⟨fuel - 1, by omega⟩
    rw [encode_Encoder_Reset.loop11_448]
    have h0 : ((0 : Int) ≤ ((t + 1 : Nat) : Int)) := by omega
    have hidx : Go.idx_int ((t + 1 : Nat) : Int) = t + 1 := by simp [Go.idx_int]
    have hsub : ((t + 1 : Nat) : Int) - 1 = (t : Int) := by omega
    simp only [lastNB] at hn
    split at hn
    · rename_i hb
      have hb' : (Go.arrGet pal (t + 1) = (⟨0, 0, 0, 255⟩ : image_color_RGBA)) := hb
      simp only [h0, decide_true, if_true, hidx, hb', hsub]
      exact ih f' alt buf n hn (by omega)
    · rename_i hb
      cases hn
      have hb' : ¬ (Go.arrGet pal (t + 1) = (⟨0, 0, 0, 255⟩ : image_color_RGBA)) := hb
      simp only [h0, decide_true, if_true, hidx, hb', decide_false, Bool.false_eq_true, if_false]
      exact hexit (t + 1) f' alt buf (by omega)

/-! ## from the Go palette loops to the model's `paletteChunk` -/

tolerant
theorem encAux_goBlack_iff (c : RGBA) : rgbaOf c = goBlack ↔ c = RGBA.black := by
  rw [show goBlack = rgbaOf RGBA.black from rfl, rgbaOf_inj]

tolerant
theorem encAux_arrGet_palOf (pal : Palette) (t : Nat) (ht : t < 64) : Go.arrGet (palOf pal) t = rgbaOf pal[t] := by
  simp only [Go.arrGet, palOf]
  simp [ht]

tolerant
theorem explicitCount_snoc (l : List RGBA) (x : RGBA) :
    Enc.explicitCount (l ++ [x]) = if x = RGBA.black then Enc.explicitCount l else l.length + 1 := by
  simp only [Enc.explicitCount, List.reverse_append, List.reverse_cons, List.reverse_nil, List.nil_append,
    List.cons_append, List.dropWhile_cons, beq_iff_eq]
  split <;> simp

tolerant
theorem explicitCount_take (pal : Palette) : ∀ (t : Nat) (_ : t < 64),
    Enc.explicitCount (pal.toList.take (t + 1)) = match lastNB (palOf pal) t with | some n => n + 1 | none => 0 := by
  intro t
  induction t with
  | zero =>
    intro ht
    have h1 : pal.toList.take (0 + 1) = [] ++ [pal[0]] := by
      rw [List.take_add_one]; simp
    rw [h1, explicitCount_snoc]
    simp only [lastNB, encAux_arrGet_palOf pal 0 ht, encAux_goBlack_iff]
    split <;> simp [Enc.explicitCount]
  | succ t ih =>
    intro ht
    have h1 : pal.toList.take (t + 1 + 1) = pal.toList.take (t + 1) ++ [pal[t + 1]] := by
      rw [List.take_add_one (i := t + 1)]; simp [ht]
    rw [h1, explicitCount_snoc]
    simp only [lastNB, encAux_arrGet_palOf pal (t + 1) ht, encAux_goBlack_iff]
    split
    · exact ih (by omega)
    · simp; omega

tolerant
theorem explicitCount_lastNB (pal : Palette) (n : Nat) (h : lastNB (palOf pal) 63 = some n) :
    Enc.explicitCount pal.toList = n + 1 := by
  have := explicitCount_take pal 63 (by decide)
  rw [h, List.take_of_length_le (by simp)] at this
  exact this

tolerant
theorem lastNB_le (pal : Vector image_color_RGBA 64) : ∀ t n, lastNB pal t = some n → n ≤ t := by
  intro t
  induction t with
  | zero => intro n h; simp only [lastNB] at h; split at h <;> simp_all
  | succ t ih =>
    intro n h; simp only [lastNB] at h
    split at h
    · have := ih n h; omega
    · cases h; exact Nat.le_refl _

tolerant
theorem lastNB_none (pal : Palette) : ∀ t (ht : t < 64), lastNB (palOf pal) t = none →
    ∀ j (hj : j ≤ t), pal[j]'(by omega) = RGBA.black := by
  intro t
  induction t with
  | zero =>
    intro ht h j hj
    have : j = 0 := by omega
    subst this
    simp only [lastNB, encAux_arrGet_palOf pal 0 ht, encAux_goBlack_iff] at h
    split at h <;> simp_all
  | succ t ih =>
    intro ht h j hj
    simp only [lastNB, encAux_arrGet_palOf pal (t + 1) ht, encAux_goBlack_iff] at h
    split at h
    · rename_i hb
      by_cases hjt : j = t + 1
      · subst hjt; exact hb
      · exact ih (by omega) h j (by omega)
    · cases h

tolerant
theorem lastNB_of_ne_default (pal : Palette) (h : pal ≠ defaultPalette) : ∃ n, lastNB (palOf pal) 63 = some n := by
  cases hl : lastNB (palOf pal) 63 with
  | some n => exact ⟨n, rfl⟩
  | none =>
    exfalso
    apply h
    have hall := lastNB_none pal 63 (by decide) hl
    apply Vector.ext
    intro i hi
    rw [hall i (by omega)]
    simp [defaultPalette, Regs.const]

tolerant
theorem encAux_encodeNatural_len (u : Nat) : (Enc.encodeNatural u).length ≤ 4 := by
  unfold Enc.encodeNatural
  split
  · simp
  · split <;> simp

tolerant
theorem encAux_encodeCoordinate_len (f : F32) : (Enc.encodeCoordinate f).length ≤ 4 := by
  simp only [Enc.encodeCoordinate]
  split
  · simp
  · split <;> simp [Enc.encode4ByteReal]

tolerant
theorem encAux_flatMap_len_le {α : Type} (f : α → Bytes) (hf : ∀ x, (f x).length ≤ 4) (l : List α) :
    (l.flatMap f).length ≤ 4 * l.length := by
  induction l with
  | nil => simp
  | cons a l ih => simp only [List.flatMap_cons, List.length_append, List.length_cons]; have := hf a; omega

tolerant
theorem paletteChunk_len (pal : Palette) : (Enc.paletteChunk pal).length ≤ 300 := by
  have hc : (pal.toList.take (Enc.explicitCount pal.toList)).length ≤ 64 := by
    rw [List.length_take]; simp; omega
  have h0 := encAux_encodeNatural_len 1
  have h1 := encAux_flatMap_len_le (fun c => Enc.paletteChunk.encodeColor1' c)
    (fun c => by simp only [Enc.paletteChunk.encodeColor1']; split <;> simp)
    (pal.toList.take (Enc.explicitCount pal.toList))
  have h2 := encAux_flatMap_len_le (fun c => Enc.paletteChunk.encodeColor2' c)
    (fun c => by simp only [Enc.paletteChunk.encodeColor2']; split <;> simp)
    (pal.toList.take (Enc.explicitCount pal.toList))
  have h3 := encAux_flatMap_len_le (fun c : RGBA => [c.r, c.g, c.b]) (fun c => by simp)
    (pal.toList.take (Enc.explicitCount pal.toList))
  have h4 := encAux_flatMap_len_le (fun c : RGBA => [c.r, c.g, c.b, c.a]) (fun c => by simp)
    (pal.toList.take (Enc.explicitCount pal.toList))
  simp only [Enc.paletteChunk]
  split
  · simp only [List.length_append, List.length_cons, List.length_nil]; omega
  split
  · simp only [List.length_append, List.length_cons, List.length_nil]; omega
  split
  · simp only [List.length_append, List.length_cons, List.length_nil]; omega
  · simp only [List.length_append, List.length_cons, List.length_nil]; omega

tolerant
theorem viewBoxChunk_len (vb : ViewBox F32) : (Enc.viewBoxChunk vb).length ≤ 300 := by
  have h0 := encAux_encodeNatural_len 0
  have h1 := encAux_encodeCoordinate_len vb.minX
  have h2 := encAux_encodeCoordinate_len vb.minY
  have h3 := encAux_encodeCoordinate_len vb.maxX
  have h4 := encAux_encodeCoordinate_len vb.maxY
  simp only [Enc.viewBoxChunk, List.length_append]; omega

tolerant
theorem resetDone_eq (md : ivg_Metadata) (inf : F32) (buf alt : Bytes) (h : alt.length ≤ 300) :
    resetDone md inf buf alt = resetTuple md inf (buf ++ Enc.encodeNatural alt.length ++ alt) alt := by
  have : (Go.cvt_int_u32 (Int.ofNat alt.length)).toNat = alt.length := by
    simp only [Go.cvt_int_u32, Int.ofNat_eq_natCast, UInt32.toNat_ofNat']
    omega
  simp only [resetDone, encodeNatural_code_tie, this]

tolerant
theorem encAux_palOf_toList (pal : Palette) : (palOf pal).toList = pal.toList.map rgbaOf := by
  simp [palOf, Vector.toList_map]

tolerant
theorem palOk1_rgbaOf (c : RGBA) : palOk1 (rgbaOf c) = (Color.rgbaColor c).encode1.isSome := by
  simp only [palOk1, rGBAColor_code_tie, color_Encode1_code_tie]
  cases (Color.rgbaColor c).encode1 <;> rfl

tolerant
theorem palF1_rgbaOf (c : RGBA) : palF1 (rgbaOf c) = Enc.paletteChunk.encodeColor1' c := by
  simp only [palF1, rGBAColor_code_tie, color_Encode1_code_tie, Enc.paletteChunk.encodeColor1']
  cases (Color.rgbaColor c).encode1 <;> rfl

tolerant
theorem palF2_rgbaOf (c : RGBA) : palF2 (rgbaOf c) = Enc.paletteChunk.encodeColor2' c := by
  simp only [palF2, rGBAColor_code_tie, color_Encode2_code_tie, Enc.paletteChunk.encodeColor2']
  rcases (Color.rgbaColor c).encode2 with _ | ⟨x, y⟩ <;> simp [enc2Of, Go.arrGet]

tolerant
theorem all_palOk1_map (l : List RGBA) :
    (l.map rgbaOf).all palOk1 = l.all fun c => (Color.rgbaColor c).encode1.isSome := by
  induction l with
  | nil => rfl
  | cons a l ih => simp only [List.map_cons, List.all_cons, ih, palOk1_rgbaOf]

tolerant
theorem all_is2_map (l : List RGBA) : (l.map rgbaOf).all ivg_Is2 = l.all RGBA.is2 := by
  induction l with
  | nil => rfl
  | cons a l ih => simp only [List.map_cons, List.all_cons, ih, is2_code_tie]

tolerant
theorem all_is3_map (l : List RGBA) : (l.map rgbaOf).all ivg_Is3 = l.all RGBA.is3 := by
  induction l with
  | nil => rfl
  | cons a l ih => simp only [List.map_cons, List.all_cons, ih, is3_code_tie]

tolerant
theorem flatMap_palF1_map (l : List RGBA) :
    (l.map rgbaOf).flatMap palF1 = l.flatMap fun c => Enc.paletteChunk.encodeColor1' c := by
  induction l with
  | nil => rfl
  | cons a l ih => simp only [List.map_cons, List.flatMap_cons, ih, palF1_rgbaOf]

tolerant
theorem flatMap_palF2_map (l : List RGBA) :
    (l.map rgbaOf).flatMap palF2 = l.flatMap fun c => Enc.paletteChunk.encodeColor2' c := by
  induction l with
  | nil => rfl
  | cons a l ih => simp only [List.map_cons, List.flatMap_cons, ih, palF2_rgbaOf]

tolerant
theorem flatMap_palF3_map (l : List RGBA) :
    (l.map rgbaOf).flatMap palF3 = l.flatMap fun c => [c.r, c.g, c.b] := by
  induction l with
  | nil => rfl
  | cons a l ih => simp only [List.map_cons, List.flatMap_cons, ih]; rfl

tolerant
theorem flatMap_palF4_map (l : List RGBA) :
    (l.map rgbaOf).flatMap palF4 = l.flatMap fun c => [c.r, c.g, c.b, c.a] := by
  induction l with
  | nil => rfl
  | cons a l ih => simp only [List.map_cons, List.flatMap_cons, ih]; rfl

tolerant
theorem palChunkAt_model (pal : Palette) (md : ivg_Metadata) (inf : F32) (n : Nat) (buf : Bytes)
    (h : lastNB (palOf pal) 63 = some n) :
    palChunkAt (palOf pal) md inf n buf
      = resetTuple md inf (buf ++ Enc.encodeNatural (Enc.paletteChunk pal).length ++ Enc.paletteChunk pal)
          (Enc.paletteChunk pal) := by
  have hn := explicitCount_lastNB pal n h
  have hn63 := lastNB_le _ _ _ h
  have hsl : Go.slice (palOf pal).toList 0 (n + 1) = (pal.toList.take (n + 1)).map rgbaOf := by
    simp only [Go.slice, encAux_palOf_toList, List.drop_zero, List.map_take]
  have hidx : Go.idx_int ((n : Int) + 1) = n + 1 := by simp only [Go.idx_int]; omega
  have hnb : Go.cvt_int_u8 (n : Int) = Enc.byte (n + 1 - 1) := by
    rw [encAux_cvt_int_u8_natCast]
    apply UInt8.toNat_inj.1
    simp [Enc.byte]
  have ha0 : encode_buffer_encodeNatural [] 1 = Enc.encodeNatural 1 := by
    rw [encodeNatural_code_tie]; rfl
  have hall1 := all_palOk1_map (pal.toList.take (n + 1))
  have hall2 := all_is2_map (pal.toList.take (n + 1))
  have hall3 := all_is3_map (pal.toList.take (n + 1))
  have hf1 := flatMap_palF1_map (pal.toList.take (n + 1))
  have hf2 := flatMap_palF2_map (pal.toList.take (n + 1))
  have hf3 := flatMap_palF3_map (pal.toList.take (n + 1))
  have hf4 := flatMap_palF4_map (pal.toList.take (n + 1))
  have hlen := paletteChunk_len pal
  have hpc : Enc.paletteChunk pal =
      Enc.encodeNatural 1 ++
        (if ((pal.toList.take (n + 1)).all fun c => (Color.rgbaColor c).encode1.isSome) then
          [Enc.byte (n + 1 - 1) ||| 0x00] ++ (pal.toList.take (n + 1)).flatMap fun c => Enc.paletteChunk.encodeColor1' c
        else if (pal.toList.take (n + 1)).all RGBA.is2 then
          [Enc.byte (n + 1 - 1) ||| 0x40] ++ (pal.toList.take (n + 1)).flatMap fun c => Enc.paletteChunk.encodeColor2' c
        else if (pal.toList.take (n + 1)).all RGBA.is3 then
          [Enc.byte (n + 1 - 1) ||| 0x80] ++ (pal.toList.take (n + 1)).flatMap fun c => [c.r, c.g, c.b]
        else [Enc.byte (n + 1 - 1) ||| 0xc0] ++ (pal.toList.take (n + 1)).flatMap fun c => [c.r, c.g, c.b, c.a]) := by
    simp only [Enc.paletteChunk, hn]
  rw [hpc] at hlen ⊢
  simp only [palChunkAt, palDone, hidx, hsl, hall1, hall2, hall3, hf1, hf2, hf3, hf4, hnb, ha0]
  split
  · rename_i h1
    simp only [h1, if_true] at hlen ⊢
    rw [resetDone_eq _ _ _ _ (by simpa using hlen)]
    simp
  split
  · rename_i h1 h2
    simp only [h1, h2, if_true, if_false, Bool.false_eq_true] at hlen ⊢
    rw [resetDone_eq _ _ _ _ (by simpa using hlen)]
    simp
  split
  · rename_i h1 h2 h3
    simp only [h1, h2, h3, if_true, if_false, Bool.false_eq_true] at hlen ⊢
    rw [resetDone_eq _ _ _ _ (by simpa using hlen)]
    simp
  · rename_i h1 h2 h3
    simp only [h1, h2, h3, if_false, Bool.false_eq_true] at hlen ⊢
    rw [resetDone_eq _ _ _ _ (by simpa using hlen)]
    simp

/-- Go `e.altBuf` after `Reset`: the last metadata chunk written -/
def resetAltBuf (vb : ViewBox F32) (pal : Palette) : Bytes :=
  if pal != defaultPalette then Enc.paletteChunk pal
  else if Enc.vbNeDefault vb then Enc.viewBoxChunk vb else []

tolerant
/-- encode.go `(*Encoder).Reset` (writes every field: `*e = Encoder{…}`, then the metadata chunks) =
    `Encoder.step … (.reset vb pal)`, for every view box, every palette, every previous state and incoming `buf`;
    `fuel ≥ 203`. -/
theorem reset_code_tie (m : Enc.Encoder) (e_buf : Bytes) (vb : ViewBox F32) (pal : Palette) (fuel : Nat)
    (hf : 203 ≤ fuel) :
    encode_Encoder_Reset fuel e_buf (vbOf vb) (palOf pal)
      = ((m.step (.reset vb pal)).hiRes, (m.step (.reset vb pal)).hiResLocal, (m.step (.reset vb pal)).buf,
         resetAltBuf vb pal, (⟨vbOf vb, palOf pal⟩ : ivg_Metadata), goErr (m.step (.reset vb pal)).err,
         (m.step (.reset vb pal)).lod0, (m.step (.reset vb pal)).lod1, (m.step (.reset vb pal)).cSel,
         (m.step (.reset vb pal)).nSel, goMode (m.step (.reset vb pal)).mode,
         goDrawOp (m.step (.reset vb pal)).drawOp, (m.step (.reset vb pal)).drawArgs.flatten,
         Vector.replicate 12 (0 : UInt8)) := by
  have h16 : (!((F32.feq (vbOf vb).MinX G_ivg_DefaultViewBox.MinX) && (F32.feq (vbOf vb).MinY G_ivg_DefaultViewBox.MinY)
      && (F32.feq (vbOf vb).MaxX G_ivg_DefaultViewBox.MaxX) && (F32.feq (vbOf vb).MaxY G_ivg_DefaultViewBox.MaxY)))
      = Enc.vbNeDefault vb := rfl
  have h22 : decide (palOf pal ≠ G_ivg_DefaultPalette) = (pal != defaultPalette) := by
    rw [defaultPalette_code_tie]
    by_cases h : pal = defaultPalette
    · simp [h]
    · have : palOf pal ≠ palOf defaultPalette := fun h' => h (palOf_inj.1 h')
      simp [h, this]
  have hvbc : ∀ b : Bytes,
      (encode_buffer_encodeCoordinate (encode_buffer_encodeCoordinate (encode_buffer_encodeCoordinate
        (encode_buffer_encodeCoordinate (encode_buffer_encodeNatural [] 0) (vbOf vb).MinX).2 (vbOf vb).MinY).2
        (vbOf vb).MaxX).2 (vbOf vb).MaxY).2 = Enc.viewBoxChunk vb := by
    intro b
    simp only [encodeCoordinate_code_tie, encodeNatural_code_tie, Enc.viewBoxChunk, vbOf, List.nil_append,
      List.append_assoc]
    rfl
  have hvl := viewBoxChunk_len vb
  have hvlen : (Go.cvt_int_u32 (Int.ofNat (Enc.viewBoxChunk vb).length)).toNat = (Enc.viewBoxChunk vb).length := by
    simp only [Go.cvt_int_u32, Int.ofNat_eq_natCast, UInt32.toNat_ofNat']
    omega
  unfold encode_Encoder_Reset
  simp only [h16, h22, encAux_slice_kk, encAux_magic_bytes, List.nil_append, show (encode_Encoder.zero).altBuf = [] from rfl,
    hvbc [], positiveInfinity_code_tie_enc]
  by_cases hp : pal = defaultPalette
  · -- no palette chunk: no loop runs
    have hpb : (pal != defaultPalette) = false := by simp [hp]
    simp only [hpb, Bool.false_eq_true, if_false]
    by_cases hv : Enc.vbNeDefault vb = true
    · simp only [hv, if_true, encodeNatural_code_tie, hvlen]
      simp [Enc.Encoder.step, Enc.Encoder.reset, hv, hpb, resetAltBuf, goErr, goMode, goDrawOp, encode_Encoder.zero,
        Go.cvt_int_u32]
      rfl
    · have hv' : Enc.vbNeDefault vb = false := by simpa using hv
      simp only [hv', Bool.false_eq_true, if_false, encodeNatural_code_tie]
      simp [Enc.Encoder.step, Enc.Encoder.reset, hv', hpb, resetAltBuf, goErr, goMode, goDrawOp, encode_Encoder.zero,
        Go.cvt_int_u32]
      rfl
  · have hpb : (pal != defaultPalette) = true := by simp [hp]
    obtain ⟨n, hn⟩ := lastNB_of_ne_default pal hp
    simp only [hpb, if_true]
    have h63 : (63 : Int) = ((63 : Nat) : Int) := rfl
    by_cases hv : Enc.vbNeDefault vb = true
    · simp only [hv, if_true, encodeNatural_code_tie, hvlen, h63]
      rw [loop11_53_spec _ _ _ 63 fuel _ _ n hn (by omega), palChunkAt_model _ _ _ _ _ hn]
      simp [Enc.Encoder.step, Enc.Encoder.reset, hv, hpb, resetAltBuf, goErr, goMode, goDrawOp, encode_Encoder.zero,
        Go.cvt_int_u32, resetTuple]
      rfl
    · have hv' : Enc.vbNeDefault vb = false := by simpa using hv
      simp only [hv', Bool.false_eq_true, if_false, encodeNatural_code_tie, h63]
      rw [loop11_448_spec _ _ _ 63 fuel _ _ n hn (by omega), palChunkAt_model _ _ _ _ _ hn]
      simp [Enc.Encoder.step, Enc.Encoder.reset, hv', hpb, resetAltBuf, goErr, goMode, goDrawOp, encode_Encoder.zero,
        Go.cvt_int_u32, resetTuple]
      rfl

tolerant
/-- encode.go `Reset` on the whole state: whatever the Go state `g` was, afterwards it represents the model's reset
    state, with `altBuf`, `metadata`, `scratch` as described above. -/
theorem reset_code_tie_state (m : Enc.Encoder) (g : encode_Encoder) (vb : ViewBox F32) (pal : Palette) (fuel : Nat)
    (hf : 203 ≤ fuel) :
    (let r := encode_Encoder_Reset fuel g.buf (vbOf vb) (palOf pal)
     (⟨r.1, r.2.1, r.2.2.1, r.2.2.2.1, r.2.2.2.2.1, r.2.2.2.2.2.1, r.2.2.2.2.2.2.1, r.2.2.2.2.2.2.2.1,
       r.2.2.2.2.2.2.2.2.1, r.2.2.2.2.2.2.2.2.2.1, r.2.2.2.2.2.2.2.2.2.2.1, r.2.2.2.2.2.2.2.2.2.2.2.1,
       r.2.2.2.2.2.2.2.2.2.2.2.2.1, r.2.2.2.2.2.2.2.2.2.2.2.2.2⟩ : encode_Encoder))
      = encOf (m.step (.reset vb pal))
          { g with altBuf := resetAltBuf vb pal, metadata := ⟨vbOf vb, palOf pal⟩,
                   scratch := Vector.replicate 12 (0 : UInt8) } := by
  simp only [reset_code_tie m g.buf vb pal fuel hf, encOf]

set_option maxRecDepth 100000 in
/-- non-vacuity: a palette with a non-default entry takes the loop path (`n = 5`), a default one does not -/
example : lastNB (palOf (defaultPalette.set 5 ⟨1, 2, 3, 255⟩)) 63 = some 5 ∧ lastNB (palOf defaultPalette) 63 = none := by
  decide +kernel

end Ivg.Gen.Tie
