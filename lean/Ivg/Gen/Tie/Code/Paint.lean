import Ivg.Gen.Tie.Code.Draw
import Ivg.Gen.Tie.Code.GradAt
import Ivg.Gen.Tie.Code.RenderRegs
/-!
# Tie: `Renderer.StartPath` and `Renderer.ClosePathEndPath` as TRANSLATED from render/render.go = the model's `step`,
for all states and operands (C04: which paint a path gets, when it is skipped, the level-of-detail test; C05: the path is
drawn once over the target rectangle with source point (0,0))

Go keeps the paint as `z.fill image.Image`, an interface holding `&z.flatImage` (whose `C` holds `&z.flatColor`) or
`&z.gradient`; the translation represents such a value as a handle (`Go.Ref`, the field's path).  The model keeps the paint
itself (`fill : Paint`).  `FillRep` relates the two: a flat paint is the handle "flatImage", whose `C` is the handle
"flatColor" (THIS Renderer's own colour field, not one shared with a copy), together with the colour in `z.flatColor`, a gradient paint the handle "gradient" together with `z.gradient`.  StartPath establishes the relation
whenever the path is NOT disabled (when it is disabled no `Draw` follows and the next StartPath chooses again — a gradient
that turns out invalid leaves Go's fields in a state the model does not track); ClosePathEndPath uses it through `pf`.
-/
namespace Ivg.Gen.Tie
open Ivg Ivg.Num Ivg.Gen.Code Ivg.Ren Grad

instance : Inhabited RastObj := ⟨⟨⟨0⟩, ⟨0⟩, ⟨0⟩, ⟨0⟩, []⟩⟩

/-- the model paint represented by Go's `(z.fill, z.flatColor, z.gradient)` -/
def FillRep (p : Paint F64) (ref : Go.Ref) (flatColor : image_color_RGBA) (flatImage : image_Uniform)
    (gradient : render_Gradient) : Prop :=
  match p with
  | .flat c => ref = "flatImage" ∧ flatImage.C = "flatColor" ∧ flatColor = rgbaOf c
  | .gradient g => ref = "gradient" ∧ gradient = gradientOf g

section
variable (pf : Go.Ref → Paint F64) (arc : ArcFn F32 F64) (pinf : F32) (z : Rn) (l : Log)

tolerant
/-- render.go `(*Renderer).ClosePathEndPath`: close the path and draw it ONCE, over `z.r`, with the current paint and
    source point (0,0) — or do nothing when the path is disabled -/
theorem closePathEndPath_code_tie (ref : Go.Ref) (h : pf ref = z.fill) :
    render_Renderer_ClosePathEndPath (rastOps pf) (objOf z l) (rectOf z.r) z.disabled ref
      = objOf (z.step arc pinf .closeEnd).1 (l ++ (z.step arc pinf .closeEnd).2) := by
  unfold render_Renderer_ClosePathEndPath
  cases hd : z.disabled <;> simp only [hd, Bool.false_eq_true, ↓reduceIte] <;>
    simp [Renderer.step, hd, objOf, rastOps, Renderer.closePath, image_Pt, rectOf, h]

/-- the Go register read `z.cReg[(z.cSel-adj)&0x3f]` -/
private theorem creg_read (adj : UInt8) :
    Go.arrGet (palOf z.cReg) (Go.idx_u8 ((z.cSel - adj) &&& 63)) = rgbaOf (z.cReg.get6 (z.cSel - adj)) := by
  rw [arrGet_and63, get6_palOf]

tolerant
/-- render.go `(*Renderer).StartPath`, for `fuel ≥ 127` (the gradient stop loop; at most 63 stops), any previous paint
    fields: the rasteriser object and log, `disabled` and the smooth-curve type are the model's; `z.flatColor` is the
    register read; and when the path is not disabled the paint fields represent the model's paint. -/
theorem startPath_code_tie (fuel : Nat) (hf : 127 ≤ fuel) (ref0 : Go.Ref) (fi0 : image_Uniform) (g0 : render_Gradient)
    (st0 : Vector render_Stop 64) (adj : UInt8) (x y : F32) :
    let R := render_Renderer_StartPath (rastOps pf) fuel (objOf z l) (rectOf z.r) z.scaleX z.biasX z.scaleY z.biasY
              z.lod0 z.lod1 z.cSel (stOf z) ref0 fi0 g0 (palOf z.cReg) z.nReg st0 adj x y
    let o := z.step arc pinf (.startPath adj x y)
    R.1 = objOf o.1 (l ++ o.2) ∧ R.2.1 = o.1.disabled ∧ R.2.2.1 = stOf o.1 ∧
    R.2.2.2.2.1 = rgbaOf (z.cReg.get6 (z.cSel - adj)) ∧
    (o.1.disabled = false → FillRep o.1.fill R.2.2.2.1 R.2.2.2.2.1 R.2.2.2.2.2.1 R.2.2.2.2.2.2.1) := by
  intro R o
  have hdy : ∀ i : Int, Go.cvt_int_f32 i = (Arith.ofInt i : F32) := fun _ => rfl
  have hrgba : ∀ c : RGBA, (⟨c.r, c.g, c.b, c.a⟩ : image_color_RGBA) = rgbaOf c := fun _ => rfl
  have hdx : image_Rectangle_Dx (rectOf z.r) = z.r.dx := rectangle_Dx_code_tie z.r
  have hdy' : image_Rectangle_Dy (rectOf z.r) = z.r.dy := rectangle_Dy_code_tie z.r
  -- the model's gradient initialisation against Go's
  have hg := renderer_initGradient_code_tie fuel z g0 st0 (z.cReg.get6 (z.cSel - adj))
    (by have := decodeGradient_nStops_le (z.cReg.get6 (z.cSel - adj))
        have h63 : (decodeGradient (z.cReg.get6 (z.cSel - adj))).nStops.toNat = (z.cReg.get6 (z.cSel - adj)).r.toNat % 64 :=
          u8_and63_toNat _
        omega)
  simp only [R, o, render_Renderer_StartPath, creg_read, validAlphaPremulColor_code_tie, validGradient_code_tie,
    hdy, hdx, hdy', Renderer.step, Renderer.startPath]
  generalize hc : z.cReg.get6 (z.cSel - adj) = c at *
  by_cases hv : c.validPremul = true
  · -- a flat colour
    simp only [hv, ↓reduceIte, rgbaOf_A, rgbaOf_R, rgbaOf_G, rgbaOf_B, hrgba]
    by_cases ha : c.a = 0
    · simp [ha, objOf, stOf, FillRep]
    · by_cases h0 : F32.le z.lod0 (Arith.ofInt z.r.dy) = true <;> by_cases h1 : F32.lt (Arith.ofInt z.r.dy) z.lod1 = true <;>
        simp [ha, h0, h1, f32_le_iff, f32_lt_iff, objOf, stOf, FillRep, rastOps, Renderer.moveTo, render_Renderer_absVec2,
          render_Renderer_absX, render_Renderer_absY, Renderer.absX, Renderer.absY, Go.ref]
  · simp only [hv, Bool.false_eq_true, ↓reduceIte]
    by_cases hgr : c.validGradient = true
    · -- a gradient value
      simp only [hgr, ↓reduceIte]
      cases hi : z.initGradient c with
      | none =>
        rw [hi] at hg
        simp only at hg
        simp [hg, objOf, stOf]
      | some g =>
        rw [hi] at hg
        obtain ⟨hg1, hg2⟩ := hg
        by_cases h0 : F32.le z.lod0 (Arith.ofInt z.r.dy) = true <;> by_cases h1 : F32.lt (Arith.ofInt z.r.dy) z.lod1 = true <;>
          simp [hg1, hg2, h0, h1, f32_le_iff, f32_lt_iff, objOf, stOf, FillRep, rastOps, Renderer.moveTo,
            render_Renderer_absVec2, render_Renderer_absX, render_Renderer_absY, Renderer.absX, Renderer.absY, Go.ref]
    · -- neither: the path is disabled
      simp [hgr, objOf, stOf]

end

end Ivg.Gen.Tie
