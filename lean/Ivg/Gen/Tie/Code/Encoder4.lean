import Ivg.Gen.Tie.Code.Encoder3
/-!
# Tie: `(*Encoder).Bytes` of `encode/encode.go`; frame facts of the model's methods; `WFEnc` is an invariant
(part 4 of the Encoder ties)

* `…_frame`: the fields each model method leaves alone — exactly the fields the corresponding Go method does not
  write (the generated function does not return them).  Together with the `…_code_tie` of the method (which gives the
  new values of the fields it does write) they determine the whole Go state after the call: `Encoder5.lean`.
* `wfEnc_init`, `wfEnc_step`, `wfEnc_stepOp`: `WFEnc` holds for the zero Encoder and is preserved by every call of the
  `Destination` API, by the reads, by `Bytes` and by setting `HighResolutionCoordinates`; so it holds on every
  reachable state (`wfEnc_run`, `wfEnc_runOps`).
* `bytes_code_tie`: the generated `Bytes` = the model's `Encoder.bytes` (result pair through `goBytesResult`).
-/
namespace Ivg.Gen.Tie
open Ivg Ivg.Num Ivg.Gen Ivg.Gen.Code
set_option linter.unusedSimpArgs false

tolerant
theorem wfEnc_of_eq {a b : Enc.Encoder} (h1 : a.drawOp = b.drawOp) (h2 : a.drawArgs = b.drawArgs)
    (h : WFEnc b) : WFEnc a := by
  unfold WFEnc at *; rw [h1, h2]; exact h

tolerant
/-- the zero Encoder is well formed -/
theorem wfEnc_init : WFEnc ({} : Enc.Encoder) := by decide

tolerant
theorem setCSel_frame (m : Enc.Encoder) (v : UInt8) :
    (m.setCSel v).hiRes = m.hiRes ∧ (m.setCSel v).hiResLocal = m.hiResLocal ∧ (m.setCSel v).lod0 = m.lod0 ∧
    (m.setCSel v).lod1 = m.lod1 ∧ (m.setCSel v).nSel = m.nSel ∧ (m.setCSel v).drawOp = m.drawOp ∧
    (m.setCSel v).drawArgs = m.drawArgs := by
  have := checkModeStyling_frame m
  simp only [Enc.Encoder.setCSel]
  generalize m.checkModeStyling = e at *
  split <;> simp_all

tolerant
theorem setNSel_frame (m : Enc.Encoder) (v : UInt8) :
    (m.setNSel v).hiRes = m.hiRes ∧ (m.setNSel v).hiResLocal = m.hiResLocal ∧ (m.setNSel v).lod0 = m.lod0 ∧
    (m.setNSel v).lod1 = m.lod1 ∧ (m.setNSel v).cSel = m.cSel ∧ (m.setNSel v).drawOp = m.drawOp ∧
    (m.setNSel v).drawArgs = m.drawArgs := by
  have := checkModeStyling_frame m
  simp only [Enc.Encoder.setNSel]
  generalize m.checkModeStyling = e at *
  split <;> simp_all

tolerant
theorem setCReg_frame (m : Enc.Encoder) (adj : UInt8) (incr : Bool) (c : Color) :
    (m.setCReg adj incr c).hiRes = m.hiRes ∧ (m.setCReg adj incr c).hiResLocal = m.hiResLocal ∧
    (m.setCReg adj incr c).lod0 = m.lod0 ∧ (m.setCReg adj incr c).lod1 = m.lod1 ∧
    (m.setCReg adj incr c).nSel = m.nSel ∧ (m.setCReg adj incr c).drawOp = m.drawOp ∧
    (m.setCReg adj incr c).drawArgs = m.drawArgs := by
  have := checkModeStyling_frame m
  simp only [Enc.Encoder.setCReg]
  generalize m.checkModeStyling = e at *
  generalize Enc.cregForm c = cf
  split
  · simp_all
  split
  · simp_all
  cases incr <;> simp_all

tolerant
theorem setNReg_frame (m : Enc.Encoder) (adj : UInt8) (incr : Bool) (f : F32) :
    (m.setNReg adj incr f).hiRes = m.hiRes ∧ (m.setNReg adj incr f).hiResLocal = m.hiResLocal ∧
    (m.setNReg adj incr f).lod0 = m.lod0 ∧ (m.setNReg adj incr f).lod1 = m.lod1 ∧
    (m.setNReg adj incr f).cSel = m.cSel ∧ (m.setNReg adj incr f).drawOp = m.drawOp ∧
    (m.setNReg adj incr f).drawArgs = m.drawArgs := by
  have := checkModeStyling_frame m
  simp only [Enc.Encoder.setNReg]
  generalize m.checkModeStyling = e at *
  generalize Enc.nregForm f = cf
  split
  · simp_all
  split
  · simp_all
  cases incr <;> simp_all

tolerant
theorem setLOD_frame (m : Enc.Encoder) (l0 l1 : F32) :
    (m.setLOD l0 l1).hiRes = m.hiRes ∧ (m.setLOD l0 l1).hiResLocal = m.hiResLocal ∧
    (m.setLOD l0 l1).cSel = m.cSel ∧ (m.setLOD l0 l1).nSel = m.nSel ∧ (m.setLOD l0 l1).drawOp = m.drawOp ∧
    (m.setLOD l0 l1).drawArgs = m.drawArgs := by
  have := checkModeStyling_frame m
  simp only [Enc.Encoder.setLOD]
  generalize m.checkModeStyling = e at *
  split <;> simp_all

tolerant
theorem startPath_frame (m : Enc.Encoder) (adj : UInt8) (x y : F32) :
    (m.startPath adj x y).hiRes = m.hiRes ∧ (m.startPath adj x y).lod0 = m.lod0 ∧
    (m.startPath adj x y).lod1 = m.lod1 ∧ (m.startPath adj x y).cSel = m.cSel ∧
    (m.startPath adj x y).nSel = m.nSel ∧ (m.startPath adj x y).drawOp = m.drawOp ∧
    (m.startPath adj x y).drawArgs = m.drawArgs := by
  have := checkModeStyling_frame m
  simp only [Enc.Encoder.startPath]
  generalize m.checkModeStyling = e at *
  split
  · simp_all
  split <;> simp_all

tolerant
theorem draw_frame (m : Enc.Encoder) (op : Enc.DrawOp) (args : List F32) :
    (m.draw op args).hiRes = m.hiRes ∧ (m.draw op args).hiResLocal = m.hiResLocal ∧
    (m.draw op args).lod0 = m.lod0 ∧ (m.draw op args).lod1 = m.lod1 ∧ (m.draw op args).cSel = m.cSel ∧
    (m.draw op args).nSel = m.nSel := by
  unfold Enc.Encoder.draw
  split
  · simp
  split
  · simp
  have h1 := flush_frame m
  simp only []
  split <;> split <;> split <;> simp [flush_frame, h1]

tolerant
theorem wfEnc_draw (m : Enc.Encoder) (h : WFEnc m) (op : Enc.DrawOp) (args : List F32)
    (ha : args.length = (Enc.opInfo op).nArgs) : WFEnc (m.draw op args) := by
  unfold Enc.Encoder.draw
  split
  · exact h
  split
  · exact wfEnc_of_eq rfl rfl h
  -- the state after the conditional flush
  generalize hm1 : (if m.drawOp ≠ some op then m.flushDrawOps else m) = m1
  have hwf1 : WFEnc m1 := by rw [← hm1]; split; exact wfEnc_flush m h; exact h
  have hop1 : m1.drawOp = some op ∨ (m1.drawOp = none ∧ m1.drawArgs = []) := by
    rw [← hm1]
    by_cases hd : m.drawOp = some op
    · simp [hd]
    · simp [hd, flush_drawOp, flush_drawArgs m h]
  simp only []
  have hwf2 : ∀ md, WFEnc ({ (if (Enc.opInfo op).nArgs = 0 then { m1 with drawOp := some op }
      else { ({ m1 with drawOp := some op } : Enc.Encoder) with
              drawArgs := ({ m1 with drawOp := some op } : Enc.Encoder).drawArgs ++ [args] }) with mode := md }
        : Enc.Encoder) := by
    intro md
    rcases hop1 with h1 | ⟨h1, h1'⟩
    · have hw := hwf1; unfold WFEnc at hw; rw [h1] at hw
      split
      · exact hw
      · intro g hg
        rcases List.mem_append.1 hg with hg | hg
        · exact hw g hg
        · simp at hg; rw [hg]; exact ha
    · split
      · simp [WFEnc, h1']
      · intro g hg; simp [h1'] at hg; rw [hg]; exact ha
  split
  · exact wfEnc_flush _ (hwf2 _)
  · exact wfEnc_flush _ (wfEnc_of_eq rfl rfl (hwf2 .drawing))
  · exact wfEnc_flush _ (wfEnc_of_eq rfl rfl (hwf2 .drawing))
  · exact wfEnc_of_eq rfl rfl (hwf2 .drawing)

/-- non-vacuity of `WFEnc`: two buffered `LineTo` calls; and a state that is NOT well formed (operands without verb) -/
example : WFEnc { mode := .drawing, drawOp := some (.v2 .L), drawArgs := [[⟨0⟩, ⟨0x3f800000⟩], [⟨0⟩, ⟨0⟩]] } ∧
    ¬ WFEnc { drawArgs := [[⟨0⟩]] } := by decide

tolerant
/-- every call of the `Destination` API preserves `WFEnc` -/
theorem wfEnc_step (m : Enc.Encoder) (h : WFEnc m) (c : Call F32) : WFEnc (m.step c) := by
  cases c with
  | reset vb pal => simp [Enc.Encoder.step, Enc.Encoder.reset, WFEnc]
  | setCSel v => exact wfEnc_of_eq (setCSel_frame m v).2.2.2.2.2.1 (setCSel_frame m v).2.2.2.2.2.2 h
  | setNSel v => exact wfEnc_of_eq (setNSel_frame m v).2.2.2.2.2.1 (setNSel_frame m v).2.2.2.2.2.2 h
  | setCReg adj incr c =>
    exact wfEnc_of_eq (setCReg_frame m adj incr c).2.2.2.2.2.1 (setCReg_frame m adj incr c).2.2.2.2.2.2 h
  | setNReg adj incr f =>
    exact wfEnc_of_eq (setNReg_frame m adj incr f).2.2.2.2.2.1 (setNReg_frame m adj incr f).2.2.2.2.2.2 h
  | setLOD l0 l1 => exact wfEnc_of_eq (setLOD_frame m l0 l1).2.2.2.2.1 (setLOD_frame m l0 l1).2.2.2.2.2 h
  | startPath adj x y =>
    exact wfEnc_of_eq (startPath_frame m adj x y).2.2.2.2.2.1 (startPath_frame m adj x y).2.2.2.2.2.2 h
  | closeEnd => exact wfEnc_draw m h _ _ rfl
  | d1 w x => exact wfEnc_draw m h _ _ (by cases w <;> rfl)
  | d2 w x y => exact wfEnc_draw m h _ _ (by cases w <;> rfl)
  | d4 w a b c d => exact wfEnc_draw m h _ _ (by cases w <;> rfl)
  | d6 w a b c d x y => exact wfEnc_draw m h _ _ (by cases w <;> rfl)
  | arc rel rx ry rot la sw x y => exact wfEnc_draw m h _ _ (by cases rel <;> rfl)

tolerant
theorem wfEnc_appendDefaultMetadata (m : Enc.Encoder) (h : WFEnc m) : WFEnc m.appendDefaultMetadata :=
  wfEnc_of_eq rfl rfl h

tolerant
theorem wfEnc_stepOp (m : Enc.Encoder) (h : WFEnc m) (o : Enc.EncOp) : WFEnc (m.stepOp o).1 := by
  cases o with
  | call c => exact wfEnc_step m h c
  | readCSel => simp only [Enc.Encoder.stepOp, Enc.Encoder.readCSel]; split <;> first | exact h | exact wfEnc_of_eq rfl rfl h
  | readNSel => simp only [Enc.Encoder.stepOp, Enc.Encoder.readNSel]; split <;> first | exact h | exact wfEnc_of_eq rfl rfl h
  | readLOD => simp only [Enc.Encoder.stepOp, Enc.Encoder.readLOD]; split <;> first | exact h | exact wfEnc_of_eq rfl rfl h
  | bytes =>
    simp only [Enc.Encoder.stepOp, Enc.Encoder.bytes]
    split
    · exact h
    · split
      · exact wfEnc_flush _ (wfEnc_of_eq rfl rfl h)
      · exact wfEnc_flush _ h
  | setHiRes b => exact wfEnc_of_eq rfl rfl h

/-- Go `([]byte, error)` of the model's result -/
def goBytesResult : Except Enc.EncErr Bytes → Bytes × Go.Err
  | .ok b => (b, none)
  | .error e => ([], some (goErrStr e))

tolerant
/-- encode.go `(*Encoder).Bytes` (results `([]byte, error)`, then the written fields `buf`, `mode`, `drawOp`,
    `drawArgs`) = the model's `Encoder.bytes`; for every well-formed state and `fuel ≥ len(drawArgs) + 2`.
    (On error Go returns a nil slice; the model returns no bytes.) -/
theorem bytes_code_tie (m : Enc.Encoder) (hwf : WFEnc m) (fuel : Nat) (hf : m.drawArgs.flatten.length + 2 ≤ fuel) :
    encode_Encoder_Bytes fuel m.hiResLocal m.buf (goErr m.err) (goMode m.mode) (goDrawOp m.drawOp)
        m.drawArgs.flatten
      = ((goBytesResult m.bytes.2).1, (goBytesResult m.bytes.2).2, m.bytes.1.buf, goMode m.bytes.1.mode,
         goDrawOp m.bytes.1.drawOp, m.bytes.1.drawArgs.flatten) := by
  simp only [encode_Encoder_Bytes, goErr_isSome, Enc.Encoder.bytes]
  cases herr : m.err with
  | some e => simp [goBytesResult, goErr]
  | none =>
    simp only [Option.isSome_none, Bool.false_eq_true, if_false]
    have hmode : (goMode m.mode = 0) ↔ m.mode = .initial := by
      rw [show (0 : UInt8) = goMode .initial from rfl, goMode_inj]
    by_cases hi : m.mode = .initial
    · have h1 := flushDrawOps_code_tie m.appendDefaultMetadata (wfEnc_appendDefaultMetadata m hwf) fuel hf
      have h2 : m.appendDefaultMetadata.hiResLocal = m.hiResLocal ∧ m.appendDefaultMetadata.drawOp = m.drawOp ∧
          m.appendDefaultMetadata.drawArgs = m.drawArgs := ⟨rfl, rfl, rfl⟩
      simp only [h2] at h1
      have hg : goMode m.mode = 0 := hmode.2 hi
      simp only [hg, decide_true, if_true, appendDefaultMetadata_code_tie, h1, goBytesResult]
      simp [(flush_frame _).2.2.2.2.2.2.2, hi]
    · have h1 := flushDrawOps_code_tie m hwf fuel hf
      have hg : ¬ goMode m.mode = 0 := fun h => hi (hmode.1 h)
      simp only [hg, hi, decide_false, if_false, h1, goBytesResult]
      simp [(flush_frame _).2.2.2.2.2.2.2]

tolerant
/-- `WFEnc` holds after any sequence of `Destination` calls from a well-formed state -/
theorem wfEnc_run (cs : List (Call F32)) : ∀ (m : Enc.Encoder), WFEnc m → WFEnc (m.run cs) := by
  induction cs with
  | nil => intro m h; exact h
  | cons c cs ih => intro m h; exact ih _ (wfEnc_step m h c)

tolerant
/-- `WFEnc` holds after any history over the whole Encoder API -/
theorem wfEnc_runOps (os : List Enc.EncOp) : ∀ (m : Enc.Encoder), WFEnc m → WFEnc (m.runOps os).1 := by
  induction os with
  | nil => intro m h; exact h
  | cons o os ih =>
    intro m h
    simp only [Enc.Encoder.runOps]
    exact ih _ (wfEnc_stepOp m h o)

end Ivg.Gen.Tie
