import Ivg.Gen.Tie.Code.Encoder
/-!
# Tie: `(*Encoder).flushDrawOps` of `encode/encode.go`, as TRANSLATED from the Go source (nested loops), against the
model's `Encoder.flushDrawOps` / `chunks` / `encGroup`  (part 2 of the Encoder ties)

The Go method walks the FLAT `drawArgs []float32` with an index `i`: an outer loop over chunks of at most
`maxRepCount` repetitions (`loop7_13`), and inside it one of three inner loops — plain coordinates (`loop17_*`) or
the mixed operands of the two arc verbs (`loop15_*`); the translator duplicates the inner loops for the two ways
`m` is computed (`m = maxRepCount` or `m = n`), so there are six of them.  A nested loop returns `Sum.inr` (the
arguments of the enclosing loop's next round) when it is done and `Sum.inl default` when it runs out of fuel.

The proof has two stages:
1. over the flat list, with NO assumption on its shape: each inner loop appends `flatCoords`/`flatArcs`, the outer
   loop appends `flatChunks` (`loop7_13_flat`), for explicit fuel bounds (`j + 1 ≤ fuel` for an inner loop of `j`
   rounds, `n * nArgs + 2 ≤ fuel` for the outer loop with `n` groups left);
2. if the flat list is the concatenation of groups of `nArgs` operands (`WFEnc`), `flatChunks` is the model's `chunks`
   (`flatChunks_model`).

`flushDrawOps_code_tie`: for every well-formed model state and `fuel ≥ len(drawArgs) + 2` the generated function
returns the Go representation of the model's `flushDrawOps`.
-/
namespace Ivg.Gen.Tie
open Ivg Ivg.Num Ivg.Gen Ivg.Gen.Code
set_option linter.unusedSimpArgs false

/-- the bytes the plain-coordinate inner loop appends: operands `i, i+1, …, i+j-1` of the flat `drawArgs` -/
def flatCoords (hi : Bool) (args : List F32) : Nat → Nat → Bytes
  | _, 0 => []
  | i, j + 1 => Enc.encodeCoordinate (Enc.quantize hi (Go.sliceGet args i)) ++ flatCoords hi args (i + 1) j

/-- the bytes the arc inner loop appends: `j` groups of six operands starting at `i` -/
def flatArcs (hi : Bool) (args : List F32) : Nat → Nat → Bytes
  | _, 0 => []
  | i, j + 1 =>
    Enc.encodeCoordinate (Enc.quantize hi (Go.sliceGet args i)) ++
    (Enc.encodeCoordinate (Enc.quantize hi (Go.sliceGet args (i + 1))) ++
    (Enc.encodeAngle (Go.sliceGet args (i + 2)) ++
    (Enc.encodeNatural (Go.sliceGet args (i + 3)).toUInt32.toNat ++
    (Enc.encodeCoordinate (Enc.quantize hi (Go.sliceGet args (i + 4))) ++
    (Enc.encodeCoordinate (Enc.quantize hi (Go.sliceGet args (i + 5))) ++ flatArcs hi args (i + 6) j)))))

set_option hygiene false in
/-- proof of the specification of one of the generated inner loops (they differ only in name and closure) -/
macro "inner_loop_tac" loop:ident fl:ident : tactic =>
  `(tactic| (
    intro j
    induction j with
    | zero =>
      intro fuel i buf hf
      obtain ⟨f, rfl⟩ : ∃ f, fuel = f + 1 := ⟨fuel - 1, by omega⟩
      rw [$loop:ident]
      simp [$fl:ident]
    | succ j ih =>
      intro fuel i buf hf
      obtain ⟨f, rfl⟩ : ∃ f, fuel = f + 1 := ⟨fuel - 1, by omega⟩
      rw [$loop:ident]
      have h1 : ((1 : Int) ≤ ((j + 1 : Nat) : Int)) := by omega
      have e1 : ((i : Nat) : Int) + 1 = ((i + 1 : Nat) : Int) := by omega
      have e2 : ((i : Nat) : Int) + 2 = ((i + 2 : Nat) : Int) := by omega
      have e3 : ((i : Nat) : Int) + 3 = ((i + 3 : Nat) : Int) := by omega
      have e4 : ((i : Nat) : Int) + 4 = ((i + 4 : Nat) : Int) := by omega
      have e5 : ((i : Nat) : Int) + 5 = ((i + 5 : Nat) : Int) := by omega
      have e6 : ((i : Nat) : Int) + 6 = ((i + 6 : Nat) : Int) := by omega
      have e0 : ((j + 1 : Nat) : Int) - 1 = (j : Int) := by omega
      simp only [h1, decide_true, if_true, Int.add_zero, e0, e1, e2, e3, e4, e5, e6, quantize_code_tie,
        encodeCoordinate_code_tie, encodeAngle_code_tie, encodeNatural_code_tie, Go.idx_int, Go.cvt_f32_u32,
        Int.toNat_natCast]
      rw [ih f _ _ (by omega)]
      simp only [$fl:ident, List.append_assoc]
      congr 3
      omega))

tolerant
theorem loop17_19_spec (hi : Bool) (n : Int) (c : UInt8) (args : List F32) :
    ∀ (j fuel i : Nat) (buf : Bytes), j + 1 ≤ fuel →
      encode_Encoder_flushDrawOps.loop7_13.loop17_19 hi n c args fuel (i : Int) (j : Int) buf
        = Sum.inr (n - n, ((i + j : Nat) : Int), buf ++ flatCoords hi args i j, c, args) := by
  inner_loop_tac encode_Encoder_flushDrawOps.loop7_13.loop17_19 flatCoords

tolerant
theorem loop17_16_spec (hi : Bool) (n : Int) (c : UInt8) (args : List F32) (m : Int) :
    ∀ (j fuel i : Nat) (buf : Bytes), j + 1 ≤ fuel →
      encode_Encoder_flushDrawOps.loop7_13.loop17_16 hi n c args m fuel (i : Int) (j : Int) buf
        = Sum.inr (n - m, ((i + j : Nat) : Int), buf ++ flatCoords hi args i j, c, args) := by
  inner_loop_tac encode_Encoder_flushDrawOps.loop7_13.loop17_16 flatCoords

tolerant
theorem loop15_14_spec (hi : Bool) (n : Int) (c : UInt8) (args : List F32) (m : Int) :
    ∀ (j fuel i : Nat) (buf : Bytes), j + 1 ≤ fuel →
      encode_Encoder_flushDrawOps.loop7_13.loop15_14 hi n c args m fuel (i : Int) (j : Int) buf
        = Sum.inr (n - m, ((i + 6 * j : Nat) : Int), buf ++ flatArcs hi args i j, c, args) := by
  inner_loop_tac encode_Encoder_flushDrawOps.loop7_13.loop15_14 flatArcs

tolerant
theorem loop15_15_spec (hi : Bool) (n : Int) (c : UInt8) (args : List F32) (m : Int) :
    ∀ (j fuel i : Nat) (buf : Bytes), j + 1 ≤ fuel →
      encode_Encoder_flushDrawOps.loop7_13.loop15_15 hi n c args m fuel (i : Int) (j : Int) buf
        = Sum.inr (n - m, ((i + 6 * j : Nat) : Int), buf ++ flatArcs hi args i j, c, args) := by
  inner_loop_tac encode_Encoder_flushDrawOps.loop7_13.loop15_15 flatArcs

tolerant
theorem loop15_17_spec (hi : Bool) (n : Int) (c : UInt8) (args : List F32) :
    ∀ (j fuel i : Nat) (buf : Bytes), j + 1 ≤ fuel →
      encode_Encoder_flushDrawOps.loop7_13.loop15_17 hi n c args fuel (i : Int) (j : Int) buf
        = Sum.inr (n - n, ((i + 6 * j : Nat) : Int), buf ++ flatArcs hi args i j, c, args) := by
  inner_loop_tac encode_Encoder_flushDrawOps.loop7_13.loop15_17 flatArcs

tolerant
theorem loop15_18_spec (hi : Bool) (n : Int) (c : UInt8) (args : List F32) :
    ∀ (j fuel i : Nat) (buf : Bytes), j + 1 ≤ fuel →
      encode_Encoder_flushDrawOps.loop7_13.loop15_18 hi n c args fuel (i : Int) (j : Int) buf
        = Sum.inr (n - n, ((i + 6 * j : Nat) : Int), buf ++ flatArcs hi args i j, c, args) := by
  inner_loop_tac encode_Encoder_flushDrawOps.loop7_13.loop15_18 flatArcs

/-- the bytes the chunking loop of `flushDrawOps` appends, over the flat operand list: `n` groups left, next operand
    at index `i` (first argument: a bound on the number of rounds, as in the model's `chunks`) -/
def flatChunks (hi : Bool) (t7 : anon_opcodeBase_maxRepCount_nArgs) (c : UInt8) (args : List F32) :
    Nat → Nat → Nat → Bytes
  | 0, _, _ => []
  | _, 0, _ => []
  | f + 1, n + 1, i =>
    let m := min (n + 1) t7.maxRepCount.toNat
    [t7.opcodeBase + UInt8.ofNat m - 1] ++
      (if c = 65 ∨ c = 97 then flatArcs hi args i m ++ flatChunks hi t7 c args f (n + 1 - m) (i + 6 * m)
       else flatCoords hi args i (m * t7.nArgs.toNat) ++
         flatChunks hi t7 c args f (n + 1 - m) (i + m * t7.nArgs.toNat))

tolerant
theorem flatChunks_zero (hi : Bool) (t7 : anon_opcodeBase_maxRepCount_nArgs) (c : UInt8) (args : List F32)
    (f i : Nat) : flatChunks hi t7 c args f 0 i = [] := by
  cases f <;> rfl

tolerant
theorem encAux_cvt_int_u8_natCast (n : Nat) : Go.cvt_int_u8 (n : Int) = UInt8.ofNat n := by
  simp only [Go.cvt_int_u8]
  apply UInt8.toNat_inj.1
  simp only [UInt8.toNat_ofNat']
  omega

tolerant
/-- the chunking loop of `flushDrawOps` over the flat operand list (no assumption on the list): with `n` groups left
    and the next operand at index `i` it appends `flatChunks … n i` and leaves `drawOp = 0`, `drawArgs = drawArgs[:0]` -/
theorem loop7_13_flat (hi : Bool) (t7 : anon_opcodeBase_maxRepCount_nArgs) (c : UInt8) (args : List F32)
    (hM : 1 ≤ t7.maxRepCount.toNat) (hk : 1 ≤ t7.nArgs.toNat) (h6 : (c = 65 ∨ c = 97) → t7.nArgs.toNat = 6) :
    ∀ (fuel n i : Nat) (buf : Bytes) (fc : Nat), n * t7.nArgs.toNat + 2 ≤ fuel → n ≤ fc →
      encode_Encoder_flushDrawOps.loop7_13 hi t7 fuel (n : Int) (i : Int) buf c args
        = (buf ++ flatChunks hi t7 c args fc n i, 0, []) := by
  intro fuel
  induction fuel with
  | zero => intro n i buf fc h; omega
  | succ f ih =>
    intro n i buf fc hf hfc
    rw [encode_Encoder_flushDrawOps.loop7_13]
    cases n with
    | zero => simp [flatChunks_zero, Go.slice]
    | succ n =>
      obtain ⟨fc', rfl⟩ : ∃ fc', fc = fc' + 1 := ⟨fc - 1, by omega⟩
      have h1 : ((1 : Int) ≤ ((n + 1 : Nat) : Int)) := by omega
      have hMn : ((t7.maxRepCount.toNat : Int) < ((n + 1 : Nat) : Int)) ↔ t7.maxRepCount.toNat < n + 1 := by omega
      have cast2 : ∀ a b : Nat, ((a : Int) * (b : Int)) = ((a * b : Nat) : Int) := fun a b => by simp
      have hmul : (n + 1) * t7.nArgs.toNat = n * t7.nArgs.toNat + t7.nArgs.toNat := Nat.succ_mul _ _
      have hnk : n ≤ n * t7.nArgs.toNat := Nat.le_mul_of_pos_right _ hk
      simp only [h1, decide_true, if_true, Go.cvt_u8_int, hMn, encAux_cvt_int_u8_natCast, cast2]
      by_cases hlt : t7.maxRepCount.toNat < n + 1
      · have hm : min (n + 1) t7.maxRepCount.toNat = t7.maxRepCount.toNat := by omega
        have cast1 : ((n + 1 : Nat) : Int) - (t7.maxRepCount.toNat : Int)
            = ((n + 1 - t7.maxRepCount.toNat : Nat) : Int) := by omega
        have hle : t7.maxRepCount.toNat * t7.nArgs.toNat ≤ n * t7.nArgs.toNat :=
          Nat.mul_le_mul_right _ (by omega)
        have hle2 : (n + 1 - t7.maxRepCount.toNat) * t7.nArgs.toNat ≤ n * t7.nArgs.toNat :=
          Nat.mul_le_mul_right _ (by omega)
        simp only [hlt, decide_true, if_true]
        by_cases h65 : c = 65
        · have hk6 := h6 (Or.inl h65)
          subst h65
          simp only [decide_true, if_true]
          rw [loop15_14_spec _ _ _ _ _ _ f i _ (by omega)]
          simp only [cast1]
          rw [ih _ _ _ fc' (by omega) (by omega)]
          simp [flatChunks, hm]
        · by_cases h97 : c = 97
          · have hk6 := h6 (Or.inr h97)
            subst h97
            simp only [decide_true, if_true, show ¬ ((97 : UInt8) = 65) by decide, decide_false, if_false]
            rw [loop15_15_spec _ _ _ _ _ _ f i _ (by omega)]
            simp only [cast1]
            rw [ih _ _ _ fc' (by omega) (by omega)]
            simp [flatChunks, hm]
          · simp only [h65, h97, decide_false, if_false]
            rw [loop17_16_spec _ _ _ _ _ _ f i _ (by omega)]
            simp only [cast1]
            rw [ih _ _ _ fc' (by omega) (by omega)]
            simp [flatChunks, hm, h65, h97]
      · have hm : min (n + 1) t7.maxRepCount.toNat = n + 1 := by omega
        have cast1 : ((n + 1 : Nat) : Int) - ((n + 1 : Nat) : Int) = ((0 : Nat) : Int) := by omega
        simp only [hlt, decide_false, if_false]
        by_cases h65 : c = 65
        · have hk6 := h6 (Or.inl h65)
          subst h65
          simp only [decide_true, if_true]
          rw [loop15_17_spec _ _ _ _ _ f i _ (by omega)]
          simp only [cast1]
          rw [ih _ _ _ fc' (by omega) (by omega)]
          simp [flatChunks, hm, flatChunks_zero]
        · by_cases h97 : c = 97
          · have hk6 := h6 (Or.inr h97)
            subst h97
            simp only [decide_true, if_true, show ¬ ((97 : UInt8) = 65) by decide, decide_false, if_false]
            rw [loop15_18_spec _ _ _ _ _ f i _ (by omega)]
            simp only [cast1]
            rw [ih _ _ _ fc' (by omega) (by omega)]
            simp [flatChunks, hm, flatChunks_zero]
          · simp only [h65, h97, decide_false, if_false]
            rw [loop17_19_spec _ _ _ _ _ f i _ (by omega)]
            simp only [cast1]
            rw [ih _ _ _ fc' (by omega) (by omega)]
            simp [flatChunks, hm, h65, h97, flatChunks_zero]

/-! ## from the flat operand list back to the model's groups -/

tolerant
theorem encAux_sliceGet_of_drop {args : List F32} {i : Nat} {l : List F32} (h : args.drop i = l) (t : Nat) :
    Go.sliceGet args (i + t) = Go.sliceGet l t := by
  simp only [Go.sliceGet, ← h, List.getElem?_drop]

tolerant
theorem encAux_drop_of_drop_append {args : List F32} {i : Nat} {pre post : List F32} (h : args.drop i = pre ++ post) :
    args.drop (i + pre.length) = post := by
  rw [← List.drop_drop, h, List.drop_left]

tolerant
theorem flatCoords_prefix (hi : Bool) (args : List F32) :
    ∀ (pre post : List F32) (i : Nat), args.drop i = pre ++ post →
      flatCoords hi args i pre.length = Enc.encCoords hi pre := by
  intro pre
  induction pre with
  | nil => intro post i _; rfl
  | cons a pre ih =>
    intro post i h
    have ha : Go.sliceGet args i = a := by
      have := encAux_sliceGet_of_drop h 0
      simpa [Go.sliceGet] using this
    have hd : args.drop (i + 1) = pre ++ post := by
      have := encAux_drop_of_drop_append (pre := [a]) (post := pre ++ post) (by simpa using h)
      simpa using this
    simp only [List.length_cons, flatCoords, ha, ih post (i + 1) hd, Enc.encCoords, List.flatMap_cons]

tolerant
theorem encCoords_flatten (hi : Bool) (gs : List (List F32)) :
    Enc.encCoords hi gs.flatten = gs.flatMap (Enc.encCoords hi) := by
  induction gs with
  | nil => rfl
  | cons g gs ih =>
    simp only [List.flatten_cons, List.flatMap_cons, ← ih]
    simp only [Enc.encCoords, List.flatMap_append]

tolerant
theorem encAux_flatten_length_uniform (k : Nat) : ∀ (gs : List (List F32)), (∀ g ∈ gs, g.length = k) →
    gs.flatten.length = gs.length * k := by
  intro gs
  induction gs with
  | nil => intro _; simp
  | cons g gs ih =>
    intro h
    simp only [List.flatten_cons, List.length_append, List.length_cons, Nat.succ_mul]
    rw [ih (fun x hx => h x (List.mem_cons_of_mem _ hx)), h g (List.mem_cons_self)]
    omega

/-- which verbs take the arc branch of `flushDrawOps` -/
def isArc : Enc.DrawOp → Bool
  | .arcAbs => true | .arcRel => true | _ => false

tolerant
theorem goDrawOp_arc (op : Enc.DrawOp) : (goDrawOp (some op) = 65 ∨ goDrawOp (some op) = 97) ↔ isArc op = true := by
  have h65 : (65 : UInt8) = goDrawOp (some .arcAbs) := by decide
  have h97 : (97 : UInt8) = goDrawOp (some .arcRel) := by decide
  rw [h65, h97, goDrawOp_inj, goDrawOp_inj]
  cases op <;> simp [isArc]

tolerant
theorem encGroup_nonArc (hi : Bool) (op : Enc.DrawOp) (h : isArc op = false) (g : List F32) :
    Enc.encGroup hi op g = Enc.encCoords hi g := by
  unfold Enc.encGroup
  split <;> first | rfl | (simp [isArc] at h)

tolerant
theorem encGroup_arc (hi : Bool) (op : Enc.DrawOp) (h : isArc op = true) (a b c d e f : F32) :
    Enc.encGroup hi op [a, b, c, d, e, f] =
      Enc.encodeCoordinate (Enc.quantize hi a) ++ (Enc.encodeCoordinate (Enc.quantize hi b) ++
      (Enc.encodeAngle c ++ (Enc.encodeNatural d.toUInt32.toNat ++
      (Enc.encodeCoordinate (Enc.quantize hi e) ++ Enc.encodeCoordinate (Enc.quantize hi f))))) := by
  cases op <;> simp [isArc] at h <;> simp [Enc.encGroup]

tolerant
theorem flatArcs_groups (hi : Bool) (op : Enc.DrawOp) (h : isArc op = true) (args : List F32) :
    ∀ (gs : List (List F32)) (post : List F32) (i : Nat), (∀ g ∈ gs, g.length = 6) →
      args.drop i = gs.flatten ++ post → flatArcs hi args i gs.length = gs.flatMap (Enc.encGroup hi op) := by
  intro gs
  induction gs with
  | nil => intro post i _ _; rfl
  | cons g gs ih =>
    intro post i hu hd
    have hg := hu g List.mem_cons_self
    match g, hg with
    | [a, b, c, d, e, f], _ =>
      have hd' : args.drop i = [a, b, c, d, e, f] ++ (gs.flatten ++ post) := by simpa using hd
      have h6 : args.drop (i + 6) = gs.flatten ++ post := encAux_drop_of_drop_append hd'
      have g0 := encAux_sliceGet_of_drop hd' 0
      have g1 := encAux_sliceGet_of_drop hd' 1
      have g2 := encAux_sliceGet_of_drop hd' 2
      have g3 := encAux_sliceGet_of_drop hd' 3
      have g4 := encAux_sliceGet_of_drop hd' 4
      have g5 := encAux_sliceGet_of_drop hd' 5
      simp only [Nat.add_zero] at g0
      simp only [List.length_cons, flatArcs, g0, g1, g2, g3, g4, g5, List.flatMap_cons, encGroup_arc hi op h,
        ih post (i + 6) (fun x hx => hu x (List.mem_cons_of_mem _ hx)) h6]
      simp [Go.sliceGet]

tolerant
theorem encAux_flatMap_congr_mem {α β : Type} (l : List α) (f g : α → List β) (h : ∀ x ∈ l, f x = g x) :
    l.flatMap f = l.flatMap g := by
  induction l with
  | nil => rfl
  | cons a l ih =>
    simp only [List.flatMap_cons, h a List.mem_cons_self, ih (fun x hx => h x (List.mem_cons_of_mem _ hx))]

tolerant
/-- on a flat list that is the concatenation of groups of `nArgs` operands, `flatChunks` is the model's `chunks` -/
theorem flatChunks_model (hi : Bool) (op : Enc.DrawOp) (args : List F32) :
    ∀ (fc : Nat) (rest : List (List F32)) (i : Nat), (∀ g ∈ rest, g.length = (Enc.opInfo op).nArgs) →
      args.drop i = rest.flatten →
      flatChunks hi (infoOf (Enc.opInfo op)) (goDrawOp (some op)) args fc rest.length i
        = Enc.chunks hi op fc rest := by
  obtain ⟨hb, hM, hk, hM1, hM32, hk6⟩ := infoOf_fields op
  intro fc
  induction fc with
  | zero => intro rest i _ _; cases rest <;> rfl
  | succ fc ih =>
    intro rest i hu hd
    cases hrest : rest with
    | nil => rfl
    | cons g gs =>
      rw [← hrest]
      have hlen : rest.length = gs.length + 1 := by rw [hrest]; rfl
      have hne : rest ≠ [] := by rw [hrest]; exact List.cons_ne_nil _ _
      have hch : Enc.chunks hi op (fc + 1) rest =
          [(Enc.opInfo op).opcodeBase + UInt8.ofNat (min rest.length (Enc.opInfo op).maxRepCount) - 1] ++
            ((rest.take (min rest.length (Enc.opInfo op).maxRepCount)).flatMap (Enc.encGroup hi op)) ++
            Enc.chunks hi op fc (rest.drop (min rest.length (Enc.opInfo op).maxRepCount)) := by
        rw [hrest]; rfl
      rw [hch, hlen, flatChunks, hb, hM, hk, ← hlen]
      generalize hm : min rest.length (Enc.opInfo op).maxRepCount = m
      have hmle : m ≤ rest.length := by omega
      have hsplit : rest.flatten = (rest.take m).flatten ++ (rest.drop m).flatten := by
        rw [← List.flatten_append, List.take_append_drop]
      have hut : ∀ g ∈ rest.take m, g.length = (Enc.opInfo op).nArgs := fun x hx => hu x (List.mem_of_mem_take hx)
      have hud : ∀ g ∈ rest.drop m, g.length = (Enc.opInfo op).nArgs := fun x hx => hu x (List.mem_of_mem_drop hx)
      have hlt : (rest.take m).length = m := by rw [List.length_take]; omega
      have hld : (rest.drop m).length = rest.length - m := List.length_drop
      have hpre : (rest.take m).flatten.length = m * (Enc.opInfo op).nArgs := by
        rw [encAux_flatten_length_uniform _ _ hut, hlt]
      have hd' : args.drop i = (rest.take m).flatten ++ (rest.drop m).flatten := by rw [hd, hsplit]
      have hnext := encAux_drop_of_drop_append hd'
      rw [hpre] at hnext
      by_cases harc : isArc op = true
      · have hc := (goDrawOp_arc op).2 harc
        have h6 : (Enc.opInfo op).nArgs = 6 := by cases op <;> simp [isArc] at harc <;> rfl
        rw [h6] at hut hnext
        rw [if_pos hc, ← hld, ← ih (rest.drop m) (i + 6 * m) hud (by rw [← hnext]; congr 1; omega)]
        have := flatArcs_groups hi op harc args (rest.take m) _ i hut hd'
        rw [hlt] at this
        rw [this, List.append_assoc]
      · have harc' : isArc op = false := by simpa using harc
        have hc : ¬ (goDrawOp (some op) = 65 ∨ goDrawOp (some op) = 97) := fun h => harc ((goDrawOp_arc op).1 h)
        rw [if_neg hc, ← hld, ← ih (rest.drop m) (i + m * (Enc.opInfo op).nArgs) hud hnext]
        have := flatCoords_prefix hi args _ _ i hd'
        rw [hpre, encCoords_flatten] at this
        rw [this, List.append_assoc]
        congr 2
        exact encAux_flatMap_congr_mem _ _ _ (fun g _ => (encGroup_nonArc hi op harc' g).symm)

tolerant
theorem encAux_tdiv_natCast_mul (a k : Nat) (hk : 1 ≤ k) : Int.tdiv (Int.ofNat (a * k)) ((k : Nat) : Int) = (a : Int) := by
  have : Int.tdiv (Int.ofNat (a * k)) ((k : Nat) : Int) = ((a * k / k : Nat) : Int) := rfl
  rw [this, Nat.mul_div_cancel _ (by omega)]

tolerant
theorem encAux_u8_ofNat_eq_zero (k : Nat) (h : k ≤ 6) : (UInt8.ofNat k = 0) ↔ k = 0 := by
  constructor
  · intro h0
    have := congrArg UInt8.toNat h0
    simp only [UInt8.toNat_ofNat'] at this
    change k % 256 = 0 at this
    omega
  · rintro rfl; rfl

tolerant
/-- encode.go `(*Encoder).flushDrawOps` (reads `highResolutionCoordinates`; writes `buf`, `drawOp`, `drawArgs`) = the
    model's `Encoder.flushDrawOps`, for every well-formed state (`WFEnc`: the flat `drawArgs` consists of groups of
    `nArgs` operands) and every `fuel ≥ len(drawArgs) + 2`. -/
theorem flushDrawOps_code_tie (m : Enc.Encoder) (hwf : WFEnc m) (fuel : Nat)
    (hf : m.drawArgs.flatten.length + 2 ≤ fuel) :
    encode_Encoder_flushDrawOps fuel m.hiResLocal m.buf (goDrawOp m.drawOp) m.drawArgs.flatten
      = (m.flushDrawOps.buf, goDrawOp m.flushDrawOps.drawOp, m.flushDrawOps.drawArgs.flatten) := by
  unfold encode_Encoder_flushDrawOps
  cases hop : m.drawOp with
  | none => simp [Enc.Encoder.flushDrawOps, hop, goDrawOp]
  | some op =>
    have hne : ¬ (goDrawOp (some op) = 0) := fun h => by simpa using (goDrawOp_eq_zero _).1 h
    obtain ⟨hb, hM, hk, hM1, hM32, hk6⟩ := infoOf_fields op
    have hu : ∀ g ∈ m.drawArgs, g.length = (Enc.opInfo op).nArgs := by
      have := hwf; unfold WFEnc at this; rw [hop] at this; exact this
    simp only [hne, decide_false, drawOps_code_tie, Enc.Encoder.flushDrawOps, hop]
    by_cases hk0 : (Enc.opInfo op).nArgs = 0
    · have : (infoOf (Enc.opInfo op)).nArgs = 0 := (encAux_u8_ofNat_eq_zero _ hk6).2 hk0
      simp [this, hk0, hb, Go.slice, goDrawOp]
    · have : ¬ ((infoOf (Enc.opInfo op)).nArgs = 0) := fun h => hk0 ((encAux_u8_ofNat_eq_zero _ hk6).1 h)
      have hlen := encAux_flatten_length_uniform _ _ hu
      have hk1 : 1 ≤ (Enc.opInfo op).nArgs := by omega
      simp only [this, decide_false, hk0, if_false, Go.cvt_u8_int, hk, hlen, encAux_tdiv_natCast_mul _ _ hk1]
      have h6 : (goDrawOp (some op) = 65 ∨ goDrawOp (some op) = 97) → (infoOf (Enc.opInfo op)).nArgs.toNat = 6 := by
        intro h
        have harc := (goDrawOp_arc op).1 h
        rw [hk]
        cases op <;> simp [isArc] at harc <;> rfl
      have := loop7_13_flat m.hiResLocal (infoOf (Enc.opInfo op)) (goDrawOp (some op)) m.drawArgs.flatten
        (by omega) (by omega) h6 fuel m.drawArgs.length 0 m.buf m.drawArgs.length (by rw [hk]; omega)
        (Nat.le_refl _)
      simp only [Int.natCast_zero] at this
      rw [flatChunks_model m.hiResLocal op _ _ m.drawArgs 0 hu (by simp)] at this
      simp only [Bool.false_eq_true, ↓reduceIte, this]
      simp [goDrawOp]

end Ivg.Gen.Tie
