import Ivg.Gen.Tie.Code.Base
import Ivg.Gen.Tie.Code.Fit
import Ivg.Gen.Code.P_render
import Ivg.Model.Renderer
/-!
# Tie: the coordinate transform of `render/render.go` (`absX … unabsY`, `absVec2`, `recalcTransform`) as TRANSLATED
from the Go source = the model's functions of `Ivg/Model/Renderer.lean` at (float32, float64), for all inputs.

A method with a pointer receiver is translated to a function of the receiver FIELDS it reads; the ties instantiate
those parameters with the fields of a model `Renderer F32 F64` (`z.scaleX`, `z.biasX`, …; the destination rectangle
through `rectOf z.r`, the viewBox through `vbOf z.viewBox` of `Fit.lean`).
-/
namespace Ivg.Gen.Tie
open Ivg Ivg.Num Ivg.Gen.Code Ivg.Ren

/-- the Go `image.Rectangle` of the model's destination rectangle -/
def rectOf (r : Rect) : image_Rectangle := ⟨⟨r.minX, r.minY⟩, ⟨r.maxX, r.maxY⟩⟩
/-- the model rectangle of a Go `image.Rectangle` -/
def rectTo (r : image_Rectangle) : Rect := ⟨r.Min.X, r.Min.Y, r.Max.X, r.Max.Y⟩

tolerant
@[simp] theorem rectTo_rectOf (r : Rect) : rectTo (rectOf r) = r := rfl
tolerant
@[simp] theorem rectOf_rectTo (r : image_Rectangle) : rectOf (rectTo r) = r := rfl

/-- the model viewBox of a Go `ivg.ViewBox` (inverse of `vbOf`) -/
def vbTo (v : ivg_ViewBox) : ViewBox F32 := ⟨v.MinX, v.MinY, v.MaxX, v.MaxY⟩
tolerant
@[simp] theorem vbTo_vbOf (v : ViewBox F32) : vbTo (vbOf v) = v := rfl
tolerant
@[simp] theorem vbOf_vbTo (v : ivg_ViewBox) : vbOf (vbTo v) = v := rfl

tolerant
/-- image/geom.go `Rectangle.Dx` -/
theorem rectangle_Dx_code_tie (r : Rect) : image_Rectangle_Dx (rectOf r) = r.dx := by
  simp only [image_Rectangle_Dx, rectOf, Rect.dx]

tolerant
/-- image/geom.go `Rectangle.Dy` -/
theorem rectangle_Dy_code_tie (r : Rect) : image_Rectangle_Dy (rectOf r) = r.dy := by
  simp only [image_Rectangle_Dy, rectOf, Rect.dy]

variable (z : Renderer F32 F64)

tolerant
/-- render.go `(*Renderer).absX` -/
theorem renderer_absX_code_tie (x : F32) : render_Renderer_absX z.scaleX z.biasX x = z.absX x := by
  simp only [render_Renderer_absX, Renderer.absX]

tolerant
/-- render.go `(*Renderer).absY` -/
theorem renderer_absY_code_tie (y : F32) : render_Renderer_absY z.scaleY z.biasY y = z.absY y := by
  simp only [render_Renderer_absY, Renderer.absY]

tolerant
/-- render.go `(*Renderer).relX` -/
theorem renderer_relX_code_tie (x : F32) : render_Renderer_relX z.scaleX x = z.relX x := by
  simp only [render_Renderer_relX, Renderer.relX]

tolerant
/-- render.go `(*Renderer).relY` -/
theorem renderer_relY_code_tie (y : F32) : render_Renderer_relY z.scaleY y = z.relY y := by
  simp only [render_Renderer_relY, Renderer.relY]

tolerant
/-- render.go `(*Renderer).unabsX` -/
theorem renderer_unabsX_code_tie (x : F32) : render_Renderer_unabsX z.scaleX z.biasX x = z.unabsX x := by
  simp only [render_Renderer_unabsX, Renderer.unabsX]

tolerant
/-- render.go `(*Renderer).unabsY` -/
theorem renderer_unabsY_code_tie (y : F32) : render_Renderer_unabsY z.scaleY z.biasY y = z.unabsY y := by
  simp only [render_Renderer_unabsY, Renderer.unabsY]

tolerant
/-- render.go `(*Renderer).absVec2` (the model uses the pair `(z.absX x, z.absY y)` wherever Go calls `absVec2`) -/
theorem renderer_absVec2_code_tie (x y : F32) :
    render_Renderer_absVec2 z.scaleX z.biasX z.scaleY z.biasY x y = (z.absX x, z.absY y) := by
  simp only [render_Renderer_absVec2, renderer_absX_code_tie, renderer_absY_code_tie]

tolerant
/-- render.go `(*Renderer).recalcTransform`: the four values the Go method stores in `scaleX, biasX, scaleY, biasY`
    are those of the model, -/
theorem renderer_recalcTransform_code_tie :
    render_Renderer_recalcTransform (rectOf z.r) (vbOf z.viewBox) =
      (z.recalcTransform.scaleX, z.recalcTransform.biasX, z.recalcTransform.scaleY, z.recalcTransform.biasY) := by
  simp only [render_Renderer_recalcTransform, Renderer.recalcTransform, rectangle_Dx_code_tie,
    rectangle_Dy_code_tie, vbOf, Go.cvt_int_f32]
  rfl

tolerant
/-- … and the model's `recalcTransform` changes no other field: it is the record update with the Go results. -/
theorem renderer_recalcTransform_code_tie_frame :
    z.recalcTransform =
      (let t := render_Renderer_recalcTransform (rectOf z.r) (vbOf z.viewBox)
       { z with scaleX := t.1, biasX := t.2.1, scaleY := t.2.2.1, biasY := t.2.2.2 }) := by
  rw [renderer_recalcTransform_code_tie]; rfl

end Ivg.Gen.Tie
