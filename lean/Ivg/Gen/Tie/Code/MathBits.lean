import Ivg.Gen.Tie.Code.Base
import Ivg.Gen.Code.P_math
import Ivg.Model.GoMath
/-!
# Tie, integer layer of Go's `math` package: `math/bits.Mul64 / Add64 / Len64 / LeadingZeros64`, the computed shifts and the
table `mPi4` of `trig_reduce.go`, as TRANSLATED from the Go source on `UInt64`, against the natural-number arithmetic
that the hand-written port `Ivg/Model/GoMath.lean` uses in their place (`x * y / 2^64`, `x * y % 2^64`, sums modulo
`2^64` and their carries, `bitLen`, `shl64`, `shr64`, `shr64c`, `mPi4`).  The port has no functions of its own for
`Mul64`/`Add64`/`Len64`: it writes their mathematical meaning in line; the ties below state exactly that meaning.
-/
namespace Ivg.Gen.Tie
open Ivg Ivg.Num Ivg.Gen.Code
set_option maxRecDepth 100000
set_option linter.unusedSimpArgs false

/-! ## literal shifts and masks on `uint64` -/

tolerant
theorem u64_shr_lit (a : UInt64) (k : Nat) (hk : k < 64) : (a >>> (UInt64.ofNat k)).toNat = a.toNat / 2 ^ k := by
  rw [UInt64.toNat_shiftRight, Nat.shiftRight_eq_div_pow, UInt64.toNat_ofNat']
  congr 2
  omega
tolerant
theorem u64_shr8 (a : UInt64) : (a >>> (8 : UInt64)).toNat = a.toNat / 256 := u64_shr_lit a 8 (by decide)
tolerant
theorem u64_shr16 (a : UInt64) : (a >>> (16 : UInt64)).toNat = a.toNat / 65536 := u64_shr_lit a 16 (by decide)
tolerant
theorem u64_shr32 (a : UInt64) : (a >>> (32 : UInt64)).toNat = a.toNat / 4294967296 := u64_shr_lit a 32 (by decide)
tolerant
theorem u64_shr63 (a : UInt64) : (a >>> (63 : UInt64)).toNat = a.toNat / 2 ^ 63 := u64_shr_lit a 63 (by decide)
tolerant
theorem u64_and32 (a : UInt64) : (a &&& (4294967295 : UInt64)).toNat = a.toNat % 4294967296 := by
  rw [UInt64.toNat_and]; exact Nat.and_two_pow_sub_one_eq_mod _ 32

/-! ## `bits.Mul64` -/

tolerant
theorem mul64_aux (x0 x1 y0 y1 : Nat) :
    (x1 * 4294967296 + x0) * (y1 * 4294967296 + y0) =
      x1 * y1 * 18446744073709551616 + (x1 * y0 + x0 * y1) * 4294967296 + x0 * y0 := by
  grind

tolerant
theorem mul_lt32 {a b : Nat} (ha : a < 4294967296) (hb : b < 4294967296) : a * b ≤ 18446744065119617025 :=
  Nat.le_trans (Nat.mul_le_mul (Nat.le_of_lt_succ ha) (Nat.le_of_lt_succ hb)) (by decide)

tolerant
/-- bits.go `Mul64` (the portable 32-bit-limb code): `(hi, lo)` is the full 128-bit product -/
theorem mul64_code_tie (x y : UInt64) :
    (math_bits_Mul64 x y).1.toNat = x.toNat * y.toNat / 2 ^ 64 ∧
    (math_bits_Mul64 x y).2.toNat = x.toNat * y.toNat % 2 ^ 64 := by
  have hx := x.toNat_lt
  have hy := y.toNat_lt
  simp only [math_bits_Mul64, UInt64.toNat_add, UInt64.toNat_mul, u64_shr32, u64_and32, and_true]
  have hxN : x.toNat = x.toNat / 4294967296 * 4294967296 + x.toNat % 4294967296 := (Nat.div_add_mod' _ _).symm
  have hyN : y.toNat = y.toNat / 4294967296 * 4294967296 + y.toNat % 4294967296 := (Nat.div_add_mod' _ _).symm
  have a0 : x.toNat % 4294967296 < 4294967296 := Nat.mod_lt _ (by decide)
  have a1 : x.toNat / 4294967296 < 4294967296 := by omega
  have b0 : y.toNat % 4294967296 < 4294967296 := Nat.mod_lt _ (by decide)
  have b1 : y.toNat / 4294967296 < 4294967296 := by omega
  generalize x.toNat % 4294967296 = x0 at *
  generalize x.toNat / 4294967296 = x1 at *
  generalize y.toNat % 4294967296 = y0 at *
  generalize y.toNat / 4294967296 = y1 at *
  rw [hxN, hyN, mul64_aux]
  have h00 := mul_lt32 a0 b0
  have h10 := mul_lt32 a1 b0
  have h01 := mul_lt32 a0 b1
  have h11 := mul_lt32 a1 b1
  generalize x0 * y0 = p00 at *
  generalize x1 * y0 = p10 at *
  generalize x0 * y1 = p01 at *
  generalize x1 * y1 = p11 at *
  omega

tolerant
theorem mul64_hi (x y : UInt64) : (math_bits_Mul64 x y).1.toNat = x.toNat * y.toNat / 2 ^ 64 := (mul64_code_tie x y).1
tolerant
theorem mul64_lo (x y : UInt64) : (math_bits_Mul64 x y).2.toNat = x.toNat * y.toNat % 2 ^ 64 := (mul64_code_tie x y).2

/-! ## `bits.Add64` -/

tolerant
theorem u64_top (a : UInt64) : a.toNat / 2 ^ 63 = if a.toBitVec.msb then 1 else 0 := by
  have := a.toNat_lt
  rw [BitVec.msb_eq_decide]
  simp only [UInt64.toNat_toBitVec, decide_eq_true_eq]
  split <;> omega

tolerant
theorem u64_msb (a : UInt64) : a.toBitVec.msb = decide (2 ^ 63 ≤ a.toNat) := by
  rw [BitVec.msb_eq_decide]; rfl

tolerant
/-- bits.go `Add64` (the portable code: the carry-out is the top bit of `(x & y) | ((x | y) &^ sum)`), for a carry-in of
    0 or 1 (hypothesis `hc`: Go documents the behaviour as undefined otherwise; `trigReduce` passes 0 and a carry-out) -/
theorem add64_code_tie (x y c : UInt64) (hc : c.toNat ≤ 1) :
    (math_bits_Add64 x y c).1.toNat = (x.toNat + y.toNat + c.toNat) % 2 ^ 64 ∧
    (math_bits_Add64 x y c).2.toNat = (x.toNat + y.toNat + c.toNat) / 2 ^ 64 := by
  have hx := x.toNat_lt
  have hy := y.toNat_lt
  simp only [math_bits_Add64, u64_shr63, u64_top, UInt64.toBitVec_or, UInt64.toBitVec_and, UInt64.toBitVec_not,
    BitVec.msb_or, BitVec.msb_and, BitVec.msb_not]
  simp only [u64_msb, UInt64.toNat_add]
  have e : ((x.toNat + y.toNat) % 2 ^ 64 + c.toNat) % 2 ^ 64 = (x.toNat + y.toNat + c.toNat) % 2 ^ 64 := by omega
  rw [e]
  by_cases h1 : 2 ^ 63 ≤ x.toNat <;> by_cases h2 : 2 ^ 63 ≤ y.toNat <;>
    by_cases h3 : 2 ^ 63 ≤ (x.toNat + y.toNat + c.toNat) % 2 ^ 64 <;>
    simp only [h1, h2, h3, decide_true, decide_false, Bool.and_true, Bool.and_false, Bool.or_true, Bool.or_false,
      Bool.true_and, Bool.false_and, Bool.true_or, Bool.false_or, Bool.not_true, Bool.not_false, if_true, if_false,
      Bool.false_eq_true, true_and, (by decide : decide (0 < 64) = true)] <;> omega

example : (1 : UInt64).toNat ≤ 1 := by decide

tolerant
/-- the sum word of `Add64`, for EVERY carry-in -/
theorem add64_sum (x y c : UInt64) : (math_bits_Add64 x y c).1.toNat = (x.toNat + y.toNat + c.toNat) % 2 ^ 64 := by
  simp only [math_bits_Add64, UInt64.toNat_add]
  omega
tolerant
/-- the carry-out of `Add64` with carry-in 0 -/
theorem add64_carry0 (x y : UInt64) : (math_bits_Add64 x y 0).2.toNat = (x.toNat + y.toNat) / 2 ^ 64 :=
  (add64_code_tie x y 0 (by decide)).2

/-! ## `bits.Len64`, `bits.LeadingZeros64` -/

tolerant
theorem u8_char_roundtrip (x : UInt8) : UInt8.ofNat (Char.ofNat x.toNat).toNat = x := by
  have h : ∀ i : Fin 256, (Char.ofNat i.val).toNat = i.val := by decide +kernel
  have := h ⟨x.toNat, x.toNat_lt⟩
  simp only at this
  rw [this, UInt8.ofNat_toNat]

set_option linter.deprecated false in
tolerant
/-- indexing a Go string constant given by its bytes (`len8tab` is such a string) yields the byte -/
theorem strGet_strOfBytes (b : List UInt8) (i : Nat) (h : i < b.length) : Go.strGet (Go.strOfBytes b) i = b[i] := by
  unfold Go.strGet Go.strOfBytes
  rw [show @String.mk = @String.ofList from rfl, String.toList_ofList, List.getElem?_map, List.getElem?_eq_getElem h]
  simp only [Option.map_some, Option.getD_some]
  exact u8_char_roundtrip _

tolerant
/-- the bit length above a known power of two -/
theorem bitLen_of_div (n k m : Nat) (hm : m = n / 2 ^ k) (h1 : 1 ≤ m) : bitLen n = k + bitLen m := by
  subst hm
  have hk : 0 < 2 ^ k := Nat.two_pow_pos k
  have hn : n ≠ 0 := by
    intro h; subst h; simp at h1
  have hm0 : n / 2 ^ k ≠ 0 := by omega
  unfold bitLen
  simp only [beq_iff_eq, hn, hm0, if_false]
  have : n.log2 = k + (n / 2 ^ k).log2 := by
    rw [Nat.log2_eq_iff hn]
    have a := Nat.log2_self_le hm0
    have b := @Nat.lt_log2_self (n / 2 ^ k)
    rw [Nat.le_div_iff_mul_le hk] at a
    rw [Nat.div_lt_iff_lt_mul hk] at b
    constructor
    · rw [Nat.pow_add, Nat.mul_comm]; exact a
    · rw [Nat.add_assoc, Nat.pow_add, Nat.mul_comm]; exact b
  omega

tolerant
theorem bitLen_le (n k : Nat) (h : n < 2 ^ k) : bitLen n ≤ k := by
  unfold bitLen
  split
  · omega
  · rename_i h0
    have h0' : n ≠ 0 := by simpa using h0
    have := (Nat.log2_lt h0').2 h
    omega

tolerant
/-- a 256-byte string constant whose `i`-th byte is the bit length of `i` (what `len8tab` must be), looked up -/
theorem len8_lookup (b : List UInt8) (hb : b.length = 256)
    (htab : ∀ i : Fin 256, (b[i.val]'(by rw [hb]; exact i.isLt)).toNat = bitLen i.val) (i : Nat) (hi : i < 256) :
    Go.cvt_u8_int (Go.strGet (Go.strOfBytes b) i) = (bitLen i : Int) := by
  rw [strGet_strOfBytes b i (by omega)]
  unfold Go.cvt_u8_int
  rw [htab ⟨i, hi⟩]

tolerant
/-- bits.go `Len64` (three halving steps, then the table `len8tab`): the bit length the soft-float calls `bitLen` -/
theorem len64_code_tie (x : UInt64) : math_bits_Len64 x = (bitLen x.toNat : Int) := by
  have hx := x.toNat_lt
  unfold math_bits_Len64
  simp only [Go.idx_u64, UInt64.le_iff_toNat_le, u64_shr8, u64_shr16, u64_shr32, UInt64.reduceToNat, decide_eq_true_eq]
  split <;> split <;> split
  all_goals rw [len8_lookup _ rfl (by decide +kernel) _ (by omega)]
  · rw [bitLen_of_div x.toNat 56 (x.toNat / 4294967296 / 65536 / 256) (by omega) (by omega)]; omega
  · rw [bitLen_of_div x.toNat 48 (x.toNat / 4294967296 / 65536) (by omega) (by omega)]; omega
  · rw [bitLen_of_div x.toNat 40 (x.toNat / 4294967296 / 256) (by omega) (by omega)]; omega
  · rw [bitLen_of_div x.toNat 32 (x.toNat / 4294967296) (by omega) (by omega)]; omega
  · rw [bitLen_of_div x.toNat 24 (x.toNat / 65536 / 256) (by omega) (by omega)]; omega
  · rw [bitLen_of_div x.toNat 16 (x.toNat / 65536) (by omega) (by omega)]; omega
  · rw [bitLen_of_div x.toNat 8 (x.toNat / 256) (by omega) (by omega)]; omega
  · omega

tolerant
/-- bits.go `LeadingZeros64` -/
theorem leadingZeros64_code_tie (x : UInt64) :
    math_bits_LeadingZeros64 x = ((64 - bitLen x.toNat : Nat) : Int) := by
  have := bitLen_le x.toNat 64 x.toNat_lt
  simp only [math_bits_LeadingZeros64, len64_code_tie]
  omega

tolerant
/-- `uint64(bits.LeadingZeros64(x))` as `trigReduce` uses it -/
theorem leadingZeros64_u64 (x : UInt64) :
    (Go.cvt_int_u64 (math_bits_LeadingZeros64 x)).toNat = 64 - bitLen x.toNat := by
  have := bitLen_le x.toNat 64 x.toNat_lt
  rw [leadingZeros64_code_tie, Go.cvt_int_u64, UInt64.ofInt, UInt64.toNat_ofNat']
  omega

/-! ## the computed shifts of `trig_reduce.go` and its table `mPi4` -/

tolerant
/-- trig_reduce.go `mPi4[i]` (out of range: 0 on both sides; `trigReduce` stays within the table) -/
theorem mPi4_code_tie (i : Nat) : (Go.arrGet G_math_mPi4 i).toNat = GoMath.mPi4.getD i 0 := by
  by_cases h : i < 20
  · have key : ∀ j : Fin 20, (Go.arrGet G_math_mPi4 j.val).toNat = GoMath.mPi4.getD j.val 0 := by decide +kernel
    exact key ⟨i, h⟩
  · have h1 : Go.arrGet G_math_mPi4 i = 0 := by
      unfold Go.arrGet
      rw [Vector.getElem?_eq_none (by omega)]; rfl
    have h2 : GoMath.mPi4.getD i 0 = 0 := by
      rw [Array.getD_eq_getD_getElem?, Array.getElem?_eq_none (by simp [GoMath.mPi4]; omega)]; rfl
    rw [h1, h2]; rfl

tolerant
/-- Go `a << n` on `uint64` with a computed count -/
theorem shl_u64_toNat (a : UInt64) (n : Nat) : (Go.shl_u64 a n).toNat = GoMath.shl64 a.toNat n := by
  unfold Go.shl_u64 GoMath.shl64 GoMath.two64
  split
  · rfl
  · rename_i h
    rw [UInt64.toNat_shiftLeft, UInt64.toNat_ofNat', Nat.shiftLeft_eq]
    have : n % 2 ^ 64 % 64 = n := by omega
    rw [this]

tolerant
/-- Go `a >> n` on `uint64` with a computed count -/
theorem shr_u64_toNat (a : UInt64) (n : Nat) : (Go.shr_u64 a n).toNat = GoMath.shr64 a.toNat n := by
  unfold Go.shr_u64 GoMath.shr64
  split
  · rfl
  · rename_i h
    rw [UInt64.toNat_shiftRight, UInt64.toNat_ofNat', Nat.shiftRight_eq_div_pow]
    have : n % 2 ^ 64 % 64 = n := by omega
    rw [this]

tolerant
/-- Go `a >> (64 - s)` with `64 - s` computed in `uint64` (it wraps to a huge count, hence 0, when `s > 64`): the port's
    `shr64c`, for EVERY `s` -/
theorem shr_u64_sub_toNat (a s : UInt64) :
    (Go.shr_u64 a (Go.idx_u64 (64 - s))).toNat = GoMath.shr64c a.toNat s.toNat := by
  rw [shr_u64_toNat]
  unfold GoMath.shr64c Go.idx_u64
  have hs := s.toNat_lt
  rw [UInt64.toNat_sub]
  simp only [UInt64.reduceToNat]
  split
  · unfold GoMath.shr64
    rw [if_pos (by omega)]
  · congr 1
    omega

end Ivg.Gen.Tie
