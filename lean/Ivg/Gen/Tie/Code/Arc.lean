import Ivg.Gen.Tie.Code.ArcAux
import Ivg.Lemmas.ArcCount
/-!
# Tie: `(*Renderer).AbsArcTo` and `RelArcTo` of render/render.go as TRANSLATED from the Go source (the whole arc routine,
with Go's `math.Sin/Cos/Acos` translated from Go's own source) = the model's `Renderer.step` on an `.arc` call with
`arc := Ivg.Ren.arcF32`, for every renderer state `z`, log `l`, operands and every fuel ≥ 5.

`ArcAux.lean` proves both from the bound "at most 4 segments"; here the bound is `Ivg.ArcCount.segment_count_le_four`
(C06), which holds for ALL float64 vectors, NaN and infinities included.  Nothing is assumed about the size of the
angles: `math_Sin`/`math_Cos` are tied to the port on the whole double range (`Math.lean`).
-/
namespace Ivg.Gen.Tie
open Ivg Ivg.Num Ivg.Gen.Code Ivg.Ren

tolerant
/-- the hypothesis of `ArcAux.lean` holds -/
theorem arcCountLe4 : ArcCountLe4 := fun sw ux uy vx vy => ArcCount.segment_count_le_four sw ux uy vx vy

variable (pf : Go.Ref → Paint F64) (pinf : F32) (z : Rn) (l : Log)

tolerant
/-- render.go `AbsArcTo`: the translated Go method run on the rasteriser object, from the fields of the model state `z`,
    yields the object, the smooth-curve bookkeeping and the call log of the model's `step` on `.arc false …` -/
theorem absArcTo_code_tie (fuel : Nat) (hf : 5 ≤ fuel) (rx ry rot : F32) (la sw : Bool) (x y : F32) :
    render_Renderer_AbsArcTo (rastOps pf) fuel (objOf z l) z.scaleX z.biasX z.scaleY z.biasY z.disabled (stOf z)
        rx ry rot la sw x y
      = out2 arcF32 pinf z l (.arc false rx ry rot la sw x y) :=
  absArcTo_code_tie_of_count pf arcCountLe4 pinf z l fuel hf rx ry rot la sw x y

tolerant
/-- render.go `RelArcTo` -/
theorem relArcTo_code_tie (fuel : Nat) (hf : 5 ≤ fuel) (rx ry rot : F32) (la sw : Bool) (x y : F32) :
    render_Renderer_RelArcTo (rastOps pf) fuel (objOf z l) z.scaleX z.biasX z.scaleY z.biasY z.disabled (stOf z)
        rx ry rot la sw x y
      = out2 arcF32 pinf z l (.arc true rx ry rot la sw x y) :=
  relArcTo_code_tie_of_count pf arcCountLe4 pinf z l fuel hf rx ry rot la sw x y

example : (5 : Nat) ≤ 5 := Nat.le_refl 5

end Ivg.Gen.Tie
