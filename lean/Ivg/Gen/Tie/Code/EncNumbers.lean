import Ivg.Gen.Tie.Code.Base
import Ivg.Gen.Tie.Code.EncAuxBits
import Ivg.Gen.Code.P_encode
import Ivg.Model.Encoder
/-!
# Tie: the number encoders of `encode/buffer.go` and `Encoder.quantize` of `encode/encode.go`, as TRANSLATED from the
Go source, equal the model's `Ivg.Enc.encodeXxx` / `Ivg.Enc.quantize` for all inputs

The generated functions take the current contents `b` of the `*buffer` receiver and return (the Go result `n int`,
if the method has one, and) the new contents; the model functions return only the appended bytes.  So every tie has
the shape `gen b x = b ++ model x` or `gen b x = (↑(model x).length, b ++ model x)`.

Where the Go argument is a `uint32` and the model takes a `Nat`, the tie goes through `UInt32.toNat`; it holds for
every `uint32` (the model's 4-byte form of `encodeNatural` wraps modulo `2^32` exactly like `u << 2` in Go), so no
precondition is needed anywhere in this file.
-/
namespace Ivg.Gen.Tie
open Ivg Ivg.Num Ivg.Gen Ivg.Gen.Code

/-! ## helpers -/

tolerant
theorem encAux_len4 (f : F32) : (Enc.encode4ByteReal f).length = 4 := rfl

/-- resolve the `if`s of a goal whose conditions are decided by the given hypotheses, and compute list lengths -/
macro "enc_ifs" "[" hs:Lean.Parser.Tactic.simpLemma,* "]" : tactic =>
  `(tactic| simp only [$hs,*, and_self, and_true, true_and, and_false, false_and, if_true, if_false, ↓reduceIte,
      not_true_eq_false, not_false_eq_true, List.length_cons, List.length_nil, encAux_len4, Nat.zero_add,
      Nat.reduceAdd, Int.cast_ofNat_Int, Bool.false_eq_true, Bool.not_eq_true, Bool.not_false, Bool.not_true])

tolerant
/-- the float32 constants of the Go source, as the translator prints them (bit patterns) -/
theorem encAux_f32_15120 : F32.ofInt 15120 = ⟨0x466c4000⟩ := by decide
tolerant
theorem encAux_f32_64 : F32.ofInt 64 = ⟨0x42800000⟩ := by decide
tolerant
theorem encAux_f32_128 : F32.ofInt 128 = ⟨0x43000000⟩ := by decide
tolerant
theorem encAux_f32_neg128 : F32.ofInt (-128) = ⟨0xc3000000⟩ := by decide
tolerant
theorem encAux_f64_64 : F64.ofInt 64 = ⟨0x4050000000000000⟩ := by decide

tolerant
theorem encAux_mod126 (t : UInt32) : (t % (126 : UInt32) = (0 : UInt32)) ↔ t.toNat % 126 = 0 := by
  rw [← UInt32.toNat_inj, UInt32.toNat_mod]; rfl

tolerant
theorem encAux_div126_shl1 (t : UInt32) :
    ((t / (126 : UInt32)) <<< (1 : UInt32)).toNat % 256 = (t.toNat / 126 * 2) % 256 := by
  rw [encAux_shl1_mod, UInt32.toNat_div]; rfl

tolerant
/-- Go's `int32` comparisons on `int32(f)` are the integer comparisons on the model's `f.toInt32 : Int` -/
theorem encAux_i32_le (a : Int32) (f : F32) : (a ≤ Go.cvt_f32_i32 f) ↔ a.toInt ≤ f.toInt32 := by
  rw [Int32.le_iff_toInt_le, encAux_toInt_cvt]
tolerant
theorem encAux_i32_lt (a : Int32) (f : F32) : (Go.cvt_f32_i32 f < a) ↔ f.toInt32 < a.toInt := by
  rw [Int32.lt_iff_toInt_lt, encAux_toInt_cvt]

tolerant
/-- `uint8(uint32(i+64) << 1)` for `-64 ≤ i < 64` -/
theorem encAux_coord1 (f : F32) (h0 : -64 ≤ f.toInt32) (h1 : f.toInt32 < 64) :
    ((Go.cvt_i32_u32 (Go.cvt_f32_i32 f + (64 : Int32))) <<< (1 : UInt32)).toNat % 256
      = ((f.toInt32 + 64).toNat * 2) % 256 := by
  rw [encAux_shl1_mod]
  have := encAux_i32_add_toNat f.toInt32 64 (by omega) (by omega)
  rw [show Go.cvt_f32_i32 f + (64 : Int32) = Int32.ofInt f.toInt32 + Int32.ofInt 64 from rfl, this]

tolerant
/-- `uint32(i+8192) << 2 | 1` for `-8192 ≤ i < 8192` -/
theorem encAux_coord2 (f : F32) (h0 : -8192 ≤ f.toInt32) (h1 : f.toInt32 < 8192) :
    ((Go.cvt_i32_u32 (Go.cvt_f32_i32 f + (8192 : Int32))) <<< (2 : UInt32) ||| (1 : UInt32)).toNat
      = (f.toInt32 + 8192).toNat * 4 + 1 := by
  have := encAux_i32_add_toNat f.toInt32 8192 (by omega) (by omega)
  rw [show Go.cvt_f32_i32 f + (8192 : Int32) = Int32.ofInt f.toInt32 + Int32.ofInt 8192 from rfl]
  rw [encAux_shl2_or1 _ (by rw [this]; omega), this]

/-! ## the ties -/

tolerant
/-- `(*buffer).encodeNatural` (encode/buffer.go) appends the model's `Enc.encodeNatural` of the `uint32` argument
    (read as a natural number), for EVERY `uint32`: also beyond `2^30`, where both wrap modulo `2^32`. -/
theorem encodeNatural_code_tie (b : Bytes) (u : UInt32) :
    encode_buffer_encodeNatural b u = b ++ Enc.encodeNatural u.toNat := by
  simp only [encode_buffer_encodeNatural, Enc.encodeNatural, UInt32.lt_iff_toNat_lt, decide_eq_true_eq,
    UInt32.reduceToNat]
  split
  · rw [encAux_bytes1 _ _ (encAux_shl1_mod u)]
  · split
    · rw [encAux_bytes2 _ _ (encAux_shl2_or1 u (by omega))]
    · rw [encAux_bytes4 _ _ (encAux_shl2_or3 u)]

tolerant
/-- `(*buffer).encode4ByteReal` (encode/buffer.go) appends the model's `Enc.encode4ByteReal`. -/
theorem encode4ByteReal_code_tie (b : Bytes) (f : F32) :
    encode_buffer_encode4ByteReal b f = b ++ Enc.encode4ByteReal f := by
  have hlo : (f.bits &&& (8388607 : UInt32)).toNat = f.bits.toNat % 8388608 := by
    rw [UInt32.toNat_and]; exact encAux_and_lo _
  have hlt : f.bits.toNat % 8388608 < 8388608 := Nat.mod_lt _ (by decide)
  simp only [encode_buffer_encode4ByteReal, Enc.encode4ByteReal, UInt32.lt_iff_toNat_lt, decide_eq_true_eq, hlo,
    UInt32.reduceToNat]
  split
  · rename_i h
    have h2 : ((f.bits &&& (8388607 : UInt32)) + (2 : UInt32)).toNat = f.bits.toNat % 8388608 + 2 := by
      rw [UInt32.toNat_add, hlo]; exact Nat.mod_eq_of_lt (by simp only [UInt32.reduceToNat]; omega)
    rw [encAux_bytes4 _ _ (encAux_real4_word f.bits _ (by rw [h2]; omega)), h2]
  · rw [encAux_bytes4 _ _ (encAux_real4_word f.bits _ (by rw [hlo]; exact hlt)), hlo]

tolerant
/-- `(*buffer).encodeReal` (encode/buffer.go) appends the model's `Enc.encodeReal` and returns its length. -/
theorem encodeReal_code_tie (b : Bytes) (f : F32) :
    encode_buffer_encodeReal b f = (((Enc.encodeReal f).length : Int), b ++ Enc.encodeReal f) := by
  simp only [encode_buffer_encodeReal, Enc.encodeReal, Go.cvt_f32_u32, Go.cvt_u32_f32, UInt32.lt_iff_toNat_lt,
    decide_eq_true_eq, UInt32.reduceToNat, encode4ByteReal_code_tie]
  by_cases h1 : (F32.ofInt ↑f.toUInt32.toNat).feq f = true
  · by_cases h2 : f.toUInt32.toNat < 16384
    · by_cases h3 : f.toUInt32.toNat < 128
      · enc_ifs [h1, h2, h3]
        rw [encAux_bytes1 _ _ (encAux_shl1_mod _)]
      · enc_ifs [h1, h2, h3]
        rw [encAux_bytes2 _ _ (encAux_shl2_or1 _ (by omega))]
    · enc_ifs [h1, h2]
  · enc_ifs [h1]

tolerant
/-- `(*buffer).encodeCoordinate` (encode/buffer.go) appends the model's `Enc.encodeCoordinate` and returns its
    length.  (Go's `int32` tests and `uint32(i+64)` conversions against the model's unbounded-`Int` ones.) -/
theorem encodeCoordinate_code_tie (b : Bytes) (f : F32) :
    encode_buffer_encodeCoordinate b f
      = (((Enc.encodeCoordinate f).length : Int), b ++ Enc.encodeCoordinate f) := by
  simp only [encode_buffer_encodeCoordinate, Enc.encodeCoordinate, encAux_i32_le, encAux_i32_lt, Go.cvt_i32_f32,
    encAux_toInt_cvt, decide_eq_true_eq, encode4ByteReal_code_tie, encAux_f32_64, Int.reduceMul, Int.reduceNeg,
    Int32.reduceToInt]
  generalize f * (⟨0x42800000⟩ : F32) = g
  by_cases h1 : -64 ≤ f.toInt32 <;> by_cases h2 : f.toInt32 < 64 <;>
    by_cases h3 : (F32.ofInt f.toInt32).feq f = true
  · enc_ifs [h1, h2, h3]
    rw [encAux_bytes1 _ _ (encAux_coord1 f h1 h2)]
  all_goals
    by_cases d1 : -8192 ≤ g.toInt32 <;> by_cases d2 : g.toInt32 < 8192 <;>
      by_cases d3 : (F32.ofInt g.toInt32).feq g = true
    · enc_ifs [h1, h2, h3, d1, d2, d3]
      rw [encAux_bytes2 _ _ (encAux_coord2 g d1 d2)]
    all_goals enc_ifs [h1, h2, h3, d1, d2, d3]

tolerant
/-- `(*buffer).encodeZeroToOne` (encode/buffer.go) appends the model's `Enc.encodeZeroToOne` and returns its
    length. -/
theorem encodeZeroToOne_code_tie (b : Bytes) (f : F32) :
    encode_buffer_encodeZeroToOne b f
      = (((Enc.encodeZeroToOne f).length : Int), b ++ Enc.encodeZeroToOne f) := by
  simp only [encode_buffer_encodeZeroToOne, Enc.encodeZeroToOne, Go.cvt_f32_u32, Go.cvt_u32_f32,
    UInt32.lt_iff_toNat_lt, decide_eq_true_eq, UInt32.reduceToNat, encode4ByteReal_code_tie, encAux_f32_15120,
    encAux_mod126]
  generalize f * (⟨0x466c4000⟩ : F32) = g
  by_cases h1 : (F32.ofInt ↑g.toUInt32.toNat).feq g = true
  · by_cases h2 : g.toUInt32.toNat < 15120
    · by_cases h3 : g.toUInt32.toNat % 126 = 0
      · enc_ifs [h1, h2, h3]
        rw [encAux_bytes1 _ _ (encAux_div126_shl1 _)]
      · enc_ifs [h1, h2, h3]
        rw [encAux_bytes2 _ _ (encAux_shl2_or1 _ (by omega))]
    · enc_ifs [h1, h2]
  · enc_ifs [h1]

tolerant
/-- `(*buffer).encodeAngle` (encode/buffer.go) appends the model's `Enc.encodeAngle` and returns its length. -/
theorem encodeAngle_code_tie (b : Bytes) (f : F32) :
    encode_buffer_encodeAngle b f = (((Enc.encodeAngle f).length : Int), b ++ Enc.encodeAngle f) := by
  simp only [encode_buffer_encodeAngle, Enc.encodeAngle, Go.cvt_f32_f64, Go.cvt_f64_f32, encodeZeroToOne_code_tie]

tolerant
/-- `(*Encoder).quantize` (encode/encode.go), which reads the receiver field `highResolutionCoordinates`, is the
    model's `Enc.quantize` (the float64 form `floor(float64(coord)*64 + 0.5)`). -/
theorem quantize_code_tie (hi : Bool) (c : F32) : encode_Encoder_quantize hi c = Enc.quantize hi c := by
  simp only [encode_Encoder_quantize, Enc.quantize, Enc.f64Half, f32_le_iff, f32_lt_iff, encAux_f32_64,
    encAux_f32_128, encAux_f32_neg128, encAux_f64_64, Go.cvt_f32_f64, Go.cvt_f64_f32]
  cases hi
  · by_cases h1 : F32.le (⟨0xc3000000⟩ : F32) c = true
    · by_cases h2 : F32.lt c (⟨0x43000000⟩ : F32) = true
      · enc_ifs [h1, h2]
      · enc_ifs [h1, h2]
    · enc_ifs [h1]
  · enc_ifs [true_and]

end Ivg.Gen.Tie
