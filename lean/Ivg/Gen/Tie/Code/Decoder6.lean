import Ivg.Gen.Tie.Code.Decoder4
/-!
# Tie: the decoder's instruction STREAM — Go's loop `for len(src) > 0 { mf, src, err = mf(dst, p, src) … }` of
`decode` (decode/decode.go) over the GENERATED mode functions `decodeStyling`/`decodeDrawing` = the model's `Dec.loop`

`decode` itself is not translated (it passes function values of type `modeFunc` around); the generated mode functions
return the NAME of the next mode function.  `callMode`/`runModes` below are the (hand-written, five-line) reading of
"call the function value" and of the loop; everything they call is generated.  With `decodeStyling_code_tie` and
`decodeDrawing_code_tie` this gives: the calls delivered to the Destination and the error returned are the model's.
-/
namespace Ivg.Gen.Tie
open Ivg Ivg.Num Ivg.Gen Ivg.Gen.Code Ivg.Dec

/-- calling the function value `mf` of type `modeFunc` (the generated NAME of a mode function; anything else —
    nil — panics in Go and is given the default result here) -/
def callMode (mf : Go.FnRef) (l : CallLog) (src : Bytes) : DecoderStepRes :=
  if mf = Go.fnRef "decode_decodeStyling" then decode_decodeStyling__pnil logOps l src
  else if mf = Go.fnRef "decode_decodeDrawing" then decode_decodeDrawing__pnil logOps 39 l src
  else Go.panicked default

/-- decode.go's main loop `for len(src) > 0 { mf, src, err = mf(dst, p, src); if err != nil { return err } }; return nil`
    over the GENERATED mode functions, on the call log.  HAND-WRITTEN driver (the function `decode` itself passes
    function values around and is not translated); `fuel` bounds the number of instructions. -/
def runModes : Nat → Go.FnRef → Bytes → CallLog → Go.Err × CallLog
  | 0, _, _, l => (none, l)
  | _ + 1, _, [], l => (none, l)
  | fuel + 1, mf, src, l =>
    let r := callMode mf l src
    if r.2.2.1.isSome then (r.2.2.1, r.2.2.2) else runModes fuel r.1 r.2.1 r.2.2.2

tolerant
/-- calling the generated mode function named by a model mode = the model's `stepDec` -/
theorem callMode_code_tie (m : DMode) (l : CallLog) (src : Bytes) (hs : src ≠ []) :
    callMode (modeName m) l src = stepResOf l (Dec.stepDec m src) := by
  cases m
  · simp only [callMode, modeName, if_true, Dec.stepDec]
    exact decodeStyling_code_tie l src hs
  · have : ¬ (Go.fnRef "decode_decodeDrawing" = Go.fnRef "decode_decodeStyling") := by decide
    simp only [callMode, modeName, this, if_false, if_true, Dec.stepDec]
    exact decodeDrawing_code_tie l 39 src hs (Nat.le_refl _)

tolerant
/-- The whole INSTRUCTION STREAM: Go's loop over the generated mode functions, started in mode `m` on the log `l`,
    returns the model's error (`Dec.loop`, as the `DecodeError` text) and has delivered exactly the calls of the
    model's items — for all inputs, modes, logs and the same instruction bound `fuel` on both sides
    (`Dec.decodeCore` runs `Dec.loop (len src + 1) .styling src`). -/
theorem runModes_code_tie : ∀ (fuel : Nat) (m : DMode) (src : Bytes) (l : CallLog),
    runModes fuel (modeName m) src l
      = ((Dec.loop fuel m src).2.map errText, l ++ callsOf (Dec.loop fuel m src).1) := by
  intro fuel
  induction fuel with
  | zero => intro m src l; simp [runModes, Dec.loop]
  | succ fuel ih =>
    intro m src l
    match src with
    | [] => simp [runModes, Dec.loop]
    | x :: rest =>
      rw [runModes, Dec.loop, callMode_code_tie m l (x :: rest) (by simp)] <;> try (intro h; cases h)
      rcases hs : Dec.stepDec m (x :: rest) with ⟨its, e | ⟨m', rest'⟩⟩
      · simp [stepResOf]
      · simp only [stepResOf, Option.isSome_none, Bool.false_eq_true, if_false]
        rw [ih m' rest' (l ++ callsOf its)]
        rcases Dec.loop fuel m' rest' with ⟨its', r⟩
        simp

/-- concrete instance (both sides computed): set CSEL, start a path, two line segments, close — and a truncated
    instruction reported as "invalid number" -/
example : runModes 10 (modeName .styling) [0x05, 0xc0, 0x80, 0x80, 0x01, 0x82, 0x84, 0x86, 0x88, 0xe1] []
    = (none, [.setCSel 5, .startPath 0 (F32.ofInt 0) (F32.ofInt 0), .d2 .L (F32.ofInt 1) (F32.ofInt 2),
        .d2 .L (F32.ofInt 3) (F32.ofInt 4), .closeEnd]) := by decide +kernel
example : runModes 10 (modeName .styling) [0x05, 0xc0, 0x80] [] = (some "invalid number", [.setCSel 5]) := by
  decide +kernel

end Ivg.Gen.Tie
