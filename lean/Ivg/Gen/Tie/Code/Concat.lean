import Ivg.Gen.Tie.Code.Base
import Ivg.Gen.Tie.Code.Aff3
import Ivg.Gen.Code.P_generate
import Ivg.Model.Generator
import Ivg.Gen.Tie.Code.Clamp
import Ivg.Gen.Code.P_mdicons
import Ivg.Model.MdIcons
/-!
# Tie: `Concat` and `(*Generator).SetTransform` of `generate/generate.go` as TRANSLATED from the Go source = the
model's `Ivg.Gen.concat` of `Ivg/Model/Generator.lean` at float32, for all inputs.

`Concat(affs ...Aff3)` is variadic (a `List (Vector F32 6)`) and contains a `range` loop: the translation takes a
`fuel` argument, the loop is the local function `generate_Concat.loop5_1` (captured: `affs` and `len(affs)`;
loop state: the range index, the current element `b` and the accumulator `a`).  Go's meaning is the value for
sufficient fuel: the ties hold for every `fuel ≥ len(affs) + 1` (one unit per element and one to leave the loop).
-/
namespace Ivg.Gen.Tie
open Ivg Ivg.Num Ivg.Gen.Code

/-- the body of the loop of generate.go `Concat` (the function the model folds with) -/
def concatStep (a b : Ivg.Gen.Aff3 F32) : Ivg.Gen.Aff3 F32 :=
  ⟨a.a0 * b.a0 + a.a3 * b.a1, a.a1 * b.a0 + a.a4 * b.a1, a.a2 * b.a0 + a.a5 * b.a1 + b.a2,
   a.a0 * b.a3 + a.a3 * b.a4, a.a1 * b.a3 + a.a4 * b.a4, a.a2 * b.a3 + a.a5 * b.a4 + b.a5⟩

tolerant
/-- the model's `concat` with its anonymous step function named -/
theorem concat_eq (affs : List (Ivg.Gen.Aff3 F32)) :
    Ivg.Gen.concat affs = match affs with
      | [] => Ivg.Gen.Aff3.identity
      | [a] => a
      | affs => affs.foldl concatStep Ivg.Gen.Aff3.identity := by
  match affs with
  | [] | [_] | _ :: _ :: _ => rfl

tolerant
theorem identity_code : (#v[(⟨0x3f800000⟩ : F32), ⟨0⟩, ⟨0⟩, ⟨0⟩, ⟨0x3f800000⟩, ⟨0⟩] : Vector F32 6) =
    aff3Of Ivg.Gen.Aff3.identity := by
  simp only [identity_eq, aff3Of, f32_ofInt_one, f32_ofInt_zero]

tolerant
theorem sliceGet_lt' {T : Type} [Inhabited T] (l : List T) (i : Nat) (h : i < l.length) :
    Go.sliceGet l i = l[i] := by
  simp [Go.sliceGet, h]

tolerant
/-- the loop of `Concat`, about to look at index `i` (the range index variable holds `i - 1`) with accumulator `a`:
    with `fuel ≥ len(affs) - i + 1` it returns the fold of the remaining elements from `a`; the loop variable holding
    the current element (`prev`) is irrelevant -/
theorem concat_loop5_1 (affs : List (Vector F32 6)) (fuel : Nat) (i : Nat) (prev : Vector F32 6)
    (a : Ivg.Gen.Aff3 F32) (hf : affs.length - i + 1 ≤ fuel) :
    generate_Concat.loop5_1 affs (Int.ofNat affs.length) fuel ((i : Int) - 1) prev (aff3Of a) =
      aff3Of (((affs.drop i).map aff3To).foldl concatStep a) := by
  induction fuel generalizing i prev a with
  | zero => omega
  | succ k ih =>
    unfold generate_Concat.loop5_1
    have e : (i : Int) - 1 + 1 = (i : Int) := by omega
    simp only [e]
    by_cases hc : (i : Int) < Int.ofNat affs.length
    · have hi : i < affs.length := by simp only [Int.ofNat_eq_natCast] at hc; omega
      have e1 : Go.idx_int (i : Int) = i := by simp [Go.idx_int]
      simp only [hc, decide_true, ↓reduceIte, e1, sliceGet_lt' _ _ hi]
      have ih' := ih (i + 1) affs[i] (concatStep a (aff3To affs[i])) (by omega)
      rw [show (((i + 1 : Nat) : Int) - 1) = (i : Int) by omega] at ih'
      rw [List.drop_eq_getElem_cons hi, List.map_cons, List.foldl_cons, ← ih']
      -- the six stores into `a` (all computed from the OLD `a`) are the six components of `concatStep`
      congr 1
    · have hi : affs.length ≤ i := by simp only [Int.ofNat_eq_natCast] at hc; omega
      simp only [hc, decide_false, Bool.false_eq_true, ↓reduceIte, List.drop_eq_nil_of_le hi, List.map_nil,
        List.foldl_nil]

tolerant
/-- generate.go `Concat(affs ...Aff3)`, for every `fuel ≥ len(affs) + 1`: the model's `concat` (Go arrays read through
    `aff3To`, the result written through `aff3Of`) -/
theorem concat_code_tie (fuel : Nat) (affs : List (Vector F32 6)) (hf : affs.length + 1 ≤ fuel) :
    generate_Concat fuel affs = aff3Of (Ivg.Gen.concat (affs.map aff3To)) := by
  rw [concat_eq]
  match affs, hf with
  | [], _ => simp only [generate_Concat, List.length_nil, List.map_nil]; exact identity_code
  | [a], _ =>
    simp only [generate_Concat, List.length_cons, List.length_nil, List.map_cons, List.map_nil, aff3Of_aff3To]
    rfl
  | a :: b :: rest, hf =>
    have h0 : ¬ (Int.ofNat (a :: b :: rest).length = 0) := by
      simp only [Int.ofNat_eq_natCast, List.length_cons]; omega
    have h1 : ¬ (Int.ofNat (a :: b :: rest).length = 1) := by
      simp only [Int.ofNat_eq_natCast, List.length_cons]; omega
    have h := concat_loop5_1 (a :: b :: rest) fuel 0 (Vector.replicate 6 ⟨0⟩) Ivg.Gen.Aff3.identity (by omega)
    simp only [generate_Concat, h0, h1, decide_false, Bool.false_eq_true, ↓reduceIte]
    rw [← identity_code] at h
    simpa using h

tolerant
/-- the model form: on model matrices -/
theorem concat_code_tie_model (fuel : Nat) (affs : List (Ivg.Gen.Aff3 F32)) (hf : affs.length + 1 ≤ fuel) :
    generate_Concat fuel (affs.map aff3Of) = aff3Of (Ivg.Gen.concat affs) := by
  rw [concat_code_tie fuel _ (by simpa using hf)]
  simp [Function.comp_def]

example : ([aff3Of (Ivg.Gen.translate ⟨0⟩ ⟨0⟩), aff3Of (Ivg.Gen.scale2 ⟨0x40000000⟩ ⟨0x40000000⟩)] :
    List (Vector F32 6)).length + 1 ≤ 3 := by decide

tolerant
/-- generate.go `(*Generator).SetTransform(transforms ...Aff3)`: the new value of the field `transforms` is the
    one-element slice holding the model's `concat` of the arguments (for every `fuel ≥ len(transforms) + 1`).  The
    model has no `SetTransform`: `setPathData`/`normalizeArgs` take the list of transforms and concatenate it
    themselves; `generator_SetTransform_concat` below is the fact that makes the two agree. -/
theorem generator_SetTransform_code_tie (fuel : Nat) (transforms : List (Vector F32 6))
    (hf : transforms.length + 1 ≤ fuel) :
    generate_Generator_SetTransform fuel transforms = [aff3Of (Ivg.Gen.concat (transforms.map aff3To))] := by
  simp only [generate_Generator_SetTransform, concat_code_tie fuel transforms hf]

tolerant
/-- … so concatenating the stored field (what `SetPathData`→`normalize` does with `e.transforms...`) is
    concatenating the arguments of `SetTransform` (what the model does), and the stored slice is never empty -/
theorem generator_SetTransform_concat (fuel : Nat) (transforms : List (Vector F32 6))
    (hf : transforms.length + 1 ≤ fuel) :
    Ivg.Gen.concat ((generate_Generator_SetTransform fuel transforms).map aff3To) =
      Ivg.Gen.concat (transforms.map aff3To) ∧
    (generate_Generator_SetTransform fuel transforms).length = 1 := by
  rw [generator_SetTransform_code_tie fuel transforms hf]
  simp [Ivg.Gen.concat]

/-! ## `normalize` of generate/generate.go

`normalize(args *[7]float32, n int, verb byte, transforms ...Aff3)` rewrites the first `n` entries of the array in
place.  The model's `normalizeArgs` works on the LIST of the first `n` arguments and on a `Char` verb; the tie is
stated for every array, every `n : int` (through `n.toNat`: a negative `n` behaves as 0 on both sides), every byte
`verb` (through `Char.ofNat verb.toNat`): the Go array afterwards is the model's result on the first `n` entries
followed by the untouched rest.  The fuel is that of the call of `Concat`: `len(transforms) + 1`.
(The `else` branch of Go's `if true {…} else {…}`, which contains two more loops, is dead code.) -/

tolerant
theorem vec7_eta (args : Vector F32 7) :
    args = #v[args[0], args[1], args[2], args[3], args[4], args[5], args[6]] := by
  ext j hj
  match j, hj with
  | 0, _ | 1, _ | 2, _ | 3, _ | 4, _ | 5, _ | 6, _ => rfl

set_option maxRecDepth 100000 in
tolerant
theorem isLower_byte : ∀ n, n < 256 →
    Ivg.Gen.isLower (Char.ofNat n) = (decide ((97 : UInt8) ≤ UInt8.ofNat n) && decide (UInt8.ofNat n < (123 : UInt8))) := by
  decide +kernel

tolerant
theorem isLower_u8 (v : UInt8) :
    Ivg.Gen.isLower (Char.ofNat v.toNat) = (decide ((97 : UInt8) ≤ v) && decide (v < (123 : UInt8))) := by
  have h := isLower_byte v.toNat v.toNat_lt
  rwa [UInt8.ofNat_toNat] at h

set_option maxRecDepth 100000 in
tolerant
theorem verbHV_byte : ∀ n, n < 256 →
    (Char.ofNat n = 'H' ↔ UInt8.ofNat n = 72) ∧ (Char.ofNat n = 'h' ↔ UInt8.ofNat n = 104) ∧
    (Char.ofNat n = 'V' ↔ UInt8.ofNat n = 86) ∧ (Char.ofNat n = 'v' ↔ UInt8.ofNat n = 118) := by
  decide +kernel

tolerant
theorem verbHV_u8 (v : UInt8) :
    (Char.ofNat v.toNat = 'H' ↔ v = 72) ∧ (Char.ofNat v.toNat = 'h' ↔ v = 104) ∧
    (Char.ofNat v.toNat = 'V' ↔ v = 86) ∧ (Char.ofNat v.toNat = 'v' ↔ v = 118) := by
  have h := verbHV_byte v.toNat v.toNat_lt
  rwa [UInt8.ofNat_toNat] at h

set_option linter.unusedSimpArgs false in
tolerant
/-- generate.go `normalize`, for every `fuel ≥ len(transforms) + 1`: the array after the call, as a list, is the
    model's `normalizeArgs` of the first `n` entries followed by the entries from `n` on, unchanged -/
theorem normalize_code_tie (fuel : Nat) (args : Vector F32 7) (n : Int) (verb : UInt8) (ts : List (Vector F32 6))
    (hf : ts.length + 1 ≤ fuel) :
    (generate_normalize fuel args n verb ts).toList =
      Ivg.Gen.normalizeArgs (args.toList.take n.toNat) n.toNat (Char.ofNat verb.toNat) (ts.map aff3To) ++
        args.toList.drop n.toNat := by
  cases ts with
  | nil => simp [generate_normalize, Ivg.Gen.normalizeArgs]
  | cons t ts' =>
    have hpos : ((1 : Int) ≤ Int.ofNat (t :: ts').length) := by simp only [Int.ofNat_eq_natCast, List.length_cons]; omega
    have hT := concat_code_tie fuel (t :: ts') hf
    rw [vec7_eta args]
    generalize args[0] = a0
    generalize args[1] = a1
    generalize args[2] = a2
    generalize args[3] = a3
    generalize args[4] = a4
    generalize args[5] = a5
    generalize args[6] = a6
    simp only [generate_normalize, hpos, decide_true, ↓reduceIte, hT]
    obtain ⟨vH, vh, vV, vv⟩ := verbHV_u8 verb
    have hlow := isLower_u8 verb
    generalize Char.ofNat verb.toNat = c at *
    by_cases h97 : (97 : UInt8) ≤ verb <;> by_cases h123 : verb < (123 : UInt8) <;>
      simp only [h97, h123, decide_true, decide_false, Bool.and_true, Bool.and_false, Bool.false_and] at hlow <;>
      simp only [h97, h123, decide_true, decide_false, ↓reduceIte, Bool.false_eq_true]
    all_goals
      by_cases h7 : n = 7
      · subst h7
        simp only [decide_true, ↓reduceIte]
        simp only [Ivg.Gen.normalizeArgs, hlow]
        rfl
      by_cases h6 : n = 6
      · subst h6
        simp only [Int.reduceEq, decide_true, decide_false, Bool.false_eq_true, ↓reduceIte]
        simp only [Ivg.Gen.normalizeArgs, hlow]
        rfl
      by_cases h4 : n = 4
      · subst h4
        simp only [Int.reduceEq, decide_true, decide_false, Bool.false_eq_true, ↓reduceIte]
        simp only [Ivg.Gen.normalizeArgs, hlow]
        rfl
      by_cases h2 : n = 2
      · subst h2
        simp only [Int.reduceEq, decide_true, decide_false, Bool.false_eq_true, ↓reduceIte]
        simp only [Ivg.Gen.normalizeArgs, hlow]
        rfl
      by_cases h1 : n = 1
      · subst h1
        simp only [Int.reduceEq, decide_true, decide_false, Bool.false_eq_true, ↓reduceIte]
        simp only [Ivg.Gen.normalizeArgs, hlow, vH, vh, vV, vv]
        by_cases e1 : verb = 72
        · simp only [e1, decide_true, ↓reduceIte, true_or]; rfl
        by_cases e2 : verb = 104
        · simp only [e1, e2, decide_true, decide_false, Bool.false_eq_true, ↓reduceIte, true_or, or_true]; rfl
        by_cases e3 : verb = 86
        · simp only [e1, e2, e3, decide_true, decide_false, Bool.false_eq_true, ↓reduceIte, true_or, or_true,
            or_self]; rfl
        by_cases e4 : verb = 118
        · simp only [e1, e2, e3, e4, decide_true, decide_false, Bool.false_eq_true, ↓reduceIte, true_or, or_true,
            or_self]; rfl
        · simp only [e1, e2, e3, e4, decide_false, Bool.false_eq_true, ↓reduceIte, or_self]; rfl
      · simp only [h7, h6, h4, h2, h1, decide_false, Bool.false_eq_true, ↓reduceIte]
        simp only [Ivg.Gen.normalizeArgs, List.map_cons, List.isEmpty_cons, Bool.false_eq_true, ↓reduceIte]
        split <;> first | (exfalso; omega) | exact (List.take_append_drop _ _).symm

example : ([aff3Of (Ivg.Gen.scale2 ⟨0x40000000⟩ ⟨0x40000000⟩)] : List (Vector F32 6)).length + 1 ≤ 2 := by decide

/-! ## `normalize` of mdicons/parsepathdata.go

`normalize(args *[6]float32, n int, op byte, size float32, offset f32.Vec2, outSize float32, relative bool)` is a loop
over the first `n` entries (`mdicons_normalize.loop3_1`; captured: `n op size offset outSize relative`; state: the
index and the array).  The tie holds for every `fuel ≥ n + 1`. -/

tolerant
theorem f32_ofInt_two : (Arith.ofInt 2 : F32) = ⟨0x40000000⟩ := by decide

/-- the body of the loop of mdicons `normalize` for index `j` and element `a` (Go side) -/
def mdElemCode (n : Int) (op : UInt8) (size : F32) (offset : Vector F32 2) (outSize : F32) (relative : Bool)
    (j : Nat) (a : F32) : F32 :=
  let a := a * (outSize / size)
  if relative then a else
  let a := a - outSize / ⟨0x40000000⟩
  if n ≠ 1 then a - Go.arrGet offset (Go.idx_int (Go.int_and (j : Int) 1))
  else if op = 72 then a - Go.arrGet offset 0
  else if op = 86 then a - Go.arrGet offset 1
  else a

/-- the model's per-element function (the anonymous function `normalizeArgs` maps over the indexed arguments) -/
def mdElemModel (n : Nat) (op : Char) (size offX offY outSize : F32) (relative : Bool) (p : Nat × F32) : F32 :=
  if p.1 ≥ n then p.2 else
  let a := p.2 * (outSize / size)
  if relative then a else
  let a := a - outSize / Arith.ofInt 2
  if n ≠ 1 then a - (if p.1 % 2 = 0 then offX else offY)
  else if op = 'H' then a - offX
  else if op = 'V' then a - offY
  else a

tolerant
theorem md_normalizeArgs_eq (args : List F32) (n : Nat) (op : Char) (size offX offY outSize : F32) (relative : Bool) :
    Ivg.Md.normalizeArgs args n op size offX offY outSize relative =
      ((List.range args.length).zip args).map (mdElemModel n op size offX offY outSize relative) := rfl


tolerant
theorem arrSet_ge {T : Type} {k : Nat} (m : Vector T k) (i : Nat) (h : k ≤ i) (x : T) : Go.arrSet m i x = m := by
  ext j hj
  simp only [Go.arrSet, Vector.getElem_setIfInBounds]
  split
  · omega
  · rfl

tolerant
theorem arrSet_arrSet {T : Type} {k : Nat} (m : Vector T k) (i : Nat) (x y : T) :
    Go.arrSet (Go.arrSet m i x) i y = Go.arrSet m i y := by
  ext j hj
  simp only [Go.arrSet, Vector.getElem_setIfInBounds]
  split <;> rfl

tolerant
theorem arrGet_arrSet {T : Type} [Inhabited T] {k : Nat} (m : Vector T k) (i : Nat) (h : i < k) (x : T) :
    Go.arrGet (Go.arrSet m i x) i = x := by
  simp [Go.arrGet, Go.arrSet, h]

tolerant
theorem arrGet_lt {T : Type} [Inhabited T] {k : Nat} (m : Vector T k) (i : Nat) (h : i < k) :
    Go.arrGet m i = m[i] := by
  simp [Go.arrGet, h]

tolerant
/-- one iteration of the loop: whatever path is taken, the array after the iteration is the array before with
    element `i` replaced by `mdElemCode … i (old element)` -/
theorem mdicons_normalize_loop3_1 (n : Int) (op : UInt8) (size : F32) (offset : Vector F32 2) (outSize : F32)
    (relative : Bool) (fuel : Nat) (i : Nat) (m : Vector F32 6) (hf : (n - i).toNat + 1 ≤ fuel) :
    mdicons_normalize.loop3_1 n op size offset outSize relative fuel (i : Int) m =
      Vector.ofFn (fun j : Fin 6 =>
        if i ≤ j.val ∧ (j.val : Int) < n then mdElemCode n op size offset outSize relative j.val m[j.val] else m[j.val]) := by
  induction fuel generalizing i m with
  | zero => omega
  | succ k ih =>
    unfold mdicons_normalize.loop3_1
    by_cases hc : (i : Int) < n
    · have e1 : Go.idx_int (i : Int) = i := by simp [Go.idx_int]
      have e2 : (i : Int) + 1 = ((i + 1 : Nat) : Int) := by omega
      simp only [hc, decide_true, ↓reduceIte, e1, e2]
      have step : ∀ m' : Vector F32 6,
          m' = Go.arrSet m i (mdElemCode n op size offset outSize relative i (Go.arrGet m i)) →
          mdicons_normalize.loop3_1 n op size offset outSize relative k ((i + 1 : Nat) : Int) m' =
            Vector.ofFn (fun j : Fin 6 =>
              if i ≤ j.val ∧ (j.val : Int) < n then mdElemCode n op size offset outSize relative j.val m[j.val]
              else m[j.val]) := by
        intro m' hm'
        rw [ih (i + 1) m' (by omega), hm']
        ext j hj
        simp only [Vector.getElem_ofFn, Go.arrSet, Vector.getElem_setIfInBounds]
        by_cases hji : i = j
        · subst hji
          simp [hc, arrGet_lt _ _ hj]
          intro h; omega
        · have : (i + 1 ≤ j) ↔ (i ≤ j) := by omega
          simp [hji, this]
      have hset : ∀ (v : Vector F32 6) (x : F32), ¬ i < 6 → Go.arrSet v i x = v :=
        fun v x h => arrSet_ge v i (Nat.le_of_not_lt h) x
      by_cases hi : i < 6
      · simp only [arrGet_arrSet _ _ hi, arrSet_arrSet]
        repeat' split
        all_goals refine step _ ?_
        all_goals simp_all [mdElemCode]
      · simp only [hset _ _ hi]
        refine Eq.trans ?_ (step m (by rw [hset _ _ hi]))
        repeat' split
        all_goals rfl
    · simp only [hc, decide_false, Bool.false_eq_true, ↓reduceIte]
      ext j hj
      simp only [Vector.getElem_ofFn]
      rw [if_neg (by omega)]

set_option maxRecDepth 100000 in
tolerant
theorem opHV_byte : ∀ n, n < 256 →
    (Char.ofNat n = 'H' ↔ UInt8.ofNat n = 72) ∧ (Char.ofNat n = 'V' ↔ UInt8.ofNat n = 86) := by
  decide +kernel

tolerant
theorem opHV_u8 (v : UInt8) : (Char.ofNat v.toNat = 'H' ↔ v = 72) ∧ (Char.ofNat v.toNat = 'V' ↔ v = 86) := by
  have h := opHV_byte v.toNat v.toNat_lt
  rwa [UInt8.ofNat_toNat] at h

tolerant
theorem arrGet_offset (offX offY : F32) (j : Nat) :
    Go.arrGet (#v[offX, offY] : Vector F32 2) (Go.idx_int (Go.int_and (j : Int) 1)) =
      if j % 2 = 0 then offX else offY := by
  have : Go.idx_int (Go.int_and (j : Int) 1) = j % 2 := by
    rw [int_and_one]; simp only [Go.idx_int]; omega
  rw [this]
  rcases Nat.mod_two_eq_zero_or_one j with h | h <;> rw [h] <;> rfl

tolerant
/-- element by element, the Go loop body is the model's function -/
theorem mdElem_code_model (n : Int) (op : UInt8) (size offX offY outSize : F32) (relative : Bool) (j : Nat) (a : F32) :
    (if 0 ≤ j ∧ (j : Int) < n then mdElemCode n op size #v[offX, offY] outSize relative j a else a) =
      mdElemModel n.toNat (Char.ofNat op.toNat) size offX offY outSize relative (j, a) := by
  obtain ⟨hH, hV⟩ := opHV_u8 op
  simp only [mdElemModel, mdElemCode, arrGet_offset, hH, hV, f32_ofInt_two, Nat.zero_le, true_and]
  by_cases hjn : (j : Int) < n
  · have h1 : ¬ (j ≥ n.toNat) := by omega
    have h2 : (n.toNat ≠ 1) ↔ (n ≠ 1) := by omega
    simp only [hjn, h1, h2, ↓reduceIte]
    rfl
  · have h1 : j ≥ n.toNat := by omega
    simp only [hjn, h1, ↓reduceIte]

tolerant
/-- mdicons/parsepathdata.go `normalize`, for every array, every `n : int` (through `n.toNat`), every byte `op`
    (through `Char.ofNat op.toNat`), the offset vector `{offX, offY}` and every `fuel ≥ n + 1`: the array after the
    call, as a list, is the model's `Md.normalizeArgs` of the array as a list (the model leaves the entries from index
    `n` on unchanged, as the Go loop does).  For `n > 6` Go panics (index out of range); the translation reads the
    default value and drops the store, so the equation also holds there. -/
theorem mdicons_normalize_code_tie (fuel : Nat) (args : Vector F32 6) (n : Int) (op : UInt8)
    (size offX offY outSize : F32) (relative : Bool) (hf : n.toNat + 1 ≤ fuel) :
    (mdicons_normalize fuel args n op size #v[offX, offY] outSize relative).toList =
      Ivg.Md.normalizeArgs args.toList n.toNat (Char.ofNat op.toNat) size offX offY outSize relative := by
  have h := mdicons_normalize_loop3_1 n op size #v[offX, offY] outSize relative fuel 0 args (by omega)
  rw [md_normalizeArgs_eq, mdicons_normalize, show (0 : Int) = ((0 : Nat) : Int) from rfl, h]
  apply List.ext_getElem
  · simp
  · intro j h1 h2
    have hj : j < 6 := by simpa using h1
    simp only [Vector.getElem_toList, Vector.getElem_ofFn, List.getElem_map, List.getElem_zip, List.getElem_range,
      ← mdElem_code_model]

tolerant
/-- … in the form the model's `pathLoop` uses it (a list of exactly the `n` scanned arguments): the first `n` entries
    of the array after the call are the model's `normalizeArgs` of the first `n` entries before -/
theorem mdicons_normalize_code_tie_take (fuel : Nat) (args : Vector F32 6) (n : Int) (op : UInt8)
    (size offX offY outSize : F32) (relative : Bool) (hf : n.toNat + 1 ≤ fuel) :
    (mdicons_normalize fuel args n op size #v[offX, offY] outSize relative).toList.take n.toNat =
      Ivg.Md.normalizeArgs (args.toList.take n.toNat) n.toNat (Char.ofNat op.toNat) size offX offY outSize
        relative := by
  rw [mdicons_normalize_code_tie fuel args n op size offX offY outSize relative hf, md_normalizeArgs_eq,
    md_normalizeArgs_eq, ← List.map_take, List.zip_eq_zipWith, List.take_zipWith, List.take_range]
  simp [List.zip_eq_zipWith]

example : (2 : Int).toNat + 1 ≤ 3 := by decide

end Ivg.Gen.Tie
