import Ivg.Gen.Tie.Code.Base
import Ivg.Model.EncBuffer
/-!
# Bit-arithmetic lemmas for the ties of `encode/buffer.go`

The generated code works with `UInt32` shifts / ors / ands and `Go.cvt_u32_u8`; the model (`Ivg.Enc`) with `Nat`
multiplication, division and `Enc.byte`.  Everything here is independent of the generated definitions.
-/
namespace Ivg.Gen.Tie
open Ivg Ivg.Num Ivg.Gen

/-! ## `uint8(w)` = `byte w` -/

tolerant
/-- Go `uint8(w)` for `w : uint32` is the model's `byte` of any natural congruent to `w` modulo 256 -/
theorem encAux_toUInt8_eq_byte (w : UInt32) (n : Nat) (h : w.toNat % 256 = n % 256) :
    Go.cvt_u32_u8 w = Enc.byte n := by
  apply UInt8.toNat_inj.mp
  simp only [Go.cvt_u32_u8, Enc.byte, UInt32.toNat_toUInt8, UInt8.toNat_ofNat']
  omega

tolerant
theorem encAux_shr8 (w : UInt32) : (w >>> (8 : UInt32)).toNat = w.toNat / 256 := by
  rw [UInt32.toNat_shiftRight]; exact Nat.shiftRight_eq_div_pow _ 8
tolerant
theorem encAux_shr16 (w : UInt32) : (w >>> (16 : UInt32)).toNat = w.toNat / 65536 := by
  rw [UInt32.toNat_shiftRight]; exact Nat.shiftRight_eq_div_pow _ 16
tolerant
theorem encAux_shr24 (w : UInt32) : (w >>> (24 : UInt32)).toNat = w.toNat / 16777216 := by
  rw [UInt32.toNat_shiftRight]; exact Nat.shiftRight_eq_div_pow _ 24

tolerant
/-- one byte written from a `uint32` whose value is known modulo 256 -/
theorem encAux_bytes1 (w : UInt32) (n : Nat) (h : w.toNat % 256 = n % 256) : [Go.cvt_u32_u8 w] = [Enc.byte n] := by
  rw [encAux_toUInt8_eq_byte w n h]

tolerant
/-- the two low bytes of a `uint32`, little endian, as the Go code writes them -/
theorem encAux_bytes2 (w : UInt32) (n : Nat) (h : w.toNat = n) :
    [Go.cvt_u32_u8 w, Go.cvt_u32_u8 (w >>> (8 : UInt32))] = [Enc.byte n, Enc.byte (n / 256)] := by
  rw [encAux_toUInt8_eq_byte w n (by rw [h]),
    encAux_toUInt8_eq_byte (w >>> (8 : UInt32)) (n / 256) (by rw [encAux_shr8, h])]

tolerant
/-- the four bytes of a `uint32`, little endian, as the Go code writes them -/
theorem encAux_bytes4 (w : UInt32) (n : Nat) (h : w.toNat = n) :
    [Go.cvt_u32_u8 w, Go.cvt_u32_u8 (w >>> (8 : UInt32)), Go.cvt_u32_u8 (w >>> (16 : UInt32)),
      Go.cvt_u32_u8 (w >>> (24 : UInt32))]
      = [Enc.byte n, Enc.byte (n / 256), Enc.byte (n / 65536), Enc.byte (n / 16777216)] := by
  rw [encAux_toUInt8_eq_byte w n (by rw [h]),
    encAux_toUInt8_eq_byte (w >>> (8 : UInt32)) (n / 256) (by rw [encAux_shr8, h]),
    encAux_toUInt8_eq_byte (w >>> (16 : UInt32)) (n / 65536) (by rw [encAux_shr16, h]),
    encAux_toUInt8_eq_byte (w >>> (24 : UInt32)) (n / 16777216) (by rw [encAux_shr24, h])]

/-! ## shifts and ors on `Nat` -/

tolerant
/-- `4q | 1 = 4q + 1` -/
theorem encAux_mul4_or1 (q : Nat) : (q * 4) ||| 1 = q * 4 + 1 := by
  have := Nat.shiftLeft_add_eq_or_of_lt (i := 2) (b := 1) (by decide) q
  rw [Nat.shiftLeft_eq] at this
  exact this.symm

tolerant
/-- `4q | 3 = 4q + 3` -/
theorem encAux_mul4_or3 (q : Nat) : (q * 4) ||| 3 = q * 4 + 3 := by
  have := Nat.shiftLeft_add_eq_or_of_lt (i := 2) (b := 3) (by decide) q
  rw [Nat.shiftLeft_eq] at this
  exact this.symm

tolerant
/-- `x | 3` sets the two low bits: `x / 4 * 4 + 3` -/
theorem encAux_or3 (x : Nat) : x ||| 3 = x / 4 * 4 + 3 := by
  have hx : x = (x / 4) <<< 2 ||| x % 4 := by
    rw [← Nat.shiftLeft_add_eq_or_of_lt (i := 2) (by omega), Nat.shiftLeft_eq]; omega
  have h3 : x % 4 ||| 3 = 3 := by
    have : x % 4 < 4 := Nat.mod_lt _ (by decide)
    generalize x % 4 = r at this
    match r, this with
    | 0, _ => rfl
    | 1, _ => rfl
    | 2, _ => rfl
    | 3, _ => rfl
  conv => lhs; rw [hx, Nat.or_assoc, h3]
  rw [← Nat.shiftLeft_add_eq_or_of_lt (i := 2) (by decide), Nat.shiftLeft_eq]

tolerant
/-- `x & 0xff800000` clears the 23 low bits of a 32-bit value -/
theorem encAux_and_hi (x : Nat) (h : x < 2 ^ 32) : x &&& 4286578688 = x / 8388608 * 8388608 := by
  apply Nat.eq_of_testBit_eq
  intro i
  have e1 : (4286578688 : Nat) = 511 <<< 23 := by decide
  have e2 : x / 8388608 * 8388608 = (x >>> 23) <<< 23 := by
    rw [Nat.shiftLeft_eq, Nat.shiftRight_eq_div_pow]
  have hq : x >>> 23 < 2 ^ 9 := by rw [Nat.shiftRight_eq_div_pow]; omega
  rw [e2, Nat.testBit_and, e1, Nat.testBit_shiftLeft, Nat.testBit_shiftLeft]
  by_cases hi : 23 ≤ i
  · simp only [hi, decide_true, Bool.true_and]
    have e3 : (511 : Nat) = 2 ^ 9 - 1 := by decide
    have e4 : 23 + (i - 23) = i := by omega
    rw [Nat.testBit_shiftRight, e3, Nat.testBit_two_pow_sub_one, e4]
    by_cases h9 : i - 23 < 9
    · simp [h9]
    · have : x.testBit i = false := by
        apply Nat.testBit_lt_two_pow
        calc x < 2 ^ 32 := h
          _ ≤ 2 ^ i := Nat.pow_le_pow_right (by decide) (by omega)
      simp [h9, this]
  · simp [hi]

tolerant
/-- a multiple of `2^23` or-ed with a value below `2^23` is their sum -/
theorem encAux_hi_or_lo (q r : Nat) (h : r < 8388608) : (q * 8388608) ||| r = q * 8388608 + r := by
  have := Nat.shiftLeft_add_eq_or_of_lt (i := 23) (b := r) (by simpa using h) q
  rw [Nat.shiftLeft_eq] at this
  exact this.symm

tolerant
/-- `x & 0x7fffff` -/
theorem encAux_and_lo (x : Nat) : x &&& 8388607 = x % 8388608 :=
  Nat.and_two_pow_sub_one_eq_mod x 23

/-! ## the `uint32` words the encoder forms -/

tolerant
theorem encAux_shl1 (u : UInt32) : (u <<< (1 : UInt32)).toNat = u.toNat * 2 % 4294967296 := by
  rw [UInt32.toNat_shiftLeft]; exact congrArg (· % 4294967296) (Nat.shiftLeft_eq _ 1)
tolerant
theorem encAux_shl2 (u : UInt32) : (u <<< (2 : UInt32)).toNat = u.toNat * 4 % 4294967296 := by
  rw [UInt32.toNat_shiftLeft]; exact congrArg (· % 4294967296) (Nat.shiftLeft_eq _ 2)

tolerant
/-- `u << 1`, as far as its low byte is concerned -/
theorem encAux_shl1_mod (u : UInt32) : (u <<< (1 : UInt32)).toNat % 256 = u.toNat * 2 % 256 := by
  rw [encAux_shl1]; omega

tolerant
/-- `(u << 2) | 1` for `u < 2^30` -/
theorem encAux_shl2_or1 (u : UInt32) (h : u.toNat < 1073741824) :
    (u <<< (2 : UInt32) ||| (1 : UInt32)).toNat = u.toNat * 4 + 1 := by
  rw [UInt32.toNat_or, encAux_shl2, Nat.mod_eq_of_lt (by omega)]
  exact encAux_mul4_or1 _

tolerant
/-- `(u << 2) | 3` in `uint32` (the shift wraps) -/
theorem encAux_shl2_or3 (u : UInt32) :
    (u <<< (2 : UInt32) ||| (3 : UInt32)).toNat = u.toNat * 4 % 4294967296 + 3 := by
  rw [UInt32.toNat_or, encAux_shl2]
  have : u.toNat * 4 % 4294967296 = (u.toNat % 1073741824) * 4 := by omega
  rw [this]
  exact encAux_mul4_or3 _

tolerant
/-- `(x & 0xff800000) | lo | 3` for a 23-bit `lo` -/
theorem encAux_real4_word (x lo : UInt32) (h : lo.toNat < 8388608) :
    ((x &&& (4286578688 : UInt32)) ||| lo ||| (3 : UInt32)).toNat
      = (x.toNat / 8388608 * 8388608 + lo.toNat) / 4 * 4 + 3 := by
  rw [UInt32.toNat_or, UInt32.toNat_or, UInt32.toNat_and]
  show (x.toNat &&& 4286578688 ||| lo.toNat) ||| 3 = _
  rw [encAux_and_hi _ x.toNat_lt, encAux_hi_or_lo _ _ h, encAux_or3]

/-! ## `int32` conversions -/

tolerant
/-- the amd64 `int32(f)` is in range -/
theorem encAux_toInt32_range (f : F32) : -2147483648 ≤ f.toInt32 ∧ f.toInt32 < 2147483648 := by
  unfold F32.toInt32
  split
  · omega
  · split <;> omega

tolerant
theorem encAux_toInt_cvt (f : F32) : (Go.cvt_f32_i32 f).toInt = f.toInt32 := by
  have := encAux_toInt32_range f
  exact Int32.toInt_ofInt_of_le (by omega) (by omega)

tolerant
/-- `uint32(int32(i) + k)` for a small non-negative sum -/
theorem encAux_i32_add_toNat (i k : Int) (h0 : 0 ≤ i + k) (h1 : i + k < 4294967296) :
    (Go.cvt_i32_u32 (Int32.ofInt i + Int32.ofInt k)).toNat = (i + k).toNat := by
  rw [← Int32.ofInt_add]
  show ((i + k) % ((2 ^ 32 : Nat) : Int)).toNat = (i + k).toNat
  congr 1
  omega

end Ivg.Gen.Tie
