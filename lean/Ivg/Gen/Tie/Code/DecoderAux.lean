import Ivg.Gen.Tie.Code.Base
import Ivg.Gen.Tie.Code.DecAux
import Ivg.Gen.Tie.Code.DecNumbers
import Ivg.Gen.Tie.Code.DecColors
import Ivg.Gen.Tie.Code.Color
import Ivg.Gen.Tie.Code.Transform
import Ivg.Gen.Code.P_decode
import Ivg.Model.Decoder
/-!
# Definitions and helper lemmas for the ties of the decoder's INSTRUCTION LAYER (`decode/decode.go`)

The translator specialises the instruction layer to what `decode.Decode` runs: the printing callback is nil
(suffix `__pnil`) and the `ivg.Destination` is an abstract object (`ivg_Destination_ops R`).  Here the object is
instantiated with a CALL LOG: `R := List (Call F32)`, each method appends the model's `Call` (`logOps`); the reads
`CSel()`/`NSel()` (which the decoder never calls) deliver nothing.

* `errText : DecErr → String` — the `DecodeError` text of a model error, WITHOUT the `"iconvg: "` prefix (the
  generated code's `Go.Err` carries the string value of the `DecodeError`), defined from the GENERATED package-level
  variables `G_decode_errXxx`, so `errText_message : "iconvg: " ++ errText e = e.message` ties the texts of
  decode.go's error variables to the model;
* `modeName : DMode → Go.FnRef` — the name of the next mode function;
* `stepResOf l r` — what a mode function (`decodeStyling`, `decodeDrawing` and the functions they dispatch to) run on
  the log `l` returns when the model returns `r : List Item × Except DecErr (DMode × Bytes)`:
  on `.ok (m, rest)`  : `(modeName m, rest, nil, l ++ callsOf items)`,
  on `.error e`       : `(nil, nil, errText e, l ++ callsOf items)`   (Go: `return nil, nil, err`);
* `valResOf` — the result of `decodeNumber`/`decodeAngle`: `(value, rest, nil)` or `(0, nil, errInvalidNumber)`.
-/
namespace Ivg.Gen.Tie
open Ivg Ivg.Num Ivg.Gen Ivg.Gen.Code Ivg.Dec

/-! ## error texts -/

/-- the text of the Go `DecodeError` value for a model error (without the `"iconvg: "` that `Error()` prepends),
    read from the generated package-level variables of decode.go -/
def errText : DecErr → String
  | .inconsistentMetadataChunkLength => G_decode_errInconsistentMetadataChunkLength
  | .invalidColor => G_decode_errInvalidColor
  | .invalidMagicIdentifier => G_decode_errInvalidMagicIdentifier
  | .invalidMetadataChunkLength => G_decode_errInvalidMetadataChunkLength
  | .invalidMetadataIdentifier => G_decode_errInvalidMetadataIdentifier
  | .metadataIdentifierOrder => G_decode_errMetadataIdentifierOrder
  | .invalidNumber => G_decode_errInvalidNumber
  | .invalidNumberOfMetadataChunks => G_decode_errInvalidNumberOfMetadataChunks
  | .invalidSuggestedPalette => G_decode_errInvalidSuggestedPalette
  | .invalidViewBox => G_decode_errInvalidViewBox
  | .unsupportedDrawingOpcode => G_decode_errUnsupportedDrawingOpcode
  | .unsupportedMetadataIdentifier => G_decode_errUnsupportedMetadataIdentifier
  | .unsupportedStylingOpcode => G_decode_errUnsupportedStylingOpcode

tolerant
/-- the texts of decode.go's error variables are the model's messages without the prefix `"iconvg: "` -/
theorem errText_message (e : DecErr) : "iconvg: " ++ errText e = e.message := by
  cases e <;> decide

tolerant
/-- `(DecodeError).Error` (decode/decode.go) on the error value of a model error = the model's message -/
theorem decodeError_Error_code_tie (e : DecErr) : decode_DecodeError_Error (errText e) = e.message := by
  cases e <;> decide

tolerant
/-- distinct model errors have distinct Go error values -/
theorem errText_inj {a b : DecErr} : errText a = errText b ↔ a = b := by
  cases a <;> cases b <;> decide

/-! ## the Destination as a call log -/

/-- the model Color of ANY Go `ivg.Color` value (`colorTo?` where the type tag is one of the four declared ones;
    the decoder only ever builds colours in the image of `colorOf`, see `colorTo_colorOf`; other tags — which no
    function of color.go constructs — are read as RGBA) -/
def colorTo (c : ivg_Color) : Color := (colorTo? c).getD ⟨.rgba, rgbaTo c.data⟩

tolerant
@[simp] theorem colorTo_colorOf (c : Color) : colorTo (colorOf c) = c := by
  simp [colorTo]

/-- the delivered calls so far -/
abbrev CallLog := List (Call F32)

/-- The object behind the decoder's `ivg.Destination`: a log to which every delivering method appends the model's
    `Call`; the two reads `CSel()`, `NSel()` return 0 and deliver nothing (the decoder does not call them). -/
def logOps : ivg_Destination_ops CallLog where
  AbsArcTo l rx ry rot la sw x y := l ++ [.arc false rx ry rot la sw x y]
  AbsCubeTo l x1 y1 x2 y2 x y := l ++ [.d6 .C x1 y1 x2 y2 x y]
  AbsHLineTo l x := l ++ [.d1 .H x]
  AbsLineTo l x y := l ++ [.d2 .L x y]
  AbsQuadTo l x1 y1 x y := l ++ [.d4 .Q x1 y1 x y]
  AbsSmoothCubeTo l x2 y2 x y := l ++ [.d4 .S x2 y2 x y]
  AbsSmoothQuadTo l x y := l ++ [.d2 .T x y]
  AbsVLineTo l y := l ++ [.d1 .V y]
  CSel l := (0, l)
  ClosePathAbsMoveTo l x y := l ++ [.d2 .Y x y]
  ClosePathEndPath l := l ++ [.closeEnd]
  ClosePathRelMoveTo l x y := l ++ [.d2 .y x y]
  NSel l := (0, l)
  RelArcTo l rx ry rot la sw x y := l ++ [.arc true rx ry rot la sw x y]
  RelCubeTo l x1 y1 x2 y2 x y := l ++ [.d6 .c x1 y1 x2 y2 x y]
  RelHLineTo l x := l ++ [.d1 .h x]
  RelLineTo l x y := l ++ [.d2 .l x y]
  RelQuadTo l x1 y1 x y := l ++ [.d4 .q x1 y1 x y]
  RelSmoothCubeTo l x2 y2 x y := l ++ [.d4 .s x2 y2 x y]
  RelSmoothQuadTo l x y := l ++ [.d2 .t x y]
  RelVLineTo l y := l ++ [.d1 .v y]
  Reset l vb pal := l ++ [.reset (vbTo vb) (palTo pal)]
  SetCReg l adj incr c := l ++ [.setCReg adj incr (colorTo c)]
  SetCSel l v := l ++ [.setCSel v]
  SetLOD l a b := l ++ [.setLOD a b]
  SetNReg l adj incr f := l ++ [.setNReg adj incr f]
  SetNSel l v := l ++ [.setNSel v]
  StartPath l adj x y := l ++ [.startPath adj x y]

/-! ## result conversions -/

/-- the generated name of the mode function for a model `DMode` -/
def modeName : DMode → Go.FnRef
  | .styling => Go.fnRef "decode_decodeStyling"
  | .drawing => Go.fnRef "decode_decodeDrawing"

tolerant
theorem modeName_inj {a b : DMode} : modeName a = modeName b ↔ a = b := by
  cases a <;> cases b <;> decide

tolerant
/-- a mode name is never the nil function -/
theorem modeName_ne_nil (m : DMode) : modeName m ≠ Go.fnRef "" := by
  cases m <;> decide

/-- what a mode function run on the log `l` returns (`(modeFunc, buffer, error)` and the new log) when the model
    returns `r` -/
def stepResOf (l : CallLog) (r : List Item × Except DecErr (DMode × Bytes)) :
    Go.FnRef × List UInt8 × Go.Err × CallLog :=
  match r with
  | (its, .ok (m, rest)) => (modeName m, rest, none, l ++ callsOf its)
  | (its, .error e) => (Go.fnRef "", [], some (errText e), l ++ callsOf its)

tolerant
/-- reading `stepResOf`: the error is nil exactly when the model returns `.ok` -/
theorem stepResOf_err_none (l : CallLog) (r : List Item × Except DecErr (DMode × Bytes)) :
    (stepResOf l r).2.2.1 = none ↔ ∃ p, r.2 = .ok p := by
  obtain ⟨its, r⟩ := r
  cases r <;> simp [stepResOf]

tolerant
/-- reading `stepResOf`: the log is extended by the delivered calls of the model's items, in every case -/
theorem stepResOf_log (l : CallLog) (r : List Item × Except DecErr (DMode × Bytes)) :
    (stepResOf l r).2.2.2 = l ++ callsOf r.1 := by
  obtain ⟨its, r⟩ := r
  cases r <;> simp [stepResOf]

/-- the result `(value, rest, error)` of `decodeNumber` / `decodeAngle` for a model result -/
def valResOf : Option (F32 × Bytes) → F32 × List UInt8 × Go.Err
  | some (x, rest) => (x, rest, none)
  | none => (⟨0⟩, [], some (errText .invalidNumber))

/-- the result `(largeArc, sweep, rest, error)` of `decodeArcToFlags` for the model's `decodeNatural` result -/
def flagsResOf : Option (Nat × Nat × Bytes) → Bool × Bool × List UInt8 × Go.Err
  | some (fl, _, rest) => (fl % 2 != 0, fl / 2 % 2 != 0, rest, none)
  | none => (false, false, [], some (errText .invalidNumber))

/-- the values on the `.number` lines of a list of items -/
def numsOf : List Item → List F32
  | [] => []
  | .line ⟨_, .number x⟩ :: r => x :: numsOf r
  | _ :: r => numsOf r

/-- what `decodeCoordinates(coords, nil, src)` returns — `(rest, error)` and the elements of `coords` afterwards —
    for the model's result `Dec.decodeCoordinates (len coords) src`: on success the decoded numbers; on failure
    (Go: `return nil, err`) the numbers decoded so far (they are on the model's `.number` lines), then the zero that
    `coords[i], src, err = decodeNumber(…)` stores on failure, then the untouched elements -/
def coordsResOf (coords : List F32) : List Item × Option (List F32 × Bytes) → List UInt8 × Go.Err × List F32
  | (_, some (xs, rest)) => (rest, none, xs)
  | (its, none) =>
    ([], some (errText .invalidNumber), numsOf its ++ (⟨0⟩ : F32) :: coords.drop (its.length + 1))

/-! ## `callsOf` -/

tolerant
@[simp] theorem callsOf_nil : callsOf [] = [] := rfl
tolerant
@[simp] theorem callsOf_cons_line (l : Line) (r : List Item) : callsOf (.line l :: r) = callsOf r := rfl
tolerant
@[simp] theorem callsOf_cons_call (c : Call F32) (r : List Item) : callsOf (.call c :: r) = c :: callsOf r := rfl

tolerant
@[simp] theorem callsOf_append (a b : List Item) : callsOf (a ++ b) = callsOf a ++ callsOf b := by
  induction a with
  | nil => rfl
  | cons x a ih => cases x <;> simp [ih]

/-! ## the model's `decodeNumber` / `decodeCoordinates` -/

tolerant
/-- the model's `decodeNumber` yields one `.number` line -/
theorem decoder_decodeNumber_some {dnf : Bytes → Option (F32 × Bytes)} {src : Bytes} {it : Item} {x : F32}
    {rest : Bytes} (h : Dec.decodeNumber dnf src = some (it, x, rest)) :
    it = .line ⟨consumed src rest, .number x⟩ ∧ dnf src = some (x, rest) := by
  unfold Dec.decodeNumber at h
  split at h
  · contradiction
  · rename_i x' rest' hd
    simp only [Option.some.injEq, Prod.mk.injEq] at h
    obtain ⟨h1, h2, h3⟩ := h
    subst h2 h3
    exact ⟨h1.symm, hd⟩

tolerant
/-- the model's `decodeCoordinates n` yields only lines (no calls), and on success exactly `n` numbers -/
theorem decoder_decodeCoordinates_spec : ∀ (n : Nat) (src : Bytes),
    callsOf (Dec.decodeCoordinates n src).1 = [] ∧
    ∀ xs rest, (Dec.decodeCoordinates n src).2 = some (xs, rest) → xs.length = n := by
  intro n
  induction n with
  | zero => intro src; simp [Dec.decodeCoordinates]
  | succ n ih =>
    intro src
    rw [Dec.decodeCoordinates]
    rcases hd : Dec.decodeNumber Dec.decodeCoordinate src with _ | ⟨it, x, rest⟩
    · simp
    · obtain ⟨hit, _⟩ := decoder_decodeNumber_some hd
      obtain ⟨h1, h2⟩ := ih rest
      rcases hc : Dec.decodeCoordinates n rest with ⟨its, _ | ⟨xs, rest'⟩⟩
      · rw [hc] at h1
        simp only at h1
        simp [hit, h1, hc]
      · rw [hc] at h1 h2
        simp only at h1 h2
        simp only [hc]
        refine ⟨by simp [hit, h1], ?_⟩
        intro xs' rest'' h
        simp only [Option.some.injEq, Prod.mk.injEq] at h
        obtain ⟨rfl, rfl⟩ := h
        simp [h2 xs rest' rfl]

/-! ## `src[n:]` after a `decodeXxx` of buffer.go -/

tolerant
/-- `b[n:len(b)]` -/
theorem decoder_slice_drop {T} (b : List T) (n : Nat) : Go.slice b n b.length = b.drop n := by
  simp [Go.slice]

tolerant
/-- `b[1:]` of a non-empty buffer -/
theorem decoder_slice_tail {T} (x : T) (b : List T) : Go.slice (x :: b) 1 (x :: b).length = b := by
  simp [Go.slice]

tolerant
/-- What the Go callers do with the result `(v, n)` of a `decodeXxx` method of buffer.go: `n == 0` is the failure,
    otherwise they go on with `b[n:]` — on the Go result `decResOf f zero b r` of a model result `r = some (v, rest)`
    whose remaining bytes are a proper suffix of `b`. -/
theorem decoder_decRes_some {α β : Type} (f : α → β) (zero : β) (b : Bytes) (v : α) (rest : Bytes)
    (hr : ∃ n, 0 < n ∧ n ≤ b.length ∧ rest = b.drop n) :
    (decResOf f zero b (some (v, rest))).1 = f v ∧ (decResOf f zero b (some (v, rest))).2 ≠ 0 ∧
      Go.slice b (Go.idx_int (decResOf f zero b (some (v, rest))).2) b.length = rest := by
  obtain ⟨n, h0, hn, rfl⟩ := hr
  have h1 : b.length - (b.length - n) = n := by omega
  refine ⟨rfl, ?_, ?_⟩
  · simp only [decResOf, List.length_drop, h1]; omega
  · simp only [decResOf, List.length_drop, h1, Go.idx_int, Int.toNat_natCast, decoder_slice_drop]

tolerant
/-- the failure: `(zero, 0)` -/
theorem decoder_decRes_none {α β : Type} (f : α → β) (zero : β) (b : Bytes) :
    decResOf f zero b (none : Option (α × Bytes)) = (zero, 0) := rfl

end Ivg.Gen.Tie
