import Ivg.Gen.Tie.Code.Decoder
/-!
# Tie: `decodeDrawing` (decode/decode.go), part 1 — the REPETITION LOOPS of the opcodes `< 0xe0`

The translator turns `for i := 0; i < nReps; i++ { … }` of `decodeDrawing` into one local recursive function per
case of `switch opcode >> 4` (`decode_decodeDrawing__pnil.loop34_1 … loop34_15`; the operation string `op` and
`nCoords` are constants in each).  This file proves, for each of the 14 reachable loops run on the call log
(`logOps`), that ONE ITERATION does what the model's `Dec.decodeRep op` says (`DecoderRepStep`, by unfolding the generated
loop once and pruning its `switch op[0]` by evaluation), and — once, generically — that a loop with that step
property computes the model's `Dec.decodeReps` (`decoder_reps_of_step`).  This file: the generic part and `loop34_1 … loop34_7`; `Decoder3.lean`: `loop34_8 … loop34_14`;
`Decoder4.lean` assembles `decodeDrawing`.
-/
namespace Ivg.Gen.Tie
open Ivg Ivg.Num Ivg.Gen Ivg.Gen.Code Ivg.Dec

/-- the result type of the mode functions on the call log -/
abbrev DecoderStepRes := Go.FnRef × List UInt8 × Go.Err × CallLog

/-- the local array `coords` of `decodeDrawing` after the repetition that delivered the call `c` (the loops carry
    the array along; no result depends on it) -/
def decoderNextArr (m : Vector F32 6) : Call F32 → Vector F32 6
  | .d2 _ x y => Go.arrWriteBack m 0 [x, y]
  | .d4 _ x1 y1 x y => Go.arrWriteBack m 0 [x1, y1, x, y]
  | .d6 _ x1 y1 x2 y2 x y => Go.arrWriteBack m 0 [x1, y1, x2, y2, x, y]
  | .arc _ rx ry rot _ _ x y => Go.arrWriteBack (Go.arrSet (Go.arrWriteBack m 0 [rx, ry]) 2 rot) 4 [x, y]
  | _ => m

/-- what a repetition loop returns for the model's `decodeReps` result: after the last repetition
    `return decodeDrawing, src, nil`, on a failed operand `return nil, nil, err` -/
def decoderRepsResOf (l : CallLog) : List Item × Except DecErr Bytes → DecoderStepRes
  | (its, .ok rest) => (modeName .drawing, rest, none, l ++ callsOf its)
  | (its, .error e) => (Go.fnRef "", [], some (errText e), l ++ callsOf its)

/-- ONE ITERATION of a repetition loop `L` (a `loop34_k` of the generated `decodeDrawing` on `logOps`; `N` = nReps,
    `i` the loop counter, `m` the array `coords`, `l` the log) does what the model's `decodeRep op` says; the inner
    `decodeCoordinates` loops get the remaining fuel `f`, at most 6 coordinates need `7 ≤ f` -/
def DecoderRepStep (L : Nat → List UInt8 → Int → Vector F32 6 → CallLog → DecoderStepRes) (N : Int) (op : RepOp) : Prop :=
  ∀ (f : Nat) (src : Bytes) (i : Int) (m : Vector F32 6) (l : CallLog), (i < N → 7 ≤ f) →
    L (f + 1) src i m l =
      if i < N then
        match Dec.decodeRep op src with
        | (_, none) => (Go.fnRef "", [], some (errText .invalidNumber), l)
        | (_, some (c, rest)) => L f rest (i + 1) (decoderNextArr m c) (l ++ [c])
      else (modeName .drawing, src, none, l)

/-! ## helpers for the iterations -/

tolerant
theorem decoder_vec6_cases (m : Vector F32 6) : ∃ a b c d e g, m = #v[a, b, c, d, e, g] := by
  obtain ⟨⟨l⟩, h⟩ := m
  match l, h with
  | [a, b, c, d, e, g], _ => exact ⟨a, b, c, d, e, g, rfl⟩

tolerant
theorem decoder_list_len1 {α} (xs : List α) (h : xs.length = 1) : ∃ a, xs = [a] := by
  match xs, h with
  | [a], _ => exact ⟨a, rfl⟩
tolerant
theorem decoder_list_len2 {α} (xs : List α) (h : xs.length = 2) : ∃ a b, xs = [a, b] := by
  match xs, h with
  | [a, b], _ => exact ⟨a, b, rfl⟩
tolerant
theorem decoder_list_len4 {α} (xs : List α) (h : xs.length = 4) : ∃ a b c d, xs = [a, b, c, d] := by
  match xs, h with
  | [a, b, c, d], _ => exact ⟨a, b, c, d, rfl⟩
tolerant
theorem decoder_list_len6 {α} (xs : List α) (h : xs.length = 6) : ∃ a b c d e g, xs = [a, b, c, d, e, g] := by
  match xs, h with
  | [a, b, c, d, e, g], _ => exact ⟨a, b, c, d, e, g, rfl⟩

/-! ## the model's `decodeRep` delivers nothing itself -/

tolerant
/-- the items of the model's `decodeArcRep` are lines -/
theorem decoder_decodeArcRep_calls (rel : Bool) (src : Bytes) : callsOf (Dec.decodeArcRep rel src).1 = [] := by
  unfold Dec.decodeArcRep
  have h1 := (decoder_decodeCoordinates_spec 2 src).1
  rcases hc : Dec.decodeCoordinates 2 src with ⟨its1, _ | ⟨xs, src1⟩⟩
  · rw [hc] at h1; simpa using h1
  · rw [hc] at h1
    simp only at h1
    have hl := (decoder_decodeCoordinates_spec 2 src).2 xs src1 (by rw [hc])
    obtain ⟨rx, ry, rfl⟩ := decoder_list_len2 xs hl
    simp only []
    rcases Dec.decodeZeroToOne src1 with _ | ⟨rot, src2⟩
    · simpa using h1
    · simp only []
      rcases Dec.decodeNatural src2 with _ | ⟨fl, n, src3⟩
      · simp [h1]
      · simp only []
        have h2 := (decoder_decodeCoordinates_spec 2 src3).1
        rcases hc2 : Dec.decodeCoordinates 2 src3 with ⟨its2, _ | ⟨ys, src4⟩⟩
        · rw [hc2] at h2; simp only at h2; simp [h1, h2]
        · rw [hc2] at h2; simp only at h2
          have hl2 := (decoder_decodeCoordinates_spec 2 src3).2 ys src4 (by rw [hc2])
          obtain ⟨x, y, rfl⟩ := decoder_list_len2 ys hl2
          simp [h1, h2]
tolerant
/-- the items of the model's `decodeRep` are lines -/
theorem decoder_decodeRep_calls (op : RepOp) (src : Bytes) : callsOf (Dec.decodeRep op src).1 = [] := by
  have h := (decoder_decodeCoordinates_spec op.nCoords src).1
  unfold Dec.decodeRep
  split
  · exact decoder_decodeArcRep_calls false src
  · exact decoder_decodeArcRep_calls true src
  · split
    · rename_i hc; rw [hc] at h; exact h
    · rename_i hc; rw [hc] at h
      split <;> exact h

/-! ## from one iteration to the whole loop -/

tolerant
/-- A loop whose iterations follow `decodeRep op` computes `decodeReps op`: with `n` repetitions to go
    (`i + n = nReps`) and fuel `≥ n + 7`, whatever `first` is (it only affects the disassembly lines). -/
theorem decoder_reps_of_step {L : Nat → List UInt8 → Int → Vector F32 6 → CallLog → DecoderStepRes} {N : Int} {op : RepOp}
    (h : DecoderRepStep L N op) : ∀ (n fuel : Nat) (i : Int) (src : Bytes) (m : Vector F32 6) (l : CallLog) (first : Bool),
    i + n = N → n + 7 ≤ fuel → L fuel src i m l = decoderRepsResOf l (Dec.decodeReps op n first src) := by
  intro n
  induction n with
  | zero =>
    intro fuel i src m l first hi hf
    obtain ⟨f, rfl⟩ : ∃ f, fuel = f + 1 := ⟨fuel - 1, by omega⟩
    have hlt : ¬ i < N := by omega
    rw [h f src i m l (fun c => absurd c hlt), if_neg hlt]
    simp [Dec.decodeReps, decoderRepsResOf]
  | succ n ih =>
    intro fuel i src m l first hi hf
    obtain ⟨f, rfl⟩ : ∃ f, fuel = f + 1 := ⟨fuel - 1, by omega⟩
    have hlt : i < N := by omega
    rw [h f src i m l (fun _ => by omega), if_pos hlt, Dec.decodeReps]
    have hcalls := decoder_decodeRep_calls op src
    rcases hr : Dec.decodeRep op src with ⟨its, _ | ⟨c, rest⟩⟩
    · rw [hr] at hcalls
      simp only at hcalls
      cases first <;> simp [decoderRepsResOf, hcalls]
    · rw [hr] at hcalls
      simp only at hcalls
      simp only []
      rw [ih f (i + 1) rest (decoderNextArr m c) (l ++ [c]) false (by omega) (by omega)]
      rcases Dec.decodeReps op n false rest with ⟨its', _ | _⟩ <;>
        cases first <;> simp [decoderRepsResOf, hcalls]

/-! ## the iterations -/

tolerant
/-- one iteration of `loop34_1` (operation `L`, 2 coordinates) -/
theorem decoder_drawing_loop1_step (N : Int) : DecoderRepStep (decode_decodeDrawing__pnil.loop34_1 logOps N) N .L := by
  intro f src i m l hf
  rw [decode_decodeDrawing__pnil.loop34_1]
  simp +decide only [if_true, if_false]
  by_cases hi : i < N
  · have hf' := hf hi
    simp only [hi, decide_true, if_true]
    have e : (Go.slice m.toList 0 (Go.idx_int 2)).length = 2 := by simp [Go.slice, Go.idx_int]
    have key := decodeCoordinates_code_tie f (Go.slice m.toList 0 (Go.idx_int 2)) src (by omega)
    simp only [key, e, Dec.decodeRep, RepOp.nCoords]
    rcases hc : Dec.decodeCoordinates 2 src with ⟨its, _ | ⟨xs, rest⟩⟩
    · simp [coordsResOf]
    · have hl := (decoder_decodeCoordinates_spec 2 src).2 xs rest (by rw [hc])
      obtain ⟨x, y, rfl⟩ := decoder_list_len2 xs hl
      obtain ⟨a, b, c, d, e, g, rfl⟩ := decoder_vec6_cases m
      simp only [coordsResOf, Option.isSome_none, Bool.false_eq_true, if_false, RepOp.mkCall]
      rfl
  · simp [hi, modeName]

tolerant
/-- one iteration of `loop34_2` (operation `L`, 2 coordinates) -/
theorem decoder_drawing_loop2_step (N : Int) : DecoderRepStep (decode_decodeDrawing__pnil.loop34_2 logOps N) N .L := by
  intro f src i m l hf
  rw [decode_decodeDrawing__pnil.loop34_2]
  simp +decide only [if_true, if_false]
  by_cases hi : i < N
  · have hf' := hf hi
    simp only [hi, decide_true, if_true]
    have e : (Go.slice m.toList 0 (Go.idx_int 2)).length = 2 := by simp [Go.slice, Go.idx_int]
    have key := decodeCoordinates_code_tie f (Go.slice m.toList 0 (Go.idx_int 2)) src (by omega)
    simp only [key, e, Dec.decodeRep, RepOp.nCoords]
    rcases hc : Dec.decodeCoordinates 2 src with ⟨its, _ | ⟨xs, rest⟩⟩
    · simp [coordsResOf]
    · have hl := (decoder_decodeCoordinates_spec 2 src).2 xs rest (by rw [hc])
      obtain ⟨x, y, rfl⟩ := decoder_list_len2 xs hl
      obtain ⟨a, b, c, d, e, g, rfl⟩ := decoder_vec6_cases m
      simp only [coordsResOf, Option.isSome_none, Bool.false_eq_true, if_false, RepOp.mkCall]
      rfl
  · simp [hi, modeName]

tolerant
/-- one iteration of `loop34_3` (operation `l`, 2 coordinates) -/
theorem decoder_drawing_loop3_step (N : Int) : DecoderRepStep (decode_decodeDrawing__pnil.loop34_3 logOps N) N .l := by
  intro f src i m l hf
  rw [decode_decodeDrawing__pnil.loop34_3]
  simp +decide only [if_true, if_false]
  by_cases hi : i < N
  · have hf' := hf hi
    simp only [hi, decide_true, if_true]
    have e : (Go.slice m.toList 0 (Go.idx_int 2)).length = 2 := by simp [Go.slice, Go.idx_int]
    have key := decodeCoordinates_code_tie f (Go.slice m.toList 0 (Go.idx_int 2)) src (by omega)
    simp only [key, e, Dec.decodeRep, RepOp.nCoords]
    rcases hc : Dec.decodeCoordinates 2 src with ⟨its, _ | ⟨xs, rest⟩⟩
    · simp [coordsResOf]
    · have hl := (decoder_decodeCoordinates_spec 2 src).2 xs rest (by rw [hc])
      obtain ⟨x, y, rfl⟩ := decoder_list_len2 xs hl
      obtain ⟨a, b, c, d, e, g, rfl⟩ := decoder_vec6_cases m
      simp only [coordsResOf, Option.isSome_none, Bool.false_eq_true, if_false, RepOp.mkCall]
      rfl
  · simp [hi, modeName]

tolerant
/-- one iteration of `loop34_4` (operation `l`, 2 coordinates) -/
theorem decoder_drawing_loop4_step (N : Int) : DecoderRepStep (decode_decodeDrawing__pnil.loop34_4 logOps N) N .l := by
  intro f src i m l hf
  rw [decode_decodeDrawing__pnil.loop34_4]
  simp +decide only [if_true, if_false]
  by_cases hi : i < N
  · have hf' := hf hi
    simp only [hi, decide_true, if_true]
    have e : (Go.slice m.toList 0 (Go.idx_int 2)).length = 2 := by simp [Go.slice, Go.idx_int]
    have key := decodeCoordinates_code_tie f (Go.slice m.toList 0 (Go.idx_int 2)) src (by omega)
    simp only [key, e, Dec.decodeRep, RepOp.nCoords]
    rcases hc : Dec.decodeCoordinates 2 src with ⟨its, _ | ⟨xs, rest⟩⟩
    · simp [coordsResOf]
    · have hl := (decoder_decodeCoordinates_spec 2 src).2 xs rest (by rw [hc])
      obtain ⟨x, y, rfl⟩ := decoder_list_len2 xs hl
      obtain ⟨a, b, c, d, e, g, rfl⟩ := decoder_vec6_cases m
      simp only [coordsResOf, Option.isSome_none, Bool.false_eq_true, if_false, RepOp.mkCall]
      rfl
  · simp [hi, modeName]

tolerant
/-- one iteration of `loop34_5` (operation `T`, 2 coordinates) -/
theorem decoder_drawing_loop5_step (N : Int) : DecoderRepStep (decode_decodeDrawing__pnil.loop34_5 logOps N) N .T := by
  intro f src i m l hf
  rw [decode_decodeDrawing__pnil.loop34_5]
  simp +decide only [if_true, if_false]
  by_cases hi : i < N
  · have hf' := hf hi
    simp only [hi, decide_true, if_true]
    have e : (Go.slice m.toList 0 (Go.idx_int 2)).length = 2 := by simp [Go.slice, Go.idx_int]
    have key := decodeCoordinates_code_tie f (Go.slice m.toList 0 (Go.idx_int 2)) src (by omega)
    simp only [key, e, Dec.decodeRep, RepOp.nCoords]
    rcases hc : Dec.decodeCoordinates 2 src with ⟨its, _ | ⟨xs, rest⟩⟩
    · simp [coordsResOf]
    · have hl := (decoder_decodeCoordinates_spec 2 src).2 xs rest (by rw [hc])
      obtain ⟨x, y, rfl⟩ := decoder_list_len2 xs hl
      obtain ⟨a, b, c, d, e, g, rfl⟩ := decoder_vec6_cases m
      simp only [coordsResOf, Option.isSome_none, Bool.false_eq_true, if_false, RepOp.mkCall]
      rfl
  · simp [hi, modeName]

tolerant
/-- one iteration of `loop34_6` (operation `t`, 2 coordinates) -/
theorem decoder_drawing_loop6_step (N : Int) : DecoderRepStep (decode_decodeDrawing__pnil.loop34_6 logOps N) N .t := by
  intro f src i m l hf
  rw [decode_decodeDrawing__pnil.loop34_6]
  simp +decide only [if_true, if_false]
  by_cases hi : i < N
  · have hf' := hf hi
    simp only [hi, decide_true, if_true]
    have e : (Go.slice m.toList 0 (Go.idx_int 2)).length = 2 := by simp [Go.slice, Go.idx_int]
    have key := decodeCoordinates_code_tie f (Go.slice m.toList 0 (Go.idx_int 2)) src (by omega)
    simp only [key, e, Dec.decodeRep, RepOp.nCoords]
    rcases hc : Dec.decodeCoordinates 2 src with ⟨its, _ | ⟨xs, rest⟩⟩
    · simp [coordsResOf]
    · have hl := (decoder_decodeCoordinates_spec 2 src).2 xs rest (by rw [hc])
      obtain ⟨x, y, rfl⟩ := decoder_list_len2 xs hl
      obtain ⟨a, b, c, d, e, g, rfl⟩ := decoder_vec6_cases m
      simp only [coordsResOf, Option.isSome_none, Bool.false_eq_true, if_false, RepOp.mkCall]
      rfl
  · simp [hi, modeName]

tolerant
/-- one iteration of `loop34_7` (operation `Q`, 4 coordinates) -/
theorem decoder_drawing_loop7_step (N : Int) : DecoderRepStep (decode_decodeDrawing__pnil.loop34_7 logOps N) N .Q := by
  intro f src i m l hf
  rw [decode_decodeDrawing__pnil.loop34_7]
  simp +decide only [if_true, if_false]
  by_cases hi : i < N
  · have hf' := hf hi
    simp only [hi, decide_true, if_true]
    have e : (Go.slice m.toList 0 (Go.idx_int 4)).length = 4 := by simp [Go.slice, Go.idx_int]
    have key := decodeCoordinates_code_tie f (Go.slice m.toList 0 (Go.idx_int 4)) src (by omega)
    simp only [key, e, Dec.decodeRep, RepOp.nCoords]
    rcases hc : Dec.decodeCoordinates 4 src with ⟨its, _ | ⟨xs, rest⟩⟩
    · simp [coordsResOf]
    · have hl := (decoder_decodeCoordinates_spec 4 src).2 xs rest (by rw [hc])
      obtain ⟨x1, y1, x, y, rfl⟩ := decoder_list_len4 xs hl
      obtain ⟨a, b, c, d, e, g, rfl⟩ := decoder_vec6_cases m
      simp only [coordsResOf, Option.isSome_none, Bool.false_eq_true, if_false, RepOp.mkCall]
      rfl
  · simp [hi, modeName]

end Ivg.Gen.Tie
