import Ivg.Gen.Tie.Code.Base
import Ivg.Gen.Tie.Code.Clamp
import Ivg.Gen.Code.P_render
import Ivg.Model.Gradient
import Ivg.Gen.Tie.Code.Color
import Ivg.Gen.Tie.Code.Ranges
import Ivg.Gen.Tie.Code.RenderRegs
import Ivg.Model.Renderer
/-!
# Tie: `(*Gradient).At` of `render/gradient.go` (the colour of one pixel) as TRANSLATED from the Go source = the
model's `Grad.Gradient.at` of `Ivg/Model/Gradient.lean` at (float32, float64), for all inputs.

`At` contains a `range` loop over `g.Ranges` with an early `return` inside: the translation takes a `fuel` argument
and the loop is the local function `render_Gradient_At.loop10_j` (one copy per path: `loop10_1` for a linear
gradient, `loop10_2` for a radial one; captured: `g.Last`, the clamped offset, `g.Ranges` and its length; state:
the range index and the current range).  Go's meaning is the value for sufficient fuel: the tie holds for every
`fuel ≥ len(g.Ranges) + 1`.

The model keeps the colour ends of a range as naturals where Go stores the `float64` of those integers (`rangeOf` of
`Clamp.lean`), and its colours have `Nat` channels where Go has `uint16` (`rgba64Of`, which reduces modulo 65536 — it is
exact on the interpolated channels, which the model computes by `toU16`, and on `First`/`Last` whenever they fit).
-/
namespace Ivg.Gen.Tie
open Ivg Ivg.Num Ivg.Gen.Code Ivg.Grad

/-- the model's search for the range containing `offset` and the interpolation in it (the tail of `Gradient.at`) -/
def atSearch (offset : F64) (rs : List (Range F64)) (last : RGBA64) : RGBA64 :=
  match findRange offset rs with
  | some r =>
    let t := (offset - r.offset0) / r.width
    let s := oneB - t
    ⟨lerpChan (α := F32) s t r.c0.r r.c1.r, lerpChan (α := F32) s t r.c0.g r.c1.g,
     lerpChan (α := F32) s t r.c0.b r.c1.b, lerpChan (α := F32) s t r.c0.a r.c1.a⟩
  | none => last

tolerant
theorem atSearch_nil (offset : F64) (last : RGBA64) : atSearch offset [] last = last := rfl

tolerant
theorem atSearch_cons (offset : F64) (r : Range F64) (rs : List (Range F64)) (last : RGBA64) :
    atSearch offset (r :: rs) last =
      if F64.le r.offset0 offset = true ∧ F64.le offset r.offset1 = true then
        (let t := (offset - r.offset0) / r.width
         let s := (⟨0x3ff0000000000000⟩ : F64) - t
         ⟨lerpChan (α := F32) s t r.c0.r r.c1.r, lerpChan (α := F32) s t r.c0.g r.c1.g,
          lerpChan (α := F32) s t r.c0.b r.c1.b, lerpChan (α := F32) s t r.c0.a r.c1.a⟩)
      else atSearch offset rs last := by
  by_cases h : F64.le r.offset0 offset = true ∧ F64.le offset r.offset1 = true
  · have hf : findRange offset (r :: rs) = some r := by
      simp only [findRange, f64_le_iff]; rw [if_pos h]
    simp only [atSearch, hf, if_pos h, oneB, f64_ofInt_one]
  · have hf : findRange offset (r :: rs) = findRange offset rs := by
      simp only [findRange, f64_le_iff]; rw [if_neg h]
    simp only [atSearch, hf, if_neg h]

tolerant
/-- Go `uint16(s*c0 + t*c1)` on the `float64` colour ends = the model's `lerpChan` on the integer colour ends -/
theorem lerpChan_code (s t : F64) (c0 c1 : Nat) :
    Go.cvt_f64_u16 (s * Arith.ofInt c0 + t * Arith.ofInt c1) = UInt16.ofNat (lerpChan (α := F32) s t c0 c1) := rfl

tolerant
theorem sliceGet_map_rangeOf (rs : List (Range F64)) (i : Nat) (h : i < rs.length) :
    Go.sliceGet (rs.map rangeOf) i = rangeOf rs[i] := by
  simp [Go.sliceGet, h]

tolerant
/-- the loop of `At` on the linear path, about to look at index `i` (the range index variable holds `i - 1`): with
    `fuel ≥ len(ranges) - i + 1` it returns what the model's search returns on the ranges from index `i` on; the loop
    variable holding the current range (`prev`) is irrelevant -/
theorem gradient_At_loop10_1 (last : RGBA64) (offset : F64) (rs : List (Range F64)) (fuel i : Nat)
    (prev : render_Range) (hf : rs.length - i + 1 ≤ fuel) :
    render_Gradient_At.loop10_1 (rgba64Of last) offset (rs.map rangeOf) (Int.ofNat (rs.map rangeOf).length) fuel
        ((i : Int) - 1) prev = rgba64Of (atSearch offset (rs.drop i) last) := by
  induction fuel generalizing i prev with
  | zero => omega
  | succ k ih =>
    unfold render_Gradient_At.loop10_1
    have e : (i : Int) - 1 + 1 = (i : Int) := by omega
    simp only [e]
    by_cases hc : (i : Int) < Int.ofNat (rs.map rangeOf).length
    · have hi : i < rs.length := by simp only [Int.ofNat_eq_natCast, List.length_map] at hc; omega
      have e1 : Go.idx_int (i : Int) = i := by simp [Go.idx_int]
      have ih' := ih (i + 1) (rangeOf rs[i]) (by omega)
      rw [show (((i + 1 : Nat) : Int) - 1) = (i : Int) by omega] at ih'
      simp only [hc, decide_true, ↓reduceIte, e1, sliceGet_map_rangeOf _ _ hi]
      rw [List.drop_eq_getElem_cons hi, atSearch_cons]
      by_cases h0 : F64.le rs[i].offset0 offset = true
      · by_cases h1 : F64.le offset rs[i].offset1 = true
        · simp only [show (rangeOf rs[i]).Offset0 = rs[i].offset0 from rfl,
            show (rangeOf rs[i]).Offset1 = rs[i].offset1 from rfl, h0, h1, and_self, ↓reduceIte]
          rfl
        · simp only [show (rangeOf rs[i]).Offset0 = rs[i].offset0 from rfl,
            show (rangeOf rs[i]).Offset1 = rs[i].offset1 from rfl, h0, h1, ↓reduceIte]
          exact ih'
      · simp only [show (rangeOf rs[i]).Offset0 = rs[i].offset0 from rfl, h0]
        exact ih'
    · have hi : rs.length ≤ i := by simp only [Int.ofNat_eq_natCast, List.length_map] at hc; omega
      simp only [hc, decide_false, Bool.false_eq_true, ↓reduceIte, List.drop_eq_nil_of_le hi, atSearch_nil]

tolerant
/-- … the copy of the same loop on the radial path -/
theorem gradient_At_loop10_2 (last : RGBA64) (offset : F64) (rs : List (Range F64)) (fuel i : Nat)
    (prev : render_Range) (hf : rs.length - i + 1 ≤ fuel) :
    render_Gradient_At.loop10_2 (rgba64Of last) offset (rs.map rangeOf) (Int.ofNat (rs.map rangeOf).length) fuel
        ((i : Int) - 1) prev = rgba64Of (atSearch offset (rs.drop i) last) := by
  induction fuel generalizing i prev with
  | zero => omega
  | succ k ih =>
    unfold render_Gradient_At.loop10_2
    have e : (i : Int) - 1 + 1 = (i : Int) := by omega
    simp only [e]
    by_cases hc : (i : Int) < Int.ofNat (rs.map rangeOf).length
    · have hi : i < rs.length := by simp only [Int.ofNat_eq_natCast, List.length_map] at hc; omega
      have e1 : Go.idx_int (i : Int) = i := by simp [Go.idx_int]
      have ih' := ih (i + 1) (rangeOf rs[i]) (by omega)
      rw [show (((i + 1 : Nat) : Int) - 1) = (i : Int) by omega] at ih'
      simp only [hc, decide_true, ↓reduceIte, e1, sliceGet_map_rangeOf _ _ hi]
      rw [List.drop_eq_getElem_cons hi, atSearch_cons]
      by_cases h0 : F64.le rs[i].offset0 offset = true
      · by_cases h1 : F64.le offset rs[i].offset1 = true
        · simp only [show (rangeOf rs[i]).Offset0 = rs[i].offset0 from rfl,
            show (rangeOf rs[i]).Offset1 = rs[i].offset1 from rfl, h0, h1, and_self, ↓reduceIte]
          rfl
        · simp only [show (rangeOf rs[i]).Offset0 = rs[i].offset0 from rfl,
            show (rangeOf rs[i]).Offset1 = rs[i].offset1 from rfl, h0, h1, ↓reduceIte]
          exact ih'
      · simp only [show (rangeOf rs[i]).Offset0 = rs[i].offset0 from rfl, h0]
        exact ih'
    · have hi : rs.length ≤ i := by simp only [Int.ofNat_eq_natCast, List.length_map] at hc; omega
      simp only [hc, decide_false, Bool.false_eq_true, ↓reduceIte, List.drop_eq_nil_of_le hi, atSearch_nil]

/-- the model's `Gradient.at` with the search named: the offset, then the three early returns, then `atSearch` -/
def atOffset (g : Gradient F64) (x y : Int) : F64 :=
  let px : F64 := Arith.ofInt x + ⟨0x3fe0000000000000⟩
  let py : F64 := Arith.ofInt y + ⟨0x3fe0000000000000⟩
  let m := g.pix2Grad
  if g.shape = 0 then clamp (α := F32) g.spread (m.a * px + m.b * py + m.c)
  else
    let gx := m.a * px + m.b * py + m.c
    let gy := m.d * px + m.e * py + m.f
    clamp (α := F32) g.spread (F64.sqrt (gx * gx + gy * gy))

/-- … and what `At` does once the offset is known: the two early returns, then the search -/
def atTail (g : Gradient F64) (r0 : Range F64) (offset : F64) : RGBA64 :=
  if ¬ (F64.le ⟨0⟩ offset = true) then ⟨0, 0, 0, 0⟩
  else if F64.lt offset r0.offset0 = true then g.first
  else atSearch offset g.ranges g.last

tolerant
/-- the model's `Gradient.at` on a gradient with at least one range, with its parts named -/
theorem gradient_at_eq (shape spread : UInt8) (m : Grad.Aff3 F64) (r0 : Range F64) (rest : List (Range F64))
    (first last : RGBA64) (x y : Int) :
    Gradient.at (α := F32) ⟨shape, spread, m, r0 :: rest, first, last⟩ x y =
      atTail ⟨shape, spread, m, r0 :: rest, first, last⟩ r0
        (atOffset ⟨shape, spread, m, r0 :: rest, first, last⟩ x y) := by
  unfold Gradient.at
  simp (config := {zeta := false}) only []
  extract_lets px py mm gx gy off
  have hoff : atOffset ⟨shape, spread, m, r0 :: rest, first, last⟩ x y = off := rfl
  rw [hoff]
  clear_value off
  simp only [atTail, atSearch, zeroB, f64_ofInt_zero, f64_le_iff, f64_lt_iff]
  cases findRange off (r0 :: rest) <;> rfl

tolerant
/-- gradient.go `(*Gradient).At`, for every `fuel ≥ len(g.Ranges) + 1`: the model's `Gradient.at` at (float32, float64)
    (the receiver fields through `gradAff3Of`, `rangeOf`, `rgba64Of`; the result through `rgba64Of`) -/
theorem gradient_At_code_tie (fuel : Nat) (g : Gradient F64) (x y : Int) (hf : g.ranges.length + 1 ≤ fuel) :
    render_Gradient_At fuel g.shape g.spread (gradAff3Of g.pix2Grad) (g.ranges.map rangeOf) (rgba64Of g.first)
      (rgba64Of g.last) x y = rgba64Of (g.at (α := F32) x y) := by
  obtain ⟨shape, spread, m, ranges, first, last⟩ := g
  cases ranges with
  | nil => rfl
  | cons r0 rest =>
    rw [gradient_at_eq]
    simp only [atTail]
    have hne : ¬ (Int.ofNat ((r0 :: rest).map rangeOf).length = 0) := by
      simp only [Int.ofNat_eq_natCast, List.length_map, List.length_cons]; omega
    have h1 := gradient_At_loop10_1 last (atOffset ⟨shape, spread, m, r0 :: rest, first, last⟩ x y) (r0 :: rest)
      fuel 0 render_Range.zero (by simpa using hf)
    have h2 := gradient_At_loop10_2 last (atOffset ⟨shape, spread, m, r0 :: rest, first, last⟩ x y) (r0 :: rest)
      fuel 0 render_Range.zero (by simpa using hf)
    simp only [List.drop_zero] at h1 h2
    rw [show ((0 : Nat) : Int) - 1 = -1 from rfl] at h1 h2
    simp only [render_Gradient_At, hne, decide_false, Bool.false_eq_true, ↓reduceIte, spread_Clamp_code_tie]
    by_cases hs : shape = 0
    · subst hs
      have hoff : atOffset ⟨0, spread, m, r0 :: rest, first, last⟩ x y =
          clamp (α := F32) spread (Go.arrGet (gradAff3Of m) 0 * (Go.cvt_int_f64 x + ⟨0x3fe0000000000000⟩) +
            Go.arrGet (gradAff3Of m) 1 * (Go.cvt_int_f64 y + ⟨0x3fe0000000000000⟩) + Go.arrGet (gradAff3Of m) 2) := rfl
      rw [← hoff]
      generalize atOffset ⟨0, spread, m, r0 :: rest, first, last⟩ x y = off at *
      simp only [decide_true, ↓reduceIte]
      by_cases hz : F64.le ⟨0⟩ off = true
      · simp only [hz, ↓reduceIte, not_true_eq_false]
        rw [show (Go.sliceGet ((r0 :: rest).map rangeOf) 0).Offset0 = r0.offset0 from rfl]
        by_cases hl : F64.lt off r0.offset0 = true
        · simp only [hl, ↓reduceIte]
        · simp only [hl, Bool.false_eq_true, ↓reduceIte]
          exact h1
      · simp only [hz, Bool.false_eq_true, ↓reduceIte, not_false_eq_true]
        rfl
    · have hoff : atOffset ⟨shape, spread, m, r0 :: rest, first, last⟩ x y =
          clamp (α := F32) spread (F64.sqrt (
            (Go.arrGet (gradAff3Of m) 0 * (Go.cvt_int_f64 x + ⟨0x3fe0000000000000⟩) +
              Go.arrGet (gradAff3Of m) 1 * (Go.cvt_int_f64 y + ⟨0x3fe0000000000000⟩) + Go.arrGet (gradAff3Of m) 2) *
            (Go.arrGet (gradAff3Of m) 0 * (Go.cvt_int_f64 x + ⟨0x3fe0000000000000⟩) +
              Go.arrGet (gradAff3Of m) 1 * (Go.cvt_int_f64 y + ⟨0x3fe0000000000000⟩) + Go.arrGet (gradAff3Of m) 2) +
            (Go.arrGet (gradAff3Of m) 3 * (Go.cvt_int_f64 x + ⟨0x3fe0000000000000⟩) +
              Go.arrGet (gradAff3Of m) 4 * (Go.cvt_int_f64 y + ⟨0x3fe0000000000000⟩) + Go.arrGet (gradAff3Of m) 5) *
            (Go.arrGet (gradAff3Of m) 3 * (Go.cvt_int_f64 x + ⟨0x3fe0000000000000⟩) +
              Go.arrGet (gradAff3Of m) 4 * (Go.cvt_int_f64 y + ⟨0x3fe0000000000000⟩) +
              Go.arrGet (gradAff3Of m) 5))) := by
        simp only [atOffset, hs, ↓reduceIte]
        rfl
      rw [← hoff]
      generalize atOffset ⟨shape, spread, m, r0 :: rest, first, last⟩ x y = off at *
      simp only [hs, decide_false, Bool.false_eq_true, ↓reduceIte]
      by_cases hz : F64.le ⟨0⟩ off = true
      · simp only [hz, ↓reduceIte, not_true_eq_false]
        rw [show (Go.sliceGet ((r0 :: rest).map rangeOf) 0).Offset0 = r0.offset0 from rfl]
        by_cases hl : F64.lt off r0.offset0 = true
        · simp only [hl, ↓reduceIte]
        · simp only [hl, Bool.false_eq_true, ↓reduceIte]
          exact h2
      · simp only [hz, Bool.false_eq_true, ↓reduceIte, not_false_eq_true]
        rfl

example : (⟨0, 1, ⟨⟨0⟩, ⟨0⟩, ⟨0⟩, ⟨0⟩, ⟨0⟩, ⟨0⟩⟩, [⟨⟨0⟩, ⟨0x3ff0000000000000⟩, ⟨0x3ff0000000000000⟩, ⟨0, 0, 0, 65535⟩,
    ⟨65535, 0, 0, 65535⟩⟩], ⟨0, 0, 0, 65535⟩, ⟨65535, 0, 0, 65535⟩⟩ : Gradient F64).ranges.length + 1 ≤ 2 := by decide

tolerant
theorem lerpChan_lt (s t : F64) (c0 c1 : Nat) : lerpChan (α := F32) s t c0 c1 < 65536 := by
  simp only [lerpChan, toU16]
  omega

tolerant
/-- every channel of the model's pixel colour fits a `uint16` when those of `first` and `last` do -/
theorem gradient_at_fits (g : Gradient F64) (x y : Int) (h1 : RGBA64.Fits g.first) (h2 : RGBA64.Fits g.last) :
    RGBA64.Fits (g.at (α := F32) x y) := by
  obtain ⟨shape, spread, m, ranges, first, last⟩ := g
  cases ranges with
  | nil => simp [Gradient.at, RGBA64.Fits]
  | cons r0 rest =>
    rw [gradient_at_eq]
    simp only [atTail, atSearch]
    split
    · simp [RGBA64.Fits]
    · split
      · exact h1
      · split
        · exact ⟨lerpChan_lt _ _ _ _, lerpChan_lt _ _ _ _, lerpChan_lt _ _ _ _, lerpChan_lt _ _ _ _⟩
        · exact h2

tolerant
/-- gradient.go `(*Gradient).At` read back into the model's colour type: when `First` and `Last` fit a `uint16`
    (hypotheses `h1 h2`; they are `uint16` fields in Go, and the renderer builds them by `Ren.rgba64Of`), the Go
    result IS the model's `Gradient.at` -/
theorem gradient_At_code_tie_fits (fuel : Nat) (g : Gradient F64) (x y : Int) (hf : g.ranges.length + 1 ≤ fuel)
    (h1 : RGBA64.Fits g.first) (h2 : RGBA64.Fits g.last) :
    rgba64To (render_Gradient_At fuel g.shape g.spread (gradAff3Of g.pix2Grad) (g.ranges.map rangeOf)
      (rgba64Of g.first) (rgba64Of g.last) x y) = g.at (α := F32) x y := by
  rw [gradient_At_code_tie fuel g x y hf, rgba64To_rgba64Of _ (gradient_at_fits g x y h1 h2)]

/-! ## `(*Renderer).initGradient` of render/render.go

The stop-collecting loop (`render_Renderer_initGradient.loop3_1`; captured: the transform, `cReg`, `nReg` and the five
decoded gradient parameters; state: the previous offset, the index, `z.stops`, `z.gradient`), the pixel-to-gradient
matrix and the call of `Gradient.Init`, against the model's `collectStops` / `Renderer.initGradient`
(`Ivg/Model/Renderer.lean`) at (float32, float64). -/
section InitGradient
open Ivg.Ren

/-- the Go `Gradient` value of a model gradient -/
def gradientOf (g : Gradient F64) : render_Gradient :=
  ⟨g.shape, g.spread, gradAff3Of g.pix2Grad, g.ranges.map rangeOf, Ivg.Gen.Tie.rgba64Of g.first,
   Ivg.Gen.Tie.rgba64Of g.last⟩

/-- the pixel-to-gradient matrix `initGradient` builds from six number registers and the renderer's transform -/
def initMatrix (z : Renderer F32 F64) (nBase : UInt8) : Grad.Aff3 F64 :=
  let one : F64 := Arith.ofInt 1
  let invZSX := one / Wide.widen z.scaleX
  let invZSY := one / Wide.widen z.scaleY
  let zBX : F64 := Wide.widen z.biasX
  let zBY : F64 := Wide.widen z.biasY
  let a : F64 := Wide.widen (z.nReg.get6 (nBase - 6))
  let b : F64 := Wide.widen (z.nReg.get6 (nBase - 5))
  let c : F64 := Wide.widen (z.nReg.get6 (nBase - 4))
  let d : F64 := Wide.widen (z.nReg.get6 (nBase - 3))
  let e : F64 := Wide.widen (z.nReg.get6 (nBase - 2))
  let f : F64 := Wide.widen (z.nReg.get6 (nBase - 1))
  ⟨a * invZSX, b * invZSY, c - a * zBX - b * zBY, d * invZSX, e * invZSY, f - d * zBX - e * zBY⟩

tolerant
theorem initGradient_eq (z : Renderer F32 F64) (rgba : RGBA) :
    z.initGradient rgba =
      match collectStops (β := F64) z.cReg z.nReg (decodeGradient rgba).cBase (decodeGradient rgba).nBase
          (decodeGradient rgba).nStops.toNat 0 zeroA true with
      | none => none
      | some stops =>
        if (Gradient.init (decodeGradient rgba).shape (decodeGradient rgba).spread
              (initMatrix z (decodeGradient rgba).nBase) stops).2
        then some (Gradient.init (decodeGradient rgba).shape (decodeGradient rgba).spread
              (initMatrix z (decodeGradient rgba).nBase) stops).1
        else none := by
  unfold Renderer.initGradient
  simp only []
  generalize collectStops (β := F64) z.cReg z.nReg (decodeGradient rgba).cBase (decodeGradient rgba).nBase
          (decodeGradient rgba).nStops.toNat 0 zeroA true = cs
  cases cs <;> rfl

tolerant
/-- `0 ≤ v` (so `v` is not a NaN) implies `-Inf < v` -/
theorem negInf_lt_of_zero_le (v : F32) (h : F32.le ⟨0⟩ v = true) : F32.lt ⟨0xff800000⟩ v = true := by
  have h0 : Num.toOrd .f32 (F32.nb ⟨0⟩) = some 0 := by decide
  have h1 : Num.toOrd .f32 (F32.nb ⟨0xff800000⟩) = some (-2139095040) := by decide
  unfold F32.le Num.le at h
  unfold F32.lt Num.lt
  rw [h0] at h
  rw [h1]
  cases hv : Num.toOrd .f32 v.nb with
  | none => rw [hv] at h; simp at h
  | some y =>
    rw [hv] at h
    simp only [decide_eq_true_eq] at h ⊢
    omega

tolerant
theorem u8_mul257 (c : UInt8) : (Go.cvt_u8_u16 c * (257 : UInt16)).toNat = c.toNat * 0x101 := by
  have := c.toNat_lt
  simp only [Go.cvt_u8_u16, UInt16.toNat_mul, UInt8.toNat_toUInt16]
  simp
  omega


/-- the Go stop `initGradient` stores for the colour `c` and the offset `v` -/
def initStop (c : RGBA) (v : F32) : render_Stop :=
  ⟨Go.cvt_f32_f64 v, ⟨Go.cvt_u8_u16 c.r * 257, Go.cvt_u8_u16 c.g * 257, Go.cvt_u8_u16 c.b * 257,
    Go.cvt_u8_u16 c.a * 257⟩⟩

tolerant
theorem stopTo_initStop (c : RGBA) (v : F32) :
    stopTo (initStop c v) = (⟨Wide.widen v, Ren.rgba64Of c⟩ : Stop F64) := by
  simp only [stopTo, initStop, rgba64To, u8_mul257, Ren.rgba64Of]
  rfl

tolerant
theorem get6_palOf (p : Palette) (u : UInt8) : Regs.get6 (palOf p) u = rgbaOf (Regs.get6 p u) := by
  simp [Regs.get6, palOf]

tolerant
theorem take_arrSet (m : Vector render_Stop 64) (i : Nat) (hi : i < 64) (x : render_Stop) :
    (Go.arrSet m i x).toList.take (i + 1) = m.toList.take i ++ [x] := by
  have hl : (List.take i m.toList).length ≤ i := by simp; omega
  simp only [Go.arrSet, Vector.toList_setIfInBounds, List.take_add_one]
  simp [List.take_set, hi, List.set_eq_of_length_le hl]


/-- the model matrix of a Go `[6]float64` -/
def gradAff3To (M : Vector F64 6) : Grad.Aff3 F64 := ⟨M[0], M[1], M[2], M[3], M[4], M[5]⟩

tolerant
theorem gradAff3Of_gradAff3To (M : Vector F64 6) : gradAff3Of (gradAff3To M) = M := by
  ext j hj
  match j, hj with
  | 0, _ | 1, _ | 2, _ | 3, _ | 4, _ | 5, _ => rfl

tolerant
theorem gradient_Init_code_tie' (fuel : Nat) (gRanges : List render_Range) (shape spread : UInt8) (M : Vector F64 6)
    (stops : List render_Stop) (hf : stops.length ≤ fuel) :
    render_Gradient_Init fuel gRanges shape spread M stops =
      (let r := Gradient.init shape spread (gradAff3To M) (stops.map stopTo)
       (r.2, r.1.shape, r.1.spread, M, r.1.ranges.map rangeOf, Ivg.Gen.Tie.rgba64Of r.1.first,
        Ivg.Gen.Tie.rgba64Of r.1.last)) := by
  have h := gradient_Init_code_tie fuel gRanges shape spread (gradAff3To M) stops hf
  rw [gradAff3Of_gradAff3To] at h
  rw [h]
  simp only [Gradient.init, gradAff3Of_gradAff3To]


tolerant
/-- the `Aff3` literal of render.go `initGradient` is the model's matrix -/
theorem initMatrix_code (z : Renderer F32 F64) (nBase : UInt8) :
    (#v[Go.cvt_f32_f64 (Regs.get6 z.nReg (nBase - 6)) * ((⟨0x3ff0000000000000⟩ : F64) / Go.cvt_f32_f64 z.scaleX),
        Go.cvt_f32_f64 (Regs.get6 z.nReg (nBase - 5)) * ((⟨0x3ff0000000000000⟩ : F64) / Go.cvt_f32_f64 z.scaleY),
        Go.cvt_f32_f64 (Regs.get6 z.nReg (nBase - 4)) -
          Go.cvt_f32_f64 (Regs.get6 z.nReg (nBase - 6)) * Go.cvt_f32_f64 z.biasX -
          Go.cvt_f32_f64 (Regs.get6 z.nReg (nBase - 5)) * Go.cvt_f32_f64 z.biasY,
        Go.cvt_f32_f64 (Regs.get6 z.nReg (nBase - 3)) * ((⟨0x3ff0000000000000⟩ : F64) / Go.cvt_f32_f64 z.scaleX),
        Go.cvt_f32_f64 (Regs.get6 z.nReg (nBase - 2)) * ((⟨0x3ff0000000000000⟩ : F64) / Go.cvt_f32_f64 z.scaleY),
        Go.cvt_f32_f64 (Regs.get6 z.nReg (nBase - 1)) -
          Go.cvt_f32_f64 (Regs.get6 z.nReg (nBase - 3)) * Go.cvt_f32_f64 z.biasX -
          Go.cvt_f32_f64 (Regs.get6 z.nReg (nBase - 2)) * Go.cvt_f32_f64 z.biasY] : Vector F64 6)
      = gradAff3Of (initMatrix z nBase) := rfl

tolerant
/-- leaving the loop of `initGradient` (index = `nStops`): the matrix, then `Gradient.Init` on the collected stops
    (which gets the REMAINING fuel `k`, hence `len(stops) ≤ k`) -/
theorem initGradient_loop3_1_exit (z : Renderer F32 F64) (cBase nBase shape spread nStops : UInt8)
    (g0 : render_Gradient) (k : Nat) (prevN : F32) (m : Vector render_Stop 64)
    (hlen : (m.toList.take nStops.toNat).length ≤ k) :
    render_Renderer_initGradient.loop3_1 z.scaleX z.biasX z.scaleY z.biasY (palOf z.cReg) z.nReg
        (cBase, nBase, shape, spread, nStops) (k + 1) prevN nStops m g0 =
      ((Gradient.init shape spread (initMatrix z nBase) ((m.toList.take nStops.toNat).map stopTo)).2,
       gradientOf (Gradient.init shape spread (initMatrix z nBase) ((m.toList.take nStops.toNat).map stopTo)).1,
       m) := by
  unfold render_Renderer_initGradient.loop3_1
  have hc : ¬ (nStops < nStops) := UInt8.lt_irrefl _
  have hsl : Go.slice m.toList 0 (Go.idx_u8 nStops) = m.toList.take nStops.toNat := by
    simp [Go.slice, Go.idx_u8]
  -- NB: no rewriting INSIDE the array literal before it is taken apart (a rewritten literal carries a cast of its
  -- size proof, which the kernel then tries to reduce)
  simp only [hc, decide_false, Bool.false_eq_true, ↓reduceIte, hsl,
    gradient_Init_code_tie' k g0.Ranges shape spread _ _ hlen, Gradient.init, gradientOf]
  refine congrArg (fun M => (_, (render_Gradient.mk shape spread M _ _ _), m)) ?_
  ext j hj
  match j, hj with
  | 0, _ | 1, _ | 2, _ | 3, _ | 4, _ | 5, _ =>
    simp only [gradAff3Of, Vector.getElem_mk, List.getElem_toArray, List.getElem_cons_zero, List.getElem_cons_succ]
    simp only [arrGet_and63]
    rfl

tolerant
/-- the stop-collecting loop of `initGradient` at index `i` with the previous offset `prevN` (`first` stands for
    `prevN = -Inf`, as in the model's `collectStops`): it fails exactly when `collectStops` does (and then leaves
    `z.gradient` alone), otherwise it ends in `Gradient.Init` on the stops stored so far followed by the collected ones.
    Fuel: one unit per remaining stop, one to leave the loop, and `nStops` for `Init`'s own loop. -/
theorem initGradient_loop3_1 (z : Renderer F32 F64) (cBase nBase shape spread nStops : UInt8)
    (hN : nStops.toNat ≤ 64) (g0 : render_Gradient) (fuel : Nat) (i : Nat) (hi : i ≤ nStops.toNat)
    (prevN : F32) (first : Bool) (m : Vector render_Stop 64)
    (hf : (nStops.toNat - i) + 1 + nStops.toNat ≤ fuel) :
    (match collectStops (β := F64) z.cReg z.nReg cBase nBase (nStops.toNat - i) (UInt8.ofNat i) prevN first with
     | none =>
       (render_Renderer_initGradient.loop3_1 z.scaleX z.biasX z.scaleY z.biasY (palOf z.cReg) z.nReg
          (cBase, nBase, shape, spread, nStops) fuel (if first then ⟨0xff800000⟩ else prevN) (UInt8.ofNat i) m g0).1
          = false ∧
       (render_Renderer_initGradient.loop3_1 z.scaleX z.biasX z.scaleY z.biasY (palOf z.cReg) z.nReg
          (cBase, nBase, shape, spread, nStops) fuel (if first then ⟨0xff800000⟩ else prevN) (UInt8.ofNat i) m g0).2.1
          = g0
     | some rest =>
       (render_Renderer_initGradient.loop3_1 z.scaleX z.biasX z.scaleY z.biasY (palOf z.cReg) z.nReg
          (cBase, nBase, shape, spread, nStops) fuel (if first then ⟨0xff800000⟩ else prevN) (UInt8.ofNat i) m g0).1
          = (Gradient.init shape spread (initMatrix z nBase) ((m.toList.take i).map stopTo ++ rest)).2 ∧
       (render_Renderer_initGradient.loop3_1 z.scaleX z.biasX z.scaleY z.biasY (palOf z.cReg) z.nReg
          (cBase, nBase, shape, spread, nStops) fuel (if first then ⟨0xff800000⟩ else prevN) (UInt8.ofNat i) m g0).2.1
          = gradientOf (Gradient.init shape spread (initMatrix z nBase) ((m.toList.take i).map stopTo ++ rest)).1) := by
  induction fuel generalizing i prevN first m with
  | zero => omega
  | succ k ih =>
    have hi8 : (UInt8.ofNat i).toNat = i := by
      have := nStops.toNat_lt
      simp only [UInt8.toNat_ofNat']; omega
    by_cases hlt : i < nStops.toNat
    · unfold render_Renderer_initGradient.loop3_1
      have hc : UInt8.ofNat i < nStops := by rw [UInt8.lt_iff_toNat_lt, hi8]; exact hlt
      have hn : nStops.toNat - i = (nStops.toNat - (i + 1)) + 1 := by omega
      have hnext : UInt8.ofNat i + 1 = UInt8.ofNat (i + 1) := by
        apply UInt8.toNat_inj.mp
        have := nStops.toNat_lt
        simp only [UInt8.toNat_add, hi8, UInt8.toNat_ofNat']; simp
      rw [hn]
      have hidx : Go.idx_u8 (UInt8.ofNat i) = i := hi8
      simp only [hc, decide_true, ↓reduceIte, arrGet_and63, get6_palOf, validAlphaPremulColor_code_tie,
        hidx, collectStops]
      generalize hcv : Regs.get6 z.cReg (cBase + UInt8.ofNat i) = c
      generalize hvv : Regs.get6 z.nReg (nBase + UInt8.ofNat i) = v
      cases hvp : c.validPremul
      · simp only [Bool.not_false, ↓reduceIte, Bool.false_eq_true, and_self]
      · simp only [Bool.not_true, Bool.false_eq_true, ↓reduceIte]
        have hz : (zeroA ≤ v) ↔ F32.le ⟨0⟩ v = true := by
          rw [f32_le_iff]; simp only [zeroA, f32_ofInt_zero]
        have h1 : (v ≤ Arith.ofInt 1) ↔ F32.le v ⟨0x3f800000⟩ = true := by
          rw [f32_le_iff]; simp only [f32_ofInt_one]
        simp only [hz, h1]
        by_cases a : F32.le ⟨0⟩ v = true
        · by_cases b : F32.le v ⟨0x3f800000⟩ = true
          · have hpv : (first = true ∨ prevN < v) ↔
                F32.lt (if first = true then ⟨0xff800000⟩ else prevN) v = true := by
              cases first
              · simp [f32_lt_iff]
              · simp [negInf_lt_of_zero_le v a]
            simp only [hpv]
            by_cases cc : F32.lt (if first = true then ⟨0xff800000⟩ else prevN) v = true
            · simp only [a, b, cc, and_self, not_true_eq_false, or_self, ↓reduceIte, hnext]
              have hstop : (⟨Go.cvt_f32_f64 v, ⟨Go.cvt_u8_u16 (rgbaOf c).R * 257, Go.cvt_u8_u16 (rgbaOf c).G * 257,
                  Go.cvt_u8_u16 (rgbaOf c).B * 257, Go.cvt_u8_u16 (rgbaOf c).A * 257⟩⟩ : render_Stop) =
                  initStop c v := rfl
              rw [hstop]
              have ih' := ih (i + 1) (by omega) v false (Go.arrSet m i (initStop c v)) (by omega)
              simp only [Bool.false_eq_true, ↓reduceIte, take_arrSet m i (by omega), List.map_append, List.map_cons,
                List.map_nil, stopTo_initStop] at ih'
              cases hcs : collectStops (β := F64) z.cReg z.nReg cBase nBase (nStops.toNat - (i + 1))
                  (UInt8.ofNat (i + 1)) v false with
              | none => rw [hcs] at ih'; exact ih'
              | some rest =>
                rw [hcs] at ih'
                simpa using ih'
            · simp only [a, b, cc, and_self, not_true_eq_false, not_false_eq_true, or_true, ↓reduceIte,
                Bool.false_eq_true, and_self]
          · simp only [a, b, and_false, not_false_eq_true, true_or, ↓reduceIte, Bool.false_eq_true, and_self]
        · simp only [a, false_and, not_false_eq_true, true_or, ↓reduceIte, Bool.false_eq_true, and_self]
    · have hiN : i = nStops.toNat := by omega
      subst hiN
      have hlen : (m.toList.take nStops.toNat).length ≤ k := by simp; omega
      rw [UInt8.ofNat_toNat, initGradient_loop3_1_exit z cBase nBase shape spread nStops g0 k _ m hlen]
      simp only [Nat.sub_self, collectStops, List.append_nil, and_self]

tolerant
theorem decodeGradient_nStops_le (rgba : RGBA) : (decodeGradient rgba).nStops.toNat ≤ 64 := by
  have : (decodeGradient rgba).nStops.toNat = rgba.r.toNat % 64 := u8_and63_toNat rgba.r
  omega

tolerant
/-- render.go `(*Renderer).initGradient`, for every `fuel ≥ 2·nStops + 1` (`nStops ≤ 63` is decoded from `rgba`), every
    previous value of `z.gradient` and `z.stops`: the Go result `ok` is `true` exactly when the model's
    `Renderer.initGradient` returns a gradient, and then the new `z.gradient` is that gradient (`gradientOf`).
    (When `ok = false` the model keeps no gradient; Go's `z.gradient` may have been overwritten by `Init`.) -/
theorem renderer_initGradient_code_tie (fuel : Nat) (z : Renderer F32 F64) (g0 : render_Gradient)
    (stops0 : Vector render_Stop 64) (rgba : RGBA) (hf : 2 * (decodeGradient rgba).nStops.toNat + 1 ≤ fuel) :
    match z.initGradient rgba with
    | some g =>
      (render_Renderer_initGradient fuel z.scaleX z.biasX z.scaleY z.biasY g0 (palOf z.cReg) z.nReg stops0
        (rgbaOf rgba)).1 = true ∧
      (render_Renderer_initGradient fuel z.scaleX z.biasX z.scaleY z.biasY g0 (palOf z.cReg) z.nReg stops0
        (rgbaOf rgba)).2.1 = gradientOf g
    | none =>
      (render_Renderer_initGradient fuel z.scaleX z.biasX z.scaleY z.biasY g0 (palOf z.cReg) z.nReg stops0
        (rgbaOf rgba)).1 = false := by
  have h := initGradient_loop3_1 z (decodeGradient rgba).cBase (decodeGradient rgba).nBase (decodeGradient rgba).shape
    (decodeGradient rgba).spread (decodeGradient rgba).nStops (decodeGradient_nStops_le rgba) g0 fuel 0
    (Nat.zero_le _) zeroA true stops0 (by omega)
  simp only [↓reduceIte, Nat.sub_zero, List.take_zero, List.map_nil, List.nil_append] at h
  rw [show UInt8.ofNat 0 = 0 from rfl] at h
  rw [initGradient_eq]
  simp only [render_Renderer_initGradient, decodeGradient_code_tie,
    show G_render_negativeInfinity = (⟨0xff800000⟩ : F32) from rfl]
  cases hcs : collectStops (β := F64) z.cReg z.nReg (decodeGradient rgba).cBase (decodeGradient rgba).nBase
      (decodeGradient rgba).nStops.toNat 0 zeroA true with
  | none =>
    rw [hcs] at h
    exact h.1
  | some stops =>
    rw [hcs] at h
    obtain ⟨h1, h2⟩ := h
    simp only
    cases hq : (Gradient.init (decodeGradient rgba).shape (decodeGradient rgba).spread
        (initMatrix z (decodeGradient rgba).nBase) stops).2
    · rw [hq] at h1
      simpa using h1
    · rw [hq] at h1
      exact ⟨h1, h2⟩

example : 2 * (decodeGradient ⟨3, 0x0a, 0x8a, 0⟩).nStops.toNat + 1 ≤ 7 := by decide

end InitGradient

end Ivg.Gen.Tie
