import Ivg.Gen.Tie.Code.Base
import Ivg.Gen.Tie.Code.Clamp
import Ivg.Gen.Code.P_render
import Ivg.Model.Gradient
/-!
# Tie: `(*Gradient).At` of `render/gradient.go` (the colour of one pixel) as TRANSLATED from the Go source = the
model's `Grad.Gradient.at` of `Ivg/Model/Gradient.lean` at (float32, float64), for all inputs.

`At` contains a `range` loop over `g.Ranges` with an early `return` inside: the translation takes a `fuel` argument
and the loop is the local function `render_Gradient_At.loop10_j` (one copy per path: `loop10_1` for a linear
gradient, `loop10_2` for a radial one; captured: `g.Last`, the clamped offset, `g.Ranges` and its length; state:
the range index and the current range).  Go's meaning is the value for sufficient fuel: the tie holds for every
`fuel ≥ len(g.Ranges) + 1`.

The model keeps the colour ends of a range as naturals where Go stores the `float64` of those integers (`rangeOf` of
`Clamp.lean`), and its colours have `Nat` channels where Go has `uint16` (`rgba64Of`, which reduces modulo 65536 — it is
exact on the interpolated channels, which the model computes by `toU16`, and on `First`/`Last` whenever they fit).
-/
namespace Ivg.Gen.Tie
open Ivg Ivg.Num Ivg.Gen.Code Ivg.Grad

/-- the model's search for the range containing `offset` and the interpolation in it (the tail of `Gradient.at`) -/
def atSearch (offset : F64) (rs : List (Range F64)) (last : RGBA64) : RGBA64 :=
  match findRange offset rs with
  | some r =>
    let t := (offset - r.offset0) / r.width
    let s := oneB - t
    ⟨lerpChan (α := F32) s t r.c0.r r.c1.r, lerpChan (α := F32) s t r.c0.g r.c1.g,
     lerpChan (α := F32) s t r.c0.b r.c1.b, lerpChan (α := F32) s t r.c0.a r.c1.a⟩
  | none => last

tolerant
theorem atSearch_nil (offset : F64) (last : RGBA64) : atSearch offset [] last = last := rfl

tolerant
theorem atSearch_cons (offset : F64) (r : Range F64) (rs : List (Range F64)) (last : RGBA64) :
    atSearch offset (r :: rs) last =
      if F64.le r.offset0 offset = true ∧ F64.le offset r.offset1 = true then
        (let t := (offset - r.offset0) / r.width
         let s := (⟨0x3ff0000000000000⟩ : F64) - t
         ⟨lerpChan (α := F32) s t r.c0.r r.c1.r, lerpChan (α := F32) s t r.c0.g r.c1.g,
          lerpChan (α := F32) s t r.c0.b r.c1.b, lerpChan (α := F32) s t r.c0.a r.c1.a⟩)
      else atSearch offset rs last := by
  by_cases h : F64.le r.offset0 offset = true ∧ F64.le offset r.offset1 = true
  · have hf : findRange offset (r :: rs) = some r := by
      simp only [findRange, f64_le_iff]; rw [if_pos h]
    simp only [atSearch, hf, if_pos h, oneB, f64_ofInt_one]
  · have hf : findRange offset (r :: rs) = findRange offset rs := by
      simp only [findRange, f64_le_iff]; rw [if_neg h]
    simp only [atSearch, hf, if_neg h]

tolerant
/-- Go `uint16(s*c0 + t*c1)` on the `float64` colour ends = the model's `lerpChan` on the integer colour ends -/
theorem lerpChan_code (s t : F64) (c0 c1 : Nat) :
    Go.cvt_f64_u16 (s * Arith.ofInt c0 + t * Arith.ofInt c1) = UInt16.ofNat (lerpChan (α := F32) s t c0 c1) := rfl

tolerant
theorem sliceGet_map_rangeOf (rs : List (Range F64)) (i : Nat) (h : i < rs.length) :
    Go.sliceGet (rs.map rangeOf) i = rangeOf rs[i] := by
  simp [Go.sliceGet, h]

tolerant
/-- the loop of `At` on the linear path, about to look at index `i` (the range index variable holds `i - 1`): with
    `fuel ≥ len(ranges) - i + 1` it returns what the model's search returns on the ranges from index `i` on; the loop
    variable holding the current range (`prev`) is irrelevant -/
theorem gradient_At_loop10_1 (last : RGBA64) (offset : F64) (rs : List (Range F64)) (fuel i : Nat)
    (prev : render_Range) (hf : rs.length - i + 1 ≤ fuel) :
    render_Gradient_At.loop10_1 (rgba64Of last) offset (rs.map rangeOf) (Int.ofNat (rs.map rangeOf).length) fuel
        ((i : Int) - 1) prev = rgba64Of (atSearch offset (rs.drop i) last) := by
  induction fuel generalizing i prev with
  | zero => omega
  | succ k ih =>
    unfold render_Gradient_At.loop10_1
    have e : (i : Int) - 1 + 1 = (i : Int) := by omega
    simp only [e]
    by_cases hc : (i : Int) < Int.ofNat (rs.map rangeOf).length
    · have hi : i < rs.length := by simp only [Int.ofNat_eq_natCast, List.length_map] at hc; omega
      have e1 : Go.idx_int (i : Int) = i := by simp [Go.idx_int]
      have ih' := ih (i + 1) (rangeOf rs[i]) (by omega)
      rw [show (((i + 1 : Nat) : Int) - 1) = (i : Int) by omega] at ih'
      simp only [hc, decide_true, ↓reduceIte, e1, sliceGet_map_rangeOf _ _ hi]
      rw [List.drop_eq_getElem_cons hi, atSearch_cons]
      by_cases h0 : F64.le rs[i].offset0 offset = true
      · by_cases h1 : F64.le offset rs[i].offset1 = true
        · simp only [show (rangeOf rs[i]).Offset0 = rs[i].offset0 from rfl,
            show (rangeOf rs[i]).Offset1 = rs[i].offset1 from rfl, h0, h1, and_self, ↓reduceIte]
          rfl
        · simp only [show (rangeOf rs[i]).Offset0 = rs[i].offset0 from rfl,
            show (rangeOf rs[i]).Offset1 = rs[i].offset1 from rfl, h0, h1, ↓reduceIte]
          exact ih'
      · simp only [show (rangeOf rs[i]).Offset0 = rs[i].offset0 from rfl, h0]
        exact ih'
    · have hi : rs.length ≤ i := by simp only [Int.ofNat_eq_natCast, List.length_map] at hc; omega
      simp only [hc, decide_false, Bool.false_eq_true, ↓reduceIte, List.drop_eq_nil_of_le hi, atSearch_nil]

tolerant
/-- … the copy of the same loop on the radial path -/
theorem gradient_At_loop10_2 (last : RGBA64) (offset : F64) (rs : List (Range F64)) (fuel i : Nat)
    (prev : render_Range) (hf : rs.length - i + 1 ≤ fuel) :
    render_Gradient_At.loop10_2 (rgba64Of last) offset (rs.map rangeOf) (Int.ofNat (rs.map rangeOf).length) fuel
        ((i : Int) - 1) prev = rgba64Of (atSearch offset (rs.drop i) last) := by
  induction fuel generalizing i prev with
  | zero => omega
  | succ k ih =>
    unfold render_Gradient_At.loop10_2
    have e : (i : Int) - 1 + 1 = (i : Int) := by omega
    simp only [e]
    by_cases hc : (i : Int) < Int.ofNat (rs.map rangeOf).length
    · have hi : i < rs.length := by simp only [Int.ofNat_eq_natCast, List.length_map] at hc; omega
      have e1 : Go.idx_int (i : Int) = i := by simp [Go.idx_int]
      have ih' := ih (i + 1) (rangeOf rs[i]) (by omega)
      rw [show (((i + 1 : Nat) : Int) - 1) = (i : Int) by omega] at ih'
      simp only [hc, decide_true, ↓reduceIte, e1, sliceGet_map_rangeOf _ _ hi]
      rw [List.drop_eq_getElem_cons hi, atSearch_cons]
      by_cases h0 : F64.le rs[i].offset0 offset = true
      · by_cases h1 : F64.le offset rs[i].offset1 = true
        · simp only [show (rangeOf rs[i]).Offset0 = rs[i].offset0 from rfl,
            show (rangeOf rs[i]).Offset1 = rs[i].offset1 from rfl, h0, h1, and_self, ↓reduceIte]
          rfl
        · simp only [show (rangeOf rs[i]).Offset0 = rs[i].offset0 from rfl,
            show (rangeOf rs[i]).Offset1 = rs[i].offset1 from rfl, h0, h1, ↓reduceIte]
          exact ih'
      · simp only [show (rangeOf rs[i]).Offset0 = rs[i].offset0 from rfl, h0]
        exact ih'
    · have hi : rs.length ≤ i := by simp only [Int.ofNat_eq_natCast, List.length_map] at hc; omega
      simp only [hc, decide_false, Bool.false_eq_true, ↓reduceIte, List.drop_eq_nil_of_le hi, atSearch_nil]

/-- the model's `Gradient.at` with the search named: the offset, then the three early returns, then `atSearch` -/
def atOffset (g : Gradient F64) (x y : Int) : F64 :=
  let px : F64 := Arith.ofInt x + ⟨0x3fe0000000000000⟩
  let py : F64 := Arith.ofInt y + ⟨0x3fe0000000000000⟩
  let m := g.pix2Grad
  if g.shape = 0 then clamp (α := F32) g.spread (m.a * px + m.b * py + m.c)
  else
    let gx := m.a * px + m.b * py + m.c
    let gy := m.d * px + m.e * py + m.f
    clamp (α := F32) g.spread (F64.sqrt (gx * gx + gy * gy))

/-- … and what `At` does once the offset is known: the two early returns, then the search -/
def atTail (g : Gradient F64) (r0 : Range F64) (offset : F64) : RGBA64 :=
  if ¬ (F64.le ⟨0⟩ offset = true) then ⟨0, 0, 0, 0⟩
  else if F64.lt offset r0.offset0 = true then g.first
  else atSearch offset g.ranges g.last

tolerant
/-- the model's `Gradient.at` on a gradient with at least one range, with its parts named -/
theorem gradient_at_eq (shape spread : UInt8) (m : Grad.Aff3 F64) (r0 : Range F64) (rest : List (Range F64))
    (first last : RGBA64) (x y : Int) :
    Gradient.at (α := F32) ⟨shape, spread, m, r0 :: rest, first, last⟩ x y =
      atTail ⟨shape, spread, m, r0 :: rest, first, last⟩ r0
        (atOffset ⟨shape, spread, m, r0 :: rest, first, last⟩ x y) := by
  unfold Gradient.at
  simp (config := {zeta := false}) only []
  extract_lets px py mm gx gy off
  have hoff : atOffset ⟨shape, spread, m, r0 :: rest, first, last⟩ x y = off := rfl
  rw [hoff]
  clear_value off
  simp only [atTail, atSearch, zeroB, f64_ofInt_zero, f64_le_iff, f64_lt_iff]
  cases findRange off (r0 :: rest) <;> rfl

tolerant
/-- gradient.go `(*Gradient).At`, for every `fuel ≥ len(g.Ranges) + 1`: the model's `Gradient.at` at (float32, float64)
    (the receiver fields through `gradAff3Of`, `rangeOf`, `rgba64Of`; the result through `rgba64Of`) -/
theorem gradient_At_code_tie (fuel : Nat) (g : Gradient F64) (x y : Int) (hf : g.ranges.length + 1 ≤ fuel) :
    render_Gradient_At fuel g.shape g.spread (gradAff3Of g.pix2Grad) (g.ranges.map rangeOf) (rgba64Of g.first)
      (rgba64Of g.last) x y = rgba64Of (g.at (α := F32) x y) := by
  obtain ⟨shape, spread, m, ranges, first, last⟩ := g
  cases ranges with
  | nil => rfl
  | cons r0 rest =>
    rw [gradient_at_eq]
    simp only [atTail]
    have hne : ¬ (Int.ofNat ((r0 :: rest).map rangeOf).length = 0) := by
      simp only [Int.ofNat_eq_natCast, List.length_map, List.length_cons]; omega
    have h1 := gradient_At_loop10_1 last (atOffset ⟨shape, spread, m, r0 :: rest, first, last⟩ x y) (r0 :: rest)
      fuel 0 render_Range.zero (by simpa using hf)
    have h2 := gradient_At_loop10_2 last (atOffset ⟨shape, spread, m, r0 :: rest, first, last⟩ x y) (r0 :: rest)
      fuel 0 render_Range.zero (by simpa using hf)
    simp only [List.drop_zero] at h1 h2
    rw [show ((0 : Nat) : Int) - 1 = -1 from rfl] at h1 h2
    simp only [render_Gradient_At, hne, decide_false, Bool.false_eq_true, ↓reduceIte, spread_Clamp_code_tie]
    by_cases hs : shape = 0
    · subst hs
      have hoff : atOffset ⟨0, spread, m, r0 :: rest, first, last⟩ x y =
          clamp (α := F32) spread (Go.arrGet (gradAff3Of m) 0 * (Go.cvt_int_f64 x + ⟨0x3fe0000000000000⟩) +
            Go.arrGet (gradAff3Of m) 1 * (Go.cvt_int_f64 y + ⟨0x3fe0000000000000⟩) + Go.arrGet (gradAff3Of m) 2) := rfl
      rw [← hoff]
      generalize atOffset ⟨0, spread, m, r0 :: rest, first, last⟩ x y = off at *
      simp only [decide_true, ↓reduceIte]
      by_cases hz : F64.le ⟨0⟩ off = true
      · simp only [hz, ↓reduceIte, not_true_eq_false]
        rw [show (Go.sliceGet ((r0 :: rest).map rangeOf) 0).Offset0 = r0.offset0 from rfl]
        by_cases hl : F64.lt off r0.offset0 = true
        · simp only [hl, ↓reduceIte]
        · simp only [hl, Bool.false_eq_true, ↓reduceIte]
          exact h1
      · simp only [hz, Bool.false_eq_true, ↓reduceIte, not_false_eq_true]
        rfl
    · have hoff : atOffset ⟨shape, spread, m, r0 :: rest, first, last⟩ x y =
          clamp (α := F32) spread (F64.sqrt (
            (Go.arrGet (gradAff3Of m) 0 * (Go.cvt_int_f64 x + ⟨0x3fe0000000000000⟩) +
              Go.arrGet (gradAff3Of m) 1 * (Go.cvt_int_f64 y + ⟨0x3fe0000000000000⟩) + Go.arrGet (gradAff3Of m) 2) *
            (Go.arrGet (gradAff3Of m) 0 * (Go.cvt_int_f64 x + ⟨0x3fe0000000000000⟩) +
              Go.arrGet (gradAff3Of m) 1 * (Go.cvt_int_f64 y + ⟨0x3fe0000000000000⟩) + Go.arrGet (gradAff3Of m) 2) +
            (Go.arrGet (gradAff3Of m) 3 * (Go.cvt_int_f64 x + ⟨0x3fe0000000000000⟩) +
              Go.arrGet (gradAff3Of m) 4 * (Go.cvt_int_f64 y + ⟨0x3fe0000000000000⟩) + Go.arrGet (gradAff3Of m) 5) *
            (Go.arrGet (gradAff3Of m) 3 * (Go.cvt_int_f64 x + ⟨0x3fe0000000000000⟩) +
              Go.arrGet (gradAff3Of m) 4 * (Go.cvt_int_f64 y + ⟨0x3fe0000000000000⟩) +
              Go.arrGet (gradAff3Of m) 5))) := by
        simp only [atOffset, hs, ↓reduceIte]
        rfl
      rw [← hoff]
      generalize atOffset ⟨shape, spread, m, r0 :: rest, first, last⟩ x y = off at *
      simp only [hs, decide_false, Bool.false_eq_true, ↓reduceIte]
      by_cases hz : F64.le ⟨0⟩ off = true
      · simp only [hz, ↓reduceIte, not_true_eq_false]
        rw [show (Go.sliceGet ((r0 :: rest).map rangeOf) 0).Offset0 = r0.offset0 from rfl]
        by_cases hl : F64.lt off r0.offset0 = true
        · simp only [hl, ↓reduceIte]
        · simp only [hl, Bool.false_eq_true, ↓reduceIte]
          exact h2
      · simp only [hz, Bool.false_eq_true, ↓reduceIte, not_false_eq_true]
        rfl

example : (⟨0, 1, ⟨⟨0⟩, ⟨0⟩, ⟨0⟩, ⟨0⟩, ⟨0⟩, ⟨0⟩⟩, [⟨⟨0⟩, ⟨0x3ff0000000000000⟩, ⟨0x3ff0000000000000⟩, ⟨0, 0, 0, 65535⟩,
    ⟨65535, 0, 0, 65535⟩⟩], ⟨0, 0, 0, 65535⟩, ⟨65535, 0, 0, 65535⟩⟩ : Gradient F64).ranges.length + 1 ≤ 2 := by decide

tolerant
theorem lerpChan_lt (s t : F64) (c0 c1 : Nat) : lerpChan (α := F32) s t c0 c1 < 65536 := by
  simp only [lerpChan, toU16]
  omega

tolerant
/-- every channel of the model's pixel colour fits a `uint16` when those of `first` and `last` do -/
theorem gradient_at_fits (g : Gradient F64) (x y : Int) (h1 : RGBA64.Fits g.first) (h2 : RGBA64.Fits g.last) :
    RGBA64.Fits (g.at (α := F32) x y) := by
  obtain ⟨shape, spread, m, ranges, first, last⟩ := g
  cases ranges with
  | nil => simp [Gradient.at, RGBA64.Fits]
  | cons r0 rest =>
    rw [gradient_at_eq]
    simp only [atTail, atSearch]
    split
    · simp [RGBA64.Fits]
    · split
      · exact h1
      · split
        · exact ⟨lerpChan_lt _ _ _ _, lerpChan_lt _ _ _ _, lerpChan_lt _ _ _ _, lerpChan_lt _ _ _ _⟩
        · exact h2

tolerant
/-- gradient.go `(*Gradient).At` read back into the model's colour type: when `First` and `Last` fit a `uint16`
    (hypotheses `h1 h2`; they are `uint16` fields in Go, and the renderer builds them by `Ren.rgba64Of`), the Go
    result IS the model's `Gradient.at` -/
theorem gradient_At_code_tie_fits (fuel : Nat) (g : Gradient F64) (x y : Int) (hf : g.ranges.length + 1 ≤ fuel)
    (h1 : RGBA64.Fits g.first) (h2 : RGBA64.Fits g.last) :
    rgba64To (render_Gradient_At fuel g.shape g.spread (gradAff3Of g.pix2Grad) (g.ranges.map rangeOf)
      (rgba64Of g.first) (rgba64Of g.last) x y) = g.at (α := F32) x y := by
  rw [gradient_At_code_tie fuel g x y hf, rgba64To_rgba64Of _ (gradient_at_fits g x y h1 h2)]

end Ivg.Gen.Tie
