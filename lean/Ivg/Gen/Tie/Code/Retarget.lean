import Ivg.Gen.Tie.Code.Transform
/-!
# Tie: `Renderer.SetRasterizer` as TRANSLATED from render/render.go = the model's `setRasterizer`, for all states and
rectangles (C05/C06/C15/C17 histories: re-targeting recomputes the transform from the CURRENT viewBox and the NEW
rectangle; an empty rectangle becomes the zero rectangle).  The rasteriser object moves into the field unchanged; the
model additionally assumes that a newly supplied rasteriser has its pen at the origin (x/image/vector contract,
`Ivg/Model/Renderer.lean`), which is about the object, not about this method.
-/
namespace Ivg.Gen.Tie
open Ivg Ivg.Num Ivg.Gen.Code Ivg.Ren

tolerant
/-- image/geom.go `Rectangle.Empty` -/
theorem rectangle_Empty_code_tie (r : Rect) : image_Rectangle_Empty (rectOf r) = r.empty := by
  simp only [image_Rectangle_Empty, rectOf, Rect.empty]
  by_cases h1 : r.maxX ≤ r.minX <;> by_cases h2 : r.maxY ≤ r.minY <;> simp [h1, h2, ge_iff_le]

tolerant
/-- render.go `(*Renderer).SetRasterizer`: the six things it writes are the model's -/
theorem renderer_SetRasterizer_code_tie {R : Type} (ops : raster_Rasterizer_ops R) (dst : R)
    (z : Renderer F32 F64) (r : Rect) :
    render_Renderer_SetRasterizer ops (vbOf z.viewBox) dst (rectOf r) =
      (dst, rectOf (z.setRasterizer r).r, (z.setRasterizer r).scaleX, (z.setRasterizer r).biasX,
       (z.setRasterizer r).scaleY, (z.setRasterizer r).biasY) := by
  unfold render_Renderer_SetRasterizer
  simp only [rectangle_Empty_code_tie]
  cases he : r.empty
  · have := renderer_recalcTransform_code_tie ({ z with r := r, penX := zeroA, penY := zeroA, firstX := zeroA, firstY := zeroA } : Renderer F32 F64)
    simp only [Renderer.setRasterizer, he, Bool.false_eq_true, ↓reduceIte] at *
    simp [this, Renderer.recalcTransform]
  · have := renderer_recalcTransform_code_tie ({ z with r := ⟨0, 0, 0, 0⟩, penX := zeroA, penY := zeroA, firstX := zeroA, firstY := zeroA } : Renderer F32 F64)
    have hz : image_Rectangle.zero = rectOf ⟨0, 0, 0, 0⟩ := rfl
    simp only [Renderer.setRasterizer, he, ↓reduceIte, hz] at *
    simp [this, Renderer.recalcTransform]

tolerant
/-- … and it writes nothing else: the model's `setRasterizer` is the record update with those values (and the pen of the
    fresh rasteriser) -/
theorem renderer_SetRasterizer_code_tie_frame (z : Renderer F32 F64) (r : Rect) :
    z.setRasterizer r =
      { z with r := (z.setRasterizer r).r, scaleX := (z.setRasterizer r).scaleX, biasX := (z.setRasterizer r).biasX,
               scaleY := (z.setRasterizer r).scaleY, biasY := (z.setRasterizer r).biasY,
               penX := zeroA, penY := zeroA, firstX := zeroA, firstY := zeroA } := by
  simp only [Renderer.setRasterizer, Renderer.recalcTransform]

end Ivg.Gen.Tie
