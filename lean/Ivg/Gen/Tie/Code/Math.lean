import Ivg.Gen.Tie.Code.MathReduce
/-!
# Tie: Go's `math.Sin / Cos / sin / cos / IsNaN / IsInf` (the pure-Go code that runs on amd64), as TRANSLATED from the Go
source (`Ivg/Gen/Code/P_math.lean`), = the hand-written port `GoMath.sin / cos / isInf` of `Ivg/Model/GoMath.lean`,
FOR ALL `x : F64` — NaN, ±Inf, ±0, the Cody–Waite branch (|x| < 2^29) and the Payne–Hanek branch (`trigReduce`, tied in
`MathReduce.lean`; the integer layer `bits.Mul64/Add64/LeadingZeros64` in `MathBits.lean`).  The inverse functions
(`Asin`, `Acos`, `satan`, `xatan`) and the `angle` closure of `AbsArcTo` are tied in `MathInv.lean`.

Where the two sides are written differently:
* `uint64(x * (4/Pi))`: Go's amd64 conversion (`Go.cvt_f64_u64`, with its branch for values from 2^63 on) against the
  port's `(F64.toInt64 …).toNat`.  They agree because the product is a non-negative float below 2^32 there
  (`cvt_small`, from a bound on the soft-float product: `mul_fourOverPi_below`, `roundMag_below`).
* the octant `j` is a `uint64` in Go and a natural in the port; both are below 8, and the two decision trees are compared
  octant by octant (`trig_tail8`).
* the generated code duplicates the tail of the function under every branch (SSA without joins); the port keeps
  `sign`, `j`, `y` as values.
-/
namespace Ivg.Gen.Tie
open Ivg Ivg.Num Ivg.Gen.Code
set_option maxRecDepth 100000
set_option linter.unusedSimpArgs false
set_option linter.unusedVariables false

/-! ## the soft-float product `x * (4/Pi)` below 2^29 -/

tolerant
theorem emin_f64 : Fmt.f64.emin = -1074 := by decide
tolerant
theorem prec_f64 : Fmt.f64.prec = 53 := by decide
tolerant
theorem mbits_f64 : Fmt.f64.mbits = 52 := rfl
tolerant
theorem ebits_f64 : Fmt.f64.ebits = 11 := rfl
tolerant
theorem expMax_f64 : Fmt.f64.expMax = 2047 := by decide

tolerant
theorem bitLen_lt_pow (m : Nat) : m < 2 ^ bitLen m := by
  unfold bitLen
  split
  · rename_i h; have : m = 0 := by simpa using h
    subst this; decide
  · exact Nat.lt_log2_self

tolerant
/-- a binary64 whose sign bit is clear and whose exponent field is at most `k ≤ 2046`, unpacked -/
theorem unpack_below (b k : Nat) (hk1 : 1 ≤ k) (hk : k ≤ 2046) (h : b < (k + 1) * 2 ^ 52) :
    ∃ m e, unpack .f64 b = .fin false m e ∧ m < 2 ^ 53 ∧ e ≤ (k : Int) - 1075 := by
  have c1 : (2:Nat)^52 = 4503599627370496 := by decide
  have c2 : (2:Nat)^11 = 2048 := by decide
  have c3 : (2:Nat)^53 = 9007199254740992 := by decide
  rw [c1] at h
  have hex : b / 4503599627370496 ≤ k := by
    have := (Nat.div_lt_iff_lt_mul (by decide : 0 < 4503599627370496)).2 h
    omega
  have hneg : (b / 9223372036854775808 % 2 == 1) = false := by
    have : b / 9223372036854775808 = 0 := by omega
    rw [this]; rfl
  simp only [unpack, emin_f64, signBit_f64, mbits_f64, ebits_f64, expMax_f64, c1, c2, c3, hneg]
  have hne : ¬ (b / 4503599627370496 % 2048 == 2047) = true := by
    simp only [beq_iff_eq]; omega
  simp only [hne, if_false, Bool.false_eq_true]
  split
  · exact ⟨_, _, rfl, by omega, by omega⟩
  · exact ⟨_, _, rfl, by omega, by omega⟩

tolerant
/-- the magnitude of a rounded `m·2^e` lies at most one binade above the exact value: exponent field ≤ `k + 1` when
    `m·2^e < 2^(k - 1022)` -/
theorem roundMag_below (m : Nat) (e : Int) (k : Nat) (h : e + (bitLen m : Int) ≤ (k : Int) - 1022) :
    roundMag .f64 m e ≤ (k + 2) * 2 ^ 52 := by
  have c52 : (2:Nat)^52 = 4503599627370496 := by decide
  have c53 : (2:Nat)^53 = 9007199254740992 := by decide
  have hL := bitLen_lt_pow m
  simp only [roundMag, emin_f64, prec_f64, mbits_f64, c52]
  generalize hfe : (if e + (bitLen m : Int) - ((53 : Nat) : Int) < -1074 then (-1074 : Int) else e + (bitLen m : Int) - ((53 : Nat) : Int)) = fe
  have hfe1 : e + (bitLen m : Int) - 53 ≤ fe := by rw [← hfe]; split <;> omega
  have hfe2 : fe ≤ (k : Int) - 1075 ∨ fe = -1074 := by rw [← hfe]; split <;> omega
  have hfe3 : -1074 ≤ fe := by rw [← hfe]; split <;> omega
  -- the rounded significand is at most 2^53
  have hq : (if fe ≤ e then m * 2 ^ (e - fe).toNat
      else if (decide (m % 2 ^ (fe - e).toNat > 2 ^ ((fe - e).toNat - 1)) ||
          (m % 2 ^ (fe - e).toNat == 2 ^ ((fe - e).toNat - 1) && m / 2 ^ (fe - e).toNat % 2 == 1)) = true
        then m / 2 ^ (fe - e).toNat + 1 else m / 2 ^ (fe - e).toNat) ≤ 9007199254740992 := by
    split
    · rename_i hle
      obtain ⟨a, ha⟩ : ∃ a : Nat, bitLen m + (e - fe).toNat + a = 53 := ⟨53 - (bitLen m + (e - fe).toNat), by omega⟩
      have h1 : m * 2 ^ (e - fe).toNat < 2 ^ (bitLen m) * 2 ^ (e - fe).toNat :=
        (Nat.mul_lt_mul_right (Nat.two_pow_pos _)).2 hL
      have h2 : 2 ^ (bitLen m) * 2 ^ (e - fe).toNat * 2 ^ a = 2 ^ 53 := by
        rw [← Nat.pow_add, ← Nat.pow_add, ha]
      have h3 := Nat.two_pow_pos a
      have : 2 ^ (bitLen m) * 2 ^ (e - fe).toNat ≤ 2 ^ 53 := by
        rw [← h2]; exact Nat.le_mul_of_pos_right _ h3
      omega
    · rename_i hgt
      obtain ⟨a, ha⟩ : ∃ a : Nat, bitLen m + a = 53 + (fe - e).toNat := ⟨53 + (fe - e).toNat - bitLen m, by omega⟩
      have h2 : 2 ^ (bitLen m) * 2 ^ a = 2 ^ 53 * 2 ^ (fe - e).toNat := by
        rw [← Nat.pow_add, ← Nat.pow_add, ha]
      have h3 := Nat.two_pow_pos a
      have h4 : m < 2 ^ 53 * 2 ^ (fe - e).toNat := by
        have : 2 ^ (bitLen m) ≤ 2 ^ (bitLen m) * 2 ^ a := Nat.le_mul_of_pos_right _ h3
        omega
      have h5 : m / 2 ^ (fe - e).toNat < 2 ^ 53 := (Nat.div_lt_iff_lt_mul (Nat.two_pow_pos _)).2 h4
      split <;> omega
  generalize (if fe ≤ e then m * 2 ^ (e - fe).toNat
      else if (decide (m % 2 ^ (fe - e).toNat > 2 ^ ((fe - e).toNat - 1)) ||
          (m % 2 ^ (fe - e).toNat == 2 ^ ((fe - e).toNat - 1) && m / 2 ^ (fe - e).toNat % 2 == 1)) = true
        then m / 2 ^ (fe - e).toNat + 1 else m / 2 ^ (fe - e).toNat) = q at hq ⊢
  rw [infBits_f64]
  have hb : (fe - -1074).toNat * 4503599627370496 + q ≤ (k + 2) * 4503599627370496 := by
    rcases hfe2 with h1 | h1
    · omega
    · omega
  split <;> omega

tolerant
/-- `math.Float64bits` of a product with the constant `4/Pi`, for an argument below 2^29 with the sign bit clear:
    sign bit clear, exponent field at most 1054 (the product is below 2^32) -/
theorem mul_fourOverPi_below (a : F64) (ha : a.bits.toNat < 0x41c0000000000000) :
    (a * (⟨0x3ff45f306dc9c883⟩ : F64)).bits.toNat ≤ 1054 * 2 ^ 52 := by
  obtain ⟨m, e, hu, hm, he⟩ := unpack_below a.bits.toNat 1051 (by decide) (by decide) (by omega)
  have hc : unpack .f64 (⟨0x3ff45f306dc9c883⟩ : F64).nb = .fin false 0x145f306dc9c883 (-52) := by decide
  show (F64.mul a _).bits.toNat ≤ _
  unfold F64.mul Num.mul
  rw [hc]
  unfold F64.nb
  rw [hu]
  simp only [roundPack, bne_self_eq_false, Bool.false_eq_true, if_false, Bool.not_false, Bool.and_true, withSign]
  have hmn : m * 5734161139222659 < 2 ^ 106 := by
    have : m * 5734161139222659 < 2 ^ 53 * 2 ^ 53 :=
      Nat.mul_lt_mul'' hm (by decide)
    rw [← Nat.pow_add] at this
    exact this
  have hbl := bitLen_le _ _ hmn
  have hr := roundMag_below (m * 5734161139222659) (e + -52) 1052 (by omega)
  have c : (1052 + 2) * 2 ^ 52 = 4746794007248502784 := by decide
  have c' : 1054 * 2 ^ 52 = 4746794007248502784 := by decide
  rw [c] at hr
  rw [c']
  unfold F64.ofNatBits
  rw [UInt64.toNat_ofNat']
  split <;> omega

tolerant
/-- Go's `uint64(x * (4/Pi))` (sin.go:146/218) for `0 ≤ x < 2^29` (bits below those of `reduceThreshold`): the amd64
    conversion takes its plain CVTTSD2SQ branch and the result is the non-negative truncation the port computes with
    `F64.toInt64 … |>.toNat` -/
theorem cvt_small (a : F64) (ha : a.bits.toNat < 0x41c0000000000000) :
    (Go.cvt_f64_u64 (a * (⟨0x3ff45f306dc9c883⟩ : F64))).toNat =
      (F64.toInt64 (a * (⟨0x3ff45f306dc9c883⟩ : F64))).toNat := by
  have hP := mul_fourOverPi_below a ha
  generalize a * (⟨0x3ff45f306dc9c883⟩ : F64) = P at *
  have c' : 1054 * 2 ^ 52 = 4746794007248502784 := by decide
  rw [c'] at hP
  obtain ⟨m, e, hu, hm, he⟩ := unpack_below P.bits.toNat 1054 (by decide) (by decide) (by omega)
  have hle : F64.le ⟨0x43e0000000000000⟩ P = false := by
    unfold F64.le F64.nb
    rw [le_f64_pos _ _ (by decide) (by omega)]
    simp only [decide_eq_false_iff_not]
    have : (4890909195324358656 : UInt64).toNat = 4890909195324358656 := by decide
    omega
  have hti : F64.toInt64 P = ((m / 2 ^ (-e).toNat : Nat) : Int) := by
    unfold F64.toInt64 truncInt F64.nb
    rw [hu]
    have hneg : ¬ e ≥ 0 := by omega
    simp only [hneg, if_false, Bool.false_eq_true]
    have hq : m / 2 ^ (-e).toNat ≤ m := Nat.div_le_self _ _
    have c53 : (2:Nat) ^ 53 = 9007199254740992 := by decide
    generalize m / 2 ^ (-e).toNat = q at *
    rw [if_neg (by omega)]
  unfold Go.cvt_f64_u64
  simp only [hle, Bool.false_eq_true, if_false]
  rw [hti]
  have hq : m / 2 ^ (-e).toNat ≤ m := Nat.div_le_self _ _
  have c53 : (2:Nat) ^ 53 = 9007199254740992 := by decide
  generalize m / 2 ^ (-e).toNat = q at *
  rw [UInt64.ofInt, UInt64.toNat_ofNat']
  omega

/-! ## `IsNaN`, `IsInf`, `Abs`, negation on the bits -/

tolerant
/-- bits.go `IsNaN` (`f != f`) -/
theorem isNaN_code_tie (x : F64) : math_IsNaN x = x.isNaN := by
  unfold math_IsNaN F64.feq F64.isNaN Num.eq
  rw [toOrd_f64]
  simp only [Num.isNaN, signBit_f64, infBits_f64]
  by_cases h : x.nb % 9223372036854775808 > 9218868437227405312
  · simp only [h, if_true, decide_true, Bool.not_false]
  · by_cases hs : x.nb ≥ 9223372036854775808 <;>
      simp only [h, hs, if_true, if_false, decide_false, beq_self_eq_true, Bool.not_true]

tolerant
theorem isNaN_bits (x : F64) : x.isNaN = decide (x.bits.toNat % 9223372036854775808 > 9218868437227405312) := by
  simp only [F64.isNaN, Num.isNaN, signBit_f64, infBits_f64, F64.nb]

tolerant
/-- bits.go `IsInf(f, 0)` (`f > MaxFloat64 || f < -MaxFloat64`) = the port's test on the bits -/
theorem isInf_code_tie (x : F64) : math_IsInf x 0 = GoMath.isInf x := by
  have hx := x.bits.toNat_lt
  have hb : GoMath.isInf x = decide (x.bits.toNat % 9223372036854775808 = 9218868437227405312) := by
    unfold GoMath.isInf F64.abs Num.abs F64.ofNatBits F64.nb
    rw [Bool.eq_iff_iff]
    simp only [beq_iff_eq, decide_eq_true_eq, signBit_f64, ← UInt64.toNat_inj, UInt64.toNat_ofNat']
    have : (9218868437227405312 : UInt64).toNat = 9218868437227405312 := by decide
    rw [this]
    omega
  rw [hb]
  unfold math_IsInf F64.lt Num.lt F64.nb
  simp only [toOrd_f64]
  have c1 : (⟨0x7fefffffffffffff⟩ : F64).bits.toNat = 9218868437227405311 := by decide
  have c2 : (⟨0xffefffffffffffff⟩ : F64).bits.toNat = 18442240474082181119 := by decide
  simp only [c1, c2]
  by_cases h : x.bits.toNat % 9223372036854775808 > 9218868437227405312
  · simp [h]; omega
  · by_cases hs : x.bits.toNat ≥ 9223372036854775808
    · simp [h, hs]
      rw [Bool.eq_iff_iff]; simp only [Bool.or_eq_true, decide_eq_true_eq]; omega
    · simp [h, hs]
      rw [Bool.eq_iff_iff]; simp only [Bool.or_eq_true, decide_eq_true_eq]; omega

tolerant
theorem abs_bits (x : F64) : (F64.abs x).bits.toNat = x.bits.toNat % 9223372036854775808 := by
  have := x.bits.toNat_lt
  unfold F64.abs Num.abs F64.ofNatBits F64.nb
  rw [signBit_f64, UInt64.toNat_ofNat']
  omega

tolerant
theorem isInf_bits (x : F64) : GoMath.isInf x = decide (x.bits.toNat % 9223372036854775808 = 9218868437227405312) := by
  have hx := x.bits.toNat_lt
  unfold GoMath.isInf F64.abs Num.abs F64.ofNatBits F64.nb
  rw [Bool.eq_iff_iff]
  simp only [beq_iff_eq, decide_eq_true_eq, signBit_f64, ← UInt64.toNat_inj, UInt64.toNat_ofNat']
  have : (9218868437227405312 : UInt64).toNat = 9218868437227405312 := by decide
  rw [this]
  omega

tolerant
/-- the octant returned by `trigReduce` is below 8 -/
theorem trigReduce_lt8 (x : F64) : (GoMath.trigReduce x).1 < 8 := by
  unfold GoMath.trigReduce
  extract_lets ix0 exp ix u digit bitshift d0 d1 d2 d3 z0 z1 z2 z2hi z1hi z1lo z0lo lo c hi j hi2 lz e hi3
    hi4 hi5 z odd j' z'
  split
  · exact Nat.zero_lt_succ 7
  · show j' < 8
    have hj : j < 8 := by
      show hi / 2 ^ 61 < 8
      have : hi < 2 ^ 64 := Nat.mod_lt _ (by decide)
      omega
    show (if odd = true then (j + 1) % 8 else j) < 8
    split
    · omega
    · exact hj

tolerant
theorem u64_lt8_cases (j : UInt64) (h : j.toNat < 8) :
    j = 0 ∨ j = 1 ∨ j = 2 ∨ j = 3 ∨ j = 4 ∨ j = 5 ∨ j = 6 ∨ j = 7 := by
  have h' : j.toNat = 0 ∨ j.toNat = 1 ∨ j.toNat = 2 ∨ j.toNat = 3 ∨ j.toNat = 4 ∨ j.toNat = 5 ∨ j.toNat = 6 ∨
      j.toNat = 7 := by omega
  simp only [← UInt64.toNat_inj]
  exact h'


tolerant
theorem neg_bits (x : F64) (h : 9223372036854775808 ≤ x.bits.toNat) :
    (-x).bits.toNat = x.bits.toNat - 9223372036854775808 := by
  have := x.bits.toNat_lt
  show (F64.neg x).bits.toNat = _
  unfold F64.neg Num.neg F64.ofNatBits F64.nb
  rw [signBit_f64, if_pos h, UInt64.toNat_ofNat']
  omega

tolerant
/-- what the tests at the head of `sin` leave: a negative finite non-zero `x` (then `-x` is passed on) or a positive
    one -/
theorem sin_sign_facts (x : F64) (h0 : F64.feq x ⟨0⟩ = false) (hn : x.isNaN = false) (hi : GoMath.isInf x = false) :
    (F64.lt x ⟨0⟩ = true ∧ 9223372036854775808 ≤ x.bits.toNat ∧ x.bits.toNat - 9223372036854775808 < 9218868437227405312) ∨
    (F64.lt x ⟨0⟩ = false ∧ x.bits.toNat < 9218868437227405312) := by
  have hx := x.bits.toNat_lt
  rw [isNaN_bits] at hn
  rw [isInf_bits] at hi
  simp only [decide_eq_false_iff_not] at hn hi
  unfold F64.feq Num.eq F64.nb at h0
  unfold F64.lt Num.lt F64.nb
  rw [toOrd_f64] at h0 ⊢
  have z : (⟨0⟩ : F64).bits.toNat = 0 := by decide
  rw [z] at h0 ⊢
  rw [toOrd_f64_pos 0 (by decide)] at h0 ⊢
  rw [if_neg hn] at h0 ⊢
  by_cases hs : x.bits.toNat ≥ 9223372036854775808
  · left
    rw [if_pos hs] at h0 ⊢
    simp only [beq_eq_false_iff_ne, ne_eq] at h0
    refine ⟨?_, hs, by omega⟩
    simp only [decide_eq_true_eq]
    omega
  · right
    rw [if_neg hs] at h0 ⊢
    simp only [beq_eq_false_iff_ne, ne_eq] at h0
    refine ⟨?_, by omega⟩
    simp only [decide_eq_false_iff_not]
    omega

/-! ## constants -/

tolerant
theorem sinC0 : Go.arrGet G_math__sin 0 = GoMath.sin0 := by decide
tolerant
theorem sinC1 : Go.arrGet G_math__sin 1 = GoMath.sin1 := by decide
tolerant
theorem sinC2 : Go.arrGet G_math__sin 2 = GoMath.sin2 := by decide
tolerant
theorem sinC3 : Go.arrGet G_math__sin 3 = GoMath.sin3 := by decide
tolerant
theorem sinC4 : Go.arrGet G_math__sin 4 = GoMath.sin4 := by decide
tolerant
theorem sinC5 : Go.arrGet G_math__sin 5 = GoMath.sin5 := by decide
tolerant
theorem cosC0 : Go.arrGet G_math__cos 0 = GoMath.cos0 := by decide
tolerant
theorem cosC1 : Go.arrGet G_math__cos 1 = GoMath.cos1 := by decide
tolerant
theorem cosC2 : Go.arrGet G_math__cos 2 = GoMath.cos2 := by decide
tolerant
theorem cosC3 : Go.arrGet G_math__cos 3 = GoMath.cos3 := by decide
tolerant
theorem cosC4 : Go.arrGet G_math__cos 4 = GoMath.cos4 := by decide
tolerant
theorem cosC5 : Go.arrGet G_math__cos 5 = GoMath.cos5 := by decide

tolerant
theorem goMath_PI4A : GoMath.PI4A = ⟨0x3fe921fb40000000⟩ := rfl
tolerant
theorem goMath_PI4B : GoMath.PI4B = ⟨0x3e64442d00000000⟩ := rfl
tolerant
theorem goMath_PI4C : GoMath.PI4C = ⟨0x3ce8469898cc5170⟩ := rfl

/-! ## the common part of `sin` and `cos` -/

/-- the eight octants, each by evaluation of both decision trees -/
macro "trig_tail8" j:ident h8:ident : tactic =>
  `(tactic| (rcases u64_lt8_cases $j $h8 with h | h | h | h | h | h | h | h <;> subst h <;>
      simp [GoMath.sinPoly, GoMath.cosPoly, sinC0, sinC1, sinC2, sinC3, sinC4, sinC5, cosC0, cosC1, cosC2, cosC3, cosC4,
        cosC5, goMath_one, goMath_half, goMath_PI4A, goMath_PI4B, goMath_PI4C]))

/-- the three ways through the argument reduction (Payne–Hanek; Cody–Waite with an odd / an even quotient), for the
    argument `xp` (sign bit clear, finite: `hfin`) after the definitions were opened with the simp set `[ls]` -/
macro "trig_branches" xp:term:max hfin:ident "[" ls:Lean.Parser.Tactic.simpLemma,* "]" : tactic =>
  `(tactic| (
    have hs : ($xp).bits.toNat < 2 ^ 63 := by omega
    by_cases ht : F64.le ⟨0x41c0000000000000⟩ $xp = true
    · have htie := trigReduce_code_tie $xp hs
      have h8 := trigReduce_lt8 $xp
      rw [← htie] at h8
      simp only [$ls,*, GoMath.reduce, Bool.false_eq_true, if_false, if_true, Bool.or_self, f64_le_iff, f64_lt_iff,
        show GoMath.reduceThreshold = ⟨0x41c0000000000000⟩ from rfl, ht, ← htie]
      generalize (math_trigReduce $xp).1 = j at *
      generalize (math_trigReduce $xp).2 = z at *
      have h8' : j.toNat < 8 := h8
      clear htie h8
      trig_tail8 j h8'
    · have hsm : ($xp).bits.toNat < 0x41c0000000000000 := by
        unfold F64.le F64.nb at ht
        rw [le_f64_pos _ _ (by decide) (by omega)] at ht
        have : (⟨0x41c0000000000000⟩ : F64).bits.toNat = 0x41c0000000000000 := by decide
        simp only [decide_eq_true_eq, this] at ht
        omega
      have hc := cvt_small $xp hsm
      simp only [$ls,*, GoMath.reduce, Bool.false_eq_true, if_false, if_true, Bool.or_self, f64_le_iff, f64_lt_iff,
        show GoMath.reduceThreshold = ⟨0x41c0000000000000⟩ from rfl, ht,
        show GoMath.fourOverPi = ⟨0x3ff45f306dc9c883⟩ from rfl, ← hc, Go.cvt_u64_f64]
      generalize Go.cvt_f64_u64 ($xp * ⟨0x3ff45f306dc9c883⟩) = w at *
      clear hc
      have hw := w.toNat_lt
      by_cases hodd : w.toNat % 2 = 1
      · have e1 : decide (w &&& 1 = 1) = true := by
          simp only [u64_eq_one, u64_and1, hodd, decide_true]
        have hJ : ((w + 1) &&& 7).toNat = (w.toNat + 1) % 8 := by
          rw [u64_and7, UInt64.toNat_add, u64_lit1]; omega
        simp only [e1, if_true, hodd, beq_self_eq_true, ← hJ]
        have h8 : ((w + 1) &&& 7).toNat < 8 := by omega
        generalize (w + 1) &&& 7 = j at *
        trig_tail8 j h8
      · have e1 : decide (w &&& 1 = 1) = false := by
          simp only [u64_eq_one, u64_and1, hodd, decide_false]
        have hJ : (w &&& 7).toNat = w.toNat % 8 := u64_and7 w
        have hb : (w.toNat % 2 == 1) = false := by simpa using hodd
        simp only [e1, if_false, hb, Bool.false_eq_true, ← hJ]
        have h8 : (w &&& 7).toNat < 8 := by omega
        generalize w &&& 7 = j at *
        trig_tail8 j h8))

/-! ## `cos`, `Cos` -/

tolerant
/-- sin.go `cos` past the special cases (`x` neither NaN nor ±Inf) -/
theorem cos_main (x : F64) (hn : x.isNaN = false) (hi : GoMath.isInf x = false) : math_cos x = GoMath.cos x := by
  have ha := abs_bits x
  have hn' := hn
  have hi' := hi
  rw [isNaN_bits] at hn'
  rw [isInf_bits] at hi'
  simp only [decide_eq_false_iff_not] at hn' hi'
  have hfin : (F64.abs x).bits.toNat < 9218868437227405312 := by omega
  trig_branches (F64.abs x) hfin [math_cos, GoMath.cos, isNaN_code_tie, isInf_code_tie, hn, hi]

tolerant
/-- sin.go `cos`, for every `x` -/
theorem cosImpl_code_tie (x : F64) : math_cos x = GoMath.cos x := by
  by_cases hn : x.isNaN = true
  · simp only [math_cos, GoMath.cos, isNaN_code_tie, hn, if_true, Bool.true_or, naN_code_tie]
  · by_cases hi : GoMath.isInf x = true
    · simp only [math_cos, GoMath.cos, isNaN_code_tie, isInf_code_tie, hn, hi, if_true, if_false, Bool.or_true,
        naN_code_tie, Bool.false_eq_true]
    · exact cos_main x (by simpa using hn) (by simpa using hi)

tolerant
/-- sin.go `Cos` (`haveArchCos = false` on amd64: the assembly stub is not reached), for every `x` -/
theorem cos_code_tie (x : F64) : math_Cos x = GoMath.cos x := by
  simp only [math_Cos, cosImpl_code_tie, Bool.false_eq_true, if_false]

/-! ## `sin`, `Sin` -/

tolerant
/-- sin.go `sin` past the special cases (`x` not ±0, NaN, ±Inf) -/
theorem sin_main (x : F64) (h0 : F64.feq x ⟨0⟩ = false) (hn : x.isNaN = false) (hi : GoMath.isInf x = false) :
    math_sin x = GoMath.sin x := by
  rcases sin_sign_facts x h0 hn hi with ⟨hlt, hsg, hfin'⟩ | ⟨hlt, hfin⟩
  · have hfin : (-x).bits.toNat < 9218868437227405312 := by rw [neg_bits x hsg]; exact hfin'
    trig_branches (-x) hfin [math_sin, GoMath.sin, isNaN_code_tie, isInf_code_tie, f64_zero_lit, h0, hn, hi, hlt, decide_true]
  · trig_branches x hfin [math_sin, GoMath.sin, isNaN_code_tie, isInf_code_tie, f64_zero_lit, h0, hn, hi, hlt, decide_false]

tolerant
/-- sin.go `sin`, for every `x` -/
theorem sinImpl_code_tie (x : F64) : math_sin x = GoMath.sin x := by
  by_cases h0 : F64.feq x ⟨0⟩ = true
  · simp only [math_sin, GoMath.sin, f64_zero_lit, h0, if_true, Bool.true_or]
  · by_cases hn : x.isNaN = true
    · simp only [math_sin, GoMath.sin, f64_zero_lit, isNaN_code_tie, h0, hn, if_true, if_false, Bool.or_true,
        Bool.false_eq_true]
    · by_cases hi : GoMath.isInf x = true
      · simp only [math_sin, GoMath.sin, f64_zero_lit, isNaN_code_tie, isInf_code_tie, h0, hn, hi, if_true, if_false,
          Bool.or_self, naN_code_tie, Bool.false_eq_true]
      · exact sin_main x (by simpa using h0) (by simpa using hn) (by simpa using hi)

tolerant
/-- sin.go `Sin` (`haveArchSin = false` on amd64), for every `x` -/
theorem sin_code_tie (x : F64) : math_Sin x = GoMath.sin x := by
  simp only [math_Sin, sinImpl_code_tie, Bool.false_eq_true, if_false]

end Ivg.Gen.Tie
