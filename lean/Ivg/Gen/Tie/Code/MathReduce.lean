import Ivg.Gen.Tie.Code.MathBits
import Ivg.Gen.Tie.Code.MathInv
/-!
# Tie: `trigReduce` of Go's `math/trig_reduce.go` (Payne–Hanek argument reduction for |x| ≥ 2^29), as TRANSLATED from the
Go source (`math_trigReduce`, on `UInt64` with `bits.Mul64/Add64/LeadingZeros64`), = the hand-written port
`GoMath.trigReduce` (natural-number arithmetic), for every float whose SIGN BIT IS CLEAR (what `sin`/`cos` pass: `|x|`).

FINDING (port, not reachable from `Sin`/`Cos`): on a NaN with the sign bit set the two differ — Go keeps the sign bit in
the mantissa word (`ix &^= mask<<shift` clears the exponent field only), the port drops it (`ix0 % 2^52`); see the
`example` at the end.  `math.Sin`/`math.Cos` return before the reduction on NaN, so the callers never get there.

Proof technique: both definitions are opened with `extract_lets`, their `let`-values turned into equations
(`clear_value`), and the `UInt64` temporaries of the generated code are related to the port's naturals one by one
(`hNN : tNN.toNat = …`).  The temporaries are named by POSITION (`t0 … t83b`): a regenerated `math_trigReduce` with a
different sequence of temporaries breaks the proof, as intended for a change of Go's `math` package.
-/
namespace Ivg.Gen.Tie
open Ivg Ivg.Num Ivg.Gen.Code
set_option maxRecDepth 100000
set_option linter.unusedSimpArgs false
set_option linter.unusedVariables false

/-! ## the IEEE order on the bits (binary64, sign bit clear) -/

tolerant
theorem signBit_f64 : Fmt.f64.signBit = 9223372036854775808 := by decide
tolerant
theorem infBits_f64 : Fmt.f64.infBits = 9218868437227405312 := by decide

tolerant
/-- the key of a float for the IEEE order, on the bits: NaN has none -/
theorem toOrd_f64 (b : Nat) : Num.toOrd .f64 b =
    if b % 9223372036854775808 > 9218868437227405312 then none
    else if b ≥ 9223372036854775808 then some (-((b - 9223372036854775808 : Nat) : Int)) else some (b : Int) := by
  simp only [Num.toOrd, Num.isNaN, signBit_f64, infBits_f64, decide_eq_true_eq]

tolerant
theorem toOrd_f64_pos (b : Nat) (h : b ≤ 9218868437227405312) : Num.toOrd .f64 b = some (b : Int) := by
  rw [toOrd_f64, if_neg (by omega), if_neg (by omega)]

tolerant
theorem lt_f64_pos (a b : Nat) (ha : a ≤ 9218868437227405312) (hb : b ≤ 9218868437227405312) :
    Num.lt .f64 a b = decide (a < b) := by
  unfold Num.lt
  rw [toOrd_f64_pos a ha, toOrd_f64_pos b hb]
  simp only [Int.ofNat_lt]
tolerant
theorem le_f64_pos (a b : Nat) (ha : a ≤ 9218868437227405312) (hb : b ≤ 9218868437227405312) :
    Num.le .f64 a b = decide (a ≤ b) := by
  unfold Num.le
  rw [toOrd_f64_pos a ha, toOrd_f64_pos b hb]
  simp only [Int.ofNat_le]

tolerant
theorem not_lt_piO4 (x : F64) (hs : x.bits.toNat < 2 ^ 63) (h : ¬ F64.lt x ⟨0x3fe921fb54442d18⟩ = true) :
    0x3fe921fb54442d18 ≤ x.bits.toNat := by
  by_cases hx : x.bits.toNat ≤ 9218868437227405312
  · unfold F64.lt F64.nb at h
    rw [lt_f64_pos _ _ hx (by decide)] at h
    simp only [UInt64.reduceToNat, decide_eq_true_eq] at h
    omega
  · omega



/-! ## literal shifts, masks and constants on `uint64` (no `rfl`-lemmas: they are used under `simp`) -/

tolerant
theorem u64_shr52 (a : UInt64) : (a >>> (52 : UInt64)).toNat = a.toNat / 2 ^ 52 := u64_shr_lit a 52 (by decide)
tolerant
theorem u64_shr6 (a : UInt64) : (a >>> (6 : UInt64)).toNat = a.toNat / 64 := u64_shr_lit a 6 (by decide)
tolerant
theorem u64_shr61 (a : UInt64) : (a >>> (61 : UInt64)).toNat = a.toNat / 2 ^ 61 := u64_shr_lit a 61 (by decide)
tolerant
theorem u64_shr12 (a : UInt64) : (a >>> (12 : UInt64)).toNat = a.toNat / 2 ^ 12 := u64_shr_lit a 12 (by decide)
tolerant
theorem nat_and_2047 (n : Nat) : n &&& 2047 = n % 2048 := Nat.and_two_pow_sub_one_eq_mod n 11
tolerant
theorem nat_and_63 (n : Nat) : n &&& 63 = n % 64 := Nat.and_two_pow_sub_one_eq_mod n 6
tolerant
theorem nat_and_7 (n : Nat) : n &&& 7 = n % 8 := Nat.and_two_pow_sub_one_eq_mod n 3
tolerant
theorem nat_and_1 (n : Nat) : n &&& 1 = n % 2 := Nat.and_two_pow_sub_one_eq_mod n 1

tolerant
/-- trig_reduce.go:38-40 — the unbiased exponent plus 61, as the `uint` the Go code converts it to (it is not negative
    when the biased exponent is at least 1014) -/
theorem tr_exp (b : UInt64) (hE : 1014 ≤ b.toNat / 2 ^ 52 % 2048) :
    (Go.cvt_int_u64 (Go.cvt_u64_int (b >>> 52 &&& 2047) - 1023 - 52 + 61)).toNat = b.toNat / 2 ^ 52 % 2048 - 1014 := by
  have h1 : (b >>> 52 &&& 2047).toNat = b.toNat / 2 ^ 52 % 2048 := by
    rw [UInt64.toNat_and, u64_shr52]
    exact nat_and_2047 _
  have h2 : Go.cvt_u64_int (b >>> 52 &&& 2047) = ((b.toNat / 2 ^ 52 % 2048 : Nat) : Int) := by
    unfold Go.cvt_u64_int
    rw [h1, Int64.toInt_ofNat_of_lt (by omega)]
  rw [h2, Go.cvt_int_u64, UInt64.ofInt, UInt64.toNat_ofNat']
  omega

tolerant
/-- trig_reduce.go:41-42 — the mantissa with its implicit bit, for a float whose sign bit is clear -/
theorem tr_ix (b : UInt64) (hs : b.toNat < 2 ^ 63) :
    (b &&& ~~~(9218868437227405312 : UInt64) ||| 4503599627370496).toNat = b.toNat % 2 ^ 52 + 2 ^ 52 := by
  rw [UInt64.toNat_or, UInt64.toNat_and, UInt64.toNat_not]
  have hK : UInt64.size - 1 - (9218868437227405312 : UInt64).toNat = 9227875636482146303 := by decide
  have h52 : (4503599627370496 : UInt64).toNat = 2 ^ 52 := by decide
  rw [hK, h52]
  have hlow : (b.toNat &&& 9227875636482146303) % 2 ^ 52 = b.toNat % 2 ^ 52 := by
    rw [Nat.and_mod_two_pow, show 9227875636482146303 % 2 ^ 52 = 2 ^ 52 - 1 by decide,
      Nat.and_two_pow_sub_one_eq_mod, Nat.mod_mod]
  have hhigh : (b.toNat &&& 9227875636482146303) / 2 ^ 52 = 0 := by
    rw [Nat.and_div_two_pow, show 9227875636482146303 / 2 ^ 52 = 2048 by decide]
    have key : ∀ m : Fin 2048, m.val &&& 2048 = 0 := by decide +kernel
    exact key ⟨b.toNat / 2 ^ 52, by omega⟩
  have h1 : b.toNat &&& 9227875636482146303 = b.toNat % 2 ^ 52 := by
    have := Nat.div_add_mod (b.toNat &&& 9227875636482146303) (2 ^ 52)
    rw [hlow, hhigh] at this
    omega
  rw [h1]
  have := Nat.two_pow_add_eq_or_of_lt (Nat.mod_lt b.toNat (Nat.two_pow_pos 52)) 1
  rw [Nat.mul_one] at this
  rw [Nat.or_comm, ← this, Nat.add_comm]

tolerant
theorem u64_idx1 (u : UInt64) : (u >>> 6 + 1).toNat = u.toNat / 64 + 1 := by
  have := u.toNat_lt
  rw [UInt64.toNat_add, u64_shr6]; simp only [UInt64.reduceToNat]; omega
tolerant
theorem u64_idx2 (u : UInt64) : (u >>> 6 + 2).toNat = u.toNat / 64 + 2 := by
  have := u.toNat_lt
  rw [UInt64.toNat_add, u64_shr6]; simp only [UInt64.reduceToNat]; omega
tolerant
theorem u64_idx3 (u : UInt64) : (u >>> 6 + 3).toNat = u.toNat / 64 + 3 := by
  have := u.toNat_lt
  rw [UInt64.toNat_add, u64_shr6]; simp only [UInt64.reduceToNat]; omega
tolerant
theorem u64_and63 (u : UInt64) : (u &&& 63).toNat = u.toNat % 64 := by
  rw [UInt64.toNat_and]; exact nat_and_63 _
tolerant
theorem u64_and1 (u : UInt64) : (u &&& 1).toNat = u.toNat % 2 := by
  rw [UInt64.toNat_and]; exact nat_and_1 _
tolerant
theorem u64_and7 (u : UInt64) : (u &&& 7).toNat = u.toNat % 8 := by
  rw [UInt64.toNat_and]; exact nat_and_7 _
tolerant
theorem u64_eq_one (a : UInt64) : (a = 1) ↔ a.toNat = 1 := by
  rw [← UInt64.toNat_inj]; rfl
tolerant
theorem u64_shl_lit (a : UInt64) (k : Nat) (hk : k < 64) : (a <<< UInt64.ofNat k).toNat = GoMath.shl64 a.toNat k := by
  unfold GoMath.shl64 GoMath.two64
  rw [if_neg (by omega), UInt64.toNat_shiftLeft, UInt64.toNat_ofNat', Nat.shiftLeft_eq]
  have : k % 2 ^ 64 % 64 = k := by omega
  rw [this]
tolerant
theorem u64_shl3 (a : UInt64) : (a <<< (3 : UInt64)).toNat = GoMath.shl64 a.toNat 3 := u64_shl_lit a 3 (by decide)
tolerant
theorem u64_shl52 (a : UInt64) : (a <<< (52 : UInt64)).toNat = GoMath.shl64 a.toNat 52 := u64_shl_lit a 52 (by decide)
tolerant
theorem shr64_lit (a k : Nat) (hk : k < 64) : GoMath.shr64 a k = a / 2 ^ k := by
  unfold GoMath.shr64; rw [if_neg (by omega)]
tolerant
theorem shr_u64_sub_toNat' (a s : UInt64) :
    (Go.shr_u64 a (64 - s).toNat).toNat = GoMath.shr64c a.toNat s.toNat := shr_u64_sub_toNat a s
tolerant
theorem f64_mk_ofNatBits (a : UInt64) : F64.mk a = F64.ofNatBits a.toNat := by
  unfold F64.ofNatBits; rw [UInt64.ofNat_toNat]


tolerant
theorem u64_lit0 : (0 : UInt64).toNat = 0 := by decide
tolerant
theorem u64_lit1 : (1 : UInt64).toNat = 1 := by decide
tolerant
theorem u64_lit64 : (64 : UInt64).toNat = 64 := by decide
tolerant
theorem u64_lit1023 : (1023 : UInt64).toNat = 1023 := by decide


/-! ## `trigReduce` -/

tolerant
/-- trig_reduce.go `trigReduce`: octant and reduced argument, for every float with the sign bit clear (hypothesis `hs`:
    `cos` passes `|x|`, `sin` passes `-x` for `x < 0`), NaN and +Inf included.  The octant is a `uint64` in Go and a
    natural in the port: tied through `toNat`. -/
theorem trigReduce_code_tie (x : F64) (hs : x.bits.toNat < 2 ^ 63) :
    ((math_trigReduce x).1.toNat, (math_trigReduce x).2) = GoMath.trigReduce x := by
  by_cases h : F64.lt x ⟨0x3fe921fb54442d18⟩ = true
  · simp only [math_trigReduce, GoMath.trigReduce, f64_lt_iff, goMath_piO4, h, if_true]
    rfl
  · have hE := not_lt_piO4 x hs h
    have hE' : 1014 ≤ x.bits.toNat / 2 ^ 52 % 2048 := by omega
    generalize hg : math_trigReduce x = g
    generalize hp : GoMath.trigReduce x = p
    unfold math_trigReduce at hg
    unfold GoMath.trigReduce at hp
    extract_lets t0 t1 t2 t3 t4 t5 t6 t7 t8 t9 t10 t11 t14 t16 t17 t18 t20 t21 t22 t23 t27 t28 t30 t32 t33
      t37 t38 t40 t42 t43 t44 t47 t50 t51 t54 t57 t58 t59 t60 t61 t62 t63 t64 t67 t69 t70 t71 t72 t73 t74
      t75 t76 t77 t78 t79 t80 t83a t83b at hg
    extract_lets ix0 exp ix u digit bitshift d0 d1 d2 d3 z0 z1 z2 z2hi z1hi z1lo z0lo lo c hi j hi2 lz e hi3
      hi4 hi5 z odd j' z' at hp
    clear_value (e0 : t0 = _) (e1 : t1 = _) (e2 : t2 = _) (e3 : t3 = _) (e4 : t4 = _) (e5 : t5 = _)
      (e6 : t6 = _) (e7 : t7 = _) (e8 : t8 = _) (e9 : t9 = _) (e10 : t10 = _) (e11 : t11 = _) (e14 : t14 = _) (e16 : t16 = _) (e17 : t17 = _) (e18 : t18 = _) (e20 : t20 = _) (e21 : t21 = _)
      (e22 : t22 = _) (e23 : t23 = _) (e27 : t27 = _) (e28 : t28 = _) (e30 : t30 = _) (e32 : t32 =
      _) (e33 : t33 = _) (e37 : t37 = _) (e38 : t38 = _) (e40 : t40 = _) (e42 : t42 = _) (e43 : t43
      = _) (e44 : t44 = _) (e47 : t47 = _) (e50 : t50 = _) (e51 : t51 = _) (e54 : t54 = _) (e57 :
      t57 = _) (e58 : t58 = _) (e59 : t59 = _) (e60 : t60 = _) (e61 : t61 = _) (e62 : t62 = _) (e63 : t63 = _) (e64 : t64 = _) (e67 : t67 = _) (e69 : t69 = _) (e70 : t70 = _) (e71 : t71 = _)
      (e72 : t72 = _) (e73 : t73 = _) (e74 : t74 = _) (e75 : t75 = _) (e76 : t76 = _) (e77 : t77 =
      _) (e78 : t78 = _) (e79 : t79 = _) (e80 : t80 = _) (e83a : t83a = _) (e83b : t83b = _)
    clear_value (p_ix0 : ix0 = _) (p_exp : exp = _) (p_ix : ix = _) (p_u : u = _) (p_digit : digit = _)
      (p_bitshift : bitshift = _) (p_d0 : d0 = _) (p_d1 : d1 = _) (p_d2 : d2 = _) (p_d3 : d3 = _) (p_z0 :
      z0 = _) (p_z1 : z1 = _) (p_z2 : z2 = _) (p_z2hi : z2hi = _) (p_z1hi : z1hi = _) (p_z1lo : z1lo = _)
      (p_z0lo : z0lo = _) (p_lo : lo = _) (p_c : c = _) (p_hi : hi = _) (p_j : j = _) (p_hi2 : hi2 = _)
      (p_lz : lz = _) (p_e : e = _) (p_hi3 : hi3 = _) (p_hi4 : hi4 = _) (p_hi5 : hi5 = _) (p_z : z = _)
      (p_odd : odd = _) (p_jp : j' = _) (p_zp : z' = _)
    have h10 : t10.toNat = u := by
      have := tr_exp x.bits hE'
      simp only [e10, e9, e6, e5, e4, e3, e2, e1, p_u, p_exp, p_ix0]
      omega
    have h8 : t8.toNat = ix := by
      have := tr_ix x.bits hs
      simp only [e8, e7, e1, p_ix, p_ix0]
      exact this
    have h11 : t11.toNat = digit := by simp only [e11, u64_shr6, h10, p_digit]
    have h14 : t14.toNat = bitshift := by simp only [e14, u64_and63, h10, p_bitshift]
    have h18 : t18.toNat = digit + 1 := by simp only [e18, e11, u64_idx1, h10, p_digit]
    have h28 : t28.toNat = digit + 2 := by simp only [e28, e11, u64_idx2, h10, p_digit]
    have h38 : t38.toNat = digit + 3 := by simp only [e38, e11, u64_idx3, h10, p_digit]
    have h16 : t16.toNat = d0 := by simp only [e16, Go.idx_u64, mPi4_code_tie, h11, p_d0]
    have h20 : t20.toNat = d1 := by simp only [e20, Go.idx_u64, mPi4_code_tie, h18, p_d1]
    have h30 : t30.toNat = d2 := by simp only [e30, Go.idx_u64, mPi4_code_tie, h28, p_d2]
    have h40 : t40.toNat = d3 := by simp only [e40, Go.idx_u64, mPi4_code_tie, h38, p_d3]
    have h23 : t23.toNat = z0 := by
      simp only [e23, e17, e22, e21, UInt64.toNat_or, shl_u64_toNat, shr_u64_sub_toNat', Go.idx_u64, h14, h16, h20, p_z0]
    have h33 : t33.toNat = z1 := by
      simp only [e33, e27, e32, e21, UInt64.toNat_or, shl_u64_toNat, shr_u64_sub_toNat', Go.idx_u64, h14, h20, h30, p_z1]
    have h43 : t43.toNat = z2 := by
      simp only [e43, e37, e42, e21, UInt64.toNat_or, shl_u64_toNat, shr_u64_sub_toNat', Go.idx_u64, h14, h30, h40, p_z2]
    have h44a : t44.1.toNat = z2hi := by simp only [e44, mul64_hi, h43, h8, p_z2hi, GoMath.two64]
    have h47a : t47.1.toNat = z1hi := by simp only [e47, mul64_hi, h33, h8, p_z1hi, GoMath.two64]
    have h47b : t47.2.toNat = z1lo := by simp only [e47, mul64_lo, h33, h8, p_z1lo, GoMath.two64]
    have h50 : t50.toNat = z0lo := by simp only [e50, UInt64.toNat_mul, h23, h8, p_z0lo, GoMath.two64]
    have h51a : t51.1.toNat = lo := by
      simp only [e51, add64_sum, h47b, h44a, p_lo, GoMath.two64, u64_lit0]
      rw [Nat.add_zero]
    have h51b : t51.2.toNat = c := by simp only [e51, add64_carry0, h47b, h44a, p_c, GoMath.two64]
    have h54 : t54.1.toNat = hi := by simp only [e54, add64_sum, h50, h47a, h51b, p_hi, GoMath.two64]
    have h57 : t57.toNat = j := by simp only [e57, u64_shr61, h54, p_j]
    have h60 : t60.toNat = hi2 := by
      simp only [e60, e58, e59, UInt64.toNat_or, u64_shl3, u64_shr61, h54, h51a, p_hi2, shr64_lit _ 61 (by decide)]
    have h62 : t62.toNat = lz := by simp only [e62, e61, leadingZeros64_u64, h60, p_lz]
    have hlz : lz ≤ 64 := by simp only [p_lz]; omega
    have h63 : t63.toNat = lz + 1 := by
      simp only [e63, UInt64.toNat_add, h62, u64_lit1]; omega
    have h64 : t64.toNat = e := by
      simp only [e64, UInt64.toNat_sub, h63, u64_lit1023, p_e]; omega
    have h71 : t71.toNat = hi3 := by
      simp only [e71, e67, e70, e69, UInt64.toNat_or, shl_u64_toNat, shr_u64_sub_toNat', Go.idx_u64, h60, h63, h51a, p_hi3]
    have h74 : t74.toNat = hi5 := by
      simp only [e74, e72, e73, UInt64.toNat_or, u64_shr12, u64_shl52, h71, h64, p_hi5, p_hi4, shr64_lit _ 12 (by decide)]
    have h75 : t75 = z := by
      simp only [e75, p_z, ← h74, f64_mk_ofNatBits]
    have h77 : t77 = odd := by
      simp only [e77, e76, p_odd, u64_eq_one, u64_and1, h57]
      rw [Bool.eq_iff_iff]; simp only [decide_eq_true_eq, beq_iff_eq]
    have h79 : t79.toNat = (j + 1) % 8 := by
      have := t57.toNat_lt
      simp only [e79, e78, u64_and7, UInt64.toNat_add, h57, u64_lit1]; omega
    have h0 : t0 = false := by simpa only [e0, Bool.not_eq_true] using h
    have hx0 : ¬ (x < GoMath.piO4) := h
    rw [h0] at hg
    rw [if_neg hx0] at hp
    simp only [Bool.false_eq_true, if_false] at hg
    rw [← hg, ← hp]
    by_cases ho : odd = true
    · have ho' : t77 = true := by rw [h77]; exact ho
      simp only [ho', if_true, p_jp, p_zp, ho, h79, e83a, e80, h75, goMath_one, goMath_piO4]
    · have ho' : ¬ t77 = true := by rw [h77]; exact ho
      simp only [ho', if_false, p_jp, p_zp, ho, h57, e83b, h75, goMath_piO4, Bool.false_eq_true]

example : (⟨0x41c0000000000000⟩ : F64).bits.toNat < 2 ^ 63 := by decide

/-- FINDING: on the negative quiet NaN `0xfff8000000000000` the generated `trigReduce` and the port's differ (the port
    drops the sign bit of the mantissa word, Go keeps it).  Not reachable from `math.Sin`/`math.Cos`. -/
example : (math_trigReduce ⟨0xfff8000000000000⟩).2 ≠ (GoMath.trigReduce ⟨0xfff8000000000000⟩).2 := by decide +kernel

end Ivg.Gen.Tie
