import Ivg.Gen.Tie.Code.Base
import Ivg.Gen.Tie.Code.Fit
import Ivg.Gen.Code.P_ivg
import Ivg.Model.Color
/-!
# Tie: the functions of `color.go` as TRANSLATED from the Go source = the model's functions of `Ivg/Model/Color.lean`,
for all inputs.

Conversions (model → generated): `rgbaOf`, `typOf`, `colorOf`; (generated → model): `rgbaTo`, `colorTo?`.
The Go functions that return `(bytes, ok)` are tied to the model's `Option`-valued functions through
`enc1Of … enc4Of` (`none` ↦ the zero value and `false`, exactly what the Go code returns).
-/
namespace Ivg.Gen.Tie
open Ivg Ivg.Num Ivg.Gen.Code

/-! ## conversions -/

/-- the Go `color.RGBA` value of a model colour -/
def rgbaOf (c : RGBA) : image_color_RGBA := ⟨c.r, c.g, c.b, c.a⟩
/-- the model colour of a Go `color.RGBA` value -/
def rgbaTo (c : image_color_RGBA) : RGBA := ⟨c.R, c.G, c.B, c.A⟩

tolerant
@[simp] theorem rgbaTo_rgbaOf (c : RGBA) : rgbaTo (rgbaOf c) = c := rfl
tolerant
@[simp] theorem rgbaOf_rgbaTo (c : image_color_RGBA) : rgbaOf (rgbaTo c) = c := rfl
tolerant
theorem rgbaOf_inj {a b : RGBA} : rgbaOf a = rgbaOf b ↔ a = b :=
  ⟨fun h => by simpa using congrArg rgbaTo h, fun h => h ▸ rfl⟩
tolerant
@[simp] theorem rgbaOf_R (c : RGBA) : (rgbaOf c).R = c.r := rfl
tolerant
@[simp] theorem rgbaOf_G (c : RGBA) : (rgbaOf c).G = c.g := rfl
tolerant
@[simp] theorem rgbaOf_B (c : RGBA) : (rgbaOf c).B = c.b := rfl
tolerant
@[simp] theorem rgbaOf_A (c : RGBA) : (rgbaOf c).A = c.a := rfl

/-- color.go: `ColorTypeRGBA … ColorTypeBlend = iota` -/
def typOf : ColorType → UInt8
  | .rgba => 0 | .paletteIndex => 1 | .cReg => 2 | .blend => 3

/-- the model ColorType of a Go `ColorType` value (only 0‥3 are ever constructed by color.go) -/
def typTo? (t : UInt8) : Option ColorType :=
  if t = 0 then some .rgba else if t = 1 then some .paletteIndex else if t = 2 then some .cReg
  else if t = 3 then some .blend else none

tolerant
@[simp] theorem typTo?_typOf (t : ColorType) : typTo? (typOf t) = some t := by cases t <;> rfl
tolerant
theorem typOf_inj {a b : ColorType} : typOf a = typOf b ↔ a = b := by
  cases a <;> cases b <;> decide

/-- the Go `ivg.Color` value of a model Color -/
def colorOf (c : Color) : ivg_Color := ⟨typOf c.typ, rgbaOf c.data⟩
/-- the model Color of a Go `ivg.Color` value whose type tag is one of the four declared ones -/
def colorTo? (c : ivg_Color) : Option Color := (typTo? c.typ).map fun t => ⟨t, rgbaTo c.data⟩

tolerant
@[simp] theorem colorTo?_colorOf (c : Color) : colorTo? (colorOf c) = some c := by
  simp [colorTo?, colorOf]
tolerant
theorem colorOf_inj {a b : Color} : colorOf a = colorOf b ↔ a = b :=
  ⟨fun h => by simpa using congrArg colorTo? h, fun h => h ▸ rfl⟩
tolerant
@[simp] theorem colorOf_typ (c : Color) : (colorOf c).typ = typOf c.typ := rfl
tolerant
@[simp] theorem colorOf_data (c : Color) : (colorOf c).data = rgbaOf c.data := rfl

/-- Go `[64]color.RGBA` of a model palette / colour register file -/
def palOf (p : Palette) : Vector image_color_RGBA 64 := p.map rgbaOf
/-- model palette of a Go `[64]color.RGBA` -/
def palTo (p : Vector image_color_RGBA 64) : Palette := p.map rgbaTo

tolerant
@[simp] theorem palTo_palOf (p : Palette) : palTo (palOf p) = p := by
  ext i hi <;> simp [palTo, palOf]
tolerant
@[simp] theorem palOf_palTo (p : Vector image_color_RGBA 64) : palOf (palTo p) = p := by
  ext i hi <;> simp [palTo, palOf]
tolerant
theorem palOf_inj {a b : Palette} : palOf a = palOf b ↔ a = b :=
  ⟨fun h => by simpa using congrArg palTo h, fun h => h ▸ rfl⟩
tolerant
theorem palOf_getElem (p : Palette) (i : Nat) (h : i < 64) : (palOf p)[i] = rgbaOf p[i] := by
  simp [palOf]

/-- Go `(byte, ok)` of the model's `Option` -/
def enc1Of : Option UInt8 → UInt8 × Bool
  | some x => (x, true) | none => (0, false)
def enc2Of : Option (UInt8 × UInt8) → Vector UInt8 2 × Bool
  | some (a, b) => (#v[a, b], true) | none => (Vector.replicate 2 0, false)
def enc3Of : Option (UInt8 × UInt8 × UInt8) → Vector UInt8 3 × Bool
  | some (a, b, c) => (#v[a, b, c], true) | none => (Vector.replicate 3 0, false)
def enc4Of : Option (UInt8 × UInt8 × UInt8 × UInt8) → Vector UInt8 4 × Bool
  | some (a, b, c, d) => (#v[a, b, c, d], true) | none => (Vector.replicate 4 0, false)

/-! ## constructors -/

tolerant
/-- color.go `RGBAColor` -/
theorem rGBAColor_code_tie (c : RGBA) : ivg_RGBAColor (rgbaOf c) = colorOf (Color.rgbaColor c) := rfl

tolerant
/-- color.go `PaletteIndexColor` -/
theorem paletteIndexColor_code_tie (i : UInt8) :
    ivg_PaletteIndexColor i = colorOf (Color.paletteIndexColor i) := rfl

tolerant
/-- color.go `CRegColor` -/
theorem cRegColor_code_tie (i : UInt8) : ivg_CRegColor i = colorOf (Color.cRegColor i) := rfl

tolerant
/-- color.go `BlendColor` -/
theorem blendColor_code_tie (t c0 c1 : UInt8) :
    ivg_BlendColor t c0 c1 = colorOf (Color.blendColor t c0 c1) := rfl

set_option maxRecDepth 100000 in
tolerant
private theorem decodeColor1_all :
    ∀ n, n < 256 → ivg_DecodeColor1 (UInt8.ofNat n) = colorOf (decodeColor1 (UInt8.ofNat n)) := by
  decide +kernel

tolerant
/-- color.go `DecodeColor1`, all 256 bytes -/
theorem decodeColor1_code_tie (x : UInt8) : ivg_DecodeColor1 x = colorOf (decodeColor1 x) := by
  have h := decodeColor1_all x.toNat x.toNat_lt
  rwa [UInt8.ofNat_toNat] at h

/-! ## predicates on `color.RGBA` -/

tolerant
theorem u8_beq_decide (a b : UInt8) : (a == b) = decide (a = b) := by
  cases h : (a == b) <;> simp_all
tolerant
theorem u8_bne_decide (a b : UInt8) : (a != b) = decide (a ≠ b) := by
  simp [bne, u8_beq_decide]

tolerant
/-- color.go `Is1`'s closure `is1` -/
theorem is1_1_code_tie (u : UInt8) : ivg_Is1_1 u = is1u u := by
  simp only [ivg_Is1_1, is1u, u8_beq_decide]
  split <;> simp_all

tolerant
/-- color.go `Is2`'s closure `is2` -/
theorem is2_1_code_tie (u : UInt8) : ivg_Is2_1 u = is2u u := by
  simp [ivg_Is2_1, is2u, u8_beq_decide]

tolerant
/-- color.go `Is1` -/
theorem is1_code_tie (c : RGBA) : ivg_Is1 (rgbaOf c) = c.is1 := by
  simp only [ivg_Is1, RGBA.is1, is1_1_code_tie, rgbaOf_R, rgbaOf_G, rgbaOf_B, rgbaOf_A]
  cases is1u c.r <;> cases is1u c.g <;> cases is1u c.b <;> simp

tolerant
/-- color.go `Is2` -/
theorem is2_code_tie (c : RGBA) : ivg_Is2 (rgbaOf c) = c.is2 := by
  simp only [ivg_Is2, RGBA.is2, is2_1_code_tie, rgbaOf_R, rgbaOf_G, rgbaOf_B, rgbaOf_A]
  cases is2u c.r <;> cases is2u c.g <;> cases is2u c.b <;> simp

tolerant
/-- color.go `Is3` -/
theorem is3_code_tie (c : RGBA) : ivg_Is3 (rgbaOf c) = c.is3 := by
  simp only [ivg_Is3, RGBA.is3, u8_beq_decide, rgbaOf_A]
  congr

tolerant
/-- color.go `ValidAlphaPremulColor` -/
theorem validAlphaPremulColor_code_tie (c : RGBA) : ivg_ValidAlphaPremulColor (rgbaOf c) = c.validPremul := by
  simp only [ivg_ValidAlphaPremulColor, RGBA.validPremul, rgbaOf_R, rgbaOf_G, rgbaOf_B, rgbaOf_A]
  by_cases h1 : c.r ≤ c.a <;> by_cases h2 : c.g ≤ c.a <;> simp [h1, h2]
  congr

tolerant
/-- color.go `ValidGradient` -/
theorem validGradient_code_tie (c : RGBA) : ivg_ValidGradient (rgbaOf c) = c.validGradient := by
  simp only [ivg_ValidGradient, RGBA.validGradient, rgbaOf_B, rgbaOf_A]
  by_cases h : c.a = 0 <;> simp [h, u8_bne_decide, u8_beq_decide]
  by_cases h2 : c.b &&& 128 = 0 <;> simp [h2]

/-! ## gradient parameters -/

tolerant
/-- color.go `EncodeGradient` -/
theorem encodeGradient_code_tie (cBase nBase shape spread nStops : UInt8) :
    ivg_EncodeGradient cBase nBase shape spread nStops = rgbaOf (encodeGradient cBase nBase shape spread nStops) := rfl

tolerant
/-- color.go `DecodeGradient`; the model returns the five results as a structure -/
theorem decodeGradient_code_tie (c : RGBA) :
    ivg_DecodeGradient (rgbaOf c) =
      ((decodeGradient c).cBase, (decodeGradient c).nBase, (decodeGradient c).shape, (decodeGradient c).spread,
        (decodeGradient c).nStops) := rfl

/-! ## methods of `Color` -/

tolerant
/-- color.go `Color.Is1` (the model inlines it as `c.typ = .rgba ∧ c.data.is1`) -/
theorem color_Is1_code_tie (c : Color) : ivg_Color_Is1 (colorOf c) = (decide (c.typ = .rgba) && c.data.is1) := by
  obtain ⟨t, d⟩ := c
  simp only [ivg_Color_Is1, colorOf_typ, colorOf_data, is1_code_tie]
  cases t <;> simp [typOf]

tolerant
/-- color.go `Color.Is2` -/
theorem color_Is2_code_tie (c : Color) : ivg_Color_Is2 (colorOf c) = (decide (c.typ = .rgba) && c.data.is2) := by
  obtain ⟨t, d⟩ := c
  simp only [ivg_Color_Is2, colorOf_typ, colorOf_data, is2_code_tie]
  cases t <;> simp [typOf]

tolerant
/-- color.go `Color.Is3` -/
theorem color_Is3_code_tie (c : Color) : ivg_Color_Is3 (colorOf c) = (decide (c.typ = .rgba) && c.data.is3) := by
  obtain ⟨t, d⟩ := c
  simp only [ivg_Color_Is3, colorOf_typ, colorOf_data, is3_code_tie]
  cases t <;> simp [typOf]

tolerant
/-- color.go `Color.RGBA` -/
theorem color_RGBA_code_tie (c : Color) :
    ivg_Color_RGBA (colorOf c) = (rgbaOf c.toRGBA.1, c.toRGBA.2) := by
  obtain ⟨t, d⟩ := c
  simp only [ivg_Color_RGBA, Color.toRGBA, colorOf_typ, colorOf_data, validAlphaPremulColor_code_tie]
  cases t <;> cases d.validPremul <;> simp [typOf, rgbaOf, RGBA.black]

tolerant
/-- color.go `Color.Encode1`; `(0, false)` for the model's `none` -/
theorem color_Encode1_code_tie (c : Color) : ivg_Color_Encode1 (colorOf c) = enc1Of c.encode1 := by
  obtain ⟨t, ⟨r, g, b, a⟩⟩ := c
  cases t
  · simp only [ivg_Color_Encode1, Color.encode1, colorOf, typOf, rgbaOf]
    have e : (⟨r, g, b, a⟩ : image_color_RGBA) = rgbaOf ⟨r, g, b, a⟩ := rfl
    simp only [e, is1_code_tie]
    simp only [rgbaOf, image_color_RGBA.mk.injEq, RGBA.mk.injEq]
    by_cases ha : a = 255
    · subst ha
      cases h : RGBA.is1 ⟨r, g, b, 255⟩ <;> simp [enc1Of]
    · simp only [ha, ne_eq, not_false_eq_true, decide_true, ↓reduceIte]
      by_cases h0 : r = 0 ∧ g = 0 ∧ b = 0 ∧ a = 0
      · simp [h0, enc1Of]
      · by_cases h1 : r = 128 ∧ g = 128 ∧ b = 128 ∧ a = 128
        · simp [h1, enc1Of]
        · by_cases h2 : r = 192 ∧ g = 192 ∧ b = 192 ∧ a = 192 <;> simp [h0, h1, h2, enc1Of]
  all_goals simp [ivg_Color_Encode1, Color.encode1, colorOf, typOf, rgbaOf, enc1Of]

tolerant
/-- color.go `Color.Encode2`; the zero array and `false` for the model's `none` -/
theorem color_Encode2_code_tie (c : Color) : ivg_Color_Encode2 (colorOf c) = enc2Of c.encode2 := by
  simp only [ivg_Color_Encode2, Color.encode2, color_Is2_code_tie, colorOf_data, rgbaOf_R, rgbaOf_G, rgbaOf_B,
    rgbaOf_A]
  obtain ⟨t, d⟩ := c
  cases t <;> cases d.is2 <;> simp [enc2Of]

tolerant
/-- color.go `Color.Encode3Direct` -/
theorem color_Encode3Direct_code_tie (c : Color) :
    ivg_Color_Encode3Direct (colorOf c) = enc3Of c.encode3Direct := by
  simp only [ivg_Color_Encode3Direct, Color.encode3Direct, color_Is3_code_tie, colorOf_data, rgbaOf_R, rgbaOf_G,
    rgbaOf_B]
  obtain ⟨t, d⟩ := c
  cases t <;> cases d.is3 <;> simp [enc3Of]

tolerant
/-- color.go `Color.Encode4` -/
theorem color_Encode4_code_tie (c : Color) : ivg_Color_Encode4 (colorOf c) = enc4Of c.encode4 := by
  simp only [ivg_Color_Encode4, Color.encode4, colorOf_typ, colorOf_data, rgbaOf_R, rgbaOf_G, rgbaOf_B, rgbaOf_A]
  obtain ⟨t, d⟩ := c
  cases t <;> simp [enc4Of, typOf]

tolerant
/-- color.go `Color.Encode3Indirect` -/
theorem color_Encode3Indirect_code_tie (c : Color) :
    ivg_Color_Encode3Indirect (colorOf c) = enc3Of c.encode3Indirect := by
  simp only [ivg_Color_Encode3Indirect, Color.encode3Indirect, colorOf_typ, colorOf_data, rgbaOf_R, rgbaOf_G,
    rgbaOf_B]
  obtain ⟨t, d⟩ := c
  cases t <;> simp [enc3Of, typOf]

/-! ## unexported accessors (the model reads the fields of `c.data` directly) -/

tolerant
/-- color.go `Color.rgba` -/
theorem color_rgba_code_tie (c : Color) : ivg_Color_rgba (colorOf c) = rgbaOf c.data := rfl
tolerant
/-- color.go `Color.paletteIndex` -/
theorem color_paletteIndex_code_tie (c : Color) : ivg_Color_paletteIndex (colorOf c) = c.data.r := rfl
tolerant
/-- color.go `Color.cReg` -/
theorem color_cReg_code_tie (c : Color) : ivg_Color_cReg (colorOf c) = c.data.r := rfl
tolerant
/-- color.go `Color.blend` -/
theorem color_blend_code_tie (c : Color) : ivg_Color_blend (colorOf c) = (c.data.r, c.data.g, c.data.b) := rfl

/-! ## outside the image of `colorOf`: a type tag `> 3` (no Go code constructs one; `typ` is unexported).
The Go methods then behave as follows (`Encode1`, `Encode3Indirect` … answer `false`; so does `RGBA`). -/

tolerant
theorem color_Is1_code_tie_badTyp (c : ivg_Color) (h : 3 < c.typ) : ivg_Color_Is1 c = false := by
  have : c.typ ≠ 0 := by intro e; rw [e] at h; exact absurd h (by decide)
  simp [ivg_Color_Is1, this]
tolerant
theorem color_Is2_code_tie_badTyp (c : ivg_Color) (h : 3 < c.typ) : ivg_Color_Is2 c = false := by
  have : c.typ ≠ 0 := by intro e; rw [e] at h; exact absurd h (by decide)
  simp [ivg_Color_Is2, this]
tolerant
theorem color_Is3_code_tie_badTyp (c : ivg_Color) (h : 3 < c.typ) : ivg_Color_Is3 c = false := by
  have : c.typ ≠ 0 := by intro e; rw [e] at h; exact absurd h (by decide)
  simp [ivg_Color_Is3, this]
tolerant
theorem color_RGBA_code_tie_badTyp (c : ivg_Color) (h : 3 < c.typ) :
    ivg_Color_RGBA c = (rgbaOf RGBA.black, false) := by
  have : c.typ ≠ 0 := by intro e; rw [e] at h; exact absurd h (by decide)
  simp [ivg_Color_RGBA, this, rgbaOf, RGBA.black]
tolerant
theorem color_Encode1_code_tie_badTyp (c : ivg_Color) (h : 3 < c.typ) : ivg_Color_Encode1 c = enc1Of none := by
  have h0 : c.typ ≠ 0 := by intro e; rw [e] at h; exact absurd h (by decide)
  have h1 : c.typ ≠ 1 := by intro e; rw [e] at h; exact absurd h (by decide)
  have h2 : c.typ ≠ 2 := by intro e; rw [e] at h; exact absurd h (by decide)
  simp [ivg_Color_Encode1, h0, h1, h2, enc1Of]
tolerant
theorem color_Encode2_code_tie_badTyp (c : ivg_Color) (h : 3 < c.typ) : ivg_Color_Encode2 c = enc2Of none := by
  simp [ivg_Color_Encode2, color_Is2_code_tie_badTyp c h, enc2Of]
tolerant
theorem color_Encode3Direct_code_tie_badTyp (c : ivg_Color) (h : 3 < c.typ) :
    ivg_Color_Encode3Direct c = enc3Of none := by
  simp [ivg_Color_Encode3Direct, color_Is3_code_tie_badTyp c h, enc3Of]
tolerant
theorem color_Encode4_code_tie_badTyp (c : ivg_Color) (h : 3 < c.typ) : ivg_Color_Encode4 c = enc4Of none := by
  have : c.typ ≠ 0 := by intro e; rw [e] at h; exact absurd h (by decide)
  simp [ivg_Color_Encode4, this, enc4Of]
tolerant
theorem color_Encode3Indirect_code_tie_badTyp (c : ivg_Color) (h : 3 < c.typ) :
    ivg_Color_Encode3Indirect c = enc3Of none := by
  have : c.typ ≠ 3 := by intro e; rw [e] at h; exact absurd h (by decide)
  simp [ivg_Color_Encode3Indirect, this, enc3Of]

example : (3 : UInt8) < (⟨7, ⟨1, 2, 3, 4⟩⟩ : ivg_Color).typ := by decide

tolerant
/-- every Go `Color` is `colorOf` of a model Color or has a type tag `> 3` -/
theorem colorOf_or_badTyp (c : ivg_Color) : (∃ m, c = colorOf m) ∨ 3 < c.typ := by
  obtain ⟨t, d⟩ := c
  by_cases h : 3 < t
  · exact .inr h
  · left
    have ht : t.toNat ≤ 3 := by
      rw [UInt8.lt_iff_toNat_lt] at h; simpa using h
    have : t = 0 ∨ t = 1 ∨ t = 2 ∨ t = 3 := by
      have : t.toNat = 0 ∨ t.toNat = 1 ∨ t.toNat = 2 ∨ t.toNat = 3 := by omega
      rcases this with e | e | e | e
      · exact .inl (UInt8.toNat_inj.mp e)
      · exact .inr (.inl (UInt8.toNat_inj.mp e))
      · exact .inr (.inr (.inl (UInt8.toNat_inj.mp e)))
      · exact .inr (.inr (.inr (UInt8.toNat_inj.mp e)))
    rcases this with rfl | rfl | rfl | rfl
    · exact ⟨⟨.rgba, rgbaTo d⟩, rfl⟩
    · exact ⟨⟨.paletteIndex, rgbaTo d⟩, rfl⟩
    · exact ⟨⟨.cReg, rgbaTo d⟩, rfl⟩
    · exact ⟨⟨.blend, rgbaTo d⟩, rfl⟩

/-! ## package-level variables of package ivg -/

tolerant
/-- color.go `dc1Table` -/
theorem dc1Table_code_tie (i : Nat) (h : i < 5) : Go.arrGet G_ivg_dc1Table i = dc1Table i := by
  match i, h with
  | 0, _ | 1, _ | 2, _ | 3, _ | 4, _ => rfl

tolerant
/-- ivg.go `DefaultViewBox` -/
theorem defaultViewBox_code_tie : G_ivg_DefaultViewBox = vbOf defaultViewBox := rfl

tolerant
/-- ivg.go `DefaultPalette` -/
theorem defaultPalette_code_tie : G_ivg_DefaultPalette = palOf defaultPalette := by
  decide +kernel

tolerant
/-- ivg.go `DefaultMetadata` (the model's `Metadata` structure has these two as its field defaults) -/
theorem defaultMetadata_code_tie : G_ivg_DefaultMetadata = ⟨vbOf defaultViewBox, palOf defaultPalette⟩ := by
  decide +kernel

end Ivg.Gen.Tie
