import Ivg.Gen.Tie.Code.Decoder2
/-!
# Tie: `decodeDrawing` (decode/decode.go), part 2 — one iteration of the repetition loops `loop34_8 … loop34_14`
(see `Decoder2.lean`)
-/
namespace Ivg.Gen.Tie
open Ivg Ivg.Num Ivg.Gen Ivg.Gen.Code Ivg.Dec

tolerant
/-- one iteration of `loop34_8` (operation `q`, 4 coordinates) -/
theorem decoder_drawing_loop8_step (N : Int) : DecoderRepStep (decode_decodeDrawing__pnil.loop34_8 logOps N) N .q := by
  intro f src i m l hf
  rw [decode_decodeDrawing__pnil.loop34_8]
  simp +decide only [if_true, if_false]
  by_cases hi : i < N
  · have hf' := hf hi
    simp only [hi, decide_true, if_true]
    have e : (Go.slice m.toList 0 (Go.idx_int 4)).length = 4 := by simp [Go.slice, Go.idx_int]
    have key := decodeCoordinates_code_tie f (Go.slice m.toList 0 (Go.idx_int 4)) src (by omega)
    simp only [key, e, Dec.decodeRep, RepOp.nCoords]
    rcases hc : Dec.decodeCoordinates 4 src with ⟨its, _ | ⟨xs, rest⟩⟩
    · simp [coordsResOf]
    · have hl := (decoder_decodeCoordinates_spec 4 src).2 xs rest (by rw [hc])
      obtain ⟨x1, y1, x, y, rfl⟩ := decoder_list_len4 xs hl
      obtain ⟨a, b, c, d, e, g, rfl⟩ := decoder_vec6_cases m
      simp only [coordsResOf, Option.isSome_none, Bool.false_eq_true, if_false, RepOp.mkCall]
      rfl
  · simp [hi, modeName]

tolerant
/-- one iteration of `loop34_9` (operation `S`, 4 coordinates) -/
theorem decoder_drawing_loop9_step (N : Int) : DecoderRepStep (decode_decodeDrawing__pnil.loop34_9 logOps N) N .S := by
  intro f src i m l hf
  rw [decode_decodeDrawing__pnil.loop34_9]
  simp +decide only [if_true, if_false]
  by_cases hi : i < N
  · have hf' := hf hi
    simp only [hi, decide_true, if_true]
    have e : (Go.slice m.toList 0 (Go.idx_int 4)).length = 4 := by simp [Go.slice, Go.idx_int]
    have key := decodeCoordinates_code_tie f (Go.slice m.toList 0 (Go.idx_int 4)) src (by omega)
    simp only [key, e, Dec.decodeRep, RepOp.nCoords]
    rcases hc : Dec.decodeCoordinates 4 src with ⟨its, _ | ⟨xs, rest⟩⟩
    · simp [coordsResOf]
    · have hl := (decoder_decodeCoordinates_spec 4 src).2 xs rest (by rw [hc])
      obtain ⟨x1, y1, x, y, rfl⟩ := decoder_list_len4 xs hl
      obtain ⟨a, b, c, d, e, g, rfl⟩ := decoder_vec6_cases m
      simp only [coordsResOf, Option.isSome_none, Bool.false_eq_true, if_false, RepOp.mkCall]
      rfl
  · simp [hi, modeName]

tolerant
/-- one iteration of `loop34_10` (operation `s`, 4 coordinates) -/
theorem decoder_drawing_loop10_step (N : Int) : DecoderRepStep (decode_decodeDrawing__pnil.loop34_10 logOps N) N .s := by
  intro f src i m l hf
  rw [decode_decodeDrawing__pnil.loop34_10]
  simp +decide only [if_true, if_false]
  by_cases hi : i < N
  · have hf' := hf hi
    simp only [hi, decide_true, if_true]
    have e : (Go.slice m.toList 0 (Go.idx_int 4)).length = 4 := by simp [Go.slice, Go.idx_int]
    have key := decodeCoordinates_code_tie f (Go.slice m.toList 0 (Go.idx_int 4)) src (by omega)
    simp only [key, e, Dec.decodeRep, RepOp.nCoords]
    rcases hc : Dec.decodeCoordinates 4 src with ⟨its, _ | ⟨xs, rest⟩⟩
    · simp [coordsResOf]
    · have hl := (decoder_decodeCoordinates_spec 4 src).2 xs rest (by rw [hc])
      obtain ⟨x1, y1, x, y, rfl⟩ := decoder_list_len4 xs hl
      obtain ⟨a, b, c, d, e, g, rfl⟩ := decoder_vec6_cases m
      simp only [coordsResOf, Option.isSome_none, Bool.false_eq_true, if_false, RepOp.mkCall]
      rfl
  · simp [hi, modeName]

tolerant
/-- one iteration of `loop34_11` (operation `C`, 6 coordinates) -/
theorem decoder_drawing_loop11_step (N : Int) : DecoderRepStep (decode_decodeDrawing__pnil.loop34_11 logOps N) N .C := by
  intro f src i m l hf
  rw [decode_decodeDrawing__pnil.loop34_11]
  simp +decide only [if_true, if_false]
  by_cases hi : i < N
  · have hf' := hf hi
    simp only [hi, decide_true, if_true]
    have e : (Go.slice m.toList 0 (Go.idx_int 6)).length = 6 := by simp [Go.slice, Go.idx_int]
    have key := decodeCoordinates_code_tie f (Go.slice m.toList 0 (Go.idx_int 6)) src (by omega)
    simp only [key, e, Dec.decodeRep, RepOp.nCoords]
    rcases hc : Dec.decodeCoordinates 6 src with ⟨its, _ | ⟨xs, rest⟩⟩
    · simp [coordsResOf]
    · have hl := (decoder_decodeCoordinates_spec 6 src).2 xs rest (by rw [hc])
      obtain ⟨x1, y1, x2, y2, x, y, rfl⟩ := decoder_list_len6 xs hl
      obtain ⟨a, b, c, d, e, g, rfl⟩ := decoder_vec6_cases m
      simp only [coordsResOf, Option.isSome_none, Bool.false_eq_true, if_false, RepOp.mkCall]
      rfl
  · simp [hi, modeName]

tolerant
/-- one iteration of `loop34_12` (operation `c`, 6 coordinates) -/
theorem decoder_drawing_loop12_step (N : Int) : DecoderRepStep (decode_decodeDrawing__pnil.loop34_12 logOps N) N .c := by
  intro f src i m l hf
  rw [decode_decodeDrawing__pnil.loop34_12]
  simp +decide only [if_true, if_false]
  by_cases hi : i < N
  · have hf' := hf hi
    simp only [hi, decide_true, if_true]
    have e : (Go.slice m.toList 0 (Go.idx_int 6)).length = 6 := by simp [Go.slice, Go.idx_int]
    have key := decodeCoordinates_code_tie f (Go.slice m.toList 0 (Go.idx_int 6)) src (by omega)
    simp only [key, e, Dec.decodeRep, RepOp.nCoords]
    rcases hc : Dec.decodeCoordinates 6 src with ⟨its, _ | ⟨xs, rest⟩⟩
    · simp [coordsResOf]
    · have hl := (decoder_decodeCoordinates_spec 6 src).2 xs rest (by rw [hc])
      obtain ⟨x1, y1, x2, y2, x, y, rfl⟩ := decoder_list_len6 xs hl
      obtain ⟨a, b, c, d, e, g, rfl⟩ := decoder_vec6_cases m
      simp only [coordsResOf, Option.isSome_none, Bool.false_eq_true, if_false, RepOp.mkCall]
      rfl
  · simp [hi, modeName]

tolerant
/-- one iteration of `loop34_13` (operation `A`: two radii, angle, flags, two coordinates) -/
theorem decoder_drawing_loop13_step (N : Int) : DecoderRepStep (decode_decodeDrawing__pnil.loop34_13 logOps N) N .A := by
  intro f src i m l hf
  rw [decode_decodeDrawing__pnil.loop34_13]
  simp +decide only [if_true, if_false]
  by_cases hi : i < N
  · have hf' := hf hi
    simp only [hi, decide_true, if_true]
    have e : (Go.slice m.toList 0 2).length = 2 := by simp [Go.slice]
    have key := decodeCoordinates_code_tie f (Go.slice m.toList 0 2) src (by omega)
    simp only [key, e, Dec.decodeRep, Dec.decodeArcRep]
    rcases hc : Dec.decodeCoordinates 2 src with ⟨its, _ | ⟨xs, src1⟩⟩
    · simp [coordsResOf]
    · have hl := (decoder_decodeCoordinates_spec 2 src).2 xs src1 (by rw [hc])
      obtain ⟨rx, ry, rfl⟩ := decoder_list_len2 xs hl
      simp only [coordsResOf, Option.isSome_none, Bool.false_eq_true, if_false, decodeAngle_code_tie]
      rcases ha : Dec.decodeZeroToOne src1 with _ | ⟨rot, src2⟩
      · simp [valResOf]
      · simp only [valResOf, Option.isSome_none, Bool.false_eq_true, if_false, decodeArcToFlags_code_tie]
        rcases hn : Dec.decodeNatural src2 with _ | ⟨fl, n, src3⟩
        · simp [flagsResOf]
        · simp only [flagsResOf, Option.isSome_none, Bool.false_eq_true, if_false]
          have e2 : (Go.slice (Go.arrSet (Go.arrWriteBack m 0 [rx, ry]) 2 rot).toList 4 6).length = 2 := by
            simp [Go.slice]
          have key2 := decodeCoordinates_code_tie f
            (Go.slice (Go.arrSet (Go.arrWriteBack m 0 [rx, ry]) 2 rot).toList 4 6) src3 (by omega)
          simp only [key2, e2]
          rcases hc2 : Dec.decodeCoordinates 2 src3 with ⟨its2, _ | ⟨ys, src4⟩⟩
          · simp [coordsResOf]
          · have hl2 := (decoder_decodeCoordinates_spec 2 src3).2 ys src4 (by rw [hc2])
            obtain ⟨x, y, rfl⟩ := decoder_list_len2 ys hl2
            obtain ⟨a, b, c, d, e, g, rfl⟩ := decoder_vec6_cases m
            simp only [coordsResOf, Option.isSome_none, Bool.false_eq_true, if_false]
            rfl
  · simp [hi, modeName]

tolerant
/-- one iteration of `loop34_14` (operation `a`: two radii, angle, flags, two coordinates) -/
theorem decoder_drawing_loop14_step (N : Int) : DecoderRepStep (decode_decodeDrawing__pnil.loop34_14 logOps N) N .a := by
  intro f src i m l hf
  rw [decode_decodeDrawing__pnil.loop34_14]
  simp +decide only [if_true, if_false]
  by_cases hi : i < N
  · have hf' := hf hi
    simp only [hi, decide_true, if_true]
    have e : (Go.slice m.toList 0 2).length = 2 := by simp [Go.slice]
    have key := decodeCoordinates_code_tie f (Go.slice m.toList 0 2) src (by omega)
    simp only [key, e, Dec.decodeRep, Dec.decodeArcRep]
    rcases hc : Dec.decodeCoordinates 2 src with ⟨its, _ | ⟨xs, src1⟩⟩
    · simp [coordsResOf]
    · have hl := (decoder_decodeCoordinates_spec 2 src).2 xs src1 (by rw [hc])
      obtain ⟨rx, ry, rfl⟩ := decoder_list_len2 xs hl
      simp only [coordsResOf, Option.isSome_none, Bool.false_eq_true, if_false, decodeAngle_code_tie]
      rcases ha : Dec.decodeZeroToOne src1 with _ | ⟨rot, src2⟩
      · simp [valResOf]
      · simp only [valResOf, Option.isSome_none, Bool.false_eq_true, if_false, decodeArcToFlags_code_tie]
        rcases hn : Dec.decodeNatural src2 with _ | ⟨fl, n, src3⟩
        · simp [flagsResOf]
        · simp only [flagsResOf, Option.isSome_none, Bool.false_eq_true, if_false]
          have e2 : (Go.slice (Go.arrSet (Go.arrWriteBack m 0 [rx, ry]) 2 rot).toList 4 6).length = 2 := by
            simp [Go.slice]
          have key2 := decodeCoordinates_code_tie f
            (Go.slice (Go.arrSet (Go.arrWriteBack m 0 [rx, ry]) 2 rot).toList 4 6) src3 (by omega)
          simp only [key2, e2]
          rcases hc2 : Dec.decodeCoordinates 2 src3 with ⟨its2, _ | ⟨ys, src4⟩⟩
          · simp [coordsResOf]
          · have hl2 := (decoder_decodeCoordinates_spec 2 src3).2 ys src4 (by rw [hc2])
            obtain ⟨x, y, rfl⟩ := decoder_list_len2 ys hl2
            obtain ⟨a, b, c, d, e, g, rfl⟩ := decoder_vec6_cases m
            simp only [coordsResOf, Option.isSome_none, Bool.false_eq_true, if_false]
            rfl
  · simp [hi, modeName]

end Ivg.Gen.Tie
