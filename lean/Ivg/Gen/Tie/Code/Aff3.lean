import Ivg.Gen.Tie.Code.Base
import Ivg.Gen.Code.P_generate
import Ivg.Model.Generator
/-!
# Tie: `MulAff3`, `Scale`, `Translate` of `generate/generate.go` as TRANSLATED from the Go source = the model's
functions of `Ivg/Model/Generator.lean` at float32, for all inputs.

Go `Aff3` is `[6]float32` (`Vector F32 6`); the model has a structure with fields `a0 … a5`.
-/
namespace Ivg.Gen.Tie
open Ivg Ivg.Num Ivg.Gen.Code

/-- the Go `Aff3` array of a model matrix -/
def aff3Of (a : Ivg.Gen.Aff3 F32) : Vector F32 6 := #v[a.a0, a.a1, a.a2, a.a3, a.a4, a.a5]
/-- the model matrix of a Go `Aff3` array -/
def aff3To (a : Vector F32 6) : Ivg.Gen.Aff3 F32 := ⟨a[0], a[1], a[2], a[3], a[4], a[5]⟩

tolerant
@[simp] theorem aff3To_aff3Of (a : Ivg.Gen.Aff3 F32) : aff3To (aff3Of a) = a := rfl
tolerant
@[simp] theorem aff3Of_aff3To (a : Vector F32 6) : aff3Of (aff3To a) = a := by
  ext i hi
  simp only [aff3Of, aff3To]
  match i, hi with
  | 0, _ | 1, _ | 2, _ | 3, _ | 4, _ | 5, _ => rfl

tolerant
theorem arrGet_aff3Of (a : Ivg.Gen.Aff3 F32) :
    Go.arrGet (aff3Of a) 0 = a.a0 ∧ Go.arrGet (aff3Of a) 1 = a.a1 ∧ Go.arrGet (aff3Of a) 2 = a.a2 ∧
    Go.arrGet (aff3Of a) 3 = a.a3 ∧ Go.arrGet (aff3Of a) 4 = a.a4 ∧ Go.arrGet (aff3Of a) 5 = a.a5 :=
  ⟨rfl, rfl, rfl, rfl, rfl, rfl⟩

tolerant
/-- generate.go `MulAff3` -/
theorem mulAff3_code_tie (x y : F32) (a : Ivg.Gen.Aff3 F32) :
    generate_MulAff3 x y (aff3Of a) = Ivg.Gen.mulAff3 x y a := by
  obtain ⟨h0, h1, h2, h3, h4, h5⟩ := arrGet_aff3Of a
  simp only [generate_MulAff3, Ivg.Gen.mulAff3, h0, h1, h2, h3, h4, h5]

tolerant
/-- generate.go `MulAff3`, from the Go array -/
theorem mulAff3_code_tie' (x y : F32) (a : Vector F32 6) :
    generate_MulAff3 x y a = Ivg.Gen.mulAff3 x y (aff3To a) := by
  rw [← mulAff3_code_tie, aff3Of_aff3To]

tolerant
/-- the model's `translate` with its (private) integer constants spelled out -/
theorem translate_eq (x y : F32) :
    Ivg.Gen.translate x y = ⟨Arith.ofInt 1, Arith.ofInt 0, x, Arith.ofInt 0, Arith.ofInt 1, y⟩ := rfl
tolerant
theorem scale2_eq (sx sy : F32) :
    Ivg.Gen.scale2 sx sy = ⟨sx, Arith.ofInt 0, Arith.ofInt 0, Arith.ofInt 0, sy, Arith.ofInt 0⟩ := rfl
tolerant
theorem identity_eq :
    (Ivg.Gen.Aff3.identity : Ivg.Gen.Aff3 F32) =
      ⟨Arith.ofInt 1, Arith.ofInt 0, Arith.ofInt 0, Arith.ofInt 0, Arith.ofInt 1, Arith.ofInt 0⟩ := rfl

tolerant
/-- generate.go `Translate` -/
theorem translate_code_tie (x y : F32) : generate_Translate x y = aff3Of (Ivg.Gen.translate x y) := by
  simp only [generate_Translate, translate_eq, aff3Of, f32_ofInt_one, f32_ofInt_zero]

tolerant
/-- generate.go `Scale(v ...float32)`: the model has the two-argument `scale2` (and `Aff3.identity`); the variadic Go
    function is `identity` for no argument, `scale2 s s` for one, `scale2 s t` for two or more (the rest is ignored) -/
theorem scale_code_tie (v : List F32) :
    generate_Scale v = aff3Of (match v with
      | [] => Ivg.Gen.Aff3.identity
      | [s] => Ivg.Gen.scale2 s s
      | s :: t :: _ => Ivg.Gen.scale2 s t) := by
  match v with
  | [] => simp only [generate_Scale, identity_eq, aff3Of, f32_ofInt_one, f32_ofInt_zero]; rfl
  | [s] => simp only [generate_Scale, scale2_eq, aff3Of, f32_ofInt_zero]; rfl
  | s :: t :: r =>
    have h0 : (Int.ofNat (s :: t :: r).length = 0) = False := by simp; omega
    have h1 : (Int.ofNat (s :: t :: r).length = 1) = False := by simp; omega
    simp only [generate_Scale, scale2_eq, aff3Of, f32_ofInt_zero, h0, h1]
    rfl

end Ivg.Gen.Tie
