import Ivg.Gen.Tie.Code.Decoder9
/-!
# Tie: `decode.Decode(dst, src, opts...)` WITH OPTIONS, as TRANSLATED from decode/decode.go (`decode_Decode`,
`decode_decode__pnil`) = the model's `Dec.decode opts src` / `Dec.decodeCore`, for ALL inputs and option lists (C14)

A `decode.DecodeOption` is a `func(*ivg.Metadata)`, translated as a function `ivg_Metadata → ivg_Metadata` on the
pointee.  `optFn` gives the Go meaning of the model's two options (`WithPalette`, `WithColorAt`); the tie runs the
generated code on `opts.map optFn`.  `WithColorAt(i, c)` with `i ≥ 64` panics in Go; the model ignores it, and so does
`optFn` (no hypothesis on the indices is needed: the theorem speaks about exactly that reading).  The colour of
`WithColorAt` is the model's, i.e. the one AFTER `color.RGBAModel.Convert` (the conversion of an arbitrary
`color.Color` is outside the translated code).

Only the middle of `decode` differs from the option-free version tied in `Decoder8.lean`: the options loop
(`Dec.applyOption` folded over the list) and, iff there are options, the sanitising loop (`Dec.sanitizePalette`).
The chunk loop and the two copies of the mode loop are tied as there.  Fuel: 64 palette entries to sanitise, one
iteration per option, 39 for a drawing instruction, and the loop entries: `fuel ≥ len src + len opts + 106`.
-/
namespace Ivg.Gen.Tie
open Ivg Ivg.Num Ivg.Gen Ivg.Gen.Code Ivg.Dec

tolerant
/-- the mode loop `loop28_48` of the generated `decode` with options = `DecL.run` (as `decode_modeLoop`) -/
theorem decode_opts_modeLoop48 (vb : ivg_ViewBox) (pal : Vector image_color_RGBA 64) :
    ∀ (fuel : Nat) (m : DMode) (src : Bytes) (l : CallLog), src.length + 40 ≤ fuel →
    decode_decode__pnil.loop11_33.loop14_44.loop19_47.loop28_48 logOps vb pal fuel src (modeName m) l
      = ((DecL.run m src).2.map errText, l ++ callsOf (DecL.run m src).1, vb, pal) := by
  intro fuel
  induction fuel with
  | zero => intro m src l h; omega
  | succ f ih =>
    intro m src l hf
    rw [decode_decode__pnil.loop11_33.loop14_44.loop19_47.loop28_48]
    match src with
    | [] => simp
    | x :: rest =>
      have hne : (x :: rest) ≠ [] := by simp
      have hlen : (1 : Int) ≤ Int.ofNat (x :: rest).length := by simp; omega
      simp only [hlen, decide_true, if_true]
      rw [DecL.run_step hne]
      cases m with
      | styling =>
        have e1 : ¬ (Go.fnRef "decode_decodeStyling" = Go.fnRef "decode_decodeDrawing") := by decide
        have e2 : ¬ (Go.fnRef "decode_decodeStyling" = Go.fnRef "decode_decodeSetLOD") := by decide
        have e3 : modeName .styling = Go.fnRef "decode_decodeStyling" := rfl
        simp only [e1, e2, e3, if_false, if_true, decodeStyling_code_tie l _ hne, Dec.stepDec]
        rcases hs : Dec.decodeStyling (x :: rest) with ⟨its, e | ⟨m', rest'⟩⟩
        · simp [stepResOf]
        · have hlt := DecL.stepDec_rest_lt (m := .styling) (src := x :: rest) (show Dec.stepDec .styling (x :: rest) = _ from hs)
          simp only [List.length_cons] at hlt hf
          simp only [stepResOf, Option.isSome_none, Bool.false_eq_true, if_false]
          rw [ih m' rest' _ (by omega)]
          simp
      | drawing =>
        have e1 : modeName .drawing = Go.fnRef "decode_decodeDrawing" := rfl
        simp only [List.length_cons] at hf
        simp only [e1, if_true, decodeDrawing_code_tie l f _ hne (by omega), Dec.stepDec]
        rcases hs : Dec.decodeDrawing (x :: rest) with ⟨its, e | ⟨m', rest'⟩⟩
        · simp [stepResOf]
        · have hlt := DecL.stepDec_rest_lt (m := .drawing) (src := x :: rest) (show Dec.stepDec .drawing (x :: rest) = _ from hs)
          simp only [List.length_cons] at hlt
          simp only [stepResOf, Option.isSome_none, Bool.false_eq_true, if_false]
          rw [ih m' rest' _ (by omega)]
          simp

tolerant
/-- the mode loop `loop28_49` of the generated `decode` with options = `DecL.run` (as `decode_modeLoop`) -/
theorem decode_opts_modeLoop49 (vb : ivg_ViewBox) (pal : Vector image_color_RGBA 64) :
    ∀ (fuel : Nat) (m : DMode) (src : Bytes) (l : CallLog), src.length + 40 ≤ fuel →
    decode_decode__pnil.loop11_33.loop14_44.loop28_49 logOps vb pal fuel src (modeName m) l
      = ((DecL.run m src).2.map errText, l ++ callsOf (DecL.run m src).1, vb, pal) := by
  intro fuel
  induction fuel with
  | zero => intro m src l h; omega
  | succ f ih =>
    intro m src l hf
    rw [decode_decode__pnil.loop11_33.loop14_44.loop28_49]
    match src with
    | [] => simp
    | x :: rest =>
      have hne : (x :: rest) ≠ [] := by simp
      have hlen : (1 : Int) ≤ Int.ofNat (x :: rest).length := by simp; omega
      simp only [hlen, decide_true, if_true]
      rw [DecL.run_step hne]
      cases m with
      | styling =>
        have e1 : ¬ (Go.fnRef "decode_decodeStyling" = Go.fnRef "decode_decodeDrawing") := by decide
        have e2 : ¬ (Go.fnRef "decode_decodeStyling" = Go.fnRef "decode_decodeSetLOD") := by decide
        have e3 : modeName .styling = Go.fnRef "decode_decodeStyling" := rfl
        simp only [e1, e2, e3, if_false, if_true, decodeStyling_code_tie l _ hne, Dec.stepDec]
        rcases hs : Dec.decodeStyling (x :: rest) with ⟨its, e | ⟨m', rest'⟩⟩
        · simp [stepResOf]
        · have hlt := DecL.stepDec_rest_lt (m := .styling) (src := x :: rest) (show Dec.stepDec .styling (x :: rest) = _ from hs)
          simp only [List.length_cons] at hlt hf
          simp only [stepResOf, Option.isSome_none, Bool.false_eq_true, if_false]
          rw [ih m' rest' _ (by omega)]
          simp
      | drawing =>
        have e1 : modeName .drawing = Go.fnRef "decode_decodeDrawing" := rfl
        simp only [List.length_cons] at hf
        simp only [e1, if_true, decodeDrawing_code_tie l f _ hne (by omega), Dec.stepDec]
        rcases hs : Dec.decodeDrawing (x :: rest) with ⟨its, e | ⟨m', rest'⟩⟩
        · simp [stepResOf]
        · have hlt := DecL.stepDec_rest_lt (m := .drawing) (src := x :: rest) (show Dec.stepDec .drawing (x :: rest) = _ from hs)
          simp only [List.length_cons] at hlt
          simp only [stepResOf, Option.isSome_none, Bool.false_eq_true, if_false]
          rw [ih m' rest' _ (by omega)]
          simp


/-- the palette with the entries below `k` sanitised (the state of `m.Palette` when the loop
    `for i, c := range m.Palette { if !ValidAlphaPremulColor(c) { m.Palette[i] = black } }` reaches `i = k`) -/
def decoderSanUpTo (p : Palette) (k : Nat) : Palette :=
  Vector.ofFn fun (j : Fin 64) => if j.val < k then (if p[j].validPremul then p[j] else RGBA.black) else p[j]

tolerant
theorem decoderSanUpTo_zero (p : Palette) : decoderSanUpTo p 0 = p := by
  ext j hj; simp [decoderSanUpTo]

tolerant
/-- after all 64 entries: the model's `sanitizePalette` -/
theorem decoderSanUpTo_all (p : Palette) : decoderSanUpTo p 64 = Dec.sanitizePalette p := by
  ext j hj; simp [decoderSanUpTo, Dec.sanitizePalette]

tolerant
/-- one iteration of the sanitising loop -/
theorem decoderSanUpTo_succ (p : Palette) (k : Nat) (hk : k < 64) :
    palOf (decoderSanUpTo p (k + 1)) =
      if ivg_ValidAlphaPremulColor (Go.arrGet (palOf p) k) = true then palOf (decoderSanUpTo p k)
      else Go.arrSet (palOf (decoderSanUpTo p k)) k ⟨0, 0, 0, 255⟩ := by
  have hget : Go.arrGet (palOf p) k = rgbaOf p[k] := by
    simp [Go.arrGet, palOf, hk]
  rw [hget, validAlphaPremulColor_code_tie]
  by_cases hv : p[k].validPremul = true
  · rw [if_pos hv]
    apply Vector.ext; intro j hj
    simp only [palOf, decoderSanUpTo, Vector.getElem_map, Vector.getElem_ofFn]
    by_cases h1 : j < k
    · simp [h1, show j < k + 1 by omega]
    · by_cases h2 : j = k
      · subst h2; simp [hv]
      · simp [h1, show ¬ j < k + 1 by omega]
  · rw [if_neg hv]
    apply Vector.ext; intro j hj
    simp only [palOf, decoderSanUpTo, Go.arrSet, Vector.getElem_map, Vector.getElem_ofFn,
      Vector.getElem_setIfInBounds]
    by_cases h1 : j < k
    · simp [h1, show j < k + 1 by omega, show ¬ k = j by omega]
    · by_cases h2 : j = k
      · subst h2; simp [hv, RGBA.black, rgbaOf]
      · simp [h1, show ¬ j < k + 1 by omega, show ¬ k = j by omega]

tolerant
/-- The SANITISING LOOP of `decode` (`for i, c := range m.Palette { if !ivg.ValidAlphaPremulColor(c) { m.Palette[i] = black } }`,
    over a copy `p` of the palette) from index `k`, then `metadataOnly` / `dst.Reset` / the mode loop: the palette handed
    on is the model's `sanitizePalette p`. -/
theorem decode_opts_sanLoop (mo : Bool) (vbm : ViewBox F32) (p : Palette) (src3 : Bytes) (l : CallLog) :
    ∀ (n k fuel : Nat), k + n = 64 → n + src3.length + 42 ≤ fuel →
    decode_decode__pnil.loop11_33.loop14_44.loop19_47 logOps mo src3 (vbOf vbm) (palOf p) fuel ((k : Int) - 1)
        (palOf (decoderSanUpTo p k)) l
      = decoderAfterMeta mo ⟨vbm, Dec.sanitizePalette p⟩ src3 l := by
  intro n
  induction n with
  | zero =>
    intro k fuel hk hf
    obtain ⟨f, rfl⟩ : ∃ f, fuel = f + 1 := ⟨fuel - 1, by omega⟩
    have hk' : k = 64 := by omega
    subst hk'
    rw [decode_decode__pnil.loop11_33.loop14_44.loop19_47]
    simp +decide only [if_false, decoderSanUpTo_all]
    cases mo with
    | true => simp [decoderAfterMeta]
    | false =>
      have hreset : logOps.Reset l (vbOf vbm) (palOf (Dec.sanitizePalette p))
          = l ++ [.reset vbm (Dec.sanitizePalette p)] := by simp [logOps]
      have := decode_opts_modeLoop48 (vbOf vbm) (palOf (Dec.sanitizePalette p)) f .styling src3
        (l ++ [.reset vbm (Dec.sanitizePalette p)]) (by omega)
      simp only [modeName] at this
      simp only [Bool.false_eq_true, if_false, hreset, this, decoderAfterMeta, List.append_assoc,
        List.singleton_append]
  | succ n ih =>
    intro k fuel hk hf
    obtain ⟨f, rfl⟩ : ∃ f, fuel = f + 1 := ⟨fuel - 1, by omega⟩
    have hk64 : k < 64 := by omega
    rw [decode_decode__pnil.loop11_33.loop14_44.loop19_47]
    have e1 : (k : Int) - 1 + 1 = k := by omega
    have e2 : ((k : Int) < 64) := by omega
    have e3 : (k : Int) = ((k + 1 : Nat) : Int) - 1 := by omega
    simp only [e1, e2, decide_true, if_true, Go.idx_int, Int.toNat_natCast]
    have hstep := decoderSanUpTo_succ p k hk64
    have hrec := ih (k + 1) f (by omega) (by omega)
    rw [hstep] at hrec
    by_cases hv : ivg_ValidAlphaPremulColor (Go.arrGet (palOf p) k) = true
    · rw [if_pos hv] at hrec
      rw [if_pos hv, e3]; exact hrec
    · rw [if_neg hv] at hrec
      rw [if_neg hv, e3]; exact hrec

/-- the Go `ivg.Metadata` value of a model metadata -/
def metaOf (m : Metadata) : ivg_Metadata := ⟨vbOf m.viewBox, palOf m.palette⟩

/-- the Go meaning of the model's options (a `decode.DecodeOption` is a `func(*ivg.Metadata)`, translated as a
    function on the pointee): `WithPalette(p)` stores the palette, `WithColorAt(i, c)` stores the (already converted)
    colour at index `i` — for `i ≥ 64` Go panics (index out of range) and the model leaves the metadata unchanged,
    which is what `optFn` does there -/
def optFn : Dec.DecodeOption → ivg_Metadata → ivg_Metadata
  | .withPalette p => fun m => { m with Palette := palOf p }
  | .withColorAt i c => fun m => if h : i < 64 then { m with Palette := m.Palette.set i (rgbaOf c) h } else m

tolerant
/-- `optFn` is the model's `applyOption` on the Go representation -/
theorem optFn_applyOption (m : Metadata) (o : Dec.DecodeOption) :
    optFn o (metaOf m) = metaOf (Dec.applyOption m o) := by
  cases o with
  | withPalette p => rfl
  | withColorAt i c =>
    simp only [optFn, Dec.applyOption, metaOf]
    by_cases hi : i < 64
    · simp only [hi, dite_true, if_true]
      congr 1
      have := decoder_palOf_set6 m.palette i hi c
      rw [← this]
      apply Vector.ext; intro j hj
      simp [Go.arrSet, Go.idx_int, Vector.getElem_set, Vector.getElem_setIfInBounds]
    · simp [hi]

/-- `Dec.applyOptions` after the options have been folded in: sanitise iff there were options -/
def decoderFinishOpts (ol : List Dec.DecodeOption) (m : Metadata) : Metadata :=
  if ol.isEmpty then m else { m with palette := Dec.sanitizePalette m.palette }

tolerant
/-- The OPTIONS LOOP of `decode` (`for _, opt := range opts { opt(m) }`) from index `k` on the metadata `cur`, then the
    sanitising loop iff `len(opts) > 0`, then the rest: the metadata handed on is `Dec.applyOptions`. -/
theorem decode_opts_optsLoop (mo : Bool) (ol : List Dec.DecodeOption) (src3 : Bytes) (l : CallLog) :
    ∀ (n k fuel : Nat) (cur : Metadata) (m14 : ivg_Metadata), k + n = ol.length → n + src3.length + 110 ≤ fuel →
    decode_decode__pnil.loop11_33.loop14_44 logOps mo (ol.map optFn) src3 (Int.ofNat (ol.map optFn).length) fuel
        ((k : Int) - 1) m14 (vbOf cur.viewBox) (palOf cur.palette) l
      = decoderAfterMeta mo (decoderFinishOpts ol ((ol.drop k).foldl Dec.applyOption cur)) src3 l := by
  intro n
  induction n with
  | zero =>
    intro k fuel cur m14 hk hf
    obtain ⟨f, rfl⟩ : ∃ f, fuel = f + 1 := ⟨fuel - 1, by omega⟩
    have hk' : k = ol.length := by omega
    subst hk'
    rw [decode_decode__pnil.loop11_33.loop14_44]
    have e1 : (ol.length : Int) - 1 + 1 = ol.length := by omega
    simp only [e1, List.length_map, Int.ofNat_eq_natCast, Int.lt_irrefl, decide_false, Bool.false_eq_true, if_false,
      List.drop_length, List.foldl_nil]
    cases ol with
    | nil =>
      simp only [List.length_nil, Int.ofNat_zero, show ¬ ((1 : Int) ≤ 0) by omega, decide_false,
        Bool.false_eq_true, if_false, decoderFinishOpts, List.isEmpty_nil, if_true]
      cases mo with
      | true => simp [decoderAfterMeta]
      | false =>
        have hreset : logOps.Reset l (vbOf cur.viewBox) (palOf cur.palette)
            = l ++ [.reset cur.viewBox cur.palette] := by simp [logOps]
        have := decode_opts_modeLoop49 (vbOf cur.viewBox) (palOf cur.palette) f .styling src3
          (l ++ [.reset cur.viewBox cur.palette]) (by omega)
        simp only [modeName] at this
        simp only [Bool.false_eq_true, if_false, hreset, this, decoderAfterMeta, List.append_assoc,
          List.singleton_append]
    | cons o ol' =>
      have hlen : (1 : Int) ≤ ((o :: ol').length : Int) := by simp; omega
      simp only [hlen, decide_true, if_true, decoderFinishOpts, List.isEmpty_cons, Bool.false_eq_true, if_false]
      have := decode_opts_sanLoop mo cur.viewBox cur.palette src3 l 64 0 f (by omega) (by omega)
      simp only [decoderSanUpTo_zero, Int.ofNat_zero, Int.zero_sub] at this
      exact this
  | succ n ih =>
    intro k fuel cur m14 hk hf
    obtain ⟨f, rfl⟩ : ∃ f, fuel = f + 1 := ⟨fuel - 1, by omega⟩
    have hklt : k < ol.length := by omega
    rw [decode_decode__pnil.loop11_33.loop14_44]
    have e1 : (k : Int) - 1 + 1 = k := by omega
    have e2 : (k : Int) < (ol.length : Int) := by omega
    have e3 : (k : Int) = ((k + 1 : Nat) : Int) - 1 := by omega
    have hget : Go.sliceGet (ol.map optFn) k = optFn ol[k] := by
      simp [Go.sliceGet, hklt]
    have hm : (⟨vbOf cur.viewBox, palOf cur.palette⟩ : ivg_Metadata) = metaOf cur := rfl
    simp only [e1, List.length_map, Int.ofNat_eq_natCast, e2, decide_true, if_true, Go.idx_int, Int.toNat_natCast,
      hget, hm, optFn_applyOption]
    have hrec := ih (k + 1) f (Dec.applyOption cur ol[k])
      (⟨(metaOf (Dec.applyOption cur ol[k])).ViewBox, (metaOf (Dec.applyOption cur ol[k])).Palette⟩)
      (by omega) (by omega)
    simp only [List.length_map, Int.ofNat_eq_natCast] at hrec
    rw [List.drop_eq_getElem_cons hklt, List.foldl_cons, e3]
    exact hrec

tolerant
theorem decoder_applyOptions_eq (m : Metadata) (ol : List Dec.DecodeOption) :
    Dec.applyOptions m ol = decoderFinishOpts ol (ol.foldl Dec.applyOption m) := rfl

tolerant
/-- the metadata-chunk loop of `decode` with options and what follows it (as `decode_chunkLoop`) -/
theorem decode_opts_chunkLoop (mo : Bool) (ol : List Dec.DecodeOption) :
    ∀ (n fuel : Nat) (m : Metadata) (minMID : Nat) (src2 : Bytes) (l : CallLog),
    n < 2 ^ 32 → minMID ≤ 2 → src2.length + ol.length + 111 ≤ fuel →
    match (Dec.decodeChunks (src2.length + 1) n m minMID src2).2 with
    | .error e =>
      (decode_decode__pnil.loop11_33 logOps mo (ol.map optFn) fuel src2 (UInt32.ofNat n) (vbOf m.viewBox)
        (palOf m.palette) (UInt32.ofNat minMID) (metaOf m) l).1 = some (errText e) ∧
      (decode_decode__pnil.loop11_33 logOps mo (ol.map optFn) fuel src2 (UInt32.ofNat n) (vbOf m.viewBox)
        (palOf m.palette) (UInt32.ofNat minMID) (metaOf m) l).2.1 = l
    | .ok (m', src3) =>
      decode_decode__pnil.loop11_33 logOps mo (ol.map optFn) fuel src2 (UInt32.ofNat n) (vbOf m.viewBox)
        (palOf m.palette) (UInt32.ofNat minMID) (metaOf m) l = decoderAfterMeta mo (Dec.applyOptions m' ol) src3 l := by
  intro n
  induction n with
  | zero =>
    intro fuel m minMID src2 l _ _ hf
    obtain ⟨f, rfl⟩ : ∃ f, fuel = f + 1 := ⟨fuel - 1, by omega⟩
    rw [decode_decode__pnil.loop11_33]
    have e0 : ¬ ((1 : UInt32) ≤ UInt32.ofNat 0) := by decide
    simp only [Dec.decodeChunks, e0, decide_false, Bool.false_eq_true, if_false]
    have := decode_opts_optsLoop mo ol src2 l ol.length 0 f m
      ⟨(metaOf m).ViewBox, (metaOf m).Palette⟩ (by omega) (by omega)
    simp only [Int.ofNat_zero, Int.zero_sub, List.drop_zero] at this
    exact this
  | succ n ih =>
    intro fuel m minMID src2 l hn hmin hf
    obtain ⟨f, rfl⟩ : ∃ f, fuel = f + 1 := ⟨fuel - 1, by omega⟩
    rw [decode_decode__pnil.loop11_33]
    have e1 : (1 : UInt32) ≤ UInt32.ofNat (n + 1) := by
      rw [UInt32.le_iff_toNat_le, decoder_u32_ofNat_toNat _ hn]; simp
    have e2 : UInt32.ofNat (n + 1) - 1 = UInt32.ofNat n := by
      rw [← UInt32.toNat_inj, UInt32.toNat_sub_of_le _ _ e1, decoder_u32_ofNat_toNat _ hn,
        decoder_u32_ofNat_toNat n (by omega)]
      simp
    have htie := decodeMetadataChunk_code_tie f m minMID src2 (by omega) (by omega)
    have hv : (metaOf m).ViewBox = vbOf m.viewBox := rfl
    have hp : (metaOf m).Palette = palOf m.palette := rfl
    simp only [e1, e2, decide_true, if_true, Dec.decodeChunks, hv, hp]
    rcases hch : Dec.decodeMetadataChunk m minMID src2 with ⟨its, e | ⟨m', mm', rest⟩⟩
    · rw [hch] at htie
      simp only [DecoderChunkAgrees] at htie
      simp [htie.2]
    · rw [hch] at htie
      simp only [DecoderChunkAgrees] at htie
      obtain ⟨pre, hpre, rfl, _⟩ := DecL.decodeMetadataChunk_consumes hch
      have hpl : 0 < pre.length := List.length_pos_iff.mpr hpre
      simp only [List.length_append] at hf ⊢
      have hirr := DecL.decodeChunks_fuel_irrelevant (pre.length + rest.length) (rest.length + 1) n m' mm' rest
        (by omega) (by omega)
      have := ih f m' mm' rest l (by omega) (decoder_chunk_minMID hch) (by omega)
      have hm' : (⟨vbOf m'.viewBox, palOf m'.palette⟩ : ivg_Metadata) = metaOf m' := rfl
      simp only [htie, Option.isSome_none, Bool.false_eq_true, if_false, hirr, hm']
      rcases hrec : Dec.decodeChunks (rest.length + 1) n m' mm' rest with ⟨its', r⟩
      rw [hrec] at this
      exact this

tolerant
/-- `decode(dst, nil, m, metadataOnly, src, opts...)` (decode/decode.go) run on the call log from the metadata `m0`, with
    the options `opts.map optFn`, = the model's `Dec.decodeCore metadataOnly m0 opts src`, for ALL `src`, `opts`, `l`
    and `fuel ≥ len src + len opts + 106`: the error, the delivered calls, and — when the metadata section is valid —
    the fields of `*m` afterwards.  (`mval`, the translation's redundant whole-pointee input, is arbitrary.) -/
theorem decode_opts_code_tie (fuel : Nat) (mo : Bool) (m0 : Metadata) (mval : ivg_Metadata) (src : Bytes)
    (opts : List Dec.DecodeOption) (l : CallLog) (hf : src.length + opts.length + 106 ≤ fuel) :
    (decode_decode__pnil logOps fuel l mval (vbOf m0.viewBox) (palOf m0.palette) mo src (opts.map optFn)).1
      = (Dec.decodeCore mo m0 opts src).1.err.map errText ∧
    (decode_decode__pnil logOps fuel l mval (vbOf m0.viewBox) (palOf m0.palette) mo src (opts.map optFn)).2.1
      = l ++ callsOf (Dec.decodeCore mo m0 opts src).1.items ∧
    ((∃ hdr m src3, DecL.MetaOk m0 src hdr m src3) →
      (decode_decode__pnil logOps fuel l mval (vbOf m0.viewBox) (palOf m0.palette) mo src (opts.map optFn)).2.2
        = (vbOf (Dec.decodeCore mo m0 opts src).2.viewBox, palOf (Dec.decodeCore mo m0 opts src).2.palette)) := by
  unfold decode_decode__pnil Dec.decodeCore
  by_cases hm : src.take 4 = Enc.magic
  · have hp := (decoder_hasPrefix_magic src).2 hm
    simp only [hp, hm, if_true, ne_eq, not_true_eq_false, if_false, decoder_slice_drop, decodeNatural_code_tie]
    rcases hn : Dec.decodeNatural (src.drop 4) with _ | ⟨nChunks, n, src2⟩
    · refine ⟨by simp [decNatOf, errText], by simp [decNatOf], ?_⟩
      rintro ⟨hdr, m, src3, n', w, src2, its, _, h2, _⟩
      rw [hn] at h2; cases h2
    · obtain ⟨hn', hu, hl, rfl⟩ := decAux_decodeNatural_spec hn
      have n0 : ¬ ((n : Nat) : Int) = 0 := by omega
      simp only [decNatOf, n0, decide_false, Bool.false_eq_true, if_false, Go.idx_int, Int.toNat_natCast]
      have hlen : (List.drop n (List.drop 4 src)).length + opts.length + 111 ≤ fuel := by
        simp only [List.length_drop] at hl ⊢; omega
      have hcalls := DecL.decodeChunks_calls ((List.drop n (List.drop 4 src)).length + 1) nChunks m0 0
        (List.drop n (List.drop 4 src))
      have hloop := decode_opts_chunkLoop mo opts nChunks fuel m0 0 (List.drop n (List.drop 4 src)) l
        (by omega) (by omega) hlen
      have eC : UInt32.ofNat 0 = 0 := rfl
      have eM : (⟨vbOf m0.viewBox, palOf m0.palette⟩ : ivg_Metadata) = metaOf m0 := rfl
      rw [eC] at hloop
      simp only [eM]
      generalize List.drop n (List.drop 4 src) = s2 at *
      rcases hc : Dec.decodeChunks (s2.length + 1) nChunks m0 0 s2 with ⟨its, e | ⟨m, src3⟩⟩
      · rw [hc] at hloop hcalls
        simp only at hloop hcalls
        refine ⟨by simp [hloop.1], by simp [hloop.2, hcalls], ?_⟩
        rintro ⟨hdr, m, src3, n', w, src2', its', _, h2, h3, _⟩
        rw [hn] at h2
        simp only [Option.some.injEq, Prod.mk.injEq] at h2
        obtain ⟨rfl, rfl, rfl⟩ := h2
        rw [hc] at h3; cases h3
      · rw [hc] at hloop hcalls
        simp only at hloop hcalls
        rw [hloop]
        cases mo <;> simp [decoderAfterMeta, DecL.run, hcalls]
  · have hp : ¬ (bytes_HasPrefix src G_ivg_MagicBytes = true) := fun h => hm ((decoder_hasPrefix_magic src).1 h)
    simp only [hp, hm, ne_eq, not_false_eq_true, if_true]
    refine ⟨by simp [errText], by simp, ?_⟩
    rintro ⟨hdr, m, src3, n', w, src2, its, h1, _⟩
    exact absurd h1 hm

tolerant
/-- `decode.Decode(dst, src, opts...)` (decode/decode.go) run on the call log `l` with the options `opts.map optFn`
    returns the model's error (as the `DecodeError` text) and has delivered exactly the model's calls
    `(Dec.decode opts src).1`, for ALL `src`, `opts`, `l` and `fuel ≥ len src + len opts + 106`. -/
theorem decode_Decode_opts_code_tie (fuel : Nat) (l : CallLog) (src : Bytes) (opts : List Dec.DecodeOption)
    (hf : src.length + opts.length + 106 ≤ fuel) :
    decode_Decode logOps fuel l src (opts.map optFn)
      = ((Dec.decode opts src).2.map errText, l ++ (Dec.decode opts src).1) := by
  unfold decode_Decode Dec.decode
  rw [defaultMetadata_code_tie]
  have h := decode_opts_code_tie fuel false {} ⟨vbOf defaultViewBox, palOf defaultPalette⟩ src opts l hf
  exact Prod.ext h.1 h.2.1

/-! concrete instance: a valid colour at index 3 is kept, an invalid one (red > alpha) at index 5 is replaced by opaque
    black (which is what the default palette holds), and the instructions are delivered after the Reset -/
example : decode_Decode logOps 200 []
      [0x89, 0x49, 0x56, 0x47, 0x00, 0xc0, 0x80, 0x80, 0x01, 0x90, 0x90, 0xa0, 0xa0, 0xe1]
      ([Dec.DecodeOption.withColorAt 3 ⟨0x10, 0x20, 0x30, 0xff⟩, .withColorAt 5 ⟨0xff, 0, 0, 0x10⟩].map optFn)
    = (none, [.reset defaultViewBox (defaultPalette.set6 3 ⟨0x10, 0x20, 0x30, 0xff⟩),
        .startPath 0 (F32.ofInt 0) (F32.ofInt 0), .d2 .L (F32.ofInt 8) (F32.ofInt 8),
        .d2 .L (F32.ofInt 16) (F32.ofInt 16), .closeEnd]) := by
  decide +kernel

end Ivg.Gen.Tie
