import Ivg.Gen.Tie.Code.Base
import Ivg.Gen.Code.P_raster
import Ivg.Gen.Code.P_render
/-!
# Tie: the reading methods of `raster.RasterizerLogger` as TRANSLATED from raster/logger.go are transparent — each makes
exactly one call, the same method, on the wrapped rasteriser and returns what it returned, for every rasteriser object
(C05/C07: a logging wrapper behind the Renderer changes nothing the Renderer reads back).  The drawing methods of the
wrapper print through `fmt` and are not translated; their forwarding shape is the regenerated fact
`rasterizer_logger_forwards_tie`.  Also: `Gradient.Bounds` is the fixed ±10^9 square (C15: the paint is not clipped).
-/
namespace Ivg.Gen.Tie
open Ivg Ivg.Num Ivg.Gen.Code

tolerant
/-- raster/logger.go Pen -/
theorem rasterizerLogger_Pen_code_tie {R : Type} (ops : raster_Rasterizer_ops R) (r : R) :
    raster_RasterizerLogger_Pen ops r = ((ops.Pen r).1.1, (ops.Pen r).1.2, (ops.Pen r).2) := rfl

tolerant
/-- raster/logger.go Bounds -/
theorem rasterizerLogger_Bounds_code_tie {R : Type} (ops : raster_Rasterizer_ops R) (r : R) :
    raster_RasterizerLogger_Bounds ops r = ops.Bounds r := rfl

tolerant
/-- raster/logger.go Size -/
theorem rasterizerLogger_Size_code_tie {R : Type} (ops : raster_Rasterizer_ops R) (r : R) :
    raster_RasterizerLogger_Size ops r = ops.Size r := rfl

tolerant
/-- render/gradient.go Bounds: the gradient is as large as an `image.Uniform` -/
theorem gradient_Bounds_code_tie :
    render_Gradient_Bounds = ⟨⟨-1000000000, -1000000000⟩, ⟨1000000000, 1000000000⟩⟩ := rfl

end Ivg.Gen.Tie
