import Ivg.Gen.Tie.Code.Base
import Ivg.Gen.Code.P_render
import Ivg.Model.Gradient
/-!
# Tie: `Spread.Clamp` and `MakeRange` of `render/gradient.go` as TRANSLATED from the Go source = the model's
`Grad.clamp` and `Grad.makeRange` of `Ivg/Model/Gradient.lean` at (float32, float64), for all inputs.
-/
namespace Ivg.Gen.Tie
open Ivg Ivg.Num Ivg.Gen.Code Ivg.Grad

tolerant
/-- Go `i & 1` on a (64-bit) `int` is the parity `i % 2`, for EVERY integer (the wrap-around of `Int64.ofInt`
    preserves the parity) -/
theorem int_and_one (i : Int) : Go.int_and i 1 = i % 2 := by
  have h1 : (Int64.ofInt i &&& Int64.ofInt 1).toBitVec.toNat = (i % 2).toNat := by
    rw [Int64.toBitVec_and, BitVec.toNat_and, Int64.toBitVec_ofInt, Int64.toBitVec_ofInt, BitVec.toNat_ofInt,
      BitVec.toNat_ofInt]
    have : ((1:Int) % ((2 ^ 64 : Nat) : Int)).toNat = 1 := by decide
    rw [this, Nat.and_one_is_mod]
    omega
  unfold Go.int_and Int64.toInt
  rw [BitVec.toInt_eq_toNat_of_lt (by omega), h1]
  omega

tolerant
/-- gradient.go `Spread.Clamp` (spread = 0 none, 1 pad, 2 reflect, 3 repeat; any other value behaves as none) -/
theorem spread_Clamp_code_tie (s : UInt8) (x : F64) : render_Spread_Clamp s x = clamp (α := F32) s x := by
  simp only [render_Spread_Clamp, clamp, zeroB, oneB, f64_ofInt_zero, f64_ofInt_one, f64_ofInt_neg_one, f64_le_iff,
    Go.cvt_f64_int, int_and_one, Wide.trunc, Wide.floor]
  by_cases h0 : F64.le ⟨0⟩ x = true <;> by_cases h1 : F64.le x ⟨0x3ff0000000000000⟩ = true <;>
    by_cases s1 : s = 1 <;> by_cases s2 : s = 2 <;> by_cases s3 : s = 3 <;>
    by_cases p : F64.toInt64 x % 2 = 0 <;> by_cases q : F64.toInt64 (-x) % 2 = 0 <;> simp [*]

/-! ## the accessors of `*Gradient` (gradient.go `GradientShape`, `SpreadMethod`, `Transform`) -/

/-- the Go `[6]float64` of the model's pixel-to-gradient matrix -/
def gradAff3Of (m : Grad.Aff3 F64) : Vector F64 6 := #v[m.a, m.b, m.c, m.d, m.e, m.f]

tolerant
/-- gradient.go `(*Gradient).GradientShape` (an `int` in Go) -/
theorem gradient_GradientShape_code_tie (g : Gradient F64) :
    render_Gradient_GradientShape g.shape = (g.shape.toNat : Int) := rfl

tolerant
/-- gradient.go `(*Gradient).SpreadMethod` -/
theorem gradient_SpreadMethod_code_tie (g : Gradient F64) :
    render_Gradient_SpreadMethod g.spread = (g.spread.toNat : Int) := rfl

tolerant
/-- gradient.go `(*Gradient).Transform` -/
theorem gradient_Transform_code_tie (g : Gradient F64) :
    render_Gradient_Transform (gradAff3Of g.pix2Grad) =
      (g.pix2Grad.a, g.pix2Grad.b, g.pix2Grad.c, g.pix2Grad.d, g.pix2Grad.e, g.pix2Grad.f) := rfl

/-! ## MakeRange

The model keeps the colour ends of a `Range` as the integers (`RGBA64` with `Nat` channels) where Go stores the
`float64` of those integers; `rangeOf` is that conversion (`Arith.ofInt`, the very conversion the model's `lerpChan`
applies when it uses the channels).  A Go `Stop` carries `uint16` channels: `stopOf` reads them as naturals. -/

/-- the model colour of a Go `color.RGBA64` -/
def rgba64To (c : image_color_RGBA64) : RGBA64 := ⟨c.R.toNat, c.G.toNat, c.B.toNat, c.A.toNat⟩
/-- the Go `color.RGBA64` of a model colour (exact when every channel is `< 65536`) -/
def rgba64Of (c : RGBA64) : image_color_RGBA64 :=
  ⟨UInt16.ofNat c.r, UInt16.ofNat c.g, UInt16.ofNat c.b, UInt16.ofNat c.a⟩
/-- every channel fits a `uint16` (true of `Ren.rgba64Of c`, whose channels are `c.x * 0x101 ≤ 65535`) -/
def RGBA64.Fits (c : RGBA64) : Prop := c.r < 65536 ∧ c.g < 65536 ∧ c.b < 65536 ∧ c.a < 65536

tolerant
@[simp] theorem rgba64Of_rgba64To (c : image_color_RGBA64) : rgba64Of (rgba64To c) = c := by
  simp [rgba64Of, rgba64To]
tolerant
theorem rgba64To_rgba64Of (c : RGBA64) (h : RGBA64.Fits c) : rgba64To (rgba64Of c) = c := by
  obtain ⟨r, g, b, a⟩ := c
  obtain ⟨h1, h2, h3, h4⟩ := h
  simp only [rgba64Of, rgba64To, UInt16.toNat_ofNat', RGBA64.mk.injEq] at *
  omega

/-- the model stop of a Go `Stop` -/
def stopTo (s : render_Stop) : Stop F64 := ⟨s.Offset, rgba64To s.RGBA64⟩
/-- the Go `Stop` of a model stop -/
def stopOf (s : Stop F64) : render_Stop := ⟨s.offset, rgba64Of s.color⟩
/-- the Go `Range` of a model range: the colour ends as `float64(channel)` -/
def rangeOf (r : Range F64) : render_Range :=
  ⟨r.offset0, r.offset1, r.width,
   Arith.ofInt r.c0.r, Arith.ofInt r.c1.r, Arith.ofInt r.c0.g, Arith.ofInt r.c1.g,
   Arith.ofInt r.c0.b, Arith.ofInt r.c1.b, Arith.ofInt r.c0.a, Arith.ofInt r.c1.a⟩

tolerant
/-- gradient.go `MakeRange`, for every pair of Go stops (through `stopTo` on the arguments and `rangeOf` on the
    result) -/
theorem makeRange_code_tie (s0 s1 : render_Stop) :
    render_MakeRange s0 s1 = rangeOf (makeRange (stopTo s0) (stopTo s1)) := by
  simp only [render_MakeRange, makeRange, rangeOf, stopTo, rgba64To, Go.cvt_u16_f64]
  rfl

tolerant
/-- gradient.go `MakeRange` seen from the model: for model stops whose channels fit a `uint16` (hypotheses `h0 h1`;
    the renderer only builds stops by `Ren.rgba64Of`, which satisfy it) -/
theorem makeRange_code_tie_model (s0 s1 : Stop F64) (h0 : RGBA64.Fits s0.color) (h1 : RGBA64.Fits s1.color) :
    render_MakeRange (stopOf s0) (stopOf s1) = rangeOf (makeRange s0 s1) := by
  rw [makeRange_code_tie]
  simp only [stopTo, stopOf, rgba64To_rgba64Of _ h0, rgba64To_rgba64Of _ h1]

example : RGBA64.Fits ⟨0xffff, 0x8080, 0, 0xffff⟩ := by unfold RGBA64.Fits; decide

end Ivg.Gen.Tie
