import Ivg.Gen.Tie.Code.Encoder4
/-!
# Tie: the Encoder methods as transformers of the WHOLE Go state (part 5 of the Encoder ties)

A generated method returns only the fields the Go method writes.  Here each method is read as a function on the
generated structure `encode_Encoder` (apply the generated function to the fields it reads, store the returned values
in the fields it writes, keep the rest) and tied to the model on the whole state: if the Go state represents `m`
(`encOf m x`; `x` supplies `altBuf`, `metadata`, `scratch`, which the model does not have and these methods do not
touch) then the Go state after the call represents the model's result.  These theorems combine the `…_code_tie`
equations (parts 1–4) with the model's `…_frame` facts; they say in particular that the model changes no field that
the Go method does not write.
-/
namespace Ivg.Gen.Tie
open Ivg Ivg.Num Ivg.Gen Ivg.Gen.Code
set_option linter.unusedSimpArgs false

/-- store the five fields the drawing methods (and `draw`) write -/
def withDraw (g : encode_Encoder) (r : Bytes × Go.Err × UInt8 × UInt8 × List F32) : encode_Encoder :=
  { g with buf := r.1, err := r.2.1, mode := r.2.2.1, drawOp := r.2.2.2.1, drawArgs := r.2.2.2.2 }

tolerant
/-- the fields of `encOf` -/
theorem encOf_fields (m : Enc.Encoder) (x : encode_Encoder) :
    (encOf m x).HighResolutionCoordinates = m.hiRes ∧ (encOf m x).highResolutionCoordinates = m.hiResLocal ∧
    (encOf m x).buf = m.buf ∧ (encOf m x).err = goErr m.err ∧ (encOf m x).lod0 = m.lod0 ∧
    (encOf m x).lod1 = m.lod1 ∧ (encOf m x).cSel = m.cSel ∧ (encOf m x).nSel = m.nSel ∧
    (encOf m x).mode = goMode m.mode ∧ (encOf m x).drawOp = goDrawOp m.drawOp ∧
    (encOf m x).drawArgs = m.drawArgs.flatten ∧ (encOf m x).altBuf = x.altBuf ∧
    (encOf m x).metadata = x.metadata ∧ (encOf m x).scratch = x.scratch :=
  ⟨rfl, rfl, rfl, rfl, rfl, rfl, rfl, rfl, rfl, rfl, rfl, rfl, rfl, rfl⟩

tolerant
/-- encode.go `SetCSel` on the whole state -/
theorem setCSel_code_tie_state (m : Enc.Encoder) (x : encode_Encoder) (v : UInt8) :
    (let g := encOf m x
     let r := encode_Encoder_SetCSel g.buf g.err g.cSel g.mode v
     { g with buf := r.1, err := r.2.1, cSel := r.2.2.1, mode := r.2.2.2 }) = encOf (m.step (.setCSel v)) x := by
  have hf := setCSel_frame m v
  simp only [encOf, setCSel_code_tie]
  simp only [Enc.Encoder.step, hf]

tolerant
/-- encode.go `SetNSel` on the whole state -/
theorem setNSel_code_tie_state (m : Enc.Encoder) (x : encode_Encoder) (v : UInt8) :
    (let g := encOf m x
     let r := encode_Encoder_SetNSel g.buf g.err g.nSel g.mode v
     { g with buf := r.1, err := r.2.1, nSel := r.2.2.1, mode := r.2.2.2 }) = encOf (m.step (.setNSel v)) x := by
  have hf := setNSel_frame m v
  simp only [encOf, setNSel_code_tie]
  simp only [Enc.Encoder.step, hf]

tolerant
/-- encode.go `SetCReg` on the whole state -/
theorem setCReg_code_tie_state (m : Enc.Encoder) (x : encode_Encoder) (adj : UInt8) (incr : Bool) (c : Color) :
    (let g := encOf m x
     let r := encode_Encoder_SetCReg g.buf g.err g.cSel g.mode adj incr (colorOf c)
     { g with buf := r.1, err := r.2.1, cSel := r.2.2.1, mode := r.2.2.2 })
      = encOf (m.step (.setCReg adj incr c)) x := by
  have hf := setCReg_frame m adj incr c
  simp only [encOf, setCReg_code_tie]
  simp only [Enc.Encoder.step, hf]

tolerant
/-- encode.go `SetLOD` on the whole state -/
theorem setLOD_code_tie_state (m : Enc.Encoder) (x : encode_Encoder) (l0 l1 : F32) :
    (let g := encOf m x
     let r := encode_Encoder_SetLOD g.buf g.err g.lod0 g.lod1 g.mode l0 l1
     { g with buf := r.1, err := r.2.1, lod0 := r.2.2.1, lod1 := r.2.2.2.1, mode := r.2.2.2.2 })
      = encOf (m.step (.setLOD l0 l1)) x := by
  have hf := setLOD_frame m l0 l1
  simp only [encOf, setLOD_code_tie]
  simp only [Enc.Encoder.step, hf]

tolerant
/-- encode.go `StartPath` on the whole state -/
theorem encoder_startPath_code_tie_state (m : Enc.Encoder) (x : encode_Encoder) (adj : UInt8) (a b : F32) :
    (let g := encOf m x
     let r := encode_Encoder_StartPath g.HighResolutionCoordinates g.highResolutionCoordinates g.buf g.err g.mode
       adj a b
     { g with highResolutionCoordinates := r.1, buf := r.2.1, err := r.2.2.1, mode := r.2.2.2 })
      = encOf (m.step (.startPath adj a b)) x := by
  have hf := startPath_frame m adj a b
  simp only [encOf, encoder_startPath_code_tie]
  simp only [Enc.Encoder.step, hf]

tolerant
/-- encode.go `CSel` on the whole state (the read may emit the default metadata) -/
theorem cSel_code_tie_state (m : Enc.Encoder) (x : encode_Encoder) :
    (let g := encOf m x
     let r := encode_Encoder_CSel g.buf g.cSel g.mode
     (r.1, { g with buf := r.2.1, mode := r.2.2 })) = (m.readCSel.2, encOf m.readCSel.1 x) := by
  simp only [encOf, cSel_code_tie]
  simp only [Enc.Encoder.readCSel, Enc.Encoder.appendDefaultMetadata]
  split <;> rfl

tolerant
/-- encode.go `NSel` on the whole state -/
theorem nSel_code_tie_state (m : Enc.Encoder) (x : encode_Encoder) :
    (let g := encOf m x
     let r := encode_Encoder_NSel g.buf g.nSel g.mode
     (r.1, { g with buf := r.2.1, mode := r.2.2 })) = (m.readNSel.2, encOf m.readNSel.1 x) := by
  simp only [encOf, nSel_code_tie]
  simp only [Enc.Encoder.readNSel, Enc.Encoder.appendDefaultMetadata]
  split <;> rfl

tolerant
/-- encode.go `LOD` on the whole state -/
theorem lOD_code_tie_state (m : Enc.Encoder) (x : encode_Encoder) :
    (let g := encOf m x
     let r := encode_Encoder_LOD g.buf g.lod0 g.lod1 g.mode
     (r.1, r.2.1, { g with buf := r.2.2.1, mode := r.2.2.2 }))
      = (m.readLOD.2.1, m.readLOD.2.2, encOf m.readLOD.1 x) := by
  simp only [encOf, lOD_code_tie]
  simp only [Enc.Encoder.readLOD, Enc.Encoder.appendDefaultMetadata]
  split <;> rfl

tolerant
/-- whole-state form of every tie whose right-hand side is `encDrawRep m'` (the generated `draw`, `arcTo` and the 19
    drawing methods): storing the returned fields gives the Go state of `m'`, provided `m'` agrees with `m` on the
    other six modelled fields — which `draw_frame` shows for `m' = m.draw op args`. -/
theorem withDraw_encOf (m m' : Enc.Encoder) (x : encode_Encoder)
    (hf : m'.hiRes = m.hiRes ∧ m'.hiResLocal = m.hiResLocal ∧ m'.lod0 = m.lod0 ∧ m'.lod1 = m.lod1 ∧
      m'.cSel = m.cSel ∧ m'.nSel = m.nSel) :
    withDraw (encOf m x) (encDrawRep m') = encOf m' x := by
  simp only [withDraw, encOf, encDrawRep, hf]

tolerant
/-- encode.go `draw` on the whole state -/
theorem draw_code_tie_state (m : Enc.Encoder) (hwf : WFEnc m) (x : encode_Encoder) (op : Enc.DrawOp)
    (a0 a1 a2 a3 a4 a5 : F32) (fuel : Nat) (hf : m.drawArgs.flatten.length + 8 ≤ fuel) :
    (let g := encOf m x
     withDraw g (encode_Encoder_draw fuel g.highResolutionCoordinates g.buf g.err g.mode g.drawOp g.drawArgs
       (goDrawOp (some op)) a0 a1 a2 a3 a4 a5))
      = encOf (m.draw op ([a0, a1, a2, a3, a4, a5].take (Enc.opInfo op).nArgs)) x := by
  have h := draw_code_tie m hwf op a0 a1 a2 a3 a4 a5 fuel hf
  simp only [encOf_fields, h]
  exact withDraw_encOf m _ x (draw_frame m op _)

tolerant
/-- every drawing call of the `Destination` API leaves the six fields alone that the Go drawing methods do not
    write; with `withDraw_encOf` this turns each `…_code_tie` of part 3 into its whole-state form. -/
theorem step_draw_frame (m : Enc.Encoder) (c : Call F32)
    (hc : match c with
      | .closeEnd | .d1 .. | .d2 .. | .d4 .. | .d6 .. | .arc .. => True
      | _ => False) :
    (m.step c).hiRes = m.hiRes ∧ (m.step c).hiResLocal = m.hiResLocal ∧ (m.step c).lod0 = m.lod0 ∧
    (m.step c).lod1 = m.lod1 ∧ (m.step c).cSel = m.cSel ∧ (m.step c).nSel = m.nSel := by
  cases c <;> first | exact hc.elim | exact draw_frame m _ _

tolerant
/-- encode.go `Bytes` on the whole state -/
theorem bytes_code_tie_state (m : Enc.Encoder) (hwf : WFEnc m) (x : encode_Encoder) (fuel : Nat)
    (hf : m.drawArgs.flatten.length + 2 ≤ fuel) :
    (let g := encOf m x
     let r := encode_Encoder_Bytes fuel g.highResolutionCoordinates g.buf g.err g.mode g.drawOp g.drawArgs
     ((r.1, r.2.1), { g with buf := r.2.2.1, mode := r.2.2.2.1, drawOp := r.2.2.2.2.1, drawArgs := r.2.2.2.2.2 }))
      = (goBytesResult m.bytes.2, encOf m.bytes.1 x) := by
  have h := bytes_code_tie m hwf fuel hf
  simp only [encOf_fields, h]
  have hfr : m.bytes.1.hiRes = m.hiRes ∧ m.bytes.1.hiResLocal = m.hiResLocal ∧ m.bytes.1.err = m.err ∧
      m.bytes.1.lod0 = m.lod0 ∧ m.bytes.1.lod1 = m.lod1 ∧ m.bytes.1.cSel = m.cSel ∧ m.bytes.1.nSel = m.nSel := by
    simp only [Enc.Encoder.bytes]
    split
    · simp
    · have f1 := flush_frame m
      have f2 := flush_frame m.appendDefaultMetadata
      split <;> simp_all [Enc.Encoder.appendDefaultMetadata]
  simp only [encOf, hfr]

end Ivg.Gen.Tie
