import Ivg.Gen.Tie.Code.Base
import Ivg.Gen.Tie.Code.Color
import Ivg.Gen.Tie.Code.Transform
import Ivg.Gen.Code.P_render
import Ivg.Model.Renderer
/-!
# Tie: the register/selector methods of `render/render.go` (`SetCSel, SetNSel, SetNReg, SetLOD, CSel, NSel, Reset`)
as TRANSLATED from the Go source = the corresponding cases of the model's `Renderer.step` at (float32, float64).

The Go methods have a pointer receiver: the translation takes the receiver fields read and returns the new values
of the fields written (in field order).  Each tie states that the model's step IS the record update of `z` with
those returned values (so it also says that the model changes no other field) and emits no rasteriser call.
-/
namespace Ivg.Gen.Tie
open Ivg Ivg.Num Ivg.Gen.Code Ivg.Ren

tolerant
/-- Go `x & 0x3f` as an index is the model's `% 64` of `Regs.get6/set6` -/
theorem u8_and63_toNat (u : UInt8) : (u &&& 63).toNat = u.toNat % 64 := by
  rw [UInt8.toNat_and]; exact Nat.and_two_pow_sub_one_eq_mod _ 6

tolerant
/-- a Go array store at an index `< 64` is the model's `Regs.set6` -/
theorem arrSet_and63 {T : Type} (v : Vector T 64) (u : UInt8) (x : T) :
    Go.arrSet v (Go.idx_u8 (u &&& 63)) x = Regs.set6 v u x := by
  have h : u.toNat % 64 < 64 := Nat.mod_lt _ (by decide)
  simp only [Go.arrSet, Go.idx_u8, Regs.set6, u8_and63_toNat]
  ext j hj
  simp [Vector.getElem_setIfInBounds, Vector.getElem_set]

tolerant
/-- a Go array load at an index `< 64` is the model's `Regs.get6` -/
theorem arrGet_and63 {T : Type} [Inhabited T] (v : Vector T 64) (u : UInt8) :
    Go.arrGet v (Go.idx_u8 (u &&& 63)) = Regs.get6 v u := by
  have h : u.toNat % 64 < 64 := Nat.mod_lt _ (by decide)
  simp only [Go.arrGet, Go.idx_u8, Regs.get6, u8_and63_toNat]
  simp [h]

variable (arc : ArcFn F32 F64) (posInf : F32) (z : Renderer F32 F64)

tolerant
/-- render.go `(*Renderer).CSel` (a read: no `Call`, the model reads the field) -/
theorem renderer_CSel_code_tie : render_Renderer_CSel z.cSel = z.cSel := rfl

tolerant
/-- render.go `(*Renderer).NSel` -/
theorem renderer_NSel_code_tie : render_Renderer_NSel z.nSel = z.nSel := rfl

tolerant
/-- render.go `(*Renderer).SetCSel` = `Renderer.step … (.setCSel v)` -/
theorem renderer_SetCSel_code_tie (v : UInt8) :
    z.step arc posInf (.setCSel v) = ({ z with cSel := render_Renderer_SetCSel v }, []) := by
  simp only [Renderer.step, render_Renderer_SetCSel]

tolerant
/-- render.go `(*Renderer).SetNSel` = `Renderer.step … (.setNSel v)` -/
theorem renderer_SetNSel_code_tie (v : UInt8) :
    z.step arc posInf (.setNSel v) = ({ z with nSel := render_Renderer_SetNSel v }, []) := by
  simp only [Renderer.step, render_Renderer_SetNSel]

tolerant
/-- render.go `(*Renderer).SetLOD` = `Renderer.step … (.setLOD l0 l1)` -/
theorem renderer_SetLOD_code_tie (l0 l1 : F32) :
    z.step arc posInf (.setLOD l0 l1) =
      ({ z with lod0 := (render_Renderer_SetLOD l0 l1).1, lod1 := (render_Renderer_SetLOD l0 l1).2 }, []) := by
  simp only [Renderer.step, render_Renderer_SetLOD]

tolerant
/-- render.go `(*Renderer).SetNReg` = `Renderer.step … (.setNReg adj incr f)`; the Go result is `(nSel, nReg)` -/
theorem renderer_SetNReg_code_tie (adj : UInt8) (incr : Bool) (f : F32) :
    z.step arc posInf (.setNReg adj incr f) =
      ({ z with nSel := (render_Renderer_SetNReg z.nSel z.nReg adj incr f).1,
                nReg := (render_Renderer_SetNReg z.nSel z.nReg adj incr f).2 }, []) := by
  simp only [Renderer.step, render_Renderer_SetNReg, arrSet_and63]
  cases incr <;> rfl

tolerant
/-- render.go `positiveInfinity` (the `posInf` the driver passes to the model) -/
theorem positiveInfinity_code_tie : G_render_positiveInfinity = F32.posInf := rfl

tolerant
/-- render.go `(*Renderer).Reset`: the fifteen fields the Go method writes (in field order: `scaleX, biasX, scaleY,
    biasY, viewBox, palette, lod0, lod1, cSel, nSel, prevSmoothType, prevSmoothPointX, prevSmoothPointY, cReg, nReg`)
    have the values of the model's `Renderer.reset` at `posInf = +Inf`, which is the `.reset` case of
    `Renderer.step`.  (`prevSmoothType` is a `Nat` in the model, `uint8` in Go.) -/
theorem renderer_Reset_code_tie (vb : ViewBox F32) (pal : Palette) :
    render_Renderer_Reset (rectOf z.r) (vbOf vb) (palOf pal) =
      (let z' := (z.step arc F32.posInf (.reset vb pal)).1
       (z'.scaleX, z'.biasX, z'.scaleY, z'.biasY, vbOf z'.viewBox, palOf z'.palette, z'.lod0, z'.lod1, z'.cSel,
        z'.nSel, UInt8.ofNat z'.prevSmoothType, z'.prevSmoothX, z'.prevSmoothY, palOf z'.cReg, z'.nReg)) := by
  simp only [Renderer.step, render_Renderer_Reset, Renderer.reset]
  rw [show rectOf z.r = rectOf ({ z with viewBox := vb } : Renderer F32 F64).r from rfl,
      show vbOf vb = vbOf ({ z with viewBox := vb } : Renderer F32 F64).viewBox from rfl,
      renderer_recalcTransform_code_tie]
  rfl

tolerant
/-- … the `.reset` case of `Renderer.step` emits no rasteriser call and leaves the other fields (`r, disabled, fill`
    and the pen) unchanged. -/
theorem renderer_Reset_code_tie_frame (vb : ViewBox F32) (pal : Palette) :
    (z.step arc posInf (.reset vb pal)).2 = [] ∧
    (let z' := (z.step arc posInf (.reset vb pal)).1
     z'.r = z.r ∧ z'.disabled = z.disabled ∧ z'.penX = z.penX ∧ z'.penY = z.penY ∧ z'.firstX = z.firstX ∧
       z'.firstY = z.firstY) := by
  exact ⟨rfl, rfl, rfl, rfl, rfl, rfl, rfl⟩

end Ivg.Gen.Tie
