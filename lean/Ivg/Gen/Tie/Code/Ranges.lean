import Ivg.Gen.Tie.Code.Base
import Ivg.Gen.Tie.Code.Clamp
import Ivg.Gen.Code.P_render
import Ivg.Model.Gradient
/-!
# Tie: `AppendRanges` and `(*Gradient).Init` of `render/gradient.go` as TRANSLATED from the Go source = the model's
`Grad.appendRanges` and `Grad.Gradient.init` of `Ivg/Model/Gradient.lean` at float64, for all inputs.

`AppendRanges` contains a loop (`for i := 0; i < len(stops)-1; i++`): the translation takes a `fuel` argument and the
loop is the local function `render_AppendRanges.loop7_j` (one copy per path: `loop7_1` after the `len(a) != 0`
branch, `loop7_2` otherwise), structurally recursive on its fuel.  Go's meaning is the value for sufficient fuel;
the ties hold for every `fuel ≥ len(stops)` (the loop runs `len(stops) - 1` times and needs one more unit to leave).
-/
namespace Ivg.Gen.Tie
open Ivg Ivg.Num Ivg.Gen.Code Ivg.Grad

/-- the ranges between consecutive Go stops (what the loop of `AppendRanges` appends) -/
def stopPairs : List render_Stop → List render_Range
  | s0 :: s1 :: rest => render_MakeRange s0 s1 :: stopPairs (s1 :: rest)
  | _ => []

tolerant
/-- … is the model's `appendRanges`, through `stopTo` / `rangeOf` -/
theorem stopPairs_eq_model (stops : List render_Stop) :
    stopPairs stops = (appendRanges (stops.map stopTo)).map rangeOf := by
  induction stops with
  | nil => rfl
  | cons s0 rest ih =>
    cases rest with
    | nil => rfl
    | cons s1 rest =>
      simp only [stopPairs, List.map_cons, appendRanges, makeRange_code_tie] at ih ⊢
      rw [ih]

tolerant
theorem stopPairs_drop (stops : List render_Stop) (i : Nat) (h : i + 1 < stops.length) :
    stopPairs (stops.drop i) = render_MakeRange stops[i] stops[i + 1] :: stopPairs (stops.drop (i + 1)) := by
  rw [List.drop_eq_getElem_cons (by omega : i < stops.length), List.drop_eq_getElem_cons h]
  simp [stopPairs]

tolerant
theorem stopPairs_drop_end (stops : List render_Stop) (i : Nat) (h : stops.length ≤ i + 1) :
    stopPairs (stops.drop i) = [] := by
  have hl : (stops.drop i).length ≤ 1 := by rw [List.length_drop]; omega
  match hd : stops.drop i, hl with
  | [], _ => rfl
  | [_], _ => rfl
  | _ :: _ :: _, hl => simp at hl

tolerant
theorem sliceGet_lt {T : Type} [Inhabited T] (l : List T) (i : Nat) (h : i < l.length) : Go.sliceGet l i = l[i] := by
  simp [Go.sliceGet, h]

tolerant
/-- the loop of `AppendRanges`, started at index `i` with accumulator `acc`: with `fuel ≥ max 1 (len(stops) - i)` it
    returns `acc` followed by the ranges between the consecutive stops from index `i` on (copy on the `len(a) = 0`
    path) -/
theorem appendRanges_loop7_2 (stops : List render_Stop) (fuel : Nat) (acc : List render_Range) (i : Nat)
    (h1 : 1 ≤ fuel) (hf : stops.length - i ≤ fuel) :
    render_AppendRanges.loop7_2 stops fuel acc (i : Int) = acc ++ stopPairs (stops.drop i) := by
  induction fuel generalizing acc i with
  | zero => omega
  | succ k ih =>
    unfold render_AppendRanges.loop7_2
    by_cases hc : (i : Int) < Int.ofNat stops.length - 1
    · have hi : i + 1 < stops.length := by simp only [Int.ofNat_eq_natCast] at hc; omega
      have e1 : Go.idx_int (i : Int) = i := by simp [Go.idx_int]
      have e2 : (i : Int) + 1 = ((i + 1 : Nat) : Int) := by omega
      have e3 : Go.idx_int ((i + 1 : Nat) : Int) = i + 1 := by simp [Go.idx_int]
      simp only [hc, decide_true, ↓reduceIte, e1, e2, e3, sliceGet_lt _ _ hi,
        sliceGet_lt _ _ (by omega : i < stops.length)]
      rw [ih _ (i + 1) (by omega) (by omega), stopPairs_drop stops i hi]
      simp
    · have hi : stops.length ≤ i + 1 := by simp only [Int.ofNat_eq_natCast] at hc; omega
      simp only [hc, decide_false, Bool.false_eq_true, ↓reduceIte, stopPairs_drop_end stops i hi, List.append_nil]

tolerant
/-- … the copy of the same loop on the `len(a) != 0` path -/
theorem appendRanges_loop7_1 (stops : List render_Stop) (fuel : Nat) (acc : List render_Range) (i : Nat)
    (h1 : 1 ≤ fuel) (hf : stops.length - i ≤ fuel) :
    render_AppendRanges.loop7_1 stops fuel acc (i : Int) = acc ++ stopPairs (stops.drop i) := by
  induction fuel generalizing acc i with
  | zero => omega
  | succ k ih =>
    unfold render_AppendRanges.loop7_1
    by_cases hc : (i : Int) < Int.ofNat stops.length - 1
    · have hi : i + 1 < stops.length := by simp only [Int.ofNat_eq_natCast] at hc; omega
      have e1 : Go.idx_int (i : Int) = i := by simp [Go.idx_int]
      have e2 : (i : Int) + 1 = ((i + 1 : Nat) : Int) := by omega
      have e3 : Go.idx_int ((i + 1 : Nat) : Int) = i + 1 := by simp [Go.idx_int]
      simp only [hc, decide_true, ↓reduceIte, e1, e2, e3, sliceGet_lt _ _ hi,
        sliceGet_lt _ _ (by omega : i < stops.length)]
      rw [ih _ (i + 1) (by omega) (by omega), stopPairs_drop stops i hi]
      simp
    · have hi : stops.length ≤ i + 1 := by simp only [Int.ofNat_eq_natCast] at hc; omega
      simp only [hc, decide_false, Bool.false_eq_true, ↓reduceIte, stopPairs_drop_end stops i hi, List.append_nil]

tolerant
/-- gradient.go `AppendRanges` on an EMPTY first argument (the only way the library calls it: `Init` passes
    `g.Ranges[:0]`), for every `fuel ≥ len(stops)`: the model's `appendRanges` (Go stops read through `stopTo`, the
    resulting ranges written through `rangeOf`). -/
theorem appendRanges_code_tie (fuel : Nat) (stops : List render_Stop) (hf : stops.length ≤ fuel) :
    render_AppendRanges fuel [] stops = (appendRanges (stops.map stopTo)).map rangeOf := by
  rw [← stopPairs_eq_model]
  cases stops with
  | nil => simp [render_AppendRanges, stopPairs]
  | cons s rest =>
    have h := appendRanges_loop7_2 (s :: rest) fuel [] 0 (by simp at hf; omega) (by simpa using hf)
    have hne : ¬ (Int.ofNat (rest.length + 1) = 0) := by simp only [Int.ofNat_eq_natCast]; omega
    simp only [render_AppendRanges, List.length_cons, List.length_nil, hne, decide_false, Bool.false_eq_true,
      ↓reduceIte]
    simpa using h

example : ([⟨⟨0⟩, ⟨1, 2, 3, 4⟩⟩, ⟨⟨0x3ff0000000000000⟩, ⟨5, 6, 7, 8⟩⟩] : List render_Stop).length ≤ 2 := by decide

/-- the bound is sharp: with one unit of fuel less the loop runs out (and the translation answers `default = []`) -/
example : render_AppendRanges 1 [] [⟨⟨0⟩, ⟨1, 2, 3, 4⟩⟩, ⟨⟨0x3ff0000000000000⟩, ⟨5, 6, 7, 8⟩⟩] = [] ∧
    render_AppendRanges 2 [] [⟨⟨0⟩, ⟨1, 2, 3, 4⟩⟩, ⟨⟨0x3ff0000000000000⟩, ⟨5, 6, 7, 8⟩⟩] ≠ [] := by decide +kernel

/-- the implicit final stop of a non-empty `a` (gradient.go `AppendRanges`: `Stop{z.Offset1, RGBA64{uint16(z.R1), …}}`
    with `z = a[len(a)-1]`) -/
def lastStopOf (z : render_Range) : render_Stop :=
  ⟨z.Offset1, ⟨Go.cvt_f64_u16 z.R1, Go.cvt_f64_u16 z.G1, Go.cvt_f64_u16 z.B1, Go.cvt_f64_u16 z.A1⟩⟩

tolerant
/-- gradient.go `AppendRanges` on a NON-empty first argument `a` (not used by the library; not covered by the
    model's `appendRanges`, which is why the result is expressed by applying the model's function to the stops
    preceded by `a`'s implicit final stop): `nil` when there are no stops, else `a` followed by the ranges of
    `lastStopOf (last a) :: stops`.  For every `fuel ≥ len(stops)`. -/
theorem appendRanges_code_tie_nonempty (fuel : Nat) (a : List render_Range) (ha : a ≠ []) (stops : List render_Stop)
    (hf : stops.length ≤ fuel) :
    render_AppendRanges fuel a stops =
      if stops = [] then []
      else a ++ (appendRanges ((lastStopOf (a.getLast ha) :: stops).map stopTo)).map rangeOf := by
  rw [← stopPairs_eq_model]
  cases stops with
  | nil => simp [render_AppendRanges]
  | cons s rest =>
    have h := appendRanges_loop7_1 (s :: rest) fuel
      (a ++ [render_MakeRange (lastStopOf (a.getLast ha)) s]) 0 (by simp at hf; omega) (by simpa using hf)
    have hl : a.length ≠ 0 := by simpa using ha
    have hlast : Go.sliceGet a (Go.idx_int (Int.ofNat a.length - 1)) = a.getLast ha := by
      have : Go.idx_int (Int.ofNat a.length - 1) = a.length - 1 := by
        simp only [Go.idx_int, Int.ofNat_eq_natCast]; omega
      rw [this, sliceGet_lt _ _ (by omega), List.getLast_eq_getElem]
    simp only [render_AppendRanges, List.length_cons, hlast]
    have hne : ¬ (Int.ofNat (rest.length + 1) = 0) := by simp only [Int.ofNat_eq_natCast]; omega
    have hne' : Int.ofNat a.length ≠ 0 := by simp only [Int.ofNat_eq_natCast]; omega
    simp only [hne, decide_false, Bool.false_eq_true, ↓reduceIte]
    rw [if_pos (decide_eq_true hne'), if_neg (by simp), show Go.sliceGet (s :: rest) 0 = s from rfl]
    have h' : render_AppendRanges.loop7_1 (s :: rest) fuel (a ++ [render_MakeRange (lastStopOf (a.getLast ha)) s]) 0
        = a ++ [render_MakeRange (lastStopOf (a.getLast ha)) s] ++ stopPairs (s :: rest) := by simpa using h
    simp only [lastStopOf] at h' ⊢
    rw [h']
    simp [stopPairs]

tolerant
/-- gradient.go `(*Gradient).Init` for every `fuel ≥ len(stops)` and every previous value of `g.Ranges` (it is only
    resliced to length 0): the Go results `(ok, Shape, Spread, Pix2Grad, Ranges, First, Last)` are the model's
    `Gradient.init` on the stops read through `stopTo`. -/
theorem gradient_Init_code_tie (fuel : Nat) (gRanges : List render_Range) (shape spread : UInt8) (m : Grad.Aff3 F64)
    (stops : List render_Stop) (hf : stops.length ≤ fuel) :
    render_Gradient_Init fuel gRanges shape spread (gradAff3Of m) stops =
      (let r := Gradient.init shape spread m (stops.map stopTo)
       (r.2, r.1.shape, r.1.spread, gradAff3Of r.1.pix2Grad, r.1.ranges.map rangeOf, rgba64Of r.1.first,
        rgba64Of r.1.last)) := by
  have hs : Go.slice gRanges 0 0 = [] := by simp [Go.slice]
  simp only [render_Gradient_Init, hs, appendRanges_code_tie fuel stops hf, Gradient.init]
  -- Go `len(g.Ranges) > 0` (canonicalised by the translator to `1 ≤ len`)
  have hlen : ∀ l : List render_Range, decide ((1 : Int) ≤ Int.ofNat l.length) = !l.isEmpty := by
    intro l; cases l <;> simp <;> omega
  cases stops with
  | nil => simp [appendRanges, rgba64Of, image_color_RGBA64.zero]
  | cons s rest =>
    have hne : ¬ (Int.ofNat (s :: rest).length = 0) := by simp only [Int.ofNat_eq_natCast, List.length_cons]; omega
    have hidx : Go.idx_int (Int.ofNat (s :: rest).length - 1) = (s :: rest).length - 1 := by
      simp only [Go.idx_int, Int.ofNat_eq_natCast]; omega
    have hlast : Go.sliceGet (s :: rest) ((s :: rest).length - 1) = (s :: rest).getLast (by simp) := by
      rw [sliceGet_lt _ _ (by simp), List.getLast_eq_getElem]
    simp only [hne, decide_false, Bool.false_eq_true, ↓reduceIte, hidx, hlast, hlen, List.isEmpty_map]
    rw [show Go.sliceGet (s :: rest) 0 = s from rfl]
    simp only [List.map_cons, List.head?_cons]
    rw [← List.map_cons, List.getLast?_eq_some_getLast (by simp), List.getLast_map (by simp)]
    simp [stopTo]

end Ivg.Gen.Tie
