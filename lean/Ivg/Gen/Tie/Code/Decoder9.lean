import Ivg.Gen.Tie.Code.Decoder8
/-!
# Tie: "the verdict does not depend on who listens" — the `dst == nil` variants of the decoder's functions
(`decode_…__dstnil__pnil`, what `decode.DecodeViewBox` and a `Decode` with a nil Destination run) return exactly what
the variants with a Destination return, with the Destination dropped: for EVERY Destination object (`I`, state `d`),
all inputs and all fuels.  Proved generated-against-generated (the model is not involved): both translations are
unfolded side by side.  With `decode_code_tie` (`Decoder8.lean`) the error of the nil-Destination `decode` is the model's.
-/
namespace Ivg.Gen.Tie
open Ivg Ivg.Num Ivg.Gen Ivg.Gen.Code Ivg.Dec

/-- forget the Destination in the result of a mode function -/
def dropDst {R : Type} (r : Go.FnRef × List UInt8 × Go.Err × R) : Go.FnRef × List UInt8 × Go.Err :=
  (r.1, r.2.1, r.2.2.1)

tolerant
theorem dropDst_ite {R : Type} (c : Prop) [Decidable c] (a b : Go.FnRef × List UInt8 × Go.Err × R) :
    dropDst (if c then a else b) = if c then dropDst a else dropDst b := by
  split <;> rfl

tolerant
theorem dropDst_mk {R : Type} (a : Go.FnRef) (b : List UInt8) (c : Go.Err) (d : R) : dropDst (a, b, c, d) = (a, b, c) := rfl

section
set_option linter.unusedSectionVars false
variable {R : Type} [Inhabited R] (I : ivg_Destination_ops R)

/-! ## the repetition loops of `decodeDrawing` -/

tolerant
/-- `loop34_1` of `decodeDrawing` without and with a Destination -/
theorem dstnil_drawing_loop1 (N : Int) : ∀ (fuel : Nat) (src : List UInt8) (i : Int) (m : Vector F32 6) (d : R),
    decode_decodeDrawing__dstnil__pnil.loop34_1 N fuel src i m
      = dropDst (decode_decodeDrawing__pnil.loop34_1 I N fuel src i m d) := by
  intro fuel
  induction fuel with
  | zero => intro src i m d; rfl
  | succ f ih =>
    intro src i m d
    rw [decode_decodeDrawing__dstnil__pnil.loop34_1, decode_decodeDrawing__pnil.loop34_1]
    simp +decide only [if_true, if_false, dropDst_ite]
    repeat' split
    all_goals first | rfl | exact ih _ _ _ _

tolerant
/-- `loop34_2` of `decodeDrawing` without and with a Destination -/
theorem dstnil_drawing_loop2 (N : Int) : ∀ (fuel : Nat) (src : List UInt8) (i : Int) (m : Vector F32 6) (d : R),
    decode_decodeDrawing__dstnil__pnil.loop34_2 N fuel src i m
      = dropDst (decode_decodeDrawing__pnil.loop34_2 I N fuel src i m d) := by
  intro fuel
  induction fuel with
  | zero => intro src i m d; rfl
  | succ f ih =>
    intro src i m d
    rw [decode_decodeDrawing__dstnil__pnil.loop34_2, decode_decodeDrawing__pnil.loop34_2]
    simp +decide only [if_true, if_false, dropDst_ite]
    repeat' split
    all_goals first | rfl | exact ih _ _ _ _

tolerant
/-- `loop34_3` of `decodeDrawing` without and with a Destination -/
theorem dstnil_drawing_loop3 (N : Int) : ∀ (fuel : Nat) (src : List UInt8) (i : Int) (m : Vector F32 6) (d : R),
    decode_decodeDrawing__dstnil__pnil.loop34_3 N fuel src i m
      = dropDst (decode_decodeDrawing__pnil.loop34_3 I N fuel src i m d) := by
  intro fuel
  induction fuel with
  | zero => intro src i m d; rfl
  | succ f ih =>
    intro src i m d
    rw [decode_decodeDrawing__dstnil__pnil.loop34_3, decode_decodeDrawing__pnil.loop34_3]
    simp +decide only [if_true, if_false, dropDst_ite]
    repeat' split
    all_goals first | rfl | exact ih _ _ _ _

tolerant
/-- `loop34_4` of `decodeDrawing` without and with a Destination -/
theorem dstnil_drawing_loop4 (N : Int) : ∀ (fuel : Nat) (src : List UInt8) (i : Int) (m : Vector F32 6) (d : R),
    decode_decodeDrawing__dstnil__pnil.loop34_4 N fuel src i m
      = dropDst (decode_decodeDrawing__pnil.loop34_4 I N fuel src i m d) := by
  intro fuel
  induction fuel with
  | zero => intro src i m d; rfl
  | succ f ih =>
    intro src i m d
    rw [decode_decodeDrawing__dstnil__pnil.loop34_4, decode_decodeDrawing__pnil.loop34_4]
    simp +decide only [if_true, if_false, dropDst_ite]
    repeat' split
    all_goals first | rfl | exact ih _ _ _ _

tolerant
/-- `loop34_5` of `decodeDrawing` without and with a Destination -/
theorem dstnil_drawing_loop5 (N : Int) : ∀ (fuel : Nat) (src : List UInt8) (i : Int) (m : Vector F32 6) (d : R),
    decode_decodeDrawing__dstnil__pnil.loop34_5 N fuel src i m
      = dropDst (decode_decodeDrawing__pnil.loop34_5 I N fuel src i m d) := by
  intro fuel
  induction fuel with
  | zero => intro src i m d; rfl
  | succ f ih =>
    intro src i m d
    rw [decode_decodeDrawing__dstnil__pnil.loop34_5, decode_decodeDrawing__pnil.loop34_5]
    simp +decide only [if_true, if_false, dropDst_ite]
    repeat' split
    all_goals first | rfl | exact ih _ _ _ _

tolerant
/-- `loop34_6` of `decodeDrawing` without and with a Destination -/
theorem dstnil_drawing_loop6 (N : Int) : ∀ (fuel : Nat) (src : List UInt8) (i : Int) (m : Vector F32 6) (d : R),
    decode_decodeDrawing__dstnil__pnil.loop34_6 N fuel src i m
      = dropDst (decode_decodeDrawing__pnil.loop34_6 I N fuel src i m d) := by
  intro fuel
  induction fuel with
  | zero => intro src i m d; rfl
  | succ f ih =>
    intro src i m d
    rw [decode_decodeDrawing__dstnil__pnil.loop34_6, decode_decodeDrawing__pnil.loop34_6]
    simp +decide only [if_true, if_false, dropDst_ite]
    repeat' split
    all_goals first | rfl | exact ih _ _ _ _

tolerant
/-- `loop34_7` of `decodeDrawing` without and with a Destination -/
theorem dstnil_drawing_loop7 (N : Int) : ∀ (fuel : Nat) (src : List UInt8) (i : Int) (m : Vector F32 6) (d : R),
    decode_decodeDrawing__dstnil__pnil.loop34_7 N fuel src i m
      = dropDst (decode_decodeDrawing__pnil.loop34_7 I N fuel src i m d) := by
  intro fuel
  induction fuel with
  | zero => intro src i m d; rfl
  | succ f ih =>
    intro src i m d
    rw [decode_decodeDrawing__dstnil__pnil.loop34_7, decode_decodeDrawing__pnil.loop34_7]
    simp +decide only [if_true, if_false, dropDst_ite]
    repeat' split
    all_goals first | rfl | exact ih _ _ _ _

tolerant
/-- `loop34_8` of `decodeDrawing` without and with a Destination -/
theorem dstnil_drawing_loop8 (N : Int) : ∀ (fuel : Nat) (src : List UInt8) (i : Int) (m : Vector F32 6) (d : R),
    decode_decodeDrawing__dstnil__pnil.loop34_8 N fuel src i m
      = dropDst (decode_decodeDrawing__pnil.loop34_8 I N fuel src i m d) := by
  intro fuel
  induction fuel with
  | zero => intro src i m d; rfl
  | succ f ih =>
    intro src i m d
    rw [decode_decodeDrawing__dstnil__pnil.loop34_8, decode_decodeDrawing__pnil.loop34_8]
    simp +decide only [if_true, if_false, dropDst_ite]
    repeat' split
    all_goals first | rfl | exact ih _ _ _ _

tolerant
/-- `loop34_9` of `decodeDrawing` without and with a Destination -/
theorem dstnil_drawing_loop9 (N : Int) : ∀ (fuel : Nat) (src : List UInt8) (i : Int) (m : Vector F32 6) (d : R),
    decode_decodeDrawing__dstnil__pnil.loop34_9 N fuel src i m
      = dropDst (decode_decodeDrawing__pnil.loop34_9 I N fuel src i m d) := by
  intro fuel
  induction fuel with
  | zero => intro src i m d; rfl
  | succ f ih =>
    intro src i m d
    rw [decode_decodeDrawing__dstnil__pnil.loop34_9, decode_decodeDrawing__pnil.loop34_9]
    simp +decide only [if_true, if_false, dropDst_ite]
    repeat' split
    all_goals first | rfl | exact ih _ _ _ _

tolerant
/-- `loop34_10` of `decodeDrawing` without and with a Destination -/
theorem dstnil_drawing_loop10 (N : Int) : ∀ (fuel : Nat) (src : List UInt8) (i : Int) (m : Vector F32 6) (d : R),
    decode_decodeDrawing__dstnil__pnil.loop34_10 N fuel src i m
      = dropDst (decode_decodeDrawing__pnil.loop34_10 I N fuel src i m d) := by
  intro fuel
  induction fuel with
  | zero => intro src i m d; rfl
  | succ f ih =>
    intro src i m d
    rw [decode_decodeDrawing__dstnil__pnil.loop34_10, decode_decodeDrawing__pnil.loop34_10]
    simp +decide only [if_true, if_false, dropDst_ite]
    repeat' split
    all_goals first | rfl | exact ih _ _ _ _

tolerant
/-- `loop34_11` of `decodeDrawing` without and with a Destination -/
theorem dstnil_drawing_loop11 (N : Int) : ∀ (fuel : Nat) (src : List UInt8) (i : Int) (m : Vector F32 6) (d : R),
    decode_decodeDrawing__dstnil__pnil.loop34_11 N fuel src i m
      = dropDst (decode_decodeDrawing__pnil.loop34_11 I N fuel src i m d) := by
  intro fuel
  induction fuel with
  | zero => intro src i m d; rfl
  | succ f ih =>
    intro src i m d
    rw [decode_decodeDrawing__dstnil__pnil.loop34_11, decode_decodeDrawing__pnil.loop34_11]
    simp +decide only [if_true, if_false, dropDst_ite]
    repeat' split
    all_goals first | rfl | exact ih _ _ _ _

tolerant
/-- `loop34_12` of `decodeDrawing` without and with a Destination -/
theorem dstnil_drawing_loop12 (N : Int) : ∀ (fuel : Nat) (src : List UInt8) (i : Int) (m : Vector F32 6) (d : R),
    decode_decodeDrawing__dstnil__pnil.loop34_12 N fuel src i m
      = dropDst (decode_decodeDrawing__pnil.loop34_12 I N fuel src i m d) := by
  intro fuel
  induction fuel with
  | zero => intro src i m d; rfl
  | succ f ih =>
    intro src i m d
    rw [decode_decodeDrawing__dstnil__pnil.loop34_12, decode_decodeDrawing__pnil.loop34_12]
    simp +decide only [if_true, if_false, dropDst_ite]
    repeat' split
    all_goals first | rfl | exact ih _ _ _ _

tolerant
/-- `loop34_13` of `decodeDrawing` without and with a Destination -/
theorem dstnil_drawing_loop13 (N : Int) : ∀ (fuel : Nat) (src : List UInt8) (i : Int) (m : Vector F32 6) (d : R),
    decode_decodeDrawing__dstnil__pnil.loop34_13 N fuel src i m
      = dropDst (decode_decodeDrawing__pnil.loop34_13 I N fuel src i m d) := by
  intro fuel
  induction fuel with
  | zero => intro src i m d; rfl
  | succ f ih =>
    intro src i m d
    rw [decode_decodeDrawing__dstnil__pnil.loop34_13, decode_decodeDrawing__pnil.loop34_13]
    simp +decide only [if_true, if_false, dropDst_ite]
    repeat' split
    all_goals first | rfl | exact ih _ _ _ _

tolerant
/-- `loop34_14` of `decodeDrawing` without and with a Destination -/
theorem dstnil_drawing_loop14 (N : Int) : ∀ (fuel : Nat) (src : List UInt8) (i : Int) (m : Vector F32 6) (d : R),
    decode_decodeDrawing__dstnil__pnil.loop34_14 N fuel src i m
      = dropDst (decode_decodeDrawing__pnil.loop34_14 I N fuel src i m d) := by
  intro fuel
  induction fuel with
  | zero => intro src i m d; rfl
  | succ f ih =>
    intro src i m d
    rw [decode_decodeDrawing__dstnil__pnil.loop34_14, decode_decodeDrawing__pnil.loop34_14]
    simp +decide only [if_true, if_false, dropDst_ite]
    repeat' split
    all_goals first | rfl | exact ih _ _ _ _

tolerant
/-- `loop34_15` of `decodeDrawing` without and with a Destination -/
theorem dstnil_drawing_loop15 (N : Int) : ∀ (fuel : Nat) (src : List UInt8) (i : Int) (m : Vector F32 6) (d : R),
    decode_decodeDrawing__dstnil__pnil.loop34_15 N fuel src i m
      = dropDst (decode_decodeDrawing__pnil.loop34_15 I N fuel src i m d) := by
  intro fuel
  induction fuel with
  | zero => intro src i m d; rfl
  | succ f ih =>
    intro src i m d
    rw [decode_decodeDrawing__dstnil__pnil.loop34_15, decode_decodeDrawing__pnil.loop34_15]
    simp +decide only [if_true, if_false, dropDst_ite]
    repeat' split
    all_goals first | rfl | exact ih _ _ _ _

/-! ## the mode functions -/

tolerant
/-- `decodeDrawing` with a nil Destination = `decodeDrawing` with any Destination, the Destination dropped -/
theorem dstnil_decodeDrawing (fuel : Nat) (src : List UInt8) (d : R) :
    decode_decodeDrawing__dstnil__pnil fuel src = dropDst (decode_decodeDrawing__pnil I fuel d src) := by
  unfold decode_decodeDrawing__dstnil__pnil decode_decodeDrawing__pnil
  simp only [dropDst_ite, ← dstnil_drawing_loop1 I, ← dstnil_drawing_loop2 I, ← dstnil_drawing_loop3 I,
    ← dstnil_drawing_loop4 I, ← dstnil_drawing_loop5 I, ← dstnil_drawing_loop6 I, ← dstnil_drawing_loop7 I,
    ← dstnil_drawing_loop8 I, ← dstnil_drawing_loop9 I, ← dstnil_drawing_loop10 I, ← dstnil_drawing_loop11 I,
    ← dstnil_drawing_loop12 I, ← dstnil_drawing_loop13 I, ← dstnil_drawing_loop14 I, ← dstnil_drawing_loop15 I,
    dropDst_mk]

tolerant
/-- `decodeSetLOD`, likewise -/
theorem dstnil_decodeSetLOD (src : List UInt8) (d : R) :
    decode_decodeSetLOD__dstnil__pnil src = dropDst (decode_decodeSetLOD__pnil I d src) := by
  unfold decode_decodeSetLOD__dstnil__pnil decode_decodeSetLOD__pnil
  simp only [dropDst_ite, dropDst_mk]

tolerant
/-- `decodeStartPath`, likewise -/
theorem dstnil_decodeStartPath (src : List UInt8) (opcode : UInt8) (d : R) :
    decode_decodeStartPath__dstnil__pnil src opcode = dropDst (decode_decodeStartPath__pnil I d src opcode) := by
  unfold decode_decodeStartPath__dstnil__pnil decode_decodeStartPath__pnil
  simp only [dropDst_ite, dropDst_mk]

tolerant
/-- `decodeSetNReg`, likewise -/
theorem dstnil_decodeSetNReg (src : List UInt8) (opcode : UInt8) (d : R) :
    decode_decodeSetNReg__dstnil__pnil src opcode = dropDst (decode_decodeSetNReg__pnil I d src opcode) := by
  unfold decode_decodeSetNReg__dstnil__pnil decode_decodeSetNReg__pnil
  simp only [dropDst_ite, dropDst_mk]

tolerant
/-- `decodeSetCReg`, likewise -/
theorem dstnil_decodeSetCReg (src : List UInt8) (opcode : UInt8) (d : R) :
    decode_decodeSetCReg__dstnil__pnil src opcode = dropDst (decode_decodeSetCReg__pnil I d src opcode) := by
  unfold decode_decodeSetCReg__dstnil__pnil decode_decodeSetCReg__pnil
  simp only [dropDst_ite, dropDst_mk]
  repeat' split
  all_goals rfl

tolerant
/-- `decodeStyling`, likewise -/
theorem dstnil_decodeStyling (src : List UInt8) (d : R) :
    decode_decodeStyling__dstnil__pnil src = dropDst (decode_decodeStyling__pnil I d src) := by
  unfold decode_decodeStyling__dstnil__pnil decode_decodeStyling__pnil
  simp only [dropDst_ite, dropDst_mk, dstnil_decodeSetLOD I _ d, dstnil_decodeStartPath I _ _ d,
    dstnil_decodeSetNReg I _ _ d, dstnil_decodeSetCReg I _ _ d]
  simp only [dropDst]

/-! ## `decode` -/

/-- forget the Destination in the result of `decode` -/
def dropDst4 {R : Type} (r : Go.Err × R × ivg_ViewBox × Vector image_color_RGBA 64) :
    Go.Err × ivg_ViewBox × Vector image_color_RGBA 64 := (r.1, r.2.2.1, r.2.2.2)

tolerant
theorem dropDst4_ite {R : Type} (c : Prop) [Decidable c] (a b : Go.Err × R × ivg_ViewBox × Vector image_color_RGBA 64) :
    dropDst4 (if c then a else b) = if c then dropDst4 a else dropDst4 b := by
  split <;> rfl

tolerant
theorem dropDst4_mk {R : Type} (a : Go.Err) (d : R) (b : ivg_ViewBox) (c : Vector image_color_RGBA 64) :
    dropDst4 (a, d, b, c) = (a, b, c) := rfl

tolerant
theorem dropDst4_panicked {R : Type} [Inhabited R] :
    dropDst4 (Go.panicked (default : Go.Err × R × ivg_ViewBox × Vector image_color_RGBA 64)) = Go.panicked default := rfl

tolerant
/-- the mode loop of `decode`, without and with a Destination -/
theorem dstnil_decode_modeLoop (vb : ivg_ViewBox) (pal : Vector image_color_RGBA 64) :
    ∀ (fuel : Nat) (src : List UInt8) (mf : Go.FnRef) (d : R),
    decode_decode__dstnil__pnil__optsnil.loop11_33.loop14_44.loop28_49 vb pal fuel src mf
      = dropDst4 (decode_decode__pnil__optsnil.loop11_33.loop14_44.loop28_49 I vb pal fuel src mf d) := by
  intro fuel
  induction fuel with
  | zero => intro src mf d; rfl
  | succ f ih =>
    intro src mf d
    rw [decode_decode__dstnil__pnil__optsnil.loop11_33.loop14_44.loop28_49,
      decode_decode__pnil__optsnil.loop11_33.loop14_44.loop28_49]
    simp only [dropDst4_ite, dropDst4_mk, dstnil_decodeDrawing I _ _ d, dstnil_decodeSetLOD I _ d,
      dstnil_decodeStyling I _ d]
    simp only [dropDst, ← ih, dropDst4_panicked] <;> rfl

tolerant
/-- the options loop of `decode` and what follows it, without and with a Destination -/
theorem dstnil_decode_optsLoop (mo : Bool) (src : List UInt8) (vb : ivg_ViewBox) (z : Int) :
    ∀ (fuel : Nat) (i : Int) (pal : Vector image_color_RGBA 64) (d : R),
    decode_decode__dstnil__pnil__optsnil.loop11_33.loop14_44 mo src vb z fuel i pal
      = dropDst4 (decode_decode__pnil__optsnil.loop11_33.loop14_44 I mo src vb z fuel i pal d) := by
  intro fuel
  cases fuel with
  | zero => intro i pal d; rfl
  | succ f =>
    intro i pal d
    rw [decode_decode__dstnil__pnil__optsnil.loop11_33.loop14_44,
      decode_decode__pnil__optsnil.loop11_33.loop14_44]
    simp +decide only [if_false, dropDst4_ite, dropDst4_mk, ← dstnil_decode_modeLoop I, dropDst4_panicked] <;> rfl

tolerant
/-- the metadata-chunk loop of `decode` and what follows it, without and with a Destination -/
theorem dstnil_decode_chunkLoop (mo : Bool) :
    ∀ (fuel : Nat) (src : List UInt8) (n : UInt32) (vb : ivg_ViewBox) (pal : Vector image_color_RGBA 64) (mm : UInt32) (d : R),
    decode_decode__dstnil__pnil__optsnil.loop11_33 mo fuel src n vb pal mm
      = dropDst4 (decode_decode__pnil__optsnil.loop11_33 I mo fuel src n vb pal mm d) := by
  intro fuel
  induction fuel with
  | zero => intro src n vb pal mm d; rfl
  | succ f ih =>
    intro src n vb pal mm d
    rw [decode_decode__dstnil__pnil__optsnil.loop11_33, decode_decode__pnil__optsnil.loop11_33]
    simp only [dropDst4_ite, dropDst4_mk, ← ih, ← dstnil_decode_optsLoop I] <;> rfl

tolerant
/-- `decode(nil, nil, m, metadataOnly, src)` = `decode(dst, nil, m, metadataOnly, src)` with the Destination dropped: the
    error AND the metadata written to `*m`, for every Destination object, all inputs and all fuels -/
theorem dstnil_decode (fuel : Nat) (vb : ivg_ViewBox) (pal : Vector image_color_RGBA 64) (mo : Bool) (src : List UInt8)
    (d : R) :
    decode_decode__dstnil__pnil__optsnil fuel vb pal mo src
      = dropDst4 (decode_decode__pnil__optsnil I fuel d vb pal mo src) := by
  unfold decode_decode__dstnil__pnil__optsnil decode_decode__pnil__optsnil
  simp only [dropDst4_ite, dropDst4_mk, ← dstnil_decode_chunkLoop I]

tolerant
/-- THE VERDICT DOES NOT DEPEND ON WHO LISTENS: the error returned by `decode` is the same for a nil Destination and for
    any Destination object in any state. -/
theorem decode_verdict_independent (fuel : Nat) (vb : ivg_ViewBox) (pal : Vector image_color_RGBA 64) (mo : Bool)
    (src : List UInt8) (d : R) :
    (decode_decode__dstnil__pnil__optsnil fuel vb pal mo src).1
      = (decode_decode__pnil__optsnil I fuel d vb pal mo src).1 :=
  congrArg Prod.fst (dstnil_decode I fuel vb pal mo src d)

end

tolerant
/-- the error of the nil-Destination `decode` (what `DecodeViewBox` runs with `metadataOnly = true`) is the model's,
    for `fuel ≥ len src + 64` -/
theorem decode_dstnil_code_tie (fuel : Nat) (mo : Bool) (m0 : Metadata) (src : Bytes) (hf : src.length + 64 ≤ fuel) :
    (decode_decode__dstnil__pnil__optsnil fuel (vbOf m0.viewBox) (palOf m0.palette) mo src).1
      = (Dec.decodeCore mo m0 [] src).1.err.map errText := by
  rw [decode_verdict_independent logOps fuel _ _ mo src ([] : CallLog)]
  exact (decode_code_tie fuel mo m0 src [] hf).1

end Ivg.Gen.Tie
