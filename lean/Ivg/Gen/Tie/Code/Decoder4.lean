import Ivg.Gen.Tie.Code.Decoder3
/-!
# Tie: `decodeDrawing` (decode/decode.go) as TRANSLATED from the Go source, run on the call log = the model's
`Dec.decodeDrawing`, for ALL non-empty inputs `src`, logs `l` and `fuel ≥ 39`

* opcodes `< 0xe0` (repeated operations): the dispatch on `opcode >> 4` selects one of the loops `loop34_1 … loop34_14`
  (`decoder_drawHi`: all 224 opcodes by evaluation), whose iterations are tied in `Decoder2.lean`/`Decoder3.lean`;
  `nReps ≤ 32` and each iteration hands its remaining fuel to `decodeCoordinates` (≤ 6 coordinates), hence `32 + 7`;
  the 15th loop (no `case` of `switch opcode >> 4` matched, `op == ""`) is not reachable;
* `0xe1` (closePath; end path), `0xe2`/`0xe3` (closePath; moveTo), `0xe6 … 0xe9` (H/h/V/v);
* everything else: `errUnsupportedDrawingOpcode`.

`src ≠ []` is guaranteed by `decode`'s loop (`for len(src) > 0`); see `decodeDrawing_empty` below.
-/
namespace Ivg.Gen.Tie
open Ivg Ivg.Num Ivg.Gen Ivg.Gen.Code Ivg.Dec
attribute [local instance] decAuxForallUInt8

/-! ## the repeated operations -/

set_option maxRecDepth 100000 in
tolerant
/-- `opcode >> 4` of a repeated-operation opcode is one of the 14 `case`s of the `switch` -/
theorem decoder_drawHi : ∀ opcode : UInt8, opcode < 0xe0 →
    (opcode >>> 4 = 0 ∨ opcode >>> 4 = 1 ∨ opcode >>> 4 = 2 ∨ opcode >>> 4 = 3 ∨ opcode >>> 4 = 4 ∨
     opcode >>> 4 = 5 ∨ opcode >>> 4 = 6 ∨ opcode >>> 4 = 7 ∨ opcode >>> 4 = 8 ∨ opcode >>> 4 = 9 ∨
     opcode >>> 4 = 10 ∨ opcode >>> 4 = 11 ∨ opcode >>> 4 = 12 ∨ opcode >>> 4 = 13) := by decide +kernel

tolerant
theorem decoder_and_le (x m : UInt8) : (x &&& m).toNat ≤ m.toNat := by
  rw [UInt8.toNat_and]; exact Nat.and_le_right

tolerant
/-- the header line in front of the repetitions does not change what is returned -/
theorem decoder_stepResOf_reps (l : CallLog) (l0 : Line) (r : List Item × Except DecErr Bytes) :
    stepResOf l (match r with
      | (its, .error e) => (.line l0 :: its, .error e)
      | (its, .ok rest') => (.line l0 :: its, .ok (.drawing, rest'))) = decoderRepsResOf l r := by
  rcases r with ⟨its, _ | _⟩ <;> simp [stepResOf, decoderRepsResOf]

tolerant
/-- a repetition loop started as `decodeDrawing` starts it (`i = 0`, `nReps = 1 + int(x)`, `x ≤ 31`) -/
theorem decoder_drawing_case {L : Int → Nat → List UInt8 → Int → Vector F32 6 → CallLog → DecoderStepRes} {op : RepOp}
    (hstep : ∀ N, DecoderRepStep (L N) N op) (l : CallLog) (fuel : Nat) (rest : Bytes) (x : UInt8) (hx : x.toNat ≤ 31)
    (hf : 39 ≤ fuel) (m : Vector F32 6) :
    L ((1 : Int) + Go.cvt_u8_int x) fuel rest 0 m l
      = decoderRepsResOf l (Dec.decodeReps op (1 + x.toNat) true rest) := by
  apply decoder_reps_of_step (hstep _)
  · simp [Go.cvt_u8_int]
  · omega

set_option linter.unusedSimpArgs false in
tolerant
/-- `decodeDrawing` on an opcode `< 0xe0` -/
theorem decodeDrawing_reps (l : CallLog) (fuel : Nat) (opcode : UInt8) (rest : Bytes)
    (hlt : opcode < 0xe0) (hf : 39 ≤ fuel) :
    decode_decodeDrawing__pnil logOps fuel l (opcode :: rest) = stepResOf l (Dec.decodeDrawing (opcode :: rest)) := by
  have h31 : (opcode &&& 31).toNat ≤ 31 := decoder_and_le opcode 31
  have h15 : (opcode &&& 15).toNat ≤ 31 := Nat.le_trans (decoder_and_le opcode 15) (by decide)
  unfold decode_decodeDrawing__pnil
  rcases decoder_drawHi opcode hlt with h | h | h | h | h | h | h | h | h | h | h | h | h | h
  · simp +decide only [decAux_sliceGet_zero, hlt, h, decide_true, if_true, if_false, decoder_slice_tail]
    rw [decoder_drawing_case decoder_drawing_loop1_step l fuel rest _ h31 hf]
    simp +decide only [Dec.decodeDrawing, hlt, h, if_true, if_false, UInt8.reduceToNat, repOpOf]
    exact (decoder_stepResOf_reps l _ _).symm
  · simp +decide only [decAux_sliceGet_zero, hlt, h, decide_true, if_true, if_false, decoder_slice_tail]
    rw [decoder_drawing_case decoder_drawing_loop2_step l fuel rest _ h31 hf]
    simp +decide only [Dec.decodeDrawing, hlt, h, if_true, if_false, UInt8.reduceToNat, repOpOf]
    exact (decoder_stepResOf_reps l _ _).symm
  · simp +decide only [decAux_sliceGet_zero, hlt, h, decide_true, if_true, if_false, decoder_slice_tail]
    rw [decoder_drawing_case decoder_drawing_loop3_step l fuel rest _ h31 hf]
    simp +decide only [Dec.decodeDrawing, hlt, h, if_true, if_false, UInt8.reduceToNat, repOpOf]
    exact (decoder_stepResOf_reps l _ _).symm
  · simp +decide only [decAux_sliceGet_zero, hlt, h, decide_true, if_true, if_false, decoder_slice_tail]
    rw [decoder_drawing_case decoder_drawing_loop4_step l fuel rest _ h31 hf]
    simp +decide only [Dec.decodeDrawing, hlt, h, if_true, if_false, UInt8.reduceToNat, repOpOf]
    exact (decoder_stepResOf_reps l _ _).symm
  · simp +decide only [decAux_sliceGet_zero, hlt, h, decide_true, if_true, if_false, decoder_slice_tail]
    rw [decoder_drawing_case decoder_drawing_loop5_step l fuel rest _ h15 hf]
    simp +decide only [Dec.decodeDrawing, hlt, h, if_true, if_false, UInt8.reduceToNat, repOpOf]
    exact (decoder_stepResOf_reps l _ _).symm
  · simp +decide only [decAux_sliceGet_zero, hlt, h, decide_true, if_true, if_false, decoder_slice_tail]
    rw [decoder_drawing_case decoder_drawing_loop6_step l fuel rest _ h15 hf]
    simp +decide only [Dec.decodeDrawing, hlt, h, if_true, if_false, UInt8.reduceToNat, repOpOf]
    exact (decoder_stepResOf_reps l _ _).symm
  · simp +decide only [decAux_sliceGet_zero, hlt, h, decide_true, if_true, if_false, decoder_slice_tail]
    rw [decoder_drawing_case decoder_drawing_loop7_step l fuel rest _ h15 hf]
    simp +decide only [Dec.decodeDrawing, hlt, h, if_true, if_false, UInt8.reduceToNat, repOpOf]
    exact (decoder_stepResOf_reps l _ _).symm
  · simp +decide only [decAux_sliceGet_zero, hlt, h, decide_true, if_true, if_false, decoder_slice_tail]
    rw [decoder_drawing_case decoder_drawing_loop8_step l fuel rest _ h15 hf]
    simp +decide only [Dec.decodeDrawing, hlt, h, if_true, if_false, UInt8.reduceToNat, repOpOf]
    exact (decoder_stepResOf_reps l _ _).symm
  · simp +decide only [decAux_sliceGet_zero, hlt, h, decide_true, if_true, if_false, decoder_slice_tail]
    rw [decoder_drawing_case decoder_drawing_loop9_step l fuel rest _ h15 hf]
    simp +decide only [Dec.decodeDrawing, hlt, h, if_true, if_false, UInt8.reduceToNat, repOpOf]
    exact (decoder_stepResOf_reps l _ _).symm
  · simp +decide only [decAux_sliceGet_zero, hlt, h, decide_true, if_true, if_false, decoder_slice_tail]
    rw [decoder_drawing_case decoder_drawing_loop10_step l fuel rest _ h15 hf]
    simp +decide only [Dec.decodeDrawing, hlt, h, if_true, if_false, UInt8.reduceToNat, repOpOf]
    exact (decoder_stepResOf_reps l _ _).symm
  · simp +decide only [decAux_sliceGet_zero, hlt, h, decide_true, if_true, if_false, decoder_slice_tail]
    rw [decoder_drawing_case decoder_drawing_loop11_step l fuel rest _ h15 hf]
    simp +decide only [Dec.decodeDrawing, hlt, h, if_true, if_false, UInt8.reduceToNat, repOpOf]
    exact (decoder_stepResOf_reps l _ _).symm
  · simp +decide only [decAux_sliceGet_zero, hlt, h, decide_true, if_true, if_false, decoder_slice_tail]
    rw [decoder_drawing_case decoder_drawing_loop12_step l fuel rest _ h15 hf]
    simp +decide only [Dec.decodeDrawing, hlt, h, if_true, if_false, UInt8.reduceToNat, repOpOf]
    exact (decoder_stepResOf_reps l _ _).symm
  · simp +decide only [decAux_sliceGet_zero, hlt, h, decide_true, if_true, if_false, decoder_slice_tail]
    rw [decoder_drawing_case decoder_drawing_loop13_step l fuel rest _ h15 hf]
    simp +decide only [Dec.decodeDrawing, hlt, h, if_true, if_false, UInt8.reduceToNat, repOpOf]
    exact (decoder_stepResOf_reps l _ _).symm
  · simp +decide only [decAux_sliceGet_zero, hlt, h, decide_true, if_true, if_false, decoder_slice_tail]
    rw [decoder_drawing_case decoder_drawing_loop14_step l fuel rest _ h15 hf]
    simp +decide only [Dec.decodeDrawing, hlt, h, if_true, if_false, UInt8.reduceToNat, repOpOf]
    exact (decoder_stepResOf_reps l _ _).symm
/-! ## the single operations -/

tolerant
/-- a drawing opcode with two coordinate operands and no repetition (`0xe2`, `0xe3`) -/
theorem decoder_drawing_single2 (l : CallLog) (fuel : Nat) (rest : Bytes) (hf : 3 ≤ fuel) (opcode : UInt8) (kind : LineKind)
    (mk : F32 → F32 → Call F32) (deliver : CallLog → F32 → F32 → CallLog)
    (hd : ∀ l x y, deliver l x y = l ++ [mk x y]) :
    (let t := decode_decodeCoordinates__pnil fuel (Go.slice (Vector.replicate 6 (⟨0⟩ : F32)).toList 0 2) rest
     if t.2.1.isSome then ((Go.fnRef "", [], t.2.1, l) : DecoderStepRes)
     else (Go.fnRef "decode_decodeDrawing", t.1, none,
       deliver l (Go.arrGet (Go.arrWriteBack (Vector.replicate 6 (⟨0⟩ : F32)) 0 t.2.2) 0)
         (Go.arrGet (Go.arrWriteBack (Vector.replicate 6 (⟨0⟩ : F32)) 0 t.2.2) 1)))
      = stepResOf l (Dec.single2 opcode kind mk rest) := by
  have e : (Go.slice (Vector.replicate 6 (⟨0⟩ : F32)).toList 0 2).length = 2 := by simp [Go.slice]
  have key := decodeCoordinates_code_tie fuel (Go.slice (Vector.replicate 6 (⟨0⟩ : F32)).toList 0 2) rest (by omega)
  simp only [key, e, Dec.single2]
  have hcalls := (decoder_decodeCoordinates_spec 2 rest).1
  rcases hc : Dec.decodeCoordinates 2 rest with ⟨its, _ | ⟨xs, rest'⟩⟩
  · rw [hc] at hcalls
    simp only at hcalls
    simp [coordsResOf, stepResOf, hcalls]
  · rw [hc] at hcalls
    simp only at hcalls
    have hl := (decoder_decodeCoordinates_spec 2 rest).2 xs rest' (by rw [hc])
    obtain ⟨x, y, rfl⟩ := decoder_list_len2 xs hl
    simp only [coordsResOf, Option.isSome_none, Bool.false_eq_true, if_false, stepResOf, callsOf_cons_line,
      callsOf_append, hcalls, List.nil_append, callsOf_cons_call, callsOf_nil, hd]
    rfl

tolerant
/-- a drawing opcode with one coordinate operand (`0xe6 … 0xe9`) -/
theorem decoder_drawing_single1 (l : CallLog) (fuel : Nat) (rest : Bytes) (hf : 2 ≤ fuel) (opcode : UInt8) (kind : LineKind)
    (mk : F32 → Call F32) (deliver : CallLog → F32 → CallLog)
    (hd : ∀ l x, deliver l x = l ++ [mk x]) :
    (let t := decode_decodeCoordinates__pnil fuel (Go.slice (Vector.replicate 6 (⟨0⟩ : F32)).toList 0 1) rest
     if t.2.1.isSome then ((Go.fnRef "", [], t.2.1, l) : DecoderStepRes)
     else (Go.fnRef "decode_decodeDrawing", t.1, none,
       deliver l (Go.arrGet (Go.arrWriteBack (Vector.replicate 6 (⟨0⟩ : F32)) 0 t.2.2) 0)))
      = stepResOf l (Dec.single1 opcode kind mk rest) := by
  have e : (Go.slice (Vector.replicate 6 (⟨0⟩ : F32)).toList 0 1).length = 1 := by simp [Go.slice]
  have key := decodeCoordinates_code_tie fuel (Go.slice (Vector.replicate 6 (⟨0⟩ : F32)).toList 0 1) rest (by omega)
  simp only [key, e, Dec.single1]
  have hcalls := (decoder_decodeCoordinates_spec 1 rest).1
  rcases hc : Dec.decodeCoordinates 1 rest with ⟨its, _ | ⟨xs, rest'⟩⟩
  · rw [hc] at hcalls
    simp only at hcalls
    simp [coordsResOf, stepResOf, hcalls]
  · rw [hc] at hcalls
    simp only at hcalls
    have hl := (decoder_decodeCoordinates_spec 1 rest).2 xs rest' (by rw [hc])
    obtain ⟨x, rfl⟩ := decoder_list_len1 xs hl
    simp only [coordsResOf, Option.isSome_none, Bool.false_eq_true, if_false, stepResOf, callsOf_cons_line,
      callsOf_append, hcalls, List.nil_append, callsOf_cons_call, callsOf_nil, hd]
    rfl

tolerant
/-- `decodeDrawing` on an opcode `≥ 0xe0` -/
theorem decodeDrawing_singles (l : CallLog) (fuel : Nat) (opcode : UInt8) (rest : Bytes)
    (hge : ¬ opcode < 0xe0) (hf : 3 ≤ fuel) :
    decode_decodeDrawing__pnil logOps fuel l (opcode :: rest) = stepResOf l (Dec.decodeDrawing (opcode :: rest)) := by
  unfold decode_decodeDrawing__pnil
  simp only [decAux_sliceGet_zero, hge, decide_false, Bool.false_eq_true, if_false, decoder_slice_tail]
  by_cases c1 : opcode = 0xe1
  · subst c1
    simp +decide [Dec.decodeDrawing, stepResOf, logOps, modeName]
  by_cases c2 : opcode = 0xe2
  · subst c2
    simp +decide only [Dec.decodeDrawing, if_true, if_false]
    exact decoder_drawing_single2 l fuel rest hf _ _ _ logOps.ClosePathAbsMoveTo (fun _ _ _ => rfl)
  by_cases c3 : opcode = 0xe3
  · subst c3
    simp +decide only [Dec.decodeDrawing, if_true, if_false]
    exact decoder_drawing_single2 l fuel rest hf _ _ _ logOps.ClosePathRelMoveTo (fun _ _ _ => rfl)
  by_cases c6 : opcode = 0xe6
  · subst c6
    simp +decide only [Dec.decodeDrawing, if_true, if_false]
    exact decoder_drawing_single1 l fuel rest (by omega) _ _ _ logOps.AbsHLineTo (fun _ _ => rfl)
  by_cases c7 : opcode = 0xe7
  · subst c7
    simp +decide only [Dec.decodeDrawing, if_true, if_false]
    exact decoder_drawing_single1 l fuel rest (by omega) _ _ _ logOps.RelHLineTo (fun _ _ => rfl)
  by_cases c8 : opcode = 0xe8
  · subst c8
    simp +decide only [Dec.decodeDrawing, if_true, if_false]
    exact decoder_drawing_single1 l fuel rest (by omega) _ _ _ logOps.AbsVLineTo (fun _ _ => rfl)
  by_cases c9 : opcode = 0xe9
  · subst c9
    simp +decide only [Dec.decodeDrawing, if_true, if_false]
    exact decoder_drawing_single1 l fuel rest (by omega) _ _ _ logOps.RelVLineTo (fun _ _ => rfl)
  simp [Dec.decodeDrawing, hge, c1, c2, c3, c6, c7, c8, c9, stepResOf, errText]
/-! ## `decodeDrawing` -/

tolerant
/-- `decodeDrawing(dst, nil, src)` (decode/decode.go) = `Dec.decodeDrawing src` (one instruction with all its
    repetitions), for every non-empty `src`, log `l` and `fuel ≥ 39`: next mode, rest of the input, error and
    delivered calls. -/
theorem decodeDrawing_code_tie (l : CallLog) (fuel : Nat) (src : Bytes) (hs : src ≠ []) (hf : 39 ≤ fuel) :
    decode_decodeDrawing__pnil logOps fuel l src = stepResOf l (Dec.decodeDrawing src) := by
  obtain ⟨opcode, rest, rfl⟩ := List.exists_cons_of_ne_nil hs
  by_cases h : opcode < 0xe0
  · exact decodeDrawing_reps l fuel opcode rest h hf
  · exact decodeDrawing_singles l fuel opcode rest h (by omega)

/-- FINDING (documented, not a defect): on the EMPTY buffer (excluded by `decode`'s loop condition `len(src) > 0`;
    `src[0]` panics in Go) the translation reads the default byte 0 (`L`, one repetition) and fails with
    `errInvalidNumber`, whereas the model reports `unsupportedDrawingOpcode` -/
example : decode_decodeDrawing__pnil logOps 39 [] [] = (Go.fnRef "", [], some "invalid number", []) ∧
    Dec.decodeDrawing [] = ([], .error .unsupportedDrawingOpcode) := ⟨by decide +kernel, rfl⟩

/-- concrete instance: `L` with two repetitions, then the rest `0xe1` is left for the next call -/
example : decode_decodeDrawing__pnil logOps 39 [] [0x01, 0x80, 0x82, 0x84, 0x86, 0xe1]
    = (Go.fnRef "decode_decodeDrawing", [0xe1], none,
        [.d2 .L (F32.ofInt 0) (F32.ofInt 1), .d2 .L (F32.ofInt 2) (F32.ofInt 3)]) := by decide +kernel

end Ivg.Gen.Tie
