import Ivg.Gen.Tie.Code.Base
import Ivg.Gen.Code.P_ivg
import Ivg.Model.ViewBox
/-!
# Tie: `ViewBox.Size / AspectMeet / AspectSlice` as TRANSLATED from ivg.go = the model's functions at float32,
for all inputs (C12).
-/
namespace Ivg.Gen.Tie
open Ivg Ivg.Num Ivg.Gen.Code

/-- the Go struct value of a model viewBox -/
def vbOf (v : ViewBox F32) : ivg_ViewBox := ⟨v.minX, v.minY, v.maxX, v.maxY⟩

tolerant
theorem size_code_tie (v : ViewBox F32) : ivg_ViewBox_Size (vbOf v) = v.size := rfl

tolerant
theorem aspectMeet_code_tie (v : ViewBox F32) (dx dy ax ay : F32) :
    ivg_ViewBox_AspectMeet (vbOf v) dx dy ax ay = v.aspectMeet dx dy ax ay := by
  simp only [ivg_ViewBox_AspectMeet, ViewBox.aspectMeet, size_code_tie, ViewBox.size, f32_lt_iff]
  split <;> simp [*]

tolerant
theorem aspectSlice_code_tie (v : ViewBox F32) (dx dy ax ay : F32) :
    ivg_ViewBox_AspectSlice (vbOf v) dx dy ax ay = v.aspectSlice dx dy ax ay := by
  simp only [ivg_ViewBox_AspectSlice, ViewBox.aspectSlice, size_code_tie, ViewBox.size, f32_lt_iff, f32_ofInt_one]
  split <;> simp [*]

end Ivg.Gen.Tie
