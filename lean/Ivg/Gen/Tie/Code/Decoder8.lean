import Ivg.Gen.Tie.Code.Decoder7
import Ivg.Lemmas.Decoder2
/-!
# Tie: the TOP LEVEL of the decoder as TRANSLATED from decode/decode.go — `decode` (printer nil, no options),
`decode.Decode(dst, src)` and `decode.DecodeViewBox(src)` — = the model's `Dec.decodeCore`, `Dec.decode [] src`,
`Dec.decodeViewBox src`, for ALL inputs

Built on the instruction-level ties (`decodeStyling_code_tie`, `decodeDrawing_code_tie`, `Decoder.lean … Decoder4.lean`),
`decodeMetadataChunk_code_tie` (`Decoder5.lean`) and the model's fuel lemmas (`Ivg/Lemmas/Decoder.lean`, `Metadata.lean`:
every instruction / accepted chunk consumes at least one byte, so the model's loops never run out of their fuel
`len src + 1`).  The generated loops get ONE `fuel` that is handed down: `fuel ≥ len(src) + 64` suffices
(64 palette colours + 4 for the loop entries; 39 for a drawing instruction; the 5 bytes of magic and chunk count are
not part of the instruction stream).

This supersedes the hand-written drivers `runModes`/`runChunks`/`decodeDriver` of `Decoder6.lean`/`Decoder7.lean`
(kept: they tie the same model functions with the model's own loop bounds).
-/
namespace Ivg.Gen.Tie
open Ivg Ivg.Num Ivg.Gen Ivg.Gen.Code Ivg.Dec

/-- the result type of the generated `decode` on the call log: error, log, `m.ViewBox`, `m.Palette` -/
abbrev DecoderDecodeRes := Go.Err × CallLog × ivg_ViewBox × Vector image_color_RGBA 64

tolerant
/-- The MODE LOOP of the generated `decode` (`for len(src) > 0 { mf, src, err = mf(dst, p, src) … }`, the function value
    carried as its generated name and called by dispatch) from mode `m` = the model's `DecL.run m src`
    (= `Dec.loop (len src + 1) m src`), for `fuel ≥ len src + 40`: every instruction consumes a byte
    (`DecL.stepDec_rest_lt`) and `decodeDrawing` needs 39. -/
theorem decode_modeLoop (vb : ivg_ViewBox) (pal : Vector image_color_RGBA 64) :
    ∀ (fuel : Nat) (m : DMode) (src : Bytes) (l : CallLog), src.length + 40 ≤ fuel →
    decode_decode__pnil__optsnil.loop11_33.loop14_44.loop28_49 logOps vb pal fuel src (modeName m) l
      = ((DecL.run m src).2.map errText, l ++ callsOf (DecL.run m src).1, vb, pal) := by
  intro fuel
  induction fuel with
  | zero => intro m src l h; omega
  | succ f ih =>
    intro m src l hf
    rw [decode_decode__pnil__optsnil.loop11_33.loop14_44.loop28_49]
    match src with
    | [] => simp
    | x :: rest =>
      have hne : (x :: rest) ≠ [] := by simp
      have hlen : (1 : Int) ≤ Int.ofNat (x :: rest).length := by simp; omega
      simp only [hlen, decide_true, if_true]
      rw [DecL.run_step hne]
      cases m with
      | styling =>
        have e1 : ¬ (Go.fnRef "decode_decodeStyling" = Go.fnRef "decode_decodeDrawing") := by decide
        have e2 : ¬ (Go.fnRef "decode_decodeStyling" = Go.fnRef "decode_decodeSetLOD") := by decide
        have e3 : modeName .styling = Go.fnRef "decode_decodeStyling" := rfl
        simp only [e1, e2, e3, if_false, if_true, decodeStyling_code_tie l _ hne, Dec.stepDec]
        rcases hs : Dec.decodeStyling (x :: rest) with ⟨its, e | ⟨m', rest'⟩⟩
        · simp [stepResOf]
        · have hlt := DecL.stepDec_rest_lt (m := .styling) (src := x :: rest) (show Dec.stepDec .styling (x :: rest) = _ from hs)
          simp only [List.length_cons] at hlt hf
          simp only [stepResOf, Option.isSome_none, Bool.false_eq_true, if_false]
          rw [ih m' rest' _ (by omega)]
          simp
      | drawing =>
        have e1 : modeName .drawing = Go.fnRef "decode_decodeDrawing" := rfl
        simp only [List.length_cons] at hf
        simp only [e1, if_true, decodeDrawing_code_tie l f _ hne (by omega), Dec.stepDec]
        rcases hs : Dec.decodeDrawing (x :: rest) with ⟨its, e | ⟨m', rest'⟩⟩
        · simp [stepResOf]
        · have hlt := DecL.stepDec_rest_lt (m := .drawing) (src := x :: rest) (show Dec.stepDec .drawing (x :: rest) = _ from hs)
          simp only [List.length_cons] at hlt
          simp only [stepResOf, Option.isSome_none, Bool.false_eq_true, if_false]
          rw [ih m' rest' _ (by omega)]
          simp

/-- what `decode` does after the metadata: nothing more if `metadataOnly`, else `dst.Reset` and the instructions -/
def decoderAfterMeta (metadataOnly : Bool) (m : Metadata) (src3 : Bytes) (l : CallLog) : DecoderDecodeRes :=
  if metadataOnly then (none, l, vbOf m.viewBox, palOf m.palette)
  else ((DecL.run .styling src3).2.map errText,
    l ++ .reset m.viewBox m.palette :: callsOf (DecL.run .styling src3).1, vbOf m.viewBox, palOf m.palette)

tolerant
/-- the (empty) options loop of the generated `decode`, then `metadataOnly` / `dst.Reset` / the mode loop -/
theorem decode_optsLoop (mo : Bool) (m : Metadata) (src3 : Bytes) (l : CallLog) (fuel : Nat)
    (hf : src3.length + 42 ≤ fuel) :
    decode_decode__pnil__optsnil.loop11_33.loop14_44 logOps mo src3 (vbOf m.viewBox) 0 fuel (-1) (palOf m.palette) l
      = decoderAfterMeta mo m src3 l := by
  obtain ⟨f, rfl⟩ : ∃ f, fuel = f + 1 := ⟨fuel - 1, by omega⟩
  rw [decode_decode__pnil__optsnil.loop11_33.loop14_44]
  simp +decide only [if_false]
  cases mo with
  | true => simp [decoderAfterMeta]
  | false =>
    have hreset : logOps.Reset l (vbOf m.viewBox) (palOf m.palette) = l ++ [.reset m.viewBox m.palette] := by
      simp [logOps]
    have := decode_modeLoop (vbOf m.viewBox) (palOf m.palette) f .styling src3
      (logOps.Reset l (vbOf m.viewBox) (palOf m.palette)) (by omega)
    simp only [modeName, hreset] at this
    simp only [Bool.false_eq_true, if_false, hreset, this, decoderAfterMeta, List.append_assoc, List.singleton_append]

tolerant
/-- The METADATA-CHUNK LOOP of the generated `decode` with `n` chunks to go = the model's `Dec.decodeChunks`, and what
    follows it: on a chunk error the error is returned and nothing was delivered; otherwise `decoderAfterMeta`.
    At most 64 palette colours per chunk and a strictly shrinking input: `fuel ≥ len src + 68`. -/
theorem decode_chunkLoop (mo : Bool) : ∀ (n fuel : Nat) (m : Metadata) (minMID : Nat) (src2 : Bytes) (l : CallLog),
    n < 2 ^ 32 → minMID ≤ 2 → src2.length + 68 ≤ fuel →
    match (Dec.decodeChunks (src2.length + 1) n m minMID src2).2 with
    | .error e =>
      (decode_decode__pnil__optsnil.loop11_33 logOps mo fuel src2 (UInt32.ofNat n) (vbOf m.viewBox)
        (palOf m.palette) (UInt32.ofNat minMID) l).1 = some (errText e) ∧
      (decode_decode__pnil__optsnil.loop11_33 logOps mo fuel src2 (UInt32.ofNat n) (vbOf m.viewBox)
        (palOf m.palette) (UInt32.ofNat minMID) l).2.1 = l
    | .ok (m', src3) =>
      decode_decode__pnil__optsnil.loop11_33 logOps mo fuel src2 (UInt32.ofNat n) (vbOf m.viewBox)
        (palOf m.palette) (UInt32.ofNat minMID) l = decoderAfterMeta mo m' src3 l := by
  intro n
  induction n with
  | zero =>
    intro fuel m minMID src2 l _ _ hf
    obtain ⟨f, rfl⟩ : ∃ f, fuel = f + 1 := ⟨fuel - 1, by omega⟩
    rw [decode_decode__pnil__optsnil.loop11_33]
    have e0 : ¬ ((1 : UInt32) ≤ UInt32.ofNat 0) := by decide
    simp only [Dec.decodeChunks, e0, decide_false, Bool.false_eq_true, if_false]
    exact decode_optsLoop mo m src2 l f (by omega)
  | succ n ih =>
    intro fuel m minMID src2 l hn hmin hf
    obtain ⟨f, rfl⟩ : ∃ f, fuel = f + 1 := ⟨fuel - 1, by omega⟩
    rw [decode_decode__pnil__optsnil.loop11_33]
    have e1 : (1 : UInt32) ≤ UInt32.ofNat (n + 1) := by
      rw [UInt32.le_iff_toNat_le, decoder_u32_ofNat_toNat _ hn]; simp
    have e2 : UInt32.ofNat (n + 1) - 1 = UInt32.ofNat n := by
      rw [← UInt32.toNat_inj, UInt32.toNat_sub_of_le _ _ e1, decoder_u32_ofNat_toNat _ hn,
        decoder_u32_ofNat_toNat n (by omega)]
      simp
    have htie := decodeMetadataChunk_code_tie f m minMID src2 (by omega) (by omega)
    simp only [e1, e2, decide_true, if_true, Dec.decodeChunks]
    rcases hch : Dec.decodeMetadataChunk m minMID src2 with ⟨its, e | ⟨m', mm', rest⟩⟩
    · rw [hch] at htie
      simp only [DecoderChunkAgrees] at htie
      simp [htie.2]
    · rw [hch] at htie
      simp only [DecoderChunkAgrees] at htie
      obtain ⟨pre, hpre, rfl, _⟩ := DecL.decodeMetadataChunk_consumes hch
      have hpl : 0 < pre.length := List.length_pos_iff.mpr hpre
      simp only [List.length_append] at hf ⊢
      have hirr := DecL.decodeChunks_fuel_irrelevant (pre.length + rest.length) (rest.length + 1) n m' mm' rest
        (by omega) (by omega)
      have := ih f m' mm' rest l (by omega) (decoder_chunk_minMID hch) (by omega)
      simp only [htie, Option.isSome_none, Bool.false_eq_true, if_false, hirr]
      rcases hrec : Dec.decodeChunks (rest.length + 1) n m' mm' rest with ⟨its', r⟩
      rw [hrec] at this
      exact this

tolerant
theorem decoder_u8_char (x : UInt8) : UInt8.ofNat (Char.ofNat x.toNat).toNat = x := by
  have h : ∀ i : Fin 256, (Char.ofNat i.val).toNat = i.val := by decide +kernel
  have := h ⟨x.toNat, x.toNat_lt⟩
  simp only at this
  rw [this, UInt8.ofNat_toNat]

set_option linter.deprecated false in
tolerant
/-- `string(b)` is injective on byte slices -/
theorem decoder_strOfBytes_inj {a b : List UInt8} : Go.strOfBytes a = Go.strOfBytes b ↔ a = b := by
  constructor
  · intro h
    unfold Go.strOfBytes at h
    rw [show @String.mk = @String.ofList from rfl] at h
    have h2 := congrArg String.toList h
    rw [String.toList_ofList, String.toList_ofList] at h2
    have h3 := congrArg (List.map fun c : Char => UInt8.ofNat c.toNat) h2
    simpa [List.map_map, Function.comp_def, decoder_u8_char] using h3
  · intro h; rw [h]

tolerant
/-- `bytes.Equal` (bytes.go: `string(a) == string(b)`) is equality of the byte slices -/
theorem bytes_Equal_code_tie (a b : List UInt8) : bytes_Equal a b = decide (a = b) := by
  unfold bytes_Equal
  exact decide_eq_decide.2 decoder_strOfBytes_inj

tolerant
/-- `bytes.HasPrefix` (bytes.go) is `List.isPrefixOf` -/
theorem bytes_HasPrefix_code_tie (s p : List UInt8) : bytes_HasPrefix s p = p.isPrefixOf s := by
  unfold bytes_HasPrefix
  simp only [bytes_Equal_code_tie, Int.ofNat_eq_natCast, Int.ofNat_le, Go.idx_int, Int.toNat_natCast, Go.slice,
    List.drop_zero, decide_eq_true_eq]
  have hiff : (p.isPrefixOf s = true) ↔ p = s.take p.length := by
    rw [List.isPrefixOf_iff_prefix, List.prefix_iff_eq_take]
  by_cases hle : p.length ≤ s.length
  · rw [if_pos hle]
    by_cases h : s.take p.length = p
    · rw [decide_eq_true h, eq_comm, hiff]; exact h.symm
    · rw [decide_eq_false h, eq_comm, Bool.eq_false_iff, Ne, hiff]; exact fun h' => h h'.symm
  · rw [if_neg hle, eq_comm, Bool.eq_false_iff, Ne, hiff]
    intro h
    have := congrArg List.length h
    simp at this
    omega

tolerant
/-- `bytes.HasPrefix(src, ivg.MagicBytes)` is the model's magic test -/
theorem decoder_hasPrefix_magic (src : Bytes) :
    (bytes_HasPrefix src G_ivg_MagicBytes = true) ↔ src.take 4 = Enc.magic := by
  rw [bytes_HasPrefix_code_tie, decoder_magicBytes, List.isPrefixOf_iff_prefix, List.prefix_iff_eq_take]
  simp [Enc.magic, eq_comm]

tolerant
/-- `decode(dst, nil, m, metadataOnly, src)` without options (decode/decode.go), run on the call log from the
    metadata `m0` = the model's `Dec.decodeCore metadataOnly m0 [] src`, for ALL `src`, `fuel ≥ len src + 64`:
    the error, the delivered calls, and — when the metadata section is valid (`DecL.MetaOk`) — the fields of `*m`
    afterwards.  (When a metadata chunk is rejected Go leaves `*m` partially written and the model keeps `m0`:
    see `Decoder5.lean`.) -/
theorem decode_code_tie (fuel : Nat) (mo : Bool) (m0 : Metadata) (src : Bytes) (l : CallLog)
    (hf : src.length + 64 ≤ fuel) :
    (decode_decode__pnil__optsnil logOps fuel l (vbOf m0.viewBox) (palOf m0.palette) mo src).1
      = (Dec.decodeCore mo m0 [] src).1.err.map errText ∧
    (decode_decode__pnil__optsnil logOps fuel l (vbOf m0.viewBox) (palOf m0.palette) mo src).2.1
      = l ++ callsOf (Dec.decodeCore mo m0 [] src).1.items ∧
    ((∃ hdr m src3, DecL.MetaOk m0 src hdr m src3) →
      (decode_decode__pnil__optsnil logOps fuel l (vbOf m0.viewBox) (palOf m0.palette) mo src).2.2
        = (vbOf (Dec.decodeCore mo m0 [] src).2.viewBox, palOf (Dec.decodeCore mo m0 [] src).2.palette)) := by
  unfold decode_decode__pnil__optsnil Dec.decodeCore
  by_cases hm : src.take 4 = Enc.magic
  · have hp := (decoder_hasPrefix_magic src).2 hm
    simp only [hp, hm, if_true, ne_eq, not_true_eq_false, if_false, decoder_slice_drop, decodeNatural_code_tie]
    rcases hn : Dec.decodeNatural (src.drop 4) with _ | ⟨nChunks, n, src2⟩
    · refine ⟨by simp [decNatOf, errText], by simp [decNatOf], ?_⟩
      rintro ⟨hdr, m, src3, n', w, src2, its, _, h2, _⟩
      rw [hn] at h2; cases h2
    · obtain ⟨hn', hu, hl, rfl⟩ := decAux_decodeNatural_spec hn
      have n0 : ¬ ((n : Nat) : Int) = 0 := by omega
      simp only [decNatOf, n0, decide_false, Bool.false_eq_true, if_false, Go.idx_int, Int.toNat_natCast]
      have hlen : (List.drop n (List.drop 4 src)).length + 68 ≤ fuel := by
        simp only [List.length_drop] at hl ⊢; omega
      have hcalls := DecL.decodeChunks_calls ((List.drop n (List.drop 4 src)).length + 1) nChunks m0 0
        (List.drop n (List.drop 4 src))
      have hloop := decode_chunkLoop mo nChunks fuel m0 0 (List.drop n (List.drop 4 src)) l (by omega) (by omega) hlen
      have eC : UInt32.ofNat 0 = 0 := rfl
      rw [eC] at hloop
      generalize List.drop n (List.drop 4 src) = s2 at *
      rcases hc : Dec.decodeChunks (s2.length + 1) nChunks m0 0 s2 with ⟨its, e | ⟨m, src3⟩⟩
      · rw [hc] at hloop hcalls
        simp only at hloop hcalls
        refine ⟨by simp [hloop.1], by simp [hloop.2, hcalls], ?_⟩
        rintro ⟨hdr, m, src3, n', w, src2', its', _, h2, h3, _⟩
        rw [hn] at h2
        simp only [Option.some.injEq, Prod.mk.injEq] at h2
        obtain ⟨rfl, rfl, rfl⟩ := h2
        rw [hc] at h3; cases h3
      · rw [hc] at hloop hcalls
        simp only at hloop hcalls
        rw [hloop]
        cases mo <;> simp [decoderAfterMeta, DecL.run, hcalls, DecL.applyOptions_nil]
  · have hp : ¬ (bytes_HasPrefix src G_ivg_MagicBytes = true) := fun h => hm ((decoder_hasPrefix_magic src).1 h)
    simp only [hp, hm, ne_eq, not_false_eq_true, if_true]
    refine ⟨by simp [errText], by simp, ?_⟩
    rintro ⟨hdr, m, src3, n', w, src2, its, h1, _⟩
    exact absurd h1 hm

tolerant
/-- `decode.Decode(dst, src)` without options (decode/decode.go) run on the call log `l` returns the model's error (as the
    `DecodeError` text, `errText_message`) and has delivered exactly the model's calls `(Dec.decode [] src).1`,
    for ALL `src` and `fuel ≥ len src + 64`. -/
theorem decode_Decode_code_tie (fuel : Nat) (l : CallLog) (src : Bytes) (hf : src.length + 64 ≤ fuel) :
    decode_Decode__optsnil logOps fuel l src
      = ((Dec.decode [] src).2.map errText, l ++ (Dec.decode [] src).1) := by
  have h := decode_code_tie fuel false {} src l hf
  unfold decode_Decode__optsnil Dec.decode
  rw [defaultMetadata_code_tie]
  exact Prod.ext h.1 h.2.1

/-! ## `DecodeViewBox`: the `dst == nil` variant of `decode`, `metadataOnly = true` -/

tolerant
/-- the options loop of the `dst == nil` variant, `metadataOnly = true` -/
theorem decode_dstnil_optsLoop (m : Metadata) (src3 : Bytes) (fuel : Nat) (hf : 1 ≤ fuel) :
    decode_decode__dstnil__pnil__optsnil.loop11_33.loop14_44 true src3 (vbOf m.viewBox) 0 fuel (-1) (palOf m.palette)
      = (none, vbOf m.viewBox, palOf m.palette) := by
  obtain ⟨f, rfl⟩ : ∃ f, fuel = f + 1 := ⟨fuel - 1, by omega⟩
  rw [decode_decode__dstnil__pnil__optsnil.loop11_33.loop14_44]
  simp +decide only [if_true, if_false]

tolerant
/-- the metadata-chunk loop of the `dst == nil` variant of `decode`, `metadataOnly = true` = `Dec.decodeChunks` -/
theorem decode_dstnil_chunkLoop : ∀ (n fuel : Nat) (m : Metadata) (minMID : Nat) (src2 : Bytes),
    n < 2 ^ 32 → minMID ≤ 2 → src2.length + 68 ≤ fuel →
    match (Dec.decodeChunks (src2.length + 1) n m minMID src2).2 with
    | .error e =>
      (decode_decode__dstnil__pnil__optsnil.loop11_33 true fuel src2 (UInt32.ofNat n) (vbOf m.viewBox)
        (palOf m.palette) (UInt32.ofNat minMID)).1 = some (errText e)
    | .ok (m', _) =>
      decode_decode__dstnil__pnil__optsnil.loop11_33 true fuel src2 (UInt32.ofNat n) (vbOf m.viewBox)
        (palOf m.palette) (UInt32.ofNat minMID) = (none, vbOf m'.viewBox, palOf m'.palette) := by
  intro n
  induction n with
  | zero =>
    intro fuel m minMID src2 _ _ hf
    obtain ⟨f, rfl⟩ : ∃ f, fuel = f + 1 := ⟨fuel - 1, by omega⟩
    rw [decode_decode__dstnil__pnil__optsnil.loop11_33]
    have e0 : ¬ ((1 : UInt32) ≤ UInt32.ofNat 0) := by decide
    simp only [Dec.decodeChunks, e0, decide_false, Bool.false_eq_true, if_false]
    exact decode_dstnil_optsLoop m src2 f (by omega)
  | succ n ih =>
    intro fuel m minMID src2 hn hmin hf
    obtain ⟨f, rfl⟩ : ∃ f, fuel = f + 1 := ⟨fuel - 1, by omega⟩
    rw [decode_decode__dstnil__pnil__optsnil.loop11_33]
    have e1 : (1 : UInt32) ≤ UInt32.ofNat (n + 1) := by
      rw [UInt32.le_iff_toNat_le, decoder_u32_ofNat_toNat _ hn]; simp
    have e2 : UInt32.ofNat (n + 1) - 1 = UInt32.ofNat n := by
      rw [← UInt32.toNat_inj, UInt32.toNat_sub_of_le _ _ e1, decoder_u32_ofNat_toNat _ hn,
        decoder_u32_ofNat_toNat n (by omega)]
      simp
    have htie := decodeMetadataChunk_code_tie f m minMID src2 (by omega) (by omega)
    simp only [e1, e2, decide_true, if_true, Dec.decodeChunks]
    rcases hch : Dec.decodeMetadataChunk m minMID src2 with ⟨its, e | ⟨m', mm', rest⟩⟩
    · rw [hch] at htie
      simp only [DecoderChunkAgrees] at htie
      simp [htie.2]
    · rw [hch] at htie
      simp only [DecoderChunkAgrees] at htie
      obtain ⟨pre, hpre, rfl, _⟩ := DecL.decodeMetadataChunk_consumes hch
      have hpl : 0 < pre.length := List.length_pos_iff.mpr hpre
      simp only [List.length_append] at hf ⊢
      have hirr := DecL.decodeChunks_fuel_irrelevant (pre.length + rest.length) (rest.length + 1) n m' mm' rest
        (by omega) (by omega)
      have := ih f m' mm' rest (by omega) (decoder_chunk_minMID hch) (by omega)
      simp only [htie, Option.isSome_none, Bool.false_eq_true, if_false, hirr]
      rcases hrec : Dec.decodeChunks (rest.length + 1) n m' mm' rest with ⟨its', r⟩
      rw [hrec] at this
      exact this

tolerant
/-- `decode.DecodeViewBox(src)` (decode/decode.go) = the model's `Dec.decodeViewBox src`: the error always; the view box
    when there is no error.  (With an error Go returns the partially written `m.ViewBox`, the model the default one:
    the FINDING documented in `Decoder5.lean` and the `example` below.) -/
theorem decodeViewBox_code_tie (fuel : Nat) (src : Bytes) (hf : src.length + 64 ≤ fuel) :
    (decode_DecodeViewBox fuel src).2 = (Dec.decodeViewBox src).2.map errText ∧
    ((Dec.decodeViewBox src).2 = none → (decode_DecodeViewBox fuel src).1 = vbOf (Dec.decodeViewBox src).1) := by
  unfold decode_DecodeViewBox decode_decode__dstnil__pnil__optsnil Dec.decodeViewBox Dec.decodeCore
  rw [defaultMetadata_code_tie]
  by_cases hm : src.take 4 = Enc.magic
  · have hp := (decoder_hasPrefix_magic src).2 hm
    simp only [hp, hm, if_true, ne_eq, not_true_eq_false, if_false, decoder_slice_drop, decodeNatural_code_tie]
    rcases hn : Dec.decodeNatural (src.drop 4) with _ | ⟨nChunks, n, src2⟩
    · simp [decNatOf, errText]
    · obtain ⟨hn', hu, hl, rfl⟩ := decAux_decodeNatural_spec hn
      have n0 : ¬ ((n : Nat) : Int) = 0 := by omega
      simp only [decNatOf, n0, decide_false, Bool.false_eq_true, if_false, Go.idx_int, Int.toNat_natCast]
      have hlen : (List.drop n (List.drop 4 src)).length + 68 ≤ fuel := by
        simp only [List.length_drop] at hl ⊢; omega
      have hloop := decode_dstnil_chunkLoop nChunks fuel {} 0 (List.drop n (List.drop 4 src)) (by omega) (by omega) hlen
      have eC : UInt32.ofNat 0 = 0 := rfl
      have eA : ({} : Metadata).viewBox = defaultViewBox := rfl
      have eB : ({} : Metadata).palette = defaultPalette := rfl
      rw [eC, eA, eB] at hloop
      generalize List.drop n (List.drop 4 src) = s2 at *
      rcases hc : Dec.decodeChunks (s2.length + 1) nChunks {} 0 s2 with ⟨its, e | ⟨m, src3⟩⟩
      · rw [hc] at hloop
        simp only at hloop
        simp [hloop]
      · rw [hc] at hloop
        simp only at hloop
        simp [hloop, DecL.applyOptions_nil]
  · have hp : ¬ (bytes_HasPrefix src G_ivg_MagicBytes = true) := fun h => hm ((decoder_hasPrefix_magic src).1 h)
    simp [hp, hm, errText]

/-! concrete instances -/

/-- the coordinator's example: reset, start path, two line segments, close — no error -/
example : decode_Decode__optsnil logOps 100 [] [0x89, 0x49, 0x56, 0x47, 0x00, 0xc0, 0x80, 0x80, 0x01, 0x90, 0x90, 0xa0, 0xa0, 0xe1]
    = (none, [.reset defaultViewBox defaultPalette, .startPath 0 (F32.ofInt 0) (F32.ofInt 0),
        .d2 .L (F32.ofInt 8) (F32.ofInt 8), .d2 .L (F32.ofInt 16) (F32.ofInt 16), .closeEnd]) := by
  decide +kernel

/-- FINDING (see `Decoder5.lean`): with a rejected view-box chunk `DecodeViewBox` returns the partially written view
    box next to the error, the model the default view box -/
example : decode_DecodeViewBox 100 [0x89, 0x49, 0x56, 0x47, 0x02, 0x0a, 0x00, 0xb0, 0x50, 0x50, 0xb0]
      = (⟨F32.ofInt 24, F32.ofInt (-24), F32.ofInt (-24), F32.ofInt 24⟩, some "invalid view box") ∧
    Dec.decodeViewBox [0x89, 0x49, 0x56, 0x47, 0x02, 0x0a, 0x00, 0xb0, 0x50, 0x50, 0xb0]
      = (defaultViewBox, some .invalidViewBox) := by
  decide +kernel

end Ivg.Gen.Tie
