import Ivg.Gen.Tie.Tolerant
import Ivg.Arith
import Ivg.Gen.GoPrelude
/-!
# Shared lemmas for the ties between the GENERATED code (`Ivg/Gen/Code`, translated from the Go source by
`/verif/translator` on every run) and the hand-written model (`Ivg/Model`)

The generated code tests floats through the Boolean functions `F32.lt/le/feq`; the model is written with `<`/`≤`
of the `Arith` class.  These lemmas normalise the model side to the Boolean form so that `split` meets the same
condition on both sides.
-/
namespace Ivg.Gen.Tie
open Ivg Ivg.Num

tolerant
theorem f32_lt_iff (a b : F32) : (a < b) ↔ (F32.lt a b = true) := Iff.rfl
tolerant
theorem f32_le_iff (a b : F32) : (a ≤ b) ↔ (F32.le a b = true) := Iff.rfl
tolerant
theorem f64_lt_iff (a b : F64) : (a < b) ↔ (F64.lt a b = true) := Iff.rfl
tolerant
theorem f64_le_iff (a b : F64) : (a ≤ b) ↔ (F64.le a b = true) := Iff.rfl

tolerant
theorem f32_ofInt_one : (Arith.ofInt 1 : F32) = ⟨0x3f800000⟩ := by decide
tolerant
theorem f32_ofInt_zero : (Arith.ofInt 0 : F32) = ⟨0⟩ := by decide
tolerant
theorem f64_ofInt_one : (Arith.ofInt 1 : F64) = ⟨0x3ff0000000000000⟩ := by decide
tolerant
theorem f64_ofInt_zero : (Arith.ofInt 0 : F64) = ⟨0⟩ := by decide
tolerant
theorem f64_ofInt_neg_one : (Arith.ofInt (-1) : F64) = ⟨0xbff0000000000000⟩ := by decide

end Ivg.Gen.Tie
