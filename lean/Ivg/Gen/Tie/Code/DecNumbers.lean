import Ivg.Gen.Tie.Code.Base
import Ivg.Gen.Tie.Code.DecAux
import Ivg.Gen.Code.P_decode
import Ivg.Model.Decoder
/-!
# Tie: the number decoders of `decode/buffer.go` and `isNaNOrInfinity` of `decode/decode.go`, as TRANSLATED from
the Go source (`Ivg/Gen/Code/P_decode.lean`) = the model's `Dec.decodeNatural / decodeReal / decodeCoordinate /
decodeZeroToOne` (`Ivg/Model/DecBuffer.lean`) and `Dec.isNaNOrInfinity` (`Ivg/Model/Decoder.lean`), for ALL inputs.

The Go methods return `(value, n)` with `n` the number of bytes consumed and `n == 0` on failure (the value is then
the zero value); the model returns `none` on failure and otherwise the value and the REMAINING bytes (for
`decodeNatural` also the width `n`).  Each tie is stated in both directions:

* `…_code_tie`  : generated function = `decResOf`/`decNatOf` of the model result
                  (`some (v, rest)` ↦ `(v, len b - len rest)`, `none` ↦ `(0, 0)`);
* `…_model_eq`  : model function = `decResTo`/`decNatTo` of the generated result
                  (`n = 0` ↦ `none`, otherwise `some (v, b.drop n)` — exactly what the Go callers do: `src = src[n:]`).

No hypothesis is needed: the decoded natural is always `< 2^30`, so `uint32`/`int32` never wrap.
-/
namespace Ivg.Gen.Tie
open Ivg Ivg.Num Ivg.Gen Ivg.Gen.Code

/-- Go's `(u uint32, n int)` for the model's `some (u, n, rest)`; `(0, 0)` for `none`. -/
def decNatOf : Option (Nat × Nat × Bytes) → UInt32 × Int
  | some (u, n, _) => (UInt32.ofNat u, (n : Int))
  | none => (0, 0)

/-- The model result for Go's `(u, n)` on input `b`: `n == 0` is the failure, else the rest is `b[n:]`. -/
def decNatTo (b : Bytes) (r : UInt32 × Int) : Option (Nat × Nat × Bytes) :=
  if r.2 = 0 then none else some (r.1.toNat, r.2.toNat, b.drop r.2.toNat)

tolerant
/-- `(buffer).decodeNatural` (decode/buffer.go) = `Dec.decodeNatural`, value as `uint32`, width as `int`,
    `(0, 0)` for `none`. -/
theorem decodeNatural_code_tie (b : Bytes) :
    decode_buffer_decodeNatural b = decNatOf (Dec.decodeNatural b) := by
  unfold decode_buffer_decodeNatural
  match b with
  | [] => simp [Dec.decodeNatural, decNatOf]
  | x :: rest =>
    simp only [decAux_sliceGet_zero, List.length_cons, Dec.decodeNatural, decAux_and1, decAux_and2, decAux_nat1,
      decide_eq_true_eq, Int.ofNat_eq_natCast]
    by_cases h1 : x.toNat % 2 = 0
    · simp only [h1, decNatOf, if_true]
      split
      · omega
      · rfl
    · by_cases h2 : x.toNat / 2 % 2 = 0
      · match rest with
        | [] => simp [h1, h2, decNatOf]
        | y :: rest' =>
          simp only [h1, h2, decNatOf, decAux_sliceGet_succ, decAux_sliceGet_zero, decAux_nat2, List.length_cons,
            if_true, if_false]
          repeat' split
          all_goals first | rfl | omega
      · match rest with
        | [] => simp [h1, h2, decNatOf]
        | [_] => simp [h1, h2, decNatOf]
        | [_, _] => simp [h1, h2, decNatOf]
        | b1 :: b2 :: b3 :: rest' =>
          simp only [h1, h2, decNatOf, decAux_sliceGet_succ, decAux_sliceGet_zero, decAux_nat4, List.length_cons,
            if_false]
          repeat' split
          all_goals first | rfl | omega

/-! concrete instances (both sides computed): a 2-byte natural, a 4-byte natural, a truncated 4-byte form -/
example : decode_buffer_decodeNatural [0x05, 0x01, 0xaa] = (0x41, 2) ∧
    Dec.decodeNatural [0x05, 0x01, 0xaa] = some (0x41, 2, [0xaa]) := by decide
example : decode_buffer_decodeNatural [0x03, 0x00, 0x80, 0x3f] = (0x0fe00000, 4) ∧
    Dec.decodeNatural [0x03, 0x00, 0x80, 0x3f] = some (0x0fe00000, 4, []) := by decide
example : decode_buffer_decodeNatural [0x03, 0x00, 0x80] = (0, 0) ∧ Dec.decodeNatural [0x03, 0x00, 0x80] = none := by
  decide

tolerant
/-- the converse reading of `decodeNatural_code_tie`: the model's `Dec.decodeNatural` is determined by the
    generated function (`n == 0` ↦ `none`, otherwise value, width and `b[n:]`). -/
theorem decodeNatural_model_eq (b : Bytes) :
    Dec.decodeNatural b = decNatTo b (decode_buffer_decodeNatural b) := by
  rw [decodeNatural_code_tie]
  cases h : Dec.decodeNatural b with
  | none => simp [decNatOf, decNatTo]
  | some r =>
    obtain ⟨u, n, rest⟩ := r
    obtain ⟨hn, hu, _, rfl⟩ := decAux_decodeNatural_spec h
    have h0 : ¬ ((n : Nat) : Int) = 0 := by omega
    have h1 : (UInt32.ofNat u).toNat = u := UInt32.toNat_ofNat_of_lt' (by simp [UInt32.size]; omega)
    simp only [decNatOf, decNatTo, h0, if_false, h1, Int.toNat_natCast]

tolerant
/-- `(buffer).decodeReal` (decode/buffer.go) = `Dec.decodeReal`; `n` = bytes consumed, `(0, 0)` for `none`. -/
theorem decodeReal_code_tie (b : Bytes) :
    decode_buffer_decodeReal b = decResOf id (⟨0⟩ : F32) b (Dec.decodeReal b) := by
  unfold decode_buffer_decodeReal Dec.decodeReal
  rw [decodeNatural_code_tie]
  cases h : Dec.decodeNatural b with
  | none => simp [decNatOf, decResOf]
  | some r =>
    obtain ⟨u, n, rest⟩ := r
    obtain ⟨hn, hu, hl, rfl⟩ := decAux_decodeNatural_spec h
    rcases hn with rfl | rfl | rfl <;>
      simp [decNatOf, decResOf, decAux_real u hu, decAux_shl2, F32.ofNatBits] <;> omega

tolerant
/-- the converse reading of `decodeReal_code_tie`: the model's `Dec.decodeReal` is determined by the generated
    function (`n == 0` ↦ `none`, otherwise the value and `b[n:]`). -/
theorem decodeReal_model_eq (b : Bytes) : Dec.decodeReal b = decResTo b (decode_buffer_decodeReal b) := by
  rw [decodeReal_code_tie, decResTo_decResOf _ _ _ _ (fun _ _ h => decAux_decodeReal_rest h)]
  cases Dec.decodeReal b <;> simp

tolerant
/-- `(buffer).decodeCoordinate` (decode/buffer.go) = `Dec.decodeCoordinate`; `n` = bytes consumed,
    `(0, 0)` for `none`. -/
theorem decodeCoordinate_code_tie (b : Bytes) :
    decode_buffer_decodeCoordinate b = decResOf id (⟨0⟩ : F32) b (Dec.decodeCoordinate b) := by
  unfold decode_buffer_decodeCoordinate Dec.decodeCoordinate
  rw [decodeNatural_code_tie]
  cases h : Dec.decodeNatural b with
  | none => simp [decNatOf, decResOf]
  | some r =>
    obtain ⟨u, n, rest⟩ := r
    obtain ⟨hn, hu, hl, rfl⟩ := decAux_decodeNatural_spec h
    rcases hn with rfl | rfl | rfl <;>
      simp [decNatOf, decResOf, decAux_coord1 u hu, decAux_coord2 u hu, decAux_f32_64, decAux_shl2,
        F32.ofNatBits] <;> omega

tolerant
/-- the converse reading of `decodeCoordinate_code_tie`: the model's `Dec.decodeCoordinate` is determined by the generated
    function (`n == 0` ↦ `none`, otherwise the value and `b[n:]`). -/
theorem decodeCoordinate_model_eq (b : Bytes) : Dec.decodeCoordinate b = decResTo b (decode_buffer_decodeCoordinate b) := by
  rw [decodeCoordinate_code_tie, decResTo_decResOf _ _ _ _ (fun _ _ h => decAux_decodeCoordinate_rest h)]
  cases Dec.decodeCoordinate b <;> simp

tolerant
/-- `(buffer).decodeZeroToOne` (decode/buffer.go) = `Dec.decodeZeroToOne`; `n` = bytes consumed,
    `(0, 0)` for `none`. -/
theorem decodeZeroToOne_code_tie (b : Bytes) :
    decode_buffer_decodeZeroToOne b = decResOf id (⟨0⟩ : F32) b (Dec.decodeZeroToOne b) := by
  unfold decode_buffer_decodeZeroToOne Dec.decodeZeroToOne
  rw [decodeNatural_code_tie]
  cases h : Dec.decodeNatural b with
  | none => simp [decNatOf, decResOf]
  | some r =>
    obtain ⟨u, n, rest⟩ := r
    obtain ⟨hn, hu, hl, rfl⟩ := decAux_decodeNatural_spec h
    rcases hn with rfl | rfl | rfl <;>
      simp [decNatOf, decResOf, decAux_real u hu, decAux_f32_120, decAux_f32_15120, decAux_shl2,
        F32.ofNatBits] <;> omega

tolerant
/-- the converse reading of `decodeZeroToOne_code_tie`: the model's `Dec.decodeZeroToOne` is determined by the generated
    function (`n == 0` ↦ `none`, otherwise the value and `b[n:]`). -/
theorem decodeZeroToOne_model_eq (b : Bytes) : Dec.decodeZeroToOne b = decResTo b (decode_buffer_decodeZeroToOne b) := by
  rw [decodeZeroToOne_code_tie, decResTo_decResOf _ _ _ _ (fun _ _ h => decAux_decodeZeroToOne_rest h)]
  cases Dec.decodeZeroToOne b <;> simp

tolerant
/-- `isNaNOrInfinity` (decode/decode.go) = `Dec.isNaNOrInfinity`: `bits&0x7f800000 == 0x7f800000` is
    "exponent field = 255". -/
theorem isNaNOrInfinity_code_tie (f : F32) : decode_isNaNOrInfinity f = Dec.isNaNOrInfinity f := by
  unfold decode_isNaNOrInfinity Dec.isNaNOrInfinity
  have key : (f.bits &&& 2139095040 = 2139095040) ↔ f.bits.toNat / 0x800000 % 256 = 255 := by
    rw [← UInt32.toNat_inj, UInt32.toNat_and]
    have := decAux_expMask f.bits.toNat
    simp only [UInt32.toNat_ofNat, Nat.reducePow, Nat.reduceMod] at *
    omega
  simp only [key]
  by_cases h : f.bits.toNat / 0x800000 % 256 = 255 <;> simp [h]

end Ivg.Gen.Tie
