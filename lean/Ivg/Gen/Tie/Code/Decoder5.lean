import Ivg.Gen.Tie.Code.Decoder
/-!
# Tie: `decodeMetadataChunk` (decode/decode.go) as TRANSLATED from the Go source (printer nil) = the model's
`Dec.decodeMetadataChunk`, for ALL inputs

The generated function takes the fields `m.ViewBox`, `m.Palette` of `*m`, the input and `*minMID`, and returns the rest
of the input, the error, and the new values of the three.  The palette loop is one local recursive function per colour
format (`loop43_1 … loop43_4`); as for `decodeDrawing` one iteration of each is tied (`DecoderPalStep`) and the induction is
done once (`decoder_pal_of_step`).

On an ERROR the model returns no metadata, and Go leaves `*m` PARTIALLY WRITTEN (the view-box fields decoded so far,
a zero for the number that failed, the palette colours decoded so far): the tie then only speaks about the returned
`(nil, err)`.  FINDING (model, not translation): `decode.DecodeViewBox` returns `m.ViewBox` ALSO when `decode` fails,
so Go returns the partially written view box next to the error, whereas the model's `Dec.decodeViewBox` returns the
default view box — see the `example`s at the end.
-/
namespace Ivg.Gen.Tie
open Ivg Ivg.Num Ivg.Gen Ivg.Gen.Code Ivg.Dec

/-- the result type of the generated `decodeMetadataChunk`: rest, error, `m.ViewBox`, `m.Palette`, `*minMID` -/
abbrev DecoderChunkRes := List UInt8 × Go.Err × ivg_ViewBox × Vector image_color_RGBA 64 × UInt32

/-- one iteration of a palette loop `L` (a `loop43_k` of the generated `decodeMetadataChunk`) with the colour decoder
    `dec`: `vb`, `want` (= lenSrcWant), `mm` (= the new `*minMID`) and `count` are the loop's free variables -/
def DecoderPalStep (L : Nat → List UInt8 → Int → Vector image_color_RGBA 64 → DecoderChunkRes)
    (dec : Bytes → Option (Color × Bytes)) (vb : ivg_ViewBox) (want : Int) (mm : UInt32) (count : Int) : Prop :=
  ∀ (f : Nat) (src : Bytes) (i : Int) (pal : Vector image_color_RGBA 64),
    L (f + 1) src i pal =
      if i < count then
        match dec src with
        | none => ([], some (errText .invalidSuggestedPalette), vb, pal, mm)
        | some (c, rest) => L f rest (i + 1) (Go.arrSet pal (Go.idx_int i) (rgbaOf c.toRGBA.1))
      else if (src.length : Int) ≠ want then ([], some (errText .inconsistentMetadataChunkLength), vb, pal, mm)
      else (src, none, vb, pal, mm)

tolerant
/-- `m.Palette[i] = rgba` = the model's `set6` for `i < 64` -/
theorem decoder_palOf_set6 (p : Palette) (i : Nat) (hi : i < 64) (c : RGBA) :
    Go.arrSet (palOf p) (Go.idx_int (i : Int)) (rgbaOf c) = palOf (p.set6 (UInt8.ofNat i) c) := by
  have e : i % 64 = i := by omega
  simp only [Go.arrSet, Go.idx_int, Int.toNat_natCast, palOf, Regs.set6]
  ext k hk
  simp [e, Vector.getElem_setIfInBounds, Vector.getElem_set]

tolerant
/-- A loop whose iterations follow `dec` computes the model's `decodePaletteColors dec` and then the final length
    check of `decodeMetadataChunk`: with `n` colours to go (`i + n = count ≤ 64`) and fuel `≥ n + 1`. -/
theorem decoder_pal_of_step {L : Nat → List UInt8 → Int → Vector image_color_RGBA 64 → DecoderChunkRes}
    {dec : Bytes → Option (Color × Bytes)} {vb : ivg_ViewBox} {want : Int} {mm : UInt32} {count : Int}
    (h : DecoderPalStep L dec vb want mm count) : ∀ (n fuel i : Nat) (src : Bytes) (p : Palette),
    (i : Int) + n = count → i + n ≤ 64 → n + 1 ≤ fuel →
    match Dec.decodePaletteColors dec n i p src with
    | none => (L fuel src i (palOf p)).1 = [] ∧ (L fuel src i (palOf p)).2.1 = some (errText .invalidSuggestedPalette)
    | some (_, p', rest) =>
      L fuel src i (palOf p) =
        if (rest.length : Int) ≠ want then ([], some (errText .inconsistentMetadataChunkLength), vb, palOf p', mm)
        else (rest, none, vb, palOf p', mm) := by
  intro n
  induction n with
  | zero =>
    intro fuel i src p hi h64 hf
    obtain ⟨f, rfl⟩ : ∃ f, fuel = f + 1 := ⟨fuel - 1, by omega⟩
    have hlt : ¬ (i : Int) < count := by omega
    simp only [Dec.decodePaletteColors, h f src i (palOf p), if_neg hlt]
  | succ n ih =>
    intro fuel i src p hi h64 hf
    obtain ⟨f, rfl⟩ : ∃ f, fuel = f + 1 := ⟨fuel - 1, by omega⟩
    have hlt : (i : Int) < count := by omega
    rw [h f src i (palOf p), if_pos hlt, Dec.decodePaletteColors]
    rcases hd : dec src with _ | ⟨c, rest⟩
    · simp
    · simp only []
      rw [decoder_palOf_set6 p i (by omega)]
      have := ih f (i + 1) rest (p.set6 (UInt8.ofNat i) c.toRGBA.1) (by omega) (by omega) (by omega)
      simp only [Int.natCast_add, Int.cast_ofNat_Int] at this
      rcases hr : Dec.decodePaletteColors dec n (i + 1) (p.set6 (UInt8.ofNat i) c.toRGBA.1) rest with _ | ⟨its, p', rest'⟩
      · rw [hr] at this; simpa using this
      · rw [hr] at this; simpa using this

tolerant
/-- one iteration of `loop43_1` (1-byte colours) -/
theorem decoder_pal_loop1_step (vb : ivg_ViewBox) (want : Int) (mm : UInt32) (count : Int) :
    DecoderPalStep (decode_decodeMetadataChunk__pnil.loop43_1 vb want mm count) Dec.decodeColor1 vb want mm count := by
  intro f src i pal
  rw [decode_decodeMetadataChunk__pnil.loop43_1]
  simp only [decode_buffer_decodeColor1_thunk, buffer_decodeColor1_code_tie, decColorResOf]
  by_cases hi : i < count
  · simp only [hi, decide_true, if_true]
    rcases hd : Dec.decodeColor1 src with _ | ⟨c, rest⟩
    · simp [decoder_decRes_none, errText]
    · obtain ⟨e1, e2, e3⟩ := decoder_decRes_some colorOf ivg_Color.zero src c rest (decAux_decodeColor1_rest hd)
      simp [e1, e2, e3, color_RGBA_code_tie]
  · simp [hi, errText]
tolerant
/-- one iteration of `loop43_2` (2-byte colours) -/
theorem decoder_pal_loop2_step (vb : ivg_ViewBox) (want : Int) (mm : UInt32) (count : Int) :
    DecoderPalStep (decode_decodeMetadataChunk__pnil.loop43_2 vb want mm count) Dec.decodeColor2 vb want mm count := by
  intro f src i pal
  rw [decode_decodeMetadataChunk__pnil.loop43_2]
  simp only [decode_buffer_decodeColor2_thunk, decodeColor2_code_tie, decColorResOf]
  by_cases hi : i < count
  · simp only [hi, decide_true, if_true]
    rcases hd : Dec.decodeColor2 src with _ | ⟨c, rest⟩
    · simp [decoder_decRes_none, errText]
    · obtain ⟨e1, e2, e3⟩ := decoder_decRes_some colorOf ivg_Color.zero src c rest (decAux_decodeColor2_rest hd)
      simp [e1, e2, e3, color_RGBA_code_tie]
  · simp [hi, errText]
tolerant
/-- one iteration of `loop43_3` (3-byte direct colours) -/
theorem decoder_pal_loop3_step (vb : ivg_ViewBox) (want : Int) (mm : UInt32) (count : Int) :
    DecoderPalStep (decode_decodeMetadataChunk__pnil.loop43_3 vb want mm count) Dec.decodeColor3Direct vb want mm count := by
  intro f src i pal
  rw [decode_decodeMetadataChunk__pnil.loop43_3]
  simp only [decode_buffer_decodeColor3Direct_thunk, decodeColor3Direct_code_tie, decColorResOf]
  by_cases hi : i < count
  · simp only [hi, decide_true, if_true]
    rcases hd : Dec.decodeColor3Direct src with _ | ⟨c, rest⟩
    · simp [decoder_decRes_none, errText]
    · obtain ⟨e1, e2, e3⟩ := decoder_decRes_some colorOf ivg_Color.zero src c rest (decAux_decodeColor3Direct_rest hd)
      simp [e1, e2, e3, color_RGBA_code_tie]
  · simp [hi, errText]
tolerant
/-- one iteration of `loop43_4` (4-byte colours) -/
theorem decoder_pal_loop4_step (vb : ivg_ViewBox) (want : Int) (mm : UInt32) (count : Int) :
    DecoderPalStep (decode_decodeMetadataChunk__pnil.loop43_4 vb want mm count) Dec.decodeColor4 vb want mm count := by
  intro f src i pal
  rw [decode_decodeMetadataChunk__pnil.loop43_4]
  simp only [decode_buffer_decodeColor4_thunk, decodeColor4_code_tie, decColorResOf]
  by_cases hi : i < count
  · simp only [hi, decide_true, if_true]
    rcases hd : Dec.decodeColor4 src with _ | ⟨c, rest⟩
    · simp [decoder_decRes_none, errText]
    · obtain ⟨e1, e2, e3⟩ := decoder_decRes_some colorOf ivg_Color.zero src c rest (decAux_decodeColor4_rest hd)
      simp [e1, e2, e3, color_RGBA_code_tie]
  · simp [hi, errText]

/-- the generated result agrees with the model's: on `.ok` all five components, on `.error` the returned
    `(nil, err)` (the model does not say what the partially written fields are after an error) -/
def DecoderChunkAgrees (g : DecoderChunkRes) : Except DecErr (Metadata × Nat × Bytes) → Prop
  | .ok (m', mm, rest) => g = (rest, none, vbOf m'.viewBox, palOf m'.palette, UInt32.ofNat mm)
  | .error e => g.1 = [] ∧ g.2.1 = some (errText e)

attribute [local instance] decAuxForallUInt8
set_option maxRecDepth 100000 in
tolerant
/-- the palette header byte: format `h >> 6` and count `1 + h&0x3f` -/
theorem decoder_palFormat : ∀ h : UInt8, (h >>> 6 = 0 ∨ h >>> 6 = 1 ∨ h >>> 6 = 2 ∨ h >>> 6 = 3) ∧
    (h &&& 63).toNat ≤ 63 := by decide +kernel

tolerant
theorem decoder_u32_ofNat_toNat (u : Nat) (h : u < 2 ^ 32) : (UInt32.ofNat u).toNat = u :=
  UInt32.toNat_ofNat_of_lt' (by simpa [UInt32.size] using h)

tolerant
theorem decoder_valResOf_some (x : F32) (rest : Bytes) : valResOf (some (x, rest)) = (x, rest, none) := rfl
tolerant
theorem decoder_valResOf_none : valResOf none = (⟨0⟩, [], some (errText .invalidNumber)) := rfl

set_option linter.unusedSimpArgs false in
tolerant
/-- `decodeMetadataChunk(nil, m, src, &minMID)` (decode/decode.go) = `Dec.decodeMetadataChunk m minMID src`
    (`DecoderChunkAgrees`): when the model returns `.ok (m', minMID', rest)` the generated function returns
    `(rest, nil)` and leaves `m.ViewBox = m'.viewBox`, `m.Palette = m'.palette`, `*minMID = minMID'`; when the model
    returns `.error e` it returns `(nil, errText e)`.  `minMID < 2^32` (Go: `uint32`; the callers have `minMID ≤ 2`);
    `fuel ≥ 66` (at most 64 palette colours). -/
theorem decodeMetadataChunk_code_tie (fuel : Nat) (m : Metadata) (minMID : Nat) (src : Bytes)
    (hmin : minMID < 2 ^ 32) (hf : 66 ≤ fuel) :
    DecoderChunkAgrees (decode_decodeMetadataChunk__pnil fuel (vbOf m.viewBox) (palOf m.palette) src (UInt32.ofNat minMID))
      (Dec.decodeMetadataChunk m minMID src).2 := by
  unfold decode_decodeMetadataChunk__pnil Dec.decodeMetadataChunk
  rw [decodeNatural_code_tie]
  rcases h1 : Dec.decodeNatural src with _ | ⟨length, n, src1⟩
  · simp [decNatOf, DecoderChunkAgrees, errText]
  · obtain ⟨hn, hlen, hl, rfl⟩ := decAux_decodeNatural_spec h1
    have n0 : ¬ ((n : Nat) : Int) = 0 := by omega
    have elen : Go.cvt_u32_int (UInt32.ofNat length) = (length : Int) := by
      simp [Go.cvt_u32_int, decoder_u32_ofNat_toNat length (by omega)]
    simp only [decNatOf, n0, decide_false, Bool.false_eq_true, if_false, Go.idx_int, Int.toNat_natCast,
      decoder_slice_drop, decodeNatural_code_tie, elen, Int.ofNat_eq_natCast]
    rcases h2 : Dec.decodeNatural (src.drop n) with _ | ⟨mid, n2, src2⟩
    · simp [DecoderChunkAgrees, errText]
    · obtain ⟨hn2, hmid, hl2, rfl⟩ := decAux_decodeNatural_spec h2
      have n20 : ¬ ((n2 : Nat) : Int) = 0 := by omega
      have emid := decoder_u32_ofNat_toNat mid (by omega)
      have emin := decoder_u32_ofNat_toNat minMID hmin
      have c2 : ((2 : UInt32) ≤ UInt32.ofNat mid) ↔ 2 ≤ mid := by
        rw [UInt32.le_iff_toNat_le, emid]; rfl
      have clt : (UInt32.ofNat mid < UInt32.ofNat minMID) ↔ mid < minMID := by
        rw [UInt32.lt_iff_toNat_lt, emid, emin]
      have c0 : (UInt32.ofNat mid = 0) ↔ mid = 0 := by
        rw [← UInt32.toNat_inj, emid]; rfl
      have c1 : (UInt32.ofNat mid = 1) ↔ mid = 1 := by
        rw [← UInt32.toNat_inj, emid]; rfl
      have esucc : UInt32.ofNat mid + 1 = UInt32.ofNat (mid + 1) := by
        rw [← UInt32.toNat_inj, UInt32.toNat_add, emid, decoder_u32_ofNat_toNat (mid + 1) (by omega)]
        simp; omega
      simp only [n20, decide_false, Bool.false_eq_true, if_false, Int.toNat_natCast, c2, clt, c0, c1,
        esucc, decide_eq_true_eq, ge_iff_le]
      by_cases k2 : 2 ≤ mid
      · simp [k2, DecoderChunkAgrees, errText]
      by_cases klt : mid < minMID
      · simp [k2, klt, DecoderChunkAgrees, errText]
      simp only [k2, klt, if_false]
      by_cases k0 : mid = 0
      · subst k0
        simp only [if_true, decodeNumber_decodeCoordinate_code_tie]
        generalize List.drop n2 (List.drop n src) = s0
        obtain ⟨rA, hA⟩ : ∃ r, Dec.decodeNumber Dec.decodeCoordinate s0 = r := ⟨_, rfl⟩
        rcases rA with _ | ⟨la, a, s1⟩
        · have hm : Dec.decodeCoordinates 4 s0 = ([], none) := by simp [Dec.decodeCoordinates, hA]
          simp [hm, hA, decoder_valResOf_none, DecoderChunkAgrees, errText]
        simp only [hA, Option.map_some, decoder_valResOf_some, Option.isSome_none, Bool.false_eq_true, if_false]
        obtain ⟨rB, hB⟩ : ∃ r, Dec.decodeNumber Dec.decodeCoordinate s1 = r := ⟨_, rfl⟩
        rcases rB with _ | ⟨lb, b, s2⟩
        · have hm : Dec.decodeCoordinates 4 s0 = ([la], none) := by simp [Dec.decodeCoordinates, hA, hB]
          simp [hm, hB, decoder_valResOf_none, DecoderChunkAgrees, errText]
        simp only [hB, Option.map_some, decoder_valResOf_some, Option.isSome_none, Bool.false_eq_true, if_false]
        obtain ⟨rC, hC⟩ : ∃ r, Dec.decodeNumber Dec.decodeCoordinate s2 = r := ⟨_, rfl⟩
        rcases rC with _ | ⟨lc, c, s3⟩
        · have hm : Dec.decodeCoordinates 4 s0 = ([la, lb], none) := by simp [Dec.decodeCoordinates, hA, hB, hC]
          simp [hm, hC, decoder_valResOf_none, DecoderChunkAgrees, errText]
        simp only [hC, Option.map_some, decoder_valResOf_some, Option.isSome_none, Bool.false_eq_true, if_false]
        obtain ⟨rD, hD⟩ : ∃ r, Dec.decodeNumber Dec.decodeCoordinate s3 = r := ⟨_, rfl⟩
        rcases rD with _ | ⟨ld, d, s4⟩
        · have hm : Dec.decodeCoordinates 4 s0 = ([la, lb, lc], none) := by
            simp [Dec.decodeCoordinates, hA, hB, hC, hD]
          simp [hm, hD, decoder_valResOf_none, DecoderChunkAgrees, errText]
        have hm : Dec.decodeCoordinates 4 s0 = ([la, lb, lc, ld], some ([a, b, c, d], s4)) := by
          simp [Dec.decodeCoordinates, hA, hB, hC, hD]
        simp only [hD, Option.map_some, decoder_valResOf_some, Option.isSome_none, Bool.false_eq_true, if_false,
          isNaNOrInfinity_code_tie, f32_lt_iff, hm]
        by_cases g1 : F32.lt c a = true
        · simp [g1, DecoderChunkAgrees, errText]
        by_cases g2 : F32.lt d b = true
        · simp [g1, g2, DecoderChunkAgrees, errText]
        by_cases g3 : Dec.isNaNOrInfinity a = true
        · simp [g1, g2, g3, DecoderChunkAgrees, errText]
        by_cases g4 : Dec.isNaNOrInfinity b = true
        · simp [g1, g2, g3, g4, DecoderChunkAgrees, errText]
        by_cases g5 : Dec.isNaNOrInfinity c = true
        · simp [g1, g2, g3, g4, g5, DecoderChunkAgrees, errText]
        by_cases g6 : Dec.isNaNOrInfinity d = true
        · simp [g1, g2, g3, g4, g5, g6, DecoderChunkAgrees, errText]
        by_cases g7 : (s4.length : Int) = ((src.length - n : Nat) : Int) - (length : Int)
        · simp [g1, g2, g3, g4, g5, g6, g7, DecoderChunkAgrees, vbOf, List.length_drop]
        · simp [g1, g2, g3, g4, g5, g6, g7, DecoderChunkAgrees, errText, List.length_drop]
      · have k1 : mid = 1 := by omega
        subst k1
        simp only [if_false, if_true, show ¬ (1 = 0) from by decide]
        generalize List.drop n2 (List.drop n src) = s0
        cases s0 with
        | nil => simp [DecoderChunkAgrees, errText]
        | cons h src3 =>
          obtain ⟨hfmt, h63⟩ := decoder_palFormat h
          simp only [List.length_cons, decAux_sliceGet_zero]
          have hne : ¬ ((src3.length + 1 : Nat) : Int) = 0 := by omega
          rcases hfmt with hq | hq | hq | hq
          · simp +decide only [hne, hq, if_true, if_false, List.drop_succ_cons, List.drop_zero, UInt8.reduceToNat]
            have key := decoder_pal_of_step (decoder_pal_loop1_step (vbOf m.viewBox) (((List.drop n src).length : Int) - (length : Int))
              (UInt32.ofNat (1 + 1)) (1 + Go.cvt_u8_int (h &&& 63))) (1 + (h &&& 63).toNat) fuel 0 src3 m.palette
              (by simp [Go.cvt_u8_int]) (by omega) (by omega)
            simp only [Int.cast_ofNat_Int] at key
            rcases hp : Dec.decodePaletteColors Dec.decodeColor1 (1 + (h &&& 63).toNat) 0 m.palette src3 with _ | ⟨its, pal, src4⟩
            · rw [hp] at key
              simpa [DecoderChunkAgrees] using key
            · rw [hp] at key
              simp only at key
              rw [key]
              by_cases g : (src4.length : Int) = ((src.length - n : Nat) : Int) - (length : Int)
              · simp [g, DecoderChunkAgrees, List.length_drop]
              · simp [g, DecoderChunkAgrees, errText, List.length_drop]
          · simp +decide only [hne, hq, if_true, if_false, List.drop_succ_cons, List.drop_zero, UInt8.reduceToNat]
            have key := decoder_pal_of_step (decoder_pal_loop2_step (vbOf m.viewBox) (((List.drop n src).length : Int) - (length : Int))
              (UInt32.ofNat (1 + 1)) (1 + Go.cvt_u8_int (h &&& 63))) (1 + (h &&& 63).toNat) fuel 0 src3 m.palette
              (by simp [Go.cvt_u8_int]) (by omega) (by omega)
            simp only [Int.cast_ofNat_Int] at key
            rcases hp : Dec.decodePaletteColors Dec.decodeColor2 (1 + (h &&& 63).toNat) 0 m.palette src3 with _ | ⟨its, pal, src4⟩
            · rw [hp] at key
              simpa [DecoderChunkAgrees] using key
            · rw [hp] at key
              simp only at key
              rw [key]
              by_cases g : (src4.length : Int) = ((src.length - n : Nat) : Int) - (length : Int)
              · simp [g, DecoderChunkAgrees, List.length_drop]
              · simp [g, DecoderChunkAgrees, errText, List.length_drop]
          · simp +decide only [hne, hq, if_true, if_false, List.drop_succ_cons, List.drop_zero, UInt8.reduceToNat]
            have key := decoder_pal_of_step (decoder_pal_loop3_step (vbOf m.viewBox) (((List.drop n src).length : Int) - (length : Int))
              (UInt32.ofNat (1 + 1)) (1 + Go.cvt_u8_int (h &&& 63))) (1 + (h &&& 63).toNat) fuel 0 src3 m.palette
              (by simp [Go.cvt_u8_int]) (by omega) (by omega)
            simp only [Int.cast_ofNat_Int] at key
            rcases hp : Dec.decodePaletteColors Dec.decodeColor3Direct (1 + (h &&& 63).toNat) 0 m.palette src3 with _ | ⟨its, pal, src4⟩
            · rw [hp] at key
              simpa [DecoderChunkAgrees] using key
            · rw [hp] at key
              simp only at key
              rw [key]
              by_cases g : (src4.length : Int) = ((src.length - n : Nat) : Int) - (length : Int)
              · simp [g, DecoderChunkAgrees, List.length_drop]
              · simp [g, DecoderChunkAgrees, errText, List.length_drop]
          · simp +decide only [hne, hq, if_true, if_false, List.drop_succ_cons, List.drop_zero, UInt8.reduceToNat]
            have key := decoder_pal_of_step (decoder_pal_loop4_step (vbOf m.viewBox) (((List.drop n src).length : Int) - (length : Int))
              (UInt32.ofNat (1 + 1)) (1 + Go.cvt_u8_int (h &&& 63))) (1 + (h &&& 63).toNat) fuel 0 src3 m.palette
              (by simp [Go.cvt_u8_int]) (by omega) (by omega)
            simp only [Int.cast_ofNat_Int] at key
            rcases hp : Dec.decodePaletteColors Dec.decodeColor4 (1 + (h &&& 63).toNat) 0 m.palette src3 with _ | ⟨its, pal, src4⟩
            · rw [hp] at key
              simpa [DecoderChunkAgrees] using key
            · rw [hp] at key
              simp only at key
              rw [key]
              by_cases g : (src4.length : Int) = ((src.length - n : Nat) : Int) - (length : Int)
              · simp [g, DecoderChunkAgrees, List.length_drop]
              · simp [g, DecoderChunkAgrees, errText, List.length_drop]


/-! concrete instances: a valid view-box chunk (-24,-24,24,24), a suggested palette of one 1-byte colour -/
example : decode_decodeMetadataChunk__pnil 66 (vbOf defaultViewBox) (palOf defaultPalette)
    [0x0a, 0x00, 0x50, 0x50, 0xb0, 0xb0, 0xc0] 0
    = ([0xc0], none, ⟨F32.ofInt (-24), F32.ofInt (-24), F32.ofInt 24, F32.ofInt 24⟩, palOf defaultPalette, 1) := by
  decide +kernel

/-- FINDING: what Go leaves in `m.ViewBox` when the chunk is rejected — min > max: `{24 -24 -24 24}`; third number
    truncated: `{24 -24 0 32}` (checked against `decode.DecodeViewBox` of /repo on
    `89 49 56 47 02 0a 00 b0 50 50 b0` and `89 49 56 47 02 0a 00 b0 50`, which returns these values next to
    "iconvg: invalid view box"); the model's `Dec.decodeViewBox` returns the DEFAULT view box there. -/
example :
    (decode_decodeMetadataChunk__pnil 66 (vbOf defaultViewBox) (palOf defaultPalette) [0x0a, 0x00, 0xb0, 0x50, 0x50, 0xb0] 0).2.2.1
      = ⟨F32.ofInt 24, F32.ofInt (-24), F32.ofInt (-24), F32.ofInt 24⟩ ∧
    (decode_decodeMetadataChunk__pnil 66 (vbOf defaultViewBox) (palOf defaultPalette) [0x0a, 0x00, 0xb0, 0x50] 0).2.2.1
      = ⟨F32.ofInt 24, F32.ofInt (-24), ⟨0⟩, F32.ofInt 32⟩ ∧
    Dec.decodeViewBox [0x89, 0x49, 0x56, 0x47, 0x02, 0x0a, 0x00, 0xb0, 0x50, 0x50, 0xb0]
      = (defaultViewBox, some .invalidViewBox) ∧
    Dec.decodeViewBox [0x89, 0x49, 0x56, 0x47, 0x02, 0x0a, 0x00, 0xb0, 0x50]
      = (defaultViewBox, some .invalidViewBox) := by
  decide +kernel

end Ivg.Gen.Tie
