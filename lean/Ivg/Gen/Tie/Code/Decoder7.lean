import Ivg.Gen.Tie.Code.Decoder5
import Ivg.Gen.Tie.Code.Decoder6
/-!
# Tie: the whole of `decode.Decode(dst, src)` (no options) over the GENERATED functions = the model's `Dec.decode [] src`

`decode` (decode/decode.go) itself is not translated.  `runChunks` (the metadata-chunk loop) and `decodeDriver` (magic,
number of chunks, chunk loop, `dst.Reset`, instruction loop) are its HAND-WRITTEN reading, a few lines each, in which
every function called is generated (`decode_buffer_decodeNatural`, `decode_decodeMetadataChunk__pnil`, the mode
functions through `runModes` of `Decoder6.lean`) and the package-level variables are the generated ones
(`G_ivg_MagicBytes`, `G_ivg_DefaultMetadata`); the loop bounds (`fuel`) are those of the model.
`decodeDriver_code_tie`: for ALL inputs the error returned and the calls delivered are the model's.
-/
namespace Ivg.Gen.Tie
open Ivg Ivg.Num Ivg.Gen Ivg.Gen.Code Ivg.Dec

tolerant
/-- the model's `decodeMetadataChunk` returns a next `minMID ≤ 2` (so Go's `uint32` never wraps) -/
theorem decoder_chunk_minMID {m : Metadata} {minMID : Nat} {src : Bytes} {its : List Item} {m' : Metadata}
    {mm' : Nat} {rest : Bytes} (h : Dec.decodeMetadataChunk m minMID src = (its, .ok (m', mm', rest))) : mm' ≤ 2 := by
  unfold Dec.decodeMetadataChunk at h
  split at h
  · simp at h
  · simp only at h
    split at h
    · simp at h
    · rename_i mid _ _ _
      split at h
      · simp at h
      · rename_i hmid
        split at h
        · simp at h
        · split at h
          · split at h
            · split at h
              · simp at h
              · split at h
                · simp at h
                · simp only [Prod.mk.injEq, Except.ok.injEq] at h
                  omega
            · simp at h
          · split at h
            · simp at h
            · split at h
              · simp at h
              · split at h
                · simp at h
                · simp only [Prod.mk.injEq, Except.ok.injEq] at h
                  omega

tolerant
/-- the items of the model's palette loop are lines -/
theorem decoder_palette_calls (dec : Bytes → Option (Color × Bytes)) : ∀ (n i : Nat) (p : Palette) (src : Bytes)
    (its : List Item) (p' : Palette) (rest : Bytes),
    Dec.decodePaletteColors dec n i p src = some (its, p', rest) → callsOf its = [] := by
  intro n
  induction n with
  | zero =>
    intro i p src its p' rest h
    simp only [Dec.decodePaletteColors, Option.some.injEq, Prod.mk.injEq] at h
    rw [← h.1]; rfl
  | succ n ih =>
    intro i p src its p' rest h
    rw [Dec.decodePaletteColors] at h
    split at h
    · simp at h
    · simp only at h
      split at h
      · simp at h
      · rename_i hrec
        simp only [Option.some.injEq, Prod.mk.injEq] at h
        rw [← h.1]
        simpa using ih _ _ _ _ _ _ hrec

tolerant
/-- the items of the model's `decodeMetadataChunk` are lines: the metadata delivers nothing to the Destination -/
theorem decoder_chunk_calls (m : Metadata) (minMID : Nat) (src : Bytes) :
    callsOf (Dec.decodeMetadataChunk m minMID src).1 = [] := by
  unfold Dec.decodeMetadataChunk
  split
  · rfl
  · simp only
    split
    · rfl
    · split
      · rfl
      · split
        · rfl
        · split
          · rename_i src2 _ _ _ _
            have hc := (decoder_decodeCoordinates_spec 4 src2).1
            split
            · rename_i heq
              rw [heq] at hc
              simp only at hc
              split
              · simp [hc]
              · split <;> simp [hc]
            · rename_i its _ _ heq
              rw [heq] at hc
              simp only at hc
              simp [hc]
          · split
            · rfl
            · split
              · rfl
              · rename_i heq
                have := decoder_palette_calls _ _ _ _ _ _ _ _ heq
                split <;> simp [this]

/-- decode.go's chunk loop `for ; nMetadataChunks > 0; nMetadataChunks-- { src, err = decodeMetadataChunk(p, m, src, &minMID); … }`
    over the GENERATED `decodeMetadataChunk`.  HAND-WRITTEN driver; `fuel` mirrors the model's `decodeChunks`. -/
def runChunks : Nat → Nat → ivg_ViewBox → Vector image_color_RGBA 64 → UInt32 → Bytes →
    Go.Err × ivg_ViewBox × Vector image_color_RGBA 64 × Bytes
  | _, 0, vb, pal, _, src => (none, vb, pal, src)
  | 0, _ + 1, vb, pal, _, src => (some (errText .invalidMetadataChunkLength), vb, pal, src)
  | fuel + 1, n + 1, vb, pal, mm, src =>
    let r := decode_decodeMetadataChunk__pnil 66 vb pal src mm
    if r.2.1.isSome then (r.2.1, r.2.2.1, r.2.2.2.1, r.1)
    else runChunks fuel n r.2.2.1 r.2.2.2.1 r.2.2.2.2 r.1

tolerant
/-- The chunk loop over the generated `decodeMetadataChunk` = the model's `Dec.decodeChunks` (same `fuel`), from any
    metadata `m` and `minMID ≤ 2`: on `.ok` the fields of `*m` and the rest of the input, on `.error` the error;
    and the model's chunk items contain no Destination call. -/
theorem runChunks_code_tie : ∀ (fuel n : Nat) (m : Metadata) (minMID : Nat) (src : Bytes), minMID ≤ 2 →
    callsOf (Dec.decodeChunks fuel n m minMID src).1 = [] ∧
    match (Dec.decodeChunks fuel n m minMID src).2 with
    | .ok (m', rest) =>
      runChunks fuel n (vbOf m.viewBox) (palOf m.palette) (UInt32.ofNat minMID) src
        = (none, vbOf m'.viewBox, palOf m'.palette, rest)
    | .error e =>
      (runChunks fuel n (vbOf m.viewBox) (palOf m.palette) (UInt32.ofNat minMID) src).1 = some (errText e) := by
  intro fuel
  induction fuel with
  | zero =>
    intro n m minMID src _
    cases n <;> simp [Dec.decodeChunks, runChunks]
  | succ fuel ih =>
    intro n m minMID src hmin
    cases n with
    | zero => simp [Dec.decodeChunks, runChunks]
    | succ n =>
      rw [Dec.decodeChunks, runChunks]
      have htie := decodeMetadataChunk_code_tie 66 m minMID src (by omega) (Nat.le_refl _)
      have hcalls := decoder_chunk_calls m minMID src
      rcases hch : Dec.decodeMetadataChunk m minMID src with ⟨its, e | ⟨m', mm', rest⟩⟩
      · rw [hch] at htie hcalls
        simp only [DecoderChunkAgrees] at htie hcalls
        simp [htie.2, hcalls]
      · rw [hch] at htie hcalls
        simp only [DecoderChunkAgrees] at htie hcalls
        have hmm := decoder_chunk_minMID hch
        obtain ⟨h1, h2⟩ := ih n m' mm' rest hmm
        simp only [htie, Option.isSome_none, Bool.false_eq_true, if_false]
        rcases hrec : Dec.decodeChunks fuel n m' mm' rest with ⟨its', r⟩
        rw [hrec] at h1 h2
        simp only at h1 h2
        exact ⟨by simp [hcalls, h1], h2⟩

/-- `decode.Decode(dst, src)` without options, on the call log: Go's `decode(dst, nil, &m, false, src)` with
    `m := ivg.DefaultMetadata`, over the GENERATED `decodeNatural`, `decodeMetadataChunk` (`runChunks`) and mode
    functions (`runModes`).  HAND-WRITTEN driver (`decode` is not translated): `bytes.HasPrefix`, the two `src = src[n:]`,
    `dst.Reset(m.ViewBox, m.Palette)`; the loop bounds are the model's. -/
def decodeDriver (src : Bytes) : Go.Err × CallLog :=
  if G_ivg_MagicBytes.isPrefixOf src = false then (some (errText .invalidMagicIdentifier), []) else
  let src1 := Go.slice src G_ivg_MagicBytes.length src.length
  let r := decode_buffer_decodeNatural src1
  if r.2 = 0 then (some (errText .invalidNumberOfMetadataChunks), []) else
  let src2 := Go.slice src1 (Go.idx_int r.2) src1.length
  let c := runChunks (src2.length + 1) r.1.toNat G_ivg_DefaultMetadata.ViewBox G_ivg_DefaultMetadata.Palette 0 src2
  if c.1.isSome then (c.1, []) else
  runModes (c.2.2.2.length + 1) (Go.fnRef "decode_decodeStyling") c.2.2.2 (logOps.Reset [] c.2.1 c.2.2.1)

tolerant
/-- `ivg.MagicBytes` (generated package-level variable) is the model's magic -/
theorem decoder_magicBytes : G_ivg_MagicBytes = Enc.magic := by decide

tolerant
/-- `decode.Decode(dst, src)` without options, run over the generated functions on a call log, returns the model's
    error (as the `DecodeError` text) and has delivered exactly the model's calls (`Dec.decode [] src`), for ALL `src`. -/
theorem decodeDriver_code_tie (src : Bytes) :
    decodeDriver src = ((Dec.decode [] src).2.map errText, (Dec.decode [] src).1) := by
  unfold decodeDriver Dec.decode Dec.decodeCore
  rw [decoder_magicBytes]
  have hpre : (Enc.magic.isPrefixOf src = false) ↔ (src.take 4 ≠ Enc.magic) := by
    rw [← Bool.not_eq_true, List.isPrefixOf_iff_prefix, List.prefix_iff_eq_take]
    simp [Enc.magic, eq_comm]
  by_cases hm : src.take 4 ≠ Enc.magic
  · simp [hpre.2 hm, hm]
  · have hm' : ¬ (Enc.magic.isPrefixOf src = false) := fun h => hm (hpre.1 h)
    simp only [hm', hm, if_false, decoder_slice_drop, decodeNatural_code_tie]
    have e4 : Enc.magic.length = 4 := rfl
    rw [e4]
    rcases hn : Dec.decodeNatural (src.drop 4) with _ | ⟨nChunks, n, src2⟩
    · simp [decNatOf]
    · obtain ⟨hn', hu, hl, rfl⟩ := decAux_decodeNatural_spec hn
      have n0 : ¬ ((n : Nat) : Int) = 0 := by omega
      simp only [decNatOf, n0, if_false, Go.idx_int, Int.toNat_natCast, decoder_u32_ofNat_toNat nChunks (by omega),
        defaultMetadata_code_tie]
      clear hn hl
      generalize List.drop n (List.drop 4 src) = s2
      obtain ⟨h1, h2⟩ := runChunks_code_tie (s2.length + 1) nChunks {} 0 s2 (by omega)
      have eC : UInt32.ofNat 0 = 0 := rfl
      rcases hc : Dec.decodeChunks (s2.length + 1) nChunks {} 0 s2 with ⟨its, e | ⟨m, src3⟩⟩
      · rw [hc] at h1 h2
        simp only [eC] at h1 h2
        simp [h2, h1]
      · rw [hc] at h1 h2
        simp only [eC] at h1 h2
        have hrun := runModes_code_tie (src3.length + 1) .styling src3
          (logOps.Reset [] (vbOf m.viewBox) (palOf m.palette))
        simp only [modeName] at hrun
        simp only [h2, Option.isSome_none, Bool.false_eq_true, if_false, hrun]
        simp [Dec.applyOptions, logOps, h1]

/-- concrete instance: /repo/testdata/action-info.lores.ivg delivers 17 calls and no error -/
example : (decodeDriver [137, 73, 86, 71, 2, 10, 0, 80, 80, 176, 176, 192, 128, 88, 160, 245, 116, 88, 88, 245, 116,
    88, 128, 145, 245, 136, 168, 168, 168, 168, 13, 119, 168, 88, 128, 13, 139, 88, 128, 88, 227, 132, 188, 231, 120,
    232, 124, 231, 136, 233, 152, 227, 128, 96, 231, 120, 233, 120, 231, 136, 233, 136, 225]).1 = none ∧
    (decodeDriver [137, 73, 86, 71, 2, 10, 0, 80, 80, 176, 176, 192, 128, 88, 160, 245, 116, 88, 88, 245, 116,
    88, 128, 145, 245, 136, 168, 168, 168, 168, 13, 119, 168, 88, 128, 13, 139, 88, 128, 88, 227, 132, 188, 231, 120,
    232, 124, 231, 136, 233, 152, 227, 128, 96, 231, 120, 233, 120, 231, 136, 233, 136, 225]).2.length = 17 := by
  decide +kernel

end Ivg.Gen.Tie
