import Ivg.Gen.Tie.Code.Base
import Ivg.Gen.Tie.Code.Color
import Ivg.Gen.Tie.Code.EncNumbers
import Ivg.Gen.Tie.Code.EncColors
import Ivg.Gen.Code.P_encode
import Ivg.Model.Encoder
/-!
# Tie: the `Encoder` of `encode/encode.go`, as TRANSLATED from the Go source, against the model `Ivg.Enc.Encoder`
(part 1: representation, the table `drawOps`, the package constants, the methods without loops)

The model state REPRESENTS the Go fields differently; the functions below give the Go value of each field:

    Go field                      model field              conversion
    HighResolutionCoordinates     hiRes                    (same)
    highResolutionCoordinates     hiResLocal               (same)
    buf                           buf                      (same)
    err   error                   err : Option EncErr      `goErr`   (Go keeps the EncodeError string, no "iconvg: " prefix)
    lod0 lod1 cSel nSel                                    (same)
    mode  uint8                   mode : Mode              `goMode`  (0,1,2)
    drawOp byte                   drawOp : Option DrawOp   `goDrawOp` (0 = none, else the verb's ASCII byte `DrawOp.char`)
    drawArgs []float32            drawArgs : List (List F32)   `List.flatten` (one group per buffered call)
    altBuf, metadata, scratch     (not in the model)

A method with receiver `e *Encoder` is translated to a function of the receiver fields it reads that returns, after
the Go results, the new values of the fields it writes.  Each tie below states: the generated function applied to the
Go representation of `m` returns the Go representation of the fields of the model's result.  `encOf m x` is the whole
generated structure `encode_Encoder` for `m` (the three fields that are not modelled are taken from `x`); the
`…_state` theorems restate the ties as equations between whole Go states (so they also say that the model changes
no other field).

Parts: `Encoder.lean` (this file), `Encoder2.lean` (`flushDrawOps`), `Encoder3.lean` (`draw` and the 20 drawing
methods), `Encoder4.lean` (frames, `WFEnc` is an invariant, `Bytes`), `Encoder5.lean` (whole-state forms),
`Encoder6.lean` (`Reset`).

NOT TRANSLATED, hence not tied: `(*Encoder).SetNReg`.  It encodes into `buffer(e.scratch[k:k])`, slices that alias the
array field `e.scratch`, and reads the bytes back through `e.scratch[iBest:iBest+nBest]`; the translator refuses
stores through a slice that aliases an array (`Index.lean`: "storing a slice that aliases an array").  Every other
method of `Encoder` is tied.  (See the comment at the end of this file.)

The well-formedness predicate `WFEnc` (needed only where the flat `drawArgs` is cut into groups again, i.e. for
`flushDrawOps` and its callers): no verb buffered ⇒ no operands buffered; verb `op` buffered ⇒ every buffered group has
`(opInfo op).nArgs` operands.
-/
namespace Ivg.Gen.Tie
open Ivg Ivg.Num Ivg.Gen Ivg.Gen.Code
set_option linter.unusedSimpArgs false

/-! ## representation -/

/-- Go `mode` (`modeInitial, modeStyling, modeDrawing` = 0, 1, 2) -/
def goMode : Enc.Mode → UInt8
  | .initial => 0 | .styling => 1 | .drawing => 2

/-- the Go `EncodeError` string held in `e.err` (without the "iconvg: " that `Error()` prepends) -/
def goErrStr : Enc.EncErr → String
  | .drawingOpsUsedInStylingMode => "drawing ops used in styling mode"
  | .invalidSelectorAdjustment => "invalid selector adjustment"
  | .invalidIncrementingAdjustment => "invalid incrementing adjustment"
  | .stylingOpsUsedInDrawingMode => "styling ops used in drawing mode"

/-- Go `e.err` -/
def goErr (e : Option Enc.EncErr) : Go.Err := e.map goErrStr

/-- Go `e.drawOp`: the verb's ASCII byte, 0 when nothing is buffered -/
def goDrawOp : Option Enc.DrawOp → UInt8
  | none => 0
  | some op => UInt8.ofNat op.char

/-- one entry of the Go table `drawOps` -/
def infoOf (i : Enc.OpInfo) : anon_opcodeBase_maxRepCount_nArgs :=
  ⟨i.opcodeBase, UInt8.ofNat i.maxRepCount, UInt8.ofNat i.nArgs⟩

/-- the verb with a given ASCII byte -/
def opOfChar? (n : Nat) : Option Enc.DrawOp :=
  [Enc.DrawOp.arcAbs, .v6 .C, .v1 .H, .v2 .L, .v4 .Q, .v4 .S, .v2 .T, .v1 .V, .v2 .Y, .Z,
   .arcRel, .v6 .c, .v1 .h, .v2 .l, .v4 .q, .v4 .s, .v2 .t, .v1 .v, .v2 .y].find? fun op => op.char == n

/-- the generated structure for the model state `m`; `altBuf`, `metadata`, `scratch` (not modelled) come from `x` -/
def encOf (m : Enc.Encoder) (x : encode_Encoder) : encode_Encoder :=
  { x with
    HighResolutionCoordinates := m.hiRes, highResolutionCoordinates := m.hiResLocal, buf := m.buf,
    err := goErr m.err, lod0 := m.lod0, lod1 := m.lod1, cSel := m.cSel, nSel := m.nSel, mode := goMode m.mode,
    drawOp := goDrawOp m.drawOp, drawArgs := m.drawArgs.flatten }

/-- well-formed buffered operands: nothing buffered without a verb; with verb `op`, groups of `nArgs` operands -/
def WFEnc (m : Enc.Encoder) : Prop :=
  match m.drawOp with
  | none => m.drawArgs = []
  | some op => ∀ g ∈ m.drawArgs, g.length = (Enc.opInfo op).nArgs

instance (m : Enc.Encoder) : Decidable (WFEnc m) := by
  unfold WFEnc; split <;> exact inferInstance

/-! ## basic facts about the representation -/

tolerant
theorem goMode_inj {a b : Enc.Mode} : goMode a = goMode b ↔ a = b := by
  cases a <;> cases b <;> decide

tolerant
theorem goErrStr_inj {a b : Enc.EncErr} : goErrStr a = goErrStr b ↔ a = b := by
  cases a <;> cases b <;> decide

tolerant
theorem goErr_isSome (e : Option Enc.EncErr) : (goErr e).isSome = e.isSome := by
  cases e <;> rfl

tolerant
theorem opOfChar?_char (op : Enc.DrawOp) : opOfChar? op.char = some op := by
  cases op with
  | v1 w => cases w <;> rfl
  | v2 w => cases w <;> rfl
  | v4 w => cases w <;> rfl
  | v6 w => cases w <;> rfl
  | arcAbs => rfl
  | arcRel => rfl
  | Z => rfl

tolerant
theorem char_lt (op : Enc.DrawOp) : op.char < 256 ∧ op.char ≠ 0 := by
  cases op with
  | v1 w => cases w <;> decide
  | v2 w => cases w <;> decide
  | v4 w => cases w <;> decide
  | v6 w => cases w <;> decide
  | arcAbs => decide
  | arcRel => decide
  | Z => decide

tolerant
theorem char_inj {a b : Enc.DrawOp} (h : a.char = b.char) : a = b := by
  have := opOfChar?_char a
  rw [h, opOfChar?_char b] at this
  exact (Option.some.inj this).symm

tolerant
theorem goDrawOp_some_toNat (op : Enc.DrawOp) : (goDrawOp (some op)).toNat = op.char := by
  have := (char_lt op).1
  simp only [goDrawOp, UInt8.toNat_ofNat']
  omega

tolerant
/-- the byte is 0 exactly when nothing is buffered -/
theorem goDrawOp_eq_zero (d : Option Enc.DrawOp) : goDrawOp d = 0 ↔ d = none := by
  cases d with
  | none => simp [goDrawOp]
  | some op =>
    have h := char_lt op
    constructor
    · intro h0
      have := congrArg UInt8.toNat h0
      rw [goDrawOp_some_toNat] at this
      exact absurd this h.2
    · intro h0; cases h0

tolerant
theorem goDrawOp_inj {a b : Option Enc.DrawOp} : goDrawOp a = goDrawOp b ↔ a = b := by
  constructor
  · intro h
    cases a with
    | none => exact ((goDrawOp_eq_zero b).1 h.symm).symm
    | some x =>
      cases b with
      | none => exact (goDrawOp_eq_zero _).1 h
      | some y =>
        have := congrArg UInt8.toNat h
        rw [goDrawOp_some_toNat, goDrawOp_some_toNat] at this
        rw [char_inj this]
  · intro h; rw [h]

/-! ## the table `drawOps` and the package constants -/

set_option maxRecDepth 100000 in
tolerant
/-- encode.go `drawOps` (all 256 entries): the entry of a verb byte is the model's `opInfo`, every other entry is
    the zero struct. -/
theorem drawOps_code_tie_all :
    ∀ i : Fin 256, Go.arrGet G_encode_drawOps i.val =
      match opOfChar? i.val with
      | some op => infoOf (Enc.opInfo op)
      | none => anon_opcodeBase_maxRepCount_nArgs.zero := by
  decide +kernel

tolerant
/-- encode.go `drawOps[c]` for the ASCII byte `c` of each of the 19 verbs is the model's `opInfo`. -/
theorem drawOps_code_tie (op : Enc.DrawOp) :
    Go.arrGet G_encode_drawOps (Go.idx_u8 (goDrawOp (some op))) = infoOf (Enc.opInfo op) := by
  have h := drawOps_code_tie_all ⟨op.char, (char_lt op).1⟩
  simp only [opOfChar?_char] at h
  simpa only [Go.idx_u8, goDrawOp_some_toNat] using h

tolerant
/-- the fields of an entry as natural numbers (all `maxRepCount ≤ 32`, `nArgs ≤ 6` fit a byte) -/
theorem infoOf_fields (op : Enc.DrawOp) :
    (infoOf (Enc.opInfo op)).opcodeBase = (Enc.opInfo op).opcodeBase ∧
    (infoOf (Enc.opInfo op)).maxRepCount.toNat = (Enc.opInfo op).maxRepCount ∧
    (infoOf (Enc.opInfo op)).nArgs.toNat = (Enc.opInfo op).nArgs ∧
    1 ≤ (Enc.opInfo op).maxRepCount ∧ (Enc.opInfo op).maxRepCount ≤ 32 ∧ (Enc.opInfo op).nArgs ≤ 6 := by
  cases op with
  | v1 w => cases w <;> decide
  | v2 w => cases w <;> decide
  | v4 w => cases w <;> decide
  | v6 w => cases w <;> decide
  | arcAbs => decide
  | arcRel => decide
  | Z => decide

tolerant
/-- encode.go `errDrawingOpsUsedInStylingMode` -/
theorem errDrawingOpsUsedInStylingMode_code_tie :
    G_encode_errDrawingOpsUsedInStylingMode = goErrStr .drawingOpsUsedInStylingMode := rfl
tolerant
/-- encode.go `errInvalidSelectorAdjustment` -/
theorem errInvalidSelectorAdjustment_code_tie :
    G_encode_errInvalidSelectorAdjustment = goErrStr .invalidSelectorAdjustment := rfl
tolerant
/-- encode.go `errInvalidIncrementingAdjustment` -/
theorem errInvalidIncrementingAdjustment_code_tie :
    G_encode_errInvalidIncrementingAdjustment = goErrStr .invalidIncrementingAdjustment := rfl
tolerant
/-- encode.go `errStylingOpsUsedInDrawingMode` -/
theorem errStylingOpsUsedInDrawingMode_code_tie :
    G_encode_errStylingOpsUsedInDrawingMode = goErrStr .stylingOpsUsedInDrawingMode := rfl

tolerant
/-- encode.go `(EncodeError).Error`: the text the model prints is "iconvg: " + the string kept in `e.err`. -/
theorem encodeError_Error_code_tie (e : Enc.EncErr) : encode_EncodeError_Error (goErrStr e) = e.message := by
  cases e <;> decide

tolerant
/-- encode.go `positiveInfinity` (the `lod1` of a reset Encoder) -/
theorem positiveInfinity_code_tie_enc : G_encode_positiveInfinity = F32.posInf := rfl

tolerant
/-- encode.go `negativeInfinity` -/
theorem negativeInfinity_code_tie_enc : G_encode_negativeInfinity = F32.negInf := rfl

/-! ## the methods without loops -/

tolerant
/-- `[]byte(ivg.Magic)` as the translator prints it -/
theorem encAux_magic_bytes : Go.bytesOfStr (Go.strOfBytes [137, 73, 86, 71]) = Enc.magic := by decide

tolerant
/-- Go `s[k:k]` is empty -/
theorem encAux_slice_kk {T : Type} (a : List T) (k : Nat) : Go.slice a k k = [] := by simp [Go.slice]

tolerant
/-- Go `adj > 6` is compiled to `7 <= adj` -/
theorem encAux_seven_le (adj : UInt8) : (7 : UInt8) ≤ adj ↔ adj > 6 := by
  simp only [UInt8.le_iff_toNat_le, GT.gt, UInt8.lt_iff_toNat_lt]
  show 7 ≤ adj.toNat ↔ 6 < adj.toNat
  omega

tolerant
/-- encode.go `(*Encoder).appendDefaultMetadata` (writes `buf`, `mode`) -/
theorem appendDefaultMetadata_code_tie (m : Enc.Encoder) :
    encode_Encoder_appendDefaultMetadata m.buf
      = (m.appendDefaultMetadata.buf, goMode m.appendDefaultMetadata.mode) := by
  simp only [encode_Encoder_appendDefaultMetadata, Enc.Encoder.appendDefaultMetadata, encAux_slice_kk,
    encAux_magic_bytes, List.nil_append, goMode]

tolerant
/-- encode.go `(*Encoder).CSel` (result, then `buf`, `mode`) = the model's `readCSel` -/
theorem cSel_code_tie (m : Enc.Encoder) :
    encode_Encoder_CSel m.buf m.cSel (goMode m.mode)
      = (m.readCSel.2, m.readCSel.1.buf, goMode m.readCSel.1.mode) := by
  simp only [encode_Encoder_CSel, appendDefaultMetadata_code_tie, Enc.Encoder.readCSel]
  cases h : m.mode <;> simp [h, goMode, Enc.Encoder.appendDefaultMetadata]

tolerant
/-- encode.go `(*Encoder).NSel` = the model's `readNSel` -/
theorem nSel_code_tie (m : Enc.Encoder) :
    encode_Encoder_NSel m.buf m.nSel (goMode m.mode)
      = (m.readNSel.2, m.readNSel.1.buf, goMode m.readNSel.1.mode) := by
  simp only [encode_Encoder_NSel, appendDefaultMetadata_code_tie, Enc.Encoder.readNSel]
  cases h : m.mode <;> simp [h, goMode, Enc.Encoder.appendDefaultMetadata]

tolerant
/-- encode.go `(*Encoder).LOD` = the model's `readLOD` -/
theorem lOD_code_tie (m : Enc.Encoder) :
    encode_Encoder_LOD m.buf m.lod0 m.lod1 (goMode m.mode)
      = (m.readLOD.2.1, m.readLOD.2.2, m.readLOD.1.buf, goMode m.readLOD.1.mode) := by
  simp only [encode_Encoder_LOD, appendDefaultMetadata_code_tie, Enc.Encoder.readLOD]
  cases h : m.mode <;> simp [h, goMode, Enc.Encoder.appendDefaultMetadata]

tolerant
/-- encode.go `(*Encoder).checkModeStyling` (writes `buf`, `err`, `mode`) -/
theorem checkModeStyling_code_tie (m : Enc.Encoder) :
    encode_Encoder_checkModeStyling m.buf (goErr m.err) (goMode m.mode)
      = (m.checkModeStyling.buf, goErr m.checkModeStyling.err, goMode m.checkModeStyling.mode) := by
  simp only [encode_Encoder_checkModeStyling, appendDefaultMetadata_code_tie, Enc.Encoder.checkModeStyling,
    errStylingOpsUsedInDrawingMode_code_tie]
  cases h : m.mode <;> simp [h, goMode, Enc.Encoder.appendDefaultMetadata, goErr]

tolerant
/-- the fields the model's `checkModeStyling` leaves alone (Go: the fields the method does not write) -/
theorem checkModeStyling_frame (m : Enc.Encoder) :
    m.checkModeStyling.hiRes = m.hiRes ∧ m.checkModeStyling.hiResLocal = m.hiResLocal ∧
    m.checkModeStyling.lod0 = m.lod0 ∧ m.checkModeStyling.lod1 = m.lod1 ∧
    m.checkModeStyling.cSel = m.cSel ∧ m.checkModeStyling.nSel = m.nSel ∧
    m.checkModeStyling.drawOp = m.drawOp ∧ m.checkModeStyling.drawArgs = m.drawArgs := by
  simp only [Enc.Encoder.checkModeStyling, Enc.Encoder.appendDefaultMetadata]
  split <;> simp

tolerant
/-- encode.go `(*Encoder).SetCSel` (writes `buf`, `err`, `cSel`, `mode`) = `Encoder.step … (.setCSel v)` -/
theorem setCSel_code_tie (m : Enc.Encoder) (v : UInt8) :
    encode_Encoder_SetCSel m.buf (goErr m.err) m.cSel (goMode m.mode) v
      = ((m.step (.setCSel v)).buf, goErr (m.step (.setCSel v)).err, (m.step (.setCSel v)).cSel,
         goMode (m.step (.setCSel v)).mode) := by
  simp only [encode_Encoder_SetCSel, checkModeStyling_code_tie, Enc.Encoder.step, Enc.Encoder.setCSel,
    goErr_isSome]
  have hc : m.checkModeStyling.cSel = m.cSel := (checkModeStyling_frame m).2.2.2.2.1
  rw [← hc]
  generalize m.checkModeStyling = e
  split <;> simp_all

tolerant
/-- encode.go `(*Encoder).SetNSel` (writes `buf`, `err`, `nSel`, `mode`) = `Encoder.step … (.setNSel v)` -/
theorem setNSel_code_tie (m : Enc.Encoder) (v : UInt8) :
    encode_Encoder_SetNSel m.buf (goErr m.err) m.nSel (goMode m.mode) v
      = ((m.step (.setNSel v)).buf, goErr (m.step (.setNSel v)).err, (m.step (.setNSel v)).nSel,
         goMode (m.step (.setNSel v)).mode) := by
  simp only [encode_Encoder_SetNSel, checkModeStyling_code_tie, Enc.Encoder.step, Enc.Encoder.setNSel,
    goErr_isSome]
  have hc : m.checkModeStyling.nSel = m.nSel := (checkModeStyling_frame m).2.2.2.2.2.1
  rw [← hc]
  generalize m.checkModeStyling = e
  split <;> simp_all

tolerant
/-- encode.go `(*Encoder).SetLOD` (writes `buf`, `err`, `lod0`, `lod1`, `mode`) = `Encoder.step … (.setLOD l0 l1)` -/
theorem setLOD_code_tie (m : Enc.Encoder) (l0 l1 : F32) :
    encode_Encoder_SetLOD m.buf (goErr m.err) m.lod0 m.lod1 (goMode m.mode) l0 l1
      = ((m.step (.setLOD l0 l1)).buf, goErr (m.step (.setLOD l0 l1)).err, (m.step (.setLOD l0 l1)).lod0,
         (m.step (.setLOD l0 l1)).lod1, goMode (m.step (.setLOD l0 l1)).mode) := by
  simp only [encode_Encoder_SetLOD, checkModeStyling_code_tie, Enc.Encoder.step, Enc.Encoder.setLOD,
    goErr_isSome, encodeReal_code_tie]
  have h0 : m.checkModeStyling.lod0 = m.lod0 := (checkModeStyling_frame m).2.2.1
  have h1 : m.checkModeStyling.lod1 = m.lod1 := (checkModeStyling_frame m).2.2.2.1
  rw [← h0, ← h1]
  generalize m.checkModeStyling = e
  split <;> simp_all

tolerant
/-- encode.go `(*Encoder).StartPath` (reads `HighResolutionCoordinates`; writes `highResolutionCoordinates`, `buf`,
    `err`, `mode`) = `Encoder.step … (.startPath adj x y)` -/
theorem encoder_startPath_code_tie (m : Enc.Encoder) (adj : UInt8) (x y : F32) :
    encode_Encoder_StartPath m.hiRes m.hiResLocal m.buf (goErr m.err) (goMode m.mode) adj x y
      = ((m.step (.startPath adj x y)).hiResLocal, (m.step (.startPath adj x y)).buf,
         goErr (m.step (.startPath adj x y)).err, goMode (m.step (.startPath adj x y)).mode) := by
  simp only [encode_Encoder_StartPath, checkModeStyling_code_tie, Enc.Encoder.step, Enc.Encoder.startPath,
    goErr_isSome, encodeCoordinate_code_tie, quantize_code_tie, errInvalidSelectorAdjustment_code_tie,
    encAux_seven_le, decide_eq_true_eq]
  have h0 : m.checkModeStyling.hiRes = m.hiRes := (checkModeStyling_frame m).1
  have h1 : m.checkModeStyling.hiResLocal = m.hiResLocal := (checkModeStyling_frame m).2.1
  rw [← h0, ← h1]
  generalize m.checkModeStyling = e
  by_cases he : e.err.isSome = true
  · simp [he]
  by_cases ha : adj > 6
  · simp [he, ha, goErr]
  simp [he, ha, goMode]

tolerant
/-- every constructible colour has one of the five encodings, so the `panic("unreachable")` at the end of `SetCReg`
    is not reached (the model's placeholder `(0xff, [])` neither) -/
theorem cregForm_total (c : Color) (h1 : c.encode1 = none) (h4 : c.encode4 = none)
    (h5 : c.encode3Indirect = none) : False := by
  rcases c with ⟨t, d⟩
  cases t <;> simp_all [Color.encode1, Color.encode4, Color.encode3Indirect]

tolerant
/-- encode.go `(*Encoder).SetCReg` (writes `buf`, `err`, `cSel`, `mode`) = `Encoder.step … (.setCReg adj incr c)`,
    for every colour of the model's type (`colorOf c`: the four declared `ColorType`s). -/
theorem setCReg_code_tie (m : Enc.Encoder) (adj : UInt8) (incr : Bool) (c : Color) :
    encode_Encoder_SetCReg m.buf (goErr m.err) m.cSel (goMode m.mode) adj incr (colorOf c)
      = ((m.step (.setCReg adj incr c)).buf, goErr (m.step (.setCReg adj incr c)).err,
         (m.step (.setCReg adj incr c)).cSel, goMode (m.step (.setCReg adj incr c)).mode) := by
  simp only [encode_Encoder_SetCReg, checkModeStyling_code_tie, Enc.Encoder.step, Enc.Encoder.setCReg,
    goErr_isSome, color_Encode1_code_tie, color_Encode2_code_tie, color_Encode3Direct_code_tie,
    color_Encode4_code_tie, color_Encode3Indirect_code_tie, errInvalidSelectorAdjustment_code_tie,
    errInvalidIncrementingAdjustment_code_tie, encAux_seven_le, decide_eq_true_eq]
  have hc : m.checkModeStyling.cSel = m.cSel := (checkModeStyling_frame m).2.2.2.2.1
  rw [← hc]
  generalize m.checkModeStyling = e
  by_cases he : e.err.isSome = true
  · simp [he]
  by_cases ha : adj > 6
  · simp [he, ha, goErr]
  rcases h1 : c.encode1 with _ | x1
  · rcases h2 : c.encode2 with _ | ⟨x2, y2⟩
    · rcases h3 : c.encode3Direct with _ | ⟨x3, y3, z3⟩
      · rcases h4 : c.encode4 with _ | ⟨x4, y4, z4, w4⟩
        · rcases h5 : c.encode3Indirect with _ | ⟨x5, y5, z5⟩
          · exact (cregForm_total c h1 h4 h5).elim
          · cases incr <;> by_cases h0 : adj = 0 <;>
              simp [he, ha, h0, enc1Of, enc2Of, enc3Of, enc4Of, Enc.cregForm, h1, h2, h3, h4, h5, Go.arrGet, goErr]
        · cases incr <;> by_cases h0 : adj = 0 <;>
            simp [he, ha, h0, enc1Of, enc2Of, enc3Of, enc4Of, Enc.cregForm, h1, h2, h3, h4, Go.arrGet, goErr]
      · cases incr <;> by_cases h0 : adj = 0 <;>
          simp [he, ha, h0, enc1Of, enc2Of, enc3Of, enc4Of, Enc.cregForm, h1, h2, h3, Go.arrGet, goErr]
    · cases incr <;> by_cases h0 : adj = 0 <;>
        simp [he, ha, h0, enc1Of, enc2Of, enc3Of, enc4Of, Enc.cregForm, h1, h2, Go.arrGet, goErr]
  · cases incr <;> by_cases h0 : adj = 0 <;>
      simp [he, ha, h0, enc1Of, enc2Of, enc3Of, enc4Of, Enc.cregForm, h1, Go.arrGet, goErr]

/-
`(*Encoder).SetNReg` — three encodings into windows of the scratch array that ALIAS the array field, read back through
`e.scratch[iBest:iBest+nBest]` — is tied in `Encoder7.lean` (`setNReg_code_tie`): the translator calls the tied number
encoders on the empty window and writes what they return into the array (`Go.writeWindow`); the tie shows that the three
windows do not disturb each other.  (An early translation that ignored the aliasing disagreed with the model: with a
zero `scratch`, `SetNReg(0, false, 1.0)` appended `[0xa8, 0x00]` where Go and the model append `[0xa8, 0x02]`.)
-/

end Ivg.Gen.Tie
