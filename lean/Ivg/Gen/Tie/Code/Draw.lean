import Ivg.Gen.Tie.Code.Base
import Ivg.Gen.Code.P_render
import Ivg.Model.Renderer
/-!
# Tie: the Renderer's drawing methods as TRANSLATED from render/render.go = the model's `Renderer.step`,
for all inputs and states (C05, C04, C06 zero-radius excluded: arcs have a loop and are not translated)

The rasteriser behind `z.z` is external to the repository.  The translator turns it into an abstract object
(`raster_Rasterizer_ops R`); here it is instantiated with exactly the contract the model states for it
(`Ivg/Model/Renderer.lean`: Reset puts pen and sub-path start at (0,0); MoveTo sets both; LineTo/QuadTo/CubeTo move
the pen to the end point; ClosePath returns the pen to the sub-path start) plus a log of the calls made.  Each theorem
says: running the translated Go method on that object, from the fields of a model state `z`, yields the object, the
smooth-curve bookkeeping and the call log that the model's `step` yields.  The methods write no other field (the
translation returns every field a method stores to), which is `step_draw_frame` on the model side.
-/
namespace Ivg.Gen.Tie
open Ivg Ivg.Num Ivg.Gen.Code Ivg.Ren

/-- The object behind the Renderer's `raster.Rasterizer`: pen contract of x/image/vector + a log of the calls. -/
structure RastObj where
  penX : F32
  penY : F32
  firstX : F32
  firstY : F32
  log : List (RasterOp F32 F64)

/-- `Draw` receives its source image as a handle (`Go.Ref`: the path of the Renderer field whose address was converted to an
    `image.Image`); `pf` says which paint a handle stands for (see Paint.lean).  A source point other than the origin is
    logged as something the model never emits. -/
def rastOps (pf : Go.Ref → Paint F64) : raster_Rasterizer_ops RastObj where
  Draw s r src sp :=
    { s with log := s.log ++ [if sp = ⟨0, 0⟩ then .draw ⟨r.Min.X, r.Min.Y, r.Max.X, r.Max.Y⟩ (pf src) else .reset (-1) (-1)] }
  Bounds s := (default, s)
  Size s := (default, s)
  Pen s := ((s.penX, s.penY), s)
  Reset s w h := ⟨⟨0⟩, ⟨0⟩, ⟨0⟩, ⟨0⟩, s.log ++ [.reset w h]⟩
  MoveTo s x y := ⟨x, y, x, y, s.log ++ [.moveTo x y]⟩
  LineTo s x y := { s with penX := x, penY := y, log := s.log ++ [.lineTo x y] }
  QuadTo s bx by_ cx cy := { s with penX := cx, penY := cy, log := s.log ++ [.quadTo bx by_ cx cy] }
  CubeTo s bx by_ cx cy dx dy := { s with penX := dx, penY := dy, log := s.log ++ [.cubeTo bx by_ cx cy dx dy] }
  ClosePath s := { s with penX := s.firstX, penY := s.firstY, log := s.log ++ [.closePath] }

abbrev Rn := Renderer F32 F64
abbrev Log := List (RasterOp F32 F64)

def objOf (z : Rn) (l : Log) : RastObj := ⟨z.penX, z.penY, z.firstX, z.firstY, l⟩
/-- Go keeps `prevSmoothType` in a uint8, the model in a Nat (0, 1 or 2) -/
def stOf (z : Rn) : UInt8 := UInt8.ofNat z.prevSmoothType

/-- the bookkeeping invariant of the model: the smooth type is 0, 1 or 2 -/
def SmoothOK (z : Rn) : Prop := z.prevSmoothType ≤ 2

tolerant
theorem two_f32 : (two : F32) = ⟨0x40000000⟩ := by decide

tolerant
private theorem st_ne (z : Rn) (h : SmoothOK z) (k : Nat) (hk : k ≤ 2) :
    (stOf z = UInt8.ofNat k) ↔ (z.prevSmoothType = k) := by
  unfold stOf SmoothOK at *
  constructor
  · intro e
    have := congrArg UInt8.toNat e
    simp at this
    omega
  · intro e; rw [e]

section
variable (pf : Go.Ref → Paint F64) (arc : ArcFn F32 F64) (pinf : F32) (z : Rn) (l : Log)

/-- what a 2-output drawing method returns, in terms of the model's step -/
def out2 (c : Call F32) : RastObj × UInt8 :=
  (objOf (z.step arc pinf c).1 (l ++ (z.step arc pinf c).2), stOf (z.step arc pinf c).1)
/-- what a 4-output drawing method returns -/
def out4 (c : Call F32) : RastObj × UInt8 × F32 × F32 :=
  (objOf (z.step arc pinf c).1 (l ++ (z.step arc pinf c).2), stOf (z.step arc pinf c).1,
   (z.step arc pinf c).1.prevSmoothX, (z.step arc pinf c).1.prevSmoothY)

tolerant
/-- render.go relVec2 -/
theorem relVec2_code_tie (x y : F32) :
    render_Renderer_relVec2 (rastOps pf) (objOf z l) z.scaleX z.scaleY x y = (z.relVecX x, z.relVecY y, objOf z l) := by
  simp [render_Renderer_relVec2, rastOps, objOf, Renderer.relVecX, Renderer.relVecY, render_Renderer_relX,
    render_Renderer_relY, Renderer.relX, Renderer.relY]

tolerant
/-- render.go implicitSmoothPoint -/
theorem implicitSmoothPoint_code_tie (h : SmoothOK z) (k : Nat) (hk : k ≤ 2) :
    render_Renderer_implicitSmoothPoint (rastOps pf) (objOf z l) (stOf z) z.prevSmoothX z.prevSmoothY (UInt8.ofNat k)
      = ((z.implicitSmoothPoint k).1, (z.implicitSmoothPoint k).2, objOf z l) := by
  have e := st_ne z h k hk
  unfold render_Renderer_implicitSmoothPoint Renderer.implicitSmoothPoint
  by_cases hk' : z.prevSmoothType = k
  · have : stOf z = UInt8.ofNat k := e.mpr hk'
    simp [this, hk', rastOps, objOf, two_f32]
  · have : ¬ stOf z = UInt8.ofNat k := fun c => hk' (e.mp c)
    simp [this, hk', rastOps, objOf]

tolerant
/-- render.go AbsLineTo -/
theorem absLineTo_code_tie (x y : F32) :
    render_Renderer_AbsLineTo (rastOps pf) (objOf z l) z.scaleX z.biasX z.scaleY z.biasY z.disabled (stOf z) x y
      = out2 arc pinf z l (.d2 .L x y) := by
  unfold render_Renderer_AbsLineTo out2
  cases hd : z.disabled <;> simp only [hd, Bool.false_eq_true, ↓reduceIte] <;>
    simp [Renderer.step, hd, objOf, stOf, rastOps, Renderer.lineTo, render_Renderer_absVec2, render_Renderer_absX,
      render_Renderer_absY, Renderer.absX, Renderer.absY]

tolerant
/-- render.go RelLineTo -/
theorem relLineTo_code_tie (x y : F32) :
    render_Renderer_RelLineTo (rastOps pf) (objOf z l) z.scaleX z.scaleY z.disabled (stOf z) x y
      = out2 arc pinf z l (.d2 .l x y) := by
  unfold render_Renderer_RelLineTo out2
  cases hd : z.disabled <;> simp only [hd, Bool.false_eq_true, ↓reduceIte, relVec2_code_tie] <;>
    simp [Renderer.step, hd, Renderer.lineTo, rastOps, objOf, stOf, Renderer.relVecX, Renderer.relVecY]

tolerant
/-- render.go AbsHLineTo -/
theorem absHLineTo_code_tie (x : F32) :
    render_Renderer_AbsHLineTo (rastOps pf) (objOf z l) z.scaleX z.biasX z.disabled (stOf z) x
      = out2 arc pinf z l (.d1 .H x) := by
  unfold render_Renderer_AbsHLineTo out2
  cases hd : z.disabled <;> simp only [hd, Bool.false_eq_true, ↓reduceIte] <;>
    simp [Renderer.step, hd, objOf, stOf, rastOps, Renderer.lineTo, render_Renderer_absX, Renderer.absX]

tolerant
/-- render.go RelHLineTo -/
theorem relHLineTo_code_tie (x : F32) :
    render_Renderer_RelHLineTo (rastOps pf) (objOf z l) z.scaleX z.disabled (stOf z) x
      = out2 arc pinf z l (.d1 .h x) := by
  unfold render_Renderer_RelHLineTo out2
  cases hd : z.disabled <;> simp only [hd, Bool.false_eq_true, ↓reduceIte] <;>
    simp [Renderer.step, hd, objOf, stOf, rastOps, Renderer.lineTo, render_Renderer_relX, Renderer.relX]

tolerant
/-- render.go AbsVLineTo -/
theorem absVLineTo_code_tie (y : F32) :
    render_Renderer_AbsVLineTo (rastOps pf) (objOf z l) z.scaleY z.biasY z.disabled (stOf z) y
      = out2 arc pinf z l (.d1 .V y) := by
  unfold render_Renderer_AbsVLineTo out2
  cases hd : z.disabled <;> simp only [hd, Bool.false_eq_true, ↓reduceIte] <;>
    simp [Renderer.step, hd, objOf, stOf, rastOps, Renderer.lineTo, render_Renderer_absY, Renderer.absY]

tolerant
/-- render.go RelVLineTo -/
theorem relVLineTo_code_tie (y : F32) :
    render_Renderer_RelVLineTo (rastOps pf) (objOf z l) z.scaleY z.disabled (stOf z) y
      = out2 arc pinf z l (.d1 .v y) := by
  unfold render_Renderer_RelVLineTo out2
  cases hd : z.disabled <;> simp only [hd, Bool.false_eq_true, ↓reduceIte] <;>
    simp [Renderer.step, hd, objOf, stOf, rastOps, Renderer.lineTo, render_Renderer_relY, Renderer.relY]

tolerant
/-- render.go ClosePathAbsMoveTo -/
theorem closePathAbsMoveTo_code_tie (x y : F32) :
    render_Renderer_ClosePathAbsMoveTo (rastOps pf) (objOf z l) z.scaleX z.biasX z.scaleY z.biasY z.disabled (stOf z) x y
      = out2 arc pinf z l (.d2 .Y x y) := by
  unfold render_Renderer_ClosePathAbsMoveTo out2
  cases hd : z.disabled <;> simp only [hd, Bool.false_eq_true, ↓reduceIte] <;>
    simp [Renderer.step, hd, objOf, stOf, rastOps, Renderer.closePath, Renderer.moveTo, render_Renderer_absVec2,
      render_Renderer_absX, render_Renderer_absY, Renderer.absX, Renderer.absY]

tolerant
/-- render.go ClosePathRelMoveTo: the relative move is measured from the pen AFTER closing, i.e. the sub-path start -/
theorem closePathRelMoveTo_code_tie (x y : F32) :
    render_Renderer_ClosePathRelMoveTo (rastOps pf) (objOf z l) z.scaleX z.scaleY z.disabled (stOf z) x y
      = out2 arc pinf z l (.d2 .y x y) := by
  unfold render_Renderer_ClosePathRelMoveTo out2
  cases hd : z.disabled <;> simp only [hd, Bool.false_eq_true, ↓reduceIte] <;>
    simp [Renderer.step, hd, objOf, stOf, rastOps, Renderer.closePath, Renderer.moveTo, render_Renderer_relVec2,
      render_Renderer_relX, render_Renderer_relY, Renderer.relVecX, Renderer.relVecY, Renderer.relX, Renderer.relY]

tolerant
/-- render.go AbsQuadTo -/
theorem absQuadTo_code_tie (x1 y1 x y : F32) :
    render_Renderer_AbsQuadTo (rastOps pf) (objOf z l) z.scaleX z.biasX z.scaleY z.biasY z.disabled (stOf z)
        z.prevSmoothX z.prevSmoothY x1 y1 x y
      = out4 arc pinf z l (.d4 .Q x1 y1 x y) := by
  unfold render_Renderer_AbsQuadTo out4
  cases hd : z.disabled <;> simp only [hd, Bool.false_eq_true, ↓reduceIte] <;>
    simp [Renderer.step, hd, objOf, stOf, rastOps, Renderer.quadTo, Renderer.setSmooth, render_Renderer_absVec2,
      render_Renderer_absX, render_Renderer_absY, Renderer.absX, Renderer.absY]

tolerant
/-- render.go RelQuadTo -/
theorem relQuadTo_code_tie (x1 y1 x y : F32) :
    render_Renderer_RelQuadTo (rastOps pf) (objOf z l) z.scaleX z.scaleY z.disabled (stOf z)
        z.prevSmoothX z.prevSmoothY x1 y1 x y
      = out4 arc pinf z l (.d4 .q x1 y1 x y) := by
  unfold render_Renderer_RelQuadTo out4
  cases hd : z.disabled <;> simp only [hd, Bool.false_eq_true, ↓reduceIte, relVec2_code_tie] <;>
    simp [Renderer.step, hd, objOf, stOf, rastOps, Renderer.quadTo, Renderer.setSmooth,
      Renderer.relVecX, Renderer.relVecY]

tolerant
/-- render.go AbsCubeTo -/
theorem absCubeTo_code_tie (x1 y1 x2 y2 x y : F32) :
    render_Renderer_AbsCubeTo (rastOps pf) (objOf z l) z.scaleX z.biasX z.scaleY z.biasY z.disabled (stOf z)
        z.prevSmoothX z.prevSmoothY x1 y1 x2 y2 x y
      = out4 arc pinf z l (.d6 .C x1 y1 x2 y2 x y) := by
  unfold render_Renderer_AbsCubeTo out4
  cases hd : z.disabled <;> simp only [hd, Bool.false_eq_true, ↓reduceIte] <;>
    simp [Renderer.step, hd, objOf, stOf, rastOps, Renderer.cubeTo, Renderer.setSmooth, render_Renderer_absVec2,
      render_Renderer_absX, render_Renderer_absY, Renderer.absX, Renderer.absY]

tolerant
/-- render.go RelCubeTo -/
theorem relCubeTo_code_tie (x1 y1 x2 y2 x y : F32) :
    render_Renderer_RelCubeTo (rastOps pf) (objOf z l) z.scaleX z.scaleY z.disabled (stOf z)
        z.prevSmoothX z.prevSmoothY x1 y1 x2 y2 x y
      = out4 arc pinf z l (.d6 .c x1 y1 x2 y2 x y) := by
  unfold render_Renderer_RelCubeTo out4
  cases hd : z.disabled <;> simp only [hd, Bool.false_eq_true, ↓reduceIte, relVec2_code_tie] <;>
    simp [Renderer.step, hd, objOf, stOf, rastOps, Renderer.cubeTo, Renderer.setSmooth,
      Renderer.relVecX, Renderer.relVecY]

tolerant
/-- render.go AbsSmoothQuadTo -/
theorem absSmoothQuadTo_code_tie (h : SmoothOK z) (x y : F32) :
    render_Renderer_AbsSmoothQuadTo (rastOps pf) (objOf z l) z.scaleX z.biasX z.scaleY z.biasY z.disabled (stOf z)
        z.prevSmoothX z.prevSmoothY x y
      = out4 arc pinf z l (.d2 .T x y) := by
  unfold render_Renderer_AbsSmoothQuadTo out4
  have e : render_Renderer_implicitSmoothPoint (rastOps pf) (objOf z l) (stOf z) z.prevSmoothX z.prevSmoothY (1 : UInt8)
      = ((z.implicitSmoothPoint 1).1, (z.implicitSmoothPoint 1).2, objOf z l) := implicitSmoothPoint_code_tie pf z l h 1 (by omega)
  cases hd : z.disabled <;> simp only [hd, Bool.false_eq_true, ↓reduceIte, e] <;>
    simp [Renderer.step, hd, objOf, stOf, rastOps, Renderer.quadTo, Renderer.setSmooth, render_Renderer_absVec2,
      render_Renderer_absX, render_Renderer_absY, Renderer.absX, Renderer.absY]

tolerant
/-- render.go RelSmoothQuadTo -/
theorem relSmoothQuadTo_code_tie (h : SmoothOK z) (x y : F32) :
    render_Renderer_RelSmoothQuadTo (rastOps pf) (objOf z l) z.scaleX z.scaleY z.disabled (stOf z)
        z.prevSmoothX z.prevSmoothY x y
      = out4 arc pinf z l (.d2 .t x y) := by
  unfold render_Renderer_RelSmoothQuadTo out4
  have e : render_Renderer_implicitSmoothPoint (rastOps pf) (objOf z l) (stOf z) z.prevSmoothX z.prevSmoothY (1 : UInt8)
      = ((z.implicitSmoothPoint 1).1, (z.implicitSmoothPoint 1).2, objOf z l) := implicitSmoothPoint_code_tie pf z l h 1 (by omega)
  cases hd : z.disabled <;> simp only [hd, Bool.false_eq_true, ↓reduceIte, e, relVec2_code_tie] <;>
    simp [Renderer.step, hd, objOf, stOf, rastOps, Renderer.quadTo, Renderer.setSmooth,
      Renderer.relVecX, Renderer.relVecY]

tolerant
/-- render.go AbsSmoothCubeTo -/
theorem absSmoothCubeTo_code_tie (h : SmoothOK z) (x2 y2 x y : F32) :
    render_Renderer_AbsSmoothCubeTo (rastOps pf) (objOf z l) z.scaleX z.biasX z.scaleY z.biasY z.disabled (stOf z)
        z.prevSmoothX z.prevSmoothY x2 y2 x y
      = out4 arc pinf z l (.d4 .S x2 y2 x y) := by
  unfold render_Renderer_AbsSmoothCubeTo out4
  have e : render_Renderer_implicitSmoothPoint (rastOps pf) (objOf z l) (stOf z) z.prevSmoothX z.prevSmoothY (2 : UInt8)
      = ((z.implicitSmoothPoint 2).1, (z.implicitSmoothPoint 2).2, objOf z l) := implicitSmoothPoint_code_tie pf z l h 2 (by omega)
  cases hd : z.disabled <;> simp only [hd, Bool.false_eq_true, ↓reduceIte, e] <;>
    simp [Renderer.step, hd, objOf, stOf, rastOps, Renderer.cubeTo, Renderer.setSmooth, render_Renderer_absVec2,
      render_Renderer_absX, render_Renderer_absY, Renderer.absX, Renderer.absY]

tolerant
/-- render.go RelSmoothCubeTo -/
theorem relSmoothCubeTo_code_tie (h : SmoothOK z) (x2 y2 x y : F32) :
    render_Renderer_RelSmoothCubeTo (rastOps pf) (objOf z l) z.scaleX z.scaleY z.disabled (stOf z)
        z.prevSmoothX z.prevSmoothY x2 y2 x y
      = out4 arc pinf z l (.d4 .s x2 y2 x y) := by
  unfold render_Renderer_RelSmoothCubeTo out4
  have e : render_Renderer_implicitSmoothPoint (rastOps pf) (objOf z l) (stOf z) z.prevSmoothX z.prevSmoothY (2 : UInt8)
      = ((z.implicitSmoothPoint 2).1, (z.implicitSmoothPoint 2).2, objOf z l) := implicitSmoothPoint_code_tie pf z l h 2 (by omega)
  cases hd : z.disabled <;> simp only [hd, Bool.false_eq_true, ↓reduceIte, e, relVec2_code_tie] <;>
    simp [Renderer.step, hd, objOf, stOf, rastOps, Renderer.cubeTo, Renderer.setSmooth,
      Renderer.relVecX, Renderer.relVecY]

end

set_option linter.constructorNameAsVariable false

tolerant
/-- the hypothesis of the smooth-curve ties holds of the zero value … -/
theorem smoothOK_zero : SmoothOK (Renderer.zero : Rn) := by simp [SmoothOK, Renderer.zero]

tolerant
/-- every call other than an arc keeps the smooth type in {0,1,2} -/
theorem smoothOK_step (arc : ArcFn F32 F64) (pinf : F32) (z : Rn) (h : SmoothOK z) (c : Call F32)
    (hc : ∀ rel rx ry rot la sw x y, c ≠ .arc rel rx ry rot la sw x y) : SmoothOK (z.step arc pinf c).1 := by
  unfold SmoothOK at *
  cases c with
  | arc => exact absurd rfl (hc _ _ _ _ _ _ _ _)
  | reset vb pal => simp [Renderer.step, Renderer.reset, Renderer.recalcTransform]
  | setCSel | setNSel | setLOD => simpa [Renderer.step] using h
  | setCReg adj incr c => simp only [Renderer.step]; split <;> simpa using h
  | setNReg adj incr c => simp only [Renderer.step]; split <;> simpa using h
  | startPath adj x y =>
    simp only [Renderer.step, Renderer.startPath]
    repeat' split
    all_goals simp_all [Renderer.moveTo]
  | closeEnd => simp only [Renderer.step]; split <;> simp [Renderer.closePath] <;> exact h
  | d1 v x => cases v <;> simp only [Renderer.step] <;> split <;> simp [Renderer.lineTo] <;> exact h
  | d2 v x y =>
    cases v <;> simp only [Renderer.step] <;> split <;>
      simp [Renderer.lineTo, Renderer.closePath, Renderer.moveTo, Renderer.quadTo, Renderer.setSmooth] <;> exact h
  | d4 v a b x y =>
    cases v <;> simp only [Renderer.step] <;> split <;>
      simp [Renderer.quadTo, Renderer.cubeTo, Renderer.setSmooth] <;> exact h
  | d6 v a b c d x y =>
    cases v <;> simp only [Renderer.step] <;> split <;> simp [Renderer.cubeTo, Renderer.setSmooth] <;> exact h

end Ivg.Gen.Tie
