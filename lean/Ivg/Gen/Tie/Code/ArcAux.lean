import Ivg.Gen.Tie.Code.Math
import Ivg.Gen.Tie.Code.Paint
import Ivg.Model.Arc
/-!
# Tie: `(*Renderer).AbsArcTo` and `RelArcTo` of render/render.go, as TRANSLATED from the Go source — the WHOLE arc routine:
endpoint-to-centre conversion, the `angle` closure, the segment loop with the `arcSegmentTo` closure expanded in place,
over the abstract rasteriser object and Go's `math.Sin/Cos/Acos/Sqrt/Abs/Ceil` — = the model's `Renderer.step` on an
`.arc` call with `arc := Ivg.Ren.arcF32` (`Ivg/Model/Arc.lean`), for every state, log and operands, and every fuel ≥ 5.

This file proves the ties from ONE hypothesis, `ArcCountLe4` (the number of segments `⌈|Δθ| / (π/2 + 0.001)⌉` that the
routine computes is at most 4, whatever the vectors): it is what makes a fuel of 5 enough for the translated loop and the
model's own fuel of 8 irrelevant.  `Arc.lean` discharges it with `Ivg.ArcCount.segment_count_le_four`
(`Ivg/Lemmas/ArcCount.lean`, which needs Mathlib) and states the ties without hypothesis.

How the proof goes.  The translation makes 32 copies of the loop (one per path through the preceding tests: radii scaled
or not, `a > 0`, `largeArc == sweep`, `sweep`, sign of the sweep angle); each copy is shown equal to one function
`arcLoopSpec` written with the model's `arcSegment` (`arcLoop1 … arcLoop32`: here `math.Sin/Cos` are replaced by the
port through `sin_code_tie`/`cos_code_tie`), and `arcLoopSpec` with enough fuel makes the calls of the model's
`arcSegments` (`arcLoopSpec_eq`).  The model's step folds the pen over the calls the arc function returns; the Go code
threads the pen through the rasteriser object: `applyOps_objOf` says these agree.  The main proof opens both sides, names
the common subterms (`fold_as`), and follows the tests of the Go code one by one; the `angle` closure is
`absArcTo_angle_code_tie`.
-/
namespace Ivg.Gen.Tie
open Ivg Ivg.Num Ivg.Gen.Code Ivg.Ren
set_option maxRecDepth 100000
set_option linter.unusedSimpArgs false

/-- the rasteriser object after the calls `ops` (what `rastOps` does for `LineTo`/`CubeTo`: the pen moves to the end point,
    the call is logged; the arc routine makes no other call) -/
def applyOps (ops : List (RasterOp F32 F64)) (o : RastObj) : RastObj :=
  ops.foldl (fun o op => match op with
    | .lineTo x y => { o with penX := x, penY := y, log := o.log ++ [op] }
    | .cubeTo _ _ _ _ x y => { o with penX := x, penY := y, log := o.log ++ [op] }
    | _ => { o with log := o.log ++ [op] }) o

tolerant
theorem f64_ofInt_8 : F64.ofInt 8 = ⟨0x4020000000000000⟩ := by decide
tolerant
theorem f64_ofInt_3 : F64.ofInt 3 = ⟨0x4008000000000000⟩ := by decide
tolerant
theorem f64_ofInt_2 : F64.ofInt 2 = ⟨0x4000000000000000⟩ := by decide

/-- replace every occurrence of the term by a fresh variable (syntactic: `generalize` would try to unify soft-float
    terms up to unfolding) -/
macro "fold_as " e:term " => " v:ident : tactic =>
  `(tactic| (have hv : ∃ v, v = $e := ⟨_, rfl⟩; obtain ⟨$v, hv⟩ := hv; simp only [← hv]; clear hv))

variable (pf : Go.Ref → Paint F64)


/-- the segment loop of `AbsArcTo` as the Go code runs it on the object `rastOps` (with the translation's fuel: out of fuel
    yields the default value), in terms of the model's `arcSegment` -/
def arcLoopSpec (z : Rn) (cx cy th dth Rx Ry cosPhi sinPhi : F64) (n : Int) : Nat → Int → RastObj → RastObj × UInt8
  | 0, _, _ => default
  | f + 1, i, o =>
    if i < n then
      arcLoopSpec z cx cy th dth Rx Ry cosPhi sinPhi n f (i + 1)
        (applyOps [arcSegment z cx cy (th + dth * Ren.f i / Ren.f n) (th + dth * Ren.f (i + 1) / Ren.f n) Rx Ry cosPhi sinPhi] o)
    else (o, 0)

/-- one of the 32 copies of the loop that the translation makes (one per path to it) is `arcLoopSpec` -/
macro "arc_loop_proof" eq2:ident n:ident : tactic =>
  `(tactic| (
    intro fuel
    induction fuel with
    | zero => intro i o; rfl
    | succ f ih =>
      intro i o
      rw [$eq2:ident, arcLoopSpec]
      by_cases hi : i < $n
      · simp only [hi, decide_true, if_true]
        rw [ih]
        simp only [applyOps, List.foldl_cons, List.foldl_nil, arcSegment, rastOps, Renderer.absX, Renderer.absY,
          render_Renderer_absX, render_Renderer_absY, Go.cvt_int_f64, Go.cvt_f64_f32, Int.add_zero, sin_code_tie, cos_code_tie,
          Ren.f, f64_ofInt_8, f64_ofInt_3]
      · simp only [hi, decide_false, if_false, Bool.false_eq_true]))

tolerant
theorem arcLoop1 (z : Rn) (cosPhi sinPhi Rx Ry cx cy th dth : F64) (n : Int) : ∀ (fuel : Nat) (i : Int) (o : RastObj),
    render_Renderer_AbsArcTo.loop19_1 (rastOps pf) z.scaleX z.biasX z.scaleY z.biasY cosPhi sinPhi Rx Ry cx cy th dth n fuel i o
      = arcLoopSpec z cx cy th dth Rx Ry cosPhi sinPhi n fuel i o := by
  arc_loop_proof render_Renderer_AbsArcTo.loop19_1.eq_2 n
tolerant
theorem arcLoop2 (z : Rn) (cosPhi sinPhi Rx Ry cx cy th dth : F64) (n : Int) : ∀ (fuel : Nat) (i : Int) (o : RastObj),
    render_Renderer_AbsArcTo.loop19_2 (rastOps pf) z.scaleX z.biasX z.scaleY z.biasY cosPhi sinPhi Rx Ry cx cy th dth n fuel i o
      = arcLoopSpec z cx cy th dth Rx Ry cosPhi sinPhi n fuel i o := by
  arc_loop_proof render_Renderer_AbsArcTo.loop19_2.eq_2 n
tolerant
theorem arcLoop3 (z : Rn) (cosPhi sinPhi Rx Ry cx cy th dth : F64) (n : Int) : ∀ (fuel : Nat) (i : Int) (o : RastObj),
    render_Renderer_AbsArcTo.loop19_3 (rastOps pf) z.scaleX z.biasX z.scaleY z.biasY cosPhi sinPhi Rx Ry cx cy th dth n fuel i o
      = arcLoopSpec z cx cy th dth Rx Ry cosPhi sinPhi n fuel i o := by
  arc_loop_proof render_Renderer_AbsArcTo.loop19_3.eq_2 n
tolerant
theorem arcLoop4 (z : Rn) (cosPhi sinPhi Rx Ry cx cy th dth : F64) (n : Int) : ∀ (fuel : Nat) (i : Int) (o : RastObj),
    render_Renderer_AbsArcTo.loop19_4 (rastOps pf) z.scaleX z.biasX z.scaleY z.biasY cosPhi sinPhi Rx Ry cx cy th dth n fuel i o
      = arcLoopSpec z cx cy th dth Rx Ry cosPhi sinPhi n fuel i o := by
  arc_loop_proof render_Renderer_AbsArcTo.loop19_4.eq_2 n
tolerant
theorem arcLoop5 (z : Rn) (cosPhi sinPhi Rx Ry cx cy th dth : F64) (n : Int) : ∀ (fuel : Nat) (i : Int) (o : RastObj),
    render_Renderer_AbsArcTo.loop19_5 (rastOps pf) z.scaleX z.biasX z.scaleY z.biasY cosPhi sinPhi Rx Ry cx cy th dth n fuel i o
      = arcLoopSpec z cx cy th dth Rx Ry cosPhi sinPhi n fuel i o := by
  arc_loop_proof render_Renderer_AbsArcTo.loop19_5.eq_2 n
tolerant
theorem arcLoop6 (z : Rn) (cosPhi sinPhi Rx Ry cx cy th dth : F64) (n : Int) : ∀ (fuel : Nat) (i : Int) (o : RastObj),
    render_Renderer_AbsArcTo.loop19_6 (rastOps pf) z.scaleX z.biasX z.scaleY z.biasY cosPhi sinPhi Rx Ry cx cy th dth n fuel i o
      = arcLoopSpec z cx cy th dth Rx Ry cosPhi sinPhi n fuel i o := by
  arc_loop_proof render_Renderer_AbsArcTo.loop19_6.eq_2 n
tolerant
theorem arcLoop7 (z : Rn) (cosPhi sinPhi Rx Ry cx cy th dth : F64) (n : Int) : ∀ (fuel : Nat) (i : Int) (o : RastObj),
    render_Renderer_AbsArcTo.loop19_7 (rastOps pf) z.scaleX z.biasX z.scaleY z.biasY cosPhi sinPhi Rx Ry cx cy th dth n fuel i o
      = arcLoopSpec z cx cy th dth Rx Ry cosPhi sinPhi n fuel i o := by
  arc_loop_proof render_Renderer_AbsArcTo.loop19_7.eq_2 n
tolerant
theorem arcLoop8 (z : Rn) (cosPhi sinPhi Rx Ry cx cy th dth : F64) (n : Int) : ∀ (fuel : Nat) (i : Int) (o : RastObj),
    render_Renderer_AbsArcTo.loop19_8 (rastOps pf) z.scaleX z.biasX z.scaleY z.biasY cosPhi sinPhi Rx Ry cx cy th dth n fuel i o
      = arcLoopSpec z cx cy th dth Rx Ry cosPhi sinPhi n fuel i o := by
  arc_loop_proof render_Renderer_AbsArcTo.loop19_8.eq_2 n
tolerant
theorem arcLoop9 (z : Rn) (cosPhi sinPhi Rx Ry cx cy th dth : F64) (n : Int) : ∀ (fuel : Nat) (i : Int) (o : RastObj),
    render_Renderer_AbsArcTo.loop19_9 (rastOps pf) z.scaleX z.biasX z.scaleY z.biasY cosPhi sinPhi Rx Ry cx cy th dth n fuel i o
      = arcLoopSpec z cx cy th dth Rx Ry cosPhi sinPhi n fuel i o := by
  arc_loop_proof render_Renderer_AbsArcTo.loop19_9.eq_2 n
tolerant
theorem arcLoop10 (z : Rn) (cosPhi sinPhi Rx Ry cx cy th dth : F64) (n : Int) : ∀ (fuel : Nat) (i : Int) (o : RastObj),
    render_Renderer_AbsArcTo.loop19_10 (rastOps pf) z.scaleX z.biasX z.scaleY z.biasY cosPhi sinPhi Rx Ry cx cy th dth n fuel i o
      = arcLoopSpec z cx cy th dth Rx Ry cosPhi sinPhi n fuel i o := by
  arc_loop_proof render_Renderer_AbsArcTo.loop19_10.eq_2 n
tolerant
theorem arcLoop11 (z : Rn) (cosPhi sinPhi Rx Ry cx cy th dth : F64) (n : Int) : ∀ (fuel : Nat) (i : Int) (o : RastObj),
    render_Renderer_AbsArcTo.loop19_11 (rastOps pf) z.scaleX z.biasX z.scaleY z.biasY cosPhi sinPhi Rx Ry cx cy th dth n fuel i o
      = arcLoopSpec z cx cy th dth Rx Ry cosPhi sinPhi n fuel i o := by
  arc_loop_proof render_Renderer_AbsArcTo.loop19_11.eq_2 n
tolerant
theorem arcLoop12 (z : Rn) (cosPhi sinPhi Rx Ry cx cy th dth : F64) (n : Int) : ∀ (fuel : Nat) (i : Int) (o : RastObj),
    render_Renderer_AbsArcTo.loop19_12 (rastOps pf) z.scaleX z.biasX z.scaleY z.biasY cosPhi sinPhi Rx Ry cx cy th dth n fuel i o
      = arcLoopSpec z cx cy th dth Rx Ry cosPhi sinPhi n fuel i o := by
  arc_loop_proof render_Renderer_AbsArcTo.loop19_12.eq_2 n
tolerant
theorem arcLoop13 (z : Rn) (cosPhi sinPhi Rx Ry cx cy th dth : F64) (n : Int) : ∀ (fuel : Nat) (i : Int) (o : RastObj),
    render_Renderer_AbsArcTo.loop19_13 (rastOps pf) z.scaleX z.biasX z.scaleY z.biasY cosPhi sinPhi Rx Ry cx cy th dth n fuel i o
      = arcLoopSpec z cx cy th dth Rx Ry cosPhi sinPhi n fuel i o := by
  arc_loop_proof render_Renderer_AbsArcTo.loop19_13.eq_2 n
tolerant
theorem arcLoop14 (z : Rn) (cosPhi sinPhi Rx Ry cx cy th dth : F64) (n : Int) : ∀ (fuel : Nat) (i : Int) (o : RastObj),
    render_Renderer_AbsArcTo.loop19_14 (rastOps pf) z.scaleX z.biasX z.scaleY z.biasY cosPhi sinPhi Rx Ry cx cy th dth n fuel i o
      = arcLoopSpec z cx cy th dth Rx Ry cosPhi sinPhi n fuel i o := by
  arc_loop_proof render_Renderer_AbsArcTo.loop19_14.eq_2 n
tolerant
theorem arcLoop15 (z : Rn) (cosPhi sinPhi Rx Ry cx cy th dth : F64) (n : Int) : ∀ (fuel : Nat) (i : Int) (o : RastObj),
    render_Renderer_AbsArcTo.loop19_15 (rastOps pf) z.scaleX z.biasX z.scaleY z.biasY cosPhi sinPhi Rx Ry cx cy th dth n fuel i o
      = arcLoopSpec z cx cy th dth Rx Ry cosPhi sinPhi n fuel i o := by
  arc_loop_proof render_Renderer_AbsArcTo.loop19_15.eq_2 n
tolerant
theorem arcLoop16 (z : Rn) (cosPhi sinPhi Rx Ry cx cy th dth : F64) (n : Int) : ∀ (fuel : Nat) (i : Int) (o : RastObj),
    render_Renderer_AbsArcTo.loop19_16 (rastOps pf) z.scaleX z.biasX z.scaleY z.biasY cosPhi sinPhi Rx Ry cx cy th dth n fuel i o
      = arcLoopSpec z cx cy th dth Rx Ry cosPhi sinPhi n fuel i o := by
  arc_loop_proof render_Renderer_AbsArcTo.loop19_16.eq_2 n
tolerant
theorem arcLoop17 (z : Rn) (cosPhi sinPhi Rx Ry cx cy th dth : F64) (n : Int) : ∀ (fuel : Nat) (i : Int) (o : RastObj),
    render_Renderer_AbsArcTo.loop19_17 (rastOps pf) z.scaleX z.biasX z.scaleY z.biasY Rx Ry cosPhi sinPhi cx cy th dth n fuel i o
      = arcLoopSpec z cx cy th dth Rx Ry cosPhi sinPhi n fuel i o := by
  arc_loop_proof render_Renderer_AbsArcTo.loop19_17.eq_2 n
tolerant
theorem arcLoop18 (z : Rn) (cosPhi sinPhi Rx Ry cx cy th dth : F64) (n : Int) : ∀ (fuel : Nat) (i : Int) (o : RastObj),
    render_Renderer_AbsArcTo.loop19_18 (rastOps pf) z.scaleX z.biasX z.scaleY z.biasY Rx Ry cosPhi sinPhi cx cy th dth n fuel i o
      = arcLoopSpec z cx cy th dth Rx Ry cosPhi sinPhi n fuel i o := by
  arc_loop_proof render_Renderer_AbsArcTo.loop19_18.eq_2 n
tolerant
theorem arcLoop19 (z : Rn) (cosPhi sinPhi Rx Ry cx cy th dth : F64) (n : Int) : ∀ (fuel : Nat) (i : Int) (o : RastObj),
    render_Renderer_AbsArcTo.loop19_19 (rastOps pf) z.scaleX z.biasX z.scaleY z.biasY Rx Ry cosPhi sinPhi cx cy th dth n fuel i o
      = arcLoopSpec z cx cy th dth Rx Ry cosPhi sinPhi n fuel i o := by
  arc_loop_proof render_Renderer_AbsArcTo.loop19_19.eq_2 n
tolerant
theorem arcLoop20 (z : Rn) (cosPhi sinPhi Rx Ry cx cy th dth : F64) (n : Int) : ∀ (fuel : Nat) (i : Int) (o : RastObj),
    render_Renderer_AbsArcTo.loop19_20 (rastOps pf) z.scaleX z.biasX z.scaleY z.biasY Rx Ry cosPhi sinPhi cx cy th dth n fuel i o
      = arcLoopSpec z cx cy th dth Rx Ry cosPhi sinPhi n fuel i o := by
  arc_loop_proof render_Renderer_AbsArcTo.loop19_20.eq_2 n
tolerant
theorem arcLoop21 (z : Rn) (cosPhi sinPhi Rx Ry cx cy th dth : F64) (n : Int) : ∀ (fuel : Nat) (i : Int) (o : RastObj),
    render_Renderer_AbsArcTo.loop19_21 (rastOps pf) z.scaleX z.biasX z.scaleY z.biasY Rx Ry cosPhi sinPhi cx cy th dth n fuel i o
      = arcLoopSpec z cx cy th dth Rx Ry cosPhi sinPhi n fuel i o := by
  arc_loop_proof render_Renderer_AbsArcTo.loop19_21.eq_2 n
tolerant
theorem arcLoop22 (z : Rn) (cosPhi sinPhi Rx Ry cx cy th dth : F64) (n : Int) : ∀ (fuel : Nat) (i : Int) (o : RastObj),
    render_Renderer_AbsArcTo.loop19_22 (rastOps pf) z.scaleX z.biasX z.scaleY z.biasY Rx Ry cosPhi sinPhi cx cy th dth n fuel i o
      = arcLoopSpec z cx cy th dth Rx Ry cosPhi sinPhi n fuel i o := by
  arc_loop_proof render_Renderer_AbsArcTo.loop19_22.eq_2 n
tolerant
theorem arcLoop23 (z : Rn) (cosPhi sinPhi Rx Ry cx cy th dth : F64) (n : Int) : ∀ (fuel : Nat) (i : Int) (o : RastObj),
    render_Renderer_AbsArcTo.loop19_23 (rastOps pf) z.scaleX z.biasX z.scaleY z.biasY Rx Ry cosPhi sinPhi cx cy th dth n fuel i o
      = arcLoopSpec z cx cy th dth Rx Ry cosPhi sinPhi n fuel i o := by
  arc_loop_proof render_Renderer_AbsArcTo.loop19_23.eq_2 n
tolerant
theorem arcLoop24 (z : Rn) (cosPhi sinPhi Rx Ry cx cy th dth : F64) (n : Int) : ∀ (fuel : Nat) (i : Int) (o : RastObj),
    render_Renderer_AbsArcTo.loop19_24 (rastOps pf) z.scaleX z.biasX z.scaleY z.biasY Rx Ry cosPhi sinPhi cx cy th dth n fuel i o
      = arcLoopSpec z cx cy th dth Rx Ry cosPhi sinPhi n fuel i o := by
  arc_loop_proof render_Renderer_AbsArcTo.loop19_24.eq_2 n
tolerant
theorem arcLoop25 (z : Rn) (cosPhi sinPhi Rx Ry cx cy th dth : F64) (n : Int) : ∀ (fuel : Nat) (i : Int) (o : RastObj),
    render_Renderer_AbsArcTo.loop19_25 (rastOps pf) z.scaleX z.biasX z.scaleY z.biasY Rx Ry cosPhi sinPhi cx cy th dth n fuel i o
      = arcLoopSpec z cx cy th dth Rx Ry cosPhi sinPhi n fuel i o := by
  arc_loop_proof render_Renderer_AbsArcTo.loop19_25.eq_2 n
tolerant
theorem arcLoop26 (z : Rn) (cosPhi sinPhi Rx Ry cx cy th dth : F64) (n : Int) : ∀ (fuel : Nat) (i : Int) (o : RastObj),
    render_Renderer_AbsArcTo.loop19_26 (rastOps pf) z.scaleX z.biasX z.scaleY z.biasY Rx Ry cosPhi sinPhi cx cy th dth n fuel i o
      = arcLoopSpec z cx cy th dth Rx Ry cosPhi sinPhi n fuel i o := by
  arc_loop_proof render_Renderer_AbsArcTo.loop19_26.eq_2 n
tolerant
theorem arcLoop27 (z : Rn) (cosPhi sinPhi Rx Ry cx cy th dth : F64) (n : Int) : ∀ (fuel : Nat) (i : Int) (o : RastObj),
    render_Renderer_AbsArcTo.loop19_27 (rastOps pf) z.scaleX z.biasX z.scaleY z.biasY Rx Ry cosPhi sinPhi cx cy th dth n fuel i o
      = arcLoopSpec z cx cy th dth Rx Ry cosPhi sinPhi n fuel i o := by
  arc_loop_proof render_Renderer_AbsArcTo.loop19_27.eq_2 n
tolerant
theorem arcLoop28 (z : Rn) (cosPhi sinPhi Rx Ry cx cy th dth : F64) (n : Int) : ∀ (fuel : Nat) (i : Int) (o : RastObj),
    render_Renderer_AbsArcTo.loop19_28 (rastOps pf) z.scaleX z.biasX z.scaleY z.biasY Rx Ry cosPhi sinPhi cx cy th dth n fuel i o
      = arcLoopSpec z cx cy th dth Rx Ry cosPhi sinPhi n fuel i o := by
  arc_loop_proof render_Renderer_AbsArcTo.loop19_28.eq_2 n
tolerant
theorem arcLoop29 (z : Rn) (cosPhi sinPhi Rx Ry cx cy th dth : F64) (n : Int) : ∀ (fuel : Nat) (i : Int) (o : RastObj),
    render_Renderer_AbsArcTo.loop19_29 (rastOps pf) z.scaleX z.biasX z.scaleY z.biasY Rx Ry cosPhi sinPhi cx cy th dth n fuel i o
      = arcLoopSpec z cx cy th dth Rx Ry cosPhi sinPhi n fuel i o := by
  arc_loop_proof render_Renderer_AbsArcTo.loop19_29.eq_2 n
tolerant
theorem arcLoop30 (z : Rn) (cosPhi sinPhi Rx Ry cx cy th dth : F64) (n : Int) : ∀ (fuel : Nat) (i : Int) (o : RastObj),
    render_Renderer_AbsArcTo.loop19_30 (rastOps pf) z.scaleX z.biasX z.scaleY z.biasY Rx Ry cosPhi sinPhi cx cy th dth n fuel i o
      = arcLoopSpec z cx cy th dth Rx Ry cosPhi sinPhi n fuel i o := by
  arc_loop_proof render_Renderer_AbsArcTo.loop19_30.eq_2 n
tolerant
theorem arcLoop31 (z : Rn) (cosPhi sinPhi Rx Ry cx cy th dth : F64) (n : Int) : ∀ (fuel : Nat) (i : Int) (o : RastObj),
    render_Renderer_AbsArcTo.loop19_31 (rastOps pf) z.scaleX z.biasX z.scaleY z.biasY Rx Ry cosPhi sinPhi cx cy th dth n fuel i o
      = arcLoopSpec z cx cy th dth Rx Ry cosPhi sinPhi n fuel i o := by
  arc_loop_proof render_Renderer_AbsArcTo.loop19_31.eq_2 n
tolerant
theorem arcLoop32 (z : Rn) (cosPhi sinPhi Rx Ry cx cy th dth : F64) (n : Int) : ∀ (fuel : Nat) (i : Int) (o : RastObj),
    render_Renderer_AbsArcTo.loop19_32 (rastOps pf) z.scaleX z.biasX z.scaleY z.biasY Rx Ry cosPhi sinPhi cx cy th dth n fuel i o
      = arcLoopSpec z cx cy th dth Rx Ry cosPhi sinPhi n fuel i o := by
  arc_loop_proof render_Renderer_AbsArcTo.loop19_32.eq_2 n

tolerant
/-- with fuel above the count, the loop makes exactly the calls of the model's `arcSegments` -/
theorem arcLoopSpec_eq (z : Rn) (cx cy th dth Rx Ry cosPhi sinPhi : F64) (n : Int) :
    ∀ (fuel : Nat) (i : Int) (o : RastObj), (n - i).toNat < fuel →
      arcLoopSpec z cx cy th dth Rx Ry cosPhi sinPhi n fuel i o
        = (applyOps (arcSegments z cx cy th dth Rx Ry cosPhi sinPhi n fuel i) o, 0) := by
  intro fuel
  induction fuel with
  | zero => intro i o h; omega
  | succ f ih =>
    intro i o h
    rw [arcLoopSpec, arcSegments]
    by_cases hi : i < n
    · rw [if_pos hi, if_pos hi, ih _ _ (by omega)]
      simp only [applyOps, List.foldl_cons, List.foldl_nil]
    · rw [if_neg hi, if_neg hi]; rfl

tolerant
/-- the fuel of the model's structural recursion does not matter once it covers the count -/
theorem arcSegments_fuel' (z : Rn) (cx cy t1 dt rx ry c s : F64) (n : Int) :
    ∀ (fuel fuel' : Nat) (i : Int), (n - i).toNat ≤ fuel → (n - i).toNat ≤ fuel' →
      arcSegments z cx cy t1 dt rx ry c s n fuel i = arcSegments z cx cy t1 dt rx ry c s n fuel' i := by
  intro fuel
  induction fuel with
  | zero =>
    intro fuel' i h1 _
    cases fuel' with
    | zero => rfl
    | succ f =>
      unfold arcSegments
      rw [if_neg (by omega)]
  | succ fuel ih =>
    intro fuel' i h1 h2
    cases fuel' with
    | zero =>
      unfold arcSegments
      rw [if_neg (by omega)]
    | succ f =>
      unfold arcSegments
      split
      · rw [ih f (i + 1) (by omega) (by omega)]
      · rfl

tolerant
/-- a leaf of `AbsArcTo`: the loop run with fuel ≥ 5 on a count ≤ 4 makes the calls of the model (whose own fuel is 8) -/
theorem arc_leaf (z : Rn) (o : RastObj) (fuel : Nat) (hf : 5 ≤ fuel) (cx cy th dth Rx Ry cosPhi sinPhi : F64) (n : Int)
    (hn : n ≤ 4) :
    arcLoopSpec z cx cy th dth Rx Ry cosPhi sinPhi n fuel 0 o
      = (applyOps (arcSegments z cx cy th dth Rx Ry cosPhi sinPhi n 8 0) o, 0) := by
  rw [arcLoopSpec_eq _ _ _ _ _ _ _ _ _ _ _ _ _ (by omega),
    arcSegments_fuel' z cx cy th dth Rx Ry cosPhi sinPhi n fuel 8 0 (by omega) (by omega)]

tolerant
theorem applyOps_objOf (g : Rn → RasterOp F32 F64 → Rn)
    (hg : ∀ (z : Rn) (op : RasterOp F32 F64) (l : Log), objOf (g z op) (l ++ [op]) = applyOps [op] (objOf z l))
    (ops : List (RasterOp F32 F64)) : ∀ (z : Rn) (l : Log),
      applyOps ops (objOf z l) = objOf (ops.foldl g z) (l ++ ops) := by
  induction ops with
  | nil => intro z l; simp [applyOps]
  | cons op ops ih =>
    intro z l
    have h1 : applyOps (op :: ops) (objOf z l) = applyOps ops (applyOps [op] (objOf z l)) := by
      simp [applyOps]
    rw [h1, ← hg, ih]
    simp

tolerant
theorem foldl_smooth (g : Rn → RasterOp F32 F64 → Rn) (hg : ∀ z op, (g z op).prevSmoothType = z.prevSmoothType)
    (ops : List (RasterOp F32 F64)) : ∀ z : Rn, (ops.foldl g z).prevSmoothType = z.prevSmoothType := by
  induction ops with
  | nil => intro z; rfl
  | cons op ops ih => intro z; rw [List.foldl_cons, ih, hg]

tolerant
theorem twoPi_lit : Ren.twoPi = ⟨0x401921fb54442d18⟩ := by decide


tolerant
theorem unabsX_prime (z : Rn) (a : F32) : Renderer.unabsX { z with prevSmoothType := 0 } a = z.unabsX a := rfl
tolerant
theorem unabsY_prime (z : Rn) (a : F32) : Renderer.unabsY { z with prevSmoothType := 0 } a = z.unabsY a := rfl
tolerant
theorem absX_prime (z : Rn) (a : F32) : Renderer.absX { z with prevSmoothType := 0 } a = z.absX a := rfl
tolerant
theorem absY_prime (z : Rn) (a : F32) : Renderer.absY { z with prevSmoothType := 0 } a = z.absY a := rfl
tolerant
theorem arcSegments_prime (z : Rn) (cx cy t1 dt rx ry c s : F64) (n : Int) : ∀ (fuel : Nat) (i : Int),
    arcSegments { z with prevSmoothType := 0 } cx cy t1 dt rx ry c s n fuel i = arcSegments z cx cy t1 dt rx ry c s n fuel i := by
  intro fuel
  induction fuel with
  | zero => intro i; rfl
  | succ f ih => intro i; unfold arcSegments; rw [ih]; rfl

tolerant
theorem arcF32_prime (z : Rn) (rx ry rot : F32) (la sw : Bool) (x y : F32) :
    arcF32 { z with prevSmoothType := 0 } rx ry rot la sw x y = arcF32 z rx ry rot la sw x y := by
  unfold arcF32
  simp only [arcSegments_prime]
  rfl

tolerant
/-- the model's step for an arc, in terms of `applyOps` -/
theorem step_arc_abs (pinf : F32) (z : Rn) (l : Log) (hd : z.disabled = false) (rx ry rot : F32) (la sw : Bool) (x y : F32) :
    out2 arcF32 pinf z l (.arc false rx ry rot la sw x y) =
      (applyOps (arcF32 z rx ry rot la sw x y) (objOf z l), 0) := by
  rw [← arcF32_prime]
  unfold out2
  simp only [Renderer.step, Bool.false_eq_true, if_false]
  split
  · rename_i h; rw [hd] at h; cases h
  · rw [show objOf z l = objOf { z with prevSmoothType := 0 } l from rfl, applyOps_objOf]
    · congr 1
      unfold stOf
      rw [foldl_smooth]
      · rfl
      · intro z op; cases op <;> rfl
    · intro z op l; cases op <;> rfl

tolerant
theorem unabsX_tie (z : Rn) (a : F32) : render_Renderer_unabsX z.scaleX z.biasX a = z.unabsX a := rfl
tolerant
theorem unabsY_tie (z : Rn) (a : F32) : render_Renderer_unabsY z.scaleY z.biasY a = z.unabsY a := rfl
tolerant
theorem absX_tie (z : Rn) (a : F32) : render_Renderer_absX z.scaleX z.biasX a = z.absX a := rfl
tolerant
theorem absY_tie (z : Rn) (a : F32) : render_Renderer_absY z.scaleY z.biasY a = z.absY a := rfl
tolerant
theorem rastOps_Pen (o : RastObj) : (rastOps pf).Pen o = ((o.penX, o.penY), o) := rfl
tolerant
theorem rastOps_LineTo (o : RastObj) (a b : F32) :
    (rastOps pf).LineTo o a b = { o with penX := a, penY := b, log := o.log ++ [.lineTo a b] } := rfl
tolerant
theorem objOf_penX (z : Rn) (l : Log) : (objOf z l).penX = z.penX := rfl
tolerant
theorem objOf_penY (z : Rn) (l : Log) : (objOf z l).penY = z.penY := rfl


tolerant
theorem segAngle_lit : Ren.segAngle = ⟨0x3ff92613e7b8e983⟩ := rfl

/-- the sweep adjustment of `AbsArcTo` (render.go: `if sweep { if Δθ < 0 { Δθ += 2π } } else { if Δθ > 0 { Δθ -= 2π } }`) -/
def arcAdjust (sw : Bool) (d0 : F64) : F64 :=
  if sw then (if d0 < Ren.f 0 then d0 + twoPi else d0)
  else (if Ren.f 0 < d0 then d0 - twoPi else d0)

/-- THE HYPOTHESIS of this file: the segment count computed by `AbsArcTo` is at most 4, whatever the (float64) vectors.
    Proved as `Ivg.ArcCount.segment_count_le_four`; `Arc.lean` instantiates it. -/
def ArcCountLe4 : Prop :=
  ∀ (sw : Bool) (ux uy vx vy : F64), ((arcAdjust sw (arcAngle ux uy vx vy)).abs / segAngle).ceil.toInt64 ≤ 4

tolerant
/-- the count bound in the four forms in which the adjusted sweep angle reaches the loop -/
theorem count_le_tt (H : ArcCountLe4) (ux uy vx vy : F64) (h : F64.lt (arcAngle ux uy vx vy) ⟨0⟩ = true) :
    F64.toInt64 (F64.ceil (F64.abs (arcAngle ux uy vx vy + ⟨0x401921fb54442d18⟩) / ⟨0x3ff92613e7b8e983⟩)) ≤ 4 := by
  have := H true ux uy vx vy
  simpa only [arcAdjust, Ren.f, f64_ofInt_zero', f64_lt_iff, h, if_true, twoPi_lit, segAngle_lit] using this
tolerant
theorem count_le_tf (H : ArcCountLe4) (ux uy vx vy : F64) (h : ¬ F64.lt (arcAngle ux uy vx vy) ⟨0⟩ = true) :
    F64.toInt64 (F64.ceil (F64.abs (arcAngle ux uy vx vy) / ⟨0x3ff92613e7b8e983⟩)) ≤ 4 := by
  have := H true ux uy vx vy
  simpa only [arcAdjust, Ren.f, f64_ofInt_zero', f64_lt_iff, h, if_true, if_false, twoPi_lit, segAngle_lit,
    Bool.false_eq_true] using this
tolerant
theorem count_le_ft (H : ArcCountLe4) (ux uy vx vy : F64) (h : F64.lt ⟨0⟩ (arcAngle ux uy vx vy) = true) :
    F64.toInt64 (F64.ceil (F64.abs (arcAngle ux uy vx vy - ⟨0x401921fb54442d18⟩) / ⟨0x3ff92613e7b8e983⟩)) ≤ 4 := by
  have := H false ux uy vx vy
  simpa only [arcAdjust, Ren.f, f64_ofInt_zero', f64_lt_iff, h, if_true, if_false, twoPi_lit, segAngle_lit,
    Bool.false_eq_true] using this
tolerant
theorem count_le_ff (H : ArcCountLe4) (ux uy vx vy : F64) (h : ¬ F64.lt ⟨0⟩ (arcAngle ux uy vx vy) = true) :
    F64.toInt64 (F64.ceil (F64.abs (arcAngle ux uy vx vy) / ⟨0x3ff92613e7b8e983⟩)) ≤ 4 := by
  have := H false ux uy vx vy
  simpa only [arcAdjust, Ren.f, f64_ofInt_zero', f64_lt_iff, h, if_true, if_false, twoPi_lit, segAngle_lit,
    Bool.false_eq_true] using this

/-- the tests on `sweep` and on the sign of the sweep angle; every leaf is `arc_leaf` with the matching form of the count
    bound -/
macro "arc_sweep_tac" H:ident z:ident hf:ident sw:ident : tactic =>
  `(tactic| (
    cases $sw:ident
    · simp only [if_true, if_false, Bool.false_eq_true]
      split
      · rename_i h; exact arc_leaf $z _ _ $hf _ _ _ _ _ _ _ _ _ (count_le_ft $H _ _ _ _ h)
      · rename_i h; exact arc_leaf $z _ _ $hf _ _ _ _ _ _ _ _ _ (count_le_ff $H _ _ _ _ h)
    · simp only [if_true, if_false, Bool.false_eq_true]
      split
      · rename_i h; exact arc_leaf $z _ _ $hf _ _ _ _ _ _ _ _ _ (count_le_tt $H _ _ _ _ h)
      · rename_i h; exact arc_leaf $z _ _ $hf _ _ _ _ _ _ _ _ _ (count_le_tf $H _ _ _ _ h)))

/-- after the radii are fixed: the tests on `a > 0` and `largeArc == sweep`, then `arc_sweep_tac` -/
macro "arc_tail_tac" H:ident z:ident hf:ident la:ident sw:ident : tactic =>
  `(tactic| (
    split <;> (
      by_cases h5 : $la = $sw
      · simp only [h5, decide_true, beq_self_eq_true, if_true]
        arc_sweep_tac $H $z $hf $sw
      · simp only [h5, decide_false, if_false, Bool.false_eq_true, beq_eq_false_iff_ne.2 h5]
        arc_sweep_tac $H $z $hf $sw)))

tolerant
set_option maxHeartbeats 800000 in
/-- render.go `AbsArcTo`, for every state `z`, log `l`, operands and fuel ≥ 5 (hypothesis `hf`), from the count bound `H` -/
theorem absArcTo_code_tie_of_count (H : ArcCountLe4) (pinf : F32) (z : Rn) (l : Log) (fuel : Nat) (hf : 5 ≤ fuel) (rx ry rot : F32) (la sw : Bool) (x y : F32) :
    render_Renderer_AbsArcTo (rastOps pf) fuel (objOf z l) z.scaleX z.biasX z.scaleY z.biasY z.disabled (stOf z) rx ry rot la sw x y
      = out2 arcF32 pinf z l (.arc false rx ry rot la sw x y) := by
  cases hd : z.disabled
  · rw [step_arc_abs pinf z l hd]
    simp only [render_Renderer_AbsArcTo, hd, Bool.false_eq_true, if_false, arcF32, absArcTo_angle_code_tie,
      sin_code_tie, cos_code_tie, Go.cvt_f32_f64, Go.cvt_f64_int, unabsX_tie, unabsY_tie, rastOps_Pen, rastOps_LineTo, objOf_penX, objOf_penY, Ren.f, f64_ofInt_zero', f64_ofInt_one',
      f64_ofInt_2, twoPi_lit, segAngle_lit, f64_lt_iff, arcLoop1 pf z, arcLoop2 pf z, arcLoop3 pf z, arcLoop4 pf z, arcLoop5 pf z, arcLoop6 pf z, arcLoop7 pf z, arcLoop8 pf z, arcLoop9 pf z, arcLoop10 pf z, arcLoop11 pf z, arcLoop12 pf z, arcLoop13 pf z, arcLoop14 pf z, arcLoop15 pf z, arcLoop16 pf z, arcLoop17 pf z, arcLoop18 pf z, arcLoop19 pf z, arcLoop20 pf z, arcLoop21 pf z, arcLoop22 pf z, arcLoop23 pf z, arcLoop24 pf z, arcLoop25 pf z, arcLoop26 pf z, arcLoop27 pf z, arcLoop28 pf z, arcLoop29 pf z, arcLoop30 pf z, arcLoop31 pf z, arcLoop32 pf z]
    fold_as GoMath.cos (⟨0x401921fb54442d18⟩ * F64.ofF32 rot) => cosPhi
    fold_as GoMath.sin (⟨0x401921fb54442d18⟩ * F64.ofF32 rot) => sinPhi
    fold_as F64.ofF32 (z.unabsX z.penX) => x1
    fold_as F64.ofF32 (z.unabsY z.penY) => y1
    fold_as F64.ofF32 x => x2
    fold_as F64.ofF32 y => y2
    fold_as (F64.ofF32 rx).abs => Rx0
    fold_as (F64.ofF32 ry).abs => Ry0
    fold_as cosPhi * ((x1 - x2) / ⟨0x4000000000000000⟩) + sinPhi * ((y1 - y2) / ⟨0x4000000000000000⟩) => x1p
    fold_as -sinPhi * ((x1 - x2) / ⟨0x4000000000000000⟩) + cosPhi * ((y1 - y2) / ⟨0x4000000000000000⟩) => y1p
    fold_as x1p * x1p / (Rx0 * Rx0) + y1p * y1p / (Ry0 * Ry0) => rc
    by_cases h1 : F64.lt ⟨0⟩ Rx0 = true
    · by_cases h2 : F64.lt ⟨0⟩ Ry0 = true
      · by_cases h3 : F64.lt ⟨0x3ff0000000000000⟩ rc = true
        · simp only [h1, h2, h3, if_true, and_self, not_true_eq_false, if_false]
          fold_as Rx0 * rc.sqrt => Rx
          fold_as Ry0 * rc.sqrt => Ry
          fold_as (Rx * Rx * (Ry * Ry) / (Rx * Rx * (y1p * y1p) + Ry * Ry * (x1p * x1p)) - ⟨0x3ff0000000000000⟩) => a
          arc_tail_tac H z hf la sw
        · simp only [h1, h2, h3, if_true, and_self, not_true_eq_false, if_false, Bool.false_eq_true]
          fold_as (Rx0 * Rx0 * (Ry0 * Ry0) / (Rx0 * Rx0 * (y1p * y1p) + Ry0 * Ry0 * (x1p * x1p)) - ⟨0x3ff0000000000000⟩) => a
          arc_tail_tac H z hf la sw
      · simp only [h1, h2, if_true, if_false, and_false, not_false_eq_true, Bool.false_eq_true, render_Renderer_absVec2, absX_tie, absY_tie,
          applyOps, List.foldl_cons, List.foldl_nil]
    · simp only [h1, if_false, false_and, not_false_eq_true, if_true, Bool.false_eq_true, render_Renderer_absVec2, absX_tie, absY_tie,
        applyOps, List.foldl_cons, List.foldl_nil]
  · simp [render_Renderer_AbsArcTo, Renderer.step, hd, out2]


tolerant
/-- the model treats a relative arc as the absolute arc to the converted end point (render.go:582) -/
theorem step_arc_rel (pinf : F32) (z : Rn) (rx ry rot : F32) (la sw : Bool) (x y : F32) :
    z.step arcF32 pinf (.arc true rx ry rot la sw x y) =
      z.step arcF32 pinf (.arc false rx ry rot la sw (z.unabsX (z.relVecX x)) (z.unabsY (z.relVecY y))) := by
  simp only [Renderer.step, if_true, Bool.false_eq_true, if_false]

tolerant
/-- render.go `RelArcTo` (the end point is converted to viewBox space, then `AbsArcTo`), from the count bound `H` -/
theorem relArcTo_code_tie_of_count (H : ArcCountLe4) (pinf : F32) (z : Rn) (l : Log) (fuel : Nat) (hf : 5 ≤ fuel) (rx ry rot : F32) (la sw : Bool) (x y : F32) :
    render_Renderer_RelArcTo (rastOps pf) fuel (objOf z l) z.scaleX z.biasX z.scaleY z.biasY z.disabled (stOf z) rx ry rot la sw x y
      = out2 arcF32 pinf z l (.arc true rx ry rot la sw x y) := by
  unfold render_Renderer_RelArcTo out2
  rw [step_arc_rel]
  simp only [relVec2_code_tie, unabsX_tie, unabsY_tie]
  exact absArcTo_code_tie_of_count pf H pinf z l fuel hf rx ry rot la sw _ _

end Ivg.Gen.Tie
