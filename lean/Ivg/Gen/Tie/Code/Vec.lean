import Ivg.Gen.Tie.Code.Base
import Ivg.Gen.Code.P_raster_vec
import Ivg.Lemmas.VecAdapter
/-!
# Tie: `(*vec.Rasterizer).Draw` as TRANSLATED from raster/vec/rasterizer.go = the model's `Adapter.draw`, for all inputs

The library rasteriser the adapter embeds (`golang.org/x/image/vector.Rasterizer`) is below the repository: the translator
turns it into an opaque object with the operations the adapter performs on it (`set_DrawOp`, `Draw`).  Here the object
is a log of those operations.  The tie says: whatever the rectangle (empty ones included), the source (any image: flat
colour, gradient, …) and the source point, `Draw` asks the library for exactly one thing — the adapter's current
operator, then one Draw into `Dst` with the rectangle, source and source point it was given — and leaves source-over
behind; it writes no other field (the translation returns every field the method stores to).
-/
namespace Ivg.Gen.Tie
open Ivg Ivg.Num Ivg.Gen.Code Ivg.Vec

def vecInnerOps : golang_org_x_image_vector_Rasterizer_ops (List (InnerCall Go.Ref)) where
  set_DrawOp s op := s ++ [.setOp op]
  Draw s dst r src sp := s ++ [.draw (dst) ⟨r.Min.X, r.Min.Y, r.Max.X, r.Max.Y⟩ (src) sp.X sp.Y]

tolerant
/-- `(*vec.Rasterizer).Draw(r, src, sp)` (raster/vec/rasterizer.go) = `Adapter.draw` -/
theorem vecDraw_code_tie (inner : List (InnerCall Go.Ref)) (dst : Go.Ref) (op : Int) (r : image_Rectangle) (src : Go.Ref) (sp : image_Point) :
    raster_vec_Rasterizer_Draw vecInnerOps inner dst op r src sp =
      (let z := (⟨dst, op, inner⟩ : Adapter Go.Ref).draw ⟨r.Min.X, r.Min.Y, r.Max.X, r.Max.Y⟩ (src) sp.X sp.Y
       (z.inner, z.drawOp)) := by
  simp [raster_vec_Rasterizer_Draw, vecInnerOps, Adapter.draw, over]

end Ivg.Gen.Tie
