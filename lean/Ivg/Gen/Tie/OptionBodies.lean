import Ivg.Gen.Facts
/-! Tie: the two decode option constructors of decode/decode.go return a function on the metadata that does exactly one
    thing — `WithPalette p`: `m.Palette = p`; `WithColorAt index c`: `m.Palette[index] = color.RGBAModel.Convert(c).(color.RGBA)`
    — and do nothing else themselves.  These are the two options of the model (`Dec.DecodeOption`: replace the palette;
    replace one entry by the colour converted to premultiplied RGBA, `RGBA()>>8` per channel), which `Decode` with options
    — translated and tied for EVERY list of functions on the metadata (`Decoder10`) — folds in order.  The translator
    does not reach the constructors (closures that capture variables are returned, not called); this fact ties them. -/
namespace Ivg.Gen.Tie
open Ivg.Gen.Facts

theorem optionBodies_tie : optionBodies =
    [("WithPalette", "p [64]color.RGBA", "func(m *ivg.Metadata) ; m.Palette = p"),
     ("WithColorAt", "index int, c color.Color",
      "func(m *ivg.Metadata) ; m.Palette[index] = color.RGBAModel.Convert(c).(color.RGBA)")] := by decide

end Ivg.Gen.Tie
