import Ivg.Gen.Facts
/-! Tie: every method of `ivg.DestinationLogger` (logger.go) makes exactly one call on the embedded
    Destination — the method of the same name, with its own parameters in order — guarded only by
    `d.Destination != nil`.  (The 26 delivering methods; `CSel`/`NSel` are promoted from the embedded
    interface.)  So a logging wrapper delivers to its Destination exactly the calls it receives. -/
namespace Ivg.Gen.Tie
open Ivg.Gen.Facts

def forwardsItself (e : String × String × List (String × String × String)) : Bool :=
  e.2.2 == [(e.1, e.2.1, "d.Destination != nil")]

theorem logger_forwards_tie : loggerForwards.all forwardsItself = true ∧ loggerForwards.length = 26 := by decide

theorem logger_methods_tie : loggerForwards.map (·.1) =
    ["AbsArcTo", "AbsCubeTo", "AbsHLineTo", "AbsLineTo", "AbsQuadTo", "AbsSmoothCubeTo", "AbsSmoothQuadTo", "AbsVLineTo",
     "ClosePathAbsMoveTo", "ClosePathEndPath", "ClosePathRelMoveTo", "RelArcTo", "RelCubeTo", "RelHLineTo", "RelLineTo",
     "RelQuadTo", "RelSmoothCubeTo", "RelSmoothQuadTo", "RelVLineTo", "Reset", "SetCReg", "SetCSel", "SetLOD", "SetNReg",
     "SetNSel", "StartPath"] := by decide

end Ivg.Gen.Tie

namespace Ivg.Gen.Tie
open Ivg.Gen.Facts

/-- `raster.RasterizerLogger` (raster/logger.go): each of its ten methods makes exactly one call on the wrapped
    Rasterizer — the method of the same name with its own parameters in order, unconditionally — so the values
    `Pen`/`Size`/`Bounds` report and the calls the rasteriser receives are those of the wrapped one. -/
def rforwardsItself (e : String × String × List (String × String × String)) : Bool :=
  e.2.2 == [(e.1, e.2.1, "")]

theorem rasterizer_logger_forwards_tie :
    rasterizerLoggerForwards.all rforwardsItself = true ∧
    rasterizerLoggerForwards.map (·.1) =
      ["Bounds", "ClosePath", "CubeTo", "Draw", "LineTo", "MoveTo", "Pen", "QuadTo", "Reset", "Size"] := by decide

end Ivg.Gen.Tie
