import Ivg.Gen.Facts
/-! Tie: every call of the disassembly printer in decode/decode.go — enclosing function, the conditions it is under,
    the byte window handed over, the format string, the arguments — in source order, and the formatting calls of the
    printing closure of `Disassemble` itself.  This is the table the structured lines of `Model/Decoder.lean`
    (`LineKind`) and their text rendering (`Driver/Disasm.lean`) are written from: one printer call per `LineKind`
    constructor, under `p != nil` only (plus `i != 0` for the implicit-repeat line, plus the opcode/increment case
    distinctions), with the window `src[:n]` / `src[:1]` that the model's `consumed` computes.  A printer call that is
    added, removed, reordered, put under another condition, given another window, format or argument makes this
    theorem fail — for every input at once. -/
namespace Ivg.Gen.Tie
open Ivg.Gen.Facts

def expectedPrinterSites : List (String × String × String × String × String) := [("Disassemble", "", "w.Write", "", "buf[:]"),
  ("Disassemble", "", "fmt.Fprintf", "", "w, format, args"),
  ("Disassemble", "", "w.Bytes", "", ""),
  ("decode", "p != nil", "src[:len(ivg.Magic)]", "IconVG Magic identifier\x0a", ""),
  ("decode", "p != nil", "src[:n]", "Number of metadata chunks: %d\x0a", "nMetadataChunks"),
  ("decodeMetadataChunk", "p != nil", "src[:n]", "Metadata chunk length: %d\x0a", "length"),
  ("decodeMetadataChunk", "p != nil", "src[:n]", "Metadata Identifier: %d (%s)\x0a", "mid, midDescriptions[mid]"),
  ("decodeMetadataChunk", "p != nil", "src[:1]", "    %d palette colors, %d bytes per color\x0a", "length, 1 + format"),
  ("decodeMetadataChunk", "p != nil", "src[:n]", "    RGBA %02x%02x%02x%02x\x0a", "rgba.R, rgba.G, rgba.B, rgba.A"),
  ("decodeStyling", "opcode < 0x40 && p != nil", "src[:1]", "Set CSEL = %d\x0a", "opcode"),
  ("decodeStyling", "!(opcode < 0x40) && p != nil", "src[:1]", "Set NSEL = %d\x0a", "opcode"),
  ("decodeSetCReg", "p != nil && incr", "src[:1]", "Set CREG[CSEL-0] to a %d byte%s color; CSEL++\x0a", "nBytes, directness"),
  ("decodeSetCReg", "p != nil && !(incr)", "src[:1]", "Set CREG[CSEL-%d] to a %d byte%s color\x0a", "adj, nBytes, directness"),
  ("decodeSetCReg", "p != nil", "src[:n]", "    %v\x0a", "c"),
  ("decodeSetNReg", "p != nil && incr", "src[:1]", "Set NREG[NSEL-0] to a %s number; NSEL++\x0a", "typ"),
  ("decodeSetNReg", "p != nil && !(incr)", "src[:1]", "Set NREG[NSEL-%d] to a %s number\x0a", "adj, typ"),
  ("decodeSetNReg", "p != nil", "src[:n]", "    %g\x0a", "f"),
  ("decodeStartPath", "p != nil", "src[:1]", "Start path, filled with CREG[CSEL-%d]; M (absolute moveTo)\x0a", "adj"),
  ("decodeSetLOD", "p != nil", "src[:1]", "Set LOD\x0a", ""),
  ("decodeDrawing", "p != nil", "src[:1]", "%s, %d reps\x0a", "op, nReps"),
  ("decodeDrawing", "p != nil && i != 0", "nil", "%s, implicit\x0a", "op"),
  ("decodeDrawing", "p != nil", "src[:1]", "z (closePath); end path\x0a", ""),
  ("decodeDrawing", "p != nil", "src[:1]", "z (closePath); M (absolute moveTo)\x0a", ""),
  ("decodeDrawing", "p != nil", "src[:1]", "z (closePath); m (relative moveTo)\x0a", ""),
  ("decodeDrawing", "p != nil", "src[:1]", "H (absolute horizontal lineTo)\x0a", ""),
  ("decodeDrawing", "p != nil", "src[:1]", "h (relative horizontal lineTo)\x0a", ""),
  ("decodeDrawing", "p != nil", "src[:1]", "V (absolute vertical lineTo)\x0a", ""),
  ("decodeDrawing", "p != nil", "src[:1]", "v (relative vertical lineTo)\x0a", ""),
  ("decodeNumber", "p != nil", "src[:n]", "    %+g\x0a", "x"),
  ("decodeAngle", "p != nil", "src[:n]", "    %v \xc3\x97 360 degrees (%v degrees)\x0a", "x, x * 360"),
  ("decodeArcToFlags", "p != nil", "src[:n]", "    %#x (largeArc=%d, sweep=%d)\x0a", "x, (x >> 0) & 0x01, (x >> 1) & 0x01")]

theorem printerSites_tie : printerSites = expectedPrinterSites := by decide

/-- every site hands over a window that starts at the read position (or nothing, for an implicit repeat) -/
theorem printerSites_windows_tie :
    (printerSites.filter (fun e => e.1 != "Disassemble")).all
      (fun e => e.2.2.1 == "src[:n]" || e.2.2.1 == "src[:1]" || e.2.2.1 == "src[:len(ivg.Magic)]" ||
        (e.2.2.1 == "nil" && e.2.1 == "p != nil && i != 0")) = true := by decide

end Ivg.Gen.Tie
