import Ivg.Gen.Tie.Fields
/-! Tie: generate.Generator carries only the destination and the concatenated transform. -/
namespace Ivg.Gen.Tie

theorem generator_fields_tie : fieldsOf "generate.Generator" = some ["embedded:ivg.Destination", "transforms"] := by decide
theorem gradientStop_fields_tie : fieldsOf "generate.GradientStop" = some ["Offset", "Color"] := by decide

end Ivg.Gen.Tie
