import Ivg.Gen.Tie.Fields
/-! Tie: facts regenerated from /repo equal what the model assumes (ColorFields). One module per fact group,
    so that a changed fact breaks only the properties that depend on it. -/
namespace Ivg.Gen.Tie

theorem color_fields_tie : fieldsOf "ivg.Color" = some ["typ", "data"] := by decide

end Ivg.Gen.Tie
