import Ivg.Gen.Facts
import Ivg.Model.Encoder
/-! Tie: the EncodeError strings of encode/encode.go are the ones the model prints. -/
namespace Ivg.Gen.Tie
open Ivg Ivg.Enc

def allEncErrs : List (String × EncErr) := [
  ("encode.errDrawingOpsUsedInStylingMode", .drawingOpsUsedInStylingMode),
  ("encode.errInvalidIncrementingAdjustment", .invalidIncrementingAdjustment),
  ("encode.errInvalidSelectorAdjustment", .invalidSelectorAdjustment),
  ("encode.errStylingOpsUsedInDrawingMode", .stylingOpsUsedInDrawingMode)]

theorem encodeErrors_tie :
    Facts.encodeErrorStrings = allEncErrs.map (fun (n, e) => (n, (e.message.drop 8).toString)) := by
  decide

end Ivg.Gen.Tie
