import Lean
/-!
`tolerant <command>` — elaborate the command; if it reports an error, undo it and report ONE line of information
`TIE-BROKEN: <first error>` instead, so that the rest of the module, and the modules importing it, still build.

Used for the code ties (`Ivg/Gen/Tie/Code`): each states that a definition REGENERATED from the Go source equals the model's.
A tie that no longer checks is then missing from the environment, and exactly the properties that list it in their
`#obligations` report a broken obligation (`OBLIGATION-MISSING`), instead of every property whose tie module happens to
import the module the broken tie lives in.  Nothing is admitted: a tolerated failure proves nothing and is counted as
not discharged by the check.
-/
open Lean Elab Command

elab "tolerant " c:command : command => do
  let s ← get
  let n0 := s.messages.toList.length
  try
    withScope (fun sc => { sc with opts := Elab.async.set sc.opts false }) do
      elabCommand c
  catch e =>
    logError e.toMessageData
  let s' ← get
  let newMsgs := s'.messages.toList.drop n0
  if newMsgs.any (·.severity == .error) then
    let firstErr := (newMsgs.filter (·.severity == .error)).head!
    let txt ← firstErr.data.toString
    set s
    logInfo m!"TIE-BROKEN: {(txt.take 400)}"
