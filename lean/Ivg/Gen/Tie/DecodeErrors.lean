import Ivg.Gen.Facts
import Ivg.Model.Decoder
/-! Tie: the DecodeError strings of decode/decode.go are the ones the model prints. -/
namespace Ivg.Gen.Tie
open Ivg Ivg.Dec

def allDecErrs : List (String × DecErr) := [
  ("decode.errInconsistentMetadataChunkLength", .inconsistentMetadataChunkLength),
  ("decode.errInvalidColor", .invalidColor),
  ("decode.errInvalidMagicIdentifier", .invalidMagicIdentifier),
  ("decode.errInvalidMetadataChunkLength", .invalidMetadataChunkLength),
  ("decode.errInvalidMetadataIdentifier", .invalidMetadataIdentifier),
  ("decode.errInvalidNumber", .invalidNumber),
  ("decode.errInvalidNumberOfMetadataChunks", .invalidNumberOfMetadataChunks),
  ("decode.errInvalidSuggestedPalette", .invalidSuggestedPalette),
  ("decode.errInvalidViewBox", .invalidViewBox),
  ("decode.errMetadataIdentifierOrder", .metadataIdentifierOrder),
  ("decode.errUnsupportedDrawingOpcode", .unsupportedDrawingOpcode),
  ("decode.errUnsupportedMetadataIdentifier", .unsupportedMetadataIdentifier),
  ("decode.errUnsupportedStylingOpcode", .unsupportedStylingOpcode)]

theorem decodeErrors_tie :
    Facts.decodeErrorStrings = allDecErrs.map (fun (n, e) => (n, (e.message.drop 8).toString)) := by
  decide

end Ivg.Gen.Tie
