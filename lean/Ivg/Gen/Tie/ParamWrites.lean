import Ivg.Gen.Facts
/-! Tie: facts regenerated from /repo equal what the model assumes (ParamWrites). One module per fact group,
    so that a changed fact breaks only the properties that depend on it. -/
namespace Ivg.Gen.Tie

/-- the only non-receiver parameters written through; each was reviewed: every call site passes
    memory owned by the callee's caller frame (`m := ivg.DefaultMetadata` copy, `coords [6]float32`,
    `args [7]float32`, `minMID`, the converter's `adjs` map, `g.Ranges[:0]`), never an exported input. -/
theorem param_writes_frame : Facts.paramWrites =
    ["decode.WithColorAt:m", "decode.WithPalette:m", "decode.decode:m", "decode.decodeCoordinates:coords",
     "decode.decodeMetadataChunk:m", "decode.decodeMetadataChunk:minMID", "generate.normalize:args",
     "generate.scan:args", "mdicons.ParsePath:adjs", "mdicons.normalize:args",
     "render.AppendRanges:a(append)"] := by decide

end Ivg.Gen.Tie
