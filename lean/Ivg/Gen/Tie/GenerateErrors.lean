import Ivg.Gen.Facts
import Ivg.Model.Generator
/-! Tie: the documented errors of generate/generate.go are the ones the model reports. -/
namespace Ivg.Gen.Tie
open Ivg

theorem generateErrors_tie :
    Facts.generateErrorStrings =
      [("generate.CSELUsedAsBothGradientAndStop", Ivg.Gen.GenErr.cselUsedAsBothGradientAndStop.message),
       ("generate.TooManyGradientStops", Ivg.Gen.GenErr.tooManyGradientStops.message)] := by
  decide

end Ivg.Gen.Tie
