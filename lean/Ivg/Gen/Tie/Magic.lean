import Ivg.Gen.Facts
import Ivg.Model.Encoder
/-! Tie: facts regenerated from /repo equal what the model assumes (Magic). One module per fact group,
    so that a changed fact breaks only the properties that depend on it. -/
namespace Ivg.Gen.Tie
open Ivg Ivg.Enc

theorem magic_tie : Facts.magic = Enc.magic.map UInt8.toNat := by decide

end Ivg.Gen.Tie
