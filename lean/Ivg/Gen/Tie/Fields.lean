import Ivg.Gen.Facts
/-! Tie: facts regenerated from /repo equal what the model assumes (Fields). One module per fact group,
    so that a changed fact breaks only the properties that depend on it. -/
namespace Ivg.Gen.Tie

def fieldsOf (k : String) : Option (List String) := (Facts.structFields.find? (·.1 = k)).map (·.2)

end Ivg.Gen.Tie
