import Ivg.Gen.Facts
import Ivg.Model.Color
/-! Tie: facts regenerated from /repo equal what the model assumes (DefaultViewBox). One module per fact group,
    so that a changed fact breaks only the properties that depend on it. -/
namespace Ivg.Gen.Tie
open Ivg

theorem defaultViewBox_tie :
    Facts.defaultViewBox.map Num.F32.ofInt =
      [defaultViewBox.minX, defaultViewBox.minY, defaultViewBox.maxX, defaultViewBox.maxY] := by decide

end Ivg.Gen.Tie
