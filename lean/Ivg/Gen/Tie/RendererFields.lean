import Ivg.Gen.Tie.Fields
/-! Tie: facts regenerated from /repo equal what the model assumes (RendererFields). One module per fact group,
    so that a changed fact breaks only the properties that depend on it. -/
namespace Ivg.Gen.Tie

theorem renderer_fields_tie : fieldsOf "render.Renderer" = some
    ["z", "r", "scaleX", "biasX", "scaleY", "biasY", "viewBox", "palette", "lod0", "lod1", "cSel", "nSel",
     "disabled", "prevSmoothType", "prevSmoothPointX", "prevSmoothPointY", "fill", "flatColor", "flatImage",
     "gradient", "cReg", "nReg", "stops"] := by decide

end Ivg.Gen.Tie
