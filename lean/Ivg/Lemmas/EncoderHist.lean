import Ivg.Lemmas.EncoderInv
/-!
# The Encoder invariant for histories in which the resolution changes (C01, forward direction)

In Go a caller may assign `HighResolutionCoordinates` at any time; `StartPath` copies it into the private
`highResolutionCoordinates` (`hiResLocal`) and writes its own two operands at the value just copied; every
drawing call of the path is written at the copy when the buffered run is flushed.  So an assignment inside a
path only takes effect at the next `StartPath`.

`InvH` is `EncoderInv.Inv` with the already flushed calls recorded *after* quantisation (the resolution is no
longer one constant) and the pending run quantised at the current `hiResLocal`.  `invH_runOps` carries it along
any history over `EncOp`: protocol-respecting calls, `setHiRes` anywhere, and the reads `readCSel`, `readNSel`,
`readLOD`, `bytes` anywhere (`bytes` flushes the pending run, which may split a run into two chunks: the
final byte stream can differ, what it decodes to does not).
-/
namespace Ivg.EncoderHist
open Ivg Num Enc Dec Codec ColorCodec RoundTrip EncoderInv

/-! ## the resolution in force for each call -/

/-- the Encoder's resolution bookkeeping: (exported flag, copy latched by the last `StartPath`) -/
def track : Bool × Bool → EncOp → Bool × Bool
  | (_, loc), .setHiRes b => (b, loc)
  | (cur, _), .call (.startPath _ _ _) => (cur, cur)
  | _, .call (.reset _ _) => (false, false)
  | s, _ => s

/-- **the resolution at which entry `i` of the history `h` is written** (flag `b0` at the start): the value
    the exported flag had at the last `StartPath` among the entries `0..i` — for a `StartPath` itself that
    is the value at the moment of the call; `b0` before the first path (where no call has coordinates) -/
def resAt (b0 : Bool) (h : List EncOp) (i : Nat) : Bool := ((h.take (i + 1)).foldl track (b0, b0)).2

/-- the calls of a history, in order -/
def callsIn : List EncOp → List (Call F32)
  | [] => []
  | .call c :: r => c :: callsIn r
  | _ :: r => callsIn r

/-- what the decoder is to deliver for the history `h`: its calls in order, each quantised at its own
    resolution -/
def delivered (b0 : Bool) (h : List EncOp) : List (Call F32) :=
  h.zipIdx.filterMap fun p => match p.1 with
    | .call c => some (Q (resAt b0 h p.2) c)
    | _ => none

/-- the same by recursion, threading the bookkeeping state -/
def deliv : Bool × Bool → List EncOp → List (Call F32)
  | _, [] => []
  | s, .call c :: r => Q (track s (.call c)).2 c :: deliv (track s (.call c)) r
  | s, op :: r => deliv (track s op) r

theorem deliv_cons_call (s : Bool × Bool) (c : Call F32) (r : List EncOp) :
    deliv s (.call c :: r) = Q (track s (.call c)).2 c :: deliv (track s (.call c)) r := rfl

theorem deliv_cons_other (s : Bool × Bool) (op : EncOp) (r : List EncOp) (h : ∀ c, op ≠ .call c) :
    deliv s (op :: r) = deliv (track s op) r := by
  cases op with
  | call c => exact absurd rfl (h c)
  | _ => rfl

theorem delivered_aux (b0 : Bool) : ∀ (h pre : List EncOp),
    ((h.zipIdx pre.length).filterMap fun p => match p.1 with
      | .call c => some (Q (resAt b0 (pre ++ h) p.2) c)
      | _ => none) = deliv (pre.foldl track (b0, b0)) h := by
  intro h
  induction h with
  | nil => intro pre; rfl
  | cons op r ih =>
    intro pre
    have hres : resAt b0 (pre ++ op :: r) pre.length = (track (pre.foldl track (b0, b0)) op).2 := by
      unfold resAt
      have : (pre ++ op :: r).take (pre.length + 1) = pre ++ [op] := by
        rw [List.take_append]; simp [List.take_of_length_le]
      rw [this, List.foldl_append]; rfl
    have hih := ih (pre ++ [op])
    have e1 : (pre ++ [op]).length = pre.length + 1 := by simp
    have e2 : pre ++ [op] ++ r = pre ++ op :: r := by simp
    rw [e1, e2, List.foldl_append] at hih
    simp only [List.foldl_cons, List.foldl_nil] at hih
    rw [List.zipIdx_cons, List.filterMap_cons]
    cases op with
    | call c => simp only [hres, hih, deliv_cons_call]
    | readCSel => simpa [deliv] using hih
    | readNSel => simpa [deliv] using hih
    | readLOD => simpa [deliv] using hih
    | bytes => simpa [deliv] using hih
    | setHiRes b => simpa [deliv] using hih

theorem delivered_eq (b0 : Bool) (h : List EncOp) : delivered b0 h = deliv (b0, b0) h := by
  have := delivered_aux b0 h []
  simpa [delivered] using this

theorem track_same (hi : Bool) (c : Call F32) (h : ∀ vb pal, c ≠ .reset vb pal) :
    track (hi, hi) (.call c) = (hi, hi) := by
  cases c with
  | reset vb pal => exact absurd rfl (h vb pal)
  | _ => rfl

/-- a history without `setHiRes`, started at flag `hi`: every call at `hi` (the situation of `encode_decode`) -/
theorem deliv_calls (hi : Bool) : ∀ (p : List (Call F32)), (∀ c ∈ p, ∀ vb pal, c ≠ .reset vb pal) →
    deliv (hi, hi) (p.map .call) = p.map (Q hi) := by
  intro p
  induction p with
  | nil => intro _; rfl
  | cons c cs ih =>
    intro h
    have hc := track_same hi c (h c (by simp))
    simp only [List.map_cons, deliv_cons_call, hc]
    rw [ih (fun c' hc' => h c' (by simp [hc']))]

/-! ## the invariant -/

/-- `out` is what the decoder is to deliver for the calls made so far (after the header `hdr`) -/
structure InvH (hdr : Bytes) (e : Encoder) (out : List (Call F32)) (inPath : Bool) : Prop where
  noerr : e.err = none
  mode : e.mode = if inPath then Mode.drawing else Mode.styling
  idle : inPath = false → e.drawOp = none
  notZ : e.drawOp ≠ some .Z
  pend : ∃ (flushed pending : List (Call F32)) (body : Bytes),
    out = flushed ++ pending.map (Q e.hiResLocal) ∧ e.buf = hdr ++ body ∧ e.drawArgs = pending.map groupOf ∧
    (e.drawOp = none → pending = []) ∧
    (∀ d, e.drawOp = some d → ∀ c ∈ pending, drawOpOf c = some d) ∧
    ∀ k, Dc .styling (body ++ k) = (flushed ++ (Dc (modeOf inPath) k).1, (Dc (modeOf inPath) k).2)

/-- assigning the exported flag touches nothing the invariant speaks about -/
theorem invH_setHiRes {hdr e out inPath} (h : InvH hdr e out inPath) (b : Bool) :
    InvH hdr { e with hiRes := b } out inPath := by
  obtain ⟨noerr, mode, idle, notZ, pend⟩ := h
  exact ⟨noerr, mode, idle, notZ, pend⟩

/-- flushing moves the pending run into the flushed part -/
theorem invH_flush (hD : DStep) {hdr e out} (h : InvH hdr e out true) :
    InvH hdr e.flushDrawOps out true ∧ e.flushDrawOps.drawOp = none ∧ e.flushDrawOps.drawArgs = [] ∧
      e.flushDrawOps.mode = e.mode ∧ e.flushDrawOps.hiRes = e.hiRes ∧ e.flushDrawOps.hiResLocal = e.hiResLocal := by
  obtain ⟨noerr, mode, idle, notZ, flushed, pending, body, hdone, hbuf, hargs, hnone, hall, hdec⟩ := h
  cases hop : e.drawOp with
  | none =>
    have : e.flushDrawOps = e := by simp [Encoder.flushDrawOps, hop]
    rw [this]
    have hp := hnone hop
    subst hp
    exact ⟨⟨noerr, mode, idle, notZ, flushed, [], body, hdone, hbuf, hargs, hnone, hall, hdec⟩,
      hop, by simpa using hargs, rfl, rfl, rfl⟩
  | some d =>
    have hz : d ≠ .Z := by intro h; subst h; exact notZ hop
    have hn : (opInfo d).nArgs ≠ 0 := nArgs_ne_zero hz
    have hfl : e.flushDrawOps = { e with buf := e.buf ++ chunks e.hiResLocal d e.drawArgs.length e.drawArgs,
                                          drawOp := none, drawArgs := [] } := by
      simp [Encoder.flushDrawOps, hop, hn]
    rw [hfl]
    refine ⟨⟨noerr, mode, by simp, by simp, flushed ++ pending.map (Q e.hiResLocal), [],
      body ++ chunks e.hiResLocal d e.drawArgs.length e.drawArgs, by simp [hdone], by simp [hbuf, List.append_assoc],
      by simp, by simp, by simp, ?_⟩, rfl, rfl, rfl, rfl, rfl⟩
    intro k
    rw [List.append_assoc, hdec]
    have hm : modeOf true = DMode.drawing := rfl
    rw [hm, hargs, chunks_dec hD e.hiResLocal d hz _ pending k (by simp) (hall d hop)]
    simp [List.append_assoc]

/-- the same in either mode (outside a path nothing is pending) -/
theorem invH_flush' (hD : DStep) {hdr e out inPath} (h : InvH hdr e out inPath) :
    InvH hdr e.flushDrawOps out inPath ∧ e.flushDrawOps.hiRes = e.hiRes ∧
      e.flushDrawOps.hiResLocal = e.hiResLocal := by
  cases inPath with
  | true =>
    obtain ⟨h1, _, _, _, h2, h3⟩ := invH_flush hD h
    exact ⟨h1, h2, h3⟩
  | false =>
    have hop := h.idle rfl
    have hfl : e.flushDrawOps = e := by simp [Encoder.flushDrawOps, hop]
    rw [hfl]; exact ⟨h, rfl, rfl⟩

/-- appending one instruction in styling mode; `q` is what the decoder makes of it -/
theorem invH_append_styling (hD : DStep) {hdr} {e : Encoder} {out} (h : InvH hdr e out false)
    (instr : Bytes) (hne : instr ≠ []) (q : Call F32) (m' : Bool)
    (hstep : ∀ k, Step .styling (instr ++ k) [q] (modeOf m') k)
    (e' : Encoder) (hbuf : e'.buf = e.buf ++ instr) (herr : e'.err = none)
    (hmode : e'.mode = if m' then Mode.drawing else Mode.styling)
    (hop : e'.drawOp = none) (hargs : e'.drawArgs = []) :
    InvH hdr e' (out ++ [q]) m' := by
  obtain ⟨noerr, mode, idle, notZ, flushed, pending, body, hdone, hb, ha, hnone, hall, hdec⟩ := h
  have hp : pending = [] := hnone (idle rfl)
  subst hp
  refine ⟨herr, hmode, fun _ => hop, by simp [hop], flushed ++ [q], [], body ++ instr,
    by simp [hdone], by simp [hbuf, hb, List.append_assoc], by simp [hargs], by simp, by simp, ?_⟩
  intro k
  rw [List.append_assoc, hdec]
  have hm : modeOf false = DMode.styling := rfl
  rw [hm, hD _ _ _ _ _ (hstep k) (len_lt_append instr k hne)]
  simp [List.append_assoc]

/-- a styling call in styling mode: delivered as `Q b c` (which does not depend on `b`), flags untouched -/
theorem invH_styling (hD : DStep) {hdr} {e : Encoder} {out} (h : InvH hdr e out false)
    (c : Call F32) (hc : StylingOK c) (b : Bool) :
    InvH hdr (e.step c) (out ++ [Q b c]) false ∧ (e.step c).hiRes = e.hiRes ∧
      (e.step c).hiResLocal = e.hiResLocal := by
  have hmode : e.mode = .styling := by simpa using h.mode
  have hnoerr := h.noerr
  have hop := h.idle rfl
  have hargs : e.drawArgs = [] := by
    obtain ⟨_, _, _, _, flushed, pending, body, _, _, ha, hnone, _, _⟩ := h
    rw [ha, hnone hop]; rfl
  cases c with
  | setCSel v =>
    refine ⟨invH_append_styling hD h [v &&& 0x3f] (by simp) _ false
      (fun k => by simpa [Q, modeOf] using step_setCSel v k) _ ?_ ?_ ?_ ?_ ?_, ?_, ?_⟩ <;>
      simp [Encoder.step, Encoder.setCSel, checkModeStyling_id hmode, hnoerr, hmode, hop, hargs]
  | setNSel v =>
    refine ⟨invH_append_styling hD h [(v &&& 0x3f) ||| 0x40] (by simp) _ false
      (fun k => by simpa [Q, modeOf] using step_setNSel v k) _ ?_ ?_ ?_ ?_ ?_, ?_, ?_⟩ <;>
      simp [Encoder.step, Encoder.setNSel, checkModeStyling_id hmode, hnoerr, hmode, hop, hargs]
  | setLOD l0 l1 =>
    refine ⟨invH_append_styling hD h ([0xc7] ++ encodeReal l0 ++ encodeReal l1) (by simp) _ false
      (fun k => by simpa [Q, modeOf, List.append_assoc] using step_setLOD l0 l1 k) _ ?_ ?_ ?_ ?_ ?_, ?_, ?_⟩ <;>
      simp [Encoder.step, Encoder.setLOD, checkModeStyling_id hmode, hnoerr, hmode, hop, hargs, List.append_assoc]
  | setCReg adj incr col =>
    obtain ⟨hadj, hincr, hwf⟩ := hc
    obtain ⟨h8, hA, hI⟩ := adj_roundtrip hadj hincr
    have hstep := fun k => step_setCReg (if incr then 7 else adj) h8 col hwf k
    rw [hA, hI] at hstep
    have heq : e.step (.setCReg adj incr col) = _ := setCReg_eq hmode hnoerr hadj hincr col
    rw [heq]
    refine ⟨invH_append_styling hD h ([(if incr then 7 else adj) ||| (cregForm col).1] ++ (cregForm col).2) (by simp) _ false
      (fun k => by simpa [Q, modeOf, List.append_assoc] using hstep k) _ ?_ ?_ ?_ ?_ ?_, ?_, ?_⟩ <;>
      simp [hnoerr, hmode, hop, hargs, List.append_assoc]
  | setNReg adj incr f =>
    obtain ⟨hadj, hincr⟩ := hc
    obtain ⟨h8, hA, hI⟩ := adj_roundtrip hadj hincr
    have hstep := fun k => step_setNReg (if incr then 7 else adj) h8 f k
    rw [hA, hI] at hstep
    have heq : e.step (.setNReg adj incr f) = _ := setNReg_eq hmode hnoerr hadj hincr f
    rw [heq]
    refine ⟨invH_append_styling hD h ([(if incr then 7 else adj) ||| (nregForm f).1] ++ (nregForm f).2) (by simp) _ false
      (fun k => by simpa [Q, modeOf, List.append_assoc] using hstep k) _ ?_ ?_ ?_ ?_ ?_, ?_, ?_⟩ <;>
      simp [hnoerr, hmode, hop, hargs, List.append_assoc]
  | _ => exact absurd hc (by simp [StylingOK])

/-- StartPath in styling mode: its own operands are written at the exported flag, which it latches -/
theorem invH_startPath (hD : DStep) {hdr} {e : Encoder} {out} (h : InvH hdr e out false)
    (adj : UInt8) (x y : F32) (hadj : adj.toNat ≤ 6) :
    InvH hdr (e.step (.startPath adj x y)) (out ++ [Q e.hiRes (.startPath adj x y)]) true ∧
      (e.step (.startPath adj x y)).hiRes = e.hiRes ∧ (e.step (.startPath adj x y)).hiResLocal = e.hiRes := by
  have hmode : e.mode = .styling := by simpa using h.mode
  have hnoerr := h.noerr
  have hop := h.idle rfl
  have hargs : e.drawArgs = [] := by
    obtain ⟨_, _, _, _, flushed, pending, body, _, _, ha, hnone, _, _⟩ := h
    rw [ha, hnone hop]; rfl
  have h6 := not_gt6 hadj
  refine ⟨invH_append_styling hD h
    ([0xc0 + adj] ++ encodeCoordinate (quantize e.hiRes x) ++ encodeCoordinate (quantize e.hiRes y))
    (by simp) _ true
    (fun k => by simpa [Q, modeOf, List.append_assoc] using step_startPath e.hiRes adj (by omega) x y k)
    _ ?_ ?_ ?_ ?_ ?_, ?_, ?_⟩ <;>
    simp [Encoder.step, Encoder.startPath, checkModeStyling_id hmode, hnoerr, hop, hargs, h6, List.append_assoc]

/-- buffering one more drawing call (no flush of the new call yet) -/
theorem invH_buffer (hD : DStep) {hdr} {e : Encoder} {out} (h : InvH hdr e out true)
    (c : Call F32) (d : DrawOp) (hd : drawOpOf c = some d) (hz : d ≠ .Z) :
    let e1 := if e.drawOp ≠ some d then e.flushDrawOps else e
    InvH hdr { e1 with drawOp := some d, drawArgs := e1.drawArgs ++ [groupOf c] } (out ++ [Q e.hiResLocal c]) true ∧
      e1.hiRes = e.hiRes ∧ e1.hiResLocal = e.hiResLocal := by
  intro e1
  by_cases hsame : e.drawOp = some d
  · have he1 : e1 = e := by simp [e1, hsame]
    rw [he1]
    obtain ⟨noerr, mode, idle, notZ, flushed, pending, body, hdone, hb, ha, hnone, hall, hdec⟩ := h
    refine ⟨⟨noerr, mode, by simp, by simpa using hz, flushed, pending ++ [c], body,
      by simp [hdone], hb, by simp [ha], by simp, ?_, hdec⟩, rfl, rfl⟩
    intro d' hd' c' hc'
    simp only [Option.some.injEq] at hd'; subst hd'
    rcases List.mem_append.mp hc' with h1 | h1
    · exact hall d hsame c' h1
    · simp at h1; subst h1; exact hd
  · have he1 : e1 = e.flushDrawOps := by simp [e1, hsame]
    rw [he1]
    obtain ⟨hinv, hop, hargs, hm, hh, hl⟩ := invH_flush hD h
    obtain ⟨noerr, mode, idle, notZ, flushed, pending, body, hdone, hb, ha, hnone, hall, hdec⟩ := hinv
    have hp : pending = [] := hnone hop
    subst hp
    refine ⟨⟨noerr, mode, by simp, by simpa using hz, flushed, [c], body,
      by simp [hdone, hl], hb, by simp [hargs], by simp, ?_, hdec⟩, hh, hl⟩
    intro d' hd' c' hc'
    simp only [Option.some.injEq] at hd'; subst hd'
    simp at hc'; subst hc'; exact hd

/-- a drawing call (not the end of the path) in drawing mode: written at the latched copy -/
theorem invH_draw (hD : DStep) {hdr} {e : Encoder} {out} (h : InvH hdr e out true)
    (c : Call F32) (hc : IsDrawing c) :
    InvH hdr (e.step c) (out ++ [Q e.hiResLocal c]) true ∧ (e.step c).hiRes = e.hiRes ∧
      (e.step c).hiResLocal = e.hiResLocal := by
  obtain ⟨d, hd, hz⟩ := hc
  have hmode : e.mode = .drawing := by simpa using h.mode
  rw [step_eq_draw e c d hd, draw_eq h.noerr hmode d hz]
  obtain ⟨hb, hh, hl⟩ := invH_buffer hD h c d hd hz
  simp only at hb hh hl ⊢
  split
  · obtain ⟨g1, _, _, _, g2, g3⟩ := invH_flush hD hb
    exact ⟨g1, by rw [g2]; exact hh, by rw [g3]; exact hl⟩
  · exact ⟨hb, hh, hl⟩

/-- ClosePathEndPath in drawing mode -/
theorem invH_closeEnd (hD : DStep) {hdr} {e : Encoder} {out} (h : InvH hdr e out true) :
    InvH hdr (e.step .closeEnd) (out ++ [.closeEnd]) false ∧ (e.step .closeEnd).hiRes = e.hiRes ∧
      (e.step .closeEnd).hiResLocal = e.hiResLocal := by
  have hmode : e.mode = .drawing := by simpa using h.mode
  obtain ⟨hinv, hop, hargs, hm, hh, hl⟩ := invH_flush hD h
  have hne : e.drawOp ≠ some .Z := h.notZ
  have hstep : e.step .closeEnd =
      { e.flushDrawOps with buf := e.flushDrawOps.buf ++ [0xe1], mode := .styling, drawOp := none, drawArgs := [] } := by
    simp only [Encoder.step, Encoder.draw, h.noerr, Option.isSome_none, Bool.false_eq_true, if_false, hmode,
      ne_eq, not_true_eq_false, hne, not_false_eq_true, if_true, opInfo]
    generalize e.flushDrawOps = e1
    simp [Encoder.flushDrawOps, opInfo]
  rw [hstep]
  obtain ⟨noerr, mode, idle, notZ, flushed, pending, body, hdone, hb, ha, hnone, hall, hdec⟩ := hinv
  have hp : pending = [] := hnone hop
  subst hp
  refine ⟨⟨noerr, by simp, by simp, by simp, flushed ++ [.closeEnd], [], body ++ [0xe1],
    by simp [hdone], by simp [hb, List.append_assoc], by simp, by simp, by simp, ?_⟩, hh, hl⟩
  intro k
  rw [List.append_assoc, hdec]
  have hm1 : modeOf true = DMode.drawing := rfl
  have hm2 : modeOf false = DMode.styling := rfl
  rw [hm1, hm2, hD _ _ _ _ _ (step_Z k) (by simp)]
  simp [List.append_assoc]

/-! ## along a history -/

theorem runOps_cons_fst (e : Encoder) (op : EncOp) (r : List EncOp) :
    (e.runOps (op :: r)).1 = ((e.stepOp op).1.runOps r).1 := by
  simp only [Encoder.runOps]

theorem track_styling (s : Bool × Bool) (c : Call F32) (h : StylingOK c) : track s (.call c) = s := by
  cases c <;> first | rfl | exact absurd h (by simp [StylingOK])

theorem track_drawing (s : Bool × Bool) (c : Call F32) (h : IsDrawing c) : track s (.call c) = s := by
  obtain ⟨d, hd, _⟩ := h
  cases c <;> first | rfl | simp [drawOpOf] at hd

theorem not_initial {hdr e out inPath} (h : InvH hdr e out inPath) : e.mode ≠ .initial := by
  rw [h.mode]; split <;> simp

/-- **the invariant along a history**: protocol-respecting calls, `setHiRes` and reads anywhere -/
theorem invH_runOps (hD : DStep) {hdr} : ∀ (h : List EncOp) (e : Encoder) (out : List (Call F32))
    (inPath endPath : Bool),
    InvH hdr e out inPath → Proto inPath (callsIn h) endPath →
      InvH hdr (e.runOps h).1 (out ++ deliv (e.hiRes, e.hiResLocal) h) endPath := by
  intro h
  induction h with
  | nil =>
    intro e out inPath endPath hi hc
    simp only [callsIn, Proto] at hc; subst hc
    simpa [Encoder.runOps, deliv] using hi
  | cons op r ih =>
    intro e out inPath endPath hi hc
    rw [runOps_cons_fst]
    cases op with
    | call c =>
      have hcalls : callsIn (.call c :: r) = c :: callsIn r := rfl
      rw [hcalls] at hc
      have hstep : (e.stepOp (.call c)).1 = e.step c := rfl
      rw [hstep, deliv_cons_call]
      have happ : ∀ q rest, out ++ q :: rest = (out ++ [q]) ++ rest := by intro q rest; simp
      rw [happ]
      cases inPath with
      | false =>
        simp only [Proto] at hc
        rcases hc with ⟨hs, hrest⟩ | ⟨adj, x, y, rfl, hadj, hrest⟩
        · obtain ⟨g1, g2, g3⟩ := invH_styling hD hi c hs e.hiResLocal
          have := ih _ _ _ _ g1 hrest
          rw [g2, g3] at this
          rw [track_styling _ c hs]
          exact this
        · obtain ⟨g1, g2, g3⟩ := invH_startPath hD hi adj x y hadj
          have := ih _ _ _ _ g1 hrest
          rw [g2, g3] at this
          exact this
      | true =>
        simp only [Proto] at hc
        rcases hc with ⟨hd, hrest⟩ | ⟨rfl, hrest⟩
        · obtain ⟨g1, g2, g3⟩ := invH_draw hD hi c hd
          have := ih _ _ _ _ g1 hrest
          rw [g2, g3] at this
          rw [track_drawing _ c hd]
          exact this
        · obtain ⟨g1, g2, g3⟩ := invH_closeEnd hD hi
          have := ih _ _ _ _ g1 hrest
          rw [g2, g3] at this
          exact this
    | setHiRes b =>
      have hstep : (e.stepOp (.setHiRes b)).1 = { e with hiRes := b } := rfl
      rw [hstep]
      exact ih _ _ _ _ (invH_setHiRes hi b) hc
    | readCSel =>
      have hstep : (e.stepOp .readCSel).1 = e := by
        simp [Encoder.stepOp, Encoder.readCSel, not_initial hi]
      rw [hstep]; exact ih _ _ _ _ hi hc
    | readNSel =>
      have hstep : (e.stepOp .readNSel).1 = e := by
        simp [Encoder.stepOp, Encoder.readNSel, not_initial hi]
      rw [hstep]; exact ih _ _ _ _ hi hc
    | readLOD =>
      have hstep : (e.stepOp .readLOD).1 = e := by
        simp [Encoder.stepOp, Encoder.readLOD, not_initial hi]
      rw [hstep]; exact ih _ _ _ _ hi hc
    | bytes =>
      have hstep : (e.stepOp .bytes).1 = e.flushDrawOps := by
        simp [Encoder.stepOp, Encoder.bytes, hi.noerr, not_initial hi]
      rw [hstep]
      obtain ⟨g1, g2, g3⟩ := invH_flush' hD hi
      have := ih _ _ _ _ g1 hc
      rw [g2, g3] at this
      exact this

theorem Q_styling (b b' : Bool) (c : Call F32) (h : StylingOK c) : Q b c = Q b' c := by
  cases c <;> first | rfl | exact absurd h (by simp [StylingOK])

/-- a protocol-respecting program written after a single assignment of the flag: every call at that value
    (the situation of `encode_decode`) -/
theorem deliv_const (hi : Bool) : ∀ (p : List (Call F32)) (loc inPath endPath : Bool),
    Proto inPath p endPath → (inPath = true → loc = hi) → deliv (hi, loc) (p.map .call) = p.map (Q hi) := by
  intro p
  induction p with
  | nil => intro _ _ _ _ _; rfl
  | cons c cs ih =>
    intro loc inPath endPath hc hl
    simp only [List.map_cons, deliv_cons_call]
    cases inPath with
    | false =>
      simp only [Proto] at hc
      rcases hc with ⟨hs, hrest⟩ | ⟨adj, x, y, rfl, hadj, hrest⟩
      · rw [track_styling _ c hs, ih loc false endPath hrest (by simp), Q_styling loc hi c hs]
      · have ht : track (hi, loc) (.call (.startPath adj x y)) = (hi, hi) := rfl
        rw [ht, ih hi true endPath hrest (fun _ => rfl)]
    | true =>
      have := hl rfl; subst this
      simp only [Proto] at hc
      rcases hc with ⟨hd, hrest⟩ | ⟨rfl, hrest⟩
      · rw [track_drawing _ c hd, ih loc true endPath hrest (fun _ => rfl)]
      · have ht : track (loc, loc) (.call .closeEnd) = (loc, loc) := rfl
        rw [ht, ih loc false endPath hrest (by simp)]

/-- `Bytes()`: flush what is pending; the invariant then speaks about the whole history -/
theorem invH_bytes (hD : DStep) {hdr} {e : Encoder} {out} {inPath : Bool} (h : InvH hdr e out inPath) :
    ∃ body, e.bytes.2 = .ok (hdr ++ body) ∧
      Dc .styling body = (out ++ (Dc (modeOf inPath) []).1, (Dc (modeOf inPath) []).2) := by
  have hb : e.bytes = (e.flushDrawOps, .ok e.flushDrawOps.buf) := by
    simp [Encoder.bytes, h.noerr, not_initial h]
  obtain ⟨hinv, _, _⟩ := invH_flush' hD h
  have hop : e.flushDrawOps.drawOp = none := by
    cases inPath with
    | true => exact (invH_flush hD h).2.1
    | false => exact hinv.idle rfl
  obtain ⟨_, _, _, _, flushed, pending, body, hdone, hbuf, _, hnone, _, hdec⟩ := hinv
  have hp := hnone hop; subst hp
  refine ⟨body, by rw [hb, hbuf], ?_⟩
  have := hdec []
  simpa [hdone] using this

/-- the invariant right after `Reset` -/
theorem invH_reset (e₀ : Encoder) (vb : ViewBox F32) (pal : Palette) :
    InvH (e₀.reset vb pal).buf (e₀.reset vb pal) [] false := by
  refine ⟨rfl, rfl, fun _ => rfl, by simp [Encoder.reset], [], [], [], rfl, by simp, rfl, fun _ => rfl,
    fun d hd => by simp [Encoder.reset] at hd, fun k => by simp [modeOf]⟩

/-- every intermediate `Bytes()` of such a history succeeds, too -/
theorem invH_bytes_ok (hD : DStep) {hdr} {e : Encoder} {out} {inPath : Bool} (h : InvH hdr e out inPath) :
    ∃ bs, e.bytes.2 = .ok bs := by
  obtain ⟨body, hb, _⟩ := invH_bytes hD h
  exact ⟨_, hb⟩

end Ivg.EncoderHist
