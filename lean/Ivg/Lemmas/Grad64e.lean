import Ivg.Lemmas.Grad64d
import Ivg.Lemmas.FloatConv
import Ivg.Lemmas.FloatRound32
/-!
# The gradients the float renderer builds satisfy the hypotheses of the float64 theorems

`Renderer.initGradient` at `(F32, F64)` (render.go `initGradient`): every stop it accepts has a valid
premultiplied colour (8-bit channels times `0x101`) and an offset that is a float32 in `[0,1]` — strictly
larger than the previous one — widened to float64 (exactly).  Hence the stop list is `StopsOK`, premultiplied,
and the theorems of `Grad64d` apply to every gradient value the renderer paints with.
-/
namespace Ivg.Grad64
open Ivg Num Grad Ren FloatOrder FloatMono FloatRound FloatErr64

/-- the float64 matrix `initGradient` builds (NREG matrix composed with the pixel-to-viewBox map; every
    operation a float64 operation on widened float32 values) -/
def pixMatrix64 (z : Renderer F32 F64) (nBase : UInt8) : Aff3 F64 :=
  let one : F64 := Arith.ofInt 1
  let invZSX := one / Wide.widen z.scaleX
  let invZSY := one / Wide.widen z.scaleY
  let zBX : F64 := Wide.widen z.biasX
  let zBY : F64 := Wide.widen z.biasY
  let a : F64 := Wide.widen (z.nReg.get6 (nBase - 6))
  let b : F64 := Wide.widen (z.nReg.get6 (nBase - 5))
  let c : F64 := Wide.widen (z.nReg.get6 (nBase - 4))
  let d : F64 := Wide.widen (z.nReg.get6 (nBase - 3))
  let e : F64 := Wide.widen (z.nReg.get6 (nBase - 2))
  let f : F64 := Wide.widen (z.nReg.get6 (nBase - 1))
  ⟨a * invZSX, b * invZSY, c - a * zBX - b * zBY, d * invZSX, e * invZSY, f - d * zBX - e * zBY⟩

theorem zeroA_fin : FloatMono32.Fin (zeroA : F32) ∧ FloatMono32.val (zeroA : F32) = 0 := by
  have := FloatRound32.ofInt_F32_exact 0 (by decide)
  have e : (zeroA : F32) = F32.ofInt 0 := rfl
  rw [e]; simpa using this

theorem oneA_fin : FloatMono32.Fin (Arith.ofInt 1 : F32) ∧ FloatMono32.val (Arith.ofInt 1 : F32) = 1 := by
  have := FloatRound32.ofInt_F32_exact 1 (by decide)
  have e : (Arith.ofInt 1 : F32) = F32.ofInt 1 := rfl
  rw [e]; simpa using this

/-- a float32 in `[0,1]`, widened: finite, same value, in `[0,1]` as a float64 -/
theorem widen_unit (v : F32) (h0 : (zeroA : F32) ≤ v) (h1 : v ≤ (Arith.ofInt 1 : F32)) :
    FloatMono32.Fin v ∧ Fn (F64.ofF32 v) ∧ val (F64.ofF32 v) = FloatMono32.val v ∧
    (zeroB : F64) ≤ F64.ofF32 v ∧ F64.ofF32 v ≤ (oneB : F64) := by
  have fv := FloatMono32.Fin_between zeroA_fin.1 oneA_fin.1 h0 h1
  have a := (FloatMono32.le_iff_val zeroA_fin.1 fv).1 h0
  have b := (FloatMono32.le_iff_val fv oneA_fin.1).1 h1
  rw [zeroA_fin.2] at a; rw [oneA_fin.2] at b
  obtain ⟨f, e⟩ := FloatConv.ofF32_exact v fv
  refine ⟨fv, f, e, ?_, ?_⟩
  · rw [le_iff_val zeroB_fin.1 f, zeroB_fin.2, e]; exact a
  · rw [le_iff_val f oneB_fin.1, oneB_fin.2, e]; exact b

theorem widen_lt (u v : F32) (fu : FloatMono32.Fin u) (fv : FloatMono32.Fin v) (h : u < v) :
    F64.ofF32 u < F64.ofF32 v := by
  obtain ⟨f1, e1⟩ := FloatConv.ofF32_exact u fu
  obtain ⟨f2, e2⟩ := FloatConv.ofF32_exact v fv
  rw [lt_iff_val f1 f2, e1, e2]
  exact (FloatMono32.lt_iff_val fu fv).1 h

theorem rgba64Of_chanOK (c : RGBA) : chanOK (rgba64Of c) := by
  have := c.r.toNat_lt; have := c.g.toNat_lt; have := c.b.toNat_lt; have := c.a.toNat_lt
  simp only [chanOK, rgba64Of]; omega

theorem rgba64Of_premul (c : RGBA) (h : c.validPremul = true) : premul (rgba64Of c) := by
  simp only [RGBA.validPremul, Bool.and_eq_true, decide_eq_true_eq, UInt8.le_iff_toNat_le] at h
  simp only [premul, rgba64Of]; omega

/-- what `initGradient`'s stop loop guarantees of the stops it accepts, at `(F32, F64)` -/
theorem collectStops_ok (cReg : Regs RGBA) (nReg : Regs F32) (cBase nBase : UInt8) (n : Nat) :
    ∀ (i : UInt8) (prevN : F32) (first : Bool) (stops : List (Stop F64)),
      collectStops (β := F64) cReg nReg cBase nBase n i prevN first = some stops →
      stops.length = n ∧ increasing stops ∧
      (first = false → ∀ s ∈ stops.head?, ∃ v : F32, s.offset = F64.ofF32 v ∧ FloatMono32.Fin v ∧ prevN < v) ∧
      (∀ s ∈ stops, StopOK s ∧ premul s.color) ∧
      (∀ k (hk : k < stops.length), stops[k] =
        ⟨F64.ofF32 (nReg.get6 (nBase + (i + UInt8.ofNat k))), rgba64Of (cReg.get6 (cBase + (i + UInt8.ofNat k)))⟩) := by
  induction n with
  | zero =>
    intro i prevN first stops h
    simp only [collectStops, Option.some.injEq] at h
    subst h
    simp [increasing]
  | succ n ih =>
    intro i prevN first stops h
    rw [collectStops] at h
    dsimp only at h
    split at h
    · cases h
    · rename_i hc
      split at h
      · cases h
      · rename_i hv
        split at h
        · cases h
        · rename_i rest hrest
          simp only [Option.some.injEq] at h
          subst h
          obtain ⟨hlen, hinc, hprev, hall, hget⟩ := ih _ _ _ _ hrest
          have hv1 : (zeroA : F32) ≤ nReg.get6 (nBase + i) ∧ nReg.get6 (nBase + i) ≤ (Arith.ofInt 1 : F32) := by
            by_contra hh; exact hv (Or.inl hh)
          have hv2 : first = true ∨ prevN < nReg.get6 (nBase + i) := by
            by_contra hh; exact hv (Or.inr hh)
          have hc' : (cReg.get6 (cBase + i)).validPremul = true := by
            cases hvp : (cReg.get6 (cBase + i)).validPremul
            · rw [hvp] at hc; exact absurd rfl hc
            · rfl
          obtain ⟨fv, f64, _, w0, w1⟩ := widen_unit _ hv1.1 hv1.2
          refine ⟨by simp [hlen], ?_, ?_, ?_, ?_⟩
          · cases rest with
            | nil => trivial
            | cons r rest =>
              refine ⟨?_, hinc⟩
              obtain ⟨v', e', fv', hlt⟩ := hprev rfl r (by simp)
              show F64.ofF32 (nReg.get6 (nBase + i)) < r.offset
              rw [e']; exact widen_lt _ _ fv fv' hlt
          · intro hf s hs
            simp only [List.head?_cons, Option.mem_def, Option.some.injEq] at hs
            subst hs
            rcases hv2 with h | h
            · rw [hf] at h; cases h
            · exact ⟨_, rfl, fv, h⟩
          · intro s hs
            rcases List.mem_cons.mp hs with rfl | hs
            · exact ⟨⟨w0, w1, rgba64Of_chanOK _⟩, rgba64Of_premul _ hc'⟩
            · exact hall s hs
          · intro k hk
            cases k with
            | zero => simp; rfl
            | succ k =>
              simp only [List.getElem_cons_succ]
              rw [hget k (by simpa using hk)]
              have : i + 1 + UInt8.ofNat k = i + UInt8.ofNat (k + 1) := by
                apply UInt8.toNat_inj.mp
                simp [UInt8.toNat_add, UInt8.toNat_ofNat']
                omega
              rw [this]

/-- a successful `initGradient` at `(F32, F64)` is `Init` of the decoded shape and spread, the matrix
    `pixMatrix64` and a VALID, premultiplied stop list read from the registers (offsets: float32 registers
    widened) -/
theorem initGradient_ok (z : Renderer F32 F64) (rgba : RGBA) (g : Gradient F64) (h : z.initGradient rgba = some g) :
    ∃ s0 s1 rest,
      g = (Gradient.init (decodeGradient rgba).shape (decodeGradient rgba).spread
            (pixMatrix64 z (decodeGradient rgba).nBase) (s0 :: s1 :: rest)).1 ∧
      (s0 :: s1 :: rest).length = (decodeGradient rgba).nStops.toNat ∧
      StopsOK (s0 :: s1 :: rest) ∧ (∀ s ∈ s0 :: s1 :: rest, premul s.color) ∧
      (∀ k (hk : k < (s0 :: s1 :: rest).length), (s0 :: s1 :: rest)[k] =
        ⟨F64.ofF32 (z.nReg.get6 ((decodeGradient rgba).nBase + (0 + UInt8.ofNat k))),
         rgba64Of (z.cReg.get6 ((decodeGradient rgba).cBase + (0 + UInt8.ofNat k)))⟩) := by
  unfold Renderer.initGradient at h
  dsimp only at h
  split at h
  · cases h
  · rename_i stops hst
    obtain ⟨hlen, hinc, _, hall, hget⟩ := collectStops_ok _ _ _ _ _ _ _ _ _ hst
    match stops, hst, hlen, hinc, hall, hget with
    | [], _, _, _, _, _ => simp [Gradient.init, appendRanges] at h
    | [s], _, _, _, _, _ => simp [Gradient.init, appendRanges] at h
    | s0 :: s1 :: rest, hst, hlen, hinc, hall, hget =>
      refine ⟨s0, s1, rest, ?_, hlen, ⟨fun s hs => (hall s hs).1, hinc⟩, fun s hs => (hall s hs).2, hget⟩
      have hok : (Gradient.init (decodeGradient rgba).shape (decodeGradient rgba).spread
          (pixMatrix64 z (decodeGradient rgba).nBase) (s0 :: s1 :: rest)).2 = true := rfl
      have h' : (if (Gradient.init (decodeGradient rgba).shape (decodeGradient rgba).spread
          (pixMatrix64 z (decodeGradient rgba).nBase) (s0 :: s1 :: rest)).2 = true then
          some (Gradient.init (decodeGradient rgba).shape (decodeGradient rgba).spread
          (pixMatrix64 z (decodeGradient rgba).nBase) (s0 :: s1 :: rest)).1 else none) = some g := h
      rw [if_pos hok] at h'
      exact (Option.some.inj h').symm

/-- **every gradient the float renderer paints with** returns, at every pixel, a valid premultiplied colour
    with 16-bit channels; at a pixel whose offset `==` the (widened float32) offset register of stop `k` it
    returns exactly the colour register of stop `k` widened to 16 bits; before the first / after the last
    stop the first / last colour -/
theorem renderer_gradient_f64 (z : Renderer F32 F64) (rgba : RGBA) (g : Gradient F64)
    (h : z.initGradient rgba = some g) :
    let p := decodeGradient rgba
    let off (k : Nat) : F64 := F64.ofF32 (z.nReg.get6 (p.nBase + (0 + UInt8.ofNat k)))
    let col (k : Nat) : RGBA64 := rgba64Of (z.cReg.get6 (p.cBase + (0 + UInt8.ofNat k)))
    2 ≤ p.nStops.toNat ∧
    ∀ x y : Int,
      premul (g.at (α := F32) x y) ∧ chanOK (g.at (α := F32) x y) ∧
      (∀ k, k < p.nStops.toNat → Arith.feq (offsetAt g x y) (off k) = true → g.at (α := F32) x y = col k) ∧
      ((zeroB : F64) ≤ offsetAt g x y → offsetAt g x y < off 0 → g.at (α := F32) x y = col 0) ∧
      (off (p.nStops.toNat - 1) < offsetAt g x y → g.at (α := F32) x y = col (p.nStops.toNat - 1)) := by
  intro p off col
  obtain ⟨s0, s1, rest, rfl, hlen, hok, hp, hget⟩ := initGradient_ok z rgba g h
  refine ⟨by rw [← hlen]; simp, ?_⟩
  intro x y
  refine ⟨premul_valid_f64 _ _ _ _ hok hp x y, channel_range_f64 _ _ _ _ (fun s hs => (hok.1 s hs).2.2) x y, ?_, ?_, ?_⟩
  · intro k hk hx
    have hk' : k < (s0 :: s1 :: rest).length := by rw [hlen]; exact hk
    have e := hget k hk'
    have := at_stop_f64 _ _ _ s0 s1 rest hok x y k hk' (by rw [e]; exact hx)
    rw [this, e]
  · intro h0 h1
    have e := hget 0 (by simp)
    have e0 : s0 = ⟨off 0, col 0⟩ := e
    have := (end_colours_f64 _ _ _ s0 s1 rest hok x y).1 h0 (by rw [e0]; exact h1)
    rw [this, e0]
  · intro h1
    have hl : (s0 :: s1 :: rest).length - 1 < (s0 :: s1 :: rest).length := by simp
    have e := hget _ hl
    have eL : (s0 :: s1 :: rest).getLast (by simp) = ⟨off (p.nStops.toNat - 1), col (p.nStops.toNat - 1)⟩ := by
      rw [List.getLast_eq_getElem, e, hlen]
    have := (end_colours_f64 _ _ _ s0 s1 rest hok x y).2 (by rw [eL]; exact h1)
    rw [this, eL]

/-! ## concrete data for the non-vacuity examples of `Ivg/Props/C15.lean` -/
namespace Ex

/-- 0.25 -/
def sA : Stop F64 := ⟨⟨0x3FD0000000000000⟩, ⟨0x1111, 0x2222, 0x3333, 0x4444⟩⟩
/-- the float32 `0x3e800001` (one float32 step above 0.25) widened: `0.25·(1 + 2^-23)` -/
def sB : Stop F64 := ⟨⟨0x3FD0000020000000⟩, ⟨0xFFFF, 0x8000, 0x0001, 0xFFFF⟩⟩
/-- 1.0 -/
def sC : Stop F64 := ⟨⟨0x3FF0000000000000⟩, ⟨0, 0, 0, 0⟩⟩
/-- the matrix that maps every pixel to the offset `c` (`0*px + 0*py + c`) -/
def mC (c : F64) : Aff3 F64 := ⟨⟨0⟩, ⟨0⟩, c, ⟨0⟩, ⟨0⟩, ⟨0⟩⟩

/-- a register state of the float renderer holding a two-stop linear gradient whose offsets are the float32
    values `0.25` and `0x3e800001` (ONE float32 step apart) and whose matrix maps every pixel to the second
    offset -/
def state : Renderer F32 F64 :=
  let z := ((Renderer.zero (α := F32) (β := F64)).setRasterizer ⟨0, 0, 64, 64⟩).reset F32.posInf ⟨-32, -32, 32, 32⟩ defaultPalette
  { z with cReg := (z.cReg.set6 10 ⟨0, 0, 0, 0xff⟩).set6 11 ⟨0x80, 0x40, 0x20, 0x80⟩,
           nReg := ((z.nReg.set6 6 ⟨0x3e800001⟩).set6 10 ⟨0x3e800000⟩).set6 11 ⟨0x3e800001⟩ }

end Ex

end Ivg.Grad64
