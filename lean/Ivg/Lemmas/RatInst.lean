import Ivg.Arith
import Mathlib.Algebra.Order.Field.Rat
import Mathlib.Data.Rat.Floor
/-!
# The number-generic model at exact arithmetic: `Arith ℚ` and `Wide ℚ ℚ`

The model code of `ViewBox`, `Renderer`, `Gradient`, `Generator` and `MdIcons` is written against the
classes `Arith α` / `Wide α β`.  The driver instantiates them at the bit-exact soft floats `(F32, F64)`;
here they are instantiated at the rationals, where `+ - * /` are the field operations, so that the
geometric content of the properties can be proved with `ring` / `field_simp` / `linarith`.

What a theorem at `ℚ` says about the Go program: the *same* program text, run with exact arithmetic
instead of float32/float64, has the stated property.  The rounding error of the float instance is
NOT bounded by these theorems.
-/
namespace Ivg.RatInst

/-- Go `int(x)`: truncation toward zero -/
def truncQ (x : ℚ) : Int := if 0 ≤ x then ⌊x⌋ else -⌊-x⌋

/-- Go `uint8(x)` on an in-range value: truncation, reduced modulo 256 -/
def toUInt8Q (x : ℚ) : UInt8 := UInt8.ofNat (truncQ x % 256).toNat

/-- the decimal literal `±n / 10^k`, exactly -/
def ofDecimalQ (neg : Bool) (n k : Nat) : ℚ := (if neg then -1 else 1) * (n : ℚ) / (10 : ℚ) ^ k

end Ivg.RatInst

namespace Ivg
open RatInst

instance instArithRat : Arith ℚ where
  ofInt n := (n : ℚ)
  decLt := inferInstance
  decLe := inferInstance
  feq a b := decide (a = b)
  toUInt8 := toUInt8Q
  ofDecimal := ofDecimalQ
  ofDecimalVia64 := ofDecimalQ

/-- `ℚ` has no square root.  The float64 square root (used only by the radial gradient shape and by
    `circularMatrix`) is therefore a PARAMETER of the exact-arithmetic instance: theorems are stated for
    an arbitrary `[SqrtQ]`, keep `SqrtQ.sq …` symbolic, and where the geometry needs it assume of the
    one value involved that it squares to its argument. -/
class SqrtQ where
  sq : ℚ → ℚ

instance instWideRat [SqrtQ] : Wide ℚ ℚ where
  widen := id
  narrow := id
  half := 1 / 2
  floor x := ((⌊x⌋ : Int) : ℚ)
  sqrt := SqrtQ.sq
  trunc := truncQ

/-- default: the constant `0` — a PLACEHOLDER so that `Wide ℚ ℚ` is always available; no theorem uses
    its value (every theorem that mentions `Wide.sqrt` is stated for an arbitrary `[SqrtQ]`). -/
instance (priority := low) instSqrtQPlaceholder : SqrtQ := ⟨fun _ => 0⟩

/-- an instance that is right on the squares of rationals we care about in examples -/
@[reducible] def SqrtQ.ofTable (t : List (ℚ × ℚ)) : SqrtQ := ⟨fun x => ((t.find? (fun p => p.1 == x)).map (·.2)).getD 0⟩

end Ivg

namespace Ivg.RatInst

/-! ## the instance's operations are `ℚ`'s (all by `rfl`); `simp only [ratNorm…]` normal form -/

@[simp] theorem ofInt_eq (n : Int) : (Arith.ofInt n : ℚ) = (n : ℚ) := rfl
@[simp] theorem feq_eq (a b : ℚ) : Arith.feq a b = decide (a = b) := rfl
@[simp] theorem toUInt8_eq (a : ℚ) : Arith.toUInt8 a = toUInt8Q a := rfl
@[simp] theorem ofDecimal_eq (neg : Bool) (n k : Nat) : (Arith.ofDecimal neg n k : ℚ) = ofDecimalQ neg n k := rfl
@[simp] theorem ofDecimalVia64_eq (neg : Bool) (n k : Nat) :
    (Arith.ofDecimalVia64 neg n k : ℚ) = ofDecimalQ neg n k := rfl
section
variable [SqrtQ]
@[simp] theorem widen_eq (x : ℚ) : (Wide.widen x : ℚ) = x := rfl
@[simp] theorem narrow_eq (x : ℚ) : (Wide.narrow x : ℚ) = x := rfl
@[simp] theorem half_eq : (Wide.half (α := ℚ) : ℚ) = 1 / 2 := rfl
@[simp] theorem floor_eq (x : ℚ) : (Wide.floor (α := ℚ) x : ℚ) = ((⌊x⌋ : Int) : ℚ) := rfl
@[simp] theorem trunc_eq (x : ℚ) : Wide.trunc (α := ℚ) x = truncQ x := rfl
@[simp] theorem sqrt_eq (x : ℚ) : (Wide.sqrt (α := ℚ) x : ℚ) = SqrtQ.sq x := rfl
end

/-- the arithmetic operators of the instance are syntactically different from, but definitionally equal
    to, the field operations of `ℚ` -/
example (a b : ℚ) : @HAdd.hAdd ℚ ℚ ℚ (@instHAdd ℚ instArithRat.toAdd) a b = a + b := rfl
example (a b : ℚ) : @HDiv.hDiv ℚ ℚ ℚ (@instHDiv ℚ instArithRat.toDiv) a b = a / b := rfl
example (a b : ℚ) : @LT.lt ℚ instArithRat.toLT a b ↔ a < b := Iff.rfl
example (a b : ℚ) : @LE.le ℚ instArithRat.toLE a b ↔ a ≤ b := Iff.rfl

/-! ## truncation -/

theorem truncQ_nonneg {x : ℚ} (h : 0 ≤ x) : truncQ x = ⌊x⌋ := by simp [truncQ, h]

theorem truncQ_intCast (n : Int) : truncQ (n : ℚ) = n := by
  unfold truncQ
  split
  · simp
  · rw [← Int.cast_neg, Int.floor_intCast]; omega

theorem truncQ_natCast (n : Nat) : truncQ (n : ℚ) = n := by
  have := truncQ_intCast (n : Int)
  simpa using this

/-- truncation is monotone -/
theorem truncQ_mono {x y : ℚ} (h : x ≤ y) : truncQ x ≤ truncQ y := by
  unfold truncQ
  split <;> split
  · exact Int.floor_mono h
  · rename_i h1 h2; exact absurd (le_trans h1 h) h2
  · rename_i h1 h2
    have h3 : 0 ≤ ⌊-x⌋ := Int.floor_nonneg.mpr (by linarith)
    have h4 : 0 ≤ ⌊y⌋ := Int.floor_nonneg.mpr h2
    omega
  · have : ⌊-y⌋ ≤ ⌊-x⌋ := Int.floor_mono (by linarith)
    omega

theorem truncQ_nonneg_of_nonneg {x : ℚ} (h : 0 ≤ x) : 0 ≤ truncQ x := by
  rw [truncQ_nonneg h]; exact Int.floor_nonneg.mpr h

theorem toUInt8Q_natCast (n : Nat) (h : n < 256) : toUInt8Q (n : ℚ) = UInt8.ofNat n := by
  unfold toUInt8Q
  rw [truncQ_natCast]
  congr 1
  omega

example : truncQ (7 / 2) = 3 ∧ truncQ (-7 / 2) = -3 := by
  constructor
  · rw [truncQ_nonneg (by norm_num)]; rw [Int.floor_eq_iff]; norm_num
  · unfold truncQ; rw [if_neg (by norm_num)]
    have : ⌊-(-7 / 2 : ℚ)⌋ = 3 := by rw [Int.floor_eq_iff]; norm_num
    rw [this]

end Ivg.RatInst
