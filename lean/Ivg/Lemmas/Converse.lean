import Ivg.Lemmas.DecoderProto
import Ivg.Lemmas.Header
/-!
# C01, converse direction: an accepted stream's viewBox survives re-encoding
-/
namespace Ivg.Converse
open Ivg Num Enc Dec Codec RoundTrip EncoderInv Header DecoderProto

/-- Go `==` implies the same position in the float order -/
theorem toOrd_of_feq {a b : F32} (h : a.feq b = true) : Num.toOrd .f32 a.nb = Num.toOrd .f32 b.nb := by
  unfold F32.feq Num.eq at h
  cases ha : Num.toOrd .f32 a.nb <;> cases hb : Num.toOrd .f32 b.nb <;> simp_all

theorem lt_congr_of_feq {a a' b b' : F32} (ha : a' = a ∨ a'.feq a = true) (hb : b' = b ∨ b'.feq b = true) :
    (a' < b') ↔ (a < b) := by
  have h1 : Num.toOrd .f32 a'.nb = Num.toOrd .f32 a.nb := by
    rcases ha with rfl | h
    · rfl
    · exact toOrd_of_feq h
  have h2 : Num.toOrd .f32 b'.nb = Num.toOrd .f32 b.nb := by
    rcases hb with rfl | h
    · rfl
    · exact toOrd_of_feq h
  show (F32.lt a' b' = true) ↔ (F32.lt a b = true)
  unfold F32.lt Num.lt
  rw [h1, h2]

theorem finite_of_feq {a a' : F32} (ha : a' = a ∨ a'.feq a = true) (hf : isNaNOrInfinity a = false) :
    isNaNOrInfinity a' = false := by
  rcases ha with rfl | h
  · exact hf
  · rcases (feq_iff _ _).1 h with ⟨_, _, rfl | ⟨hz, _⟩⟩
    · exact hf
    · have hlt := nb_lt a'
      unfold isNaNOrInfinity
      have : a'.bits.toNat = a'.nb := rfl
      rw [this]
      have : a'.nb = 0 ∨ a'.nb = 2147483648 := by omega
      rcases this with h0 | h0 <;> rw [h0] <;> decide

theorem vbNeDefault_default : vbNeDefault defaultViewBox = false := by decide

/-- the viewBox of an accepted stream is valid for `Encoder.reset` + decoding again -/
theorem vbValid_of_accepted {vb : ViewBox F32} (h : ViewBoxAccepted vb) : vbNeDefault vb = true → VBValid vb := by
  intro hne
  rcases h with rfl | ⟨h1, h2, f1, f2, f3, f4, hout⟩
  · rw [vbNeDefault_default] at hne; cases hne
  · have r : ∀ v, v ∈ [vb.minX, vb.minY, vb.maxX, vb.maxY] → (rtCoord v = v ∨ (rtCoord v).feq v = true) := by
      intro v hv
      obtain ⟨b, rest, hd⟩ := hout v hv
      exact (reencode_coord hd).2
    have rminX := r vb.minX (by simp)
    have rminY := r vb.minY (by simp)
    have rmaxX := r vb.maxX (by simp)
    have rmaxY := r vb.maxY (by simp)
    unfold VBValid rtVB
    simp only
    intro hbad
    rcases hbad with hb | hb | hb | hb | hb | hb
    · exact h1 ((lt_congr_of_feq rmaxX rminX).1 hb)
    · exact h2 ((lt_congr_of_feq rmaxY rminY).1 hb)
    · rw [finite_of_feq rminX f1] at hb; cases hb
    · rw [finite_of_feq rminY f2] at hb; cases hb
    · rw [finite_of_feq rmaxX f3] at hb; cases hb
    · rw [finite_of_feq rmaxY f4] at hb; cases hb

end Ivg.Converse
