import Ivg.Lemmas.FloatMono
import Mathlib.Data.Rat.Floor
/-!
# Exactly representable results: `floor`, `ceil`, `ofInt`, `truncInt` and the amd64 conversions (binary64)

* `bval_pk`: the value of a packed pattern — the decoding half of `roundMag`.
* `roundPack_exact`: `±n·2^e` with `n < 2^53`, `e ≥ -1074`, `n·2^e < 2^1024` is packed WITHOUT rounding.
* `floor_spec`, `ceil_spec`: on a finite operand the result is finite, its value is `⌊val a⌋` / `⌈val a⌉`, and it
  carries the sign bit of the operand (`floor(-0) = -0`, `floor(+0.5) = +0`, `ceil(-0.5) = -0`).
* `ofInt_Rnd`, `ofInt_exact`; `truncInt_spec`; `toInt64_spec`, `toUInt16_spec` (see `FloatRound32` for `F32`).
-/
namespace Ivg.FloatRound
open Ivg Num FloatOrder FloatMono

/-! ## decoding a packed pattern -/

theorem pow2_succ (e : Int) : pow2 (e + 1) = 2 * pow2 e := by
  rw [pow2_add]; simp [pow2]; ring

/-- a (non-overflowing) packed magnitude `2^52·(fe+1074) + q` with `q ≤ 2^53`, normalised or subnormal, decodes
    to `q·2^fe` -/
theorem bval_pk (s : Bool) (fe : Int) (q : Nat) (hfe : -1074 ≤ fe) (hq : q ≤ 9007199254740992)
    (hn : 4503599627370496 ≤ q ∨ fe = -1074)
    (hlt : 4503599627370496 * (fe + 1074).toNat + q < 9218868437227405312) :
    FinB (withSign .f64 s (4503599627370496 * (fe + 1074).toNat + q)) ∧
    negB64 (withSign .f64 s (4503599627370496 * (fe + 1074).toNat + q)) = s ∧
    bval (withSign .f64 s (4503599627370496 * (fe + 1074).toNat + q)) = sval s q fe := by
  rw [withSign64]
  generalize ht : (fe + 1074).toNat = t at *
  have hsg : negB64 ((if s = true then 9223372036854775808 else 0) + (4503599627370496 * t + q)) = s := by
    unfold negB64; cases s <;> simp <;> omega
  have hF : FinB ((if s = true then 9223372036854775808 else 0) + (4503599627370496 * t + q)) := by
    unfold FinB; cases s <;> simp <;> omega
  refine ⟨hF, hsg, ?_⟩
  unfold bval
  rw [hsg]
  rcases Nat.lt_or_ge q 4503599627370496 with h1 | h1
  · -- subnormal
    have hfe' : fe = -1074 := by omega
    have ht0 : t = 0 := by omega
    have hm : mantB ((if s = true then 9223372036854775808 else 0) + (4503599627370496 * t + q)) = q := by
      unfold mantB; cases s <;> simp <;> split <;> omega
    have he : expB ((if s = true then 9223372036854775808 else 0) + (4503599627370496 * t + q)) = fe := by
      unfold expB; cases s <;> simp <;> split <;> omega
    rw [hm, he]
  · rcases Nat.lt_or_ge q 9007199254740992 with h2 | h2
    · have hm : mantB ((if s = true then 9223372036854775808 else 0) + (4503599627370496 * t + q)) = q := by
        unfold mantB; cases s <;> simp <;> split <;> omega
      have he : expB ((if s = true then 9223372036854775808 else 0) + (4503599627370496 * t + q)) = fe := by
        unfold expB; cases s <;> simp <;> split <;> omega
      rw [hm, he]
    · -- carry into the exponent
      have hq' : q = 9007199254740992 := by omega
      have hm : mantB ((if s = true then 9223372036854775808 else 0) + (4503599627370496 * t + q)) =
          4503599627370496 := by
        unfold mantB; cases s <;> simp <;> split <;> omega
      have he : expB ((if s = true then 9223372036854775808 else 0) + (4503599627370496 * t + q)) = fe + 1 := by
        unfold expB; cases s <;> simp <;> split <;> omega
      rw [hm, he, hq']
      unfold sval; rw [pow2_succ]; push_cast; ring

/-! ## packing without rounding -/

theorem sval_scale (s : Bool) (n j : Nat) (e : Int) : sval s (n * 2 ^ j) (e - j) = sval s n e := by
  unfold sval
  have := pow2_split e (e - j) (by omega)
  have hk : (e - (e - (j : Int))).toNat = j := by omega
  rw [hk] at this
  rw [this]; push_cast; ring

/-- normalisation of a mantissa of at most 53 bits -/
theorem norm_exists (n : Nat) (e : Int) (hn0 : 0 < n) (hn : n < 9007199254740992) (he : -1074 ≤ e) :
    ∃ j : Nat, n * 2 ^ j < 9007199254740992 ∧ -1074 ≤ e - j ∧
      (4503599627370496 ≤ n * 2 ^ j ∨ e - j = -1074) ∧ (e - j ≤ e + bitLen n - 53 ∨ e - j = -1074) := by
  obtain ⟨h1, h2, h3⟩ := bitLen_bounds hn0
  have hL : bitLen n ≤ 53 := bitLen_le (k := 53) (by omega)
  have c53 : (2:Nat) ^ 53 = 9007199254740992 := by decide
  have c52 : (2:Nat) ^ 52 = 4503599627370496 := by decide
  by_cases hc : (53 - bitLen n : Nat) ≤ (e + 1074).toNat
  · refine ⟨53 - bitLen n, ?_, by omega, Or.inl ?_, Or.inl (by omega)⟩
    · have : n * 2 ^ (53 - bitLen n) < 2 ^ bitLen n * 2 ^ (53 - bitLen n) :=
        (Nat.mul_lt_mul_right (Nat.two_pow_pos _)).2 h2
      rw [← Nat.pow_add, show bitLen n + (53 - bitLen n) = 53 by omega, c53] at this
      exact this
    · have : 2 ^ (bitLen n - 1) * 2 ^ (53 - bitLen n) ≤ n * 2 ^ (53 - bitLen n) :=
        Nat.mul_le_mul_right _ h1
      rw [← Nat.pow_add, show bitLen n - 1 + (53 - bitLen n) = 52 by omega, c52] at this
      exact this
  · refine ⟨(e + 1074).toNat, ?_, by omega, Or.inr (by omega), Or.inr (by omega)⟩
    have : n * 2 ^ (e + 1074).toNat < 2 ^ bitLen n * 2 ^ (e + 1074).toNat :=
      (Nat.mul_lt_mul_right (Nat.two_pow_pos _)).2 h2
    rw [← Nat.pow_add] at this
    have h4 : (2:Nat) ^ (bitLen n + (e + 1074).toNat) ≤ 2 ^ 53 := Nat.pow_le_pow_right (by omega) (by omega)
    omega

/-- **exact packing**: `±n·2^e` with `n < 2^53`, `e ≥ -1074` and `n·2^e < 2^1024` is representable and
    `roundPack` returns its pattern unrounded -/
theorem roundPack_exact (s : Bool) (n : Nat) (e : Int) (hn : n < 9007199254740992) (he : -1074 ≤ e)
    (hhi : e + bitLen n ≤ 1024) :
    FinB (roundPack .f64 s n e) ∧ negB64 (roundPack .f64 s n e) = s ∧
    bval (roundPack .f64 s n e) = sval s n e ∧ roundPack .f64 s n e < 18446744073709551616 := by
  rcases Nat.eq_zero_or_pos n with rfl | hn0
  · have h0 : roundPack .f64 s 0 e = withSign .f64 s 0 := by simp [roundPack]
    have := bval_pk s (-1074) 0 (by omega) (by omega) (Or.inr rfl) (by decide)
    simp only [show ((-1074 : Int) + 1074).toNat = 0 by decide, Nat.mul_zero, Nat.add_zero] at this
    rw [h0]
    refine ⟨this.1, this.2.1, ?_, ?_⟩
    · rw [this.2.2]; simp [sval]
    · rw [withSign64]; split <;> omega
  · obtain ⟨j, j1, j2, j3, j4⟩ := norm_exists n e hn0 hn he
    have hpos : 0 < n * 2 ^ j := Nat.mul_pos hn0 (Nat.two_pow_pos j)
    have hr : roundMag .f64 n e = pk (e - j) (n * 2 ^ j) := by
      rw [← roundMag_scale n j e hn0]
      exact roundMag_exact _ _ hpos j1 j2 j3
    have hno : 4503599627370496 * (e - j + 1074).toNat + n * 2 ^ j < 9218868437227405312 := by omega
    have hpk : pk (e - j) (n * 2 ^ j) = 4503599627370496 * (e - j + 1074).toNat + n * 2 ^ j := by
      unfold pk; rw [if_neg (by omega)]
    have := bval_pk s (e - j) (n * 2 ^ j) j2 (by omega) j3 hno
    rw [roundPack_pos _ _ _ _ (by omega), hr, hpk]
    refine ⟨this.1, this.2.1, ?_, ?_⟩
    · rw [this.2.2]; exact sval_scale s n j e
    · rw [withSign64]; split <;> omega

/-! ## `floor`, `ceil` -/

/-- the value `±m·2^e`, `e ≥ 0`, is an integer -/
theorem sval_int (s : Bool) (m : Nat) (e : Int) (he : 0 ≤ e) :
    sval s m e = (((if s then -((m * 2 ^ e.toNat : Nat) : Int) else ((m * 2 ^ e.toNat : Nat) : Int)) : Int) : ℚ) := by
  have := sval_split s m e 0 he
  rw [pow2_zero, mul_one] at this
  rw [this]; simp

/-- `m·2^(-sh) · 2^sh = m` -/
theorem pow2_neg_mul (sh : Nat) : pow2 (-(sh : Int)) * ((2 ^ sh : Nat) : ℚ) = 1 := by
  have := pow2_split 0 (-(sh : Int)) (by omega)
  rw [pow2_zero, show ((0 : Int) - -(sh : Int)).toNat = sh by omega] at this
  rw [mul_comm]; exact this.symm

/-- floor of `±m / 2^sh` from the integer quotient and remainder -/
theorem floor_quot (s : Bool) (m sh : Nat) :
    ⌊sval s m (-(sh : Int))⌋ =
      if s then -(((if m % 2 ^ sh ≠ 0 then m / 2 ^ sh + 1 else m / 2 ^ sh : Nat)) : Int)
      else ((m / 2 ^ sh : Nat) : Int) := by
  have hP : (0 : ℚ) < ((2 ^ sh : Nat) : ℚ) := by exact_mod_cast Nat.two_pow_pos sh
  have h1 := pow2_neg_mul sh
  have hdm : ((2 ^ sh : Nat) : ℚ) * ((m / 2 ^ sh : Nat) : ℚ) + ((m % 2 ^ sh : Nat) : ℚ) = (m : ℚ) := by
    exact_mod_cast Nat.div_add_mod m (2 ^ sh)
  have hr : ((m % 2 ^ sh : Nat) : ℚ) < ((2 ^ sh : Nat) : ℚ) := by
    exact_mod_cast Nat.mod_lt m (Nat.two_pow_pos sh)
  have hr0 : (0 : ℚ) ≤ ((m % 2 ^ sh : Nat) : ℚ) := Nat.cast_nonneg _
  generalize ((2 ^ sh : Nat) : ℚ) = P at *
  generalize hq : ((m / 2 ^ sh : Nat) : ℚ) = q at *
  have hvP : (m : ℚ) * pow2 (-(sh : Int)) * P = m := by rw [mul_assoc, h1, mul_one]
  generalize hv : (m : ℚ) * pow2 (-(sh : Int)) = v at *
  unfold sval
  rw [hv, Int.floor_eq_iff]
  cases s
  · simp only [Bool.false_eq_true, if_false, one_mul]
    rw [Int.cast_natCast, hq]
    constructor
    · apply le_of_mul_le_mul_right _ hP; rw [hvP, ← hdm]; nlinarith
    · apply lt_of_mul_lt_mul_right _ (le_of_lt hP); rw [hvP, ← hdm]; nlinarith
  · simp only [if_true, neg_one_mul]
    by_cases h0 : m % 2 ^ sh = 0
    · have : ¬ (m % 2 ^ sh ≠ 0) := by simpa using h0
      rw [if_neg this, Int.cast_neg, Int.cast_natCast, hq]
      rw [h0] at hdm
      simp only [Nat.cast_zero, add_zero] at hdm
      have : v = q := by
        apply mul_right_cancel₀ (ne_of_gt hP); rw [hvP, ← hdm]; ring
      rw [this]; constructor <;> linarith
    · rw [if_pos h0, Int.cast_neg, Int.cast_natCast]
      push_cast
      rw [hq]
      have hrp : (0 : ℚ) < ((m % 2 ^ sh : Nat) : ℚ) := by
        have : 0 < m % 2 ^ sh := by omega
        exact_mod_cast this
      constructor
      · have : v ≤ q + 1 := by
          apply le_of_mul_le_mul_right _ hP; rw [hvP, ← hdm]; nlinarith
        linarith
      · have : q < v := by
          apply lt_of_mul_lt_mul_right _ (le_of_lt hP); rw [hvP, ← hdm]; nlinarith
        linarith

/-- **floor of a finite operand**: finite, the operand's sign bit, value `⌊val a⌋` -/
theorem floor_spec (a : Nat) (ha : a < 18446744073709551616) (fa : FinB a) :
    FinB (Num.floor .f64 a) ∧ negB64 (Num.floor .f64 a) = negB64 a ∧
    bval (Num.floor .f64 a) = (⌊bval a⌋ : ℚ) ∧ Num.floor .f64 a < 18446744073709551616 := by
  have hm53 := mantB_lt a
  have hva : bval a = sval (negB64 a) (mantB a) (expB a) := rfl
  rw [hva]
  unfold Num.floor
  rw [unpack_fin a fa]
  simp only []
  split
  · rename_i he
    refine ⟨fa, rfl, ?_, ha⟩
    rw [hva, sval_int _ _ _ he, Int.floor_intCast]
  · rename_i he
    have he' : expB a = -(((-expB a).toNat : Nat) : Int) := by omega
    have hsh : 1 ≤ (-expB a).toNat := by omega
    generalize (-expB a).toNat = sh at *
    rw [he', floor_quot]
    generalize negB64 a = s at *
    generalize mantB a = m at *
    have hq : m / 2 ^ sh < 4503599627370496 := by
      have : m / 2 ^ sh ≤ m / 2 ^ 1 := Nat.div_le_div_left (Nat.pow_le_pow_right (by omega) hsh) (by decide)
      omega
    have hcond : (if (s && (m % 2 ^ sh != 0)) = true then m / 2 ^ sh + 1 else m / 2 ^ sh) < 9007199254740992 := by
      split <;> omega
    have hL := bitLen_le (k := 53) hcond
    obtain ⟨r1, r2, r3, r4⟩ := roundPack_exact s _ 0 hcond (by omega) (by omega)
    refine ⟨r1, r2, ?_, r4⟩
    rw [r3]
    unfold sval
    rw [pow2_zero, mul_one]
    generalize m / 2 ^ sh = q
    generalize m % 2 ^ sh = r
    cases s
    · simp
    · by_cases h0 : r = 0
      · simp [h0]
      · simp [h0]

theorem neg_lt (a : Nat) (ha : a < 18446744073709551616) : Num.neg .f64 a < 18446744073709551616 := by
  unfold Num.neg; rw [signBit_f64]; split <;> omega

theorem neg_neg_bits (a : Nat) (ha : a < 18446744073709551616) : Num.neg .f64 (Num.neg .f64 a) = a := by
  unfold Num.neg; rw [signBit_f64]; split <;> split <;> omega

/-- **ceil of a finite operand**: finite, the operand's sign bit, value `⌈val a⌉` -/
theorem ceil_spec (a : Nat) (ha : a < 18446744073709551616) (fa : FinB a) :
    FinB (Num.ceil .f64 a) ∧ negB64 (Num.ceil .f64 a) = negB64 a ∧
    bval (Num.ceil .f64 a) = (⌈bval a⌉ : ℚ) ∧ Num.ceil .f64 a < 18446744073709551616 := by
  unfold Num.ceil
  have hn := neg_lt a ha
  obtain ⟨f1, f2, f3, f4⟩ := floor_spec (Num.neg .f64 a) hn (neg_FinB a ha fa)
  refine ⟨neg_FinB _ f4 f1, ?_, ?_, neg_lt _ f4⟩
  · rw [(neg_fields _ f4).1, f2, (neg_fields a ha).1]; simp
  · rw [bval_neg _ f4, f3, bval_neg a ha, Int.floor_neg]; simp

/-- an infinite pattern -/
def InfB (a : Nat) : Prop := NNB a ∧ ¬ FinB a
instance (a : Nat) : Decidable (InfB a) := by unfold InfB; infer_instance

theorem unpack_inf (a : Nat) (h : InfB a) : unpack .f64 a = .inf (negB64 a) := by
  obtain ⟨h1, h2⟩ := h
  unfold NNB at h1; unfold FinB at h2
  rw [unpack_f64, if_pos (by omega), if_pos (by omega)]

theorem InfB_cases (a : Nat) (ha : a < 18446744073709551616) (h : InfB a) :
    a = 0x7FF0000000000000 ∨ a = 0xFFF0000000000000 := by
  obtain ⟨h1, h2⟩ := h
  unfold NNB at h1; unfold FinB at h2
  omega

/-- `floor(±Inf) = ±Inf` -/
theorem floor_inf (a : Nat) (h : InfB a) : Num.floor .f64 a = a := by
  unfold Num.floor; rw [unpack_inf a h]

/-- a NaN operand is returned quieted -/
theorem floor_nan (a : Nat) (h : ¬ NNB a) : Num.floor .f64 a = quiet .f64 a := by
  unfold Num.floor; rw [unpack_nan a h]

theorem neg_InfB (a : Nat) (ha : a < 18446744073709551616) (h : InfB a) : InfB (Num.neg .f64 a) := by
  obtain ⟨h1, h2⟩ := h
  unfold InfB NNB FinB at *; unfold Num.neg; rw [signBit_f64]; split <;> omega

/-- `ceil(±Inf) = ±Inf` -/
theorem ceil_inf (a : Nat) (ha : a < 18446744073709551616) (h : InfB a) : Num.ceil .f64 a = a := by
  unfold Num.ceil; rw [floor_inf _ (neg_InfB a ha h), neg_neg_bits a ha]

theorem quiet_f64 (b : Nat) :
    quiet .f64 b = if b / 2251799813685248 % 2 = 1 then b else b + 2251799813685248 := by
  have : Fmt.f64.quietBit = 2251799813685248 := by decide
  unfold quiet; rw [this]; simp

/-- a NaN operand is returned quieted, sign and payload kept -/
theorem ceil_nan (a : Nat) (ha : a < 18446744073709551616) (h : ¬ NNB a) : Num.ceil .f64 a = quiet .f64 a := by
  have hn : ¬ NNB (Num.neg .f64 a) := by
    unfold NNB at *; unfold Num.neg; rw [signBit_f64]; split <;> omega
  unfold Num.ceil
  rw [floor_nan _ hn, quiet_f64, quiet_f64]
  unfold NNB at h
  unfold Num.neg; rw [signBit_f64]
  split <;> split <;> split <;> split <;> omega

theorem floor_lt (a : Nat) (ha : a < 18446744073709551616) : Num.floor .f64 a < 18446744073709551616 := by
  by_cases hn : NNB a
  · by_cases hf : FinB a
    · exact (floor_spec a ha hf).2.2.2
    · rw [floor_inf a ⟨hn, hf⟩]; exact ha
  · rw [floor_nan a hn]; exact (quiet_nan a ha hn).2

theorem ceil_lt (a : Nat) (ha : a < 18446744073709551616) : Num.ceil .f64 a < 18446744073709551616 :=
  neg_lt _ (floor_lt _ (neg_lt a ha))

theorem floor_nb (a : F64) : a.floor.nb = Num.floor .f64 a.nb := nb_ofNatBits _ (floor_lt _ (nb_lt a))
theorem ceil_nb (a : F64) : a.ceil.nb = Num.ceil .f64 a.nb := nb_ofNatBits _ (ceil_lt _ (nb_lt a))

/-- `F64` form: `math.Floor` of a finite number -/
theorem floor_F64 (a : F64) (fa : FloatMono.Fin a) :
    FloatMono.Fin a.floor ∧ val a.floor = (⌊val a⌋ : ℚ) ∧ negB64 a.floor.nb = negB64 a.nb := by
  unfold FloatMono.Fin val; rw [floor_nb]
  obtain ⟨h1, h2, h3, _⟩ := floor_spec a.nb (nb_lt a) fa
  exact ⟨h1, h3, h2⟩

/-- `F64` form: `math.Ceil` of a finite number -/
theorem ceil_F64 (a : F64) (fa : FloatMono.Fin a) :
    FloatMono.Fin a.ceil ∧ val a.ceil = (⌈val a⌉ : ℚ) ∧ negB64 a.ceil.nb = negB64 a.nb := by
  unfold FloatMono.Fin val; rw [ceil_nb]
  obtain ⟨h1, h2, h3, _⟩ := ceil_spec a.nb (nb_lt a) fa
  exact ⟨h1, h3, h2⟩

-- non-vacuity: floor(-0.5) = -1, floor(0.5) = +0, floor(-0) = -0, ceil(-0.5) = -0, ceil(2.5) = 3, large integer kept
example : FinB 0xBFE0000000000000 := by decide
example : Num.floor .f64 0xBFE0000000000000 = 0xBFF0000000000000 := by decide +kernel
example : Num.floor .f64 0x3FE0000000000000 = 0 := by decide +kernel
example : Num.floor .f64 0x8000000000000000 = 0x8000000000000000 := by decide +kernel
example : Num.ceil .f64 0xBFE0000000000000 = 0x8000000000000000 := by decide +kernel
example : Num.ceil .f64 0x4004000000000000 = 0x4008000000000000 := by decide +kernel
example : Num.floor .f64 0x4340000000000001 = 0x4340000000000001 := by decide +kernel
example : InfB 0xFFF0000000000000 ∧ ¬ NNB 0x7FF0000000000001 := by decide

/-! ## `ofInt` -/

/-- **integer → binary64 is correctly rounded** -/
theorem ofInt_Rnd (i : Int) : Rnd (i : ℚ) (Num.ofInt .f64 i) := by
  unfold Num.ofInt
  by_cases h0 : i = 0
  · subst h0; left; simp
  · have : (i == 0) = false := by simp [h0]
    rw [this]
    simp only [Bool.false_eq_true, if_false]
    have h := Rnd_int (decide (i < 0)) i.natAbs 0 (by omega)
    rw [pow2_zero, mul_one] at h
    rw [int_cast_signed i]; exact h

/-- **exact below `2^53`** -/
theorem ofInt_exact (i : Int) (h : i.natAbs < 9007199254740992) :
    FinB (Num.ofInt .f64 i) ∧ bval (Num.ofInt .f64 i) = (i : ℚ) := by
  unfold Num.ofInt
  by_cases h0 : i = 0
  · subst h0
    refine ⟨by decide, ?_⟩
    simp only [BEq.rfl, if_true, Int.cast_zero]
    exact bval_zero 0 (by decide)
  · have : (i == 0) = false := by simp [h0]
    rw [this]
    simp only [Bool.false_eq_true, if_false]
    have hL := bitLen_le (k := 53) h
    obtain ⟨r1, _, r3, _⟩ := roundPack_exact (decide (i < 0)) i.natAbs 0 h (by omega) (by omega)
    refine ⟨r1, ?_⟩
    rw [r3, int_cast_signed i]; unfold sval; rw [pow2_zero, mul_one]

theorem ofInt_lt (i : Int) : Num.ofInt .f64 i < 18446744073709551616 := (Rnd_lt _ _ (ofInt_Rnd i)).2

theorem ofInt_nb (i : Int) : (F64.ofInt i).nb = Num.ofInt .f64 i := nb_ofNatBits _ (ofInt_lt i)

/-- `F64` form: `float64(i)` -/
theorem ofInt_F64 (i : Int) : Rnd (i : ℚ) (F64.ofInt i).nb := by rw [ofInt_nb]; exact ofInt_Rnd i

theorem ofInt_F64_exact (i : Int) (h : i.natAbs < 9007199254740992) :
    FloatMono.Fin (F64.ofInt i) ∧ val (F64.ofInt i) = (i : ℚ) := by
  unfold FloatMono.Fin val; rw [ofInt_nb]; exact ofInt_exact i h

example : Num.ofInt .f64 (-3) = 0xC008000000000000 := by decide +kernel
-- 2^53 + 1 is not representable: rounded to even
example : Num.ofInt .f64 9007199254740993 = 0x4340000000000000 := by decide +kernel

/-! ## `truncInt` and the amd64 conversions -/

/-- truncation toward zero of a rational -/
def tr (v : ℚ) : Int := if 0 ≤ v then ⌊v⌋ else ⌈v⌉

theorem sval_false_nonneg (m : Nat) (e : Int) : 0 ≤ sval false m e := by
  unfold sval
  have := pow2_pos e
  simp only [Bool.false_eq_true, if_false, one_mul]
  positivity

theorem sval_true (m : Nat) (e : Int) : sval true m e = - sval false m e := by
  unfold sval; simp

theorem tr_neg (v : ℚ) : tr (-v) = - tr v := by
  unfold tr
  rcases lt_trichotomy v 0 with h | h | h
  · rw [if_pos (by linarith), if_neg (by linarith), Int.floor_neg]
  · subst h; simp
  · rw [if_neg (by linarith), if_pos (by linarith), Int.ceil_neg]

/-- **`truncInt` of a finite operand is the truncation toward zero of its value** -/
theorem truncInt_spec (a : Nat) (fa : FinB a) : Num.truncInt .f64 a = some (tr (bval a)) := by
  have hva : bval a = sval (negB64 a) (mantB a) (expB a) := rfl
  rw [hva]
  unfold Num.truncInt
  rw [unpack_fin a fa]
  simp only []
  generalize negB64 a = s
  generalize mantB a = m
  generalize expB a = e
  congr 1
  -- the non-negative case
  have hpos : tr (sval false m e) = ((if e ≥ 0 then m * 2 ^ e.toNat else m / 2 ^ (-e).toNat : Nat) : Int) := by
    unfold tr
    rw [if_pos (sval_false_nonneg m e)]
    split
    · rename_i he
      rw [sval_int _ _ _ he, Int.floor_intCast]; simp
    · rename_i he
      have he' : e = -(((-e).toNat : Nat) : Int) := by omega
      generalize (-e).toNat = sh at *
      rw [he', floor_quot]; simp
  cases s
  · rw [hpos]; simp
  · rw [sval_true, tr_neg, hpos]; simp

theorem truncInt_none (a : Nat) (h : ¬ FinB a) : Num.truncInt .f64 a = none := by
  unfold FinB at h
  unfold Num.truncInt
  rw [unpack_f64, if_pos (by omega)]
  by_cases h0 : a % 4503599627370496 = 0
  · rw [if_pos h0]
  · rw [if_neg h0]

/-- Go `int64(x)` / `int(x)` on amd64, in range: truncation toward zero -/
theorem toInt64_inrange (a : F64) (fa : FloatMono.Fin a) (h1 : -(2:Int)^63 ≤ tr (val a)) (h2 : tr (val a) < (2:Int)^63) :
    a.toInt64 = tr (val a) := by
  unfold F64.toInt64 val
  rw [truncInt_spec a.nb fa]
  simp only []
  rw [if_neg (by unfold val at h1 h2; omega)]

/-- … out of range, infinite or NaN: the "integer indefinite" value `-2^63` (CVTTSD2SQ) -/
theorem toInt64_indefinite (a : F64)
    (h : ¬ FloatMono.Fin a ∨ tr (val a) < -(2:Int)^63 ∨ (2:Int)^63 ≤ tr (val a)) : a.toInt64 = -(2:Int)^63 := by
  unfold F64.toInt64
  by_cases fa : FloatMono.Fin a
  · rw [truncInt_spec a.nb fa]
    simp only []
    rw [if_pos (by unfold val at h; tauto)]
  · rw [truncInt_none a.nb fa]

/-- the range condition in terms of the value: `|v| < B` gives `|tr v| < B` -/
theorem tr_bound (v : ℚ) (B : Int) (hB : 0 < B) (h1 : -(B : ℚ) < v) (h2 : v < (B : ℚ)) : -B ≤ tr v ∧ tr v < B := by
  unfold tr
  split
  · rename_i h0
    constructor
    · have : (0:Int) ≤ ⌊v⌋ := Int.floor_nonneg.2 h0
      omega
    · rw [Int.floor_lt]; exact h2
  · rename_i h0
    constructor
    · exact Int.le_ceil_iff.2 (by push_cast; linarith)
    · have : ⌈v⌉ ≤ 0 := Int.ceil_le.2 (by push_cast; linarith)
      omega

theorem tr_nonneg (v : ℚ) (h : 0 ≤ v) : tr v = ⌊v⌋ := by unfold tr; rw [if_pos h]

theorem tr_range (v : ℚ) (h1 : -(2:ℚ)^63 < v) (h2 : v < (2:ℚ)^63) : -(2:Int)^63 ≤ tr v ∧ tr v < (2:Int)^63 :=
  tr_bound v ((2:Int)^63) (by decide) (by push_cast; exact h1) (by push_cast; exact h2)

theorem toInt64_val (a : F64) (fa : FloatMono.Fin a) (h1 : -(2:ℚ)^63 < val a) (h2 : val a < (2:ℚ)^63) :
    a.toInt64 = tr (val a) :=
  toInt64_inrange a fa (tr_range _ h1 h2).1 (tr_range _ h1 h2).2

/-- Go `uint16(x)`: the low 16 bits of the 64-bit conversion -/
theorem toUInt16_spec (a : F64) : a.toUInt16.toNat = (a.toInt64 % 65536).toNat := by
  unfold F64.toUInt16
  rw [UInt16.toNat_ofNat']
  have : (a.toInt64 % 65536).toNat < 65536 := by omega
  exact Nat.mod_eq_of_lt this

/-- … for `0 ≤ val a < 65536` it is the truncation itself -/
theorem toUInt16_inrange (a : F64) (fa : FloatMono.Fin a) (h0 : 0 ≤ val a) (h1 : val a < 65536) :
    (a.toUInt16.toNat : Int) = ⌊val a⌋ := by
  have ht : tr (val a) = ⌊val a⌋ := by unfold tr; rw [if_pos h0]
  have hf0 : (0:Int) ≤ ⌊val a⌋ := Int.floor_nonneg.2 h0
  have hf1 : ⌊val a⌋ < 65536 := by rw [Int.floor_lt]; push_cast; exact h1
  rw [toUInt16_spec, toInt64_inrange a fa (by rw [ht]; omega) (by rw [ht]; omega), ht]
  omega

example : (⟨0xC004000000000000⟩ : F64).toInt64 = -2 := by decide +kernel      -- int64(-2.5)
example : (⟨0x43E0000000000000⟩ : F64).toInt64 = -(2:Int)^63 := by decide +kernel  -- int64(2^63): indefinite
example : (⟨0x7FF8000000000000⟩ : F64).toInt64 = -(2:Int)^63 := by decide +kernel  -- NaN
example : (⟨0x40F0001000000000⟩ : F64).toUInt16 = 1 := by decide +kernel      -- uint16(65537.0)

end Ivg.FloatRound
