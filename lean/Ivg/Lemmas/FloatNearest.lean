import Ivg.Lemmas.FloatRound
import Ivg.Lemmas.FloatSqrt
/-!
# `FloatOrder.Rnd` is round-to-nearest, ties-to-even, overflow at `2^1024 - 2^970` (binary64)

`FloatOrder.Rnd v b` is phrased through the model's own `roundMag`.  Here it is characterised independently:

* `Rnd_nearest`: if `Rnd v b` and `b` is finite then no finite number is closer to `v` than `b`;
* `Rnd_tie_even`: if another finite number with a different value is exactly as close, the mantissa of `b` is even;
* `Rnd_overflow`: `Rnd v b` with `b` infinite iff `|v| ≥ 2^1024 - 2^970` (the midpoint between the largest finite
  number and `2^1024`), and then `b` is the infinity of the sign of `v`;
* `Rnd_total`, `Rnd_unique`: every rational has a rounding, unique up to the sign of zero.
-/
namespace Ivg.FloatNearest
open Ivg Num FloatOrder FloatMono FloatRound

/-! ## the shift-and-round step is nearest-even -/

theorem rneShift_near (m s : Nat) (hs : 1 ≤ s) :
    rneShift m s * 2 ^ s ≤ m + 2 ^ (s - 1) ∧ m ≤ rneShift m s * 2 ^ s + 2 ^ (s - 1) ∧
    ((rneShift m s * 2 ^ s = m + 2 ^ (s - 1) ∨ m = rneShift m s * 2 ^ s + 2 ^ (s - 1)) → rneShift m s % 2 = 0) := by
  obtain ⟨u, rfl⟩ : ∃ u, s = u + 1 := ⟨s - 1, by omega⟩
  have hP : 2 ^ (u + 1) = 2 * 2 ^ u := by rw [Nat.pow_succ]; omega
  have e1 := Nat.div_add_mod m (2 ^ (u + 1))
  have r1 := Nat.mod_lt m (Nat.two_pow_pos (u + 1))
  unfold rneShift
  simp only [Nat.add_sub_cancel]
  rw [hP] at e1 r1 ⊢
  have hpos := Nat.two_pow_pos u
  generalize m / (2 * 2 ^ u) = q0 at *
  generalize m % (2 * 2 ^ u) = r at *
  generalize 2 ^ u = h at *
  have e2 : 2 * h * q0 = 2 * (q0 * h) := by ring
  have e3 : (q0 + 1) * (2 * h) = 2 * (q0 * h) + 2 * h := by ring
  have e4 : q0 * (2 * h) = 2 * (q0 * h) := by ring
  rw [e2] at e1
  split
  · rename_i hc
    simp only [Bool.or_eq_true, decide_eq_true_eq, Bool.and_eq_true, beq_iff_eq] at hc
    rw [e3]
    generalize q0 * h = X at *
    refine ⟨by omega, by omega, fun _ => by omega⟩
  · rename_i hc
    simp only [Bool.or_eq_true, decide_eq_true_eq, Bool.and_eq_true, beq_iff_eq] at hc
    rw [e4]
    generalize q0 * h = X at *
    refine ⟨by omega, by omega, fun _ => by omega⟩

/-- for an odd numerator and a shift of at least two, the rounding error is strictly below half a unit, by a
    whole unit of the numerator -/
theorem rneShift_near_odd (m s : Nat) (hs : 2 ≤ s) (hodd : m % 2 = 1) :
    rneShift m s * 2 ^ s + 1 ≤ m + 2 ^ (s - 1) ∧ m + 1 ≤ rneShift m s * 2 ^ s + 2 ^ (s - 1) := by
  obtain ⟨h1, h2, _⟩ := rneShift_near m s (by omega)
  obtain ⟨u, rfl⟩ : ∃ u, s = u + 2 := ⟨s - 2, by omega⟩
  have hP : 2 ^ (u + 2) = 2 * (2 * 2 ^ u) := by rw [Nat.pow_succ, Nat.pow_succ]; omega
  have hP' : 2 ^ (u + 2 - 1) = 2 * 2 ^ u := by
    rw [show u + 2 - 1 = u + 1 by omega, Nat.pow_succ]; omega
  rw [hP, hP'] at h1 h2 ⊢
  have e : rneShift m (u + 2) * (2 * (2 * 2 ^ u)) = 2 * (rneShift m (u + 2) * (2 * 2 ^ u)) := by ring
  rw [e] at h1 h2 ⊢
  generalize rneShift m (u + 2) * (2 * 2 ^ u) = X at *
  generalize 2 ^ u = h at *
  omega

/-! ## the grid point chosen by `roundMag` -/

/-- `q·2^fe` is a nearest point of the grid `2^fe·ℤ` to `v`, `q` is even on a tie, and when `q·2^fe` is the first
    point of a binade it does not exceed `v` (below it the grid is finer) -/
def Near (v : ℚ) (fe : Int) (q : Nat) : Prop :=
  (q : ℚ) * pow2 fe - pow2 fe / 2 ≤ v ∧ v ≤ (q : ℚ) * pow2 fe + pow2 fe / 2 ∧
  ((v = (q : ℚ) * pow2 fe - pow2 fe / 2 ∨ v = (q : ℚ) * pow2 fe + pow2 fe / 2) → q % 2 = 0) ∧
  (q = 4503599627370496 → -1074 < fe → (q : ℚ) * pow2 fe ≤ v)

theorem fe64_eq (M : Nat) (E : Int) (h : -1074 < fe64 M E) : fe64 M E = E + (bitLen M : Int) - 53 := by
  unfold fe64 at h ⊢; split <;> rename_i hc
  · rw [if_pos hc] at h; omega
  · rfl

theorem fe64_ge' (M : Nat) (E : Int) : E + (bitLen M : Int) - 53 ≤ fe64 M E := by
  unfold fe64; split <;> omega

/-- first point of a binade: `2^52·2^s = 2^(bitLen M - 1)` -/
theorem binade (M : Nat) (E : Int) (h : -1074 < fe64 M E) (hlt : E < fe64 M E) :
    4503599627370496 * 2 ^ (fe64 M E - E).toNat = 2 ^ (bitLen M - 1) := by
  have := fe64_eq M E h
  have c52 : (2:Nat) ^ 52 = 4503599627370496 := by decide
  rw [← c52, ← Nat.pow_add]; congr 1; omega

theorem pow2_shift (fe E : Int) (h : E < fe) :
    pow2 fe = ((2 ^ (fe - E).toNat : Nat) : ℚ) * pow2 E ∧
    pow2 fe / 2 = ((2 ^ ((fe - E).toNat - 1) : Nat) : ℚ) * pow2 E := by
  have h1 := pow2_split fe E (by omega)
  refine ⟨h1, ?_⟩
  rw [h1]
  obtain ⟨u, hu⟩ : ∃ u, (fe - E).toNat = u + 1 := ⟨(fe - E).toNat - 1, by omega⟩
  rw [hu, Nat.add_sub_cancel, Nat.pow_succ]; push_cast; ring

/-- the packed fields of `roundMag` -/
theorem roundMag_fields (M : Nat) (E : Int) (hM : 0 < M) :
    roundMag .f64 M E = pk (fe64 M E) (qOf M E (fe64 M E)) ∧ -1074 ≤ fe64 M E ∧
    qOf M E (fe64 M E) ≤ 9007199254740992 ∧ (4503599627370496 ≤ qOf M E (fe64 M E) ∨ fe64 M E = -1074) := by
  refine ⟨roundMag_eq M E, fe64_ge M E, qOf_le M E, ?_⟩
  by_cases h : -1074 < fe64 M E
  · exact Or.inl (qOf_ge M E hM h)
  · have := fe64_ge M E; right; omega

/-- **exact numerator**: `roundMag M E` picks a nearest-even grid point for `M·2^E` -/
theorem roundMag_Near (M : Nat) (E : Int) (hM : 0 < M) :
    Near ((M : ℚ) * pow2 E) (fe64 M E) (qOf M E (fe64 M E)) := by
  have hpE := pow2_pos E
  have hpf := pow2_pos (fe64 M E)
  by_cases hle : fe64 M E ≤ E
  · have hq : qOf M E (fe64 M E) = M * 2 ^ (E - fe64 M E).toNat := by unfold qOf; rw [if_pos hle]
    have hv : ((qOf M E (fe64 M E) : Nat) : ℚ) * pow2 (fe64 M E) = (M : ℚ) * pow2 E := by
      rw [hq, pow2_split E (fe64 M E) hle]; push_cast; ring
    unfold Near
    rw [hv]
    refine ⟨by linarith, by linarith, ?_, fun _ _ => le_refl _⟩
    rintro (h | h) <;> linarith
  · have hlt : E < fe64 M E := by omega
    have hq : qOf M E (fe64 M E) = rneShift M (fe64 M E - E).toNat := by unfold qOf; rw [if_neg hle]
    obtain ⟨p1, p2⟩ := pow2_shift (fe64 M E) E hlt
    obtain ⟨n1, n2, n3⟩ := rneShift_near M (fe64 M E - E).toNat (by omega)
    have hb := binade M E
    rw [← hq] at n1 n2 n3
    generalize qOf M E (fe64 M E) = q at *
    generalize (fe64 M E - E).toNat = s at *
    unfold Near
    rw [p2, p1]
    have c1 : ((q * 2 ^ s : Nat) : ℚ) ≤ ((M + 2 ^ (s - 1) : Nat) : ℚ) := Nat.cast_le.2 n1
    have c2 : ((M : Nat) : ℚ) ≤ ((q * 2 ^ s + 2 ^ (s - 1) : Nat) : ℚ) := Nat.cast_le.2 n2
    simp only [Nat.cast_add, Nat.cast_mul] at c1 c2
    refine ⟨?_, ?_, ?_, ?_⟩
    · have := mul_le_mul_of_nonneg_right c1 (le_of_lt hpE)
      linarith
    · have := mul_le_mul_of_nonneg_right c2 (le_of_lt hpE)
      linarith
    · rintro (h | h)
      · apply n3; left
        have : ((M : ℚ) + ((2 ^ (s - 1) : Nat) : ℚ)) * pow2 E = ((q : ℚ) * ((2 ^ s : Nat) : ℚ)) * pow2 E := by
          rw [add_mul, h]; ring
        have := mul_right_cancel₀ (ne_of_gt hpE) this
        have : ((M + 2 ^ (s - 1) : Nat) : ℚ) = ((q * 2 ^ s : Nat) : ℚ) := by
          simp only [Nat.cast_add, Nat.cast_mul]; exact this
        exact (Nat.cast_injective this).symm
      · apply n3; right
        have : (M : ℚ) * pow2 E = ((q : ℚ) * ((2 ^ s : Nat) : ℚ) + ((2 ^ (s - 1) : Nat) : ℚ)) * pow2 E := by
          rw [h]; ring
        have := mul_right_cancel₀ (ne_of_gt hpE) this
        have : ((M : Nat) : ℚ) = ((q * 2 ^ s + 2 ^ (s - 1) : Nat) : ℚ) := by
          simp only [Nat.cast_add, Nat.cast_mul]; exact this
        exact Nat.cast_injective this
    · intro hq52 hfe
      have hb' := hb hfe hlt
      obtain ⟨b1, _, _⟩ := bitLen_bounds hM
      have : q * 2 ^ s ≤ M := by rw [hq52, hb']; exact b1
      have : ((q * 2 ^ s : Nat) : ℚ) ≤ (M : ℚ) := Nat.cast_le.2 this
      simp only [Nat.cast_mul] at this
      have := mul_le_mul_of_nonneg_right this (le_of_lt hpE)
      linarith

/-- **truncated numerator with sticky bit**: for any `v` strictly inside `(Q, Q+1)·2^e`, `Q` of at least 54 bits,
    `roundMag (2Q+1) (e-1)` picks the nearest grid point (never a tie) -/
theorem roundMag_Near_sticky (Q : Nat) (e : Int) (hQ : 54 ≤ bitLen Q) (v : ℚ)
    (h1 : (Q : ℚ) * pow2 e < v) (h2 : v < ((Q : ℚ) + 1) * pow2 e) :
    Near v (fe64 (2 * Q + 1) (e - 1)) (qOf (2 * Q + 1) (e - 1) (fe64 (2 * Q + 1) (e - 1))) := by
  have hQ0 : 0 < Q := by
    rcases Nat.eq_zero_or_pos Q with rfl | h
    · simp [bitLen] at hQ
    · exact h
  have hbl : bitLen (2 * Q + 1) = bitLen Q + 1 := by
    have := bitLen_gap Q 1 1 hQ0 (by decide)
    rw [show Q * 2 ^ 1 + 1 = 2 * Q + 1 by omega] at this; exact this
  have hpe : pow2 e = 2 * pow2 (e - 1) := by
    have := pow2_succ (e - 1); rw [show e - 1 + 1 = e by omega] at this; exact this
  rw [hpe] at h1 h2
  have hM : 0 < 2 * Q + 1 := by omega
  have hodd : (2 * Q + 1) % 2 = 1 := by omega
  have hfe := fe64_ge' (2 * Q + 1) (e - 1)
  have hb := binade (2 * Q + 1) (e - 1)
  obtain ⟨b1, _, _⟩ := bitLen_bounds hM
  rw [hbl] at hfe b1 hb
  generalize hMdef : 2 * Q + 1 = M at *
  generalize e - 1 = E at *
  have hpE := pow2_pos E
  have hlt : E < fe64 M E := by omega
  have hq : qOf M E (fe64 M E) = rneShift M (fe64 M E - E).toNat := by unfold qOf; rw [if_neg (by omega)]
  obtain ⟨p1, p2⟩ := pow2_shift (fe64 M E) E hlt
  obtain ⟨n1, n2⟩ := rneShift_near_odd M (fe64 M E - E).toNat (by omega) hodd
  rw [← hq] at n1 n2
  generalize qOf M E (fe64 M E) = q at *
  have hs2 : 2 ≤ (fe64 M E - E).toNat := by omega
  generalize (fe64 M E - E).toNat = s at *
  -- `2Q = M - 1`
  have hMQ : (2 : ℚ) * (Q : ℚ) + 1 = (M : ℚ) := by
    have : ((2 * Q + 1 : Nat) : ℚ) = (M : ℚ) := by rw [hMdef]
    simpa using this
  have c1 : ((q * 2 ^ s + 1 : Nat) : ℚ) ≤ ((M + 2 ^ (s - 1) : Nat) : ℚ) := Nat.cast_le.2 n1
  have c2 : ((M + 1 : Nat) : ℚ) ≤ ((q * 2 ^ s + 2 ^ (s - 1) : Nat) : ℚ) := Nat.cast_le.2 n2
  simp only [Nat.cast_add, Nat.cast_mul, Nat.cast_one] at c1 c2
  have d1 := mul_le_mul_of_nonneg_right c1 (le_of_lt hpE)
  have d2 := mul_le_mul_of_nonneg_right c2 (le_of_lt hpE)
  have hMQ' : (M : ℚ) * pow2 E = 2 * (Q : ℚ) * pow2 E + pow2 E := by rw [← hMQ]; ring
  unfold Near
  rw [p2, p1]
  refine ⟨by linarith, by linarith, ?_, ?_⟩
  · rintro (h | h) <;> linarith
  · intro hq52 hfe'
    have hb' := hb hfe' hlt
    have heven : 2 ^ (bitLen Q + 1 - 1) % 2 = 0 := by
      rw [show bitLen Q + 1 - 1 = (bitLen Q - 1) + 1 by omega, Nat.pow_succ]; omega
    have : q * 2 ^ s + 1 ≤ M := by rw [hq52, hb']; omega
    have : ((q * 2 ^ s + 1 : Nat) : ℚ) ≤ (M : ℚ) := Nat.cast_le.2 this
    simp only [Nat.cast_add, Nat.cast_mul, Nat.cast_one] at this
    have := mul_le_mul_of_nonneg_right this (le_of_lt hpE)
    linarith

/-- the rounding of a positive rational `T/d·2^e`: packed fields and nearest-even grid point -/
theorem rmag_Near (T d : Nat) (e : Int) (hOk : Ok T d) :
    ∃ (fe : Int) (q : Nat), rmag T d e = pk fe q ∧ -1074 ≤ fe ∧ q ≤ 9007199254740992 ∧
      (4503599627370496 ≤ q ∨ fe = -1074) ∧ Near ((T : ℚ) / d * pow2 e) fe q := by
  obtain ⟨hd, hT, hq⟩ := hOk
  have hdq : (0 : ℚ) < d := by exact_mod_cast hd
  have e1 := Nat.div_add_mod T d
  have hpe := pow2_pos e
  by_cases h0 : T % d = 0
  · have hQ0 : 0 < T / d := by
      rcases Nat.eq_zero_or_pos (T / d) with h | h
      · rw [h, h0] at e1; omega
      · exact h
    have hv : (T : ℚ) / d = ((T / d : Nat) : ℚ) := by
      rw [h0, Nat.add_zero] at e1
      have : (T : ℚ) = (d : ℚ) * ((T / d : Nat) : ℚ) := by
        have : ((d * (T / d) : Nat) : ℚ) = (T : ℚ) := by rw [e1]
        rw [← this]; push_cast; ring
      rw [this]; field_simp
    obtain ⟨f1, f2, f3, f4⟩ := roundMag_fields (T / d) e hQ0
    refine ⟨_, _, ?_, f2, f3, f4, ?_⟩
    · unfold rmag; rw [if_pos h0]; exact f1
    · rw [hv]; exact roundMag_Near (T / d) e hQ0
  · have hQ : 54 ≤ bitLen (T / d) := by
      rcases hq with h | h
      · exact absurd h h0
      · exact h
    have hr := Nat.mod_lt T hd
    have hTq : (T : ℚ) = (d : ℚ) * ((T / d : Nat) : ℚ) + ((T % d : Nat) : ℚ) := by
      have : ((d * (T / d) + T % d : Nat) : ℚ) = (T : ℚ) := by rw [e1]
      rw [← this]; push_cast; ring
    have hr0 : (0 : ℚ) < ((T % d : Nat) : ℚ) := by
      have : 0 < T % d := by omega
      exact_mod_cast this
    have hr1 : ((T % d : Nat) : ℚ) < (d : ℚ) := by exact_mod_cast hr
    have hlo : ((T / d : Nat) : ℚ) < (T : ℚ) / d := by
      rw [lt_div_iff₀ hdq]; rw [hTq]; nlinarith
    have hhi : (T : ℚ) / d < ((T / d : Nat) : ℚ) + 1 := by
      rw [div_lt_iff₀ hdq]; rw [hTq]; nlinarith
    obtain ⟨f1, f2, f3, f4⟩ := roundMag_fields (2 * (T / d) + 1) (e - 1) (by omega)
    refine ⟨_, _, ?_, f2, f3, f4, ?_⟩
    · unfold rmag; rw [if_neg h0]; exact f1
    · exact roundMag_Near_sticky (T / d) e hQ _ (mul_lt_mul_of_pos_right hlo hpe)
        (mul_lt_mul_of_pos_right hhi hpe)

/-! ## neighbours of a packed pattern -/

theorem bval_pk_pos (fe : Int) (q : Nat) (hfe : -1074 ≤ fe) (hq : q ≤ 9007199254740992)
    (hn : 4503599627370496 ≤ q ∨ fe = -1074)
    (hlt : 4503599627370496 * (fe + 1074).toNat + q < 9218868437227405312) :
    FinB (4503599627370496 * (fe + 1074).toNat + q) ∧
    bval (4503599627370496 * (fe + 1074).toNat + q) = (q : ℚ) * pow2 fe := by
  have := bval_pk false fe q hfe hq hn hlt
  have hw : withSign .f64 false (4503599627370496 * (fe + 1074).toNat + q) =
      4503599627370496 * (fe + 1074).toNat + q := by simp [withSign]
  rw [hw] at this
  refine ⟨this.1, ?_⟩
  rw [this.2.2]; simp [sval]

theorem mantB_pk (fe : Int) (q : Nat) :
    mantB (4503599627370496 * (fe + 1074).toNat + q) % 2 = q % 2 := by
  unfold mantB; split <;> omega

theorem FinB_small (c : Nat) (h : c < 9218868437227405312) : FinB c := by unfold FinB; omega

theorem FinB_pos_lt (c : Nat) (h : c < 9223372036854775808) (fc : FinB c) : c < 9218868437227405312 := by
  unfold FinB at fc; omega

theorem key_small (c : Nat) (h : c < 9223372036854775808) : key c = c := by
  unfold key; rw [if_neg (by omega)]

theorem bval_neg_pattern (c : Nat) (h : 9223372036854775808 ≤ c) (hc : c < 18446744073709551616) : bval c ≤ 0 := by
  have hs : negB64 c = true := by unfold negB64; simp; omega
  unfold bval sval; rw [hs]
  have := pow2_pos (expB c)
  have : (0:ℚ) ≤ (mantB c : ℚ) * pow2 (expB c) := by positivity
  simp only [if_true]; linarith

/-- the finite numbers above `b = pk fe q` are at least one grid step above -/
theorem upper_neighbour (fe : Int) (q : Nat) (hfe : -1074 ≤ fe) (hq : q ≤ 9007199254740992)
    (hn : 4503599627370496 ≤ q ∨ fe = -1074)
    (hlt : 4503599627370496 * (fe + 1074).toNat + q < 9218868437227405312)
    (c : Nat) (hc : c < 18446744073709551616) (fc : FinB c) (h : (q : ℚ) * pow2 fe < bval c) :
    (q : ℚ) * pow2 fe + pow2 fe ≤ bval c := by
  obtain ⟨fb, vb⟩ := bval_pk_pos fe q hfe hq hn hlt
  generalize hb : 4503599627370496 * (fe + 1074).toNat + q = b at *
  rw [← vb] at h
  have hk := (key_lt_iff b c (by omega) hc fb fc).2 h
  rw [key_small b (by omega)] at hk
  have hc63 : c < 9223372036854775808 := by
    by_contra hcc
    unfold key at hk; rw [if_pos (by omega)] at hk; omega
  rw [key_small c hc63] at hk
  have hcinf := FinB_pos_lt c hc63 fc
  have fb1 : FinB (b + 1) := FinB_small _ (by omega)
  have hle : bval (b + 1) ≤ bval c := by
    apply (key_le_iff (b + 1) c (by omega) hc fb1 fc).1
    rw [key_small _ (by omega), key_small c hc63]; omega
  refine le_trans ?_ hle
  have hpf := pow2_pos fe
  rcases Nat.lt_or_ge q 9007199254740992 with h1 | h1
  · have := bval_pk_pos fe (q + 1) hfe (by omega) (by omega) (by omega)
    rw [show 4503599627370496 * (fe + 1074).toNat + (q + 1) = b + 1 by omega] at this
    rw [this.2]; push_cast; linarith
  · have hq' : q = 9007199254740992 := by omega
    have := bval_pk_pos (fe + 1) 4503599627370497 (by omega) (by omega) (by omega) (by omega)
    rw [show 4503599627370496 * (fe + 1 + 1074).toNat + 4503599627370497 = b + 1 by omega] at this
    rw [this.2, pow2_succ, hq']; push_cast; linarith

/-- the finite numbers below `b = pk fe q` are at least one grid step below, except below the first point of a
    binade -/
theorem lower_neighbour (fe : Int) (q : Nat) (hfe : -1074 ≤ fe) (hq : q ≤ 9007199254740992)
    (hn : 4503599627370496 ≤ q ∨ fe = -1074)
    (hlt : 4503599627370496 * (fe + 1074).toNat + q < 9218868437227405312)
    (c : Nat) (hc : c < 18446744073709551616) (fc : FinB c) (h : bval c < (q : ℚ) * pow2 fe) :
    bval c ≤ (q : ℚ) * pow2 fe - pow2 fe ∨ (q = 4503599627370496 ∧ -1074 < fe) ∨ q = 0 := by
  obtain ⟨fb, vb⟩ := bval_pk_pos fe q hfe hq hn hlt
  have hpf := pow2_pos fe
  by_cases hq0 : q = 0
  · right; right; exact hq0
  by_cases hq52 : q = 4503599627370496 ∧ -1074 < fe
  · right; left; exact hq52
  left
  by_cases hc63 : c < 9223372036854775808
  · generalize hb : 4503599627370496 * (fe + 1074).toNat + q = b at *
    rw [← vb] at h
    have hk := (key_lt_iff c b hc (by omega) fc fb).2 h
    rw [key_small b (by omega), key_small c hc63] at hk
    have fb1 : FinB (b - 1) := FinB_small _ (by omega)
    have hle : bval c ≤ bval (b - 1) := by
      apply (key_le_iff c (b - 1) hc (by omega) fc fb1).1
      rw [key_small c hc63, key_small (b - 1) (by omega)]; omega
    refine le_trans hle ?_
    have := bval_pk_pos fe (q - 1) hfe (by omega) (by omega) (by omega)
    rw [show 4503599627370496 * (fe + 1074).toNat + (q - 1) = b - 1 by omega] at this
    rw [this.2]
    have : ((q - 1 : Nat) : ℚ) = (q : ℚ) - 1 := by
      rw [Nat.cast_sub (by omega)]; simp
    rw [this]; linarith
  · have := bval_neg_pattern c (by omega) hc
    have h1 : (1 : ℚ) ≤ (q : ℚ) := by
      have : 1 ≤ q := by omega
      exact_mod_cast this
    nlinarith

/-! ## nearest, ties to even -/

theorem pk_fin (fe : Int) (q : Nat) (h : FinB (pk fe q)) :
    pk fe q = 4503599627370496 * (fe + 1074).toNat + q ∧
    4503599627370496 * (fe + 1074).toNat + q < 9218868437227405312 := by
  unfold pk at h ⊢
  split
  · rename_i hc; rw [if_pos hc] at h; exact absurd h (by decide)
  · rename_i hc; exact ⟨rfl, by omega⟩

theorem nearest_pos (v : ℚ) (b : Nat) (hv : 0 < v) (h : Rnd v b) (fb : FinB b)
    (c : Nat) (hc : c < 18446744073709551616) (fc : FinB c) :
    |v - bval b| ≤ |v - bval c| ∧ (|v - bval c| = |v - bval b| → bval c ≠ bval b → mantB b % 2 = 0) := by
  rcases h with ⟨h0, _⟩ | ⟨_, T, d, e, hOk, hval, rfl⟩ | ⟨h0, _⟩
  · exact absurd h0 (ne_of_gt hv)
  swap
  · exact absurd h0 (not_lt.2 (le_of_lt hv))
  obtain ⟨fe, q, hpk, hfe, hq, hn, n1, n2, n3, n4⟩ := rmag_Near T d e hOk
  rw [← hval] at n1 n2 n3 n4
  rw [hpk] at fb ⊢
  obtain ⟨hx, hlt⟩ := pk_fin fe q fb
  rw [hx]
  obtain ⟨_, vb⟩ := bval_pk_pos fe q hfe hq hn hlt
  have hm := mantB_pk fe q
  rw [vb, hm]
  have hU := pow2_pos fe
  have a1 := le_abs_self (v - bval c)
  have a2 := neg_abs_le (v - bval c)
  rcases lt_trichotomy (bval c) ((q : ℚ) * pow2 fe) with hlt' | heq | hgt
  · rcases lower_neighbour fe q hfe hq hn hlt c hc fc hlt' with hl | ⟨h52, hfe'⟩ | hq0
    · constructor
      · rw [abs_le]; constructor <;> linarith
      · intro htie _
        apply n3; left
        have : |v - (q : ℚ) * pow2 fe| ≤ pow2 fe / 2 := by rw [abs_le]; constructor <;> linarith
        linarith
    · have := n4 h52 hfe'
      constructor
      · rw [abs_le]; constructor <;> linarith
      · intro htie _
        rw [abs_of_nonneg (by linarith : (0:ℚ) ≤ v - (q : ℚ) * pow2 fe)] at htie
        linarith
    · subst hq0
      simp only [Nat.cast_zero, zero_mul] at *
      constructor
      · rw [abs_le]; constructor <;> linarith
      · intro htie _
        rw [sub_zero, abs_of_pos hv] at htie
        linarith
  · exact ⟨by rw [heq], fun _ hne => absurd heq hne⟩
  · have hu := upper_neighbour fe q hfe hq hn hlt c hc fc hgt
    constructor
    · rw [abs_le]; constructor <;> linarith
    · intro htie _
      apply n3; right
      have : |v - (q : ℚ) * pow2 fe| ≤ pow2 fe / 2 := by rw [abs_le]; constructor <;> linarith
      linarith

/-! ## symmetry -/

/-- rounding commutes with negation -/
theorem Rnd_neg (v : ℚ) (b : Nat) (h : Rnd v b) : Rnd (-v) (Num.neg .f64 b) := by
  unfold Num.neg; rw [signBit_f64]
  rcases h with ⟨h0, rfl | rfl⟩ | ⟨h0, T, d, e, hOk, hval, rfl⟩ | ⟨h0, T, d, e, hOk, hval, rfl⟩
  · left; rw [h0]; simp
  · left; rw [h0]; simp
  · right; right
    have := rmag_le_inf T d e
    rw [if_neg (by omega)]
    exact ⟨by linarith, T, d, e, hOk, by rw [neg_neg]; exact hval, by omega⟩
  · right; left
    rw [if_pos (by omega)]
    exact ⟨by linarith, T, d, e, hOk, hval, by omega⟩

theorem abs_neg_sub (v x : ℚ) : |(-v) - (-x)| = |v - x| := by
  rw [show -v - -x = -(v - x) by ring, abs_neg]

/-- **nearest**: a finite rounding result is at least as close to `v` as every finite number -/
theorem Rnd_nearest (v : ℚ) (b : Nat) (h : Rnd v b) (fb : FinB b)
    (c : Nat) (hc : c < 18446744073709551616) (fc : FinB c) : |v - bval b| ≤ |v - bval c| := by
  have hb := (Rnd_lt v b h).2
  rcases lt_trichotomy v 0 with hneg | hz | hpos
  · have := (nearest_pos (-v) _ (by linarith) (Rnd_neg v b h) (neg_FinB b hb fb) _ (neg_lt c hc)
      (neg_FinB c hc fc)).1
    rw [bval_neg b hb, bval_neg c hc, abs_neg_sub, abs_neg_sub] at this
    exact this
  · subst hz
    rcases h with ⟨_, rfl | rfl⟩ | ⟨h0, _⟩ | ⟨h0, _⟩
    · rw [bval_zero 0 (by decide)]; simp
    · rw [bval_zero _ (by decide)]; simp
    · exact absurd h0 (lt_irrefl _)
    · exact absurd h0 (lt_irrefl _)
  · exact (nearest_pos v b hpos h fb c hc fc).1

/-- **ties to even**: if a finite number with another value is exactly as close, the result's mantissa is even -/
theorem Rnd_tie_even (v : ℚ) (b : Nat) (h : Rnd v b) (fb : FinB b)
    (c : Nat) (hc : c < 18446744073709551616) (fc : FinB c)
    (htie : |v - bval c| = |v - bval b|) (hne : bval c ≠ bval b) : mantB b % 2 = 0 := by
  have hb := (Rnd_lt v b h).2
  rcases lt_trichotomy v 0 with hneg | hz | hpos
  · have := (nearest_pos (-v) _ (by linarith) (Rnd_neg v b h) (neg_FinB b hb fb) _ (neg_lt c hc)
      (neg_FinB c hc fc)).2
    rw [bval_neg b hb, bval_neg c hc, abs_neg_sub, abs_neg_sub, (neg_fields b hb).2.1] at this
    exact this htie (by intro hh; apply hne; linarith)
  · subst hz
    exfalso
    rcases h with ⟨_, rfl | rfl⟩ | ⟨h0, _⟩ | ⟨h0, _⟩
    · rw [bval_zero 0 (by decide)] at htie hne
      simp only [zero_sub, abs_neg, abs_zero, neg_zero] at htie
      exact hne (abs_eq_zero.1 htie)
    · rw [bval_zero 9223372036854775808 (by decide)] at htie hne
      simp only [zero_sub, abs_neg, abs_zero, neg_zero] at htie
      exact hne (abs_eq_zero.1 htie)
    · exact absurd h0 (lt_irrefl _)
    · exact absurd h0 (lt_irrefl _)
  · exact (nearest_pos v b hpos h fb c hc fc).2 htie hne

/-! ## overflow -/

/-- `2^1024 - 2^970`, the midpoint between the largest finite number and `2^1024` -/
def ovf : ℚ := 18014398509481983 * pow2 970

theorem pow2_mono (a b : Int) (h : a ≤ b) : pow2 a ≤ pow2 b := by
  rw [pow2_split b a h]
  have h1 : (1 : ℚ) ≤ ((2 ^ (b - a).toNat : Nat) : ℚ) := by
    have := Nat.two_pow_pos (b - a).toNat
    exact_mod_cast this
  have := pow2_pos a
  nlinarith

theorem Rnd_ovf : Rnd ovf 0x7FF0000000000000 := by
  have h := Rnd_int false 18014398509481983 970 (by decide)
  have e : roundPack .f64 false 18014398509481983 970 = 0x7FF0000000000000 := by decide +kernel
  rw [e] at h
  simpa [ovf] using h

theorem overflow_pos (v : ℚ) (b : Nat) (hv : 0 < v) (h : Rnd v b) :
    (¬ FinB b ↔ ovf ≤ v) ∧ (¬ FinB b → b = 0x7FF0000000000000) := by
  have hbits := FloatSqrt.Rnd_pos_bits v b hv h
  have hinf : ¬ FinB b → b = 0x7FF0000000000000 := by
    intro hf; unfold FinB at hf; omega
  refine ⟨⟨?_, ?_⟩, hinf⟩
  · intro hnf
    rcases h with ⟨h0, _⟩ | ⟨_, T, d, e, hOk, hval, rfl⟩ | ⟨h0, _⟩
    · exact absurd h0 (ne_of_gt hv)
    swap
    · exact absurd h0 (not_lt.2 (le_of_lt hv))
    obtain ⟨fe, q, hpk, hfe, hq, hn, n1, n2, n3, n4⟩ := rmag_Near T d e hOk
    rw [← hval] at n1 n2 n3 n4
    rw [hpk] at hnf
    have hx : 9218868437227405312 ≤ 4503599627370496 * (fe + 1074).toNat + q := by
      by_contra hc
      apply hnf
      unfold pk; rw [if_neg (by omega)]
      exact FinB_small _ (by omega)
    have hfe971 : 971 ≤ fe := by omega
    have h970 : pow2 971 = 2 * pow2 970 := by
      have := pow2_succ 970; rw [show (970 : Int) + 1 = 971 by decide] at this; exact this
    have hp970 := pow2_pos 970
    unfold ovf
    by_cases h971 : fe = 971
    · subst h971
      have hq' : q = 9007199254740992 := by omega
      rw [hq', h970] at n1
      push_cast at n1
      linarith
    · have h972 : pow2 972 = 4 * pow2 970 := by
        have := pow2_succ 971; rw [show (971 : Int) + 1 = 972 by decide, h970] at this
        rw [this]; ring
      have hm := pow2_mono 972 fe (by omega)
      have hq52 : 4503599627370496 ≤ q := by omega
      by_cases hqe : q = 4503599627370496
      · have := n4 hqe (by omega)
        rw [hqe] at this
        push_cast at this
        nlinarith
      · have h1 : (4503599627370497 : ℚ) ≤ (q : ℚ) := by
          have : 4503599627370497 ≤ q := by omega
          exact_mod_cast this
        have hpf := pow2_pos fe
        nlinarith
  · intro hge
    have hk := Rnd_mono _ _ _ _ Rnd_ovf h hge
    have : key 0x7FF0000000000000 = 9218868437227405312 := by decide
    rw [this, key_small b (by omega)] at hk
    have : b = 0x7FF0000000000000 := by omega
    rw [this]; decide

/-- **overflow**: the result is infinite exactly when `|v| ≥ 2^1024 - 2^970`, and then it is the infinity of the
    sign of `v` -/
theorem Rnd_overflow (v : ℚ) (b : Nat) (h : Rnd v b) :
    (¬ FinB b ↔ ovf ≤ |v|) ∧
    (¬ FinB b → b = if v < 0 then 0xFFF0000000000000 else 0x7FF0000000000000) := by
  have hb := (Rnd_lt v b h).2
  have hovf : 0 < ovf := by unfold ovf; have := pow2_pos 970; positivity
  rcases lt_trichotomy v 0 with hneg | hz | hpos
  · obtain ⟨o1, o2⟩ := overflow_pos (-v) _ (by linarith) (Rnd_neg v b h)
    have hF : FinB (Num.neg .f64 b) ↔ FinB b :=
      ⟨fun hh => by have := neg_FinB _ (neg_lt b hb) hh; rwa [neg_neg_bits b hb] at this, neg_FinB b hb⟩
    rw [abs_of_neg hneg, if_pos hneg]
    refine ⟨by rw [← hF]; exact o1, ?_⟩
    intro hnf
    have := o2 (by rw [hF]; exact hnf)
    have h2 := neg_neg_bits b hb
    rw [this] at h2
    rw [← h2]; decide +kernel
  · subst hz
    rw [abs_zero]
    have hfin : FinB b := by
      rcases h with ⟨_, rfl | rfl⟩ | ⟨h0, _⟩ | ⟨h0, _⟩
      · decide
      · decide
      · exact absurd h0 (lt_irrefl _)
      · exact absurd h0 (lt_irrefl _)
    exact ⟨⟨fun hh => absurd hfin hh, fun hh => by linarith⟩, fun hh => absurd hfin hh⟩
  · obtain ⟨o1, o2⟩ := overflow_pos v b hpos h
    rw [abs_of_pos hpos, if_neg (by linarith)]
    exact ⟨o1, o2⟩

/-! ## every rational has a rounding, unique up to the sign of zero -/

theorem Rnd_total_pos (v : ℚ) (hv : 0 < v) : ∃ b, Rnd v b := by
  have hnum : 0 < v.num := Rat.num_pos.2 hv
  obtain ⟨n, hn⟩ : ∃ n : Nat, v.num = n := ⟨v.num.toNat, by omega⟩
  have hn0 : 0 < n := by omega
  have hd0 : 0 < v.den := v.den_pos
  -- scale the numerator so that the quotient has at least 54 bits
  let K := 54 + bitLen v.den
  have hOk : Ok (n * 2 ^ K) v.den := by
    refine ⟨hd0, Nat.mul_pos hn0 (Nat.two_pow_pos _), Or.inr ?_⟩
    have h1 : v.den < 2 ^ bitLen v.den := bitLen_lt_pow _
    have h2 : 2 ^ 54 * v.den ≤ n * 2 ^ K := by
      show 2 ^ 54 * v.den ≤ n * 2 ^ (54 + bitLen v.den)
      rw [Nat.pow_add]
      calc 2 ^ 54 * v.den ≤ 2 ^ 54 * 2 ^ bitLen v.den := Nat.mul_le_mul_left _ (le_of_lt h1)
        _ ≤ n * (2 ^ 54 * 2 ^ bitLen v.den) := Nat.le_mul_of_pos_left _ hn0
    have h3 : 2 ^ 54 ≤ n * 2 ^ K / v.den := (Nat.le_div_iff_mul_le hd0).2 h2
    have := bitLen_ge h3
    omega
  refine ⟨rmag (n * 2 ^ K) v.den (-(K : Int)), Or.inr (Or.inl ⟨hv, _, _, _, hOk, ?_, rfl⟩)⟩
  have hvq : v = (n : ℚ) / v.den := by
    have := Rat.num_div_den v
    rw [hn, Int.cast_natCast] at this
    exact this.symm
  have hK := pow2_neg_mul K
  have hdq : (v.den : ℚ) ≠ 0 := by exact_mod_cast (ne_of_gt hd0)
  calc v = (n : ℚ) / v.den := hvq
    _ = (n : ℚ) / v.den * (((2 ^ K : Nat) : ℚ) * pow2 (-(K : Int))) := by rw [mul_comm _ (pow2 _), hK, mul_one]
    _ = ((n * 2 ^ K : Nat) : ℚ) / v.den * pow2 (-(K : Int)) := by push_cast; ring

theorem Rnd_total (v : ℚ) : ∃ b, Rnd v b := by
  rcases lt_trichotomy v 0 with hneg | hz | hpos
  · obtain ⟨b, hb⟩ := Rnd_total_pos (-v) (by linarith)
    have := Rnd_neg _ _ hb
    rw [neg_neg] at this
    exact ⟨_, this⟩
  · exact ⟨0, Or.inl ⟨hz, Or.inl rfl⟩⟩
  · exact Rnd_total_pos v hpos

/-- the rounding of a non-zero rational is unique -/
theorem Rnd_unique (v : ℚ) (b b' : Nat) (hv : v ≠ 0) (h : Rnd v b) (h' : Rnd v b') : b = b' := by
  rcases lt_or_gt_of_ne hv with hneg | hpos
  · have := FloatSqrt.Rnd_pos_unique (-v) _ _ (by linarith) (Rnd_neg v b h) (Rnd_neg v b' h')
    have e1 := neg_neg_bits b (Rnd_lt v b h).2
    have e2 := neg_neg_bits b' (Rnd_lt v b' h').2
    rw [← e1, ← e2, this]
  · exact FloatSqrt.Rnd_pos_unique v b b' hpos h h'

/-! ## the square root is nearest -/

/-- every rational between two rationals with the same rounding has that rounding -/
theorem Rnd_between (q1 q2 x : ℚ) (b : Nat) (h0 : 0 < q1) (h1 : Rnd q1 b) (h2 : Rnd q2 b) (hx1 : q1 ≤ x) (hx2 : x ≤ q2) :
    Rnd x b := by
  obtain ⟨b', hb'⟩ := Rnd_total x
  have k1 := Rnd_mono _ _ _ _ h1 hb' hx1
  have k2 := Rnd_mono _ _ _ _ hb' h2 hx2
  have p1 := FloatSqrt.Rnd_pos_bits q1 b h0 h1
  have p2 := FloatSqrt.Rnd_pos_bits x b' (by linarith) hb'
  rw [key_small b (by omega), key_small b' (by omega)] at k1 k2
  have : b' = b := by omega
  rw [← this]; exact hb'

/-- **`√a` is the nearest number to the real root**: the result is finite and, for an enclosure `q1 ≤ √(val a) ≤ q2`,
    at least as close to EVERY rational of `[q1, q2]` as any finite number -/
theorem sqrt_nearest (a : Nat) (fa : FinB a) (hpos : 0 < bval a) :
    FinB (Num.sqrt .f64 a) ∧
    ∃ q1 q2 : ℚ, 0 < q1 ∧ q1 ≤ q2 ∧ q1 ^ 2 ≤ bval a ∧ bval a ≤ q2 ^ 2 ∧
      ∀ x : ℚ, q1 ≤ x → x ≤ q2 → ∀ c, c < 18446744073709551616 → FinB c →
        |x - bval (Num.sqrt .f64 a)| ≤ |x - bval c| := by
  have hf := FloatSqrt.sqrt_finite a fa hpos
  obtain ⟨q1, q2, h0, h12, h1, h2, r1, r2⟩ := FloatSqrt.sqrt_Rnd a fa hpos
  refine ⟨hf, q1, q2, h0, h12, h1, h2, ?_⟩
  intro x hx1 hx2 c hc fc
  exact Rnd_nearest x _ (Rnd_between q1 q2 x _ h0 r1 r2 hx1 hx2) hf c hc fc

-- non-vacuity: `2^53 + 1` is a tie between `2^53` (even mantissa, chosen) and `2^53 + 2`
example : Rnd (9007199254740993 : ℚ) 0x4340000000000000 := by
  have := ofInt_Rnd 9007199254740993
  have e : Num.ofInt .f64 9007199254740993 = 0x4340000000000000 := by decide +kernel
  rw [e] at this; exact_mod_cast this
example : FinB 0x4340000000000000 ∧ FinB 0x4340000000000001 ∧ mantB 0x4340000000000000 % 2 = 0 := by decide

end Ivg.FloatNearest
