import Ivg.Lemmas.FloatOrder
/-!
# The binary64 operations are correctly rounded, hence monotone; an interval evaluator

* `add_Rnd`, `sub_Rnd`, `mul_Rnd`, `div_Rnd`: on finite operands, the result pattern of `Num.add/sub/mul/div`
  is the correct rounding (`FloatOrder.Rnd`) of the exact rational result.
* monotonicity of `+ - * /` for `F64` (`add_mono`, `sub_mono`, `mul_mono_nonneg`, `div_mono_pos`, …).
* NaN propagation; sign facts: the quotient / square root of non-negative patterns is non-negative (or the
  default NaN), `a - b` with `0 ≤ b ≤ a` is never `-0` (`div_pos0`, `sqrt_pos0`, `sub_pos0`).
* `Ival`: intervals with finite `F64` endpoints; `Ival.add/sub/mul/div/neg`; soundness (`In_add`, …) in the form
  "if the computed interval is valid, the result of the float operation is a NaN or lies in it".
-/
namespace Ivg.FloatMono
open Ivg Num FloatOrder

/-! ## wrappers -/

theorem nb_lt (a : F64) : a.nb < 18446744073709551616 := a.bits.toNat_lt

theorem nb_ofNatBits (n : Nat) (h : n < 18446744073709551616) : (F64.ofNatBits n).nb = n := by
  simp only [F64.nb, F64.ofNatBits, UInt64.toNat_ofNat']
  omega

theorem ext_nb {a b : F64} (h : a.nb = b.nb) : a = b := by
  cases a; cases b; simp only [F64.nb] at h; congr; exact UInt64.toNat_inj.1 h

/-- finite -/
def Fin (a : F64) : Prop := FinB a.nb
instance (a : F64) : Decidable (Fin a) := by unfold Fin; infer_instance
/-- not a NaN -/
def NN (a : F64) : Prop := NNB a.nb
instance (a : F64) : Decidable (NN a) := by unfold NN; infer_instance
/-- rational value of a finite number -/
def val (a : F64) : ℚ := bval a.nb
/-- order key of a non-NaN -/
def kk (a : F64) : Int := key a.nb

theorem Fin_NN {a : F64} (h : Fin a) : NN a := FinB_NNB _ h

theorem le_def (a b : F64) : a ≤ b ↔ NN a ∧ NN b ∧ kk a ≤ kk b := by
  show Num.le .f64 a.nb b.nb = true ↔ _
  constructor
  · intro h
    obtain ⟨ha, hb⟩ := le_NNB _ _ h
    exact ⟨ha, hb, (le_iff_key _ _ ha hb).1 h⟩
  · rintro ⟨ha, hb, h⟩
    exact (le_iff_key _ _ ha hb).2 h

theorem lt_def (a b : F64) : a < b ↔ NN a ∧ NN b ∧ kk a < kk b := by
  show Num.lt .f64 a.nb b.nb = true ↔ _
  constructor
  · intro h
    obtain ⟨ha, hb⟩ := lt_NNB _ _ h
    exact ⟨ha, hb, (lt_iff_key _ _ ha hb).1 h⟩
  · rintro ⟨ha, hb, h⟩
    exact (lt_iff_key _ _ ha hb).2 h

theorem kk_le_iff {a b : F64} (ha : Fin a) (hb : Fin b) : kk a ≤ kk b ↔ val a ≤ val b :=
  key_le_iff _ _ (nb_lt a) (nb_lt b) ha hb

theorem kk_lt_iff {a b : F64} (ha : Fin a) (hb : Fin b) : kk a < kk b ↔ val a < val b :=
  key_lt_iff _ _ (nb_lt a) (nb_lt b) ha hb

theorem le_iff_val {a b : F64} (ha : Fin a) (hb : Fin b) : a ≤ b ↔ val a ≤ val b := by
  rw [le_def, kk_le_iff ha hb]
  exact ⟨fun h => h.2.2, fun h => ⟨Fin_NN ha, Fin_NN hb, h⟩⟩

theorem lt_iff_val {a b : F64} (ha : Fin a) (hb : Fin b) : a < b ↔ val a < val b := by
  rw [lt_def, kk_lt_iff ha hb]
  exact ⟨fun h => h.2.2, fun h => ⟨Fin_NN ha, Fin_NN hb, h⟩⟩

theorem not_le_of_NN {a b : F64} (ha : NN a) (hb : NN b) (h : ¬ a ≤ b) : b < a := by
  rw [le_def] at h; rw [lt_def]
  refine ⟨hb, ha, ?_⟩
  by_contra hc
  exact h ⟨ha, hb, by omega⟩

theorem not_lt_of_NN {a b : F64} (ha : NN a) (hb : NN b) (h : ¬ a < b) : b ≤ a := by
  rw [lt_def] at h; rw [le_def]
  refine ⟨hb, ha, ?_⟩
  by_contra hc
  exact h ⟨ha, hb, by omega⟩

/-- a non-NaN whose key lies strictly between the infinities is finite -/
theorem Fin_of_key {a : F64} (ha : NN a) (h1 : -9218868437227405312 < kk a) (h2 : kk a < 9218868437227405312) :
    Fin a := by
  unfold Fin FinB
  unfold NN NNB at ha
  unfold kk key at h1 h2
  have := nb_lt a
  split at h1 <;> omega

theorem kk_bound {a : F64} (ha : Fin a) : -9218868437227405312 < kk a ∧ kk a < 9218868437227405312 := by
  have := (magnitude_fin a.nb ha).2
  have := nb_lt a
  unfold kk key
  split <;> omega

/-- between two finite numbers there are only finite numbers -/
theorem Fin_between {lo a hi : F64} (hlo : Fin lo) (hhi : Fin hi) (h1 : lo ≤ a) (h2 : a ≤ hi) : Fin a := by
  rw [le_def] at h1 h2
  have := kk_bound hlo
  have := kk_bound hhi
  exact Fin_of_key h1.2.1 (by omega) (by omega)

/-! ## negation and absolute value -/

theorem neg_nb (a : F64) : (-a).nb = Num.neg .f64 a.nb := by
  show (F64.ofNatBits _).nb = _
  apply nb_ofNatBits
  have := nb_lt a
  unfold Num.neg; rw [signBit_f64]; split <;> omega

theorem abs_nb (a : F64) : a.abs.nb = a.nb % 9223372036854775808 := by
  show (F64.ofNatBits _).nb = _
  unfold Num.abs; rw [signBit_f64]
  apply nb_ofNatBits
  omega

theorem neg_NN {a : F64} : NN (-a) ↔ NN a := by
  unfold NN NNB; rw [neg_nb]; unfold Num.neg; rw [signBit_f64]
  have := nb_lt a
  split <;> omega

theorem abs_NN {a : F64} : NN a.abs ↔ NN a := by
  unfold NN NNB; rw [abs_nb]; omega

theorem kk_neg (a : F64) : kk (-a) = - kk a := by
  unfold kk key; rw [neg_nb]; unfold Num.neg; rw [signBit_f64]
  have := nb_lt a
  split <;> split <;> omega

theorem kk_abs (a : F64) : kk a.abs = |kk a| := by
  unfold kk key; rw [abs_nb]
  have := nb_lt a
  split
  · omega
  · split
    · rw [abs_of_nonpos (by omega)]; omega
    · rw [abs_of_nonneg (by omega)]; omega

theorem neg_Fin {a : F64} : Fin (-a) ↔ Fin a := by
  unfold Fin FinB; rw [neg_nb]; unfold Num.neg; rw [signBit_f64]
  have := nb_lt a
  split <;> omega

theorem neg_fields (b : Nat) (hb : b < 18446744073709551616) :
    negB64 (Num.neg .f64 b) = !negB64 b ∧ mantB (Num.neg .f64 b) = mantB b ∧ expB (Num.neg .f64 b) = expB b := by
  unfold Num.neg negB64 mantB expB; rw [signBit_f64]
  split
  · rename_i h
    have h1 : (b - 9223372036854775808) / 4503599627370496 % 2048 = b / 4503599627370496 % 2048 := by omega
    have h2 : (b - 9223372036854775808) % 4503599627370496 = b % 4503599627370496 := by omega
    have h3 : (b - 9223372036854775808) / 9223372036854775808 % 2 = 0 := by omega
    have h4 : b / 9223372036854775808 % 2 = 1 := by omega
    rw [h1, h2, h3, h4]; simp
  · rename_i h
    have h1 : (b + 9223372036854775808) / 4503599627370496 % 2048 = b / 4503599627370496 % 2048 := by omega
    have h2 : (b + 9223372036854775808) % 4503599627370496 = b % 4503599627370496 := by omega
    have h3 : (b + 9223372036854775808) / 9223372036854775808 % 2 = 1 := by omega
    have h4 : b / 9223372036854775808 % 2 = 0 := by omega
    rw [h1, h2, h3, h4]; simp

theorem bval_neg (b : Nat) (hb : b < 18446744073709551616) : bval (Num.neg .f64 b) = - bval b := by
  obtain ⟨h1, h2, h3⟩ := neg_fields b hb
  unfold bval sval
  rw [h1, h2, h3]
  cases negB64 b <;> simp

theorem val_neg (a : F64) : val (-a) = - val a := by
  unfold val; rw [neg_nb]; exact bval_neg _ (nb_lt a)

/-! ## the operations on finite operands round the exact result -/

theorem int_cast_signed (z : Int) : (z : ℚ) = (if decide (z < 0) then -1 else 1) * ((z.natAbs : ℚ)) := by
  rcases Int.eq_nat_or_neg z with ⟨k, rfl | rfl⟩
  · have : ¬ ((k : Int) < 0) := by omega
    simp [this]
  · by_cases hk : k = 0
    · subst hk; simp
    · have : (-(k : Int) < 0) := by omega
      simp [this]

theorem sval_split (s : Bool) (m : Nat) (e e0 : Int) (h : e0 ≤ e) :
    sval s m e = (((if s then -((m * 2 ^ (e - e0).toNat : Nat) : Int) else ((m * 2 ^ (e - e0).toNat : Nat) : Int)) : Int) : ℚ)
      * pow2 e0 := by
  unfold sval
  rw [pow2_split e e0 h]
  cases s <;> simp <;> ring

theorem add_core' (s : Bool) (m : Nat) (e : Int) (t : Bool) (n : Nat) (g e0 x' y' : Int)
    (hx : sval s m e = (x' : ℚ) * pow2 e0) (hy : sval t n g = (y' : ℚ) * pow2 e0) :
    Rnd (sval s m e + sval t n g)
      (if (x' + y' == 0) = true then withSign .f64 (s && t) 0
       else roundPack .f64 (decide (x' + y' < 0)) (x' + y').natAbs e0) := by
  have hv : sval s m e + sval t n g = ((x' + y' : Int) : ℚ) * pow2 e0 := by
    rw [hx, hy]; push_cast; ring
  rw [hv]
  generalize x' + y' = z
  by_cases hz : z = 0
  · have : (z == 0) = true := by simp [hz]
    rw [this, hz]
    simp only [if_true, Int.cast_zero, zero_mul]
    exact Rnd_zero _
  · have : (z == 0) = false := by simp [hz]
    rw [this]
    simp only [Bool.false_eq_true, if_false]
    have h := Rnd_int (decide (z < 0)) z.natAbs e0 (by omega)
    rw [int_cast_signed z, mul_assoc]
    exact h

theorem min_le_both (e g : Int) : (if e ≤ g then e else g) ≤ e ∧ (if e ≤ g then e else g) ≤ g := by
  split <;> omega

theorem add_core (s : Bool) (m : Nat) (e : Int) (t : Bool) (n : Nat) (g : Int) :
    Rnd (sval s m e + sval t n g)
      (let e0 := if e ≤ g then e else g
       let x : Int := (m * 2 ^ (e - e0).toNat : Nat)
       let y : Int := (n * 2 ^ (g - e0).toNat : Nat)
       let x := if s then -x else x
       let y := if t then -y else y
       let z := x + y
       if z == 0 then withSign .f64 (s && t) 0 else roundPack .f64 (z < 0) z.natAbs e0) :=
  add_core' s m e t n g _ _ _ (sval_split s m e _ (min_le_both e g).1) (sval_split t n g _ (min_le_both e g).2)

theorem add_Rnd (a b : Nat) (fa : FinB a) (fb : FinB b) : Rnd (bval a + bval b) (Num.add .f64 a b) := by
  unfold Num.add bval
  rw [unpack_fin a fa, unpack_fin b fb]
  exact add_core _ _ _ _ _ _

/-- the sign of an exact zero sum -/
theorem add_nonneg_bits (a b : Nat) (fa : FinB a) (fb : FinB b) (hs : negB64 a = false)
    (hv : 0 ≤ bval a + bval b) : Num.add .f64 a b ≤ 9218868437227405312 := by
  have hR := add_Rnd a b fa fb
  rcases lt_or_eq_of_le hv with hpos | hzero
  · rcases hR with ⟨h0, _⟩ | ⟨_, T, d, e, _, _, hb⟩ | ⟨h0, _⟩
    · exact absurd h0 (ne_of_gt hpos)
    · rw [hb]; exact rmag_le_inf _ _ _
    · exact absurd h0 (not_lt.2 hv)
  · -- exact zero: the model returns `+0` because the first operand is positive
    unfold Num.add bval at *
    rw [unpack_fin a fa, unpack_fin b fb] at *
    rw [hs] at *
    generalize mantB a = m at *
    generalize expB a = e at *
    generalize negB64 b = t at *
    generalize mantB b = n at *
    generalize expB b = g at *
    simp only []
    have he0 : (if e ≤ g then e else g) ≤ e ∧ (if e ≤ g then e else g) ≤ g := by split <;> omega
    generalize (if e ≤ g then e else g) = e0 at *
    have hv2 := hzero.symm
    rw [sval_split false m e e0 he0.1, sval_split t n g e0 he0.2, ← add_mul] at hv2
    have hp := pow2_ne e0
    have hz : ((((if false = true then -((m * 2 ^ (e - e0).toNat : Nat) : Int) else ((m * 2 ^ (e - e0).toNat : Nat) : Int)) : Int) : ℚ) +
        (((if t = true then -((n * 2 ^ (g - e0).toNat : Nat) : Int) else ((n * 2 ^ (g - e0).toNat : Nat) : Int)) : Int) : ℚ)) = 0 := by
      rcases mul_eq_zero.1 hv2 with h | h
      · exact h
      · exact absurd h hp
    have hz' : ((if false = true then -((m * 2 ^ (e - e0).toNat : Nat) : Int) else ((m * 2 ^ (e - e0).toNat : Nat) : Int)) +
        (if t = true then -((n * 2 ^ (g - e0).toNat : Nat) : Int) else ((n * 2 ^ (g - e0).toNat : Nat) : Int)) : Int) = 0 := by
      exact_mod_cast hz
    rw [hz']
    simp [withSign]

theorem mul_Rnd (a b : Nat) (fa : FinB a) (fb : FinB b) : Rnd (bval a * bval b) (Num.mul .f64 a b) := by
  unfold Num.mul bval
  rw [unpack_fin a fa, unpack_fin b fb]
  generalize negB64 a = s; generalize mantB a = m; generalize expB a = e
  generalize negB64 b = t; generalize mantB b = n; generalize expB b = g
  simp only []
  have hv : sval s m e * sval t n g = (if (s != t) then -1 else 1) * (((m * n : Nat) : ℚ) * pow2 (e + g)) := by
    unfold sval; rw [pow2_add]
    cases s <;> cases t <;> simp <;> ring
  rw [hv]
  by_cases h0 : m * n = 0
  · rw [h0]
    have : roundPack .f64 (s != t) 0 (e + g) = withSign .f64 (s != t) 0 := by simp [roundPack]
    rw [this]
    simp only [Nat.cast_zero, zero_mul, mul_zero]
    exact Rnd_zero _
  · exact Rnd_int _ _ _ h0

theorem quot_bits (m n : Nat) (hm : 0 < m) (hn : 0 < n) (hm53 : m < 9007199254740992) :
    Ok (m * 2 ^ (53 + 3 + bitLen n - bitLen m)) n := by
  obtain ⟨hm1, _, hm3⟩ := bitLen_bounds hm
  have hn2 := bitLen_lt_pow n
  have hmL : bitLen m ≤ 53 := bitLen_le (k := 53) (by omega)
  refine ⟨hn, Nat.mul_pos hm (Nat.two_pow_pos _), Or.inr ?_⟩
  have hk : bitLen m - 1 + (53 + 3 + bitLen n - bitLen m) = 55 + bitLen n := by omega
  have h1 : 2 ^ (55 + bitLen n) ≤ m * 2 ^ (53 + 3 + bitLen n - bitLen m) := by
    rw [← hk, Nat.pow_add]; exact Nat.mul_le_mul_right _ hm1
  have h2 : 2 ^ 55 * n ≤ 2 ^ (55 + bitLen n) := by
    rw [Nat.pow_add]; exact Nat.mul_le_mul_left _ (by omega)
  have h3 : 2 ^ 55 ≤ m * 2 ^ (53 + 3 + bitLen n - bitLen m) / n :=
    (Nat.le_div_iff_mul_le hn).2 (by omega)
  have := bitLen_ge h3
  omega

theorem div_Rnd (a b : Nat) (fa : FinB a) (fb : FinB b) (hb0 : mantB b ≠ 0) :
    Rnd (bval a / bval b) (Num.div .f64 a b) := by
  have hm53 := mantB_lt a
  unfold Num.div bval
  rw [unpack_fin a fa, unpack_fin b fb]
  generalize negB64 a = s at *; generalize mantB a = m at *; generalize expB a = e at *
  generalize negB64 b = t at *; generalize mantB b = n at *; generalize expB b = g at *
  have h1 : (n == 0) = false := by simp [hb0]
  simp only [h1, Bool.false_eq_true, if_false, prec_f64]
  by_cases hm0 : m = 0
  · subst hm0
    simp only [beq_self_eq_true, if_true]
    have : sval s 0 e / sval t n g = 0 := by simp [sval]
    rw [this]; exact Rnd_zero _
  · have h2 : (m == 0) = false := by simp [hm0]
    simp only [h2, Bool.false_eq_true, if_false]
    have hOk := quot_bits m n (by omega) (by omega) hm53
    generalize 53 + 3 + bitLen n - bitLen m = k at *
    rw [roundPack_rmag _ _ _ _ hOk.1 hOk.2.1]
    have hv : sval s m e / sval t n g =
        (if (s != t) then -1 else 1) * (((m * 2 ^ k : Nat) : ℚ) / n * pow2 (e - g - k)) := by
      unfold sval
      have hn : (n : ℚ) ≠ 0 := by exact_mod_cast hb0
      have hpg := pow2_ne g
      have hpk : ((2:ℚ)^k) ≠ 0 := by positivity
      rw [pow2_sub, pow2_sub, pow2_nat]
      push_cast
      cases s <;> cases t <;> simp <;> field_simp
    rw [hv]
    exact Rnd_ratio _ _ _ _ hOk

theorem isNaN_of_FinB (b : Nat) (h : FinB b) : Num.isNaN .f64 b = false := (isNaN_iff b).2 (FinB_NNB b h)

theorem neg_FinB (b : Nat) (hb : b < 18446744073709551616) (h : FinB b) : FinB (Num.neg .f64 b) := by
  unfold FinB at *; unfold Num.neg; rw [signBit_f64]; split <;> omega

theorem sub_Rnd (a b : Nat) (hb : b < 18446744073709551616) (fa : FinB a) (fb : FinB b) :
    Rnd (bval a - bval b) (Num.sub .f64 a b) := by
  unfold Num.sub
  rw [isNaN_of_FinB a fa, isNaN_of_FinB b fb]
  simp only [Bool.or_self, Bool.false_eq_true, if_false]
  have := add_Rnd a (Num.neg .f64 b) fa (neg_FinB b hb fb)
  rw [bval_neg b hb] at this
  rw [sub_eq_add_neg]; exact this

/-! ## `F64` level: rounding, monotonicity -/

theorem Rnd_val {a : F64} (ha : Fin a) : Rnd (val a) a.nb := Rnd_self _ (nb_lt a) ha

theorem add_nb {a b : F64} (ha : Fin a) (hb : Fin b) : Rnd (val a + val b) (a + b).nb := by
  have h := add_Rnd a.nb b.nb ha hb
  have : (a + b).nb = Num.add .f64 a.nb b.nb := nb_ofNatBits _ (Rnd_lt _ _ h).2
  rw [this]; exact h

theorem sub_nb {a b : F64} (ha : Fin a) (hb : Fin b) : Rnd (val a - val b) (a - b).nb := by
  have h := sub_Rnd a.nb b.nb (nb_lt b) ha hb
  have : (a - b).nb = Num.sub .f64 a.nb b.nb := nb_ofNatBits _ (Rnd_lt _ _ h).2
  rw [this]; exact h

theorem mul_nb {a b : F64} (ha : Fin a) (hb : Fin b) : Rnd (val a * val b) (a * b).nb := by
  have h := mul_Rnd a.nb b.nb ha hb
  have : (a * b).nb = Num.mul .f64 a.nb b.nb := nb_ofNatBits _ (Rnd_lt _ _ h).2
  rw [this]; exact h

theorem mant_ne_of_val {b : F64} (h : val b ≠ 0) : mantB b.nb ≠ 0 := by
  intro h0; apply h; simp [val, bval, sval, h0]

theorem div_nb {a b : F64} (ha : Fin a) (hb : Fin b) (h0 : val b ≠ 0) : Rnd (val a / val b) (a / b).nb := by
  have h := div_Rnd a.nb b.nb ha hb (mant_ne_of_val h0)
  have : (a / b).nb = Num.div .f64 a.nb b.nb := nb_ofNatBits _ (Rnd_lt _ _ h).2
  rw [this]; exact h

/-- correctly rounded images of ordered rationals are ordered -/
theorem Rnd_le {v v' : ℚ} {a b : F64} (ha : Rnd v a.nb) (hb : Rnd v' b.nb) (h : v ≤ v') : a ≤ b := by
  rw [le_def]; exact ⟨Rnd_NNB _ _ ha, Rnd_NNB _ _ hb, Rnd_mono _ _ _ _ ha hb h⟩

theorem val_le_of_le {a b : F64} (ha : Fin a) (hb : Fin b) (h : a ≤ b) : val a ≤ val b :=
  (le_iff_val ha hb).1 h

theorem add_mono {a a' b b' : F64} (fa : Fin a) (fa' : Fin a') (fb : Fin b) (fb' : Fin b')
    (h1 : a ≤ a') (h2 : b ≤ b') : a + b ≤ a' + b' :=
  Rnd_le (add_nb fa fb) (add_nb fa' fb') (add_le_add (val_le_of_le fa fa' h1) (val_le_of_le fb fb' h2))

theorem sub_mono {a a' b b' : F64} (fa : Fin a) (fa' : Fin a') (fb : Fin b) (fb' : Fin b')
    (h1 : a ≤ a') (h2 : b' ≤ b) : a - b ≤ a' - b' :=
  Rnd_le (sub_nb fa fb) (sub_nb fa' fb') (sub_le_sub (val_le_of_le fa fa' h1) (val_le_of_le fb' fb h2))

theorem mul_mono_nonneg {a a' b b' : F64} (fa : Fin a) (fa' : Fin a') (fb : Fin b) (fb' : Fin b')
    (ha0 : 0 ≤ val a) (hb0 : 0 ≤ val b) (h1 : a ≤ a') (h2 : b ≤ b') : a * b ≤ a' * b' :=
  Rnd_le (mul_nb fa fb) (mul_nb fa' fb')
    (mul_le_mul (val_le_of_le fa fa' h1) (val_le_of_le fb fb' h2) hb0
      (le_trans ha0 (val_le_of_le fa fa' h1)))

/-- division by a fixed positive divisor is monotone -/
theorem div_mono_num {a a' b : F64} (fa : Fin a) (fa' : Fin a') (fb : Fin b) (hb : 0 < val b)
    (h : a ≤ a') : a / b ≤ a' / b :=
  Rnd_le (div_nb fa fb (ne_of_gt hb)) (div_nb fa' fb (ne_of_gt hb))
    (div_le_div_of_nonneg_right (val_le_of_le fa fa' h) (le_of_lt hb))

/-- a non-negative dividend divided by a larger positive divisor gives less -/
theorem div_anti_den {a b b' : F64} (fa : Fin a) (fb : Fin b) (fb' : Fin b') (ha : 0 ≤ val a)
    (hb' : 0 < val b') (h : b' ≤ b) : a / b ≤ a / b' := by
  have hb : 0 < val b := lt_of_lt_of_le hb' (val_le_of_le fb' fb h)
  exact Rnd_le (div_nb fa fb (ne_of_gt hb)) (div_nb fa fb' (ne_of_gt hb'))
    (div_le_div_of_nonneg_left ha hb' (val_le_of_le fb' fb h))

/-- a representable upper bound of the exact result bounds the rounded result -/
theorem le_of_Rnd_le {v : ℚ} {r B : F64} (hr : Rnd v r.nb) (fB : Fin B) (h : v ≤ val B) : r ≤ B :=
  Rnd_le hr (Rnd_val fB) h

theorem ge_of_Rnd_ge {v : ℚ} {r B : F64} (hr : Rnd v r.nb) (fB : Fin B) (h : val B ≤ v) : B ≤ r :=
  Rnd_le (Rnd_val fB) hr h

theorem le_refl' {a : F64} (h : NN a) : a ≤ a := by rw [le_def]; exact ⟨h, h, le_refl _⟩

theorem le_trans' {a b c : F64} (h1 : a ≤ b) (h2 : b ≤ c) : a ≤ c := by
  rw [le_def] at *; exact ⟨h1.1, h2.2.1, by omega⟩

theorem lt_le' {a b : F64} (h : a < b) : a ≤ b := by
  rw [lt_def] at h; rw [le_def]; exact ⟨h.1, h.2.1, by omega⟩

theorem neg_le_neg' {a b : F64} (h : a ≤ b) : -b ≤ -a := by
  rw [le_def] at *; rw [kk_neg, kk_neg]
  exact ⟨neg_NN.2 h.2.1, neg_NN.2 h.1, by omega⟩

/-! ## NaN propagation -/

/-- a NaN -/
def NaN (a : F64) : Prop := ¬ NN a
instance (a : F64) : Decidable (NaN a) := by unfold NaN; infer_instance

theorem NaN_iff_isNaN (a : F64) : NaN a ↔ a.isNaN = true := by
  unfold NaN NN
  show ¬ NNB a.nb ↔ Num.isNaN .f64 a.nb = true
  rw [← isNaN_iff]
  cases Num.isNaN .f64 a.nb <;> simp

theorem unpack_nan (b : Nat) (h : ¬ NNB b) : unpack .f64 b = .nan b := by
  unfold NNB at h
  rw [unpack_f64, if_pos (by omega), if_neg (by omega)]

theorem unpack_not_nan (b : Nat) (h : NNB b) : ∀ x, unpack .f64 b ≠ .nan x := by
  intro x hx
  unfold NNB at h
  rw [unpack_f64] at hx
  split at hx
  · split at hx
    · cases hx
    · omega
  · split at hx <;> cases hx

theorem quiet_nan (b : Nat) (hb : b < 18446744073709551616) (h : ¬ NNB b) :
    ¬ NNB (quiet .f64 b) ∧ quiet .f64 b < 18446744073709551616 := by
  unfold NNB at *
  unfold quiet
  have : Fmt.f64.quietBit = 2251799813685248 := by decide
  rw [this]
  split
  · exact ⟨h, hb⟩
  · rename_i hq
    have : b / 2251799813685248 % 2 = 0 := by
      have : b / 2251799813685248 % 2 ≠ 1 := by simpa using hq
      omega
    omega

theorem propNaN_nan (a b : Nat) (ha : a < 18446744073709551616) (hb : b < 18446744073709551616)
    (h : ¬ NNB a ∨ ¬ NNB b) :
    ¬ NNB (propNaN .f64 a b) ∧ propNaN .f64 a b < 18446744073709551616 := by
  unfold propNaN
  by_cases h1 : NNB a
  · rw [(isNaN_iff a).2 h1]
    simp only [Bool.false_eq_true, if_false]
    exact quiet_nan b hb (by tauto)
  · have : Num.isNaN .f64 a = true := by
      rcases hh : Num.isNaN .f64 a with _ | _
      · exact absurd ((isNaN_iff a).1 hh) h1
      · rfl
    rw [this]
    simp only [if_true]
    exact quiet_nan a ha h1

theorem add_nanB (a b : Nat) (ha : a < 18446744073709551616) (hb : b < 18446744073709551616)
    (h : ¬ NNB a ∨ ¬ NNB b) :
    ¬ NNB (Num.add .f64 a b) ∧ Num.add .f64 a b < 18446744073709551616 := by
  have hp := propNaN_nan a b ha hb h
  unfold Num.add
  by_cases h1 : NNB a
  · have h2 : ¬ NNB b := by tauto
    rw [unpack_nan b h2]
    have h3 := unpack_not_nan a h1
    split <;> first | exact hp | (exfalso; simp_all)
  · rw [unpack_nan a h1]; exact hp

theorem mul_nanB (a b : Nat) (ha : a < 18446744073709551616) (hb : b < 18446744073709551616)
    (h : ¬ NNB a ∨ ¬ NNB b) :
    ¬ NNB (Num.mul .f64 a b) ∧ Num.mul .f64 a b < 18446744073709551616 := by
  have hp := propNaN_nan a b ha hb h
  unfold Num.mul
  by_cases h1 : NNB a
  · have h2 : ¬ NNB b := by tauto
    rw [unpack_nan b h2]
    have h3 := unpack_not_nan a h1
    split <;> first | exact hp | (exfalso; simp_all)
  · rw [unpack_nan a h1]; exact hp

theorem div_nanB (a b : Nat) (ha : a < 18446744073709551616) (hb : b < 18446744073709551616)
    (h : ¬ NNB a ∨ ¬ NNB b) :
    ¬ NNB (Num.div .f64 a b) ∧ Num.div .f64 a b < 18446744073709551616 := by
  have hp := propNaN_nan a b ha hb h
  unfold Num.div
  by_cases h1 : NNB a
  · have h2 : ¬ NNB b := by tauto
    rw [unpack_nan b h2]
    have h3 := unpack_not_nan a h1
    split <;> first | exact hp | (exfalso; simp_all)
  · rw [unpack_nan a h1]; exact hp

theorem sub_nanB (a b : Nat) (ha : a < 18446744073709551616) (hb : b < 18446744073709551616)
    (h : ¬ NNB a ∨ ¬ NNB b) :
    ¬ NNB (Num.sub .f64 a b) ∧ Num.sub .f64 a b < 18446744073709551616 := by
  have hp := propNaN_nan a b ha hb h
  unfold Num.sub
  have : (Num.isNaN .f64 a || Num.isNaN .f64 b) = true := by
    rcases h with h | h
    · have : Num.isNaN .f64 a = true := by
        rcases hh : Num.isNaN .f64 a with _ | _
        · exact absurd ((isNaN_iff a).1 hh) h
        · rfl
      simp [this]
    · have : Num.isNaN .f64 b = true := by
        rcases hh : Num.isNaN .f64 b with _ | _
        · exact absurd ((isNaN_iff b).1 hh) h
        · rfl
      simp [this]
  rw [this]; exact hp

theorem add_nan {a b : F64} (h : NaN a ∨ NaN b) : NaN (a + b) := by
  have := add_nanB a.nb b.nb (nb_lt a) (nb_lt b) h
  show ¬ NNB (F64.ofNatBits _).nb
  rw [nb_ofNatBits _ this.2]; exact this.1

theorem sub_nan {a b : F64} (h : NaN a ∨ NaN b) : NaN (a - b) := by
  have := sub_nanB a.nb b.nb (nb_lt a) (nb_lt b) h
  show ¬ NNB (F64.ofNatBits _).nb
  rw [nb_ofNatBits _ this.2]; exact this.1

theorem mul_nan {a b : F64} (h : NaN a ∨ NaN b) : NaN (a * b) := by
  have := mul_nanB a.nb b.nb (nb_lt a) (nb_lt b) h
  show ¬ NNB (F64.ofNatBits _).nb
  rw [nb_ofNatBits _ this.2]; exact this.1

theorem div_nan {a b : F64} (h : NaN a ∨ NaN b) : NaN (a / b) := by
  have := div_nanB a.nb b.nb (nb_lt a) (nb_lt b) h
  show ¬ NNB (F64.ofNatBits _).nb
  rw [nb_ofNatBits _ this.2]; exact this.1

theorem neg_nan {a : F64} (h : NaN a) : NaN (-a) := fun hn => h (neg_NN.1 hn)

theorem abs_nan {a : F64} (h : NaN a) : NaN a.abs := fun hn => h (abs_NN.1 hn)

theorem sqrt_nan {a : F64} (h : NaN a) : NaN a.sqrt := by
  have hq := quiet_nan a.nb (nb_lt a) h
  show ¬ NNB (F64.ofNatBits (Num.sqrt .f64 a.nb)).nb
  have : Num.sqrt .f64 a.nb = quiet .f64 a.nb := by unfold Num.sqrt; rw [unpack_nan _ h]
  rw [this, nb_ofNatBits _ hq.2]; exact hq.1

theorem not_le_nan_left {a b : F64} (h : NaN a) : ¬ a ≤ b := fun hh => h ((le_def a b).1 hh).1
theorem not_le_nan_right {a b : F64} (h : NaN b) : ¬ a ≤ b := fun hh => h ((le_def a b).1 hh).2.1
theorem not_lt_nan_left {a b : F64} (h : NaN a) : ¬ a < b := fun hh => h ((lt_def a b).1 hh).1
theorem not_lt_nan_right {a b : F64} (h : NaN b) : ¬ a < b := fun hh => h ((lt_def a b).1 hh).2.1

/-! ## non-negative patterns (`+0 … +Inf`): sign facts for `/`, `sqrt`, `-` -/

/-- sign bit clear and not a NaN -/
def Pos0 (a : F64) : Prop := a.nb ≤ 9218868437227405312
instance (a : F64) : Decidable (Pos0 a) := by unfold Pos0; infer_instance

def zero : F64 := ⟨0⟩
def posInf : F64 := ⟨0x7ff0000000000000⟩
def maxF : F64 := ⟨0x7fefffffffffffff⟩

theorem Pos0_NN {a : F64} (h : Pos0 a) : NN a := by unfold NN NNB; unfold Pos0 at h; omega

theorem Pos0_kk {a : F64} (h : Pos0 a) : kk a = a.nb := by
  unfold kk key; unfold Pos0 at h; split <;> omega

theorem Pos0_ge {a : F64} (h : Pos0 a) : zero ≤ a := by
  rw [le_def, Pos0_kk h]
  refine ⟨by decide, Pos0_NN h, ?_⟩
  have : kk zero = 0 := by decide
  rw [this]; omega

theorem Pos0_cases {a : F64} (h : Pos0 a) : (FloatMono.Fin a ∧ a ≤ maxF) ∨ a = posInf := by
  unfold Pos0 at h
  by_cases hc : a.nb = 9218868437227405312
  · right; exact ext_nb (by rw [hc]; decide)
  · left
    have hf : FloatMono.Fin a := by unfold FloatMono.Fin FinB; omega
    refine ⟨hf, ?_⟩
    rw [le_def, Pos0_kk h]
    refine ⟨Pos0_NN h, by decide, ?_⟩
    have : kk maxF = 9218868437227405311 := by decide
    rw [this]; omega

/-- a non-NaN with a positive key has its sign bit clear -/
theorem Pos0_of_kk {a : F64} (hn : NN a) (h : 0 < kk a) : Pos0 a := by
  unfold NN NNB at hn; unfold kk key at h; unfold Pos0
  have := nb_lt a
  split at h <;> omega

theorem roundPack_le_inf (m : Nat) (e : Int) (st : Bool) :
    roundPack .f64 false m e st ≤ 9218868437227405312 := by
  unfold roundPack
  split
  · simp [withSign]
  · split
    · rw [withSign64]; simp only [Bool.false_eq_true, if_false, Nat.zero_add]; exact roundMag_le_inf _ _
    · rw [withSign64]; simp only [Bool.false_eq_true, if_false, Nat.zero_add]; exact roundMag_le_inf _ _

theorem unpack_pos0 (b : Nat) (h : b ≤ 9218868437227405312) :
    unpack .f64 b = .inf false ∨ ∃ m e, unpack .f64 b = .fin false m e := by
  have hs : negB64 b = false := by unfold negB64; simp; omega
  by_cases hc : b = 9218868437227405312
  · left; rw [hc]; decide
  · right
    have hf : FinB b := by unfold FinB; omega
    exact ⟨_, _, by rw [unpack_fin b hf, hs]⟩

theorem defaultNaN_f64 : Fmt.f64.defaultNaN = 18444492273895866368 := by decide

/-- the quotient of two non-negative patterns is non-negative or the default NaN -/
theorem div_pos0B (a b : Nat) (ha : a ≤ 9218868437227405312) (hb : b ≤ 9218868437227405312) :
    Num.div .f64 a b ≤ 9218868437227405312 ∨ Num.div .f64 a b = 18444492273895866368 := by
  unfold Num.div
  rcases unpack_pos0 a ha with h1 | ⟨m, e, h1⟩ <;> rcases unpack_pos0 b hb with h2 | ⟨n, g, h2⟩ <;>
    rw [h1, h2] <;> simp only []
  · right; exact defaultNaN_f64
  · left; simp [withSign, infBits_f64]
  · left; simp [withSign]
  · split
    · split
      · right; exact defaultNaN_f64
      · left; simp [withSign, infBits_f64]
    · split
      · left; simp [withSign]
      · left
        have : (false != false) = false := rfl
        rw [this]
        exact roundPack_le_inf _ _ _

theorem div_pos0 {a b : F64} (ha : Pos0 a) (hb : Pos0 b) : NaN (a / b) ∨ Pos0 (a / b) := by
  have h := div_pos0B a.nb b.nb ha hb
  have hlt : Num.div .f64 a.nb b.nb < 18446744073709551616 := by omega
  have e : (a / b).nb = Num.div .f64 a.nb b.nb := nb_ofNatBits _ hlt
  rcases h with h | h
  · right; unfold Pos0; rw [e]; exact h
  · left; unfold NaN NN NNB; rw [e, h]; decide

theorem sqrt_pos0B (a : Nat) (ha : a ≤ 9218868437227405312) : Num.sqrt .f64 a ≤ 9218868437227405312 := by
  unfold Num.sqrt
  rcases unpack_pos0 a ha with h1 | ⟨m, e, h1⟩ <;> rw [h1] <;> simp only []
  · simpa using ha
  · split
    · exact ha
    · simp only [Bool.false_eq_true, if_false]
      exact roundPack_le_inf _ _ _

theorem sqrt_pos0 {a : F64} (ha : Pos0 a) : Pos0 a.sqrt := by
  have h := sqrt_pos0B a.nb ha
  have e : a.sqrt.nb = Num.sqrt .f64 a.nb := nb_ofNatBits _ (by omega)
  unfold Pos0; rw [e]; exact h

/-- `a - b` for finite `0 ≤ b ≤ a`, `a` with sign bit clear: never `-0` -/
theorem sub_pos0 {a b : F64} (fa : FloatMono.Fin a) (fb : FloatMono.Fin b) (hs : Pos0 a) (h : b ≤ a) : Pos0 (a - b) := by
  have hv := val_le_of_le fb fa h
  have hsg : negB64 a.nb = false := by unfold negB64; unfold Pos0 at hs; simp; omega
  have hb := nb_lt b
  have hsub : Num.sub .f64 a.nb b.nb = Num.add .f64 a.nb (Num.neg .f64 b.nb) := by
    unfold Num.sub
    rw [isNaN_of_FinB _ fa, isNaN_of_FinB _ fb]; rfl
  have hle := add_nonneg_bits a.nb (Num.neg .f64 b.nb) fa (neg_FinB _ hb fb) hsg
    (by rw [bval_neg _ hb]; unfold val at hv; linarith)
  have e : (a - b).nb = Num.sub .f64 a.nb b.nb := nb_ofNatBits _ (by rw [hsub]; omega)
  unfold Pos0; rw [e, hsub]; exact hle

/-! ## intervals -/

theorem corner_lo (a b l1 h1 l2 h2 : ℚ) (ha1 : l1 ≤ a) (ha2 : a ≤ h1) (hb1 : l2 ≤ b) (hb2 : b ≤ h2) :
    l1 * l2 ≤ a * b ∨ l1 * h2 ≤ a * b ∨ h1 * l2 ≤ a * b ∨ h1 * h2 ≤ a * b := by
  rcases le_total 0 b with hb | hb
  · have h1' : l1 * b ≤ a * b := mul_le_mul_of_nonneg_right ha1 hb
    rcases le_total 0 l1 with hl | hl
    · left; exact le_trans (mul_le_mul_of_nonneg_left hb1 hl) h1'
    · right; left; exact le_trans (mul_le_mul_of_nonpos_left hb2 hl) h1'
  · have h1' : h1 * b ≤ a * b := mul_le_mul_of_nonpos_right ha2 hb
    rcases le_total 0 h1 with hl | hl
    · right; right; left; exact le_trans (mul_le_mul_of_nonneg_left hb1 hl) h1'
    · right; right; right; exact le_trans (mul_le_mul_of_nonpos_left hb2 hl) h1'

theorem corner_hi (a b l1 h1 l2 h2 : ℚ) (ha1 : l1 ≤ a) (ha2 : a ≤ h1) (hb1 : l2 ≤ b) (hb2 : b ≤ h2) :
    a * b ≤ l1 * l2 ∨ a * b ≤ l1 * h2 ∨ a * b ≤ h1 * l2 ∨ a * b ≤ h1 * h2 := by
  rcases corner_lo (-a) b (-h1) (-l1) l2 h2 (by linarith) (by linarith) hb1 hb2 with h | h | h | h
  · right; right; left; linarith
  · right; right; right; linarith
  · left; linarith
  · right; left; linarith

/-- smaller / larger of two numbers by the float comparison -/
def fmin (a b : F64) : F64 := if a ≤ b then a else b
def fmax (a b : F64) : F64 := if a ≤ b then b else a

theorem fmin_spec {a b : F64} (ha : NN a) (hb : NN b) : fmin a b ≤ a ∧ fmin a b ≤ b := by
  unfold fmin; split
  · rename_i h; exact ⟨le_refl' ha, h⟩
  · rename_i h; exact ⟨lt_le' (not_le_of_NN ha hb h), le_refl' hb⟩

theorem fmax_spec {a b : F64} (ha : NN a) (hb : NN b) : a ≤ fmax a b ∧ b ≤ fmax a b := by
  unfold fmax; split
  · rename_i h; exact ⟨h, le_refl' hb⟩
  · rename_i h; exact ⟨le_refl' ha, lt_le' (not_le_of_NN ha hb h)⟩

theorem le_NN_left {a b : F64} (h : a ≤ b) : NN a := ((le_def a b).1 h).1
theorem le_NN_right {a b : F64} (h : a ≤ b) : NN b := ((le_def a b).1 h).2.1

def fmin4 (a b c d : F64) : F64 := fmin (fmin a b) (fmin c d)
def fmax4 (a b c d : F64) : F64 := fmax (fmax a b) (fmax c d)

theorem fmin4_spec {a b c d : F64} (ha : NN a) (hb : NN b) (hc : NN c) (hd : NN d) :
    fmin4 a b c d ≤ a ∧ fmin4 a b c d ≤ b ∧ fmin4 a b c d ≤ c ∧ fmin4 a b c d ≤ d := by
  obtain ⟨h1, h2⟩ := fmin_spec ha hb
  obtain ⟨h3, h4⟩ := fmin_spec hc hd
  obtain ⟨h5, h6⟩ := fmin_spec (le_NN_left h1) (le_NN_left h3)
  exact ⟨le_trans' h5 h1, le_trans' h5 h2, le_trans' h6 h3, le_trans' h6 h4⟩

theorem fmax4_spec {a b c d : F64} (ha : NN a) (hb : NN b) (hc : NN c) (hd : NN d) :
    a ≤ fmax4 a b c d ∧ b ≤ fmax4 a b c d ∧ c ≤ fmax4 a b c d ∧ d ≤ fmax4 a b c d := by
  obtain ⟨h1, h2⟩ := fmax_spec ha hb
  obtain ⟨h3, h4⟩ := fmax_spec hc hd
  obtain ⟨h5, h6⟩ := fmax_spec (le_NN_right h1) (le_NN_right h3)
  exact ⟨le_trans' h1 h5, le_trans' h2 h5, le_trans' h3 h6, le_trans' h4 h6⟩

/-- a closed interval with `F64` endpoints -/
structure Ival where
  lo : F64
  hi : F64
deriving DecidableEq, Repr

namespace Ival

/-- both endpoints finite -/
def valid (I : Ival) : Prop := Fin I.lo ∧ Fin I.hi
instance (I : Ival) : Decidable I.valid := by unfold valid; infer_instance

/-- the result of an operation that left the supported domain -/
def bad : Ival := ⟨⟨0x7ff8000000000001⟩, ⟨0x7ff8000000000001⟩⟩
theorem bad_invalid : ¬ bad.valid := by decide

/-- `a` is a NaN or lies in `I`; says nothing when `I` is not valid -/
def In (a : F64) (I : Ival) : Prop := I.valid → (NaN a ∨ (I.lo ≤ a ∧ a ≤ I.hi))

def chk (c : Prop) [Decidable c] (K : Ival) : Ival := if c ∧ K.valid then K else bad

theorem chk_valid {c : Prop} [Decidable c] {K : Ival} (h : (chk c K).valid) : c ∧ K.valid ∧ chk c K = K := by
  unfold chk at *
  split
  · rename_i hc; exact ⟨hc.1, hc.2, rfl⟩
  · rename_i hc; rw [if_neg hc] at h; exact absurd h bad_invalid

def pt (c : F64) : Ival := ⟨c, c⟩
def add (I J : Ival) : Ival := chk (I.valid ∧ J.valid) ⟨I.lo + J.lo, I.hi + J.hi⟩
def sub (I J : Ival) : Ival := chk (I.valid ∧ J.valid) ⟨I.lo - J.hi, I.hi - J.lo⟩
def neg (I : Ival) : Ival := chk I.valid ⟨-I.hi, -I.lo⟩
def mul (I J : Ival) : Ival := chk (I.valid ∧ J.valid)
  ⟨fmin4 (I.lo * J.lo) (I.lo * J.hi) (I.hi * J.lo) (I.hi * J.hi),
   fmax4 (I.lo * J.lo) (I.lo * J.hi) (I.hi * J.lo) (I.hi * J.hi)⟩
/-- division by a strictly positive interval -/
def div (I J : Ival) : Ival := chk (I.valid ∧ J.valid ∧ (0 : F64) < J.lo)
  ⟨fmin4 (I.lo / J.lo) (I.lo / J.hi) (I.hi / J.lo) (I.hi / J.hi),
   fmax4 (I.lo / J.lo) (I.lo / J.hi) (I.hi / J.lo) (I.hi / J.hi)⟩

theorem In_pt {c : F64} (h : NN c) : In c (pt c) := fun _ => Or.inr ⟨le_refl' h, le_refl' h⟩

theorem In_of_le {a lo hi : F64} (h1 : lo ≤ a) (h2 : a ≤ hi) : In a ⟨lo, hi⟩ := fun _ => Or.inr ⟨h1, h2⟩

theorem In_nan {a : F64} (I : Ival) (h : NaN a) : In a I := fun _ => Or.inl h

theorem In_mono {a : F64} {I J : Ival} (h : In a I) (hI : I.valid) (h1 : J.lo ≤ I.lo) (h2 : I.hi ≤ J.hi) :
    In a J := by
  intro _
  rcases h hI with hn | ⟨a1, a2⟩
  · exact Or.inl hn
  · exact Or.inr ⟨le_trans' h1 a1, le_trans' a2 h2⟩

theorem In_add {a b : F64} {I J : Ival} (ha : In a I) (hb : In b J) : In (a + b) (I.add J) := by
  intro hv
  obtain ⟨⟨vI, vJ⟩, _, e⟩ := chk_valid hv
  unfold add; rw [e]
  rcases ha vI with na | ⟨a1, a2⟩
  · exact Or.inl (add_nan (Or.inl na))
  rcases hb vJ with nb | ⟨b1, b2⟩
  · exact Or.inl (add_nan (Or.inr nb))
  have fa := Fin_between vI.1 vI.2 a1 a2
  have fb := Fin_between vJ.1 vJ.2 b1 b2
  exact Or.inr ⟨add_mono vI.1 fa vJ.1 fb a1 b1, add_mono fa vI.2 fb vJ.2 a2 b2⟩

theorem In_sub {a b : F64} {I J : Ival} (ha : In a I) (hb : In b J) : In (a - b) (I.sub J) := by
  intro hv
  obtain ⟨⟨vI, vJ⟩, _, e⟩ := chk_valid hv
  unfold sub; rw [e]
  rcases ha vI with na | ⟨a1, a2⟩
  · exact Or.inl (sub_nan (Or.inl na))
  rcases hb vJ with nb | ⟨b1, b2⟩
  · exact Or.inl (sub_nan (Or.inr nb))
  have fa := Fin_between vI.1 vI.2 a1 a2
  have fb := Fin_between vJ.1 vJ.2 b1 b2
  exact Or.inr ⟨sub_mono vI.1 fa vJ.2 fb a1 b2, sub_mono fa vI.2 fb vJ.1 a2 b1⟩

theorem In_neg {a : F64} {I : Ival} (ha : In a I) : In (-a) I.neg := by
  intro hv
  obtain ⟨vI, _, e⟩ := chk_valid hv
  unfold neg; rw [e]
  rcases ha vI with na | ⟨a1, a2⟩
  · exact Or.inl (neg_nan na)
  exact Or.inr ⟨neg_le_neg' a2, neg_le_neg' a1⟩

theorem In_mul {a b : F64} {I J : Ival} (ha : In a I) (hb : In b J) : In (a * b) (I.mul J) := by
  intro hv
  obtain ⟨⟨vI, vJ⟩, _, e⟩ := chk_valid hv
  unfold mul; rw [e]
  rcases ha vI with na | ⟨a1, a2⟩
  · exact Or.inl (mul_nan (Or.inl na))
  rcases hb vJ with nb | ⟨b1, b2⟩
  · exact Or.inl (mul_nan (Or.inr nb))
  have fa := Fin_between vI.1 vI.2 a1 a2
  have fb := Fin_between vJ.1 vJ.2 b1 b2
  have va1 := val_le_of_le vI.1 fa a1
  have va2 := val_le_of_le fa vI.2 a2
  have vb1 := val_le_of_le vJ.1 fb b1
  have vb2 := val_le_of_le fb vJ.2 b2
  have r := mul_nb fa fb
  have r1 := mul_nb vI.1 vJ.1
  have r2 := mul_nb vI.1 vJ.2
  have r3 := mul_nb vI.2 vJ.1
  have r4 := mul_nb vI.2 vJ.2
  obtain ⟨m1, m2, m3, m4⟩ := fmin4_spec (Rnd_NNB _ _ r1) (Rnd_NNB _ _ r2) (Rnd_NNB _ _ r3) (Rnd_NNB _ _ r4)
  obtain ⟨x1, x2, x3, x4⟩ := fmax4_spec (Rnd_NNB _ _ r1) (Rnd_NNB _ _ r2) (Rnd_NNB _ _ r3) (Rnd_NNB _ _ r4)
  right
  constructor
  · rcases corner_lo _ _ _ _ _ _ va1 va2 vb1 vb2 with h | h | h | h
    · exact le_trans' m1 (Rnd_le r1 r h)
    · exact le_trans' m2 (Rnd_le r2 r h)
    · exact le_trans' m3 (Rnd_le r3 r h)
    · exact le_trans' m4 (Rnd_le r4 r h)
  · rcases corner_hi _ _ _ _ _ _ va1 va2 vb1 vb2 with h | h | h | h
    · exact le_trans' (Rnd_le r r1 h) x1
    · exact le_trans' (Rnd_le r r2 h) x2
    · exact le_trans' (Rnd_le r r3 h) x3
    · exact le_trans' (Rnd_le r r4 h) x4

theorem val_zero : val (0 : F64) = 0 := by
  have : (0 : F64).nb = 0 := by decide
  unfold val; rw [this]; exact bval_zero 0 (by decide)

theorem In_div {a b : F64} {I J : Ival} (ha : In a I) (hb : In b J) : In (a / b) (I.div J) := by
  intro hv
  obtain ⟨⟨vI, vJ, hpos⟩, _, e⟩ := chk_valid hv
  unfold div; rw [e]
  rcases ha vI with na | ⟨a1, a2⟩
  · exact Or.inl (div_nan (Or.inl na))
  rcases hb vJ with nb | ⟨b1, b2⟩
  · exact Or.inl (div_nan (Or.inr nb))
  have fa := Fin_between vI.1 vI.2 a1 a2
  have fb := Fin_between vJ.1 vJ.2 b1 b2
  have va1 := val_le_of_le vI.1 fa a1
  have va2 := val_le_of_le fa vI.2 a2
  have vb1 := val_le_of_le vJ.1 fb b1
  have vb2 := val_le_of_le fb vJ.2 b2
  have f0 : Fin (0 : F64) := by decide
  have hl : 0 < val J.lo := by
    have := (lt_iff_val f0 vJ.1).1 hpos
    rwa [val_zero] at this
  have hbp : 0 < val b := lt_of_lt_of_le hl vb1
  have hhp : 0 < val J.hi := lt_of_lt_of_le hbp vb2
  have r := div_nb fa fb (ne_of_gt hbp)
  have r1 := div_nb vI.1 vJ.1 (ne_of_gt hl)
  have r2 := div_nb vI.1 vJ.2 (ne_of_gt hhp)
  have r3 := div_nb vI.2 vJ.1 (ne_of_gt hl)
  have r4 := div_nb vI.2 vJ.2 (ne_of_gt hhp)
  obtain ⟨m1, m2, m3, m4⟩ := fmin4_spec (Rnd_NNB _ _ r1) (Rnd_NNB _ _ r2) (Rnd_NNB _ _ r3) (Rnd_NNB _ _ r4)
  obtain ⟨x1, x2, x3, x4⟩ := fmax4_spec (Rnd_NNB _ _ r1) (Rnd_NNB _ _ r2) (Rnd_NNB _ _ r3) (Rnd_NNB _ _ r4)
  -- reciprocals of the divisor interval
  have i1 : (val J.hi)⁻¹ ≤ (val b)⁻¹ := inv_anti₀ hbp vb2
  have i2 : (val b)⁻¹ ≤ (val J.lo)⁻¹ := inv_anti₀ hl vb1
  simp only [div_eq_mul_inv] at r r1 r2 r3 r4
  right
  constructor
  · rcases corner_lo _ _ _ _ _ _ va1 va2 i1 i2 with h | h | h | h
    · exact le_trans' m2 (Rnd_le r2 r h)
    · exact le_trans' m1 (Rnd_le r1 r h)
    · exact le_trans' m4 (Rnd_le r4 r h)
    · exact le_trans' m3 (Rnd_le r3 r h)
  · rcases corner_hi _ _ _ _ _ _ va1 va2 i1 i2 with h | h | h | h
    · exact le_trans' (Rnd_le r r2 h) x2
    · exact le_trans' (Rnd_le r r1 h) x1
    · exact le_trans' (Rnd_le r r4 h) x4
    · exact le_trans' (Rnd_le r r3 h) x3

/-- split an interval at a point -/
theorem In_split {a : F64} {I : Ival} (m : F64) (hm : NN m) (hv : I.valid) (h : In a I) :
    In a ⟨I.lo, m⟩ ∨ In a ⟨m, I.hi⟩ := by
  rcases h hv with hn | ⟨a1, a2⟩
  · exact Or.inl (In_nan _ hn)
  · by_cases hc : a ≤ m
    · exact Or.inl (In_of_le a1 hc)
    · exact Or.inr (In_of_le (lt_le' (not_le_of_NN (le_NN_right a1) hm hc)) a2)

/-! ### subdivision -/

/-- smallest interval containing both -/
def hull (I J : Ival) : Ival := chk (I.valid ∧ J.valid) ⟨fmin I.lo J.lo, fmax I.hi J.hi⟩

theorem In_hull_left {a : F64} {I J : Ival} (h : In a I) : In a (hull I J) := by
  intro hv
  obtain ⟨⟨vI, vJ⟩, _, e⟩ := chk_valid hv
  unfold hull; rw [e]
  rcases h vI with hn | ⟨a1, a2⟩
  · exact Or.inl hn
  · exact Or.inr ⟨le_trans' (fmin_spec (Fin_NN vI.1) (Fin_NN vJ.1)).1 a1,
      le_trans' a2 (fmax_spec (Fin_NN vI.2) (Fin_NN vJ.2)).1⟩

theorem In_hull_right {a : F64} {I J : Ival} (h : In a J) : In a (hull I J) := by
  intro hv
  obtain ⟨⟨vI, vJ⟩, _, e⟩ := chk_valid hv
  unfold hull; rw [e]
  rcases h vJ with hn | ⟨a1, a2⟩
  · exact Or.inl hn
  · exact Or.inr ⟨le_trans' (fmin_spec (Fin_NN vI.1) (Fin_NN vJ.1)).2 a1,
      le_trans' a2 (fmax_spec (Fin_NN vI.2) (Fin_NN vJ.2)).2⟩

/-- a point between the endpoints (any non-NaN would do for soundness) -/
def mid (I : Ival) : F64 := (I.lo + I.hi) * ⟨0x3fe0000000000000⟩

/-- evaluate `f` on the `2^k` pieces of a uniform subdivision and take the hull -/
def bisect (f : Ival → Ival) : Nat → Ival → Ival
  | 0, I => f I
  | k + 1, I =>
    if I.valid ∧ NN (mid I) then hull (bisect f k ⟨I.lo, mid I⟩) (bisect f k ⟨mid I, I.hi⟩) else bad

/-- subdivision is sound for every interval extension `f` of a float function `g` -/
theorem In_bisect (f : Ival → Ival) (g : F64 → F64) (hf : ∀ x X, In x X → In (g x) (f X)) :
    ∀ (k : Nat) (X : Ival) (x : F64), In x X → In (g x) (bisect f k X) := by
  intro k
  induction k with
  | zero => intro X x h; exact hf x X h
  | succ k ih =>
    intro X x h
    unfold bisect
    split
    · rename_i hc
      rcases In_split (mid X) hc.2 hc.1 h with h1 | h2
      · exact In_hull_left (ih _ _ h1)
      · exact In_hull_right (ih _ _ h2)
    · intro hv; exact absurd hv bad_invalid

/-- geometric refinement towards the lower endpoint: `k+1` pieces `[lo, lo+w/2^k], …, [lo+w/2, hi]` -/
def refineLo (f : Ival → Ival) : Nat → Ival → Ival
  | 0, I => f I
  | k + 1, I =>
    if I.valid ∧ NN (mid I) then hull (refineLo f k ⟨I.lo, mid I⟩) (f ⟨mid I, I.hi⟩) else bad

theorem In_refineLo (f : Ival → Ival) (g : F64 → F64) (hf : ∀ x X, In x X → In (g x) (f X)) :
    ∀ (k : Nat) (X : Ival) (x : F64), In x X → In (g x) (refineLo f k X) := by
  intro k
  induction k with
  | zero => intro X x h; exact hf x X h
  | succ k ih =>
    intro X x h
    unfold refineLo
    split
    · rename_i hc
      rcases In_split (mid X) hc.2 hc.1 h with h1 | h2
      · exact In_hull_left (ih _ _ h1)
      · exact In_hull_right (hf _ _ h2)
    · intro hv; exact absurd hv bad_invalid

end Ival

end Ivg.FloatMono
