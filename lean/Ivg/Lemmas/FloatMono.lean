import Ivg.Lemmas.FloatOrder
/-!
# The binary64 operations are correctly rounded, hence monotone; an interval evaluator

* `add_Rnd`, `sub_Rnd`, `mul_Rnd`, `div_Rnd`: on finite operands, the result pattern of `Num.add/sub/mul/div`
  is the correct rounding (`FloatOrder.Rnd`) of the exact rational result.
* monotonicity of `+ - * /` for `F64` (`add_mono`, `sub_mono`, `mul_mono_nonneg`, `div_mono_pos`, …).
* NaN propagation.
* `Ival`: intervals with finite `F64` endpoints; `Ival.add/sub/mul/div/neg`; soundness (`In_add`, …) in the form
  "if the computed interval is valid, the result of the float operation is a NaN or lies in it".
-/
namespace Ivg.FloatMono
open Ivg Num FloatOrder

/-! ## wrappers -/

theorem nb_lt (a : F64) : a.nb < 18446744073709551616 := a.bits.toNat_lt

theorem nb_ofNatBits (n : Nat) (h : n < 18446744073709551616) : (F64.ofNatBits n).nb = n := by
  simp only [F64.nb, F64.ofNatBits, UInt64.toNat_ofNat']
  omega

theorem ext_nb {a b : F64} (h : a.nb = b.nb) : a = b := by
  cases a; cases b; simp only [F64.nb] at h; congr; exact UInt64.toNat_inj.1 h

/-- finite -/
def Fin (a : F64) : Prop := FinB a.nb
instance (a : F64) : Decidable (Fin a) := by unfold Fin; infer_instance
/-- not a NaN -/
def NN (a : F64) : Prop := NNB a.nb
instance (a : F64) : Decidable (NN a) := by unfold NN; infer_instance
/-- rational value of a finite number -/
def val (a : F64) : ℚ := bval a.nb
/-- order key of a non-NaN -/
def kk (a : F64) : Int := key a.nb

theorem Fin_NN {a : F64} (h : Fin a) : NN a := FinB_NNB _ h

theorem le_def (a b : F64) : a ≤ b ↔ NN a ∧ NN b ∧ kk a ≤ kk b := by
  show Num.le .f64 a.nb b.nb = true ↔ _
  constructor
  · intro h
    obtain ⟨ha, hb⟩ := le_NNB _ _ h
    exact ⟨ha, hb, (le_iff_key _ _ ha hb).1 h⟩
  · rintro ⟨ha, hb, h⟩
    exact (le_iff_key _ _ ha hb).2 h

theorem lt_def (a b : F64) : a < b ↔ NN a ∧ NN b ∧ kk a < kk b := by
  show Num.lt .f64 a.nb b.nb = true ↔ _
  constructor
  · intro h
    obtain ⟨ha, hb⟩ := lt_NNB _ _ h
    exact ⟨ha, hb, (lt_iff_key _ _ ha hb).1 h⟩
  · rintro ⟨ha, hb, h⟩
    exact (lt_iff_key _ _ ha hb).2 h

theorem kk_le_iff {a b : F64} (ha : Fin a) (hb : Fin b) : kk a ≤ kk b ↔ val a ≤ val b :=
  key_le_iff _ _ (nb_lt a) (nb_lt b) ha hb

theorem kk_lt_iff {a b : F64} (ha : Fin a) (hb : Fin b) : kk a < kk b ↔ val a < val b :=
  key_lt_iff _ _ (nb_lt a) (nb_lt b) ha hb

theorem le_iff_val {a b : F64} (ha : Fin a) (hb : Fin b) : a ≤ b ↔ val a ≤ val b := by
  rw [le_def, kk_le_iff ha hb]
  exact ⟨fun h => h.2.2, fun h => ⟨Fin_NN ha, Fin_NN hb, h⟩⟩

theorem lt_iff_val {a b : F64} (ha : Fin a) (hb : Fin b) : a < b ↔ val a < val b := by
  rw [lt_def, kk_lt_iff ha hb]
  exact ⟨fun h => h.2.2, fun h => ⟨Fin_NN ha, Fin_NN hb, h⟩⟩

theorem not_le_of_NN {a b : F64} (ha : NN a) (hb : NN b) (h : ¬ a ≤ b) : b < a := by
  rw [le_def] at h; rw [lt_def]
  refine ⟨hb, ha, ?_⟩
  by_contra hc
  exact h ⟨ha, hb, by omega⟩

theorem not_lt_of_NN {a b : F64} (ha : NN a) (hb : NN b) (h : ¬ a < b) : b ≤ a := by
  rw [lt_def] at h; rw [le_def]
  refine ⟨hb, ha, ?_⟩
  by_contra hc
  exact h ⟨ha, hb, by omega⟩

/-- a non-NaN whose key lies strictly between the infinities is finite -/
theorem Fin_of_key {a : F64} (ha : NN a) (h1 : -9218868437227405312 < kk a) (h2 : kk a < 9218868437227405312) :
    Fin a := by
  unfold Fin FinB
  unfold NN NNB at ha
  unfold kk key at h1 h2
  have := nb_lt a
  split at h1 <;> omega

theorem kk_bound {a : F64} (ha : Fin a) : -9218868437227405312 < kk a ∧ kk a < 9218868437227405312 := by
  have := (magnitude_fin a.nb ha).2
  have := nb_lt a
  unfold kk key
  split <;> omega

/-- between two finite numbers there are only finite numbers -/
theorem Fin_between {lo a hi : F64} (hlo : Fin lo) (hhi : Fin hi) (h1 : lo ≤ a) (h2 : a ≤ hi) : Fin a := by
  rw [le_def] at h1 h2
  have := kk_bound hlo
  have := kk_bound hhi
  exact Fin_of_key h1.2.1 (by omega) (by omega)

/-! ## negation and absolute value -/

theorem neg_nb (a : F64) : (-a).nb = Num.neg .f64 a.nb := by
  show (F64.ofNatBits _).nb = _
  apply nb_ofNatBits
  have := nb_lt a
  unfold Num.neg; rw [signBit_f64]; split <;> omega

theorem abs_nb (a : F64) : a.abs.nb = a.nb % 9223372036854775808 := by
  show (F64.ofNatBits _).nb = _
  unfold Num.abs; rw [signBit_f64]
  apply nb_ofNatBits
  omega

theorem neg_NN {a : F64} : NN (-a) ↔ NN a := by
  unfold NN NNB; rw [neg_nb]; unfold Num.neg; rw [signBit_f64]
  have := nb_lt a
  split <;> omega

theorem abs_NN {a : F64} : NN a.abs ↔ NN a := by
  unfold NN NNB; rw [abs_nb]; omega

theorem kk_neg (a : F64) : kk (-a) = - kk a := by
  unfold kk key; rw [neg_nb]; unfold Num.neg; rw [signBit_f64]
  have := nb_lt a
  split <;> split <;> split <;> omega

theorem kk_abs (a : F64) : kk a.abs = |kk a| := by
  unfold kk key; rw [abs_nb]
  have := nb_lt a
  split
  · omega
  · split
    · rw [abs_of_nonpos (by omega)]; omega
    · rw [abs_of_nonneg (by omega)]; omega

theorem neg_Fin {a : F64} : Fin (-a) ↔ Fin a := by
  unfold Fin FinB; rw [neg_nb]; unfold Num.neg; rw [signBit_f64]
  have := nb_lt a
  split <;> omega

theorem neg_fields (b : Nat) (hb : b < 18446744073709551616) :
    negB64 (Num.neg .f64 b) = !negB64 b ∧ mantB (Num.neg .f64 b) = mantB b ∧ expB (Num.neg .f64 b) = expB b := by
  unfold Num.neg negB64 mantB expB; rw [signBit_f64]
  split
  · rename_i h
    have h1 : (b - 9223372036854775808) / 4503599627370496 % 2048 = b / 4503599627370496 % 2048 := by omega
    have h2 : (b - 9223372036854775808) % 4503599627370496 = b % 4503599627370496 := by omega
    have h3 : (b - 9223372036854775808) / 9223372036854775808 % 2 = 0 := by omega
    have h4 : b / 9223372036854775808 % 2 = 1 := by omega
    rw [h1, h2, h3, h4]; simp
  · rename_i h
    have h1 : (b + 9223372036854775808) / 4503599627370496 % 2048 = b / 4503599627370496 % 2048 := by omega
    have h2 : (b + 9223372036854775808) % 4503599627370496 = b % 4503599627370496 := by omega
    have h3 : (b + 9223372036854775808) / 9223372036854775808 % 2 = 1 := by omega
    have h4 : b / 9223372036854775808 % 2 = 0 := by omega
    rw [h1, h2, h3, h4]; simp

theorem bval_neg (b : Nat) (hb : b < 18446744073709551616) : bval (Num.neg .f64 b) = - bval b := by
  obtain ⟨h1, h2, h3⟩ := neg_fields b hb
  unfold bval sval
  rw [h1, h2, h3]
  cases negB64 b <;> simp

theorem val_neg (a : F64) : val (-a) = - val a := by
  unfold val; rw [neg_nb]; exact bval_neg _ (nb_lt a)

/-! ## the operations on finite operands round the exact result -/

theorem int_cast_signed (z : Int) : (z : ℚ) = (if decide (z < 0) then -1 else 1) * ((z.natAbs : ℚ)) := by
  rcases Int.eq_nat_or_neg z with ⟨k, rfl | rfl⟩
  · have : ¬ ((k : Int) < 0) := by omega
    simp [this]
  · by_cases hk : k = 0
    · subst hk; simp
    · have : (-(k : Int) < 0) := by omega
      simp [this]

theorem sval_split (s : Bool) (m : Nat) (e e0 : Int) (h : e0 ≤ e) :
    sval s m e = (((if s then -((m * 2 ^ (e - e0).toNat : Nat) : Int) else ((m * 2 ^ (e - e0).toNat : Nat) : Int)) : Int) : ℚ)
      * pow2 e0 := by
  unfold sval
  rw [pow2_split e e0 h]
  cases s <;> simp <;> ring

theorem add_core (s : Bool) (m : Nat) (e : Int) (t : Bool) (n : Nat) (g : Int) :
    Rnd (sval s m e + sval t n g)
      (let e0 := if e ≤ g then e else g
       let x : Int := (m * 2 ^ (e - e0).toNat : Nat)
       let y : Int := (n * 2 ^ (g - e0).toNat : Nat)
       let x := if s then -x else x
       let y := if t then -y else y
       let z := x + y
       if z == 0 then withSign .f64 (s && t) 0 else roundPack .f64 (z < 0) z.natAbs e0) := by
  intro e0 x y x' y' z
  have he0 : e0 ≤ e ∧ e0 ≤ g := by
    show (if e ≤ g then e else g) ≤ e ∧ (if e ≤ g then e else g) ≤ g
    split <;> omega
  have hv : sval s m e + sval t n g = (z : ℚ) * pow2 e0 := by
    rw [sval_split s m e e0 he0.1, sval_split t n g e0 he0.2]
    show _ = (((x' + y' : Int)) : ℚ) * pow2 e0
    push_cast
    ring
  rw [hv]
  by_cases hz : z = 0
  · have : (z == 0) = true := by simp [hz]
    rw [this, hz]
    simp only [if_true, Int.cast_zero, zero_mul]
    exact Rnd_zero _
  · have : (z == 0) = false := by simp [hz]
    rw [this]
    simp only [Bool.false_eq_true, if_false]
    have h := Rnd_int (decide (z < 0)) z.natAbs e0 (by omega)
    rw [int_cast_signed z, mul_assoc]
    exact h

theorem add_Rnd (a b : Nat) (fa : FinB a) (fb : FinB b) : Rnd (bval a + bval b) (Num.add .f64 a b) := by
  unfold Num.add bval
  rw [unpack_fin a fa, unpack_fin b fb]
  exact add_core _ _ _ _ _ _

/-- the sign of an exact zero sum -/
theorem add_nonneg_bits (a b : Nat) (fa : FinB a) (fb : FinB b) (hs : negB64 a = false)
    (hv : 0 ≤ bval a + bval b) : Num.add .f64 a b ≤ 9218868437227405312 := by
  have hR := add_Rnd a b fa fb
  rcases lt_or_eq_of_le hv with hpos | hzero
  · rcases hR with ⟨h0, _⟩ | ⟨_, T, d, e, _, _, hb⟩ | ⟨h0, _⟩
    · exact absurd h0 (ne_of_gt hpos)
    · rw [hb]; exact rmag_le_inf _ _ _
    · exact absurd h0 (not_lt.2 hv)
  · -- exact zero: the model returns `+0` because the first operand is positive
    unfold Num.add bval at *
    rw [unpack_fin a fa, unpack_fin b fb] at *
    rw [hs] at *
    generalize mantB a = m at *
    generalize expB a = e at *
    generalize negB64 b = t at *
    generalize mantB b = n at *
    generalize expB b = g at *
    simp only []
    have he0 : (if e ≤ g then e else g) ≤ e ∧ (if e ≤ g then e else g) ≤ g := by split <;> omega
    generalize (if e ≤ g then e else g) = e0 at *
    have hv2 := hzero.symm
    rw [sval_split false m e e0 he0.1, sval_split t n g e0 he0.2, ← add_mul] at hv2
    have hp := pow2_ne e0
    have hz : ((((if false = true then -((m * 2 ^ (e - e0).toNat : Nat) : Int) else ((m * 2 ^ (e - e0).toNat : Nat) : Int)) : Int) : ℚ) +
        (((if t = true then -((n * 2 ^ (g - e0).toNat : Nat) : Int) else ((n * 2 ^ (g - e0).toNat : Nat) : Int)) : Int) : ℚ)) = 0 := by
      rcases mul_eq_zero.1 hv2 with h | h
      · exact h
      · exact absurd h hp
    have hz' : ((if false = true then -((m * 2 ^ (e - e0).toNat : Nat) : Int) else ((m * 2 ^ (e - e0).toNat : Nat) : Int)) +
        (if t = true then -((n * 2 ^ (g - e0).toNat : Nat) : Int) else ((n * 2 ^ (g - e0).toNat : Nat) : Int)) : Int) = 0 := by
      exact_mod_cast hz
    rw [hz']
    simp [withSign]

theorem mul_Rnd (a b : Nat) (fa : FinB a) (fb : FinB b) : Rnd (bval a * bval b) (Num.mul .f64 a b) := by
  unfold Num.mul bval
  rw [unpack_fin a fa, unpack_fin b fb]
  generalize negB64 a = s; generalize mantB a = m; generalize expB a = e
  generalize negB64 b = t; generalize mantB b = n; generalize expB b = g
  simp only []
  have hv : sval s m e * sval t n g = (if (s != t) then -1 else 1) * (((m * n : Nat) : ℚ) * pow2 (e + g)) := by
    unfold sval; rw [pow2_add]
    cases s <;> cases t <;> simp <;> ring
  rw [hv]
  by_cases h0 : m * n = 0
  · rw [h0]
    have : roundPack .f64 (s != t) 0 (e + g) = withSign .f64 (s != t) 0 := by simp [roundPack]
    rw [this]
    simp only [Nat.cast_zero, zero_mul, mul_zero]
    exact Rnd_zero _
  · exact Rnd_int _ _ _ h0

theorem quot_bits (m n : Nat) (hm : 0 < m) (hn : 0 < n) (hm53 : m < 9007199254740992) :
    Ok (m * 2 ^ (53 + 3 + bitLen n - bitLen m)) n := by
  obtain ⟨hm1, _, hm3⟩ := bitLen_bounds hm
  have hn2 := bitLen_lt_pow n
  have hmL : bitLen m ≤ 53 := bitLen_le (k := 53) (by omega)
  refine ⟨hn, Nat.mul_pos hm (Nat.two_pow_pos _), Or.inr ?_⟩
  have hk : bitLen m - 1 + (53 + 3 + bitLen n - bitLen m) = 55 + bitLen n := by omega
  have h1 : 2 ^ (55 + bitLen n) ≤ m * 2 ^ (53 + 3 + bitLen n - bitLen m) := by
    rw [← hk, Nat.pow_add]; exact Nat.mul_le_mul_right _ hm1
  have h2 : 2 ^ 55 * n ≤ 2 ^ (55 + bitLen n) := by
    rw [Nat.pow_add]; exact Nat.mul_le_mul_left _ (by omega)
  have h3 : 2 ^ 55 ≤ m * 2 ^ (53 + 3 + bitLen n - bitLen m) / n :=
    (Nat.le_div_iff_mul_le hn).2 (by omega)
  have := bitLen_ge h3
  omega

theorem div_Rnd (a b : Nat) (fa : FinB a) (fb : FinB b) (hb0 : mantB b ≠ 0) :
    Rnd (bval a / bval b) (Num.div .f64 a b) := by
  have hm53 := mantB_lt a
  unfold Num.div bval
  rw [unpack_fin a fa, unpack_fin b fb]
  generalize negB64 a = s at *; generalize mantB a = m at *; generalize expB a = e at *
  generalize negB64 b = t at *; generalize mantB b = n at *; generalize expB b = g at *
  have h1 : (n == 0) = false := by simp [hb0]
  simp only [h1, Bool.false_eq_true, if_false, prec_f64]
  by_cases hm0 : m = 0
  · subst hm0
    simp only [beq_self_eq_true, if_true]
    have : sval s 0 e / sval t n g = 0 := by simp [sval]
    rw [this]; exact Rnd_zero _
  · have h2 : (m == 0) = false := by simp [hm0]
    simp only [h2, Bool.false_eq_true, if_false]
    have hOk := quot_bits m n (by omega) (by omega) hm53
    generalize 53 + 3 + bitLen n - bitLen m = k at *
    rw [roundPack_rmag _ _ _ _ hOk.1 hOk.2.1]
    have hv : sval s m e / sval t n g =
        (if (s != t) then -1 else 1) * (((m * 2 ^ k : Nat) : ℚ) / n * pow2 (e - g - k)) := by
      unfold sval
      have hn : (n : ℚ) ≠ 0 := by exact_mod_cast hb0
      have hpg := pow2_ne g
      have hpk : ((2:ℚ)^k) ≠ 0 := by positivity
      rw [pow2_sub, pow2_sub, pow2_nat]
      push_cast
      cases s <;> cases t <;> simp <;> field_simp
    rw [hv]
    exact Rnd_ratio _ _ _ _ hOk

theorem isNaN_of_FinB (b : Nat) (h : FinB b) : Num.isNaN .f64 b = false := (isNaN_iff b).2 (FinB_NNB b h)

theorem neg_FinB (b : Nat) (hb : b < 18446744073709551616) (h : FinB b) : FinB (Num.neg .f64 b) := by
  unfold FinB at *; unfold Num.neg; rw [signBit_f64]; split <;> omega

theorem sub_Rnd (a b : Nat) (hb : b < 18446744073709551616) (fa : FinB a) (fb : FinB b) :
    Rnd (bval a - bval b) (Num.sub .f64 a b) := by
  unfold Num.sub
  rw [isNaN_of_FinB a fa, isNaN_of_FinB b fb]
  simp only [Bool.or_self, Bool.false_eq_true, if_false]
  have := add_Rnd a (Num.neg .f64 b) fa (neg_FinB b hb fb)
  rw [bval_neg b hb] at this
  rw [sub_eq_add_neg]; exact this

end Ivg.FloatMono
