import Ivg.Lemmas.Header
import Ivg.Lemmas.Converse
/-!
# The coordinate round trip is monotone; every finite, ordered viewBox is acceptable (C01, forward direction)

`rtCoord f` is what the decoder reads back for an encoded coordinate `f`: `f` itself (up to the sign of zero)
when a 1- or 2-byte form applies, else `trunc30 f`, the pattern of `f` with its 23-bit mantissa rounded to a
multiple of 4 (half up in the magnitude, except that the two top mantissa values are truncated so that the
rounding never carries into the exponent).

* `toOrd_rtCoord` : in the float order, `rtCoord f` always sits where `trunc30 f` sits (the floats that take a
  short form have a mantissa that already is a multiple of 4: `short_fields`);
* `T_key_mono`    : the map on bit patterns behind `trunc30` is monotone for the `toOrd` key (sign kept,
  magnitude monotone);
* `rtCoord_mono`  : `a ≤ b → rtCoord a ≤ rtCoord b` (float comparisons; any non-NaN operands);
* `vbValid_iff`   : exactly which viewBoxes `Encoder.reset` can write so that the decoder accepts them:
  the four components finite and the `trunc30` images ordered (non-strictly);
* `vbValid_of_finite_ordered` : in particular every viewBox that passes the decoder's own test.
-/
namespace Ivg.VBMono
open Ivg Num Enc Dec Codec Header Converse

/-- the `toOrd` key of a binary32 pattern: magnitude bits with the sign -/
def key (b : Nat) : Int := if b ≥ 2147483648 then -((b - 2147483648 : Nat) : Int) else (b : Int)

/-- not a NaN -/
def NN (b : Nat) : Prop := b % 2147483648 ≤ 2139095040

theorem isNaN_false_iff (b : Nat) : Num.isNaN .f32 b = false ↔ NN b := by
  simp only [Num.isNaN, signBit_f32, infBits_f32, NN, decide_eq_false_iff_not, Nat.not_lt]

theorem toOrd_eq (b : Nat) (h : NN b) : toOrd .f32 b = some (key b) := by
  unfold toOrd key
  rw [(isNaN_false_iff b).2 h, signBit_f32]
  simp only [Bool.false_eq_true, if_false]
  split <;> rfl

theorem toOrd_nan (b : Nat) (h : ¬ NN b) : toOrd .f32 b = none := by
  unfold toOrd
  have : Num.isNaN .f32 b = true := by
    rcases hh : Num.isNaN .f32 b with _ | _
    · exact absurd ((isNaN_false_iff b).1 hh) h
    · rfl
  rw [this]; rfl

theorem toOrd_some {b : Nat} {x : Int} (h : toOrd .f32 b = some x) : NN b ∧ x = key b := by
  by_cases hb : NN b
  · rw [toOrd_eq b hb] at h
    exact ⟨hb, by simpa using h.symm⟩
  · rw [toOrd_nan b hb] at h; cases h

/-- `isNaNOrInfinity` is the field test `expo = 255` -/
theorem isNaNOrInfinity_iff (f : F32) : isNaNOrInfinity f = false ↔ expo f ≠ 255 := by
  simp [isNaNOrInfinity, expo]

theorem NN_of_finite {f : F32} (h : isNaNOrInfinity f = false) : NN f.nb := by
  have h1 := (isNaNOrInfinity_iff f).1 h
  have := nb_lt f
  unfold expo at h1
  unfold NN
  have e : f.bits.toNat = f.nb := rfl
  rw [e] at h1
  omega

/-! ## the floats that take a 1- or 2-byte form -/

/-- a float that `encodeCoordinate` writes in 1 or 2 bytes is finite and has the low two mantissa bits clear
    (it is `k/64` with `|k| ≤ 2^13`, or a zero) -/
theorem short_fields (x : F32) (h : (Enc.encodeCoordinate x).length ≠ 4) : mant x % 4 = 0 ∧ expo x ≠ 255 := by
  obtain ⟨k, h1, h2, hf⟩ := (coord_short_iff x).1 h
  have e : x.bits.toNat = x.nb := rfl
  obtain ⟨_, _, heq | ⟨_, hz⟩⟩ := (feq_iff _ _).1 hf
  · by_cases h0 : k = 0
    · subst h0; rw [← heq]; decide +kernel
    · obtain ⟨kk, hkk, hq1, hq2, hnb, _⟩ := ofInt_small k h0 (by omega)
      have hex : expo (F32.ofInt k) = 150 - kk := by
        rw [expo_nb, hnb]; split <;> omega
      have hd := div64_nb (F32.ofInt k) (by omega) (by omega)
      rw [heq] at hd
      have hkk2 : 2 ≤ kk := by
        rcases Nat.lt_or_ge kk 2 with hlt | hge
        · have : kk = 0 ∨ kk = 1 := by omega
          rcases this with rfl | rfl <;> simp at hq1 <;> omega
        · exact hge
      obtain ⟨j, rfl⟩ : ∃ j, kk = j + 2 := ⟨kk - 2, by omega⟩
      rw [Nat.pow_succ, Nat.pow_succ, ← Nat.mul_assoc, ← Nat.mul_assoc] at hq1 hq2 hnb
      generalize k.natAbs * 2 ^ j = M at *
      unfold mant expo
      rw [e, hd, hnb]
      split <;> omega
  · have := nb_lt x
    unfold mant expo
    rw [e]
    omega

/-- in the float order `rtCoord f` sits exactly where `trunc30 f` sits -/
theorem toOrd_rtCoord (x : F32) : toOrd .f32 (rtCoord x).nb = toOrd .f32 (trunc30 x).nb := by
  by_cases h : (Enc.encodeCoordinate x).length = 4
  · rw [rtCoord_long x h]
  · rw [trunc30_fix (short_fields x h).1]
    exact toOrd_of_feq (rtCoord_feq_of_short x h)

theorem lt_congr {a b a' b' : F32} (h1 : toOrd .f32 a.nb = toOrd .f32 a'.nb)
    (h2 : toOrd .f32 b.nb = toOrd .f32 b'.nb) : a < b ↔ a' < b' := by
  show (F32.lt a b = true) ↔ (F32.lt a' b' = true)
  unfold F32.lt Num.lt
  rw [h1, h2]

theorem le_congr {a b a' b' : F32} (h1 : toOrd .f32 a.nb = toOrd .f32 a'.nb)
    (h2 : toOrd .f32 b.nb = toOrd .f32 b'.nb) : a ≤ b ↔ a' ≤ b' := by
  show (F32.le a b = true) ↔ (F32.le a' b' = true)
  unfold F32.le Num.le
  rw [h1, h2]

theorem lt_rtCoord_iff (a b : F32) : rtCoord a < rtCoord b ↔ trunc30 a < trunc30 b :=
  lt_congr (toOrd_rtCoord a) (toOrd_rtCoord b)

theorem le_rtCoord_iff (a b : F32) : rtCoord a ≤ rtCoord b ↔ trunc30 a ≤ trunc30 b :=
  le_congr (toOrd_rtCoord a) (toOrd_rtCoord b)

/-- finite ↦ finite and non-finite ↦ non-finite -/
theorem finite_rtCoord_iff (x : F32) : isNaNOrInfinity (rtCoord x) = false ↔ isNaNOrInfinity x = false := by
  by_cases h : (Enc.encodeCoordinate x).length = 4
  · rw [rtCoord_long x h, isNaNOrInfinity_iff, isNaNOrInfinity_iff, trunc30_expo]
  · have hx : isNaNOrInfinity x = false := (isNaNOrInfinity_iff x).2 (short_fields x h).2
    exact ⟨fun _ => hx, fun _ => finite_of_feq (Or.inr (rtCoord_feq_of_short x h)) hx⟩

/-! ## `trunc30` on bit patterns is monotone for the key -/

/-- the map on patterns behind `trunc30` -/
def T (x : Nat) : Nat := x / 8388608 * 8388608 + roundMant (x % 8388608)

theorem trunc30_nb (f : F32) : (trunc30 f).nb = T f.nb := trunc30_bits f

theorem roundMant_mono {v w : Nat} (h : v ≤ w) : roundMant v ≤ roundMant w := by
  unfold roundMant; split <;> split <;> omega

theorem T_mono {a b : Nat} (h : a ≤ b) : T a ≤ T b := by
  unfold T
  have ha : roundMant (a % 8388608) < 8388608 := roundMant_lt (by omega)
  have hb : roundMant (b % 8388608) < 8388608 := roundMant_lt (by omega)
  by_cases hq : a / 8388608 = b / 8388608
  · have : a % 8388608 ≤ b % 8388608 := by omega
    have := roundMant_mono this
    omega
  · omega

/-- sign kept, magnitude mapped by `T` -/
theorem T_sign (a : Nat) (ha : a < 4294967296) :
    (a ≥ 2147483648 → T a = 2147483648 + T (a - 2147483648)) ∧ (a < 2147483648 → T a < 2147483648) ∧
      T a < 4294967296 := by
  have hr : roundMant (a % 8388608) < 8388608 := roundMant_lt (by omega)
  refine ⟨?_, ?_, ?_⟩
  · intro h
    unfold T
    have e1 : (a - 2147483648) % 8388608 = a % 8388608 := by omega
    rw [e1]; omega
  · intro h; unfold T; omega
  · unfold T; omega

/-- **monotone**: the order of the keys survives the rounding to 30 bits (for every pair of patterns) -/
theorem T_key_mono (a b : Nat) (ha : a < 4294967296) (hb : b < 4294967296) (h : key a ≤ key b) :
    key (T a) ≤ key (T b) := by
  obtain ⟨a1, a2, a3⟩ := T_sign a ha
  obtain ⟨b1, b2, b3⟩ := T_sign b hb
  unfold key at *
  by_cases sa : a ≥ 2147483648 <;> by_cases sb : b ≥ 2147483648
  · have := a1 sa; have := b1 sb
    have hm : b - 2147483648 ≤ a - 2147483648 := by
      rw [if_pos sa, if_pos sb] at h; omega
    have := T_mono hm
    split <;> split <;> omega
  · have := a1 sa; have := b2 (by omega)
    split <;> split <;> omega
  · have := a2 (by omega); have := b1 sb
    rw [if_neg sa, if_pos sb] at h
    have hb0 : b = 2147483648 := by omega
    have ha0 : a = 0 := by omega
    subst hb0; subst ha0
    decide
  · have := a2 (by omega); have := b2 (by omega)
    rw [if_neg sa, if_neg sb] at h
    have := T_mono (show a ≤ b by omega)
    split <;> split <;> omega

theorem NN_T {a : Nat} (h : NN a) : NN (T a) := by
  unfold NN T roundMant at *
  split <;> omega

theorem NN_T_iff_of_ne1 {a : Nat} (h : a % 8388608 ≠ 1) : NN (T a) ↔ NN a := by
  unfold NN T roundMant
  split <;> omega

theorem le_iff_key (a b : F32) : a ≤ b ↔ NN a.nb ∧ NN b.nb ∧ key a.nb ≤ key b.nb := by
  show (F32.le a b = true) ↔ _
  unfold F32.le Num.le
  by_cases ha : NN a.nb
  · by_cases hb : NN b.nb
    · rw [toOrd_eq _ ha, toOrd_eq _ hb]; simp [ha, hb]
    · rw [toOrd_nan _ hb]; simp [hb]
  · rw [toOrd_nan _ ha]; simp [ha]

theorem lt_iff_key (a b : F32) : a < b ↔ NN a.nb ∧ NN b.nb ∧ key a.nb < key b.nb := by
  show (F32.lt a b = true) ↔ _
  unfold F32.lt Num.lt
  by_cases ha : NN a.nb
  · by_cases hb : NN b.nb
    · rw [toOrd_eq _ ha, toOrd_eq _ hb]; simp [ha, hb]
    · rw [toOrd_nan _ hb]; simp [hb]
  · rw [toOrd_nan _ ha]; simp [ha]

/-- `trunc30` is monotone for the float comparison `≤` (operands not NaN, infinities allowed) -/
theorem trunc30_mono {a b : F32} (h : a ≤ b) : trunc30 a ≤ trunc30 b := by
  obtain ⟨na, nb, hk⟩ := (le_iff_key a b).1 h
  refine (le_iff_key _ _).2 ⟨?_, ?_, ?_⟩
  · rw [trunc30_nb]; exact NN_T na
  · rw [trunc30_nb]; exact NN_T nb
  · rw [trunc30_nb, trunc30_nb]; exact T_key_mono a.nb b.nb (nb_lt a) (nb_lt b) hk

/-- **the coordinate round trip is monotone** -/
theorem rtCoord_mono {a b : F32} (h : a ≤ b) : rtCoord a ≤ rtCoord b :=
  (le_rtCoord_iff a b).2 (trunc30_mono h)

/-- for operands that are not NaN, `¬ b < a` is `a ≤ b` -/
theorem not_lt_iff_le {a b : F32} (ha : NN a.nb) (hb : NN b.nb) : ¬ (b < a) ↔ a ≤ b := by
  rw [lt_iff_key, le_iff_key]
  simp only [ha, hb, true_and]
  omega

theorem NN_trunc30 {a : F32} (h : NN a.nb) : NN (trunc30 a).nb := by
  rw [trunc30_nb]; exact NN_T h

/-- the form in which the decoder states its test -/
theorem rtCoord_mono' {a b : F32} (ha : NN a.nb) (hb : NN b.nb) (h : ¬ (b < a)) : ¬ (rtCoord b < rtCoord a) := by
  rw [lt_rtCoord_iff, not_lt_iff_le (NN_trunc30 ha) (NN_trunc30 hb)]
  exact trunc30_mono ((not_lt_iff_le ha hb).1 h)

/-! ## viewBoxes -/

/-- the decoder's viewBox test applied to `vb` itself: four finite components, `min ≤ max` on both axes
    (Go: `!(MinX > MaxX || MinY > MaxY || isNaNOrInfinity(…) …)`; zero width or height is allowed) -/
def VBFiniteOrdered (vb : ViewBox F32) : Prop :=
  ¬ (vb.maxX < vb.minX ∨ vb.maxY < vb.minY ∨
     isNaNOrInfinity vb.minX = true ∨ isNaNOrInfinity vb.minY = true ∨
     isNaNOrInfinity vb.maxX = true ∨ isNaNOrInfinity vb.maxY = true)

instance (vb : ViewBox F32) : Decidable (VBFiniteOrdered vb) := by unfold VBFiniteOrdered; infer_instance

theorem vbFiniteOrdered_iff (vb : ViewBox F32) :
    VBFiniteOrdered vb ↔
      isNaNOrInfinity vb.minX = false ∧ isNaNOrInfinity vb.minY = false ∧
      isNaNOrInfinity vb.maxX = false ∧ isNaNOrInfinity vb.maxY = false ∧
      vb.minX ≤ vb.maxX ∧ vb.minY ≤ vb.maxY := by
  unfold VBFiniteOrdered
  constructor
  · intro h
    simp only [not_or, Bool.not_eq_true] at h
    obtain ⟨h1, h2, f1, f2, f3, f4⟩ := h
    exact ⟨f1, f2, f3, f4, (not_lt_iff_le (NN_of_finite f1) (NN_of_finite f3)).1 h1,
      (not_lt_iff_le (NN_of_finite f2) (NN_of_finite f4)).1 h2⟩
  · intro ⟨f1, f2, f3, f4, h1, h2⟩
    simp only [not_or, Bool.not_eq_true]
    exact ⟨(not_lt_iff_le (NN_of_finite f1) (NN_of_finite f3)).2 h1,
      (not_lt_iff_le (NN_of_finite f2) (NN_of_finite f4)).2 h2, f1, f2, f3, f4⟩

/-- **exactly the viewBoxes that survive** `Encoder.reset` followed by decoding: all four components finite
    and the 30-bit images `trunc30` ordered (non-strictly) on both axes -/
theorem vbValid_iff (vb : ViewBox F32) :
    VBValid vb ↔
      isNaNOrInfinity vb.minX = false ∧ isNaNOrInfinity vb.minY = false ∧
      isNaNOrInfinity vb.maxX = false ∧ isNaNOrInfinity vb.maxY = false ∧
      trunc30 vb.minX ≤ trunc30 vb.maxX ∧ trunc30 vb.minY ≤ trunc30 vb.maxY := by
  unfold VBValid rtVB
  simp only [not_or, Bool.not_eq_true, finite_rtCoord_iff, lt_rtCoord_iff]
  constructor
  · intro ⟨h1, h2, f1, f2, f3, f4⟩
    exact ⟨f1, f2, f3, f4,
      (not_lt_iff_le (NN_trunc30 (NN_of_finite f1)) (NN_trunc30 (NN_of_finite f3))).1 h1,
      (not_lt_iff_le (NN_trunc30 (NN_of_finite f2)) (NN_trunc30 (NN_of_finite f4))).1 h2⟩
  · intro ⟨f1, f2, f3, f4, h1, h2⟩
    exact ⟨(not_lt_iff_le (NN_trunc30 (NN_of_finite f1)) (NN_trunc30 (NN_of_finite f3))).2 h1,
      (not_lt_iff_le (NN_trunc30 (NN_of_finite f2)) (NN_trunc30 (NN_of_finite f4))).2 h2, f1, f2, f3, f4⟩

/-- **every finite, ordered viewBox is acceptable**: what passes the decoder's test before encoding passes
    it after the round trip -/
theorem vbValid_of_finite_ordered (vb : ViewBox F32) (h : VBFiniteOrdered vb) : VBValid vb := by
  obtain ⟨f1, f2, f3, f4, h1, h2⟩ := (vbFiniteOrdered_iff vb).1 h
  exact (vbValid_iff vb).2 ⟨f1, f2, f3, f4, trunc30_mono h1, trunc30_mono h2⟩

/-- the round-tripped viewBox is again finite and ordered -/
theorem rtVB_finite_ordered (vb : ViewBox F32) (h : VBFiniteOrdered vb) : VBFiniteOrdered (rtVB vb) :=
  vbValid_of_finite_ordered vb h

/-- finiteness is necessary -/
theorem finite_of_vbValid (vb : ViewBox F32) (h : VBValid vb) :
    isNaNOrInfinity vb.minX = false ∧ isNaNOrInfinity vb.minY = false ∧
    isNaNOrInfinity vb.maxX = false ∧ isNaNOrInfinity vb.maxY = false := by
  obtain ⟨f1, f2, f3, f4, _⟩ := (vbValid_iff vb).1 h
  exact ⟨f1, f2, f3, f4⟩

/-! ## boundary behaviour, by evaluation

`1/3 = 0x3eaaaaab` needs all 23 mantissa bits; `rtCoord` gives `0x3eaaaaac`. -/

/-- a viewBox whose four bounds are not representable in 30 bits: finite and ordered, hence valid; the
    decoder reports `±0x3eaaaaac` instead of `±0x3eaaaaab` -/
def vbThird : ViewBox F32 := ⟨⟨0xbeaaaaab⟩, ⟨0xbeaaaaab⟩, ⟨0x3eaaaaab⟩, ⟨0x3eaaaaab⟩⟩

theorem vbThird_finite_ordered : VBFiniteOrdered vbThird := by decide +kernel
theorem vbThird_rt : rtVB vbThird = ⟨⟨0xbeaaaaac⟩, ⟨0xbeaaaaac⟩, ⟨0x3eaaaaac⟩, ⟨0x3eaaaaac⟩⟩ := by decide +kernel
theorem vbThird_ne_default : vbNeDefault vbThird = true := by decide +kernel

/-- **collapse**: `min < max` strictly before, `min = max` after (1.0 takes a short form and is exact;
    its successor `0x3f800001` is rounded down to it).  The decoder's test is `max < min`, so the zero-width
    viewBox is still accepted. -/
theorem collapse_example :
    (⟨0x3f800000⟩ : F32) < ⟨0x3f800001⟩ ∧ rtCoord ⟨0x3f800000⟩ = ⟨0x3f800000⟩ ∧ rtCoord ⟨0x3f800001⟩ = ⟨0x3f800000⟩ ∧
      VBValid ⟨⟨0x3f800000⟩, ⟨0⟩, ⟨0x3f800001⟩, ⟨0x3f800000⟩⟩ := by
  refine ⟨by decide +kernel, by decide +kernel, by decide +kernel, ?_⟩
  unfold VBValid rtVB; decide +kernel

/-- **repair**: the hypothesis `VBFiniteOrdered` is sufficient, not necessary — a viewBox that is inverted
    by less than the rounding (`minX = 0x3f800001 > maxX = 0x3f800000`), which the decoder would reject if
    it saw it unrounded, becomes the valid zero-width `[1, 1]` -/
theorem repair_example :
    ¬ VBFiniteOrdered ⟨⟨0x3f800001⟩, ⟨0⟩, ⟨0x3f800000⟩, ⟨0x3f800000⟩⟩ ∧
      VBValid ⟨⟨0x3f800001⟩, ⟨0⟩, ⟨0x3f800000⟩, ⟨0x3f800000⟩⟩ := by
  refine ⟨by decide +kernel, ?_⟩
  unfold VBValid rtVB; decide +kernel

/-- the largest finite float stays finite: the two top mantissa values are truncated, not rounded up -/
theorem maxFloat_example : rtCoord ⟨0x7f7fffff⟩ = ⟨0x7f7ffffc⟩ ∧ rtCoord ⟨0xff7fffff⟩ = ⟨0xff7ffffc⟩ := by
  refine ⟨by decide +kernel, by decide +kernel⟩

/-- the sign of zero: the smallest negative subnormal rounds to `-0`, and `-0` itself is written in the
    1-byte form and read back as `+0` (`==`-equal, so the order is not disturbed) -/
theorem negZero_example : rtCoord ⟨0x80000001⟩ = ⟨0x80000000⟩ ∧ rtCoord ⟨0x80000000⟩ = ⟨0⟩ := by
  refine ⟨by decide +kernel, by decide +kernel⟩

end Ivg.VBMono
