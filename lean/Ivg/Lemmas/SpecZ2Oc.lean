import Ivg.Lemmas.SpecZ2Oa
/-! # C03, zero-to-one forms, 2-byte form: values 8192 … 12287 (see `SpecZ2Oa.lean`) -/
namespace Ivg.SpecL
open Ivg Num

set_option maxRecDepth 100000 in
theorem z2o15120_8 : z2oChk 15120 15120 8192 1024 = true := by decide +kernel
set_option maxRecDepth 100000 in
theorem z2o15120_9 : z2oChk 15120 15120 9216 1024 = true := by decide +kernel
set_option maxRecDepth 100000 in
theorem z2o15120_10 : z2oChk 15120 15120 10240 1024 = true := by decide +kernel
set_option maxRecDepth 100000 in
theorem z2o15120_11 : z2oChk 15120 15120 11264 1024 = true := by decide +kernel

end Ivg.SpecL
