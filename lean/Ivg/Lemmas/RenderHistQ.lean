import Ivg.Lemmas.RenderHist
import Ivg.Lemmas.GeomQ
import Ivg.Lemmas.GradQ
/-!
# Histories of a long-lived Renderer at exact arithmetic

Corollaries of `Ivg/Lemmas/RenderHist.lean` for the model instantiated at `ℚ`: after ANY history,
`SetRasterizer r` and calls other than `Reset`, the geometry of the next path is mapped by the affine map
of `r` and of the viewBox of the last `Reset` (C05 over histories), and a gradient built by `StartPath` has
the NREG matrix composed with the pixel-to-viewBox map of `r` (C15 over histories).
-/
open Ivg Ren RatInst Grad
open Ivg.Spec.Path (Pt Seg Ctrl State)

namespace Ivg.RenderHistQ
open Ivg.GeomQ Ivg.GradQ Ivg.RenderHist Ivg.Lemmas.RendererVM
set_option linter.unusedSectionVars false
section
variable [SqrtQ]

/-! ## (a) the affine map -/

/-- the affine map that takes the viewBox `vb` onto `[0, R.dx] × [0, R.dy]` -/
def Tof (R : Rect) (vb : ViewBox ℚ) (p : Pt ℚ) : Pt ℚ :=
  ⟨(R.dx : ℚ) * (p.x - vb.minX) / (vb.maxX - vb.minX), (R.dy : ℚ) * (p.y - vb.minY) / (vb.maxY - vb.minY)⟩

/-- its inverse: the pixel-to-viewBox map of `R` and `vb` -/
def pix2vb (R : Rect) (vb : ViewBox ℚ) (p : Pt ℚ) : Pt ℚ :=
  ⟨vb.minX + p.x * (vb.maxX - vb.minX) / (R.dx : ℚ), vb.minY + p.y * (vb.maxY - vb.minY) / (R.dy : ℚ)⟩

omit [SqrtQ] in
theorem Tof_pix2vb (R : Rect) (vb : ViewBox ℚ) (hx : (R.dx : ℚ) ≠ 0) (hy : (R.dy : ℚ) ≠ 0)
    (hW : vb.maxX - vb.minX ≠ 0) (hH : vb.maxY - vb.minY ≠ 0) (p : Pt ℚ) :
    Tof R vb (pix2vb R vb p) = p ∧ pix2vb R vb (Tof R vb p) = p := by
  obtain ⟨px, py⟩ := p
  simp only [Tof, pix2vb, Pt.mk.injEq]
  refine ⟨⟨?_, ?_⟩, ⟨?_, ?_⟩⟩ <;> field_simp <;> ring

theorem T_of_transformOK (z : Renderer ℚ ℚ) (h : TransformOK z) : T z = Tof z.r z.viewBox :=
  funext fun p => T_closed z z.r.dx z.r.dy z.viewBox h.1 h.2.1 h.2.2.1 h.2.2.2 p

/-- in every state reached by a history containing a `SetRasterizer` or a `Reset` (from ANY initial state)
    the map is the one of the last rectangle and the last viewBox -/
theorem T_after_history (arc : ArcFn ℚ ℚ) (posInf : ℚ) (z0 : Renderer ℚ ℚ) (h : List (RenOp ℚ))
    (hs : h.any settles = true) :
    T (z0.runOps arc posInf h).1 = Tof (rectAfter z0.r h) (viewBoxAfter z0.viewBox h) := by
  rw [T_of_transformOK _ (transformOK_of_settled arc posInf h z0 hs), runOps_r, runOps_viewBox]

/-- **(a) at ℚ.**  After ANY history `h`, `SetRasterizer r` and any calls `cs` other than `Reset`, the map
    is `(x, y) ↦ (dx·(x − minX)/(maxX − minX), dy·(y − minY)/(maxY − minY))` for the size of `r` and the
    viewBox of the last `Reset` of `h` — no stale scale, whatever sizes were used before. -/
theorem T_after_rast (arc : ArcFn ℚ ℚ) (posInf : ℚ) (z0 : Renderer ℚ ℚ) (h : List (RenOp ℚ)) (r : Rect)
    (cs : List (Call ℚ)) (hcs : ∀ c ∈ cs, isReset c = false) :
    T (z0.runOps arc posInf (h ++ .rast r :: cs.map .call)).1 = Tof (Rect.norm r) (viewBoxAfter z0.viewBox h) := by
  obtain ⟨h1, h2, -⟩ := setRasterizer_transform arc posInf z0 h r cs hcs
  have hz : TransformOK (z0.runOps arc posInf (h ++ .rast r :: cs.map .call)).1 :=
    transformOK_of_settled arc posInf _ z0 (by simp [settles])
  have e1 : (z0.runOps arc posInf (h ++ .rast r :: cs.map .call)).1.r = Rect.norm r := h1
  have e2 : (z0.runOps arc posInf (h ++ .rast r :: cs.map .call)).1.viewBox = viewBoxAfter z0.viewBox h := h2
  rw [T_of_transformOK _ hz, e1, e2]

/-- … and after `Reset vb` (re-rendering with the rectangle of the last `SetRasterizer` of `h`). -/
theorem T_after_reset_hist (arc : ArcFn ℚ ℚ) (posInf : ℚ) (z0 : Renderer ℚ ℚ) (h : List (RenOp ℚ))
    (vb : ViewBox ℚ) (pal : Palette) (cs : List (Call ℚ)) (hcs : ∀ c ∈ cs, isReset c = false) :
    T (z0.runOps arc posInf (h ++ .call (.reset vb pal) :: cs.map .call)).1 = Tof (rectAfter z0.r h) vb := by
  obtain ⟨h1, h2, -⟩ := reset_transform arc posInf z0 h vb pal cs hcs
  have hz : TransformOK (z0.runOps arc posInf (h ++ .call (.reset vb pal) :: cs.map .call)).1 :=
    transformOK_of_settled arc posInf _ z0 (by simp [settles, isReset])
  have e1 : (z0.runOps arc posInf (h ++ .call (.reset vb pal) :: cs.map .call)).1.r = rectAfter z0.r h := h1
  have e2 : (z0.runOps arc posInf (h ++ .call (.reset vb pal) :: cs.map .call)).1.viewBox = vb := h2
  rw [T_of_transformOK _ hz, e1, e2]

/-- **C05 over histories.**  An enabled arc-free path that starts after ANY history `h`, `SetRasterizer r`
    and calls `cs` other than `Reset` reaches the rasteriser as: `Reset` to the size of `r`; the
    specification's segments mapped by the affine map of `r` and of the viewBox of the last `Reset`; one
    `Draw` over `r`.  (Whole output of the history = output before the path ++ this.) -/
theorem geometry_after_rast (arc : ArcFn ℚ ℚ) (posInf : ℚ) (z0 : Renderer ℚ ℚ) (h : List (RenOp ℚ)) (r : Rect)
    (cs : List (Call ℚ)) (hcs : ∀ c ∈ cs, isReset c = false) (adj : UInt8) (x y : ℚ)
    (body : List (Call ℚ)) (hbody : ∀ c ∈ body, Spec.Path.isSeg c = true)
    (hen : ((z0.runOps arc posInf (h ++ .rast r :: cs.map .call)).1.startPath adj x y).1.disabled = false) :
    (z0.runOps arc posInf (h ++ .rast r :: (cs ++ (Call.startPath adj x y :: body ++ [Call.closeEnd])).map .call)).2 =
      (z0.runOps arc posInf (h ++ .rast r :: cs.map .call)).2 ++
      (.reset (Rect.norm r).dx (Rect.norm r).dy ::
        ((Spec.Path.pathSegs x y body).map (Seg.map (Tof (Rect.norm r) (viewBoxAfter z0.viewBox h)))).map toOp ++
        [.draw (Rect.norm r) ((z0.runOps arc posInf (h ++ .rast r :: cs.map .call)).1.startPath adj x y).1.fill]) := by
  have hl : h ++ RenOp.rast r :: (cs ++ (Call.startPath adj x y :: body ++ [Call.closeEnd])).map RenOp.call =
      (h ++ RenOp.rast r :: cs.map RenOp.call) ++ (Call.startPath adj x y :: body ++ [Call.closeEnd]).map RenOp.call := by
    simp
  have hr : (z0.runOps arc posInf (h ++ .rast r :: cs.map .call)).1.r = Rect.norm r :=
    (setRasterizer_transform arc posInf z0 h r cs hcs).1
  rw [hl, runOps_append, runOps_calls]
  simp only
  rw [geometry_refines arc posInf _ adj x y body hbody hen, T_after_rast arc posInf z0 h r cs hcs, hr]

/-! ## (d) the gradient matrix -/

/-- the matrix `initGradient` must build for rectangle `R`, viewBox `vb` and number registers `nReg` -/
def pixMatrixAt (R : Rect) (vb : ViewBox ℚ) (nReg : Regs ℚ) (nBase : UInt8) : Aff3 ℚ :=
  let a := nReg.get6 (nBase - 6)
  let b := nReg.get6 (nBase - 5)
  let c := nReg.get6 (nBase - 4)
  let d := nReg.get6 (nBase - 3)
  let e := nReg.get6 (nBase - 2)
  let f := nReg.get6 (nBase - 1)
  let sx : ℚ := (R.dx : ℚ) / (vb.maxX - vb.minX)
  let sy : ℚ := (R.dy : ℚ) / (vb.maxY - vb.minY)
  ⟨a * (1 / sx), b * (1 / sy), c - a * (-vb.minX) - b * (-vb.minY),
   d * (1 / sx), e * (1 / sy), f - d * (-vb.minX) - e * (-vb.minY)⟩

omit [SqrtQ] in
theorem pixMatrix_of_transformOK (z : Renderer ℚ ℚ) (h : TransformOK z) (nBase : UInt8) :
    pixMatrix z nBase = pixMatrixAt z.r z.viewBox z.nReg nBase := by
  obtain ⟨h1, h2, h3, h4⟩ := h
  have e1 : z.scaleX = (z.r.dx : ℚ) / (z.viewBox.maxX - z.viewBox.minX) := h1
  have e2 : z.biasX = -z.viewBox.minX := h2
  have e3 : z.scaleY = (z.r.dy : ℚ) / (z.viewBox.maxY - z.viewBox.minY) := h3
  have e4 : z.biasY = -z.viewBox.minY := h4
  simp only [pixMatrix, pixMatrixAt, e1, e2, e3, e4]

omit [SqrtQ] in
/-- the matrix for `R`, `vb` applied to a pixel is the NREG matrix `[a b c; d e f]` applied to the image
    of the pixel under the pixel-to-viewBox map of `R` and `vb` -/
theorem pixMatrixAt_compose (R : Rect) (vb : ViewBox ℚ) (nReg : Regs ℚ) (nBase : UInt8)
    (hx : (R.dx : ℚ) ≠ 0) (hy : (R.dy : ℚ) ≠ 0) (p : Pt ℚ) :
    let m := pixMatrixAt R vb nReg nBase
    m.a * p.x + m.b * p.y + m.c =
      nReg.get6 (nBase - 6) * (pix2vb R vb p).x + nReg.get6 (nBase - 5) * (pix2vb R vb p).y + nReg.get6 (nBase - 4) ∧
    m.d * p.x + m.e * p.y + m.f =
      nReg.get6 (nBase - 3) * (pix2vb R vb p).x + nReg.get6 (nBase - 2) * (pix2vb R vb p).y + nReg.get6 (nBase - 1) := by
  simp only [pixMatrixAt, pix2vb, one_div, inv_div]
  constructor <;> field_simp <;> ring

omit [SqrtQ] in
/-- **(d), state form at ℚ**: same registers, another rectangle ⇒ the matrix of the new rectangle. -/
theorem pixMatrix_after_rast (z : Renderer ℚ ℚ) (r : Rect) (nBase : UInt8) :
    pixMatrix (z.setRasterizer r) nBase = pixMatrixAt (Rect.norm r) z.viewBox z.nReg nBase :=
  pixMatrix_of_transformOK _ (transformOK_setRasterizer z r) nBase

/-- **(d) `gradient_uses_current_transform` at ℚ (C15 over histories).**  After ANY history `h`,
    `SetRasterizer r` and calls `cs` other than `Reset` (loading registers, earlier paths with or without
    gradients): if `StartPath` starts an enabled path whose paint is a gradient `g`, then `g` is the
    gradient `initGradient` builds NOW — all of `C15.gradient_at_spec` holds for it in the current state —
    and its pixel-to-gradient matrix is the one of `r` and of the viewBox of the last `Reset`:
    the NREG matrix composed with the pixel-to-viewBox map of `r`. -/
theorem gradient_uses_current_transform (arc : ArcFn ℚ ℚ) (posInf : ℚ) (z0 : Renderer ℚ ℚ) (h : List (RenOp ℚ))
    (r : Rect) (cs : List (Call ℚ)) (hcs : ∀ c ∈ cs, isReset c = false) (adj : UInt8) (x y : ℚ) (g : Gradient ℚ)
    (hen : ((z0.runOps arc posInf (h ++ .rast r :: cs.map .call)).1.startPath adj x y).1.disabled = false)
    (hf : ((z0.runOps arc posInf (h ++ .rast r :: cs.map .call)).1.startPath adj x y).1.fill = .gradient g) :
    let z := (z0.runOps arc posInf (h ++ .rast r :: cs.map .call)).1
    let vb := viewBoxAfter z0.viewBox h
    let nBase := (decodeGradient (z.cReg.get6 (z.cSel - adj))).nBase
    z.initGradient (z.cReg.get6 (z.cSel - adj)) = some g ∧
    g.pix2Grad = pixMatrixAt (Rect.norm r) vb z.nReg nBase ∧
    (((Rect.norm r).dx : ℚ) ≠ 0 → ((Rect.norm r).dy : ℚ) ≠ 0 → ∀ p : Pt ℚ,
      g.pix2Grad.a * p.x + g.pix2Grad.b * p.y + g.pix2Grad.c =
        z.nReg.get6 (nBase - 6) * (pix2vb (Rect.norm r) vb p).x +
        z.nReg.get6 (nBase - 5) * (pix2vb (Rect.norm r) vb p).y + z.nReg.get6 (nBase - 4) ∧
      g.pix2Grad.d * p.x + g.pix2Grad.e * p.y + g.pix2Grad.f =
        z.nReg.get6 (nBase - 3) * (pix2vb (Rect.norm r) vb p).x +
        z.nReg.get6 (nBase - 2) * (pix2vb (Rect.norm r) vb p).y + z.nReg.get6 (nBase - 1)) := by
  intro z vb nBase
  have hi : z.initGradient (z.cReg.get6 (z.cSel - adj)) = some g := startPath_gradient_fill z adj x y g hen hf
  obtain ⟨stops, -, -, -, -, -, -, hm, -⟩ := gradient_at_spec z _ g hi
  obtain ⟨h1, h2, -⟩ := setRasterizer_transform arc posInf z0 h r cs hcs
  have hz : TransformOK z := transformOK_of_settled arc posInf _ z0 (by simp [settles])
  have e1 : z.r = Rect.norm r := h1
  have e2 : z.viewBox = vb := h2
  have hm' : g.pix2Grad = pixMatrixAt (Rect.norm r) vb z.nReg nBase := by
    rw [hm, pixMatrix_of_transformOK z hz, e1, e2]
  refine ⟨hi, hm', fun hx hy p => ?_⟩
  rw [hm']
  exact pixMatrixAt_compose (Rect.norm r) vb z.nReg nBase hx hy p

end

/-! ## concrete instances (default `SqrtQ`; no radial gradient is involved) -/

namespace Ex

/-- the documented life of a Renderer: an icon rendered at 64×64, then the SAME icon (same viewBox, same
    palette) re-rendered at 128×32 at another origin, a two-stop linear gradient loaded after the second
    `SetRasterizer` -/
def hist : List (RenOp ℚ) :=
  [ .rast ⟨0, 0, 64, 64⟩, .call (.reset ⟨-32, -32, 32, 32⟩ defaultPalette),
    .call (.startPath 0 (-16) 8), .call (.d2 .l 3 4), .call .closeEnd,
    .call (.setNReg 0 false 7) ]

/-- register-loading calls after the second `SetRasterizer` (no `Reset`) -/
def load : List (Call ℚ) :=
  [ .setCSel 10, .setCReg 0 true (Color.rgbaColor ⟨0, 0, 0, 0xff⟩), .setCReg 0 true (Color.rgbaColor ⟨0, 0, 0, 0⟩),
    .setNSel 4, .setNReg 0 false (1 / 64), .setNSel 6, .setNReg 0 false (1 / 2),
    .setNSel 10, .setNReg 0 true 0, .setNReg 0 true 1,
    .setCSel 0, .setCReg 0 false (Color.rgbaColor (encodeGradient 10 10 0 1 2)) ]

def noArc : ArcFn ℚ ℚ := fun _ _ _ _ _ _ _ _ => []

theorem load_noReset : ∀ c ∈ load, isReset c = false := by decide

def zAfter : Renderer ℚ ℚ :=
  ((Renderer.zero (α := ℚ) (β := ℚ)).runOps noArc 100 (hist ++ .rast ⟨5, 7, 133, 39⟩ :: load.map .call)).1

/-- the path started after the second `SetRasterizer` is enabled and painted with a gradient -/
theorem gradient_path_enabled :
    (zAfter.startPath 0 0 0).1.disabled = false ∧
    (match (zAfter.startPath 0 0 0).1.fill with | .gradient _ => true | _ => false) = true := by
  decide +kernel

/-- … and the gradient's matrix is the one of the NEW rectangle (128 wide: `NREG[4]·(64/128) = 1/128`), not
    of the 64×64 one the same Renderer drew into before (which would give `1/64`) -/
theorem gradient_path_matrix :
    (match (zAfter.startPath 0 0 0).1.fill with
     | .gradient g => decide (g.pix2Grad.a = 1 / 128 ∧ g.pix2Grad.c = 0)
     | _ => false) = true := by
  decide +kernel

theorem gradient_path_fill : ∃ g, (zAfter.startPath 0 0 0).1.fill = .gradient g := by
  have h := gradient_path_enabled.2
  revert h
  cases (zAfter.startPath 0 0 0).1.fill with
  | flat c => intro h; cases h
  | gradient g => intro _; exact ⟨g, rfl⟩

/-- at exact arithmetic the zero value happens to satisfy the invariant (`0/0 = 0` in `ℚ`); at float32 it
    does not (`RenderHist.Ex.zero_not_transformOK`) -/
theorem zero_transformOK : TransformOK (Renderer.zero : Renderer ℚ ℚ) := by
  refine ⟨?_, ?_, ?_, ?_⟩ <;> simp [Renderer.zero, zeroA, Rect.dx, Rect.dy]

end Ex

end Ivg.RenderHistQ
