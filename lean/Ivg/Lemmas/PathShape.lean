import Ivg.Spec.PathData
/-!
# C20 — the shape of what `SetPathData` emits, for EVERY input string

Whatever the string, a successful `SetPathData` has made `StartPath adj … , drawing calls … ,
ClosePathEndPath` (or, for the string `"z"`, the single `ClosePathEndPath`): the path is started once with
the given adjustment, ended exactly once, at the end, and nothing but drawing calls lie in between.
-/
namespace Ivg.PathShape
open Ivg Gen Spec.PathData
variable {α : Type} [Arith α]

/-- what one verb emits -/
theorem emit_shape (verb : Char) (adj : UInt8) (a : List α) (calls : List (Call α))
    (h : emitVerb verb adj a = .ok calls) :
    (verb = '@' ∧ ∃ x y, calls = [.startPath adj x y]) ∨ (verb ≠ '@' ∧ ∀ c ∈ calls, isDrawing c = true) := by
  unfold emitVerb at h
  split at h <;> cases h <;>
    first
    | exact Or.inl ⟨rfl, _, _, rfl⟩
    | exact Or.inr ⟨by decide, by simp [isDrawing]⟩

theorem pathLoop_shape (ts : List (Aff3 α)) (adj : UInt8) :
    ∀ (fuel : Nat) (start : Bool) (pn : Nat) (pv : Option Char) (d : List Char) (cs : List (Call α)),
      (∀ c, pv = some c → c ≠ '@') →
      pathLoop ts adj fuel start pn pv d = .ok cs →
      (start = true → (d = ['z'] ∧ cs = [.closeEnd]) ∨
        ∃ x y body, cs = .startPath adj x y :: body ++ [.closeEnd] ∧ ∀ c ∈ body, isDrawing c = true) ∧
      (start = false → ∃ body, cs = body ++ [.closeEnd] ∧ ∀ c ∈ body, isDrawing c = true) := by
  intro fuel
  induction fuel with
  | zero => intro start pn pv d cs _ h; simp [pathLoop] at h
  | succ k ih =>
    intro start pn pv d cs hpv h
    unfold pathLoop at h
    split at h
    · rename_i hd
      cases h
      exact ⟨fun _ => Or.inl ⟨hd, rfl⟩, fun _ => ⟨[], rfl, by simp⟩⟩
    · split at h
      · cases h
      · rename_i v0 dTail
        simp only at h
        split at h
        · cases h
        · rename_i n verb implicit hstep
          -- the verb in force is a real verb letter
          have hverb : verb ≠ '@' := by
            split at hstep
            · rename_i hv0
              cases hstep
              intro h'; subst h'
              have h0 : verbArgCount '@' = none := by decide
              rw [h0] at hv0; cases hv0
            · split at hstep
              · cases hstep
              · rename_i pv0
                cases hstep
                exact hpv _ rfl
          split at h
          · cases h
          · rename_i args d2 hscan
            split at h
            · cases h
            · rename_i calls hemit
              split at h
              · cases h
              · split at h
                · cases h
                · rename_i rest hrec
                  cases h
                  have hpv' : ∀ c, some (if verb = 'M' then 'L' else if verb = 'm' then 'l' else verb) = some c →
                      c ≠ '@' := by
                    intro c hc
                    cases hc
                    split
                    · decide
                    · split
                      · decide
                      · exact hverb
                  obtain ⟨body, hbody, hdraw⟩ := (ih false n _ d2 rest hpv' hrec).2 rfl
                  subst hbody
                  rcases emit_shape _ adj _ calls hemit with ⟨hat, x, y, hc⟩ | ⟨hnat, hc⟩
                  · -- the start
                    have hs : start = true := by
                      cases start
                      · simp at hat; exact absurd hat hverb
                      · rfl
                    subst hc
                    refine ⟨fun _ => Or.inr ⟨x, y, body, (by simp), hdraw⟩, fun h' => ?_⟩
                    rw [hs] at h'; cases h'
                  · have hs : start = false := by
                      cases start
                      · rfl
                      · simp at hnat
                    refine ⟨fun h' => (by rw [hs] at h'; cases h'), fun _ => ⟨calls ++ body, (by simp), ?_⟩⟩
                    intro c hc'
                    rcases List.mem_append.mp hc' with h1 | h1
                    · exact hc c h1
                    · exact hdraw c h1

/-- **C20, "the path is ended exactly once" / "the first move starts the path with the given register
    adjustment", for every input string.**  A successful `SetPathData(d, adj)` made
    `StartPath(adj, x, y)`, then drawing calls only, then `ClosePathEndPath` — except for `d = "z"`, where
    it made the `ClosePathEndPath` alone. -/
theorem setPathData_shape (ts : List (Aff3 α)) (d : String) (adj : UInt8) (cs : List (Call α))
    (h : setPathData ts d adj = .ok cs) :
    (d = "z" ∧ cs = [.closeEnd]) ∨
    ∃ x y body, cs = .startPath adj x y :: body ++ [.closeEnd] ∧ ∀ c ∈ body, isDrawing c = true := by
  unfold setPathData at h
  rcases (pathLoop_shape ts adj _ true 0 none d.toList cs (fun c hc => by cases hc) h).1 rfl with ⟨h1, h2⟩ | h'
  · exact Or.inl ⟨by rw [← String.ofList_toList (s := d), h1], h2⟩
  · exact Or.inr h'

/-- `ends_once`: exactly one `ClosePathEndPath`, and it is the last call -/
theorem ends_once (ts : List (Aff3 α)) (d : String) (adj : UInt8) (cs : List (Call α))
    (h : setPathData ts d adj = .ok cs) :
    cs.countP isEnd = 1 ∧ cs.getLast? = some .closeEnd := by
  rcases setPathData_shape ts d adj cs h with ⟨_, rfl⟩ | ⟨x, y, body, rfl, hb⟩
  · exact ⟨rfl, rfl⟩
  · have h0 : body.countP isEnd = 0 := by
      rw [List.countP_eq_zero]; intro c hc
      have := hb c hc
      cases c <;> simp_all [isDrawing, isEnd]
    refine ⟨?_, by rw [List.getLast?_concat]⟩
    rw [List.countP_append, List.countP_cons, h0]
    simp [isEnd, List.countP_cons]

/-- `starts_once`: unless the data is the bare `"z"`, exactly one `StartPath`, it is the first call and
    carries the given adjustment -/
theorem starts_once (ts : List (Aff3 α)) (d : String) (adj : UInt8) (cs : List (Call α))
    (h : setPathData ts d adj = .ok cs) (hd : d ≠ "z") :
    cs.countP isStart = 1 ∧ ∃ x y, cs.head? = some (.startPath adj x y) := by
  rcases setPathData_shape ts d adj cs h with ⟨h1, _⟩ | ⟨x, y, body, rfl, hb⟩
  · exact absurd h1 hd
  · have h0 : body.countP isStart = 0 := by
      rw [List.countP_eq_zero]; intro c hc
      have := hb c hc
      cases c <;> simp_all [isDrawing, isStart]
    refine ⟨?_, x, y, rfl⟩
    rw [List.countP_append, List.countP_cons, h0]
    simp [isStart]

/-- every call other than the first and the last is a drawing call -/
theorem only_drawing_between (ts : List (Aff3 α)) (d : String) (adj : UInt8) (cs : List (Call α))
    (h : setPathData ts d adj = .ok cs) :
    ∀ c ∈ cs, isDrawing c = true ∨ isStart c = true ∨ isEnd c = true := by
  rcases setPathData_shape ts d adj cs h with ⟨_, rfl⟩ | ⟨x, y, body, rfl, hb⟩
  · intro c hc; rw [List.mem_singleton] at hc; subst hc; exact Or.inr (Or.inr rfl)
  · intro c hc
    simp only [List.cons_append, List.mem_cons, List.mem_append, List.mem_nil_iff, or_false] at hc
    rcases hc with rfl | hc | rfl
    · exact Or.inr (Or.inl rfl)
    · exact Or.inl (hb c hc)
    · exact Or.inr (Or.inr rfl)

/-! ## errors -/

/-- an error result carries no calls: `SetPathData` returns EITHER an error OR the calls (the Go method
    has by then made the calls of the commands before the offending one; the model — and this clause —
    speak of the calls of a successful run only) -/
theorem error_no_calls (ts : List (Aff3 α)) (d : String) (adj : UInt8) (e : GenErr)
    (h : setPathData ts d adj = .error e) : ∀ cs, setPathData ts d adj ≠ .ok cs := by
  intro cs h'; rw [h] at h'; cases h'

/-- an unknown verb letter at the start: `UnrecognizedPathDataVerb`, for every continuation -/
theorem unknown_first_verb (ts : List (Aff3 α)) (adj : UInt8) (c : Char) (rest : List Char)
    (hc : verbArgCount c = none) :
    setPathData ts (String.ofList (c :: rest)) adj = .error (.unrecognizedPathDataVerb c) := by
  unfold setPathData
  rw [String.toList_ofList, String.length_ofList]
  have hne : ¬ (c :: rest = ['z']) := by
    intro h; injection h with h1 _; subst h1; cases hc
  simp only [pathLoop, hne, ↓reduceIte, hc]

/-- the empty string is outside the dialect: Go indexes `d[0]` and panics -/
theorem empty_malformed (ts : List (Aff3 α)) (adj : UInt8) : setPathData ts "" adj = .error .malformed := by
  unfold setPathData; rfl

end Ivg.PathShape
