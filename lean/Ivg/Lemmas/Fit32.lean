import Ivg.Lemmas.FloatErr
import Ivg.Model.ViewBox
/-!
# C12 at `F32`: rounding-error analysis of `ViewBox.aspectMeet` / `aspectSlice`

Part 1: a small calculus of two-sided relative bounds `Within lo hi x X : lo·X ≤ x ≤ hi·X`.
Part 2: one correctly rounded `F32` operation in that calculus.
Part 3: the fitted size.  Part 4 (in `Fit32b.lean`): placement, containment, the headline theorems.
-/
namespace Ivg.Fit32
open Ivg Num FloatOrder32 FloatMono32 FloatErr

/-! ## Part 1: two-sided relative bounds -/

/-- `lo·X ≤ x ≤ hi·X` -/
def Within (lo hi x X : ℚ) : Prop := lo * X ≤ x ∧ x ≤ hi * X

theorem Within.rfl' (X : ℚ) : Within 1 1 X X := ⟨by rw [one_mul], by rw [one_mul]⟩

theorem Within.mul {l1 h1 l2 h2 a A b B : ℚ} (ha : Within l1 h1 a A) (hb : Within l2 h2 b B)
    (hl1 : 0 ≤ l1) (hl2 : 0 ≤ l2) (hA : 0 ≤ A) (hB : 0 ≤ B) :
    Within (l1 * l2) (h1 * h2) (a * b) (A * B) := by
  have a0 : 0 ≤ l1 * A := mul_nonneg hl1 hA
  have b0 : 0 ≤ l2 * B := mul_nonneg hl2 hB
  have a1 : 0 ≤ a := le_trans a0 ha.1
  have b1 : 0 ≤ b := le_trans b0 hb.1
  constructor
  · calc l1 * l2 * (A * B) = (l1 * A) * (l2 * B) := by ring
      _ ≤ a * b := mul_le_mul ha.1 hb.1 b0 a1
  · calc a * b ≤ (h1 * A) * (h2 * B) := mul_le_mul ha.2 hb.2 b1 (le_trans a1 ha.2)
      _ = h1 * h2 * (A * B) := by ring

theorem Within.div {l1 h1 l2 h2 a A b B : ℚ} (ha : Within l1 h1 a A) (hb : Within l2 h2 b B)
    (hl1 : 0 ≤ l1) (hl2 : 0 < l2) (hh2 : 0 < h2) (hA : 0 ≤ A) (hB : 0 < B) :
    Within (l1 / h2) (h1 / l2) (a / b) (A / B) := by
  have b0 : 0 < l2 * B := mul_pos hl2 hB
  have b1 : 0 < b := lt_of_lt_of_le b0 hb.1
  have b2 : 0 < h2 * B := mul_pos hh2 hB
  have a0 : 0 ≤ l1 * A := mul_nonneg hl1 hA
  have a1 : 0 ≤ a := le_trans a0 ha.1
  constructor
  · have e : l1 / h2 * (A / B) = (l1 * A) / (h2 * B) := by field_simp
    rw [e, div_le_div_iff₀ b2 b1]
    exact mul_le_mul ha.1 hb.2 b1.le a1
  · have e : h1 / l2 * (A / B) = (h1 * A) / (l2 * B) := by field_simp
    rw [e, div_le_div_iff₀ b1 b0]
    exact mul_le_mul ha.2 hb.1 b0.le (le_trans a1 ha.2)

theorem Within.trans {l1 h1 l2 h2 a b c : ℚ} (hab : Within l1 h1 a b) (hbc : Within l2 h2 b c)
    (hl1 : 0 ≤ l1) (hh1 : 0 ≤ h1) : Within (l1 * l2) (h1 * h2) a c := by
  constructor
  · calc l1 * l2 * c = l1 * (l2 * c) := by ring
      _ ≤ l1 * b := mul_le_mul_of_nonneg_left hbc.1 hl1
      _ ≤ a := hab.1
  · calc a ≤ h1 * b := hab.2
      _ ≤ h1 * (h2 * c) := mul_le_mul_of_nonneg_left hbc.2 hh1
      _ = h1 * h2 * c := by ring

theorem Within.mono {lo hi lo' hi' x X : ℚ} (h : Within lo hi x X) (hX : 0 ≤ X) (h1 : lo' ≤ lo) (h2 : hi ≤ hi') :
    Within lo' hi' x X :=
  ⟨le_trans (mul_le_mul_of_nonneg_right h1 hX) h.1, le_trans h.2 (mul_le_mul_of_nonneg_right h2 hX)⟩

theorem Within.abs_sub {lo hi x X k : ℚ} (h : Within lo hi x X) (hX : 0 ≤ X) (h1 : 1 - k ≤ lo) (h2 : hi ≤ 1 + k) :
    |x - X| ≤ k * X := by
  have a1 := mul_le_mul_of_nonneg_right h1 hX
  have a2 := mul_le_mul_of_nonneg_right h2 hX
  rw [abs_le]
  constructor
  · linarith [h.1]
  · linarith [h.2]

theorem Within.of_abs {x X k : ℚ} (h : |x - X| ≤ k * |X|) (hX : 0 ≤ X) : Within (1 - k) (1 + k) x X := by
  rw [abs_of_nonneg hX] at h
  obtain ⟨h1, h2⟩ := abs_le.1 h
  constructor <;> linarith

theorem Within.pos {lo hi x X : ℚ} (h : Within lo hi x X) (hlo : 0 < lo) (hX : 0 < X) : 0 < x :=
  lt_of_lt_of_le (mul_pos hlo hX) h.1

/-! ## Part 2: one rounded operation on positive operands whose exact result is in the normal range -/

theorem u_lt : u < 1 := by unfold u; norm_num

theorem div_within {a b : F32} (ha : Fn a) (hb : Fn b) (hpa : 0 < val a) (hpb : 0 < val b)
    (hlo : minN ≤ val a / val b) (hhi : val a / val b ≤ maxv) :
    Fn (a / b) ∧ Within (1 - u) (1 + u) (val (a / b)) (val a / val b) := by
  have hp : 0 < val a / val b := div_pos hpa hpb
  obtain ⟨hf, he⟩ := div_err ha hb (ne_of_gt hpb) (by rw [abs_of_pos hp]; exact hhi)
  refine ⟨hf, ?_⟩
  rcases he with he | ⟨he, _⟩
  · exact Within.of_abs he hp.le
  · rw [abs_of_pos hp] at he; exact absurd hlo (not_le.2 he)

theorem mul_within {a b : F32} (ha : Fn a) (hb : Fn b) (hpa : 0 < val a) (hpb : 0 < val b)
    (hlo : minN ≤ val a * val b) (hhi : val a * val b ≤ maxv) :
    Fn (a * b) ∧ Within (1 - u) (1 + u) (val (a * b)) (val a * val b) := by
  have hp : 0 < val a * val b := mul_pos hpa hpb
  obtain ⟨hf, he⟩ := mul_err ha hb (by rw [abs_of_pos hp]; exact hhi)
  refine ⟨hf, ?_⟩
  rcases he with he | ⟨he, _⟩
  · exact Within.of_abs he hp.le
  · rw [abs_of_pos hp] at he; exact absurd hlo (not_le.2 he)

/-- the float comparison of correctly rounded results never contradicts the exact one -/
theorem lt_of_rounded_lt {v v' : ℚ} {a b : F32} (ha : Rnd v a.nb) (hb : Rnd v' b.nb) (fa : Fn a) (fb : Fn b)
    (h : a < b) : v < v' := by
  by_contra hc
  have := Rnd_le_val v' v b.nb a.nb hb ha fb fa (not_lt.1 hc)
  have h2 := (lt_iff_val fa fb).1 h
  exact absurd h2 (not_lt.2 this)


/-! ## Part 3: the fitted size -/

/-- normal range of binary32 with a margin: `2·2^-126 ≤ x ≤ maxv/8` -/
def NR (x : ℚ) : Prop := 2 * minN ≤ x ∧ x ≤ maxv / 8

/-- **the range hypothesis**: the target sizes and the four exact intermediate quantities of the computation
    (the viewBox aspect ratio, the target aspect ratio, the fitted height `dx/(vw/vh)` and the fitted width
    `dy·(vw/vh)`) lie in the normal range of binary32 (with a margin of a factor 2 below and 8 above), so that
    no intermediate result underflows or overflows.  Stated of the EXACT quantities. -/
structure InRange (vw vh dx dy : ℚ) : Prop where
  ar : NR (vw / vh)
  tr : NR (dx / dy)
  fh : NR (dx / (vw / vh))
  fw : NR (dy * (vw / vh))
  tx : NR dx
  ty : NR dy

theorem maxv_pos : 0 < maxv := by unfold maxv; have := pow2_pos 104; linarith

theorem NR.pos {x : ℚ} (h : NR x) : 0 < x := by have := minN_pos; unfold NR at h; linarith

theorem range_of_within {lo hi x X : ℚ} (h : Within lo hi x X) (hn : NR X) (h1 : 1 / 2 ≤ lo) (h2 : hi ≤ 8) :
    minN ≤ x ∧ x ≤ maxv := by
  have hX := hn.pos.le
  have a1 := mul_le_mul_of_nonneg_right h1 hX
  have a2 := mul_le_mul_of_nonneg_right h2 hX
  unfold NR at hn
  constructor
  · linarith [h.1]
  · linarith [h.2]

/-- the quotient `dx / R` by a rounded ratio `R ≈ ρ` -/
theorem lemA {dx R : F32} {ρ : ℚ} (fdx : Fn dx) (pdx : 0 < val dx) (fR : Fn R) (hρ : 0 < ρ)
    (hR : Within (1 - u) (1 + u) (val R) ρ) (hn : NR (val dx / ρ)) :
    Fn (dx / R) ∧ Within ((1 - u) / (1 + u)) ((1 + u) / (1 - u)) (val (dx / R)) (val dx / ρ) := by
  have pR : 0 < val R := hR.pos (by unfold u; norm_num) hρ
  have hq : Within (1 / (1 + u)) (1 / (1 - u)) (val dx / val R) (val dx / ρ) :=
    Within.div (Within.rfl' _) hR (by norm_num) (by unfold u; norm_num) (by unfold u; norm_num) pdx.le hρ
  obtain ⟨r1, r2⟩ := range_of_within hq hn (by unfold u; norm_num) (by unfold u; norm_num)
  obtain ⟨f, hw⟩ := div_within fdx fR pdx pR r1 r2
  refine ⟨f, ?_⟩
  exact (hw.trans hq (by unfold u; norm_num) (by unfold u; norm_num)).mono hn.pos.le
    (by unfold u; norm_num) (by unfold u; norm_num)

/-- the product `dy * R` with a rounded ratio `R ≈ ρ` -/
theorem lemB {dy R : F32} {ρ : ℚ} (fdy : Fn dy) (pdy : 0 < val dy) (fR : Fn R) (hρ : 0 < ρ)
    (hR : Within (1 - u) (1 + u) (val R) ρ) (hn : NR (val dy * ρ)) :
    Fn (dy * R) ∧ Within ((1 - u) * (1 - u)) ((1 + u) * (1 + u)) (val (dy * R)) (val dy * ρ) := by
  have pR : 0 < val R := hR.pos (by unfold u; norm_num) hρ
  have hq : Within (1 * (1 - u)) (1 * (1 + u)) (val dy * val R) (val dy * ρ) :=
    Within.mul (Within.rfl' _) hR (by norm_num) (by unfold u; norm_num) pdy.le hρ.le
  obtain ⟨r1, r2⟩ := range_of_within hq hn (by unfold u; norm_num) (by unfold u; norm_num)
  obtain ⟨f, hw⟩ := mul_within fdy fR pdy pR r1 r2
  refine ⟨f, ?_⟩
  exact (hw.trans hq (by unfold u; norm_num) (by unfold u; norm_num)).mono hn.pos.le
    (by unfold u; norm_num) (by unfold u; norm_num)

/-- `AspectMeet`'s choice of size, as a function of the float width and height of the viewBox -/
def meetSize (vw vh dx dy : F32) : F32 × F32 :=
  if dx / dy < vw / vh then (dx, dx / (vw / vh)) else (dy * (vw / vh), dy)

/-- `AspectSlice`'s choice of size -/
def sliceSize (vw vh dx dy : F32) : F32 × F32 :=
  if dx / dy < vw / vh then (dy * (vw / vh), dy) else (dx, dx / (vw / vh))

/-- the same at exact arithmetic -/
def meetSizeQ (vw vh dx dy : ℚ) : ℚ × ℚ :=
  if dx / dy < vw / vh then (dx, dx / (vw / vh)) else (dy * (vw / vh), dy)

def sliceSizeQ (vw vh dx dy : ℚ) : ℚ × ℚ :=
  if dx / dy < vw / vh then (dy * (vw / vh), dy) else (dx, dx / (vw / vh))

/-- finite and positive -/
def FP (a : F32) : Prop := Fn a ∧ 0 < val a

/-- a float `x` approximates the positive rational `X` to relative `3u = 3·2^-24` -/
def Close3 (x : F32) (X : ℚ) : Prop := Fn x ∧ Within (1 - 3 * u) (1 + 3 * u) (val x) X

theorem Close3.abs {x : F32} {X : ℚ} (h : Close3 x X) (hX : 0 ≤ X) : |val x - X| ≤ 3 * u * X :=
  h.2.abs_sub hX (le_refl _) (le_refl _)

theorem Close3.self {x : F32} (h : Fn x) (hp : 0 ≤ val x) : Close3 x (val x) :=
  ⟨h, (Within.rfl' _).mono hp (by unfold u; norm_num) (by unfold u; norm_num)⟩

/-- what the analysis of the comparison `dx/dy < vw/vh` delivers -/
structure Ratios (vw vh dx dy : F32) : Prop where
  fR : Fn (vw / vh)
  fC : Fn (dx / dy)
  hR : Within (1 - u) (1 + u) (val (vw / vh)) (val vw / val vh)
  hC : Within (1 - u) (1 + u) (val (dx / dy)) (val dx / val dy)
  /-- the float comparison never contradicts the exact one … -/
  sound : dx / dy < vw / vh → val dx / val dy < val vw / val vh
  /-- … and fails to see `dx/dy < vw/vh` only if the two ratios round to the same float or cross -/
  near : ¬ dx / dy < vw / vh → val (vw / vh) ≤ val (dx / dy)

theorem ratios {vw vh dx dy : F32} (hvw : FP vw) (hvh : FP vh) (hdx : FP dx) (hdy : FP dy)
    (hr : InRange (val vw) (val vh) (val dx) (val dy)) : Ratios vw vh dx dy := by
  have n1 : minN ≤ val vw / val vh ∧ val vw / val vh ≤ maxv :=
    range_of_within (Within.rfl' _) hr.ar (by norm_num) (by norm_num)
  have n2 : minN ≤ val dx / val dy ∧ val dx / val dy ≤ maxv :=
    range_of_within (Within.rfl' _) hr.tr (by norm_num) (by norm_num)
  obtain ⟨fR, hR⟩ := div_within hvw.1 hvh.1 hvw.2 hvh.2 n1.1 n1.2
  obtain ⟨fC, hC⟩ := div_within hdx.1 hdy.1 hdx.2 hdy.2 n2.1 n2.2
  refine ⟨fR, fC, hR, hC, ?_, ?_⟩
  · intro h
    exact lt_of_rounded_lt (div_nb hdx.1 hdy.1 (ne_of_gt hdy.2)) (div_nb hvw.1 hvh.1 (ne_of_gt hvh.2)) fC fR h
  · intro h
    by_contra hc
    exact h ((lt_iff_val fC fR).2 (not_le.1 hc))

/-- when the float comparison misses `c < r`, the ratios are within rounding of each other -/
theorem near_ratios {r c R C : ℚ} (hc : 0 < c) (hR : Within (1 - u) (1 + u) R r)
    (hC : Within (1 - u) (1 + u) C c) (hlt : c < r) (hRC : R ≤ C) :
    Within (1 - u) (1 + u) R c ∧ Within ((1 - u) / (1 + u)) 1 c r := by
  have hu1 : (0:ℚ) < 1 - u := by unfold u; norm_num
  have hu2 : (0:ℚ) < 1 + u := by unfold u; norm_num
  have hr : 0 < r := lt_trans hc hlt
  refine ⟨⟨?_, le_trans hRC hC.2⟩, ?_, by linarith⟩
  · exact le_trans (mul_le_mul_of_nonneg_left hlt.le hu1.le) hR.1
  · have : (1 - u) * r ≤ (1 + u) * c := le_trans hR.1 (le_trans hRC hC.2)
    rw [div_mul_eq_mul_div, div_le_iff₀ hu2]
    linarith


theorem dy_mul_c {dx dy : ℚ} (hdy : 0 < dy) : dy * (dx / dy) = dx := by field_simp
theorem dx_div_c {dx dy : ℚ} (hdx : 0 < dx) (hdy : 0 < dy) : dx / (dx / dy) = dy := by field_simp

/-- **size, meet** (clauses b and c): the float size `(w, h)` chosen by `AspectMeet` is within relative
    `3·2^-24` of the exact fitted size, whichever branch the float comparison takes; and one of its
    components IS the target's (bit for bit). -/
theorem meetSize_close {vw vh dx dy : F32} (hvw : FP vw) (hvh : FP vh) (hdx : FP dx) (hdy : FP dy)
    (hr : InRange (val vw) (val vh) (val dx) (val dy)) :
    Close3 (meetSize vw vh dx dy).1 (meetSizeQ (val vw) (val vh) (val dx) (val dy)).1 ∧
    Close3 (meetSize vw vh dx dy).2 (meetSizeQ (val vw) (val vh) (val dx) (val dy)).2 ∧
    ((meetSize vw vh dx dy).1 = dx ∨ (meetSize vw vh dx dy).2 = dy) := by
  have R := ratios hvw hvh hdx hdy hr
  have pr : 0 < val vw / val vh := div_pos hvw.2 hvh.2
  have pc : 0 < val dx / val dy := div_pos hdx.2 hdy.2
  unfold meetSize meetSizeQ
  by_cases hb : dx / dy < vw / vh
  · have hlt := R.sound hb
    rw [if_pos hb, if_pos hlt]
    obtain ⟨f, hw⟩ := lemA hdx.1 hdx.2 R.fR pr R.hR hr.fh
    exact ⟨Close3.self hdx.1 hdx.2.le,
      ⟨f, hw.mono hr.fh.pos.le (by unfold u; norm_num) (by unfold u; norm_num)⟩, Or.inl rfl⟩
  · rw [if_neg hb]
    have hRC := R.near hb
    by_cases hlt : val dx / val dy < val vw / val vh
    · rw [if_pos hlt]
      obtain ⟨n1, n2⟩ := near_ratios pc R.hR R.hC hlt hRC
      have e := dy_mul_c (dx := val dx) hdy.2
      have e2 := dx_div_c hdx.2 hdy.2
      obtain ⟨f, hw⟩ := lemB hdy.1 hdy.2 R.fR pc n1 (by rw [e]; exact hr.tx)
      rw [e] at hw
      have hh : Within (1 / 1) (1 / ((1 - u) / (1 + u))) (val dx / (val dx / val dy)) (val dx / (val vw / val vh)) :=
        Within.div (Within.rfl' _) n2 (by norm_num) (by unfold u; norm_num) (by norm_num) hdx.2.le pr
      rw [e2] at hh
      exact ⟨⟨f, hw.mono hdx.2.le (by unfold u; norm_num) (by unfold u; norm_num)⟩,
        ⟨hdy.1, hh.mono hr.fh.pos.le (by unfold u; norm_num) (by unfold u; norm_num)⟩, Or.inr rfl⟩
    · rw [if_neg hlt]
      obtain ⟨f, hw⟩ := lemB hdy.1 hdy.2 R.fR pr R.hR hr.fw
      exact ⟨⟨f, hw.mono hr.fw.pos.le (by unfold u; norm_num) (by unfold u; norm_num)⟩,
        Close3.self hdy.1 hdy.2.le, Or.inr rfl⟩

/-- **size, slice** (clauses b and c) -/
theorem sliceSize_close {vw vh dx dy : F32} (hvw : FP vw) (hvh : FP vh) (hdx : FP dx) (hdy : FP dy)
    (hr : InRange (val vw) (val vh) (val dx) (val dy)) :
    Close3 (sliceSize vw vh dx dy).1 (sliceSizeQ (val vw) (val vh) (val dx) (val dy)).1 ∧
    Close3 (sliceSize vw vh dx dy).2 (sliceSizeQ (val vw) (val vh) (val dx) (val dy)).2 ∧
    ((sliceSize vw vh dx dy).1 = dx ∨ (sliceSize vw vh dx dy).2 = dy) := by
  have R := ratios hvw hvh hdx hdy hr
  have pr : 0 < val vw / val vh := div_pos hvw.2 hvh.2
  have pc : 0 < val dx / val dy := div_pos hdx.2 hdy.2
  unfold sliceSize sliceSizeQ
  by_cases hb : dx / dy < vw / vh
  · have hlt := R.sound hb
    rw [if_pos hb, if_pos hlt]
    obtain ⟨f, hw⟩ := lemB hdy.1 hdy.2 R.fR pr R.hR hr.fw
    exact ⟨⟨f, hw.mono hr.fw.pos.le (by unfold u; norm_num) (by unfold u; norm_num)⟩,
      Close3.self hdy.1 hdy.2.le, Or.inr rfl⟩
  · rw [if_neg hb]
    have hRC := R.near hb
    by_cases hlt : val dx / val dy < val vw / val vh
    · rw [if_pos hlt]
      obtain ⟨n1, n2⟩ := near_ratios pc R.hR R.hC hlt hRC
      have e := dy_mul_c (dx := val dx) hdy.2
      have e2 := dx_div_c hdx.2 hdy.2
      obtain ⟨f, hw⟩ := lemA hdx.1 hdx.2 R.fR pc n1 (by rw [e2]; exact hr.ty)
      rw [e2] at hw
      have hh : Within (1 * ((1 - u) / (1 + u))) (1 * 1) (val dy * (val dx / val dy)) (val dy * (val vw / val vh)) :=
        Within.mul (Within.rfl' _) n2 (by norm_num) (by unfold u; norm_num) hdy.2.le pr.le
      rw [e] at hh
      exact ⟨⟨hdx.1, hh.mono hr.fw.pos.le (by unfold u; norm_num) (by unfold u; norm_num)⟩,
        ⟨f, hw.mono hdy.2.le (by unfold u; norm_num) (by unfold u; norm_num)⟩, Or.inl rfl⟩
    · rw [if_neg hlt]
      obtain ⟨f, hw⟩ := lemA hdx.1 hdx.2 R.fR pr R.hR hr.fh
      exact ⟨Close3.self hdx.1 hdx.2.le,
        ⟨f, hw.mono hr.fh.pos.le (by unfold u; norm_num) (by unfold u; norm_num)⟩, Or.inl rfl⟩

/-- **branch agreement** (clause a): the float comparison takes the `dx/dy < vw/vh` branch only if that is
    exactly true; when it misses it, the two exact ratios are within `(1+u)/(1−u)` of each other — and
    `meetSize_close` / `sliceSize_close` hold in that case too. -/
theorem branch_agrees {vw vh dx dy : F32} (hvw : FP vw) (hvh : FP vh) (hdx : FP dx) (hdy : FP dy)
    (hr : InRange (val vw) (val vh) (val dx) (val dy)) :
    (dx / dy < vw / vh → val dx / val dy < val vw / val vh) ∧
    (¬ dx / dy < vw / vh → val dx / val dy < val vw / val vh →
      (1 - u) * (val vw / val vh) ≤ (1 + u) * (val dx / val dy)) := by
  have R := ratios hvw hvh hdx hdy hr
  refine ⟨R.sound, fun hb _ => ?_⟩
  exact le_trans R.hR.1 (le_trans (R.near hb) R.hC.2)

/-! ## slice: how the float size compares with the target (for exact covering) -/

/-- the rounded quotient against the quotient by the ROUNDED ratio -/
theorem lemA_raw {dx R : F32} {ρ : ℚ} (fdx : Fn dx) (pdx : 0 < val dx) (fR : Fn R) (hρ : 0 < ρ)
    (hR : Within (1 - u) (1 + u) (val R) ρ) (hn : NR (val dx / ρ)) :
    Fn (dx / R) ∧ 0 < val R ∧ Within (1 - u) (1 + u) (val (dx / R)) (val dx / val R) := by
  have pR : 0 < val R := hR.pos (by unfold u; norm_num) hρ
  have hq : Within (1 / (1 + u)) (1 / (1 - u)) (val dx / val R) (val dx / ρ) :=
    Within.div (Within.rfl' _) hR (by norm_num) (by unfold u; norm_num) (by unfold u; norm_num) pdx.le hρ
  obtain ⟨r1, r2⟩ := range_of_within hq hn (by unfold u; norm_num) (by unfold u; norm_num)
  obtain ⟨f, hw⟩ := div_within fdx fR pdx pR r1 r2
  exact ⟨f, pR, hw⟩

/-- **branch `dx/dy < vbAR`** (only finiteness is used): the float width `rnd(dy·vbAR)` is at least `dx` —
    `rnd(dx/dy) < vbAR` forces `dx/dy ≤ vbAR`, hence `dx ≤ dy·vbAR`, and rounding is monotone with `dx`
    representable -/
theorem slice_w_ge {dx dy R : F32} (hdx : FP dx) (hdy : FP dy) (fR : Fn R) (fC : Fn (dx / dy))
    (fw : Fn (dy * R)) (hb : dx / dy < R) : val dx ≤ val (dy * R) := by
  have hle : val dx / val dy ≤ val R := by
    by_contra hc
    have := Rnd_le_val _ _ R.nb (dx / dy).nb (Rnd_val fR) (div_nb hdx.1 hdy.1 (ne_of_gt hdy.2)) fR fC
      (le_of_lt (not_le.1 hc))
    exact absurd ((lt_iff_val fC fR).1 hb) (not_lt.2 this)
  rw [div_le_iff₀ hdy.2] at hle
  exact Rnd_ge_repr _ _ dx.nb (mul_nb hdy.1 fR) fw (nb_lt dx) hdx.1 (by show val dx ≤ _; linarith)

/-- **the other branch**: the float height `rnd(dx/vbAR)` can be below `dy` only by the two roundings of the
    branch test and of the quotient: `(1 − 2u)·dy ≤ rnd(dx/vbAR)` -/
theorem slice_h_near {vw vh dx dy : F32} (hvw : FP vw) (hvh : FP vh) (hdx : FP dx) (hdy : FP dy)
    (hr : InRange (val vw) (val vh) (val dx) (val dy)) (hb : ¬ dx / dy < vw / vh) :
    Fn (dx / (vw / vh)) ∧ (1 - 2 * u) * val dy ≤ val (dx / (vw / vh)) := by
  have R := ratios hvw hvh hdx hdy hr
  have pr : 0 < val vw / val vh := div_pos hvw.2 hvh.2
  have pc : 0 < val dx / val dy := div_pos hdx.2 hdy.2
  have hRC := R.near hb
  have hraw : Fn (dx / (vw / vh)) ∧ 0 < val (vw / vh) ∧
      Within (1 - u) (1 + u) (val (dx / (vw / vh))) (val dx / val (vw / vh)) := by
    by_cases hlt : val dx / val dy < val vw / val vh
    · obtain ⟨n1, _⟩ := near_ratios pc R.hR R.hC hlt hRC
      exact lemA_raw hdx.1 hdx.2 R.fR pc n1 (by rw [dx_div_c hdx.2 hdy.2]; exact hr.ty)
    · exact lemA_raw hdx.1 hdx.2 R.fR pr R.hR hr.fh
  obtain ⟨f, pR, hw⟩ := hraw
  refine ⟨f, ?_⟩
  have h1 : val (vw / vh) * val dy ≤ (1 + u) * val dx := by
    have := le_trans hRC R.hC.2
    have h2 := mul_le_mul_of_nonneg_right this hdy.2.le
    have e : (1 + u) * (val dx / val dy) * val dy = (1 + u) * val dx := by
      have := ne_of_gt hdy.2; field_simp
    linarith
  have h2 : val dy / (1 + u) ≤ val dx / val (vw / vh) := by
    rw [div_le_div_iff₀ (by unfold u; norm_num) pR]; linarith
  have h3 := hw.1
  have h4 : (1 - 2 * u) * val dy ≤ (1 - u) * (val dy / (1 + u)) := by
    have hd := hdy.2
    rw [mul_div_assoc', le_div_iff₀ (by unfold u; norm_num)]
    unfold u; nlinarith
  have h5 := mul_le_mul_of_nonneg_left h2 (by unfold u; norm_num : (0:ℚ) ≤ 1 - u)
  linarith

end Ivg.Fit32
