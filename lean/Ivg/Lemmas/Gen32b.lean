import Ivg.Lemmas.Gen32
import Ivg.Lemmas.FloatConv
import Ivg.Lemmas.FloatSqrt
import Ivg.Lemmas.FloatErr64
/-!
# C19 at `F32`: rounding-error analysis of `SetCircularGradient`'s matrix

`circularMatrix cx cy rx ry = [ι 0 c2; 0 ι c5]` with

    q = fl32(fl32(rx·rx) + fl32(ry·ry)),   ι = float32(fl64(1 / sqrt64(float64(q)))),
    c2 = fl32((−cx)·ι),   c5 = fl32((−cy)·ι).

* `sqrt_err64` : the float64 square root as a two-sided bound on the SQUARE of the result
  (`(1−u64)²·a ≤ S² ≤ (1+u64)²·a`, from `FloatSqrt.sqrt_F64`: the result is the rounding of two rationals
  enclosing the real root);
* `invR_err`   : `|ι²·(RX² + RY²) − 1| ≤ 6u`  (the radius is right to relative `3u`);
* `circularMatrix_f32` : the centre is mapped to within `2u·K` of the origin in each coordinate (squared
  distance `≤ (2uK)²`), the point centre + radius vector to squared distance within `12u·K + 4(uK)²` of 1, with
  the condition number `K = 1 + (|CX| + |CY|)/(|RX| + |RY|)`: the translation entries `c2`, `c5` are rounded
  relative to `|cx·ι|`, `|cy·ι|`, i.e. to the distance of the centre from the origin in units of the radius.
-/
namespace Ivg.Gen32
open Ivg Num Gen FloatOrder32 FloatMono32 FloatErr Geom32 Mix32
open private i from Ivg.Model.Generator

/-! ## the float64 square root -/

/-- unit roundoff of binary64 -/
abbrev u64 : ℚ := FloatErr64.u

theorem pow2_64_m50 : FloatOrder.pow2 (-50) = 1 / 1125899906842624 := by
  unfold FloatOrder.pow2; norm_num

theorem pow2_64_m60 : FloatOrder.pow2 (-60) = 1 / 1152921504606846976 := by
  unfold FloatOrder.pow2; norm_num

/-- **the float64 square root, as an error bound**: for a finite operand `a ≥ 2^-100` the result `S` is finite,
    positive, and `(1−u64)²·a ≤ S² ≤ (1+u64)²·a` — the relative error `u64 = 2^-53` of a correctly rounded
    root, stated on the square because `ℚ` has no roots -/
theorem sqrt_err64 (a : F64) (fa : FloatMono.Fin a) (hlo : 1 / 1267650600228229401496703205376 ≤ FloatMono.val a) :
    FloatMono.Fin a.sqrt ∧ 0 < FloatMono.val a.sqrt ∧
    (1 - u64) * (1 - u64) * FloatMono.val a ≤ FloatMono.val a.sqrt * FloatMono.val a.sqrt ∧
    FloatMono.val a.sqrt * FloatMono.val a.sqrt ≤ (1 + u64) * (1 + u64) * FloatMono.val a := by
  have hc : u64 = 1 / 9007199254740992 := rfl
  have hpos : 0 < FloatMono.val a := lt_of_lt_of_le (by norm_num) hlo
  obtain ⟨q1, q2, h0, h12, l1, l2, r1, r2⟩ := FloatSqrt.sqrt_F64 a fa hpos
  have fin : FloatOrder.FinB a.sqrt.nb := by
    rw [FloatSqrt.sqrt_nb]; exact FloatSqrt.sqrt_finite a.nb fa hpos
  have hq2 : 0 < q2 := lt_of_lt_of_le h0 h12
  have hq2lo : 1 / 1125899906842624 ≤ q2 := by
    by_contra hcon
    have : q2 < 1 / 1125899906842624 := not_le.1 hcon
    have : q2 ^ 2 < 1 / 1267650600228229401496703205376 := by nlinarith
    linarith
  have hmin : FloatOrder.pow2 (-1022) ≤ 1 / 1152921504606846976 := by
    rw [← pow2_64_m60]; exact FloatErr64.pow2_mono (by omega)
  have hmin2 : FloatOrder.pow2 (-1075) ≤ FloatOrder.pow2 (-1022) := FloatErr64.pow2_mono (by omega)
  have hminpos := FloatOrder.pow2_pos (-1022)
  set S := FloatMono.val a.sqrt with hS
  have e2 := FloatErr64.Rnd_err q2 _ r2 fin
  have e1 := FloatErr64.Rnd_err q1 _ r1 fin
  rw [FloatErr64.pow2_m24, abs_of_pos hq2] at e2
  rw [FloatErr64.pow2_m24, abs_of_pos h0] at e1
  change (|S - q2| ≤ FloatErr64.u * q2 ∨ _) at e2
  change (|S - q1| ≤ FloatErr64.u * q1 ∨ _) at e1
  have b2 : |S - q2| ≤ u64 * q2 := by
    rcases e2 with e2 | ⟨e2, _⟩
    · exact e2
    · exfalso; linarith
  obtain ⟨b2l, _⟩ := abs_le.1 b2
  have Slo : (1 - u64) * q2 ≤ S := by linarith
  have Spos : 0 < S := by
    have : 0 < (1 - u64) * q2 := mul_pos (by rw [hc]; norm_num) hq2
    linarith
  have b1 : |S - q1| ≤ u64 * q1 := by
    rcases e1 with e1 | ⟨e1, e1'⟩
    · exact e1
    · exfalso
      have e1'' : |S - q1| ≤ FloatOrder.pow2 (-1075) := e1'
      have := (abs_le.1 e1'').2
      rw [hc] at Slo
      linarith
  obtain ⟨_, b1u⟩ := abs_le.1 b1
  have Shi : S ≤ (1 + u64) * q1 := by linarith
  refine ⟨fin, Spos, ?_, ?_⟩
  · have h1 : ((1 - u64) * q2) * ((1 - u64) * q2) ≤ S * S :=
      mul_self_le_mul_self (le_of_lt (mul_pos (by rw [hc]; norm_num) hq2)) Slo
    have h2 : (1 - u64) * (1 - u64) * FloatMono.val a ≤ (1 - u64) * (1 - u64) * q2 ^ 2 :=
      mul_le_mul_of_nonneg_left l2 (mul_self_nonneg _)
    have e : ((1 - u64) * q2) * ((1 - u64) * q2) = (1 - u64) * (1 - u64) * q2 ^ 2 := by ring
    linarith
  · have h1 : S * S ≤ ((1 + u64) * q1) * ((1 + u64) * q1) := mul_self_le_mul_self Spos.le Shi
    have h2 : (1 + u64) * (1 + u64) * q1 ^ 2 ≤ (1 + u64) * (1 + u64) * FloatMono.val a :=
      mul_le_mul_of_nonneg_left l1 (mul_self_nonneg _)
    have e : ((1 + u64) * q1) * ((1 + u64) * q1) = (1 + u64) * (1 + u64) * q1 ^ 2 := by ring
    linarith

/-! ## `invR` -/

/-- `float32(1 / math.Sqrt(float64(rx*rx + ry*ry)))` -/
def invR (rx ry : F32) : F32 := F64.toF32 (F64.ofInt 1 / F64.sqrt (F64.ofF32 (rx * rx + ry * ry)))

theorem circularMatrix_eq (cx cy rx ry : F32) :
    circularMatrix (β := F64) cx cy rx ry =
      ⟨invR rx ry, F32.ofInt 0, -cx * invR rx ry, F32.ofInt 0, invR rx ry, -cy * invR rx ry⟩ := rfl

/-- **the range hypothesis on the radius vector** (a simple sufficient condition): finite components in
    `[−2^20, 2^20]`, length at least `2^-20` -/
structure RadOK (rx ry : F32) : Prop where
  frx : Fn rx
  fry : Fn ry
  brx : |val rx| ≤ 1048576
  bry : |val ry| ≤ 1048576
  sep : 1 / 1099511627776 ≤ val rx * val rx + val ry * val ry

theorem maxv64_ge : 9007199254740991 ≤ FloatErr64.maxv := by
  unfold FloatErr64.maxv
  have h1 : FloatOrder.pow2 0 ≤ FloatOrder.pow2 971 := FloatErr64.pow2_mono (by omega)
  rw [FloatOrder.pow2_zero] at h1
  linarith

/-- two-sided bound on a square from a two-sided bound on a positive number -/
theorem sq_between {lo hi t : ℚ} (hlo : 0 ≤ lo) (h1 : lo ≤ t) (h2 : t ≤ hi) :
    lo * lo ≤ t * t ∧ t * t ≤ hi * hi :=
  ⟨mul_self_le_mul_self hlo h1, mul_self_le_mul_self (le_trans hlo h1) h2⟩

/-- the arithmetic core of `invR_err`, over `ℚ` -/
theorem invR_core {R2 W S r ι : ℚ} (R2nn : 0 ≤ R2)
    (Wlo : (1 - 3 * u) * R2 ≤ W) (Whi : W ≤ (1 + 3 * u) * R2) (Spos : 0 < S)
    (Slo : (1 - u64) * (1 - u64) * W ≤ S * S) (Shi : S * S ≤ (1 + u64) * (1 + u64) * W)
    (rlo : (1 - u64) * (1 / S) ≤ r) (rhi : r ≤ (1 + u64) * (1 / S))
    (hι : |ι - r| ≤ u * r) :
    0 < ι ∧ |ι * ι * R2 - 1| ≤ 6 * u := by
  have hu : u = 1 / 16777216 := rfl
  have hc : u64 = 1 / 9007199254740992 := rfl
  have invpos : 0 < 1 / S := by positivity
  have rpos : 0 < r := lt_of_lt_of_le (mul_pos (by rw [hc]; norm_num) invpos) rlo
  obtain ⟨i1, i2⟩ := abs_le.1 hι
  have hSinv : 1 / S * S = 1 := by field_simp
  have Tlo : (1 - u) * (1 - u64) ≤ ι * S := by
    have h1 : (1 - u) * r ≤ ι := by linarith
    have h2 : (1 - u) * ((1 - u64) * (1 / S)) ≤ (1 - u) * r :=
      mul_le_mul_of_nonneg_left rlo (by rw [hu]; norm_num)
    have h3 : (1 - u) * ((1 - u64) * (1 / S)) * S ≤ ι * S :=
      mul_le_mul_of_nonneg_right (le_trans h2 h1) Spos.le
    have e : (1 - u) * ((1 - u64) * (1 / S)) * S = (1 - u) * (1 - u64) * (1 / S * S) := by ring
    rw [e, hSinv, mul_one] at h3
    exact h3
  have Thi : ι * S ≤ (1 + u) * (1 + u64) := by
    have h1 : ι ≤ (1 + u) * r := by linarith
    have h2 : (1 + u) * r ≤ (1 + u) * ((1 + u64) * (1 / S)) :=
      mul_le_mul_of_nonneg_left rhi (by rw [hu]; norm_num)
    have h3 : ι * S ≤ (1 + u) * ((1 + u64) * (1 / S)) * S :=
      mul_le_mul_of_nonneg_right (le_trans h1 h2) Spos.le
    have e : (1 + u) * ((1 + u64) * (1 / S)) * S = (1 + u) * (1 + u64) * (1 / S * S) := by ring
    rw [e, hSinv, mul_one] at h3
    exact h3
  have ιpos : 0 < ι := by
    have : 0 < (1 - u) * r := mul_pos (by rw [hu]; norm_num) rpos
    linarith
  obtain ⟨TTlo, TThi⟩ := sq_between (by rw [hu, hc]; norm_num) Tlo Thi
  have m1 := mul_le_mul_of_nonneg_right TTlo R2nn
  have m2 := mul_le_mul_of_nonneg_right TThi R2nn
  have SSpos : 0 < S * S := mul_pos Spos Spos
  have A1 : (1 - u64) * (1 - u64) * ((1 - 3 * u) * R2) ≤ S * S :=
    le_trans (mul_le_mul_of_nonneg_left Wlo (mul_self_nonneg _)) Slo
  have A2 : S * S ≤ (1 + u64) * (1 + u64) * ((1 + 3 * u) * R2) :=
    le_trans Shi (mul_le_mul_of_nonneg_left Whi (mul_self_nonneg _))
  refine ⟨ιpos, ?_⟩
  rw [abs_le]
  constructor
  · have key : (1 - 6 * u) * (S * S) ≤ ι * ι * R2 * (S * S) := by
      have e : ι * ι * R2 * (S * S) = ι * S * (ι * S) * R2 := by ring
      rw [e]
      rw [hu] at m1 A2 ⊢
      rw [hc] at m1 A2
      linarith
    have := le_of_mul_le_mul_right key SSpos
    linarith
  · have key : ι * ι * R2 * (S * S) ≤ (1 + 6 * u) * (S * S) := by
      have e : ι * ι * R2 * (S * S) = ι * S * (ι * S) * R2 := by ring
      rw [e]
      rw [hu] at m2 A1 ⊢
      rw [hc] at m2 A1
      linarith
    have := le_of_mul_le_mul_right key SSpos
    linarith

/-- the float64 reciprocal `fl64(one / s)` of a finite `s` with `2^-21 ≤ s ≤ 2^21` (`one` any float64 of value 1) -/
theorem recip64 (one s : F64) (f1 : FloatMono.Fin one) (v1 : FloatMono.val one = 1) (fs : FloatMono.Fin s)
    (Sge : 1 / 2097152 ≤ FloatMono.val s) (Sle : FloatMono.val s ≤ 2097152) :
    FloatMono.Fin (one / s) ∧
    |FloatMono.val (one / s) - 1 / FloatMono.val s| ≤ u64 * (1 / FloatMono.val s) := by
  have Spos : 0 < FloatMono.val s := lt_of_lt_of_le (by norm_num) Sge
  have invlo : 1 / 2097152 ≤ 1 / FloatMono.val s := by
    rw [div_le_div_iff₀ (by norm_num) Spos]; linarith
  have invhi : 1 / FloatMono.val s ≤ 2097152 := by
    rw [div_le_iff₀ Spos]; linarith
  have invpos : 0 < 1 / FloatMono.val s := by positivity
  have hmax := maxv64_ge
  obtain ⟨fr, hr⟩ := FloatErr64.div_err f1 fs (ne_of_gt Spos)
    (by rw [v1, abs_of_pos invpos]; linarith)
  rw [v1, abs_of_pos invpos] at hr
  have hmin : FloatErr64.minN ≤ 1 / 1125899906842624 := by
    unfold FloatErr64.minN; rw [← pow2_64_m50]; exact FloatErr64.pow2_mono (by omega)
  refine ⟨fr, ?_⟩
  rcases hr with hr | ⟨hr, _⟩
  · exact hr
  · exfalso; linarith

/-- narrowing a finite float64 `r` with `2^-30 ≤ r ≤ 2^30` to float32: one rounding, relative `u` -/
theorem narrow32 (r : F64) (fr : FloatMono.Fin r) (rlo : 1 / 1073741824 ≤ FloatMono.val r)
    (rhi : FloatMono.val r ≤ 1073741824) :
    Fn (F64.toF32 r) ∧ |val (F64.toF32 r) - FloatMono.val r| ≤ u * FloatMono.val r := by
  have rpos : 0 < FloatMono.val r := lt_of_lt_of_le (by norm_num) rlo
  have hRnd := FloatConv.toF32_Rnd r fr
  have hminN := Axis.minN_le_small
  have hovf : |FloatMono.val r| < ovf := by
    rw [abs_of_pos rpos]
    have := maxv_lt_ovf
    have := Axis.maxv_ge_big
    linarith
  have hnorm : pow2 (-126) ≤ |FloatMono.val r| := by
    rw [abs_of_pos rpos]
    change minN ≤ FloatMono.val r
    linarith
  obtain ⟨fι, hι⟩ := Rnd_rel_err _ _ hRnd hnorm hovf
  rw [pow2_m24, abs_of_pos rpos] at hι
  exact ⟨fι, hι⟩

/-- the float32 sum of squares `q = fl(fl(rx·rx) + fl(ry·ry))` of the radius vector: relative error `3u` -/
theorem rad_q {rx ry : F32} (h : RadOK rx ry) :
    Fn (rx * rx + ry * ry) ∧
    (1 - 3 * u) * (val rx * val rx + val ry * val ry) ≤ val (rx * rx + ry * ry) ∧
    val (rx * rx + ry * ry) ≤ (1 + 3 * u) * (val rx * val rx + val ry * val ry) ∧
    val rx * val rx + val ry * val ry ≤ 2199023255552 := by
  have hu : u = 1 / 16777216 := rfl
  obtain ⟨frx, fry, brx, bry, sep⟩ := h
  have nX := mul_self_nonneg (val rx)
  have nY := mul_self_nonneg (val ry)
  have bXX : val rx * val rx ≤ 1099511627776 := by have := abs_le.1 brx; nlinarith
  have bYY : val ry * val ry ≤ 1099511627776 := by have := abs_le.1 bry; nlinarith
  have ht := tiny_le
  have ht0 := tiny_pos
  have cP : |val rx * val rx| ≤ cap := by rw [abs_of_nonneg nX]; unfold cap; linarith
  have cQ : |val ry * val ry| ≤ cap := by rw [abs_of_nonneg nY]; unfold cap; linarith
  obtain ⟨fq, hq⟩ := dot2_add frx frx fry fry cP cQ
  rw [abs_of_nonneg nX, abs_of_nonneg nY] at hq
  obtain ⟨q1, q2⟩ := abs_le.1 hq
  refine ⟨fq, ?_, ?_, by linarith⟩
  · rw [hu] at q1 ht ⊢; linarith
  · rw [hu] at q2 ht ⊢; linarith

/-- from `q` to `ι = float32(fl64(1 / sqrt64(float64(q))))` -/
theorem invR_of_q (q : F32) (fq : Fn q) (R2 : ℚ) (sep : 1 / 1099511627776 ≤ R2) (R2hi : R2 ≤ 2199023255552)
    (Wlo : (1 - 3 * u) * R2 ≤ val q) (Whi : val q ≤ (1 + 3 * u) * R2) :
    Fn (F64.toF32 (F64.ofInt 1 / F64.sqrt (F64.ofF32 q))) ∧
    0 < val (F64.toF32 (F64.ofInt 1 / F64.sqrt (F64.ofF32 q))) ∧
    val (F64.toF32 (F64.ofInt 1 / F64.sqrt (F64.ofF32 q))) ≤ 4194304 ∧
    |val (F64.toF32 (F64.ofInt 1 / F64.sqrt (F64.ofF32 q))) *
      val (F64.toF32 (F64.ofInt 1 / F64.sqrt (F64.ofF32 q))) * R2 - 1| ≤ 6 * u := by
  have hu : u = 1 / 16777216 := rfl
  have hc : u64 = 1 / 9007199254740992 := rfl
  have R2nn : 0 ≤ R2 := by linarith
  -- widen
  obtain ⟨fw, vw⟩ := FloatConv.ofF32_exact q fq
  generalize F64.ofF32 q = w at fw vw ⊢
  -- sqrt
  have hwlo : 1 / 1267650600228229401496703205376 ≤ FloatMono.val w := by
    rw [vw]; rw [hu] at Wlo; linarith
  obtain ⟨fs, Spos, Slo, Shi⟩ := sqrt_err64 w fw hwlo
  rw [vw] at Slo Shi
  generalize F64.sqrt w = s at fs Spos Slo Shi ⊢
  generalize hSdef : FloatMono.val s = S at Spos Slo Shi
  have SSlo : 1 / 4398046511104 ≤ S * S := by
    rw [hc] at Slo; rw [hu] at Wlo; linarith
  have SShi : S * S ≤ 4398046511104 := by
    rw [hc] at Shi; rw [hu] at Whi; linarith
  have Sge : 1 / 2097152 ≤ S := by
    by_contra hcon
    have : S < 1 / 2097152 := not_le.1 hcon
    nlinarith
  have Sle : S ≤ 2097152 := by
    by_contra hcon
    have : 2097152 < S := not_le.1 hcon
    nlinarith
  -- 1 / s
  obtain ⟨f1, v1⟩ := FloatRound.ofInt_F64_exact 1 (by decide)
  have v1' : FloatMono.val (F64.ofInt 1) = 1 := by rw [v1]; norm_num
  generalize F64.ofInt 1 = one at f1 v1' ⊢
  obtain ⟨fr, hr⟩ := recip64 one s f1 v1' fs (by rw [hSdef]; exact Sge) (by rw [hSdef]; exact Sle)
  rw [hSdef] at hr
  generalize one / s = r at fr hr ⊢
  generalize hRdef : FloatMono.val r = R at hr
  obtain ⟨r1, r2⟩ := abs_le.1 hr
  have invlo : 1 / 2097152 ≤ 1 / S := by
    rw [div_le_div_iff₀ (by norm_num) Spos]; linarith
  have invhi : 1 / S ≤ 2097152 := by
    rw [div_le_iff₀ Spos]; linarith
  have rlo : (1 - u64) * (1 / S) ≤ R := by linarith
  have rhi : R ≤ (1 + u64) * (1 / S) := by linarith
  -- narrow
  obtain ⟨fι, hι⟩ := narrow32 r fr (by rw [hRdef]; rw [hc] at rlo; linarith)
    (by rw [hRdef]; rw [hc] at rhi; linarith)
  rw [hRdef] at hι
  obtain ⟨ιpos, herr⟩ := invR_core R2nn Wlo Whi Spos Slo Shi rlo rhi hι
  refine ⟨fι, ιpos, ?_, herr⟩
  have := (abs_le.1 hι).2
  rw [hu] at this; rw [hc] at rhi
  linarith

/-- **`invR_err`**: `ι = invR rx ry` is finite, positive, at most `2^22`, and `|ι²·(RX² + RY²) − 1| ≤ 6u`:
    two float32 roundings in `q` (relative `3u` with the absorbed underflow), the float64 root and quotient
    (`u64` each), the narrowing to float32 (`u`) -/
theorem invR_err {rx ry : F32} (h : RadOK rx ry) :
    Fn (invR rx ry) ∧ 0 < val (invR rx ry) ∧ val (invR rx ry) ≤ 4194304 ∧
    |val (invR rx ry) * val (invR rx ry) * (val rx * val rx + val ry * val ry) - 1| ≤ 6 * u := by
  obtain ⟨fq, Wlo, Whi, R2hi⟩ := rad_q h
  exact invR_of_q _ fq _ h.sep R2hi Wlo Whi

/-! ## the matrix -/

/-- **the range hypothesis** of the circular helper: centre in `[−2^20, 2^20]²`, radius vector `RadOK` -/
structure CircOK (cx cy rx ry : F32) : Prop where
  fcx : Fn cx
  fcy : Fn cy
  bcx : |val cx| ≤ 1048576
  bcy : |val cy| ≤ 1048576
  rad : RadOK rx ry

/-- **the condition number** of the circular helper: `1 + (|CX| + |CY|)/(|RX| + |RY|)` — the distance of the
    centre from the origin in units of the radius (1-norms) -/
def circK (cx cy rx ry : F32) : ℚ := 1 + (|val cx| + |val cy|) / (|val rx| + |val ry|)

variable {cx cy rx ry : F32}

theorem RadOK.n1_pos (h : RadOK rx ry) : 0 < |val rx| + |val ry| := by
  have := h.sep
  have h1 := abs_nonneg (val rx)
  have h2 := abs_nonneg (val ry)
  by_contra hc
  have h0 : |val rx| + |val ry| = 0 := le_antisymm (not_lt.1 hc) (by linarith)
  have e1 : |val rx| = 0 := by linarith
  have e2 : |val ry| = 0 := by linarith
  rw [abs_eq_zero] at e1 e2
  rw [e1, e2] at this
  norm_num at this

/-- `ι·(|RX| + |RY|) ≤ 3/2` (the 1-norm is at most `√2` times the radius) -/
theorem invR_n1 (h : RadOK rx ry) : val (invR rx ry) * (|val rx| + |val ry|) ≤ 3 / 2 := by
  have hu : u = 1 / 16777216 := rfl
  obtain ⟨_, ιpos, _, herr⟩ := invR_err h
  set ι := val (invR rx ry)
  obtain ⟨_, e2⟩ := abs_le.1 herr
  have hN := h.n1_pos
  have h1 : |val rx| * |val rx| = val rx * val rx := abs_mul_abs_self _
  have h2 : |val ry| * |val ry| = val ry * val ry := abs_mul_abs_self _
  have hsq : (|val rx| + |val ry|) * (|val rx| + |val ry|) ≤ 2 * (val rx * val rx + val ry * val ry) := by
    nlinarith [mul_self_nonneg (|val rx| - |val ry|)]
  by_contra hc
  have hc' : 3 / 2 < ι * (|val rx| + |val ry|) := not_le.1 hc
  have hsq2 : 3 / 2 * (3 / 2) < ι * (|val rx| + |val ry|) * (ι * (|val rx| + |val ry|)) :=
    mul_self_lt_mul_self (by norm_num) hc'
  have e : ι * (|val rx| + |val ry|) * (ι * (|val rx| + |val ry|)) =
      ι * ι * ((|val rx| + |val ry|) * (|val rx| + |val ry|)) := by ring
  rw [e] at hsq2
  have h3 : ι * ι * ((|val rx| + |val ry|) * (|val rx| + |val ry|)) ≤
      ι * ι * (2 * (val rx * val rx + val ry * val ry)) :=
    mul_le_mul_of_nonneg_left hsq (mul_self_nonneg _)
  rw [hu] at e2
  linarith

/-- the images of the centre: each coordinate within `E = (3/2)·u·(|CX| + |CY|)/(|RX| + |RY|) + 2·2^-150` of 0
    (jointly: `|gx| + |gy| ≤ E`) -/
theorem circ_centre (h : CircOK cx cy rx ry) :
    let M := circularMatrix (β := F64) cx cy rx ry
    (Fn M.a0 ∧ Fn M.a2 ∧ Fn M.a4 ∧ Fn M.a5) ∧ val M.a1 = 0 ∧ val M.a3 = 0 ∧
    |off M (val cx) (val cy)| + |off2 M (val cx) (val cy)| ≤
      3 / 2 * u * ((|val cx| + |val cy|) / (|val rx| + |val ry|)) + 2 * tiny := by
  intro M
  obtain ⟨fcx, fcy, bcx, bcy, rad⟩ := h
  obtain ⟨fι, ιpos, ιle, _⟩ := invR_err rad
  have hn1 := invR_n1 rad
  have hN := rad.n1_pos
  obtain ⟨z0, z1⟩ := zero_val
  obtain ⟨fnx, vnx⟩ := neg_val fcx
  obtain ⟨fny, vny⟩ := neg_val fcy
  set ι := val (invR rx ry) with hι
  have bx : |val (-cx) * ι| ≤ 1048576 * 4194304 := by
    rw [vnx, abs_mul, abs_neg, abs_of_pos ιpos]
    exact mul_le_mul bcx ιle ιpos.le (by norm_num)
  have by' : |val (-cy) * ι| ≤ 1048576 * 4194304 := by
    rw [vny, abs_mul, abs_neg, abs_of_pos ιpos]
    exact mul_le_mul bcy ιle ιpos.le (by norm_num)
  obtain ⟨f2, h2⟩ := mul_mix fnx fι (le_maxv (by rw [← hι]; linarith))
  obtain ⟨f5, h5⟩ := mul_mix fny fι (le_maxv (by rw [← hι]; linarith))
  rw [← hι, vnx] at h2
  rw [← hι, vny] at h5
  refine ⟨⟨fι, f2, fι, f5⟩, z1, z1, ?_⟩
  have e1 : off M (val cx) (val cy) = val (-cx * invR rx ry) - -val cx * ι := by
    show ι * val cx + val (F32.ofInt 0) * val cy + val (-cx * invR rx ry) = _
    rw [z1]; ring
  have e2 : off2 M (val cx) (val cy) = val (-cy * invR rx ry) - -val cy * ι := by
    show val (F32.ofInt 0) * val cx + ι * val cy + val (-cy * invR rx ry) = _
    rw [z1]; ring
  rw [e1, e2]
  -- |CX·ι| ≤ (3/2)|CX|/N1
  have hιN : ι ≤ 3 / 2 / (|val rx| + |val ry|) := by rw [le_div_iff₀ hN]; exact hn1
  have k1 : |-val cx * ι| ≤ |val cx| * (3 / 2 / (|val rx| + |val ry|)) := by
    rw [abs_mul, abs_neg, abs_of_pos ιpos]
    exact mul_le_mul_of_nonneg_left hιN (abs_nonneg _)
  have k2 : |-val cy * ι| ≤ |val cy| * (3 / 2 / (|val rx| + |val ry|)) := by
    rw [abs_mul, abs_neg, abs_of_pos ιpos]
    exact mul_le_mul_of_nonneg_left hιN (abs_nonneg _)
  have e3 : 3 / 2 * u * ((|val cx| + |val cy|) / (|val rx| + |val ry|)) =
      u * (|val cx| * (3 / 2 / (|val rx| + |val ry|))) + u * (|val cy| * (3 / 2 / (|val rx| + |val ry|))) := by
    ring
  rw [e3]
  have m1 := mul_le_mul_of_nonneg_left k1 u_pos.le
  have m2 := mul_le_mul_of_nonneg_left k2 u_pos.le
  linarith

theorem circK_ge_one (h : RadOK rx ry) : 1 ≤ circK cx cy rx ry := by
  unfold circK
  have := div_nonneg (add_nonneg (abs_nonneg (val cx)) (abs_nonneg (val cy))) h.n1_pos.le
  linarith

/-- **`circularMatrix_f32`** — C19 "circular has 0 at the centre and 1 on the circle through centre plus radius
    vector", at float32.  With `M` the matrix `SetCircularGradient` computes (float32, the reciprocal root in
    float64), `(gx, gy) = (off M p, off2 M p)` the image of a viewBox point evaluated exactly from the float
    entries — the radial offset is the distance `√(gx² + gy²)` of the image from the origin — and
    `K = circK = 1 + (|CX| + |CY|)/(|RX| + |RY|)`:

    * centre: `|gx| ≤ 2u·K`, `|gy| ≤ 2u·K`, `gx² + gy² ≤ (2u·K)²` (offset at most `2u·K`);
    * centre + radius vector (the exact sum of the float inputs): `|gx² + gy² − 1| ≤ 12u·K + 4(u·K)²`; the
      offset `ρ ≥ 0`, `ρ² = gx² + gy²`, is at least as close to 1. -/
theorem circularMatrix_f32 (h : CircOK cx cy rx ry) :
    let M := circularMatrix (β := F64) cx cy rx ry
    let K := circK cx cy rx ry
    (Fn M.a0 ∧ Fn M.a2 ∧ Fn M.a4 ∧ Fn M.a5 ∧ val M.a1 = 0 ∧ val M.a3 = 0) ∧
    (|off M (val cx) (val cy)| ≤ 2 * u * K ∧ |off2 M (val cx) (val cy)| ≤ 2 * u * K ∧
      off M (val cx) (val cy) * off M (val cx) (val cy) + off2 M (val cx) (val cy) * off2 M (val cx) (val cy) ≤
        (2 * u * K) * (2 * u * K)) ∧
    |off M (val cx + val rx) (val cy + val ry) * off M (val cx + val rx) (val cy + val ry) +
      off2 M (val cx + val rx) (val cy + val ry) * off2 M (val cx + val rx) (val cy + val ry) - 1| ≤
        12 * u * K + 4 * (u * K) * (u * K) ∧
    (∀ ρ : ℚ, 0 ≤ ρ →
      ρ * ρ = off M (val cx + val rx) (val cy + val ry) * off M (val cx + val rx) (val cy + val ry) +
        off2 M (val cx + val rx) (val cy + val ry) * off2 M (val cx + val rx) (val cy + val ry) →
      |ρ - 1| ≤ 12 * u * K + 4 * (u * K) * (u * K)) := by
  have hu : u = 1 / 16777216 := rfl
  intro M K
  obtain ⟨⟨g0, g2, g4, g5⟩, z1, z3, hc⟩ := circ_centre h
  obtain ⟨fι, ιpos, ιle, herr⟩ := invR_err h.rad
  have hn1 := invR_n1 h.rad
  have hK1 : 1 ≤ K := circK_ge_one h.rad
  have ht := tiny_le
  have ht0 := tiny_pos
  set gx := off M (val cx) (val cy) with hgx
  set gy := off2 M (val cx) (val cy) with hgy
  set ι := val (invR rx ry) with hι
  have hE : |gx| + |gy| ≤ 2 * u * K := by
    refine le_trans hc ?_
    show _ ≤ 2 * u * (1 + (|val cx| + |val cy|) / (|val rx| + |val ry|))
    have := div_nonneg (add_nonneg (abs_nonneg (val cx)) (abs_nonneg (val cy))) h.rad.n1_pos.le
    rw [hu] at ht ⊢
    linarith
  have ax := abs_nonneg gx
  have ay := abs_nonneg gy
  have hE0 : 0 ≤ 2 * u * K := by linarith
  have hsq : gx * gx + gy * gy ≤ (2 * u * K) * (2 * u * K) := by
    have h1 : gx * gx = |gx| * |gx| := (abs_mul_abs_self gx).symm
    have h2 : gy * gy = |gy| * |gy| := (abs_mul_abs_self gy).symm
    have h3 : (|gx| + |gy|) * (|gx| + |gy|) ≤ (2 * u * K) * (2 * u * K) :=
      mul_self_le_mul_self (by linarith) hE
    nlinarith [mul_nonneg ax ay]
  -- the radius point
  have ex : off M (val cx + val rx) (val cy + val ry) = ι * val rx + gx := by
    show val M.a0 * (val cx + val rx) + val M.a1 * (val cy + val ry) + val M.a2 = _
    rw [hgx]; unfold off; rw [z1]
    show ι * (val cx + val rx) + 0 * (val cy + val ry) + val M.a2 = ι * val rx + (ι * val cx + 0 * val cy + val M.a2)
    ring
  have ey : off2 M (val cx + val rx) (val cy + val ry) = ι * val ry + gy := by
    show val M.a3 * (val cx + val rx) + val M.a4 * (val cy + val ry) + val M.a5 = _
    rw [hgy]; unfold off2; rw [z3]
    show 0 * (val cx + val rx) + ι * (val cy + val ry) + val M.a5 = ι * val ry + (0 * val cx + ι * val cy + val M.a5)
    ring
  have hmain : |off M (val cx + val rx) (val cy + val ry) * off M (val cx + val rx) (val cy + val ry) +
      off2 M (val cx + val rx) (val cy + val ry) * off2 M (val cx + val rx) (val cy + val ry) - 1| ≤
        12 * u * K + 4 * (u * K) * (u * K) := by
    rw [ex, ey]
    have e : (ι * val rx + gx) * (ι * val rx + gx) + (ι * val ry + gy) * (ι * val ry + gy) - 1 =
        (ι * ι * (val rx * val rx + val ry * val ry) - 1) + 2 * (ι * (val rx * gx + val ry * gy)) +
          (gx * gx + gy * gy) := by ring
    rw [e]
    have t1 := abs_add_le ((ι * ι * (val rx * val rx + val ry * val ry) - 1) + 2 * (ι * (val rx * gx + val ry * gy)))
      (gx * gx + gy * gy)
    have t2 := abs_add_le (ι * ι * (val rx * val rx + val ry * val ry) - 1) (2 * (ι * (val rx * gx + val ry * gy)))
    have t3 : |gx * gx + gy * gy| = gx * gx + gy * gy :=
      abs_of_nonneg (add_nonneg (mul_self_nonneg _) (mul_self_nonneg _))
    -- the cross term
    have c1 : |val rx * gx + val ry * gy| ≤ (|val rx| + |val ry|) * (|gx| + |gy|) := by
      have := abs_add_le (val rx * gx) (val ry * gy)
      rw [abs_mul, abs_mul] at this
      have p1 := mul_nonneg (abs_nonneg (val rx)) ay
      have p2 := mul_nonneg (abs_nonneg (val ry)) ax
      nlinarith
    have c2 : |2 * (ι * (val rx * gx + val ry * gy))| ≤ 3 * (2 * u * K) := by
      rw [abs_mul, abs_mul, abs_of_pos ιpos, show |(2:ℚ)| = 2 by norm_num]
      have s1 : ι * |val rx * gx + val ry * gy| ≤ ι * ((|val rx| + |val ry|) * (|gx| + |gy|)) :=
        mul_le_mul_of_nonneg_left c1 ιpos.le
      have s2 : ι * ((|val rx| + |val ry|) * (|gx| + |gy|)) = ι * (|val rx| + |val ry|) * (|gx| + |gy|) := by ring
      have s3 : ι * (|val rx| + |val ry|) * (|gx| + |gy|) ≤ 3 / 2 * (2 * u * K) :=
        mul_le_mul hn1 hE (by linarith) (by norm_num)
      linarith
    have e4 : 4 * (u * K) * (u * K) = (2 * u * K) * (2 * u * K) := by ring
    rw [e4]
    rw [hu] at herr hsq c2 ⊢
    linarith
  refine ⟨⟨g0, g2, g4, g5, z1, z3⟩, ⟨by linarith, by linarith, hsq⟩, hmain, ?_⟩
  intro ρ hρ hρ2
  rw [← hρ2] at hmain
  -- |ρ − 1| ≤ |ρ² − 1| for ρ ≥ 0
  have e : ρ * ρ - 1 = (ρ - 1) * (ρ + 1) := by ring
  rw [e, abs_mul, abs_of_pos (by linarith : 0 < ρ + 1)] at hmain
  have h0 := abs_nonneg (ρ - 1)
  nlinarith

end Ivg.Gen32
