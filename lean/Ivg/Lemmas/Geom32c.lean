import Ivg.Lemmas.Geom32b
/-!
# C05 at `F32`, continued: runs of relative operations (additive accumulation), concrete instances

A relative operation maps `pen ↦ fl(pen + fl(scale·x))`: against the exact `pen + s·x` (with the float pen
it started from) the error is at most `u·|pen| + g4·|s·x| + 2u·2^-126` (`Axis.relVec_err`).  Along a run of
`n` relative operations these one-step errors ADD: `rel_run_err`.  `run_l_pen` ties the fold `relRun` to the
Renderer model for a run of relative `LineTo`s.
-/
set_option linter.constructorNameAsVariable false
namespace Ivg.Geom32
open Ivg Num Ren FloatOrder32 FloatMono32 FloatErr

namespace Axis

/-- the float pen after a run of relative offsets -/
def relRun (a : Axis) : F32 → List F32 → F32
  | pen, [] => pen
  | pen, x :: xs => relRun a (a.relVec pen x) xs

/-- every step of the run is in range, every pen it starts from and every exact offset `s·x` is at most `B`
    in magnitude -/
def RunOK (a : Axis) (B : ℚ) : F32 → List F32 → Prop
  | _, [] => True
  | pen, x :: xs => a.OffOK pen x ∧ |val pen| ≤ B ∧ |a.s * val x| ≤ B ∧ RunOK a B (a.relVec pen x) xs

/-- **errors accumulate additively along a run of relative operations**: after `n` relative steps whose pens
    and exact offsets are bounded by `B`, the float pen is within `n·((u + g4)·B + 2u·2^-126)` — at most
    `n·(6u·B + 2^-149)` — of `pen₀ + s·Σxᵢ` -/
theorem rel_run_err {a : Axis} (h : a.InRange) (B : ℚ) (xs : List F32) : ∀ (pen : F32), a.RunOK B pen xs →
    |val (a.relRun pen xs) - (val pen + a.s * (xs.map val).sum)| ≤
      (xs.length : ℚ) * ((u + g4) * B + 2 * u * minN) := by
  induction xs with
  | nil => intro pen _; simp [relRun]
  | cons x xs ih =>
    intro pen hok
    obtain ⟨h1, h2, h3, h4⟩ := hok
    have ih' := ih _ h4
    obtain ⟨_, hs⟩ := relVec_err h h1
    have hB1 := mul_le_mul_of_nonneg_left h2 u_pos.le
    have hB2 := mul_le_mul_of_nonneg_left h3 g4_pos.le
    have hsplit := abs_sub_le (val (a.relRun (a.relVec pen x) xs))
      (val (a.relVec pen x) + a.s * (xs.map val).sum) (val pen + a.s * ((x :: xs).map val).sum)
    have e : val (a.relVec pen x) + a.s * (xs.map val).sum - (val pen + a.s * ((x :: xs).map val).sum) =
        val (a.relVec pen x) - (val pen + a.s * val x) := by
      simp only [List.map_cons, List.sum_cons]; ring
    rw [e] at hsplit
    show |val (a.relRun (a.relVec pen x) xs) - _| ≤ _
    simp only [List.length_cons, Nat.cast_add, Nat.cast_one]
    linarith

theorem six_u : u + g4 ≤ 6 * u := by unfold g4 u; norm_num

end Axis

/-! ## the Renderer model: a run of relative `LineTo`s -/

theorem step_l (arc : ArcFn F32 F64) (posInf : F32) (z : Renderer F32 F64) (hen : z.disabled = false)
    (x y : F32) : z.step arc posInf (.d2 .l x y) =
    ({ z with prevSmoothType := 0, penX := z.relVecX x, penY := z.relVecY y },
     [.lineTo (z.relVecX x) (z.relVecY y)]) := by
  simp only [Renderer.step, if_neg (not_dis z hen)]; rfl

/-- the pen after a run of relative `LineTo`s is the fold `relRun` on each axis -/
theorem run_l_pen (arc : ArcFn F32 F64) (posInf : F32) {ax ay : Axis} (pts : List (F32 × F32)) :
    ∀ (z : Renderer F32 F64), Tr z ax ay → z.disabled = false →
    ((z.run arc posInf (pts.map fun p => .d2 .l p.1 p.2)).1.penX = ax.relRun z.penX (pts.map Prod.fst)) ∧
    ((z.run arc posInf (pts.map fun p => .d2 .l p.1 p.2)).1.penY = ay.relRun z.penY (pts.map Prod.snd)) := by
  induction pts with
  | nil => intro z _ _; exact ⟨rfl, rfl⟩
  | cons p ps ih =>
    intro z ht hen
    simp only [List.map_cons]
    rw [Ivg.Lemmas.RendererVM.run_cons, step_l arc posInf z hen]
    have := ih { z with prevSmoothType := 0, penX := z.relVecX p.1, penY := z.relVecY p.2 } ht hen
    simp only [Axis.relRun]
    rw [← relVecX_eq ht, ← relVecY_eq ht]
    exact this

/-- **`n` relative `LineTo`s**: the final pen is within `n·((u + g4)·B + 2u·2^-126)` of
    `pen₀ + s·Σ(offsets)` on each axis -/
theorem run_l_err (arc : ArcFn F32 F64) (posInf : F32) {ax ay : Axis} (hax : ax.InRange) (hay : ay.InRange)
    (z : Renderer F32 F64) (ht : Tr z ax ay) (hen : z.disabled = false) (pts : List (F32 × F32)) (B : ℚ)
    (hx : ax.RunOK B z.penX (pts.map Prod.fst)) (hy : ay.RunOK B z.penY (pts.map Prod.snd)) :
    |val (z.run arc posInf (pts.map fun p => .d2 .l p.1 p.2)).1.penX -
        (val z.penX + ax.s * ((pts.map Prod.fst).map val).sum)| ≤
      (pts.length : ℚ) * ((u + g4) * B + 2 * u * minN) ∧
    |val (z.run arc posInf (pts.map fun p => .d2 .l p.1 p.2)).1.penY -
        (val z.penY + ay.s * ((pts.map Prod.snd).map val).sum)| ≤
      (pts.length : ℚ) * ((u + g4) * B + 2 * u * minN) := by
  obtain ⟨e1, e2⟩ := run_l_pen arc posInf (ax := ax) (ay := ay) pts z ht hen
  rw [e1, e2]
  have l1 : pts.length = (pts.map Prod.fst).length := by simp
  have l2 : pts.length = (pts.map Prod.snd).length := by simp
  constructor
  · rw [l1]; exact Axis.rel_run_err hax B _ _ hx
  · rw [l2]; exact Axis.rel_run_err hay B _ _ hy

/-! ## concrete instances (non-vacuity of the hypotheses; the bounds on concrete bit patterns) -/
namespace Ex
open Ivg.Lemmas.RendererVM.Ex (posInf n)

theorem n_val (i : Int) (h : i.natAbs < 16777216) : Fn (n i) ∧ val (n i) = (i : ℚ) :=
  FloatRound32.ofInt_F32_exact i h

/-- a viewBox `[0, 3]` mapped onto 100 pixels: the exact scale `100/3` is not a float -/
def ax3 : Axis := ⟨n 0, n 3, 100⟩

theorem ax3_simple : ax3.Simple := by
  obtain ⟨f0, v0⟩ := n_val 0 (by decide)
  obtain ⟨f3, v3⟩ := n_val 3 (by decide)
  refine ⟨f0, f3, ?_, ?_, ?_, by decide, by decide⟩
  · show |val (n 0)| ≤ _; rw [v0]; norm_num
  · show |val (n 3)| ≤ _; rw [v3]; norm_num
  · show _ ≤ val (n 3) - val (n 0); rw [v0, v3]; norm_num

theorem ax3_inRange : ax3.InRange := ax3_simple.inRange

theorem ax3_s : ax3.s = 100 / 3 := by
  obtain ⟨_, v0⟩ := n_val 0 (by decide)
  obtain ⟨_, v3⟩ := n_val 3 (by decide)
  show ((100 : Int) : ℚ) / (val (n 3) - val (n 0)) = _
  rw [v0, v3]; norm_num

/-- the extent of `ax3` is the float 3 -/
theorem ext_float : Fn (n 3) ∧ val (n 3) = val ax3.hi - val ax3.lo := by
  obtain ⟨f3, _⟩ := n_val 3 (by decide)
  obtain ⟨_, v0⟩ := n_val 0 (by decide)
  refine ⟨f3, ?_⟩
  show _ = val (n 3) - val (n 0)
  rw [v0]; norm_num

/-- the float32 nearest to 0.1 -/
def x01 : F32 := ⟨0x3dcccccd⟩

theorem bits_val (b : F32) (s : Bool) (m : Nat) (e : Int) (h1 : negB32 b.nb = s) (h2 : mantB b.nb = m)
    (h3 : expB b.nb = e) : val b = (if s then -1 else 1) * ((m : ℚ) * pow2 e) := by
  unfold val bval sval; rw [h1, h2, h3]

theorem x01_val : Fn x01 ∧ val x01 = 13421773 / 134217728 := by
  refine ⟨by decide, ?_⟩
  rw [bits_val x01 false 13421773 (-27) (by decide) (by decide) (by decide)]
  unfold pow2; norm_num

theorem x01_ok : ax3.CoordOK x01 :=
  ax3_simple.coordOK x01_val.1 (by rw [x01_val.2]; norm_num)

/-- the computed scale and the computed image of 0.1, bit for bit -/
theorem ax3_bits : ax3.scale = ⟨0x42055555⟩ ∧ ax3.abs x01 = ⟨0x40555555⟩ := by decide +kernel

/-- … the scale is `33.33333206…`, within `4·10^-8 ≈ 0.64u` (relative) of `100/3`; the image is
    `3.33333325…` against the exact `100/3 · 0.1f = 3.33333338…`: a relative error of `3.9·10^-8 ≈ 0.65u`,
    well inside `g2 ≈ 2u` and `g4 ≈ 4u` -/
theorem ax3_values : val ax3.scale = 8738133 / 262144 ∧ val (ax3.abs x01) = 13981013 / 4194304 ∧
    ax3.map (val x01) = 335544325 / 100663296 := by
  rw [ax3_bits.1, ax3_bits.2]
  refine ⟨?_, ?_, ?_⟩
  · rw [bits_val ⟨0x42055555⟩ false 8738133 (-18) (by decide) (by decide) (by decide)]
    unfold pow2; norm_num
  · rw [bits_val ⟨0x40555555⟩ false 13981013 (-22) (by decide) (by decide) (by decide)]
    unfold pow2; norm_num
  · obtain ⟨_, v0⟩ := n_val 0 (by decide)
    show ax3.s * (val x01 - val (n 0)) = _
    rw [ax3_s, x01_val.2, v0]; norm_num

/-- the instance of `abs_err` at these bit patterns, and what it is an instance of -/
example : |val (ax3.abs x01) - ax3.map (val x01)| = 13 / 100663296 ∧
    (13 / 100663296 : ℚ) ≤ g4 * |ax3.map (val x01)| := by
  obtain ⟨_, h2, h3⟩ := ax3_values
  rw [h2, h3]
  constructor
  · norm_num [abs_of_neg]
  · unfold g4 u; norm_num [abs_of_pos]
example : Fn (ax3.abs x01) ∧ |val (ax3.abs x01) - ax3.map (val x01)| ≤ g4 * |ax3.map (val x01)| + u * minN :=
  Axis.abs_err ax3_inRange x01_ok

/-- an offset in range: from the pen `T(0.1)` by `0.1` -/
theorem off_ok : ax3.OffOK (ax3.abs x01) x01 := by
  have hv := ax3_values.2.1
  exact ax3_simple.offOK (Axis.abs_err ax3_inRange x01_ok).1 x01_val.1 (by rw [hv]; norm_num)
    (by rw [x01_val.2]; norm_num)

example : Fn (ax3.relVec (ax3.abs x01) x01) ∧
    |val (ax3.relVec (ax3.abs x01) x01) - (val (ax3.abs x01) + ax3.s * val x01)| ≤
      u * |val (ax3.abs x01)| + g4 * |ax3.s * val x01| + 2 * u * minN :=
  Axis.relVec_err ax3_inRange off_ok

/-- the reflection of `prev = 0.1` about `pen = T(0.1)` -/
example : Fn (Axis.smooth (ax3.abs x01) x01) ∧
    |val (Axis.smooth (ax3.abs x01) x01) - (2 * val (ax3.abs x01) - val x01)| ≤
      u * |2 * val (ax3.abs x01) - val x01| := by
  have hv := ax3_values.2.1
  have hM := Axis.maxv_ge_big
  refine Axis.smooth_err (Axis.abs_err ax3_inRange x01_ok).1 x01_val.1 ?_ ?_
  · rw [hv]; norm_num [abs_of_pos]; linarith
  · rw [hv, x01_val.2]; norm_num [abs_of_pos]; linarith

/-- the magnitudes are in the normal range -/
theorem mag_ok : minN ≤ |ax3.s| * (|val x01| + |val ax3.lo|) ∧
    minN ≤ |val (ax3.abs x01)| + |ax3.s| * |val x01| := by
  obtain ⟨_, v0⟩ := n_val 0 (by decide)
  have hm := Axis.minN_le_small
  have e : val ax3.lo = 0 := by show val (n 0) = 0; rw [v0]; norm_num
  rw [e, ax3_s, x01_val.2, ax3_values.2.1]
  constructor
  · have : (1 / 4398046511104 : ℚ) ≤ |(100 / 3 : ℚ)| * (|(13421773 / 134217728 : ℚ)| + |(0 : ℚ)|) := by
      norm_num [abs_of_pos]
    linarith
  · have : (1 / 4398046511104 : ℚ) ≤ |(13981013 / 4194304 : ℚ)| + |(100 / 3 : ℚ)| * |(13421773 / 134217728 : ℚ)| := by
      norm_num [abs_of_pos]
    linarith

/-- the reflection of `prev = 0.1` about `pen = T(0.1)` does not overflow -/
theorem smooth_ok : Fn (ax3.abs x01) ∧ Fn x01 ∧ |2 * val (ax3.abs x01)| ≤ maxv ∧
    |2 * val (ax3.abs x01) - val x01| ≤ maxv := by
  have hv := ax3_values.2.1
  have hM := Axis.maxv_ge_big
  refine ⟨(Axis.abs_err ax3_inRange x01_ok).1, x01_val.1, ?_, ?_⟩
  · rw [hv]; norm_num [abs_of_pos]; linarith
  · rw [hv, x01_val.2]; norm_num [abs_of_pos]; linarith

/-- a one-step run within `B = 4` -/
theorem run_ok : ax3.RunOK 4 (ax3.abs x01) [x01] := by
  refine ⟨off_ok, ?_, ?_, trivial⟩
  · rw [ax3_values.2.1]; norm_num [abs_of_pos]
  · rw [ax3_s, x01_val.2]; norm_num [abs_of_pos]

/-! a renderer and a path for `path_abs_err` -/

/-- a fresh Renderer pointed at a 48×48 rectangle, after `Reset` with the viewBox `[0,3] × [0,3]` -/
def z48 : Renderer F32 F64 :=
  ((Renderer.zero (α := F32) (β := F64)).setRasterizer ⟨0, 0, 48, 48⟩).reset posInf ⟨n 0, n 0, n 3, n 3⟩ defaultPalette

def ax48 : Axis := ⟨n 0, n 3, 48⟩

theorem z48_tr : Tr z48 ax48 ax48 := ⟨rfl, rfl, rfl, rfl⟩
theorem z48_axes : axX z48 = ax48 ∧ axY z48 = ax48 := ⟨rfl, rfl⟩

theorem ax48_simple : ax48.Simple := by
  obtain ⟨f0, v0⟩ := n_val 0 (by decide)
  obtain ⟨f3, v3⟩ := n_val 3 (by decide)
  refine ⟨f0, f3, ?_, ?_, ?_, by decide, by decide⟩
  · show |val (n 0)| ≤ _; rw [v0]; norm_num
  · show |val (n 3)| ≤ _; rw [v3]; norm_num
  · show _ ≤ val (n 3) - val (n 0); rw [v0, v3]; norm_num

theorem coord_n {a : Axis} (h : a.Simple) (i : Int) (hi : i.natAbs ≤ 1048576) : a.CoordOK (n i) := by
  obtain ⟨f, v⟩ := n_val i (by omega)
  refine h.coordOK f ?_
  rw [v]
  have : |(i : ℚ)| = ((i.natAbs : Nat) : ℚ) := by
    rw [Nat.cast_natAbs, Int.cast_abs]
  rw [this]; exact_mod_cast hi

theorem coord_x01 {a : Axis} (h : a.Simple) : a.CoordOK x01 :=
  h.coordOK x01_val.1 (by rw [x01_val.2]; norm_num)

/-- an absolute-only body: `L`, `H`, `V`, `Q`, close-and-move `Y`, `C` -/
def body : List (Call F32) :=
  [.d2 .L (n 1) x01, .d1 .H (n 2), .d1 .V x01, .d4 .Q (n 3) (n 1) x01 (n 2), .d2 .Y (n 1) (n 1),
   .d6 .C x01 (n 0) (n 2) (n 2) (n 3) x01]

theorem body_ok : ∀ c ∈ body, AbsOK ax48 ax48 c := by
  have hs := ax48_simple
  have c0 := coord_n hs 0 (by decide)
  have c1 := coord_n hs 1 (by decide)
  have c2 := coord_n hs 2 (by decide)
  have c3 := coord_n hs 3 (by decide)
  have cx := coord_x01 hs
  intro c hc
  simp only [body, List.mem_cons, List.not_mem_nil, or_false] at hc
  rcases hc with rfl | rfl | rfl | rfl | rfl | rfl
  · exact ⟨c1, cx⟩
  · exact c2
  · exact cx
  · exact ⟨⟨c3, c1⟩, cx, c2⟩
  · exact ⟨c1, c1⟩
  · exact ⟨⟨cx, c0⟩, ⟨c2, c2⟩, c3, cx⟩

set_option maxRecDepth 100000 in
theorem z48_enabled : (z48.startPath 0 x01 (n 1)).1.disabled = false := by decide +kernel

/-- `path_abs_err` applies to this path -/
example (arc : ArcFn F32 F64) : ∃ ops, (z48.run arc posInf (.startPath 0 x01 (n 1) :: body ++ [.closeEnd])).2 =
      .reset z48.r.dx z48.r.dy :: ops ++ [.draw z48.r (z48.startPath 0 x01 (n 1)).1.fill] ∧
    List.Forall₂ (OpNear ax48 ax48) ops (Spec.Path.pathSegs (val x01) (val (n 1)) (body.map callQ)) :=
  path_abs_err arc posInf ax48_simple.inRange ax48_simple.inRange z48 z48_tr 0 x01 (n 1) body
    (coord_x01 ax48_simple) (coord_n ax48_simple 1 (by decide)) body_ok z48_enabled

end Ex

end Ivg.Geom32
