import Ivg.Lemmas.Grad64b
/-!
# The gradient paint at float64, strictly inside a range: error of `t` and of the interpolated channel

For the selected range `r` (`RangeOK r`: offsets finite, `0 ≤ off0 < off1 ≤ 1`, `width = fl(off1 − off0)`) and a
float offset `off0 ≤ x ≤ off1`, `Gradient.at` computes

    t = fl(fl(x − off0) / width)      (`Grad64.tOf r x`)
    s = fl(1 − t)                     (`Grad64.sOf r x`)
    channel = uint16(fl(fl(s·c0) + fl(t·c1)))   (`Grad64.lerpF s t c0 c1`, `Grad.lerpChan`).

With `u = 2^-53`, `T = (x − off0)/(off1 − off0)` (exact) and `C = (1 − T)·c0 + T·c1` (exact):

* `t_err`     : `|val t − T| ≤ 3u(1 + u)`  — UNIFORM in the width, however small (a difference of two floats is a
                point of the grid `2^-1074·ℤ`, so the two subtractions carry a RELATIVE error `≤ u` without any
                exception for underflow, and relative errors of numerator and denominator pass through the
                quotient; the quotient is `≤ 1`, so its own rounding error is `≤ u`, also when it underflows);
  `t_err_T`   : the refined `|val t − T| ≤ u + (2u + 3u²)·T`;
* `lerp_err`  : `|val (lerpF s t c0 c1) − ((1 − T')·c0 + T'·c1)| ≤ (3u + 4u²)·M + |val t − T'|·|c1 − c0|` for ANY
                finite `t ∈ [0,1]`, `s = fl(1 − t)`, any rational `T'`, `c0, c1 ≤ M ≤ 65535`
                (products of a float and an integer are grid points too: no underflow exception);
* `chan_err`  : both together, `|val (lerpF s t c0 c1) − C| ≤ epsChan c0 c1`,
                `epsChan c0 c1 = (3u + 4u²)·max c0 c1 + (3u + 3u²)·|c1 − c0| ≤ 7·u·65535 < 2^-34`.
-/
namespace Ivg.Grad64
open Ivg Num Grad FloatOrder FloatMono FloatRound FloatErr64

/-! ## rational arithmetic -/

/-- relative errors `μ` of numerator and denominator give `(1 − μ)·|n/w − N/W| ≤ 2μ·N/W` -/
theorem quot_arith (μ N W n w : ℚ) (hμ1 : μ < 1) (hN : 0 ≤ N) (hW : 0 < W)
    (hn : |n - N| ≤ μ * N) (hw : |w - W| ≤ μ * W) :
    (1 - μ) * |n / w - N / W| ≤ 2 * μ * (N / W) := by
  have hn' := abs_le.1 hn
  have hw' := abs_le.1 hw
  have wlo : (1 - μ) * W ≤ w := by linarith [hw'.1]
  have wpos : 0 < w := lt_of_lt_of_le (mul_pos (by linarith) hW) wlo
  have key : (n / w - N / W) * (w * W) = (n - N) * W - N * (w - W) := by
    field_simp; ring
  have a1 : |(n - N) * W| ≤ μ * N * W := by
    rw [abs_mul, abs_of_pos hW]; exact mul_le_mul_of_nonneg_right hn hW.le
  have a2 : |N * (w - W)| ≤ N * (μ * W) := by
    rw [abs_mul, abs_of_nonneg hN]; exact mul_le_mul_of_nonneg_left hw hN
  have hb : |(n / w - N / W) * (w * W)| ≤ 2 * μ * N * W := by
    rw [key]
    have b1 := abs_le.1 a1
    have b2 := abs_le.1 a2
    exact abs_le.2 ⟨by linarith [b1.1, b2.2], by linarith [b1.2, b2.1]⟩
  rw [abs_mul, abs_of_pos (mul_pos wpos hW)] at hb
  have hd0 : 0 ≤ |n / w - N / W| := abs_nonneg _
  have h1 : |n / w - N / W| * w ≤ 2 * μ * N := by
    apply le_of_mul_le_mul_right _ hW
    calc |n / w - N / W| * w * W = |n / w - N / W| * (w * W) := by ring
      _ ≤ 2 * μ * N * W := hb
  have h2 : (1 - μ) * |n / w - N / W| * W ≤ 2 * μ * N := by
    calc (1 - μ) * |n / w - N / W| * W = |n / w - N / W| * ((1 - μ) * W) := by ring
      _ ≤ |n / w - N / W| * w := mul_le_mul_of_nonneg_left wlo hd0
      _ ≤ 2 * μ * N := h1
  have : 2 * μ * (N / W) = 2 * μ * N / W := by ring
  rw [this, le_div_iff₀ hW]
  exact h2

/-- from the quotient of the rounded differences to `t`: `|t − T| ≤ μ + (2μ + 3μ²)·T` -/
theorem t_arith (μ T q t : ℚ) (hμ1 : μ ≤ 1 / 3) (hT : 0 ≤ T)
    (hq : (1 - μ) * |q - T| ≤ 2 * μ * T) (ht : |t - q| ≤ μ) :
    |t - T| ≤ μ + (2 * μ + 3 * μ ^ 2) * T := by
  have hd : |q - T| ≤ (2 * μ + 3 * μ ^ 2) * T := by
    have h1 : 0 < 1 - μ := by linarith
    apply le_of_mul_le_mul_left _ h1
    refine le_trans hq ?_
    have : (1 - μ) * ((2 * μ + 3 * μ ^ 2) * T) - 2 * μ * T = μ ^ 2 * (1 - 3 * μ) * T := by ring
    have h2 : 0 ≤ μ ^ 2 * (1 - 3 * μ) * T :=
      mul_nonneg (mul_nonneg (sq_nonneg _) (by linarith)) hT
    linarith
  have a := abs_le.1 hd
  have b := abs_le.1 ht
  exact abs_le.2 ⟨by linarith [a.1, b.1], by linarith [a.2, b.2]⟩

/-- the five roundings of one channel: `s = fl(1 − t)`, `p0 = fl(s·c0)`, `p1 = fl(t·c1)`, `S = fl(p0 + p1)`,
    each with relative error `μ`, against `(1 − T)·c0 + T·c1` -/
theorem lerp_arith (μ t s p0 p1 S T c0 c1 M : ℚ) (hμ0 : 0 ≤ μ) (hμ1 : μ ≤ 1)
    (t0 : 0 ≤ t) (t1 : t ≤ 1)
    (hs : |s - (1 - t)| ≤ μ * (1 - t)) (h0 : |p0 - s * c0| ≤ μ * (s * c0)) (h1 : |p1 - t * c1| ≤ μ * (t * c1))
    (hS : |S - (p0 + p1)| ≤ μ * (p0 + p1))
    (c0n : 0 ≤ c0) (c0M : c0 ≤ M) (c1n : 0 ≤ c1) (c1M : c1 ≤ M) :
    |S - ((1 - T) * c0 + T * c1)| ≤ (3 * μ + 4 * μ ^ 2) * M + |t - T| * |c1 - c0| := by
  have Mn : 0 ≤ M := le_trans c0n c0M
  have hs' := abs_le.1 hs
  have h0' := abs_le.1 h0
  have h1' := abs_le.1 h1
  have hS' := abs_le.1 hS
  have u1t : 0 ≤ μ * (1 - t) := mul_nonneg hμ0 (by linarith)
  have u1t' : μ * (1 - t) ≤ μ := by nlinarith
  have s0 : 0 ≤ s := by nlinarith [hs'.1]
  -- `A = s·c0 + t·c1 ≤ (1 + μ)·M`
  have sc0 : s * c0 ≤ s * M := mul_le_mul_of_nonneg_left c0M s0
  have tc1 : t * c1 ≤ t * M := mul_le_mul_of_nonneg_left c1M t0
  have sc0n : 0 ≤ s * c0 := mul_nonneg s0 c0n
  have tc1n : 0 ≤ t * c1 := mul_nonneg t0 c1n
  have hst : s + t ≤ 1 + μ := by linarith [hs'.2]
  have hA : s * c0 + t * c1 ≤ (1 + μ) * M := by
    have : (s + t) * M ≤ (1 + μ) * M := mul_le_mul_of_nonneg_right hst Mn
    linarith
  have hAn : 0 ≤ s * c0 + t * c1 := by linarith
  -- `P = p0 + p1 ≤ (1 + μ)·A`
  have hP : p0 + p1 ≤ (1 + μ) * (s * c0 + t * c1) := by linarith [h0'.2, h1'.2]
  have hPn : 0 ≤ p0 + p1 := by
    have : 0 ≤ (1 - μ) * (s * c0 + t * c1) := mul_nonneg (by linarith) hAn
    linarith [h0'.1, h1'.1]
  have hμA : μ * (s * c0 + t * c1) ≤ μ * ((1 + μ) * M) := mul_le_mul_of_nonneg_left hA hμ0
  have hμP : μ * (p0 + p1) ≤ μ * ((1 + μ) * ((1 + μ) * M)) := by
    apply mul_le_mul_of_nonneg_left _ hμ0
    exact le_trans hP (mul_le_mul_of_nonneg_left hA (by linarith))
  -- the error of `s` times `c0`
  have e3 : |(s - (1 - t)) * c0| ≤ μ * M := by
    rw [abs_mul, abs_of_nonneg c0n]
    calc |s - (1 - t)| * c0 ≤ μ * c0 := mul_le_mul_of_nonneg_right (le_trans hs u1t') c0n
      _ ≤ μ * M := mul_le_mul_of_nonneg_left c0M hμ0
  have e3' := abs_le.1 e3
  -- the error of `t` times `c1 − c0`
  have e4 : |(t - T) * (c1 - c0)| = |t - T| * |c1 - c0| := abs_mul _ _
  have e4' := abs_le.1 (le_of_eq e4)
  have split : S - ((1 - T) * c0 + T * c1) =
      (S - (p0 + p1)) + (p0 - s * c0) + (p1 - t * c1) + (s - (1 - t)) * c0 + (t - T) * (c1 - c0) := by ring
  have hμ3 : μ ^ 3 * M ≤ μ ^ 2 * M := by
    have : μ ^ 3 ≤ μ ^ 2 := by
      have : μ ^ 2 * μ ≤ μ ^ 2 * 1 := mul_le_mul_of_nonneg_left hμ1 (sq_nonneg _)
      calc μ ^ 3 = μ ^ 2 * μ := by ring
        _ ≤ μ ^ 2 * 1 := this
        _ = μ ^ 2 := by ring
    exact mul_le_mul_of_nonneg_right this Mn
  have total : μ * ((1 + μ) * ((1 + μ) * M)) + μ * ((1 + μ) * M) + μ * M ≤ (3 * μ + 4 * μ ^ 2) * M := by
    have : μ * ((1 + μ) * ((1 + μ) * M)) + μ * ((1 + μ) * M) + μ * M =
        (3 * μ + 3 * μ ^ 2) * M + μ ^ 3 * M := by ring
    rw [this]
    have : (3 * μ + 4 * μ ^ 2) * M = (3 * μ + 3 * μ ^ 2) * M + μ ^ 2 * M := by ring
    rw [this]; linarith
  rw [split]
  refine abs_le.2 ⟨?_, ?_⟩
  · linarith [hS'.1, h0'.1, h1'.1, e3'.1, e4'.1]
  · linarith [hS'.2, h0'.2, h1'.2, e3'.2, e4'.2]

/-! ## (1) the parameter `t` -/

theorem u_lt_third : u ≤ 1 / 3 := by unfold u; norm_num
theorem minN_le_one : minN ≤ 1 := by
  unfold minN
  have := FloatErr64.pow2_mono (a := -1022) (b := 0) (by omega)
  rwa [pow2_zero] at this

/-- the exact parameter `T = (x − off0)/(off1 − off0)` of the offset `x` in the range `r` -/
def Tex (r : Range F64) (x : F64) : ℚ := (val x - val r.offset0) / (val r.offset1 - val r.offset0)

theorem Tex_range {r : Range F64} (h : RangeOK r) (x : F64) (h0 : r.offset0 ≤ x) (h1 : x ≤ r.offset1) :
    0 ≤ Tex r x ∧ Tex r x ≤ 1 := by
  have fx : Fn x := Fin_between h.f0 h.f1 h0 h1
  have vx0 := val_le_of_le h.f0 fx h0
  have vx1 := val_le_of_le fx h.f1 h1
  have hW : 0 < val r.offset1 - val r.offset0 := by linarith [h.lt]
  unfold Tex
  exact ⟨div_nonneg (by linarith) hW.le, (div_le_one hW).2 (by linarith)⟩

/-- **(1), refined**: `|t − T| ≤ u + (2u + 3u²)·T` — uniform in the width of the range -/
theorem t_err_T {r : Range F64} (h : RangeOK r) (x : F64) (h0 : r.offset0 ≤ x) (h1 : x ≤ r.offset1) :
    |val (tOf r x) - Tex r x| ≤ u + (2 * u + 3 * u ^ 2) * Tex r x := by
  obtain ⟨fw, wpos, _⟩ := width_facts h
  have fx : Fn x := Fin_between h.f0 h.f1 h0 h1
  have vx0 := val_le_of_le h.f0 fx h0
  have vx1 := val_le_of_le fx h.f1 h1
  have hN : 0 ≤ val x - val r.offset0 := by linarith
  have hW : 0 < val r.offset1 - val r.offset0 := by linarith [h.lt]
  -- the two differences: relative error `u`
  obtain ⟨fn, en⟩ := sub_err fx h.f0 (by
    apply small_le_maxv; rw [abs_le]; constructor <;> linarith [h.lo, h.hi])
  rw [abs_of_nonneg hN] at en
  obtain ⟨_, ew⟩ := sub_err h.f1 h.f0 (by
    apply small_le_maxv; rw [abs_le]; constructor <;> linarith [h.lo, h.hi])
  rw [← h.w, abs_of_pos hW] at ew
  -- numerator `≤` denominator, both after rounding
  have hn := sub_nb fx h.f0
  have hw := sub_nb h.f1 h.f0
  rw [← h.w] at hw
  have n0 : 0 ≤ val (x - r.offset0) := Rnd_nonneg hn fn hN
  have nw : val (x - r.offset0) ≤ val r.width := Rnd_le_val _ _ _ _ hn hw fn fw (by linarith)
  have q0 : 0 ≤ val (x - r.offset0) / val r.width := div_nonneg n0 wpos.le
  have q1 : val (x - r.offset0) / val r.width ≤ 1 := (div_le_one wpos).2 nw
  -- the quotient
  obtain ⟨_, et⟩ := div_err fn fw (ne_of_gt wpos) (by
    apply small_le_maxv; rw [abs_of_nonneg q0]; linarith)
  have hu := u_pos
  have et' : |val (tOf r x) - val (x - r.offset0) / val r.width| ≤ u := by
    unfold tOf
    rcases et with e | ⟨_, e⟩
    · rw [abs_of_nonneg q0] at e
      refine le_trans e ?_
      calc u * (val (x - r.offset0) / val r.width) ≤ u * 1 := mul_le_mul_of_nonneg_left q1 hu.le
        _ = u := mul_one u
    · refine le_trans e ?_
      calc u * minN ≤ u * 1 := mul_le_mul_of_nonneg_left minN_le_one hu.le
        _ = u := mul_one u
  have hq := quot_arith u _ _ _ _ (by unfold u; norm_num) hN hW en ew
  exact t_arith u (Tex r x) _ _ u_lt_third (Tex_range h x h0 h1).1 hq et'

/-- **(1)**: `|t − T| ≤ 3u(1 + u)`, `u = 2^-53` — for every range, however narrow -/
theorem t_err {r : Range F64} (h : RangeOK r) (x : F64) (h0 : r.offset0 ≤ x) (h1 : x ≤ r.offset1) :
    |val (tOf r x) - Tex r x| ≤ 3 * u + 3 * u ^ 2 := by
  have a := t_err_T h x h0 h1
  obtain ⟨T0, T1⟩ := Tex_range h x h0 h1
  have hu := u_pos
  have : (2 * u + 3 * u ^ 2) * Tex r x ≤ (2 * u + 3 * u ^ 2) * 1 :=
    mul_le_mul_of_nonneg_left T1 (by positivity)
  linarith

/-- … in round numbers: `≤ 4u` -/
theorem t_err4 {r : Range F64} (h : RangeOK r) (x : F64) (h0 : r.offset0 ≤ x) (h1 : x ≤ r.offset1) :
    |val (tOf r x) - Tex r x| ≤ 4 * u := by
  refine le_trans (t_err h x h0 h1) ?_
  unfold u; norm_num

/-! ## (2) one channel -/

/-- the product of a finite float and an integer is a point of the grid `2^-1074·ℤ`: its rounding has relative
    error `u`, with no exception for underflow -/
theorem mul_int_err {a c : F64} (fa : Fn a) (fc : Fn c) (k : Int) (hc : val c = (k : ℚ))
    (hr : |val a * val c| ≤ maxv) :
    Fn (a * c) ∧ |val (a * c) - val a * val c| ≤ u * |val a * val c| := by
  have h := mul_nb fa fc
  have hf : Fn (a * c) := Rnd_fin _ _ h hr
  refine ⟨hf, ?_⟩
  obtain ⟨z, hz⟩ := val_grid a
  rw [← pow2_m24]
  exact Rnd_err_grid _ _ h hf (z * k) (by rw [hz, hc]; push_cast; ring)

/-- **(2)**: for a finite `t ∈ [0,1]`, `s = fl(1 − t)` and channel ends `c0, c1 ≤ M ≤ 65535`, the float
    `fl(fl(s·c0) + fl(t·c1))` is within `(3u + 4u²)·M` of `(1 − t)·c0 + t·c1`; against the interpolation at any
    other parameter `T` the error of `t` enters multiplied by `|c1 − c0|` -/
theorem lerp_err (t : F64) (ft : Fn t) (t0 : 0 ≤ val t) (t1 : val t ≤ 1) (T : ℚ) (c0 c1 : Nat) (M : ℚ)
    (h0 : (c0 : ℚ) ≤ M) (h1 : (c1 : ℚ) ≤ M) (hM : M ≤ 65535) :
    |val (lerpF (oneB - t) t c0 c1) - ((1 - T) * (c0 : ℚ) + T * (c1 : ℚ))| ≤
      (3 * u + 4 * u ^ 2) * M + |val t - T| * |(c1 : ℚ) - (c0 : ℚ)| := by
  have hc0 : c0 < 65536 := by
    have : (c0 : ℚ) ≤ 65535 := le_trans h0 hM
    have : c0 ≤ 65535 := by exact_mod_cast this
    omega
  have hc1 : c1 < 65536 := by
    have : (c1 : ℚ) ≤ 65535 := le_trans h1 hM
    have : c1 ≤ 65535 := by exact_mod_cast this
    omega
  obtain ⟨f0, v0⟩ := chan_fin c0 hc0
  obtain ⟨f1, v1⟩ := chan_fin c1 hc1
  have c0n : (0 : ℚ) ≤ c0 := Nat.cast_nonneg _
  have c1n : (0 : ℚ) ≤ c1 := Nat.cast_nonneg _
  have hu := u_pos
  have hu1 : u ≤ 1 := by unfold u; norm_num
  -- `s`
  obtain ⟨fs, es⟩ := sub_err oneB_fin.1 ft (by
    apply small_le_maxv; rw [oneB_fin.2, abs_le]; constructor <;> linarith)
  rw [oneB_fin.2, abs_of_nonneg (by linarith : (0:ℚ) ≤ 1 - val t)] at es
  have es' := abs_le.1 es
  have s0 : 0 ≤ val (oneB - t) := by nlinarith [es'.1]
  have s1 : val (oneB - t) ≤ 2 := by nlinarith [es'.2]
  -- the products
  have a0 : 0 ≤ val (oneB - t) * (c0 : ℚ) := mul_nonneg s0 c0n
  have b0 : 0 ≤ val t * (c1 : ℚ) := mul_nonneg t0 c1n
  have a1 : val (oneB - t) * (c0 : ℚ) ≤ 2 * 65535 := by
    have : (c0 : ℚ) ≤ 65535 := le_trans h0 hM
    nlinarith
  have b1 : val t * (c1 : ℚ) ≤ 65535 := by
    have : (c1 : ℚ) ≤ 65535 := le_trans h1 hM
    nlinarith
  obtain ⟨fp0, e0⟩ := mul_int_err fs f0 (c0 : Int) (by rw [v0]; simp) (by
    apply small_le_maxv; rw [v0, abs_of_nonneg a0]; linarith)
  obtain ⟨fp1, e1⟩ := mul_int_err ft f1 (c1 : Int) (by rw [v1]; simp) (by
    apply small_le_maxv; rw [v1, abs_of_nonneg b0]; linarith)
  rw [v0, abs_of_nonneg a0] at e0
  rw [v1, abs_of_nonneg b0] at e1
  have e0' := abs_le.1 e0
  have e1' := abs_le.1 e1
  have p0n : 0 ≤ val ((oneB - t) * Arith.ofInt (c0 : Int)) := by nlinarith [e0'.1]
  have p1n : 0 ≤ val (t * Arith.ofInt (c1 : Int)) := by nlinarith [e1'.1]
  have p0h : val ((oneB - t) * Arith.ofInt (c0 : Int)) ≤ 4 * 65535 := by nlinarith [e0'.2]
  have p1h : val (t * Arith.ofInt (c1 : Int)) ≤ 2 * 65535 := by nlinarith [e1'.2]
  -- the sum
  obtain ⟨_, eS⟩ := add_err fp0 fp1 (by
    apply small_le_maxv; rw [abs_of_nonneg (by linarith)]; linarith)
  rw [abs_of_nonneg (by linarith : (0:ℚ) ≤ val ((oneB - t) * Arith.ofInt (c0 : Int)) + val (t * Arith.ofInt (c1 : Int)))] at eS
  exact lerp_arith u (val t) (val (oneB - t)) _ _ _ T c0 c1 M hu.le hu1 t0 t1 es e0 e1 eS c0n h0 c1n h1

/-! ## (1) + (2) -/

/-- the exact interpolated channel value `C = (1 − T)·c0 + T·c1` at the offset `x` of the range `r` -/
def Cex (r : Range F64) (x : F64) (c0 c1 : Nat) : ℚ := (1 - Tex r x) * (c0 : ℚ) + Tex r x * (c1 : ℚ)

/-- the error bound of one channel: `(3u + 4u²)·max c0 c1 + (3u + 3u²)·|c1 − c0|` -/
def epsChan (c0 c1 : Nat) : ℚ :=
  (3 * u + 4 * u ^ 2) * max (c0 : ℚ) (c1 : ℚ) + (3 * u + 3 * u ^ 2) * |(c1 : ℚ) - (c0 : ℚ)|

/-- `epsChan c0 c1 ≤ 7·u·65535` for 16-bit channel ends -/
theorem epsChan_le (c0 c1 : Nat) (h0 : c0 < 65536) (h1 : c1 < 65536) : epsChan c0 c1 ≤ 7 * u * 65535 := by
  have c0q : (c0 : ℚ) ≤ 65535 := by exact_mod_cast Nat.le_of_lt_succ h0
  have c1q : (c1 : ℚ) ≤ 65535 := by exact_mod_cast Nat.le_of_lt_succ h1
  have c0n : (0 : ℚ) ≤ c0 := Nat.cast_nonneg _
  have c1n : (0 : ℚ) ≤ c1 := Nat.cast_nonneg _
  have hm : max (c0 : ℚ) (c1 : ℚ) ≤ 65535 := max_le c0q c1q
  have hd : |(c1 : ℚ) - (c0 : ℚ)| ≤ 65535 := abs_le.2 ⟨by linarith, by linarith⟩
  have hu := u_pos
  unfold epsChan
  have k1 : (3 * u + 4 * u ^ 2) * max (c0 : ℚ) (c1 : ℚ) ≤ (3 * u + 4 * u ^ 2) * 65535 :=
    mul_le_mul_of_nonneg_left hm (by positivity)
  have k2 : (3 * u + 3 * u ^ 2) * |(c1 : ℚ) - (c0 : ℚ)| ≤ (3 * u + 3 * u ^ 2) * 65535 :=
    mul_le_mul_of_nonneg_left hd (by positivity)
  have k3 : u ^ 2 ≤ u / 7 := by unfold u; norm_num
  nlinarith

/-- `7·u·65535 < 2^-34` -/
theorem eps_small : 7 * u * 65535 < 1 / 17179869184 := by unfold u; norm_num

/-- a constant channel (`c0 = c1 = c`): the bound is `(3u + 4u²)·c` -/
theorem epsChan_const (c : Nat) : epsChan c c = (3 * u + 4 * u ^ 2) * (c : ℚ) := by
  unfold epsChan; simp

/-- **(1) + (2)**: strictly inside (or at the ends of) a range the float channel value is within `epsChan c0 c1`
    of the exact interpolation -/
theorem chan_err {r : Range F64} (h : RangeOK r) (x : F64) (h0 : r.offset0 ≤ x) (h1 : x ≤ r.offset1)
    (c0 c1 : Nat) (hc0 : c0 < 65536) (hc1 : c1 < 65536) :
    |val (lerpF (sOf r x) (tOf r x) c0 c1) - Cex r x c0 c1| ≤ epsChan c0 c1 := by
  obtain ⟨ft, t0, t1, _⟩ := t_facts h x h0 h1
  have c0q : (c0 : ℚ) ≤ 65535 := by exact_mod_cast Nat.le_of_lt_succ hc0
  have c1q : (c1 : ℚ) ≤ 65535 := by exact_mod_cast Nat.le_of_lt_succ hc1
  have a := lerp_err (tOf r x) ft t0 t1 (Tex r x) c0 c1 (max (c0 : ℚ) (c1 : ℚ)) (le_max_left _ _) (le_max_right _ _)
    (max_le c0q c1q)
  have b := t_err h x h0 h1
  have : |val (tOf r x) - Tex r x| * |(c1 : ℚ) - (c0 : ℚ)| ≤ (3 * u + 3 * u ^ 2) * |(c1 : ℚ) - (c0 : ℚ)| :=
    mul_le_mul_of_nonneg_right b (abs_nonneg _)
  unfold Cex epsChan sOf
  linarith

end Ivg.Grad64
