import Ivg.Num.F32
import Mathlib.Tactic.Ring
import Mathlib.Tactic.Linarith
import Mathlib.Tactic.Positivity
import Mathlib.Tactic.FieldSimp
import Mathlib.Algebra.Order.Field.Rat
/-!
# Order and value semantics of the soft binary64, monotone rounding

Self-contained (imports only the soft float).  Part 1 is `Nat`-level: `roundMag .f64` is
* invariant under rescaling `m·2^k, e-k`                                   (`roundMag_scale`),
* monotone in `m` at a fixed exponent                                       (`roundMag_mono_same`),
* constant on every open interval `(Q·2^j, (Q+1)·2^j)` with `Q` of ≥ 54 bits (`roundMag_gap`),
and `rmag T d e`, the rounding of the positive rational `T/d·2^e` in the truncated-quotient + sticky
representation that `Num.div` uses, does not depend on the representation and is monotone in the
rational (`rmag_mono`).

Part 2 (ℚ): `Rnd v b` — "the bit pattern `b` is the correct rounding of the rational `v`" —
is monotone (`Rnd_mono`): `v ≤ v'` implies `key b ≤ key b'` where `key` is the `toOrd` key.
-/
namespace Ivg.FloatOrder
open Ivg Num

theorem emin_f64 : Fmt.f64.emin = -1074 := by decide
theorem prec_f64 : Fmt.f64.prec = 53 := by decide
theorem infBits_f64 : Fmt.f64.infBits = 9218868437227405312 := by decide
theorem signBit_f64 : Fmt.f64.signBit = 9223372036854775808 := by decide
theorem mbits_f64 : Fmt.f64.mbits = 52 := rfl
theorem ebits_f64 : Fmt.f64.ebits = 11 := rfl
theorem expMax_f64 : Fmt.f64.expMax = 2047 := by decide

/-! ## bit lengths -/

theorem bitLen_eq {m k : Nat} (h1 : 2^k ≤ m) (h2 : m < 2^(k+1)) : bitLen m = k + 1 := by
  have hm : m ≠ 0 := by have := Nat.two_pow_pos k; omega
  unfold bitLen
  simp [hm, (Nat.log2_eq_iff hm).2 ⟨h1, h2⟩]

theorem bitLen_zero : bitLen 0 = 0 := by simp [bitLen]

theorem bitLen_bounds {m : Nat} (hm : 0 < m) : 2 ^ (bitLen m - 1) ≤ m ∧ m < 2 ^ bitLen m ∧ 1 ≤ bitLen m := by
  have hm' : m ≠ 0 := by omega
  have h1 := Nat.log2_self_le hm'
  have h2 : m < 2 ^ (m.log2 + 1) := Nat.lt_log2_self
  have : bitLen m = m.log2 + 1 := bitLen_eq h1 h2
  rw [this]
  exact ⟨h1, h2, by omega⟩

theorem bitLen_lt_pow (m : Nat) : m < 2 ^ bitLen m := by
  rcases Nat.eq_zero_or_pos m with rfl | h
  · simp [bitLen]
  · exact (bitLen_bounds h).2.1

theorem bitLen_mul_pow (q s : Nat) (h0 : 0 < q) : bitLen (q * 2^s) = bitLen q + s := by
  obtain ⟨h1, h2, h3⟩ := bitLen_bounds h0
  have hp := Nat.two_pow_pos s
  have : bitLen q + s = (bitLen q - 1 + s) + 1 := by omega
  rw [this]
  apply bitLen_eq
  · rw [Nat.pow_add]; exact Nat.mul_le_mul_right _ h1
  · have : bitLen q - 1 + s + 1 = bitLen q + s := by omega
    rw [this, Nat.pow_add]; exact (Nat.mul_lt_mul_right hp).2 h2

theorem bitLen_mono {m n : Nat} (h : m ≤ n) : bitLen m ≤ bitLen n := by
  rcases Nat.eq_zero_or_pos m with rfl | hm
  · simp [bitLen]
  · obtain ⟨h1, _, h3⟩ := bitLen_bounds hm
    have h4 := bitLen_lt_pow n
    have : 2 ^ (bitLen m - 1) < 2 ^ bitLen n := by omega
    have := (Nat.pow_lt_pow_iff_right (by omega : 1 < 2)).1 this
    omega

theorem bitLen_ge {m k : Nat} (h : 2 ^ k ≤ m) : k + 1 ≤ bitLen m := by
  have h4 := bitLen_lt_pow m
  have : 2 ^ k < 2 ^ bitLen m := by omega
  have := (Nat.pow_lt_pow_iff_right (by omega : 1 < 2)).1 this
  omega

theorem bitLen_le {m k : Nat} (h : m < 2 ^ k) : bitLen m ≤ k := by
  rcases Nat.eq_zero_or_pos m with rfl | hm
  · simp [bitLen]
  · obtain ⟨h1, _, h3⟩ := bitLen_bounds hm
    have : 2 ^ (bitLen m - 1) < 2 ^ k := by omega
    have := (Nat.pow_lt_pow_iff_right (by omega : 1 < 2)).1 this
    omega

/-! ## `roundMag` unfolded -/

/-- round-to-nearest-even of `m / 2^s` -/
def rneShift (m s : Nat) : Nat :=
  if m % 2 ^ s > 2 ^ (s - 1) || (m % 2 ^ s == 2 ^ (s - 1) && m / 2 ^ s % 2 == 1) then m / 2 ^ s + 1
  else m / 2 ^ s

/-- working exponent (exponent of the last kept bit) -/
def fe64 (m : Nat) (e : Int) : Int :=
  if e + (bitLen m : Int) - 53 < -1074 then -1074 else e + (bitLen m : Int) - 53

def qOf (m : Nat) (e fe : Int) : Nat :=
  if fe ≤ e then m * 2 ^ (e - fe).toNat else rneShift m (fe - e).toNat

def pk (fe : Int) (q : Nat) : Nat :=
  if 4503599627370496 * (fe + 1074).toNat + q ≥ 9218868437227405312 then 9218868437227405312
  else 4503599627370496 * (fe + 1074).toNat + q

theorem roundMag_eq (m : Nat) (e : Int) : roundMag .f64 m e = pk (fe64 m e) (qOf m e (fe64 m e)) := by
  have c53 : ((53 : Nat) : Int) = 53 := rfl
  have c52 : (2:Nat)^52 = 4503599627370496 := by decide
  have : ∀ fe : Int, fe - -1074 = fe + 1074 := by intro fe; omega
  simp only [roundMag, emin_f64, prec_f64, infBits_f64, mbits_f64, c53, c52, this,
    Nat.mul_comm _ 4503599627370496]
  rfl

theorem fe64_ge (m : Nat) (e : Int) : -1074 ≤ fe64 m e := by unfold fe64; split <;> omega

theorem pk_mono (fe fe' : Int) (q q' : Nat) (h : 4503599627370496 * (fe + 1074).toNat + q ≤
    4503599627370496 * (fe' + 1074).toNat + q') : pk fe q ≤ pk fe' q' := by
  unfold pk; split <;> split <;> omega

theorem pk_le (fe : Int) (q : Nat) : pk fe q ≤ 9218868437227405312 := by
  unfold pk; split <;> omega

theorem roundMag_le_inf (m : Nat) (e : Int) : roundMag .f64 m e ≤ 9218868437227405312 := by
  rw [roundMag_eq]; exact pk_le _ _

/-! ## rounding at a fixed shift -/

theorem rneShift_mono (m m' s : Nat) (h : m ≤ m') : rneShift m s ≤ rneShift m' s := by
  unfold rneShift
  have hP := Nat.two_pow_pos s
  have hd : m / 2^s ≤ m' / 2^s := Nat.div_le_div_right h
  have e1 := Nat.div_add_mod m (2^s)
  have e2 := Nat.div_add_mod m' (2^s)
  have r1 := Nat.mod_lt m hP
  have r2 := Nat.mod_lt m' hP
  by_cases hq : m / 2^s = m' / 2^s
  · rw [hq] at e1 ⊢
    have hr : m % 2^s ≤ m' % 2^s := by omega
    split <;> split <;> simp_all <;> omega
  · split <;> split <;> omega

theorem rneShift_le (m s : Nat) : rneShift m s ≤ m / 2^s + 1 := by
  unfold rneShift; split <;> omega

theorem rneShift_ge (m s : Nat) : m / 2^s ≤ rneShift m s := by
  unfold rneShift; split <;> omega

/-- scaling numerator and shift together -/
theorem rneShift_scale (m s k : Nat) (hs : 1 ≤ s) : rneShift (m * 2^k) (s + k) = rneShift m s := by
  unfold rneShift
  have hk := Nat.two_pow_pos k
  have e1 : 2 ^ (s + k) = 2^s * 2^k := Nat.pow_add _ _ _
  have e2 : 2 ^ (s + k - 1) = 2^(s-1) * 2^k := by
    rw [← Nat.pow_add]; congr 1; omega
  rw [e1, e2, Nat.mul_div_mul_right _ _ hk, Nat.mul_mod_mul_right]
  have c1 : (m % 2^s * 2^k > 2^(s-1) * 2^k) = (m % 2^s > 2^(s-1)) := by
    apply propext; exact Nat.mul_lt_mul_right hk
  have c2 : (m % 2^s * 2^k == 2^(s-1) * 2^k) = (m % 2^s == 2^(s-1)) := by
    rw [Bool.eq_iff_iff]; simp only [beq_iff_eq]
    exact Nat.mul_right_cancel_iff hk
  rw [c2]
  simp only [c1]

/-- a multiple of `2^k` shifted by `s ≤ k` is exact -/
theorem rneShift_exact (m s k : Nat) (hs : s ≤ k) : rneShift (m * 2^k) s = m * 2^(k - s) := by
  unfold rneShift
  have hsp := Nat.two_pow_pos s
  have e1 : 2 ^ k = 2^(k-s) * 2^s := by rw [← Nat.pow_add]; congr 1; omega
  have hm : m * 2^k % 2^s = 0 := by rw [e1, ← Nat.mul_assoc]; exact Nat.mul_mod_left _ _
  have hd : m * 2^k / 2^s = m * 2^(k-s) := by
    rw [e1, ← Nat.mul_assoc]; exact Nat.mul_div_cancel _ hsp
  have hh := Nat.two_pow_pos (s - 1)
  rw [hm, hd]
  have : ¬ ((decide (0 > 2 ^ (s - 1)) || (0 == 2 ^ (s - 1) && m * 2 ^ (k - s) % 2 == 1)) = true) := by
    simp; omega
  rw [if_neg this]

/-- inside a gap `(Q·2^j, (Q+1)·2^j)` the rounding at a shift `> j` does not depend on the position -/
theorem rneShift_gap (Q j s ρ : Nat) (hs : j + 1 ≤ s) (hρ0 : 0 < ρ) (hρ : ρ < 2^j) :
    rneShift (Q * 2^j + ρ) s = Q / 2^(s-j) + (if 2^(s-j-1) ≤ Q % 2^(s-j) then 1 else 0) := by
  unfold rneShift
  obtain ⟨u, rfl⟩ : ∃ u, s = j + 1 + u := ⟨s - (j+1), by omega⟩
  have hj := Nat.two_pow_pos j
  have hu := Nat.two_pow_pos u
  have e0 : j + 1 + u - j = u + 1 := by omega
  have e0' : u + 1 - 1 = u := by omega
  have e0'' : j + 1 + u - 1 = u + j := by omega
  rw [e0, e0', e0'']
  have e1 : 2 ^ (j + 1 + u) = 2^j * 2^(u+1) := by rw [← Nat.pow_add]; congr 1; omega
  have e2 : 2 ^ (u + j) = 2^u * 2^j := Nat.pow_add _ _ _
  have e3 : 2 ^ (u + 1) = 2 * 2^u := by rw [Nat.pow_succ]; omega
  -- quotient and remainder
  have hdiv : (Q * 2^j + ρ) / 2^(j+1+u) = Q / 2^(u+1) := by
    rw [e1, ← Nat.div_div_eq_div_mul]
    congr 1
    rw [Nat.mul_comm, Nat.mul_add_div hj, Nat.div_eq_of_lt hρ]; omega
  have hmod : (Q * 2^j + ρ) % 2^(j+1+u) = (Q % 2^(u+1)) * 2^j + ρ := by
    have h1 := Nat.div_add_mod (Q * 2^j + ρ) (2^(j+1+u))
    have h2 := Nat.div_add_mod Q (2^(u+1))
    rw [hdiv, e1] at h1
    have h3 : 2^j * 2^(u+1) * (Q / 2^(u+1)) + (Q % 2^(u+1)) * 2^j = Q * 2^j := by
      calc 2^j * 2^(u+1) * (Q / 2^(u+1)) + (Q % 2^(u+1)) * 2^j
          = (2^(u+1) * (Q / 2^(u+1)) + Q % 2^(u+1)) * 2^j := by ring
        _ = Q * 2^j := by rw [h2]
    rw [e1]; omega
  rw [hdiv, hmod, e2]
  generalize Q % 2^(u+1) = a
  generalize Q / 2^(u+1) = q0
  by_cases ha : 2^u ≤ a
  · have : 2^u * 2^j ≤ a * 2^j := Nat.mul_le_mul_right _ ha
    have hgt : a * 2^j + ρ > 2^u * 2^j := by omega
    simp [ha, hgt]
  · have : (a + 1) * 2^j ≤ 2^u * 2^j := Nat.mul_le_mul_right _ (by omega)
    have hlt : a * 2^j + ρ < 2^u * 2^j := by
      have : (a + 1) * 2^j = a * 2^j + 2^j := by ring
      omega
    have h1 : ¬ (a * 2^j + ρ > 2^u * 2^j) := by omega
    have h2 : ¬ (a * 2^j + ρ = 2^u * 2^j) := by omega
    simp [ha, h1, h2]

end Ivg.FloatOrder
