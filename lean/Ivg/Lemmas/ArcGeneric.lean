import Ivg.Model.Arc
/-!
# A number-generic transcription of the float64 part of `Renderer.AbsArcTo`, tied to the model

`Ivg/Model/Arc.lean` (`arcF32`) is the bit-exact model of render.go:406–578 at (float32, float64).  Its
geometric content (centre parameterisation of the ellipse, start angle, sweep) cannot hold exactly for
floats.  This file transcribes the float64 part of the algorithm, statement by statement, against a class
`ArcNum β` that lists exactly the operations it uses, and PROVES (by `rfl`) that the model `arcF32` is the
generic algorithm at the instance `ArcNum F64` (`arcF32_eq_generic`).  `Ivg/Lemmas/ArcReal*.lean` then
instantiate THE SAME definitions at `ℝ` and prove the geometric clauses of C06 there.

Core only (no Mathlib).
-/
namespace Ivg.Ren
open Ivg Num

/-- exactly what the float64 part of `AbsArcTo` uses of `float64` and package `math` -/
class ArcNum (β : Type) extends Add β, Sub β, Mul β, Div β, Neg β, LT β, LE β where
  ofInt : Int → β
  decLt : DecidableRel (α := β) (· < ·)
  decLe : DecidableRel (α := β) (· ≤ ·)
  /-- `math.Abs` -/
  abs : β → β
  /-- `math.Sqrt` -/
  sqrt : β → β
  /-- `math.Sin` -/
  sin : β → β
  /-- `math.Cos` -/
  cos : β → β
  /-- `math.Acos` -/
  acos : β → β
  /-- `math.Pi` -/
  pi : β
  /-- the constant `0.5` -/
  half : β

attribute [instance_reducible, instance] ArcNum.decLt ArcNum.decLe

/-- the model's instance: soft IEEE-754 binary64 and the ports of Go's `math.Sin/Cos/Acos` -/
instance instArcNumF64 : ArcNum F64 where
  ofInt := F64.ofInt
  decLt := inferInstance
  decLe := inferInstance
  abs := F64.abs
  sqrt := F64.sqrt
  sin := GoMath.sin
  cos := GoMath.cos
  acos := GoMath.acos
  pi := GoMath.pi
  half := ⟨0x3fe0000000000000⟩

section generic
variable {β : Type} [ArcNum β]
open ArcNum

/-- `2 * math.Pi` -/
def twoPiG : β := ofInt 2 * (pi : β)

/-- the `angle` closure of AbsArcTo (render.go:511–527), mirrors `arcAngle` -/
def arcAngleG (ux uy vx vy : β) : β :=
  let uNorm := sqrt (ux * ux + uy * uy)
  let vNorm := sqrt (vx * vx + vy * vy)
  let norm := uNorm * vNorm
  let cos := (ux * vx + uy * vy) / norm
  let ret : β :=
    if cos ≤ ofInt (-1) then pi
    else if ofInt 1 ≤ cos then ofInt 0
    else acos cos
  if ux * vy < uy * vx then -ret else ret

/-- what the centre parameterisation produces and the subdivision consumes -/
structure ArcCentre (β : Type) where
  cx : β
  cy : β
  Rx : β
  Ry : β
  cosPhi : β
  sinPhi : β
  theta1 : β
  deltaTheta : β

/-- render.go:466–540: steps 1–4 of "conversion from endpoint to centre parameterisation", from
    `halfDx := …` down to the sweep-adjusted `deltaTheta`; mirrors the body of `arcF32` line by line.
    `(x1, y1)` is the pen in viewBox space, `(x2, y2)` the end point, `Rx0 = |rx|`, `Ry0 = |ry|`,
    `phi = 2π·xAxisRotation`. -/
def arcCentreG (x1 y1 x2 y2 Rx0 Ry0 phi : β) (largeArc sweep : Bool) : ArcCentre β :=
  let Rx := Rx0
  let Ry := Ry0
  let halfDx := (x1 - x2) / ofInt 2
  let halfDy := (y1 - y2) / ofInt 2
  let cosPhi := cos phi
  let sinPhi := sin phi
  let x1Prime := cosPhi * halfDx + sinPhi * halfDy
  let y1Prime := -sinPhi * halfDx + cosPhi * halfDy
  let rxSq := Rx * Rx
  let rySq := Ry * Ry
  let x1PrimeSq := x1Prime * x1Prime
  let y1PrimeSq := y1Prime * y1Prime
  let radiiCheck := x1PrimeSq / rxSq + y1PrimeSq / rySq
  let (Rx, Ry, rxSq, rySq) :=
    if ofInt 1 < radiiCheck then
      let c := sqrt radiiCheck
      let Rx := Rx * c
      let Ry := Ry * c
      (Rx, Ry, Rx * Rx, Ry * Ry)
    else (Rx, Ry, rxSq, rySq)
  let denom := rxSq * y1PrimeSq + rySq * x1PrimeSq
  let a := rxSq * rySq / denom - ofInt 1
  let step2 : β := if ofInt 0 < a then sqrt a else ofInt 0
  let step2 := if largeArc == sweep then -step2 else step2
  let cxPrime := step2 * Rx * y1Prime / Ry
  let cyPrime := -step2 * Ry * x1Prime / Rx
  let cx := cosPhi * cxPrime - sinPhi * cyPrime + (x1 + x2) / ofInt 2
  let cy := sinPhi * cxPrime + cosPhi * cyPrime + (y1 + y2) / ofInt 2
  let ax := (x1Prime - cxPrime) / Rx
  let ay := (y1Prime - cyPrime) / Ry
  let bx := (-x1Prime - cxPrime) / Rx
  let by_ := (-y1Prime - cyPrime) / Ry
  let theta1 := arcAngleG (ofInt 1) (ofInt 0) ax ay
  let deltaTheta := arcAngleG ax ay bx by_
  let deltaTheta :=
    if sweep then (if deltaTheta < ofInt 0 then deltaTheta + twoPiG else deltaTheta)
    else (if ofInt 0 < deltaTheta then deltaTheta - twoPiG else deltaTheta)
  { cx := cx, cy := cy, Rx := Rx, Ry := Ry, cosPhi := cosPhi, sinPhi := sinPhi,
    theta1 := theta1, deltaTheta := deltaTheta }

/-- the sweep adjustment (render.go:529–537) on its own -/
def adjustG (sw : Bool) (d : β) : β :=
  if sw then (if d < ofInt 0 then d + twoPiG else d)
  else (if ofInt 0 < d then d - twoPiG else d)

/-- `Δθ` is the sweep adjustment of the angle between two vectors (for every number type) -/
theorem arcCentreG_deltaTheta_shape (x1 y1 x2 y2 Rx0 Ry0 phi : β) (la sw : Bool) :
    ∃ ux uy vx vy : β,
      (arcCentreG x1 y1 x2 y2 Rx0 Ry0 phi la sw).deltaTheta = adjustG sw (arcAngleG ux uy vx vy) := by
  unfold arcCentreG
  simp only []
  exact ⟨_, _, _, _, rfl⟩

/-- the point of the ellipse `c` at parameter angle `θ`: what `arcSegmentTo` passes (before the
    `float32` conversion and the viewBox-to-pixel map) as the END point of a segment ending at `θ` -/
def arcEndG (c : ArcCentre β) (θ : β) : β × β :=
  let x3 := c.Rx * cos θ
  let y3 := c.Ry * sin θ
  (c.cx + c.cosPhi * x3 - c.sinPhi * y3, c.cy + c.sinPhi * x3 + c.cosPhi * y3)

/-- the `t` of `arcSegmentTo` (length of the control arms relative to the radius) -/
def arcArmG (θ1 θ2 : β) : β :=
  let halfDeltaTheta := (θ2 - θ1) * half
  let q := sin (halfDeltaTheta * half)
  (ofInt 8 * q * q) / (ofInt 3 * sin halfDeltaTheta)

/-- first control point of the segment from angle `θ1` to angle `θ2` -/
def arcCtrl1G (c : ArcCentre β) (θ1 θ2 : β) : β × β :=
  let t := arcArmG θ1 θ2
  let x1 := c.Rx * (cos θ1 - t * sin θ1)
  let y1 := c.Ry * (sin θ1 + t * cos θ1)
  (c.cx + c.cosPhi * x1 - c.sinPhi * y1, c.cy + c.sinPhi * x1 + c.cosPhi * y1)

/-- second control point of the segment from angle `θ1` to angle `θ2` -/
def arcCtrl2G (c : ArcCentre β) (θ1 θ2 : β) : β × β :=
  let t := arcArmG θ1 θ2
  let x2 := c.Rx * (cos θ2 + t * sin θ2)
  let y2 := c.Ry * (sin θ2 - t * cos θ2)
  (c.cx + c.cosPhi * x2 - c.sinPhi * y2, c.cy + c.sinPhi * x2 + c.cosPhi * y2)

/-- the angle at which segment `i` of `n` starts (render.go:571–572); segment `i` ends at
    `arcSegAngleG c n (i + 1)`, which is where segment `i + 1` starts -/
def arcSegAngleG (c : ArcCentre β) (n i : Int) : β :=
  c.theta1 + c.deltaTheta * ofInt i / ofInt n

end generic

/-! ## The tie to the model -/

theorem twoPi_eq_generic : twoPi = twoPiG (β := F64) := rfl

/-- the `angle` closure of the model IS the generic one at `F64` -/
theorem arcAngle_eq_generic (ux uy vx vy : F64) : arcAngle ux uy vx vy = arcAngleG ux uy vx vy := rfl

/-- the segment count computed by the model from the generic `Δθ` -/
def arcCountF64 (c : ArcCentre F64) : Int := (c.deltaTheta.abs / segAngle).ceil.toInt64

/-- the generic centre parameterisation at the model's arguments -/
def arcCentreF64 (z : Renderer F32 F64) (rx ry rot : F32) (la sw : Bool) (x y : F32) : ArcCentre F64 :=
  arcCentreG (F64.ofF32 (z.unabsX z.penX)) (F64.ofF32 (z.unabsY z.penY)) (F64.ofF32 x) (F64.ofF32 y)
    (F64.ofF32 rx).abs (F64.ofF32 ry).abs (twoPi * F64.ofF32 rot) la sw

/-- **The tie.**  The model `arcF32` (bit-exact with `Renderer.AbsArcTo`) is, for every input, the generic
    centre parameterisation `arcCentreG` at `F64`, followed by the subdivision `arcSegments` of the ellipse
    record it returns. -/
theorem arcF32_eq_generic (z : Renderer F32 F64) (rx ry rot : F32) (la sw : Bool) (x y : F32) :
    arcF32 z rx ry rot la sw x y =
      if ¬ (f 0 < (F64.ofF32 rx).abs ∧ f 0 < (F64.ofF32 ry).abs) then [.lineTo (z.absX x) (z.absY y)]
      else
        let c := arcCentreF64 z rx ry rot la sw x y
        arcSegments z c.cx c.cy c.theta1 c.deltaTheta c.Rx c.Ry c.cosPhi c.sinPhi (arcCountF64 c) 8 0 := by
  unfold arcF32 arcCentreF64 arcCentreG
  simp only []
  rfl

/-- **What a segment emits.**  The cubic emitted by `arcSegmentTo` for the ellipse record `c` from angle
    `θ1` to angle `θ2` has the generic control points and ENDS at the generic ellipse point `arcEndG c θ2`,
    each converted to `float32` and mapped to pixel space. -/
theorem arcSegment_eq_generic (z : Renderer F32 F64) (c : ArcCentre F64) (θ1 θ2 : F64) :
    arcSegment z c.cx c.cy θ1 θ2 c.Rx c.Ry c.cosPhi c.sinPhi =
      .cubeTo (z.absX (arcCtrl1G c θ1 θ2).1.toF32) (z.absY (arcCtrl1G c θ1 θ2).2.toF32)
              (z.absX (arcCtrl2G c θ1 θ2).1.toF32) (z.absY (arcCtrl2G c θ1 θ2).2.toF32)
              (z.absX (arcEndG c θ2).1.toF32) (z.absY (arcEndG c θ2).2.toF32) := rfl

/-- the subdivision of the model in terms of the generic segment angles: segment `i` runs from
    `arcSegAngleG c n i` to `arcSegAngleG c n (i+1)` -/
theorem arcSegments_eq_generic (z : Renderer F32 F64) (c : ArcCentre F64) (n : Int) (fuel : Nat) (i : Int) :
    arcSegments z c.cx c.cy c.theta1 c.deltaTheta c.Rx c.Ry c.cosPhi c.sinPhi n (fuel + 1) i =
      if i < n then
        arcSegment z c.cx c.cy (arcSegAngleG c n i) (arcSegAngleG c n (i + 1)) c.Rx c.Ry c.cosPhi c.sinPhi
          :: arcSegments z c.cx c.cy c.theta1 c.deltaTheta c.Rx c.Ry c.cosPhi c.sinPhi n fuel (i + 1)
      else [] := rfl

/-- the list of segments as a map over the indices: for `n ≤ fuel`, `arcSegments … n fuel 0` is the list
    of the `n` cubics for `i = 0, …, n-1` (none for `n ≤ 0`) -/
theorem arcSegments_eq_map (z : Renderer F32 F64) (c : ArcCentre F64) (n : Int) :
    ∀ (fuel : Nat) (i : Int), n - i ≤ fuel →
      arcSegments z c.cx c.cy c.theta1 c.deltaTheta c.Rx c.Ry c.cosPhi c.sinPhi n fuel i =
        (List.range (n - i).toNat).map fun (k : Nat) =>
          arcSegment z c.cx c.cy (arcSegAngleG c n (i + (k : Int))) (arcSegAngleG c n (i + (k : Int) + 1))
            c.Rx c.Ry c.cosPhi c.sinPhi := by
  intro fuel
  induction fuel with
  | zero =>
    intro i h2
    have : (n - i).toNat = 0 := by omega
    simp [arcSegments, this]
  | succ fuel ih =>
    intro i h2
    rw [arcSegments_eq_generic]
    by_cases h : i < n
    · simp only [h, if_true]
      rw [ih (i + 1) (by omega)]
      have e : (n - i).toNat = (n - (i + 1)).toNat + 1 := by omega
      rw [e, List.range_succ_eq_map, List.map_cons, List.map_map]
      congr 1
      · simp
      · apply List.map_congr_left
        intro k _
        simp only [Function.comp, Nat.succ_eq_add_one]
        have e1 : i + 1 + (k : Int) = i + ((k + 1 : Nat) : Int) := by omega
        rw [e1]
    · have : (n - i).toNat = 0 := by omega
      simp [h, this]

/-- **The whole arc in generic terms.**  When both radii are positive and the segment count `n` fits the fuel
    (it is at most 4, `Ivg.ArcCount.segment_count_le_four`), the model emits exactly the `n` cubics
    `k = 0, …, n-1` whose control points and end points are the generic `arcCtrl1G`, `arcCtrl2G`, `arcEndG` at
    the generic angles `arcSegAngleG c n k`, `arcSegAngleG c n (k+1)` of the generic ellipse record
    `c = arcCentreG …` (all at `F64`), converted to `float32` and mapped to pixel space. -/
theorem arcF32_eq_generic_cubics (z : Renderer F32 F64) (rx ry rot : F32) (la sw : Bool) (x y : F32)
    (hr : f 0 < (F64.ofF32 rx).abs ∧ f 0 < (F64.ofF32 ry).abs)
    (hn : arcCountF64 (arcCentreF64 z rx ry rot la sw x y) ≤ 8) :
    let c := arcCentreF64 z rx ry rot la sw x y
    let n := arcCountF64 c
    arcF32 z rx ry rot la sw x y =
      (List.range n.toNat).map fun (k : Nat) =>
        .cubeTo
          (z.absX (arcCtrl1G c (arcSegAngleG c n k) (arcSegAngleG c n (k + 1))).1.toF32)
          (z.absY (arcCtrl1G c (arcSegAngleG c n k) (arcSegAngleG c n (k + 1))).2.toF32)
          (z.absX (arcCtrl2G c (arcSegAngleG c n k) (arcSegAngleG c n (k + 1))).1.toF32)
          (z.absY (arcCtrl2G c (arcSegAngleG c n k) (arcSegAngleG c n (k + 1))).2.toF32)
          (z.absX (arcEndG c (arcSegAngleG c n (k + 1))).1.toF32)
          (z.absY (arcEndG c (arcSegAngleG c n (k + 1))).2.toF32) := by
  intro c n
  rw [arcF32_eq_generic, if_neg (not_not_intro hr)]
  show arcSegments z c.cx c.cy c.theta1 c.deltaTheta c.Rx c.Ry c.cosPhi c.sinPhi n 8 0 = _
  rw [arcSegments_eq_map z c n 8 0 (by simpa using hn)]
  simp only [Int.sub_zero, Int.zero_add, arcSegment_eq_generic]

end Ivg.Ren
