import Ivg.Lemmas.PathParse3
/-!
# C20, parsing clauses — a missing operand is an error

`scanArgs` asked for more numerals than are written before the next verb letter fails, and so does
`SetPathData` when this happens in the first command.
-/
namespace Ivg.PathParse
open Ivg Gen Spec.PathData
variable {α : Type} [Arith α]

/-- reading a group of numerals and then `m` more -/
theorem scan_group_more (g : List CTok) (hg : ∀ t ∈ g, TokOK t) (x : Char) (X : List Char)
    (hch : ChainTo g x) (m : Nat) :
    scanArgs (α := α) (g.length + m) (g.flatMap CTok.render ++ x :: X) =
      (match scanArgs (α := α) m (x :: X) with
       | .error e => .error e
       | .ok (vs, d') => .ok (g.map (fun t => t.tok.value) ++ vs, d')) := by
  induction g with
  | nil =>
    simp only [List.length_nil, Nat.zero_add, List.flatMap_nil, List.nil_append, List.map_nil]
    cases scanArgs (α := α) m (x :: X) <;> rfl
  | cons t r ih =>
    have ht := hg t (List.mem_cons_self)
    obtain ⟨W, hW⟩ := firstOf_spec r x X
    have hsep : ∀ a ∈ t.sep, isSep a = true := by
      have := ht.2; simpa [List.all_eq_true] using this
    have hw : isSep (firstOf r x) = false := hch.1.1
    have hdrop : (t.sep ++ (firstOf r x :: W)).dropWhile isSep = firstOf r x :: W := by
      rw [List.dropWhile_append_of_pos hsep, List.dropWhile_cons, if_neg (by simp [hw])]
    have hstop : ∃ y Y, t.sep ++ (firstOf r x :: W) = y :: Y ∧ Stops t.tok y := by
      cases hs : t.sep with
      | nil =>
        refine ⟨firstOf r x, W, rfl, ?_⟩
        rcases hch.1.2 with h | h
        · exact absurd hs h
        · exact h
      | cons s ss =>
        refine ⟨s, ss ++ firstOf r x :: W, rfl, ?_⟩
        have := sep_not_digit (hsep s (by simp [hs]))
        exact ⟨this.1, fun h => absurd h this.2⟩
    obtain ⟨y, Y, hy, hstops⟩ := hstop
    have hrender : (t :: r).flatMap CTok.render ++ x :: X = t.tok.render ++ y :: Y := by
      rw [← hy, ← hW]; simp [CTok.render]
    have hlen : (t :: r).length + m = (r.length + m) + 1 := by simp only [List.length_cons]; omega
    rw [hrender, hlen, scanArgs_tok _ _ ht.1 _ _ hstops, ← hy, hdrop, if_neg (by simp), ← hW,
      ih (fun t' h' => hg t' (List.mem_cons_of_mem _ h')) hch.2]
    cases scanArgs (α := α) m (x :: X) with
    | error e => rfl
    | ok p => obtain ⟨vs, d'⟩ := p; rfl

theorem scanLen_ge (nd j : Nat) (Y : List Char) (j' : Nat) (h : scanTokenLen nd j Y = some j') : j ≤ j' := by
  induction Y generalizing nd j with
  | nil => simp [scanTokenLen] at h
  | cons c Y ih =>
    simp only [scanTokenLen] at h
    split at h
    · have := ih _ _ h; omega
    · split at h
      · split at h
        · have := ih _ _ h; omega
        · cases h; exact Nat.le_refl _
      · cases h; exact Nat.le_refl _

/-- a token that begins with a verb letter is no number -/
theorem parse_letter (x : Char) (tl : List Char) (hx : verbArgCount x ≠ none) : parseDecimal (x :: tl) = none := by
  obtain ⟨_, hd, hdot⟩ := verb_term x hx
  have h1 : (x :: tl).head? ≠ some '-' := by
    intro h; simp at h; subst h; exact hx (by decide)
  have h2 : (x :: tl).head? ≠ some '+' := by
    intro h; simp at h; subst h; exact hx (by decide)
  rw [parseDecimal_unsigned _ h1 h2]
  unfold parseCore
  simp only [List.takeWhile_cons, hd, Bool.false_eq_true, ↓reduceIte, List.dropWhile_cons]
  split
  · rename_i r heq
    have : x = '.' := by injection heq
    exact absurd this hdot
  · simp

/-- asking for a number where a verb letter stands fails (ParseFloat error, or the index panic) -/
theorem scanArgs_letter (m : Nat) (x : Char) (X : List Char) (hx : verbArgCount x ≠ none) :
    ∃ e, scanArgs (α := α) (m + 1) (x :: X) = .error e := by
  simp only [scanArgs]
  cases hj : scanTokenLen (if x = '.' then 1 else 0) 1 X with
  | none => exact ⟨_, rfl⟩
  | some j =>
    have hge := scanLen_ge _ _ _ _ hj
    obtain ⟨j', rfl⟩ : ∃ j', j = j' + 1 := ⟨j - 1, by omega⟩
    simp only [List.take_succ_cons, parse_letter x _ hx]
    exact ⟨_, rfl⟩

/-- **missing operand.**  A group with fewer numerals than asked for, before a verb letter (or the final
    `z`): the scan fails. -/
theorem scanArgs_missing (g : List CTok) (hg : ∀ t ∈ g, TokOK t) (hch : chainOK g = true) (m : Nat)
    (x : Char) (X : List Char) (hx : verbArgCount x ≠ none) :
    ∃ e, scanArgs (α := α) (g.length + (m + 1)) (g.flatMap CTok.render ++ x :: X) = .error e := by
  rw [scan_group_more g hg x X (chainTo_of_chainOK g hg hch x (verb_term x hx)) (m + 1)]
  obtain ⟨e, he⟩ := scanArgs_letter (α := α) m x X hx
  exact ⟨e, by rw [he]⟩

/-- … and so does `SetPathData` when the first command lacks an operand: an error, hence no calls -/
theorem missing_operand_first (ts : List (Aff3 α)) (adj : UInt8) (v : Char) (n : Nat)
    (hv : verbArgCount v = some n) (g : List CTok) (hg : ∀ t ∈ g, TokOK t) (hch : chainOK g = true)
    (hshort : g.length < n) (x : Char) (X : List Char) (hx : verbArgCount x ≠ none) :
    ∃ e, setPathData ts (String.ofList (v :: (g.flatMap CTok.render ++ x :: X))) adj = .error e := by
  unfold setPathData
  rw [String.toList_ofList, String.length_ofList]
  obtain ⟨m, rfl⟩ : ∃ m, n = g.length + (m + 1) := ⟨n - g.length - 1, by omega⟩
  obtain ⟨e, he⟩ := scanArgs_missing (α := α) g hg hch m x X hx
  have hne : ¬ (v :: (g.flatMap CTok.render ++ x :: X) = ['z']) := by simp
  refine ⟨e, ?_⟩
  simp only [pathLoop, hne, ↓reduceIte, hv, Bool.false_eq_true, he]

end Ivg.PathParse
