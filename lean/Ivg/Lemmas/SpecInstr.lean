import Ivg.Lemmas.SpecNum
import Ivg.Lemmas.SpecZ2O
import Ivg.Lemmas.Decoder
/-!
# C03, layer 2: opcode dispatch, single instructions and the instruction loop

`FFV0.instruction` looks the opcode up in the tables transcribed from the specification and reads the
operands the table entry asks for; the model (`Dec.decodeStyling` / `Dec.decodeDrawing`) is the Go
`if opcode < … else if …` chain.  This file proves, for every mode and every byte string, that the model
accepts an instruction iff the specification does and then delivers the same calls, the same next
mode and the same remaining bytes; and lifts this to the whole instruction loop.
-/
namespace Ivg.SpecL
open Ivg Num Codec Dec DecL
open Ivg.Spec

set_option linter.constructorNameAsVariable false

deriving instance DecidableEq for Ivg.Spec.FFV0.Styling
deriving instance DecidableEq for Ivg.Spec.FFV0.Drawing

/-! ## numbers, continued -/

/-- `zeroToOne_eq`: the spec's zero-to-one form is the model's `decodeZeroToOne`, for all byte strings. -/
theorem zeroToOne_eq (b : Bytes) : FFV0.zeroToOne b = Dec.decodeZeroToOne b :=
  zeroToOne_eq_of z2o_one z2o_two b

/-- the model decoder for a number form -/
def numberDec : FFV0.NumForm → Bytes → Option (F32 × Bytes)
  | .real => Dec.decodeReal
  | .coordinate => Dec.decodeCoordinate
  | .zeroToOne => Dec.decodeZeroToOne

theorem number_eq (form : FFV0.NumForm) (b : Bytes) : FFV0.number form b = numberDec form b := by
  cases form
  · exact real_eq b
  · exact coordinate_eq b
  · exact zeroToOne_eq b

/-- `n` coordinates: same values and rest, or both fail -/
theorem coords_eq : ∀ (n : Nat) (b : Bytes), (decodeCoordinates n b).2 = FFV0.coords n b
  | 0, b => rfl
  | n + 1, b => by
    simp only [decodeCoordinates, FFV0.coords, decodeNumber, coordinate_eq]
    cases h : Dec.decodeCoordinate b with
    | none => rfl
    | some p =>
      obtain ⟨x, rest⟩ := p
      have ih := coords_eq n rest
      simp only
      rw [← ih]
      rcases decodeCoordinates n rest with ⟨its, _ | ⟨xs, rest'⟩⟩ <;> rfl

/-! ## the specification's instruction semantics, factored by table entry

`FFV0.instruction` is `lookup` followed by a `match` on the table entry.  `stylingSem` / `drawingSem`
name the arms of that match (definitionally: `instruction_styling`, `instruction_drawing` are `rfl`). -/

def stylingSem : FFV0.Styling → Bytes → Option (List (Call F32) × FFV0.Mode × Bytes)
  | .setCSel v, b => some ([.setCSel (FFV0.u8 v)], .styling, b)
  | .setNSel v, b => some ([.setNSel (FFV0.u8 v)], .styling, b)
  | .setCReg form adj incr, b =>
    match FFV0.color form b with
    | none => none
    | some (c, b) => some ([.setCReg (FFV0.u8 adj) incr c], .styling, b)
  | .setNReg form adj incr, b =>
    match FFV0.number form b with
    | none => none
    | some (f, b) => some ([.setNReg (FFV0.u8 adj) incr f], .styling, b)
  | .startPath adj, b =>
    match FFV0.coords 2 b with
    | some ([x, y], b) => some ([.startPath (FFV0.u8 adj) x y], .drawing, b)
    | _ => none
  | .setLOD, b =>
    match FFV0.real b with
    | none => none
    | some (lod0, b) =>
      match FFV0.real b with
      | none => none
      | some (lod1, b) => some ([.setLOD lod0 lod1], .styling, b)

def one2 (v : Verb2) (b : Bytes) : Option (Call F32 × Bytes) :=
  match FFV0.coords 2 b with
  | some ([x, y], b) => some (.d2 v x y, b) | _ => none
def one4 (v : Verb4) (b : Bytes) : Option (Call F32 × Bytes) :=
  match FFV0.coords 4 b with
  | some ([x1, y1, x, y], b) => some (.d4 v x1 y1 x y, b) | _ => none
def one6 (v : Verb6) (b : Bytes) : Option (Call F32 × Bytes) :=
  match FFV0.coords 6 b with
  | some ([x1, y1, x2, y2, x, y], b) => some (.d6 v x1 y1 x2 y2 x y, b) | _ => none

def drawingSem : FFV0.Drawing → Bytes → Option (List (Call F32) × FFV0.Mode × Bytes)
  | .rep2 v rc, b => (FFV0.repeated (one2 v) rc b).map fun (cs, b) => (cs, .drawing, b)
  | .rep4 v rc, b => (FFV0.repeated (one4 v) rc b).map fun (cs, b) => (cs, .drawing, b)
  | .rep6 v rc, b => (FFV0.repeated (one6 v) rc b).map fun (cs, b) => (cs, .drawing, b)
  | .arcs relative rc, b => (FFV0.repeated (FFV0.arcOperands relative) rc b).map fun (cs, b) => (cs, .drawing, b)
  | .closeEnd, b => some ([.closeEnd], .styling, b)
  | .closeMove relative, b =>
    match FFV0.coords 2 b with
    | some ([x, y], b) => some ([.d2 (if relative then .y else .Y) x y], .drawing, b)
    | _ => none
  | .one v, b =>
    match FFV0.coords 1 b with
    | some ([x], b) => some ([.d1 v x], .drawing, b)
    | _ => none

theorem instruction_styling (op : UInt8) (b : Bytes) :
    FFV0.instruction .styling (op :: b) =
      (FFV0.lookup FFV0.stylingTable op.toNat).bind fun d => stylingSem d b := by
  simp only [FFV0.instruction]
  cases FFV0.lookup FFV0.stylingTable op.toNat with
  | none => rfl
  | some d => cases d <;> rfl

theorem instruction_drawing (op : UInt8) (b : Bytes) :
    FFV0.instruction .drawing (op :: b) =
      (FFV0.lookup FFV0.drawingTable op.toNat).bind fun d => drawingSem d b := by
  simp only [FFV0.instruction]
  cases FFV0.lookup FFV0.drawingTable op.toNat with
  | none => rfl
  | some d => cases d <;> rfl

/-! ## dispatch: the `if` chains of the model against the tables of the specification -/

def cregFormOf (sel : Nat) : FFV0.ColorForm :=
  match sel with
  | 0 => .one | 1 => .two | 2 => .threeDirect | 3 => .four | _ => .threeIndirect

def nregFormOf (sel : Nat) : FFV0.NumForm :=
  match sel with
  | 0 => .real | 1 => .coordinate | _ => .zeroToOne

theorem cregSel_eq (sel : Nat) : (cregSel sel).2.2 = colorDec (cregFormOf sel) := by
  match sel with
  | 0 => rfl | 1 => rfl | 2 => rfl | 3 => rfl | _ + 4 => rfl

theorem nregSel_eq (sel : Nat) : (nregSel sel).2 = numberDec (nregFormOf sel) := by
  match sel with
  | 0 => rfl | 1 => rfl | _ + 2 => rfl

/-- what `decodeStyling`'s `if` chain makes of an opcode (same conditions, same bit operations),
    as a table entry of the specification; `none` = "unsupported styling opcode" -/
def stylingClass (op : UInt8) : Option FFV0.Styling :=
  if op < 0x80 then
    if op < 0x40 then some (.setCSel (op &&& 0x3f).toNat) else some (.setNSel (op &&& 0x3f).toNat)
  else if op < 0xa8 then
    some (.setCReg (cregFormOf ((op - 0x80) >>> 3).toNat) (adjOf op).toNat (op &&& 0x07 == 7))
  else if op < 0xc0 then
    some (.setNReg (nregFormOf ((op - 0xa8) >>> 3).toNat) (adjOf op).toNat (op &&& 0x07 == 7))
  else if op < 0xc7 then some (.startPath (op &&& 0x07).toNat)
  else if op = 0xc7 then some .setLOD
  else none

set_option maxRecDepth 100000 in
/-- `styling_dispatch`: for all 256 opcodes the table of "Styling Opcodes" assigns what the model's
    chain of comparisons selects: operation, selector value, ADJ, increment variant, colour / number
    form; and it has no entry exactly where the model reports an unsupported opcode. -/
theorem styling_dispatch : ∀ op : UInt8, FFV0.lookup FFV0.stylingTable op.toNat = stylingClass op := by
  decide +kernel

/-- the spec's repeated operation for the model's `RepOp` -/
def repDesc : RepOp → Nat → FFV0.Drawing
  | .L, n => .rep2 .L n | .l, n => .rep2 .l n | .T, n => .rep2 .T n | .t, n => .rep2 .t n
  | .Q, n => .rep4 .Q n | .q, n => .rep4 .q n | .S, n => .rep4 .S n | .s, n => .rep4 .s n
  | .C, n => .rep6 .C n | .c, n => .rep6 .c n
  | .A, n => .arcs false n | .a, n => .arcs true n

/-- what `decodeDrawing`'s `if` chain makes of an opcode; `none` = "unsupported drawing opcode" -/
def drawingClass (op : UInt8) : Option FFV0.Drawing :=
  if op < 0xe0 then
    some (repDesc (repOpOf (op >>> 4).toNat)
      (if (op >>> 4).toNat < 4 then 1 + (op &&& 0x1f).toNat else 1 + (op &&& 0x0f).toNat))
  else if op = 0xe1 then some .closeEnd
  else if op = 0xe2 then some (.closeMove false)
  else if op = 0xe3 then some (.closeMove true)
  else if op = 0xe6 then some (.one .H)
  else if op = 0xe7 then some (.one .h)
  else if op = 0xe8 then some (.one .V)
  else if op = 0xe9 then some (.one .v)
  else none

set_option maxRecDepth 100000 in
/-- `drawing_dispatch`: for all 256 opcodes the table of "Drawing Opcodes" assigns what the model
    selects: operation, absolute/relative variant, repeat count (1..32 for L/l, 1..16 otherwise);
    no entry exactly for the model's unsupported opcodes (0xe0, 0xe4, 0xe5, 0xea..0xff). -/
theorem drawing_dispatch : ∀ op : UInt8, FFV0.lookup FFV0.drawingTable op.toNat = drawingClass op := by
  decide +kernel

/-! ## agreement of a model step with a specification step -/

def dm : FFV0.Mode → DMode
  | .styling => .styling
  | .drawing => .drawing

/-- the model's result `r` of one instruction agrees with the specification's `s`: both reject, or
    both accept with the same next mode, the same remaining bytes and the same delivered calls -/
def Agrees (r : List Item × Except DecErr (DMode × Bytes))
    (s : Option (List (Call F32) × FFV0.Mode × Bytes)) : Prop :=
  match s with
  | some (cs, m, rest) => r.2 = .ok (dm m, rest) ∧ callsOf r.1 = cs
  | none => ∃ e, r.2 = .error e

theorem agrees_congr {r : List Item × Except DecErr (DMode × Bytes)}
    {s s' : Option (List (Call F32) × FFV0.Mode × Bytes)} (h : s = s') (h' : Agrees r s') : Agrees r s :=
  h ▸ h'

theorem u8_toNat (x : UInt8) : FFV0.u8 x.toNat = x := by simp [FFV0.u8]

/-! ### styling -/

theorem twoNum_agrees (dnf : Bytes → Option (F32 × Bytes)) (l0 : Item) (hl0 : callsOf [l0] = [])
    (mk : F32 → F32 → Call F32) (m : FFV0.Mode) (b : Bytes) :
    Agrees (twoNum dnf l0 mk (dm m) b)
      (match dnf b with
       | none => none
       | some (x, b) =>
         match dnf b with
         | none => none
         | some (y, b) => some ([mk x y], m, b)) := by
  unfold twoNum decodeNumber
  rcases h1 : dnf b with _ | ⟨x, b1⟩
  · exact ⟨_, rfl⟩
  · simp only
    rcases h2 : dnf b1 with _ | ⟨y, b2⟩
    · exact ⟨_, rfl⟩
    · refine ⟨rfl, ?_⟩
      cases l0 with
      | line l => simp
      | call c => simp at hl0

theorem coords2_as_two (b : Bytes) :
    FFV0.coords 2 b = (match Dec.decodeCoordinate b with
       | none => none
       | some (x, b) =>
         match Dec.decodeCoordinate b with
         | none => none
         | some (y, b) => some ([x, y], b)) := by
  simp only [FFV0.coords, coordinate_eq]
  rcases Dec.decodeCoordinate b with _ | ⟨x, b1⟩
  · rfl
  · simp only
    rcases Dec.decodeCoordinate b1 with _ | ⟨y, b2⟩ <;> rfl

/-- the styling half of `instruction_eq` -/
theorem styling_agrees (b : Bytes) : Agrees (decodeStyling b) (FFV0.instruction .styling b) := by
  rcases b with _ | ⟨op, rest⟩
  · exact ⟨_, rfl⟩
  rw [instruction_styling, styling_dispatch]
  by_cases h1 : op < 0x80
  · by_cases h2 : op < 0x40
    · have hc : stylingClass op = some (.setCSel (op &&& 0x3f).toNat) := by simp [stylingClass, h1, h2]
      have hm : decodeStyling (op :: rest) =
          ([.line ⟨[op], .setCSel (op &&& 0x3f)⟩, .call (.setCSel (op &&& 0x3f))], .ok (.styling, rest)) := by
        simp [decodeStyling, h1, h2]
      rw [hc, hm]
      exact ⟨rfl, by simp only [u8_toNat, callsOf_line, callsOf_call, callsOf_nil]⟩
    · have hc : stylingClass op = some (.setNSel (op &&& 0x3f).toNat) := by simp [stylingClass, h1, h2]
      have hm : decodeStyling (op :: rest) =
          ([.line ⟨[op], .setNSel (op &&& 0x3f)⟩, .call (.setNSel (op &&& 0x3f))], .ok (.styling, rest)) := by
        simp [decodeStyling, h1, h2]
      rw [hc, hm]
      exact ⟨rfl, by simp only [u8_toNat, callsOf_line, callsOf_call, callsOf_nil]⟩
  · by_cases h2 : op < 0xa8
    · have hc : stylingClass op =
          some (.setCReg (cregFormOf ((op - 0x80) >>> 3).toNat) (adjOf op).toNat (op &&& 0x07 == 7)) := by
        simp [stylingClass, h1, h2]
      rw [hc, decodeStyling_creg op rest h1 h2]
      simp only [Option.bind_some, stylingSem, cregBody, color_eq, ← cregSel_eq, u8_toNat]
      rcases (cregSel ((op - 0x80) >>> 3).toNat).2.2 rest with _ | ⟨c, rest'⟩
      · exact ⟨_, rfl⟩
      · exact ⟨rfl, by simp⟩
    · by_cases h3 : op < 0xc0
      · have hc : stylingClass op =
            some (.setNReg (nregFormOf ((op - 0xa8) >>> 3).toNat) (adjOf op).toNat (op &&& 0x07 == 7)) := by
          simp [stylingClass, h1, h2, h3]
        rw [hc, decodeStyling_nreg op rest h1 h2 h3]
        simp only [Option.bind_some, stylingSem, nregBody, number_eq, ← nregSel_eq, u8_toNat]
        rcases (nregSel ((op - 0xa8) >>> 3).toNat).2 rest with _ | ⟨c, rest'⟩
        · exact ⟨_, rfl⟩
        · exact ⟨rfl, by simp⟩
      · by_cases h4 : op < 0xc7
        · have hc : stylingClass op = some (.startPath (op &&& 0x07).toNat) := by
            simp [stylingClass, h1, h2, h3, h4]
          rw [hc, decodeStyling_startPath op rest h1 h2 h3 h4]
          have := twoNum_agrees Dec.decodeCoordinate (.line ⟨[op], .startPath (op &&& 0x07)⟩) rfl
            (fun x y => .startPath (op &&& 0x07) x y) .drawing rest
          simp only [Option.bind_some, stylingSem, u8_toNat]
          refine agrees_congr ?_ this
          rw [coords2_as_two]
          rcases Dec.decodeCoordinate rest with _ | ⟨x, b1⟩
          · rfl
          · simp only
            rcases Dec.decodeCoordinate b1 with _ | ⟨y, b2⟩ <;> rfl
        · by_cases h5 : op = 0xc7
          · subst h5
            have hc : stylingClass 0xc7 = some .setLOD := by decide
            rw [hc, decodeStyling_setLOD rest]
            have := twoNum_agrees Dec.decodeReal (.line ⟨[0xc7], .setLOD⟩) rfl
              (fun x y => .setLOD x y) .styling rest
            simp only [Option.bind_some, stylingSem, real_eq]
            exact this
          · have hc : stylingClass op = none := by simp [stylingClass, h1, h2, h3, h4, h5]
            have hm : decodeStyling (op :: rest) = ([], .error .unsupportedStylingOpcode) := by
              simp [decodeStyling, h1, h2, h3, h4, h5]
            rw [hc, hm]
            exact ⟨_, rfl⟩

/-! ### drawing -/

/-- arc flags: "The 0x01 bit … is the large-arc-flag and the 0x02 bit is the sweep-flag" -/
theorem flag_eq (n : Nat) : (n % 2 != 0) = decide (n % 2 = 1) := by
  rcases Nat.mod_two_eq_zero_or_one n with h | h <;> simp [h]

/-- one arc repetition: same operands (two coordinates, a zero-to-one angle, a natural of flags,
    two coordinates), same flag bits -/
theorem arc_eq (rel : Bool) (b : Bytes) : (decodeArcRep rel b).2 = FFV0.arcOperands rel b := by
  unfold decodeArcRep FFV0.arcOperands
  rw [← coords_eq]
  rcases decodeCoordinates 2 b with ⟨its1, _ | ⟨xs, b1⟩⟩
  · rfl
  · rcases xs with _ | ⟨rx, _ | ⟨ry, _ | ⟨z, t⟩⟩⟩
    · rfl
    · rfl
    · simp only [zeroToOne_eq, natural_eq]
      rcases Dec.decodeZeroToOne b1 with _ | ⟨rot, b2⟩
      · rfl
      · simp only
        rcases Dec.decodeNatural b2 with _ | ⟨fl, w, b3⟩
        · rfl
        · simp only
          rw [← coords_eq]
          rcases decodeCoordinates 2 b3 with ⟨its2, _ | ⟨ys, b4⟩⟩
          · rfl
          · rcases ys with _ | ⟨x, _ | ⟨y, _ | ⟨z, t⟩⟩⟩
            · rfl
            · rfl
            · simp only [flag_eq]
            · rfl
    · rfl

/-- the spec's reader of one repetition, per model operation -/
def oneSem : RepOp → Bytes → Option (Call F32 × Bytes)
  | .L => one2 .L | .l => one2 .l | .T => one2 .T | .t => one2 .t
  | .Q => one4 .Q | .q => one4 .q | .S => one4 .S | .s => one4 .s
  | .C => one6 .C | .c => one6 .c
  | .A => FFV0.arcOperands false | .a => FFV0.arcOperands true

theorem decodeRep2 (op : RepOp) (v : Verb2) (hn : op.nCoords = 2) (hA : op ≠ .A) (ha : op ≠ .a)
    (hmk : ∀ cs, op.mkCall cs = match cs with | [x, y] => some (.d2 v x y) | _ => none) (b : Bytes) :
    (decodeRep op b).2 = one2 v b := by
  have : decodeRep op b = match decodeCoordinates op.nCoords b with
      | (its, none) => (its, none)
      | (its, some (cs, rest)) =>
        match op.mkCall cs with
        | none => (its, none)
        | some c => (its, some (c, rest)) := by
    cases op <;> first | rfl | exact absurd rfl hA | exact absurd rfl ha
  rw [this, hn, one2, ← coords_eq]
  rcases decodeCoordinates 2 b with ⟨its, _ | ⟨xs, rest⟩⟩
  · rfl
  · simp only [hmk]
    rcases xs with _ | ⟨x, _ | ⟨y, _ | ⟨z, t⟩⟩⟩ <;> rfl

theorem decodeRep4 (op : RepOp) (v : Verb4) (hn : op.nCoords = 4) (hA : op ≠ .A) (ha : op ≠ .a)
    (hmk : ∀ cs, op.mkCall cs = match cs with | [x1, y1, x, y] => some (.d4 v x1 y1 x y) | _ => none)
    (b : Bytes) : (decodeRep op b).2 = one4 v b := by
  have : decodeRep op b = match decodeCoordinates op.nCoords b with
      | (its, none) => (its, none)
      | (its, some (cs, rest)) =>
        match op.mkCall cs with
        | none => (its, none)
        | some c => (its, some (c, rest)) := by
    cases op <;> first | rfl | exact absurd rfl hA | exact absurd rfl ha
  rw [this, hn, one4, ← coords_eq]
  rcases decodeCoordinates 4 b with ⟨its, _ | ⟨xs, rest⟩⟩
  · rfl
  · simp only [hmk]
    rcases xs with _ | ⟨x1, _ | ⟨x2, _ | ⟨x3, _ | ⟨x4, _ | ⟨z, t⟩⟩⟩⟩⟩ <;> rfl

theorem decodeRep6 (op : RepOp) (v : Verb6) (hn : op.nCoords = 6) (hA : op ≠ .A) (ha : op ≠ .a)
    (hmk : ∀ cs, op.mkCall cs =
      match cs with | [x1, y1, x2, y2, x, y] => some (.d6 v x1 y1 x2 y2 x y) | _ => none)
    (b : Bytes) : (decodeRep op b).2 = one6 v b := by
  have : decodeRep op b = match decodeCoordinates op.nCoords b with
      | (its, none) => (its, none)
      | (its, some (cs, rest)) =>
        match op.mkCall cs with
        | none => (its, none)
        | some c => (its, some (c, rest)) := by
    cases op <;> first | rfl | exact absurd rfl hA | exact absurd rfl ha
  rw [this, hn, one6, ← coords_eq]
  rcases decodeCoordinates 6 b with ⟨its, _ | ⟨xs, rest⟩⟩
  · rfl
  · simp only [hmk]
    rcases xs with _ | ⟨x1, _ | ⟨x2, _ | ⟨x3, _ | ⟨x4, _ | ⟨x5, _ | ⟨x6, _ | ⟨z, t⟩⟩⟩⟩⟩⟩⟩ <;> rfl

/-- one repetition of any of the twelve repeated operations: same operands, same call -/
theorem decodeRep_eq (op : RepOp) (b : Bytes) : (decodeRep op b).2 = oneSem op b := by
  cases op
  case A => exact arc_eq false b
  case a => exact arc_eq true b
  case L => exact decodeRep2 .L .L rfl (by decide) (by decide) (fun cs => by unfold RepOp.mkCall; split <;> simp_all) b
  case l => exact decodeRep2 .l .l rfl (by decide) (by decide) (fun cs => by unfold RepOp.mkCall; split <;> simp_all) b
  case T => exact decodeRep2 .T .T rfl (by decide) (by decide) (fun cs => by unfold RepOp.mkCall; split <;> simp_all) b
  case t => exact decodeRep2 .t .t rfl (by decide) (by decide) (fun cs => by unfold RepOp.mkCall; split <;> simp_all) b
  case Q => exact decodeRep4 .Q .Q rfl (by decide) (by decide) (fun cs => by unfold RepOp.mkCall; split <;> simp_all) b
  case q => exact decodeRep4 .q .q rfl (by decide) (by decide) (fun cs => by unfold RepOp.mkCall; split <;> simp_all) b
  case S => exact decodeRep4 .S .S rfl (by decide) (by decide) (fun cs => by unfold RepOp.mkCall; split <;> simp_all) b
  case s => exact decodeRep4 .s .s rfl (by decide) (by decide) (fun cs => by unfold RepOp.mkCall; split <;> simp_all) b
  case C => exact decodeRep6 .C .C rfl (by decide) (by decide) (fun cs => by unfold RepOp.mkCall; split <;> simp_all) b
  case c => exact decodeRep6 .c .c rfl (by decide) (by decide) (fun cs => by unfold RepOp.mkCall; split <;> simp_all) b

/-- the repeat loop: `n` repetitions are accepted by the model iff by the spec, with the same calls
    and rest (the `first` flag only affects disassembly lines) -/
theorem reps_eq (op : RepOp) : ∀ (n : Nat) (first : Bool) (b : Bytes),
    match FFV0.repeated (oneSem op) n b with
    | some (cs, rest) => (decodeReps op n first b).2 = .ok rest ∧ callsOf (decodeReps op n first b).1 = cs
    | none => ∃ e, (decodeReps op n first b).2 = .error e
  | 0, first, b => ⟨rfl, rfl⟩
  | n + 1, first, b => by
    have h1 := decodeRep_eq op b
    have hc := decodeRep_calls op b
    simp only [FFV0.repeated, decodeReps]
    rw [← h1]
    generalize decodeRep op b = r at hc ⊢
    rcases r with ⟨its, _ | ⟨c, rest⟩⟩
    · exact ⟨_, rfl⟩
    · simp only at hc ⊢
      have ih := reps_eq op n false rest
      generalize FFV0.repeated (oneSem op) n rest = s at ih ⊢
      rcases s with _ | ⟨cs, rest'⟩
      · simp only at ih ⊢
        obtain ⟨e, he⟩ := ih
        exact ⟨e, he⟩
      · simp only at ih ⊢
        refine ⟨ih.1, ?_⟩
        simp only [callsOf_append, callsOf_implicitPre, hc, ih.2]
        simp

theorem drawingSem_rep (op : RepOp) (n : Nat) (b : Bytes) :
    drawingSem (repDesc op n) b =
      (FFV0.repeated (oneSem op) n b).map fun (cs, b) => (cs, .drawing, b) := by
  cases op <;> rfl

theorem single2_agrees (opcode : UInt8) (kind : LineKind) (mk : F32 → F32 → Call F32) (b : Bytes) :
    Agrees (single2 opcode kind mk b)
      (match FFV0.coords 2 b with
       | some ([x, y], b) => some ([mk x y], .drawing, b)
       | _ => none) := by
  unfold single2
  rw [← coords_eq]
  have hc := (decodeCoordinates_calls 2 b).1
  generalize decodeCoordinates 2 b = r at hc ⊢
  rcases r with ⟨its, _ | ⟨xs, rest⟩⟩
  · exact ⟨_, rfl⟩
  · rcases xs with _ | ⟨x, _ | ⟨y, _ | ⟨z, t⟩⟩⟩
    · exact ⟨_, rfl⟩
    · exact ⟨_, rfl⟩
    · simp only at hc
      exact ⟨rfl, by simp [hc]⟩
    · exact ⟨_, rfl⟩

theorem single1_agrees (opcode : UInt8) (kind : LineKind) (mk : F32 → Call F32) (b : Bytes) :
    Agrees (single1 opcode kind mk b)
      (match FFV0.coords 1 b with
       | some ([x], b) => some ([mk x], .drawing, b)
       | _ => none) := by
  unfold single1
  rw [← coords_eq]
  have hc := (decodeCoordinates_calls 1 b).1
  generalize decodeCoordinates 1 b = r at hc ⊢
  rcases r with ⟨its, _ | ⟨xs, rest⟩⟩
  · exact ⟨_, rfl⟩
  · rcases xs with _ | ⟨x, _ | ⟨z, t⟩⟩
    · exact ⟨_, rfl⟩
    · simp only at hc
      exact ⟨rfl, by simp [hc]⟩
    · exact ⟨_, rfl⟩

/-- the drawing half of `instruction_eq` -/
theorem drawing_agrees (b : Bytes) : Agrees (decodeDrawing b) (FFV0.instruction .drawing b) := by
  rcases b with _ | ⟨op, rest⟩
  · exact ⟨_, rfl⟩
  rw [instruction_drawing, drawing_dispatch]
  by_cases h1 : op < 0xe0
  · have hc : drawingClass op = some (repDesc (repOpOf (op >>> 4).toNat)
        (if (op >>> 4).toNat < 4 then 1 + (op &&& 0x1f).toNat else 1 + (op &&& 0x0f).toNat)) := by
      simp [drawingClass, h1]
    rw [hc, decodeDrawing_reps op rest h1]
    simp only [Option.bind_some, drawingSem_rep]
    generalize repOpOf (op >>> 4).toNat = rop
    generalize (if (op >>> 4).toNat < 4 then 1 + (op &&& 0x1f).toNat else 1 + (op &&& 0x0f).toNat) = n
    have := reps_eq rop n true rest
    generalize FFV0.repeated (oneSem rop) n rest = s at this ⊢
    rcases s with _ | ⟨cs, rest'⟩
    · simp only at this
      obtain ⟨e, he⟩ := this
      rcases hr : decodeReps rop n true rest with ⟨its, (e' | r')⟩ <;> rw [hr] at he
      · exact ⟨e', rfl⟩
      · simp at he
    · simp only at this
      obtain ⟨h2, h3⟩ := this
      rcases hr : decodeReps rop n true rest with ⟨its, (e' | r')⟩ <;> rw [hr] at h2 h3
      · simp at h2
      · simp only [Except.ok.injEq] at h2
        subst h2
        exact ⟨rfl, by simpa using h3⟩
  · by_cases h2 : op = 0xe1
    · subst h2
      have hc : drawingClass 0xe1 = some .closeEnd := by decide
      rw [hc]
      simp only [Option.bind_some, drawingSem]
      have hm : decodeDrawing (0xe1 :: rest) =
          ([.line ⟨[0xe1], .closeEnd⟩, .call .closeEnd], .ok (.styling, rest)) := rfl
      rw [hm]
      exact ⟨rfl, rfl⟩
    · by_cases h3 : op = 0xe2
      · subst h3
        exact single2_agrees 0xe2 .closeAbs (fun x y => .d2 .Y x y) rest
      · by_cases h4 : op = 0xe3
        · subst h4
          exact single2_agrees 0xe3 .closeRel (fun x y => .d2 .y x y) rest
        · by_cases h5 : op = 0xe6
          · subst h5
            exact single1_agrees 0xe6 .absH (fun x => .d1 .H x) rest
          · by_cases h6 : op = 0xe7
            · subst h6
              exact single1_agrees 0xe7 .relH (fun x => .d1 .h x) rest
            · by_cases h7 : op = 0xe8
              · subst h7
                exact single1_agrees 0xe8 .absV (fun x => .d1 .V x) rest
              · by_cases h8 : op = 0xe9
                · subst h8
                  exact single1_agrees 0xe9 .relV (fun x => .d1 .v x) rest
                · have hc : drawingClass op = none := by
                    simp [drawingClass, h1, h2, h3, h4, h5, h6, h7, h8]
                  have hm : decodeDrawing (op :: rest) = ([], .error .unsupportedDrawingOpcode) := by
                    simp [decodeDrawing, h1, h2, h3, h4, h5, h6, h7, h8]
                  rw [hc, hm]
                  exact ⟨_, rfl⟩

/-- `instruction_eq`: in either mode and for every byte string, the model's `stepDec` rejects exactly
    when `FFV0.instruction` does (reserved opcode or incomplete operands); otherwise it delivers the
    same calls, switches to the same mode and leaves the same bytes. -/
theorem instruction_eq (m : FFV0.Mode) (b : Bytes) : Agrees (stepDec (dm m) b) (FFV0.instruction m b) := by
  cases m
  · exact styling_agrees b
  · exact drawing_agrees b

/-! ## the instruction loop -/

/-- the whole instruction sequence (`fuel` larger than the input on the spec side; the model's loop is
    taken with its canonical fuel, `loop_fuel_irrelevant`): accepted by the spec iff the model's loop
    ends without error, and then the delivered calls are the spec's -/
theorem instructions_eq : ∀ (fuel : Nat) (m : FFV0.Mode) (b : Bytes), b.length < fuel →
    match FFV0.instructions fuel m b with
    | some cs => (run (dm m) b).2 = none ∧ callsOf (run (dm m) b).1 = cs
    | none => (run (dm m) b).2 ≠ none
  | 0, _, _, h => absurd h (Nat.not_lt_zero _)
  | fuel + 1, m, [], _ => by
    simp [FFV0.instructions, run_nil]
  | fuel + 1, m, x :: s, h => by
    have hag := instruction_eq m (x :: s)
    unfold FFV0.instructions
    rcases hi : FFV0.instruction m (x :: s) with _ | ⟨cs, m', rest⟩ <;> rw [hi] at hag
    · obtain ⟨e, he⟩ := hag
      rcases hs : stepDec (dm m) (x :: s) with ⟨its, r⟩
      rw [hs] at he
      simp only at he
      subst he
      rw [run_step_error (by simp) hs]
      simp
    · obtain ⟨h2, h3⟩ := hag
      rcases hs : stepDec (dm m) (x :: s) with ⟨its, r⟩
      rw [hs] at h2 h3
      simp only at h2 h3
      subst h2
      have hl := stepDec_rest_lt hs
      simp only [List.length_cons] at hl h
      rw [run_step_ok hs]
      have ih := instructions_eq fuel m' rest (by omega)
      simp only
      generalize FFV0.instructions fuel m' rest = s' at ih ⊢
      rcases s' with _ | cs' <;> simp only at ih ⊢
      · exact ih
      · exact ⟨ih.1, by rw [callsOf_append, h3, ih.2]⟩

end Ivg.SpecL
