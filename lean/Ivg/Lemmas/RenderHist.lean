import Ivg.Lemmas.RendererVM
import Ivg.Lemmas.Selectors
/-!
# Histories of a long-lived Renderer: `SetRasterizer` interleaved with Destination calls

A `render.Renderer` is reused: `SetRasterizer(dst, r)` is called before a `Decode`, between `Decode`s and
between the paths of one graphic; every `Decode` starts with `Reset(viewBox, palette)`.  The theorems of
C04/C05/C14/C15/C17 are about ONE `setRasterizer` followed by ONE `reset`.  Here the Renderer model is run
over histories `List (RenOp α)` (`RenOp.call c` = a Destination call, `RenOp.rast r` = `SetRasterizer(_, r)`)
and the theorems are extended to every state such a history reaches.  Everything in this file is generic
in the number types; the exact-arithmetic corollaries are in `Ivg/Lemmas/RenderHistQ.lean`.
-/
namespace Ivg.Ren

/-- one event in the life of a Renderer: a Destination call or `SetRasterizer(_, r)` -/
inductive RenOp (α : Type)
  | call (c : Call α)
  | rast (r : Rect)

variable {α β : Type} [Arith α] [Arith β] [Wide α β]

/-- `rast r` is `SetRasterizer` with a fresh rasteriser and the rectangle `r`; it makes no rasteriser call -/
def Renderer.stepOp (arc : ArcFn α β) (posInf : α) (z : Renderer α β) : RenOp α → Out α β
  | .call c => z.step arc posInf c
  | .rast r => (z.setRasterizer r, [])

def Renderer.runOps (arc : ArcFn α β) (posInf : α) (z : Renderer α β) : List (RenOp α) → Out α β
  | [] => (z, [])
  | op :: ops =>
    let (z, o1) := z.stepOp arc posInf op
    let (z, o2) := z.runOps arc posInf ops
    (z, o1 ++ o2)

end Ivg.Ren

namespace Ivg.RenderHist
open Ivg Ivg.Ren Ivg.Grad Ivg.Spec.VM Ivg.Lemmas.RendererVM Ivg.RendererReset
set_option linter.unusedSectionVars false
set_option linter.constructorNameAsVariable false

variable {α β : Type} [Arith α] [Arith β] [Wide α β]

/-! ## running histories -/

theorem runOps_cons (arc : ArcFn α β) (posInf : α) (z : Renderer α β) (op : RenOp α) (ops : List (RenOp α)) :
    z.runOps arc posInf (op :: ops) =
      (((z.stepOp arc posInf op).1.runOps arc posInf ops).1,
       (z.stepOp arc posInf op).2 ++ ((z.stepOp arc posInf op).1.runOps arc posInf ops).2) := rfl

theorem runOps_append (arc : ArcFn α β) (posInf : α) (a b : List (RenOp α)) :
    ∀ z : Renderer α β, z.runOps arc posInf (a ++ b) =
      (((z.runOps arc posInf a).1.runOps arc posInf b).1,
       (z.runOps arc posInf a).2 ++ ((z.runOps arc posInf a).1.runOps arc posInf b).2) := by
  induction a with
  | nil => intro z; simp [Renderer.runOps]
  | cons c cs ih =>
    intro z
    rw [List.cons_append, runOps_cons, ih, runOps_cons]
    simp only [List.append_assoc]

/-- a history without `SetRasterizer` is a call sequence -/
theorem runOps_calls (arc : ArcFn α β) (posInf : α) (cs : List (Call α)) :
    ∀ z : Renderer α β, z.runOps arc posInf (cs.map .call) = z.run arc posInf cs := by
  induction cs with
  | nil => intro z; rfl
  | cons c cs ih =>
    intro z
    rw [List.map_cons, runOps_cons, Lemmas.RendererVM.run_cons, ih]
    rfl

theorem runOps_rast (arc : ArcFn α β) (posInf : α) (z : Renderer α β) (r : Rect) (ops : List (RenOp α)) :
    z.runOps arc posInf (.rast r :: ops) = (z.setRasterizer r).runOps arc posInf ops := by
  rw [runOps_cons]; rfl

theorem runOps_reset (arc : ArcFn α β) (posInf : α) (z : Renderer α β) (vb : ViewBox α) (pal : Palette)
    (ops : List (RenOp α)) :
    z.runOps arc posInf (.call (.reset vb pal) :: ops) = (z.reset posInf vb pal).runOps arc posInf ops := by
  rw [runOps_cons]; rfl

/-! ## (a) the transform is always the one of the current rectangle and the current viewBox -/

/-- the four transform fields are what `recalcTransform` computes from the CURRENT rectangle and viewBox -/
def TransformOK (z : Renderer α β) : Prop :=
  z.scaleX = Arith.ofInt z.r.dx / (z.viewBox.maxX - z.viewBox.minX) ∧ z.biasX = -z.viewBox.minX ∧
  z.scaleY = Arith.ofInt z.r.dy / (z.viewBox.maxY - z.viewBox.minY) ∧ z.biasY = -z.viewBox.minY

instance [DecidableEq α] (z : Renderer α β) : Decidable (TransformOK z) := by unfold TransformOK; exact inferInstance

theorem transformOK_iff (z : Renderer α β) : TransformOK z ↔ z.recalcTransform = z := by
  rcases z with ⟨r, sx, bx, sy, by_, vb, pal, l0, l1, cs, ns, dis, pst, psx, psy, fill, cr, nr, px, py, fx, fy⟩
  simp only [TransformOK, Renderer.recalcTransform, Renderer.mk.injEq, true_and, and_true]
  constructor
  · rintro ⟨h1, h2, h3, h4⟩; exact ⟨h1.symm, h2.symm, h3.symm, h4.symm⟩
  · rintro ⟨h1, h2, h3, h4⟩; exact ⟨h1.symm, h2.symm, h3.symm, h4.symm⟩

theorem transformOK_recalc (z : Renderer α β) : TransformOK z.recalcTransform := ⟨rfl, rfl, rfl, rfl⟩

/-- `SetRasterizer` establishes the invariant, whatever the state was -/
theorem transformOK_setRasterizer (z : Renderer α β) (r : Rect) : TransformOK (z.setRasterizer r) :=
  ⟨rfl, rfl, rfl, rfl⟩

/-- `Reset` establishes the invariant, whatever the state was -/
theorem transformOK_reset (z : Renderer α β) (posInf : α) (vb : ViewBox α) (pal : Palette) :
    TransformOK (z.reset posInf vb pal) := ⟨rfl, rfl, rfl, rfl⟩

def isReset : Call α → Bool
  | .reset _ _ => true
  | _ => false

/-- what the transform is computed from, and the transform -/
def geom (z : Renderer α β) := (z.r, z.viewBox, z.scaleX, z.biasX, z.scaleY, z.biasY)

/-- every call other than `Reset` leaves rectangle, viewBox and transform alone (any arc implementation) -/
theorem step_geom (arc : ArcFn α β) (posInf : α) (z : Renderer α β) (c : Call α) (hc : isReset c = false) :
    geom (z.step arc posInf c).1 = geom z := by
  cases hs : isStyling c
  · have h := step_regs arc posInf z c hs
    simp only [regs, Prod.mk.injEq] at h
    obtain ⟨h1, h2, h3, h4, h5, h6, -⟩ := h
    simp only [geom, h1, h2, h3, h4, h5, h6]
  · cases c <;> simp only [isStyling, Bool.false_eq_true] at hs
    case reset vb pal => cases hc
    case setCSel v => rfl
    case setNSel v => rfl
    case setLOD a b => rfl
    case setCReg adj incr col => cases incr <;> rfl
    case setNReg adj incr f => cases incr <;> rfl

theorem transformOK_of_geom {z z' : Renderer α β} (h : geom z' = geom z) (hz : TransformOK z) : TransformOK z' := by
  simp only [geom, Prod.mk.injEq] at h
  obtain ⟨h1, h2, h3, h4, h5, h6⟩ := h
  simp only [TransformOK, h1, h2, h3, h4, h5, h6]
  exact hz

/-- every Destination call preserves the invariant -/
theorem transformOK_step (arc : ArcFn α β) (posInf : α) (z : Renderer α β) (c : Call α) (hz : TransformOK z) :
    TransformOK (z.step arc posInf c).1 := by
  cases hc : isReset c
  · exact transformOK_of_geom (step_geom arc posInf z c hc) hz
  · cases c <;> simp only [isReset, Bool.false_eq_true] at hc
    exact transformOK_reset z posInf _ _

theorem transformOK_stepOp (arc : ArcFn α β) (posInf : α) (z : Renderer α β) (op : RenOp α) (hz : TransformOK z) :
    TransformOK (z.stepOp arc posInf op).1 := by
  cases op with
  | call c => exact transformOK_step arc posInf z c hz
  | rast r => exact transformOK_setRasterizer z r

theorem transformOK_runOps (arc : ArcFn α β) (posInf : α) (h : List (RenOp α)) :
    ∀ z : Renderer α β, TransformOK z → TransformOK (z.runOps arc posInf h).1 := by
  induction h with
  | nil => intro z hz; exact hz
  | cons op ops ih => intro z hz; rw [runOps_cons]; exact ih _ (transformOK_stepOp arc posInf z op hz)

/-- the events that (re)compute the transform -/
def settles : RenOp α → Bool
  | .rast _ => true
  | .call c => isReset c

/-- **(a), invariant form.**  From ANY state (in particular the zero value, which does not satisfy the
    invariant at float32: `0/0` is NaN and `-0` is not `+0`), once the history contains one
    `SetRasterizer` or one `Reset`, the transform is the recalculated one — whatever came before or after. -/
theorem transformOK_of_settled (arc : ArcFn α β) (posInf : α) (h : List (RenOp α)) :
    ∀ z0 : Renderer α β, h.any settles = true → TransformOK (z0.runOps arc posInf h).1 := by
  induction h with
  | nil => intro z0 hs; cases hs
  | cons op ops ih =>
    intro z0 hs
    rw [runOps_cons]
    cases hop : settles op
    · rw [List.any_cons, hop, Bool.false_or] at hs
      exact ih _ hs
    · refine transformOK_runOps arc posInf ops _ ?_
      cases op with
      | rast r => exact transformOK_setRasterizer z0 r
      | call c =>
        cases c <;> simp only [settles, isReset, Bool.false_eq_true] at hop
        exact transformOK_reset z0 posInf _ _

/-- the rectangle after a history: the (normalised) rectangle of the last `SetRasterizer` -/
def rectAfter (R : Rect) : List (RenOp α) → Rect
  | [] => R
  | .rast r :: ops => rectAfter (Rect.norm r) ops
  | .call _ :: ops => rectAfter R ops

/-- the viewBox after a history: the viewBox of the last `Reset` -/
def viewBoxAfter (vb : ViewBox α) : List (RenOp α) → ViewBox α
  | [] => vb
  | .call (.reset vb' _) :: ops => viewBoxAfter vb' ops
  | _ :: ops => viewBoxAfter vb ops

theorem runOps_r (arc : ArcFn α β) (posInf : α) (h : List (RenOp α)) :
    ∀ z : Renderer α β, (z.runOps arc posInf h).1.r = rectAfter z.r h := by
  induction h with
  | nil => intro z; rfl
  | cons op ops ih =>
    intro z
    rw [runOps_cons, ih]
    cases op with
    | rast r => rfl
    | call c =>
      have : (z.step arc posInf c).1.r = z.r := step_r arc posInf z c
      simp only [Renderer.stepOp, this, rectAfter]

theorem viewBoxAfter_call (vb : ViewBox α) (c : Call α) (hc : isReset c = false) (ops : List (RenOp α)) :
    viewBoxAfter vb (.call c :: ops) = viewBoxAfter vb ops := by
  cases c <;> first | rfl | cases hc

theorem runOps_viewBox (arc : ArcFn α β) (posInf : α) (h : List (RenOp α)) :
    ∀ z : Renderer α β, (z.runOps arc posInf h).1.viewBox = viewBoxAfter z.viewBox h := by
  induction h with
  | nil => intro z; rfl
  | cons op ops ih =>
    intro z
    rw [runOps_cons, ih]
    cases op with
    | rast r => rfl
    | call c =>
      cases hc : isReset c
      · have h := step_geom arc posInf z c hc
        simp only [geom, Prod.mk.injEq] at h
        rw [viewBoxAfter_call _ c hc]
        simp only [Renderer.stepOp, h.2.1]
      · cases c <;> simp only [isReset, Bool.false_eq_true] at hc
        rfl

theorem rectAfter_append (R : Rect) (a b : List (RenOp α)) : rectAfter R (a ++ b) = rectAfter (rectAfter R a) b := by
  induction a generalizing R with
  | nil => rfl
  | cons op ops ih => cases op <;> simp only [List.cons_append, rectAfter, ih]

theorem rectAfter_calls (R : Rect) (cs : List (Call α)) : rectAfter R (cs.map .call) = R := by
  induction cs with
  | nil => rfl
  | cons c cs ih => simpa only [List.map_cons, rectAfter] using ih

theorem viewBoxAfter_append (vb : ViewBox α) (a b : List (RenOp α)) :
    viewBoxAfter vb (a ++ b) = viewBoxAfter (viewBoxAfter vb a) b := by
  induction a generalizing vb with
  | nil => rfl
  | cons op ops ih =>
    cases op with
    | rast r => simp only [List.cons_append, viewBoxAfter, ih]
    | call c => cases c <;> simp only [List.cons_append, viewBoxAfter, ih]

theorem viewBoxAfter_noReset (vb : ViewBox α) (cs : List (Call α)) (hcs : ∀ c ∈ cs, isReset c = false) :
    viewBoxAfter vb (cs.map .call) = vb := by
  induction cs with
  | nil => rfl
  | cons c cs ih =>
    rw [List.map_cons, viewBoxAfter_call vb c (hcs c (List.mem_cons_self ..))]
    exact ih (fun c h => hcs c (List.mem_cons_of_mem _ h))

/-- **(a), explicit form.**  In the state reached by ANY history that contains a `SetRasterizer` or a
    `Reset`, from ANY initial state: the rectangle is the one of the last `SetRasterizer`, the viewBox
    the one of the last `Reset`, and the transform is `recalcTransform` of exactly these two. -/
theorem transform_of_history (arc : ArcFn α β) (posInf : α) (z0 : Renderer α β) (h : List (RenOp α))
    (hs : h.any settles = true) :
    let z := (z0.runOps arc posInf h).1
    let R := rectAfter z0.r h
    let vb := viewBoxAfter z0.viewBox h
    z.r = R ∧ z.viewBox = vb ∧
    z.scaleX = Arith.ofInt R.dx / (vb.maxX - vb.minX) ∧ z.biasX = -vb.minX ∧
    z.scaleY = Arith.ofInt R.dy / (vb.maxY - vb.minY) ∧ z.biasY = -vb.minY := by
  have h1 := runOps_r arc posInf h z0
  have h2 := runOps_viewBox arc posInf h z0
  obtain ⟨t1, t2, t3, t4⟩ := transformOK_of_settled arc posInf h z0 hs
  rw [h1, h2] at t1 t3
  rw [h2] at t2 t4
  exact ⟨h1, h2, t1, t2, t3, t4⟩

/-- **(a) `setRasterizer_transform`.**  After ANY history `h` (from any state), `SetRasterizer r`, and any
    further calls `cs` other than `Reset` (styling, paths, …): the map used for the geometry that follows
    is the one of `r` and of the viewBox of the last `Reset` in `h`. -/
theorem setRasterizer_transform (arc : ArcFn α β) (posInf : α) (z0 : Renderer α β) (h : List (RenOp α))
    (r : Rect) (cs : List (Call α)) (hcs : ∀ c ∈ cs, isReset c = false) :
    let z := (z0.runOps arc posInf (h ++ .rast r :: cs.map .call)).1
    let vb := viewBoxAfter z0.viewBox h
    z.r = Rect.norm r ∧ z.viewBox = vb ∧
    z.scaleX = Arith.ofInt (Rect.norm r).dx / (vb.maxX - vb.minX) ∧ z.biasX = -vb.minX ∧
    z.scaleY = Arith.ofInt (Rect.norm r).dy / (vb.maxY - vb.minY) ∧ z.biasY = -vb.minY := by
  have hs : (h ++ RenOp.rast r :: cs.map RenOp.call).any settles = true := by
    simp [settles]
  have hR : rectAfter z0.r (h ++ .rast r :: cs.map .call) = Rect.norm r := by
    rw [rectAfter_append]; simp only [rectAfter]; exact rectAfter_calls _ cs
  have hV : viewBoxAfter z0.viewBox (h ++ .rast r :: cs.map .call) = viewBoxAfter z0.viewBox h := by
    rw [viewBoxAfter_append]; simp only [viewBoxAfter]; exact viewBoxAfter_noReset _ cs hcs
  have := transform_of_history arc posInf z0 (h ++ .rast r :: cs.map .call) hs
  simp only [hR, hV] at this
  exact this

/-- the same after `Reset` (the re-render of the SAME icon at a new size: `Reset` must recompute the
    transform even though the viewBox did not change) -/
theorem reset_transform (arc : ArcFn α β) (posInf : α) (z0 : Renderer α β) (h : List (RenOp α))
    (vb : ViewBox α) (pal : Palette) (cs : List (Call α)) (hcs : ∀ c ∈ cs, isReset c = false) :
    let z := (z0.runOps arc posInf (h ++ .call (.reset vb pal) :: cs.map .call)).1
    let R := rectAfter z0.r h
    z.r = R ∧ z.viewBox = vb ∧
    z.scaleX = Arith.ofInt R.dx / (vb.maxX - vb.minX) ∧ z.biasX = -vb.minX ∧
    z.scaleY = Arith.ofInt R.dy / (vb.maxY - vb.minY) ∧ z.biasY = -vb.minY := by
  have hs : (h ++ RenOp.call (.reset vb pal) :: cs.map RenOp.call).any settles = true := by
    simp [settles, isReset]
  have hR : rectAfter z0.r (h ++ .call (.reset vb pal) :: cs.map .call) = rectAfter z0.r h := by
    rw [rectAfter_append]; simp only [rectAfter]; exact rectAfter_calls _ cs
  have hV : viewBoxAfter z0.viewBox (h ++ .call (.reset vb pal) :: cs.map .call) = vb := by
    rw [viewBoxAfter_append]; simp only [viewBoxAfter]; exact viewBoxAfter_noReset _ cs hcs
  have := transform_of_history arc posInf z0 (h ++ .call (.reset vb pal) :: cs.map .call) hs
  simp only [hR, hV] at this
  exact this

/-! ## (b) everything a path hands to the rasteriser is sized / placed by the CURRENT rectangle -/

/-- a rasteriser call agrees with the target rectangle `R`: `Draw` is over `R`, `Reset` has `R`'s size -/
def OverRect (R : Rect) : RasterOp α β → Prop
  | .draw r _ => r = R
  | .reset w h => w = R.dx ∧ h = R.dy
  | _ => True

theorem overRect_pathOp (R : Rect) (op : RasterOp α β) (h : isPathOp op = true) : OverRect R op := by
  cases op <;> first | trivial | cases h

/-- one call: every `Draw` it makes is over the Renderer's current rectangle, every `Reset` of the
    rasteriser has its size -/
theorem step_overRect (arc : ArcFn α β) (hArc : ArcPure arc) (posInf : α) (z : Renderer α β) (c : Call α) :
    ∀ op ∈ (z.step arc posInf c).2, OverRect z.r op := by
  cases hs : isStyling c
  · cases c <;> simp only [isStyling, Bool.true_eq_false] at hs
    case startPath adj x y =>
      have hstep : z.step arc posInf (.startPath adj x y) = z.startPath adj x y := rfl
      rw [hstep, startPath_eq]
      split
      · intro op h; cases h
      · intro op h
        simp only [List.mem_cons, List.mem_nil_iff, or_false] at h
        rcases h with rfl | rfl
        · exact ⟨rfl, rfl⟩
        · trivial
    case closeEnd =>
      by_cases hd : z.disabled = true
      · simp only [Renderer.step, if_pos hd]; intro op h; cases h
      · simp only [Renderer.step, if_neg hd, Renderer.closePath]
        intro op h
        simp only [List.cons_append, List.nil_append, List.mem_cons, List.mem_nil_iff, or_false] at h
        rcases h with rfl | rfl
        · trivial
        · exact rfl
    case d1 v x => exact fun op h => overRect_pathOp _ _ ((segment_frame arc posInf z _ rfl).2.2 hArc op h)
    case d2 v x y => exact fun op h => overRect_pathOp _ _ ((segment_frame arc posInf z _ rfl).2.2 hArc op h)
    case d4 v a b x y => exact fun op h => overRect_pathOp _ _ ((segment_frame arc posInf z _ rfl).2.2 hArc op h)
    case d6 v a b c d x y => exact fun op h => overRect_pathOp _ _ ((segment_frame arc posInf z _ rfl).2.2 hArc op h)
    case arc rel rx ry rot la sw x y =>
      exact fun op h => overRect_pathOp _ _ ((segment_frame arc posInf z _ rfl).2.2 hArc op h)
  · rw [(styling_refines arc posInf z c hs).1]; intro op h; cases h

/-- any call sequence (no `SetRasterizer` in between): every `Draw` is over the rectangle the Renderer
    has at the start, every rasteriser `Reset` has its size -/
theorem run_overRect (arc : ArcFn α β) (hArc : ArcPure arc) (posInf : α) (cs : List (Call α)) :
    ∀ z : Renderer α β, ∀ op ∈ (z.run arc posInf cs).2, OverRect z.r op := by
  induction cs with
  | nil => intro z op h; cases h
  | cons c cs ih =>
    intro z op h
    rw [Lemmas.RendererVM.run_cons] at h
    rcases List.mem_append.mp h with h | h
    · exact step_overRect arc hArc posInf z c op h
    · have := ih _ op h
      rwa [step_r] at this

/-- **(b) `draw_uses_current_rect`, history form.**  After ANY history `h` and `SetRasterizer r`, whatever
    calls follow (until the next `SetRasterizer`): every `Draw` goes to `r` (normalised as `SetRasterizer`
    does) and every `Reset` of the rasteriser has the size of `r` — never a rectangle of `h`. -/
theorem draw_uses_current_rect (arc : ArcFn α β) (hArc : ArcPure arc) (posInf : α) (z0 : Renderer α β)
    (h : List (RenOp α)) (r : Rect) (cs : List (Call α)) :
    (z0.runOps arc posInf (h ++ .rast r :: cs.map .call)).2 =
      (z0.runOps arc posInf h).2 ++ (((z0.runOps arc posInf h).1.setRasterizer r).run arc posInf cs).2 ∧
    ∀ op ∈ (((z0.runOps arc posInf h).1.setRasterizer r).run arc posInf cs).2, OverRect (Rect.norm r) op := by
  refine ⟨?_, run_overRect arc hArc posInf cs _⟩
  rw [runOps_append, runOps_rast, runOps_calls]

/-- **(b) `draw_uses_current_rect`, path form.**  A path `StartPath … ClosePathEndPath` that starts after
    `SetRasterizer r` (any history before it, any calls `cs` in between — they cannot change the
    rectangle) either makes no rasteriser call, or makes exactly: `Reset` to the size of `r`, `MoveTo`,
    path segments, `ClosePath`, and ONE `Draw` over `r`, with the paint the machine prescribes for the
    height of `r`. -/
theorem path_after_rast (arc : ArcFn α β) (hArc : ArcPure arc) (posInf : α) (z0 : Renderer α β)
    (h : List (RenOp α)) (r : Rect) (cs : List (Call α))
    (adj : UInt8) (x y : α) (segs : List (Call α)) (hs : ∀ s ∈ segs, isSegment s = true) :
    let z := (z0.runOps arc posInf (h ++ .rast r :: cs.map .call)).1
    let out := (z.run arc posInf (.startPath adj x y :: (segs ++ [.closeEnd]))).2
    z.r = Rect.norm r ∧
    (((absVM z).paintChoice (Rect.norm r).dy adj = none ∧ out = []) ∨
     ∃ p mid, (absVM z).paintChoice (Rect.norm r).dy adj = some p ∧ (∀ op ∈ mid, isPathOp op = true) ∧
      out = .reset (Rect.norm r).dx (Rect.norm r).dy :: .moveTo (z.absX x) (z.absY y) ::
        (mid ++ [.closePath, .draw (Rect.norm r) (realise z p)])) := by
  intro z out
  have hr : z.r = Rect.norm r := by
    show (z0.runOps arc posInf (h ++ .rast r :: cs.map .call)).1.r = _
    rw [runOps_r, rectAfter_append]; simp only [rectAfter]; exact rectAfter_calls _ cs
  refine ⟨hr, ?_⟩
  rw [← hr]
  cases hp : (absVM z).paintChoice z.r.dy adj with
  | none =>
    left
    refine ⟨rfl, ?_⟩
    show (z.run arc posInf (.startPath adj x y :: (segs ++ [.closeEnd]))).2 = []
    rw [path_silent arc posInf z adj x y segs hs hp]
  | some p =>
    right
    obtain ⟨mid, hmid, hops, -⟩ := path_drawn_once arc hArc posInf z adj x y segs hs p hp
    exact ⟨p, mid, rfl, hmid, hops⟩

/-! ## (c) `Reset` re-seeds everything, after any history; reuse with `SetRasterizer` in the history -/

/-- **(c) `reset_reseeds`.**  After ANY history (registers, selectors, LOD, smooth state dirtied; the same
    or another palette stored; any rectangle), `Reset vb pal` leaves: colour registers = `pal` (all 64),
    number registers all zero (all 64), both selectors 0, LOD = (0, +∞), viewBox = `vb`, palette = `pal`,
    no smooth point, the rectangle of the last `SetRasterizer` untouched, the transform recalculated, and
    the specification's initial machine state. -/
theorem reset_reseeds (arc : ArcFn α β) (posInf : α) (z0 : Renderer α β) (h : List (RenOp α))
    (vb : ViewBox α) (pal : Palette) :
    let z := (z0.runOps arc posInf (h ++ [.call (.reset vb pal)])).1
    z.cReg = pal ∧ z.nReg = Regs.const zeroA ∧ z.cSel = 0 ∧ z.nSel = 0 ∧ z.lod0 = zeroA ∧ z.lod1 = posInf ∧
    z.viewBox = vb ∧ z.palette = pal ∧ z.prevSmoothType = 0 ∧ z.r = rectAfter z0.r h ∧
    TransformOK z ∧ absVM z = VM.init posInf pal := by
  intro z
  have hz : z = (z0.runOps arc posInf h).1.reset posInf vb pal := by
    show (z0.runOps arc posInf (h ++ [.call (.reset vb pal)])).1 = _
    rw [runOps_append]; rfl
  rw [hz]
  exact ⟨rfl, rfl, rfl, rfl, rfl, rfl, rfl, rfl, rfl, runOps_r arc posInf h z0,
    transformOK_reset _ posInf vb pal, abs_reset _ posInf vb pal⟩

/-- `SetRasterizer` and `Reset` commute: the state after both does not depend on their order -/
theorem rast_comm_reset (z : Renderer α β) (r : Rect) (posInf : α) (vb : ViewBox α) (pal : Palette) :
    (z.reset posInf vb pal).setRasterizer r = (z.setRasterizer r).reset posInf vb pal := rfl

/-- `SetRasterizer` commutes with every register-setting call -/
theorem rast_comm_regCall (arc : ArcFn α β) (posInf : α) (z : Renderer α β) (r : Rect) (c : Call α)
    (hc : isRegCall c = true) :
    (z.setRasterizer r).step arc posInf c = ((z.step arc posInf c).1.setRasterizer r, []) := by
  cases c <;> simp only [isRegCall, Bool.false_eq_true] at hc
  case setCSel v => rfl
  case setNSel v => rfl
  case setLOD a b => rfl
  case setCReg adj incr col => cases incr <;> rfl
  case setNReg adj incr f => cases incr <;> rfl

theorem rast_comm_regCalls (arc : ArcFn α β) (posInf : α) (r : Rect) (S : List (Call α))
    (hS : ∀ c ∈ S, isRegCall c = true) :
    ∀ z : Renderer α β, (z.setRasterizer r).run arc posInf S = ((z.run arc posInf S).1.setRasterizer r, []) ∧
      (z.run arc posInf S).2 = [] := by
  induction S with
  | nil => intro z; exact ⟨rfl, rfl⟩
  | cons c S ih =>
    intro z
    have hc := hS c (List.mem_cons_self ..)
    obtain ⟨i1, i2⟩ := ih (fun c h => hS c (List.mem_cons_of_mem _ h)) (z.step arc posInf c).1
    rw [Lemmas.RendererVM.run_cons, Lemmas.RendererVM.run_cons, rast_comm_regCall arc posInf z r c hc, i1, i2,
      (styling_refines arc posInf z c (regCall_styling hc)).1]
    exact ⟨rfl, rfl⟩

/-- the bracketing protocol extended to histories: `SetRasterizer` is allowed anywhere -/
def pathStepOp : Bool → RenOp α → Option Bool
  | b, .rast _ => some b
  | b, .call c => pathStep b c

def WellBracketedOps : Bool → List (RenOp α) → Prop
  | _, [] => True
  | b, op :: ops => match pathStepOp b op with
    | some b' => WellBracketedOps b' ops
    | none => False

theorem wellBracketedOps_calls (cs : List (Call α)) : ∀ b, WellBracketed b cs → WellBracketedOps b (cs.map .call) := by
  induction cs with
  | nil => intro _ _; trivial
  | cons c cs ih =>
    intro b h
    simp only [WellBracketed] at h
    simp only [List.map_cons, WellBracketedOps, pathStepOp]
    cases hc : pathStep b c with
    | none => rw [hc] at h; exact h.elim
    | some b' => rw [hc] at h; exact ih b' h

theorem setRasterizer_upd (z : Renderer α β) (d : Bool) (f : Paint β) (a b c e : α) (r : Rect) :
    (upd z d f a b c e).setRasterizer r = upd (z.setRasterizer r) d f zeroA zeroA zeroA zeroA := rfl

theorem shared_upd (z : Renderer α β) (d : Bool) (f : Paint β) (a b c e : α) : shared (upd z d f a b c e) = shared z := rfl

theorem stepOp_rel (arc : ArcFn α β) (posInf : α) (b b' : Bool) (z₁ z₂ : Renderer α β) (op : RenOp α)
    (hr : Rel b z₁ z₂) (hc : pathStepOp b op = some b') :
    (z₁.stepOp arc posInf op).2 = (z₂.stepOp arc posInf op).2 ∧
    Rel b' (z₁.stepOp arc posInf op).1 (z₂.stepOp arc posInf op).1 := by
  cases op with
  | call c => exact step_rel arc posInf b b' z₁ z₂ c hr hc
  | rast r =>
    simp only [pathStepOp, Option.some.injEq] at hc
    subst hc
    refine ⟨rfl, ?_⟩
    have hs := eq_upd_of_shared z₁ z₂ (rel_shared hr)
    have hsh : shared (z₁.setRasterizer r) = shared (z₂.setRasterizer r) := by
      rw [hs, setRasterizer_upd, shared_upd]
    cases b with
    | false => exact hsh
    | true =>
      obtain ⟨-, h2, h3⟩ := hr
      exact ⟨hsh, h2, fun hd => by rw [h3 hd]⟩

theorem runOps_rel (arc : ArcFn α β) (posInf : α) (B : List (RenOp α)) :
    ∀ (b : Bool) (z₁ z₂ : Renderer α β), Rel b z₁ z₂ → WellBracketedOps b B →
      (z₁.runOps arc posInf B).2 = (z₂.runOps arc posInf B).2 ∧
      shared (z₁.runOps arc posInf B).1 = shared (z₂.runOps arc posInf B).1 := by
  induction B with
  | nil => intro b z₁ z₂ hr _; exact ⟨rfl, rel_shared hr⟩
  | cons c B ih =>
    intro b z₁ z₂ hr hw
    simp only [WellBracketedOps] at hw
    cases hc : pathStepOp b c with
    | none => rw [hc] at hw; exact hw.elim
    | some b' =>
      rw [hc] at hw
      have hs := stepOp_rel arc posInf b b' z₁ z₂ c hr hc
      have hi := ih b' _ _ hs.2 hw
      rw [runOps_cons, runOps_cons, hs.1, hi.1]
      exact ⟨rfl, hi.2⟩

/-- C17 over histories, same rectangle: two Renderers in ANY states that point at the same rectangle make
    the same rasteriser calls from a `Reset` on, for every well-bracketed history `B` — which may now
    contain `SetRasterizer` (between paths or anywhere else). -/
theorem reset_forgets_hist (arc : ArcFn α β) (posInf : α) (z₁ z₂ : Renderer α β) (hr : z₁.r = z₂.r)
    (vb : ViewBox α) (pal : Palette) (B : List (RenOp α)) (hB : WellBracketedOps false B) :
    (z₁.runOps arc posInf (.call (.reset vb pal) :: B)).2 = (z₂.runOps arc posInf (.call (.reset vb pal) :: B)).2 ∧
    shared (z₁.runOps arc posInf (.call (.reset vb pal) :: B)).1 =
      shared (z₂.runOps arc posInf (.call (.reset vb pal) :: B)).1 := by
  rw [runOps_reset, runOps_reset]
  exact runOps_rel arc posInf B false _ _ (reset_eqS posInf z₁ z₂ hr vb pal) hB

/-- **(c) `SetRasterizer r; Reset; B`.**  Two Renderers in ANY two states (different rectangles, transforms,
    registers, palettes, paths open or disabled, …) make exactly the same rasteriser calls. -/
theorem rast_reset_forgets (arc : ArcFn α β) (posInf : α) (z₁ z₂ : Renderer α β) (r : Rect)
    (vb : ViewBox α) (pal : Palette) (B : List (RenOp α)) (hB : WellBracketedOps false B) :
    (z₁.runOps arc posInf (.rast r :: .call (.reset vb pal) :: B)).2 =
      (z₂.runOps arc posInf (.rast r :: .call (.reset vb pal) :: B)).2 ∧
    shared (z₁.runOps arc posInf (.rast r :: .call (.reset vb pal) :: B)).1 =
      shared (z₂.runOps arc posInf (.rast r :: .call (.reset vb pal) :: B)).1 := by
  rw [runOps_rast, runOps_rast]
  exact reset_forgets_hist arc posInf (z₁.setRasterizer r) (z₂.setRasterizer r) rfl vb pal B hB

/-- **(c) `Reset; register-setting calls; SetRasterizer r; B`** (in particular `Reset; SetRasterizer r; B`):
    the same, with `SetRasterizer` AFTER the `Reset` — the stale rectangle and scale that `Reset` used are
    replaced before anything is drawn. -/
theorem reset_rast_forgets (arc : ArcFn α β) (posInf : α) (z₁ z₂ : Renderer α β) (r : Rect)
    (vb : ViewBox α) (pal : Palette) (S : List (Call α)) (hS : ∀ c ∈ S, isRegCall c = true)
    (B : List (RenOp α)) (hB : WellBracketedOps false B) :
    (z₁.runOps arc posInf (.call (.reset vb pal) :: (S.map .call ++ .rast r :: B))).2 =
      (z₂.runOps arc posInf (.call (.reset vb pal) :: (S.map .call ++ .rast r :: B))).2 ∧
    shared (z₁.runOps arc posInf (.call (.reset vb pal) :: (S.map .call ++ .rast r :: B))).1 =
      shared (z₂.runOps arc posInf (.call (.reset vb pal) :: (S.map .call ++ .rast r :: B))).1 := by
  have key : ∀ z : Renderer α β,
      z.runOps arc posInf (.call (.reset vb pal) :: (S.map .call ++ .rast r :: B)) =
        (((z.setRasterizer r).reset posInf vb pal).run arc posInf S).1.runOps arc posInf B := by
    intro z
    obtain ⟨c1, c2⟩ := rast_comm_regCalls arc posInf r S hS (z.reset posInf vb pal)
    rw [runOps_reset, runOps_append, runOps_calls, runOps_rast, c2, List.nil_append,
      ← rast_comm_reset, c1]
  rw [key, key]
  have h0 : shared ((z₁.setRasterizer r).reset posInf vb pal) = shared ((z₂.setRasterizer r).reset posInf vb pal) :=
    reset_eqS posInf _ _ rfl vb pal
  -- register-setting calls keep the two states `shared`-equal
  have hSrel : ∀ (S : List (Call α)), (∀ c ∈ S, isRegCall c = true) → ∀ y₁ y₂ : Renderer α β,
      shared y₁ = shared y₂ → shared (y₁.run arc posInf S).1 = shared (y₂.run arc posInf S).1 := by
    intro S
    induction S with
    | nil => intro _ y₁ y₂ h; exact h
    | cons c S ih =>
      intro hS y₁ y₂ h
      have hc := hS c (List.mem_cons_self ..)
      have hp : pathStep false c = some false := by
        cases c <;> simp only [isRegCall, Bool.false_eq_true] at hc <;> rfl
      rw [Lemmas.RendererVM.run_cons, Lemmas.RendererVM.run_cons]
      exact ih (fun c h => hS c (List.mem_cons_of_mem _ h)) _ _
        (step_rel arc posInf false false y₁ y₂ c h hp).2
  exact runOps_rel arc posInf B false _ _ (hSrel S hS _ _ h0) hB

/-- **(c) reuse.**  A Renderer with ANY history `A` behind it (any number of earlier graphics at other
    sizes, ending mid-path, …), pointed at `r` and `Reset`, makes exactly the rasteriser calls a fresh
    (zero value) Renderer makes: the whole output is the output of `A` followed by the fresh one's. -/
theorem reuse_hist (arc : ArcFn α β) (posInf : α) (z : Renderer α β) (A : List (RenOp α)) (r : Rect)
    (vb : ViewBox α) (pal : Palette) (B : List (RenOp α)) (hB : WellBracketedOps false B) :
    (z.runOps arc posInf (A ++ .rast r :: .call (.reset vb pal) :: B)).2 =
      (z.runOps arc posInf A).2 ++
        ((Renderer.zero : Renderer α β).runOps arc posInf (.rast r :: .call (.reset vb pal) :: B)).2 := by
  rw [runOps_append]
  exact congrArg _ (rast_reset_forgets arc posInf _ _ r vb pal B hB).1

/-- … and with `SetRasterizer` after `Reset`. -/
theorem reuse_hist' (arc : ArcFn α β) (posInf : α) (z : Renderer α β) (A : List (RenOp α)) (r : Rect)
    (vb : ViewBox α) (pal : Palette) (B : List (RenOp α)) (hB : WellBracketedOps false B) :
    (z.runOps arc posInf (A ++ .call (.reset vb pal) :: .rast r :: B)).2 =
      (z.runOps arc posInf A).2 ++
        ((Renderer.zero : Renderer α β).runOps arc posInf (.call (.reset vb pal) :: .rast r :: B)).2 := by
  rw [runOps_append]
  exact congrArg _ (reset_rast_forgets arc posInf _ _ r vb pal [] (fun _ h => by cases h) B hB).1

/-! ## (e) C04 over histories: `SetRasterizer` does not touch the machine; the LOD test uses the current height -/

theorem stepOp_call (arc : ArcFn α β) (posInf : α) (z : Renderer α β) (c : Call α) :
    z.stepOp arc posInf (.call c) = z.step arc posInf c := rfl
theorem stepOp_rast (arc : ArcFn α β) (posInf : α) (z : Renderer α β) (r : Rect) :
    z.stepOp arc posInf (.rast r) = (z.setRasterizer r, []) := rfl

/-- `SetRasterizer` leaves the represented machine state (palette, registers, selectors, LOD) alone … -/
theorem abs_setRasterizer (z : Renderer α β) (r : Rect) : absVM (z.setRasterizer r) = absVM z := rfl
/-- … and the paint and the `disabled` flag of the current path -/
theorem paintSt_setRasterizer (z : Renderer α β) (r : Rect) : paintSt (z.setRasterizer r) = paintSt z := rfl

/-- the specification's machine over histories: `SetRasterizer` is not an instruction -/
def vmStepOp (posInf : α) (m : VM α) : RenOp α → VM α
  | .call c => m.step posInf c
  | .rast _ => m

theorem stepOp_abs (arc : ArcFn α β) (posInf : α) (z : Renderer α β) (op : RenOp α) :
    absVM (z.stepOp arc posInf op).1 = vmStepOp posInf (absVM z) op := by
  cases op with
  | call c => exact step_abs arc posInf z c
  | rast r => rfl

/-- every history commutes with the abstraction: the machine state a long-lived Renderer represents is
    the fold of the specification's instructions, `SetRasterizer` being skipped -/
theorem runOps_abs (arc : ArcFn α β) (posInf : α) (h : List (RenOp α)) :
    ∀ z : Renderer α β, absVM (z.runOps arc posInf h).1 = h.foldl (vmStepOp posInf) (absVM z) := by
  induction h with
  | nil => intro z; rfl
  | cons op ops ih => intro z; rw [runOps_cons, ih, stepOp_abs, List.foldl_cons]

/-- **(e) styling calls are unaffected by `SetRasterizer`**: each of the six styling calls (including
    `Reset`) commutes with it — same state whichever comes first, no rasteriser call. -/
theorem styling_comm_rast (arc : ArcFn α β) (posInf : α) (z : Renderer α β) (r : Rect) (c : Call α)
    (hc : isStyling c = true) :
    (z.setRasterizer r).step arc posInf c = ((z.step arc posInf c).1.setRasterizer r, []) := by
  cases c <;> simp only [isStyling, Bool.false_eq_true] at hc
  case reset vb pal => rfl
  case setCSel v => rfl
  case setNSel v => rfl
  case setLOD a b => rfl
  case setCReg adj incr col => cases incr <;> rfl
  case setNReg adj incr f => cases incr <;> rfl

/-- whether `StartPath`'s colour switch disables the path does not depend on the rectangle -/
theorem choose_flag_setRasterizer (z : Renderer α β) (r : Rect) (adj : UInt8) :
    (choose (z.setRasterizer r) adj).2 = (choose z adj).2 := by
  rw [choose_spec, choose_spec, abs_setRasterizer]
  dsimp only
  by_cases hp : premul ((absVM z).cReg (sub (absVM z).cSel adj))
  · simp only [if_pos hp]
  · simp only [if_neg hp]
    by_cases hg : isGradient ((absVM z).cReg (sub (absVM z).cSel adj))
    · simp only [if_pos hg]
      by_cases hv : stopsValid ((absVM z).gradSpec ((absVM z).cReg (sub (absVM z).cSel adj))).stops ∧
          2 ≤ ((absVM z).gradSpec ((absVM z).cReg (sub (absVM z).cSel adj))).stops.length
      · simp only [if_pos hv]
      · simp only [if_neg hv]
    · simp only [if_neg hg]

/-- **(e) `StartPath` after `SetRasterizer r` tests LOD against the height of `r`**: it follows the
    machine's `paintChoice` evaluated at `(norm r).dy`, in the unchanged machine state of `z`. -/
theorem startPath_after_rast (z : Renderer α β) (r : Rect) (adj : UInt8) (x y : α) :
    match (absVM z).paintChoice (Rect.norm r).dy adj with
    | some p => (z.setRasterizer r).startPath adj x y =
        (started (z.setRasterizer r) (realise (z.setRasterizer r) p) x y,
          [.reset (Rect.norm r).dx (Rect.norm r).dy,
           .moveTo ((z.setRasterizer r).absX x) ((z.setRasterizer r).absY y)])
    | none => (z.setRasterizer r).startPath adj x y =
        ({ z.setRasterizer r with fill := (choose (z.setRasterizer r) adj).1, disabled := true }, []) :=
  startPath_paint (z.setRasterizer r) adj x y

theorem startPath_after_rast_enabled_iff (z : Renderer α β) (r : Rect) (adj : UInt8) (x y : α) :
    ((z.setRasterizer r).startPath adj x y).1.disabled = false ↔
      ((absVM z).paintChoice (Rect.norm r).dy adj).isSome = true :=
  startPath_enabled_iff (z.setRasterizer r) adj x y

/-! ### the paints of a whole history -/

/-- the pixel-space matrix of a gradient for target rectangle `R` and viewBox `vb`: what `initGradient`
    computes when the transform is the recalculated one -/
def gradMatrixAt (R : Rect) (vb : ViewBox α) (g : GradSpec α) : Aff3 β :=
  let sx : α := Arith.ofInt R.dx / (vb.maxX - vb.minX)
  let sy : α := Arith.ofInt R.dy / (vb.maxY - vb.minY)
  let one : β := Arith.ofInt 1
  let invZSX := one / Wide.widen sx
  let invZSY := one / Wide.widen sy
  let zBX : β := Wide.widen (-vb.minX)
  let zBY : β := Wide.widen (-vb.minY)
  let a : β := Wide.widen g.a
  let b : β := Wide.widen g.b
  let c : β := Wide.widen g.c
  let d : β := Wide.widen g.d
  let e : β := Wide.widen g.e
  let f : β := Wide.widen g.f
  ⟨a * invZSX, b * invZSY, c - a * zBX - b * zBY, d * invZSX, e * invZSY, f - d * zBX - e * zBY⟩

/-- the paint a prescribed `PaintSpec` becomes for target rectangle `R` and viewBox `vb` — a function of
    the specification-level data only (no Renderer state) -/
def realiseAt (R : Rect) (vb : ViewBox α) : PaintSpec α → Paint β
  | .flat c => .flat c
  | .gradient g => .gradient (Gradient.init g.shape g.spread (gradMatrixAt R vb g) (g.stops.map stopOf)).1

theorem pix2Grad_of_transformOK (z : Renderer α β) (h : TransformOK z) (g : GradSpec α) :
    pix2Grad z g = gradMatrixAt z.r z.viewBox g := by
  obtain ⟨h1, h2, h3, h4⟩ := h
  simp only [pix2Grad, gradMatrixAt, ← h1, ← h2, ← h3, ← h4]

theorem realise_of_transformOK (z : Renderer α β) (h : TransformOK z) : realise z = realiseAt z.r z.viewBox := by
  funext p
  cases p with
  | flat c => rfl
  | gradient g => simp only [realise, realiseAt, pix2Grad_of_transformOK z h]

/-- The specification side of a history: the machine state, the target rectangle (changed by
    `SetRasterizer`) and the viewBox (changed by `Reset`) are threaded through the events; each `StartPath`
    contributes the paint the machine prescribes AT THE HEIGHT OF THE CURRENT RECTANGLE, realised for the
    current rectangle and viewBox, to be drawn over the current rectangle. -/
def paintsH (posInf : α) : Rect → ViewBox α → VM α → List (RenOp α) → List (Rect × Paint β)
  | _, _, _, [] => []
  | _, vb, m, .rast r :: ops => paintsH posInf (Rect.norm r) vb m ops
  | R, _, _, .call (.reset vb' pal) :: ops => paintsH posInf R vb' (VM.init posInf pal) ops
  | R, vb, m, .call (.startPath adj _ _) :: ops =>
    match m.paintChoice R.dy adj with
    | some p => (R, realiseAt R vb p) :: paintsH posInf R vb m ops
    | none => paintsH posInf R vb m ops
  | R, vb, m, .call c :: ops => paintsH posInf R vb (m.step posInf c) ops

theorem paintsH_regCall (posInf : α) (R : Rect) (vb : ViewBox α) (m : VM α) (c : Call α) (ops : List (RenOp α))
    (hc : isRegCall c = true) :
    paintsH (β := β) posInf R vb m (.call c :: ops) = paintsH posInf R vb (m.step posInf c) ops := by
  cases c <;> first | rfl | cases hc

theorem paintsH_segs (posInf : α) (R : Rect) (vb : ViewBox α) (m : VM α) (segs : List (Call α))
    (rest : List (RenOp α)) (hs : ∀ s ∈ segs, isSegment s = true) :
    paintsH (β := β) posInf R vb m (segs.map .call ++ rest) = paintsH posInf R vb m rest := by
  induction segs with
  | nil => rfl
  | cons c cs ih =>
    have hc := hs c (List.mem_cons_self ..)
    have h1 : paintsH (β := β) posInf R vb m (.call c :: (cs.map .call ++ rest)) =
        paintsH posInf R vb m (cs.map .call ++ rest) := by
      cases c <;> first | rfl | cases hc
    rw [List.map_cons, List.cons_append, h1]
    exact ih (fun s h => hs s (List.mem_cons_of_mem _ h))

/-- the histories of the documented use: register-setting calls, `Reset`, `SetRasterizer` and complete
    paths `StartPath, drawing calls …, ClosePathEndPath`, in any order and any number (several graphics,
    each at its own size, `SetRasterizer` also between the paths of one graphic) -/
inductive HBody : List (RenOp α) → Prop
  | nil : HBody []
  | styling (c : Call α) (ops : List (RenOp α)) : isRegCall c = true → HBody ops → HBody (.call c :: ops)
  | reset (vb : ViewBox α) (pal : Palette) (ops : List (RenOp α)) : HBody ops → HBody (.call (.reset vb pal) :: ops)
  | rast (r : Rect) (ops : List (RenOp α)) : HBody ops → HBody (.rast r :: ops)
  | path (adj : UInt8) (x y : α) (segs : List (Call α)) (ops : List (RenOp α)) :
      (∀ s ∈ segs, isSegment s = true) → HBody ops →
      HBody (.call (.startPath adj x y) :: (segs.map .call ++ .call .closeEnd :: ops))

theorem regs_geom {z z' : Renderer α β} (h : regs z' = regs z) : geom z' = geom z := by
  simp only [regs, Prod.mk.injEq] at h
  obtain ⟨h1, h2, h3, h4, h5, h6, -⟩ := h
  simp only [geom, h1, h2, h3, h4, h5, h6]

theorem geom_r {z z' : Renderer α β} (h : geom z' = geom z) : z'.r = z.r ∧ z'.viewBox = z.viewBox := by
  simp only [geom, Prod.mk.injEq] at h
  exact ⟨h.1, h.2.1⟩

/-- **(e) C04 over histories, general form.**  From any state whose transform is the recalculated one:
    the `Draw` calls of a history are, in order, exactly the machine's paints, each prescribed at the
    height of — realised for — and drawn over — the rectangle current at its `StartPath`. -/
theorem body_refines_hist (arc : ArcFn α β) (hArc : ArcPure arc) (posInf : α) (h : List (RenOp α))
    (hb : HBody h) : ∀ z : Renderer α β, TransformOK z →
      drawsOf (z.runOps arc posInf h).2 = paintsH posInf z.r z.viewBox (absVM z) h := by
  induction hb with
  | nil => intro z _; rfl
  | styling c ops hc _ ih =>
    intro z hz
    obtain ⟨hops, habs⟩ := styling_refines arc posInf z c (regCall_styling hc)
    have hnr : isReset c = false := by cases c <;> first | rfl | cases hc
    obtain ⟨hr, hv⟩ := geom_r (step_geom arc posInf z c hnr)
    rw [runOps_cons, stepOp_call, hops, List.nil_append, ih _ (transformOK_step arc posInf z c hz),
      paintsH_regCall _ _ _ _ _ _ hc, habs, hr, hv]
  | reset vb pal ops _ ih =>
    intro z hz
    rw [runOps_reset, ih _ (transformOK_reset z posInf vb pal), abs_reset]
    rfl
  | rast r ops _ ih =>
    intro z hz
    rw [runOps_rast, ih _ (transformOK_setRasterizer z r)]
    rfl
  | path adj x y segs ops hs _ ih =>
    intro z hz
    have hl : (RenOp.call (.startPath adj x y) :: (segs.map RenOp.call ++ .call .closeEnd :: ops)) =
        (Call.startPath adj x y :: (segs ++ [.closeEnd])).map RenOp.call ++ ops := by simp
    have hvm : paintsH (β := β) posInf z.r z.viewBox (absVM z)
        (.call (.startPath adj x y) :: (segs.map .call ++ .call .closeEnd :: ops)) =
        (match (absVM z).paintChoice z.r.dy adj with
         | some p => (z.r, realiseAt z.r z.viewBox p) :: paintsH posInf z.r z.viewBox (absVM z) ops
         | none => paintsH posInf z.r z.viewBox (absVM z) ops) := by
      have h1 : paintsH (β := β) posInf z.r z.viewBox (absVM z)
          (.call (.startPath adj x y) :: (segs.map .call ++ .call .closeEnd :: ops)) =
          (match (absVM z).paintChoice z.r.dy adj with
           | some p => (z.r, realiseAt z.r z.viewBox p) ::
               paintsH posInf z.r z.viewBox (absVM z) (segs.map .call ++ .call .closeEnd :: ops)
           | none => paintsH posInf z.r z.viewBox (absVM z) (segs.map .call ++ .call .closeEnd :: ops)) := rfl
      have h2 : paintsH (β := β) posInf z.r z.viewBox (absVM z) (segs.map .call ++ .call .closeEnd :: ops) =
          paintsH posInf z.r z.viewBox (absVM z) ops := by
        rw [paintsH_segs _ _ _ _ _ _ hs]; rfl
      rw [h1, h2]
    rw [hvm, hl, runOps_append, runOps_calls, drawsOf_append]
    cases hp : (absVM z).paintChoice z.r.dy adj with
    | none =>
      rw [path_silent arc posInf z adj x y segs hs hp]
      have hz' : TransformOK ({ z with fill := (choose z adj).1, disabled := true } : Renderer α β) := hz
      rw [ih _ hz']
      rfl
    | some p =>
      obtain ⟨mid, hmid, hops, hr⟩ := path_drawn_once arc hArc posInf z adj x y segs hs p hp
      have hg := regs_geom hr
      obtain ⟨h1, h2⟩ := geom_r hg
      rw [hops, ih _ (transformOK_of_geom hg hz), regs_abs hr, h1, h2, realise_of_transformOK z hz]
      simp [drawsOf, drawsOf_append, drawsOf_pathOps mid hmid]

/-- **(e) `render_refines_vm` over histories, starting with `SetRasterizer`**, from ANY state `z0` (any
    earlier history): the draws are the machine's paints for the rectangle `r` until the next
    `SetRasterizer`, for the viewBox `z0` holds until the next `Reset`. -/
theorem render_refines_vm_rast (arc : ArcFn α β) (hArc : ArcPure arc) (posInf : α) (z0 : Renderer α β)
    (r : Rect) (h : List (RenOp α)) (hb : HBody h) :
    drawsOf (z0.runOps arc posInf (.rast r :: h)).2 = paintsH posInf (Rect.norm r) z0.viewBox (absVM z0) h := by
  rw [runOps_rast, body_refines_hist arc hArc posInf h hb _ (transformOK_setRasterizer z0 r)]
  rfl

/-- **(e) `render_refines_vm` over histories, starting with `Reset`**, from ANY state `z0`: nothing of the
    earlier history but the rectangle survives. -/
theorem render_refines_vm_hist (arc : ArcFn α β) (hArc : ArcPure arc) (posInf : α) (z0 : Renderer α β)
    (vb : ViewBox α) (pal : Palette) (h : List (RenOp α)) (hb : HBody h) :
    drawsOf (z0.runOps arc posInf (.call (.reset vb pal) :: h)).2 =
      paintsH posInf z0.r vb (VM.init posInf pal) h := by
  rw [runOps_reset, body_refines_hist arc hArc posInf h hb _ (transformOK_reset z0 posInf vb pal), abs_reset]
  rfl

/-- the whole documented life of a Renderer: ANY earlier history `A` (from any state), then
    `SetRasterizer r; Reset vb pal; h` — the draws after `A` depend on `r`, `vb`, `pal`, `h` only. -/
theorem render_refines_vm_reuse (arc : ArcFn α β) (hArc : ArcPure arc) (posInf : α) (z0 : Renderer α β)
    (A : List (RenOp α)) (r : Rect) (vb : ViewBox α) (pal : Palette) (h : List (RenOp α)) (hb : HBody h) :
    drawsOf (z0.runOps arc posInf (A ++ .rast r :: .call (.reset vb pal) :: h)).2 =
      drawsOf (z0.runOps arc posInf A).2 ++ paintsH posInf (Rect.norm r) vb (VM.init posInf pal) h := by
  rw [runOps_append, drawsOf_append, runOps_rast, render_refines_vm_hist arc hArc posInf _ vb pal h hb]
  rfl

/-! ## (d) the gradient matrix is built from the CURRENT transform -/

/-- **(d), state form.**  Same registers, another rectangle: the matrix `initGradient` builds right after
    `SetRasterizer r` is the one of `r` (and of the viewBox in force) — whatever scale `z` had before. -/
theorem gradient_matrix_after_rast (z : Renderer α β) (r : Rect) (g : GradSpec α) :
    pix2Grad (z.setRasterizer r) g = gradMatrixAt (Rect.norm r) z.viewBox g :=
  pix2Grad_of_transformOK _ (transformOK_setRasterizer z r) g

/-- **(d), history form.**  After ANY history `h`, `SetRasterizer r` and any calls `cs` other than `Reset`
    (in particular the calls that load the gradient's registers, and earlier paths — a gradient built for
    an earlier path is never reused): every paint `StartPath` realises is realised for `r` and the viewBox
    of the last `Reset`; for a gradient this is `Gradient.init` with the matrix `gradMatrixAt (norm r) vb`. -/
theorem gradient_uses_current_transform (arc : ArcFn α β) (posInf : α) (z0 : Renderer α β)
    (h : List (RenOp α)) (r : Rect) (cs : List (Call α)) (hcs : ∀ c ∈ cs, isReset c = false) :
    let z := (z0.runOps arc posInf (h ++ .rast r :: cs.map .call)).1
    realise z = realiseAt (Rect.norm r) (viewBoxAfter z0.viewBox h) ∧
    ∀ g, pix2Grad z g = gradMatrixAt (Rect.norm r) (viewBoxAfter z0.viewBox h) g := by
  intro z
  obtain ⟨h1, h2, -⟩ := setRasterizer_transform arc posInf z0 h r cs hcs
  have hz : TransformOK z := transformOK_of_settled arc posInf _ z0 (by simp [settles])
  have e1 : z.r = Rect.norm r := h1
  have e2 : z.viewBox = viewBoxAfter z0.viewBox h := h2
  refine ⟨?_, fun g => ?_⟩
  · rw [realise_of_transformOK z hz, e1, e2]
  · rw [pix2Grad_of_transformOK z hz, e1, e2]

/-- an enabled `StartPath` whose paint is a gradient got that gradient from `initGradient`, run in the
    state `StartPath` was called in, on the colour register it selected (a stale `fill` is only kept by a
    DISABLED path) -/
theorem startPath_gradient_fill (z : Renderer α β) (adj : UInt8) (x y : α) (g : Gradient β)
    (hen : (z.startPath adj x y).1.disabled = false) (hf : (z.startPath adj x y).1.fill = .gradient g) :
    z.initGradient (z.cReg.get6 (z.cSel - adj)) = some g := by
  by_cases hn : (choose z adj).2 = true ∨ ¬ lodOK z
  · rw [startPath_eq, if_pos hn] at hen; cases hen
  · rw [startPath_eq, if_neg hn] at hf
    have h1 : (choose z adj).1 = .gradient g := hf
    have h2 : (choose z adj).2 = false := by
      cases hc : (choose z adj).2
      · rfl
      · exact absurd (Or.inl hc) hn
    unfold choose at h1 h2
    dsimp only at h1 h2
    by_cases hp : (z.cReg.get6 (z.cSel - adj)).validPremul = true
    · rw [if_pos hp] at h1; cases h1
    · rw [if_neg hp] at h1 h2
      by_cases hg : (z.cReg.get6 (z.cSel - adj)).validGradient = true
      · rw [if_pos hg] at h1 h2
        cases hi : z.initGradient (z.cReg.get6 (z.cSel - adj)) with
        | none => rw [hi] at h2; cases h2
        | some g' =>
          rw [hi] at h1
          simp only [Paint.gradient.injEq] at h1
          rw [h1]
      · rw [if_neg hg] at h2; cases h2

/-! ## concrete instances at (float32, float64), used by the non-vacuity examples of the property files -/

namespace Ex
open Ivg.Num Ivg.Lemmas.RendererVM.Ex

/-- the zero value of `render.Renderer` does NOT satisfy the invariant at float32 (`0/0` is NaN, `-0 ≠ +0`):
    it holds only once `SetRasterizer` or `Reset` has been called -/
theorem zero_not_transformOK : ¬ TransformOK (Renderer.zero : Renderer F32 F64) := by decide +kernel

/-- a life of a Renderer: 24×24 at offset (10,20) with LOD [32,64) — the path is outside the range;
    `SetRasterizer` to 48×48 between two paths of the same graphic — now inside the range; the same size at
    another origin; then the SAME icon (same viewBox, same palette) again at 24×24 -/
def hist : List (RenOp F32) :=
  [ .rast ⟨10, 20, 34, 44⟩, .call (.reset defaultViewBox defaultPalette),
    .call (.setLOD (n 32) (n 64)),
    .call (.startPath 0 (n 0) (n 0)), .call (.d2 .L (n 1) (n 1)), .call .closeEnd,
    .rast ⟨0, 0, 48, 48⟩,
    .call (.startPath 0 (n 0) (n 0)), .call (.d2 .L (n 1) (n 1)), .call .closeEnd,
    .rast ⟨100, 100, 148, 148⟩,
    .call (.startPath 0 (n 0) (n 0)), .call (.d1 .H (n 1)), .call .closeEnd,
    .rast ⟨0, 0, 24, 24⟩, .call (.reset defaultViewBox defaultPalette),
    .call (.startPath 0 (n 0) (n 0)), .call (.d1 .H (n 1)), .call .closeEnd ]

theorem hist_ok : HBody hist := by
  refine .rast _ _ <| .reset _ _ _ <| .styling _ _ rfl <| .path 0 _ _ [_] _ (by decide) <|
    .rast _ _ <| .path 0 _ _ [_] _ (by decide) <| .rast _ _ <| .path 0 _ _ [_] _ (by decide) <|
    .rast _ _ <| .reset _ _ _ <| .path 0 _ _ [_] _ (by decide) .nil

def resetSizes : List (RasterOp F32 F64) → List (Int × Int)
  | [] => []
  | .reset w h :: ops => (w, h) :: resetSizes ops
  | _ :: ops => resetSizes ops

def moveXs : List (RasterOp F32 F64) → List F32
  | [] => []
  | .moveTo x _ :: ops => x :: moveXs ops
  | _ :: ops => moveXs ops

set_option maxRecDepth 100000 in
/-- what the specification side prescribes for `hist`: nothing for the first path (height 24 is outside
    [32,64)), then one paint over each of the three later rectangles -/
theorem hist_spec :
    (paintsH (β := F64) posInf (⟨0, 0, 0, 0⟩ : Rect) (Renderer.zero : Renderer F32 F64).viewBox
      (absVM (Renderer.zero : Renderer F32 F64)) hist).map (·.1) =
      [⟨0, 0, 48, 48⟩, ⟨100, 100, 148, 148⟩, ⟨0, 0, 24, 24⟩] := by decide +kernel

set_option maxRecDepth 100000 in
/-- … and what the model does with it (with the model of `AbsArcTo`): the `Draw`s go to the current
    rectangles, the rasteriser is `Reset` to their sizes, and the start point `(0,0)` of the default viewBox
    is mapped to x = 24 at width 48 and to x = 12 at width 24 (the scale follows the rectangle). -/
theorem hist_run :
    let out := ((Renderer.zero : Renderer F32 F64).runOps arcF32 posInf hist).2
    (drawsOf out).map (·.1) = [⟨0, 0, 48, 48⟩, ⟨100, 100, 148, 148⟩, ⟨0, 0, 24, 24⟩] ∧
    resetSizes out = [(48, 48), (48, 48), (24, 24)] ∧ moveXs out = [n 24, n 24, n 12] := by decide +kernel

/-- a well-bracketed history with `SetRasterizer` before a graphic, between paths and inside a path -/
theorem wb_example : WellBracketedOps false
    [RenOp.rast ⟨0, 0, 8, 8⟩, .call (.setCSel 1), .call (.startPath 0 F32.zero F32.zero), .rast ⟨0, 0, 9, 9⟩,
     .call (.d1 .H F32.zero), .call .closeEnd, .rast ⟨1, 1, 9, 9⟩, .call (.setLOD F32.zero F32.posInf),
     .call (.startPath 1 F32.zero F32.zero)] := by
  simp [WellBracketedOps, pathStepOp, pathStep]

end Ex

end Ivg.RenderHist
