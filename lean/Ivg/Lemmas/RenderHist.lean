import Ivg.Lemmas.RendererVM
import Ivg.Lemmas.Selectors
/-!
# Histories of a long-lived Renderer: `SetRasterizer` interleaved with Destination calls

A `render.Renderer` is reused: `SetRasterizer(dst, r)` is called before a `Decode`, between `Decode`s and
between the paths of one graphic; every `Decode` starts with `Reset(viewBox, palette)`.  The theorems of
C04/C05/C14/C15/C17 are about ONE `setRasterizer` followed by ONE `reset`.  Here the Renderer model is run
over histories `List (RenOp α)` (`RenOp.call c` = a Destination call, `RenOp.rast r` = `SetRasterizer(_, r)`)
and the theorems are extended to every state such a history reaches.  Everything in this file is generic
in the number types; the exact-arithmetic corollaries are in `Ivg/Lemmas/RenderHistQ.lean`.
-/
namespace Ivg.Ren

/-- one event in the life of a Renderer: a Destination call or `SetRasterizer(_, r)` -/
inductive RenOp (α : Type)
  | call (c : Call α)
  | rast (r : Rect)

variable {α β : Type} [Arith α] [Arith β] [Wide α β]

/-- `rast r` is `SetRasterizer` with a fresh rasteriser and the rectangle `r`; it makes no rasteriser call -/
def Renderer.stepOp (arc : ArcFn α β) (posInf : α) (z : Renderer α β) : RenOp α → Out α β
  | .call c => z.step arc posInf c
  | .rast r => (z.setRasterizer r, [])

def Renderer.runOps (arc : ArcFn α β) (posInf : α) (z : Renderer α β) : List (RenOp α) → Out α β
  | [] => (z, [])
  | op :: ops =>
    let (z, o1) := z.stepOp arc posInf op
    let (z, o2) := z.runOps arc posInf ops
    (z, o1 ++ o2)

end Ivg.Ren

namespace Ivg.RenderHist
open Ivg Ivg.Ren Ivg.Grad Ivg.Spec.VM Ivg.Lemmas.RendererVM Ivg.RendererReset
set_option linter.unusedSectionVars false
set_option linter.constructorNameAsVariable false

variable {α β : Type} [Arith α] [Arith β] [Wide α β]

/-! ## running histories -/

theorem runOps_cons (arc : ArcFn α β) (posInf : α) (z : Renderer α β) (op : RenOp α) (ops : List (RenOp α)) :
    z.runOps arc posInf (op :: ops) =
      (((z.stepOp arc posInf op).1.runOps arc posInf ops).1,
       (z.stepOp arc posInf op).2 ++ ((z.stepOp arc posInf op).1.runOps arc posInf ops).2) := rfl

theorem runOps_append (arc : ArcFn α β) (posInf : α) (a b : List (RenOp α)) :
    ∀ z : Renderer α β, z.runOps arc posInf (a ++ b) =
      (((z.runOps arc posInf a).1.runOps arc posInf b).1,
       (z.runOps arc posInf a).2 ++ ((z.runOps arc posInf a).1.runOps arc posInf b).2) := by
  induction a with
  | nil => intro z; simp [Renderer.runOps]
  | cons c cs ih =>
    intro z
    rw [List.cons_append, runOps_cons, ih, runOps_cons]
    simp only [List.append_assoc]

/-- a history without `SetRasterizer` is a call sequence -/
theorem runOps_calls (arc : ArcFn α β) (posInf : α) (cs : List (Call α)) :
    ∀ z : Renderer α β, z.runOps arc posInf (cs.map .call) = z.run arc posInf cs := by
  induction cs with
  | nil => intro z; rfl
  | cons c cs ih =>
    intro z
    rw [List.map_cons, runOps_cons, Lemmas.RendererVM.run_cons, ih]
    rfl

theorem runOps_rast (arc : ArcFn α β) (posInf : α) (z : Renderer α β) (r : Rect) (ops : List (RenOp α)) :
    z.runOps arc posInf (.rast r :: ops) = (z.setRasterizer r).runOps arc posInf ops := by
  rw [runOps_cons]; rfl

theorem runOps_reset (arc : ArcFn α β) (posInf : α) (z : Renderer α β) (vb : ViewBox α) (pal : Palette)
    (ops : List (RenOp α)) :
    z.runOps arc posInf (.call (.reset vb pal) :: ops) = (z.reset posInf vb pal).runOps arc posInf ops := by
  rw [runOps_cons]; rfl

/-! ## (a) the transform is always the one of the current rectangle and the current viewBox -/

/-- the four transform fields are what `recalcTransform` computes from the CURRENT rectangle and viewBox -/
def TransformOK (z : Renderer α β) : Prop :=
  z.scaleX = Arith.ofInt z.r.dx / (z.viewBox.maxX - z.viewBox.minX) ∧ z.biasX = -z.viewBox.minX ∧
  z.scaleY = Arith.ofInt z.r.dy / (z.viewBox.maxY - z.viewBox.minY) ∧ z.biasY = -z.viewBox.minY

theorem transformOK_iff (z : Renderer α β) : TransformOK z ↔ z.recalcTransform = z := by
  rcases z with ⟨r, sx, bx, sy, by_, vb, pal, l0, l1, cs, ns, dis, pst, psx, psy, fill, cr, nr, px, py, fx, fy⟩
  simp only [TransformOK, Renderer.recalcTransform, Renderer.mk.injEq, true_and, and_true]
  constructor
  · rintro ⟨h1, h2, h3, h4⟩; exact ⟨h1.symm, h2.symm, h3.symm, h4.symm⟩
  · rintro ⟨h1, h2, h3, h4⟩; exact ⟨h1.symm, h2.symm, h3.symm, h4.symm⟩

theorem transformOK_recalc (z : Renderer α β) : TransformOK z.recalcTransform := ⟨rfl, rfl, rfl, rfl⟩

/-- `SetRasterizer` establishes the invariant, whatever the state was -/
theorem transformOK_setRasterizer (z : Renderer α β) (r : Rect) : TransformOK (z.setRasterizer r) :=
  ⟨rfl, rfl, rfl, rfl⟩

/-- `Reset` establishes the invariant, whatever the state was -/
theorem transformOK_reset (z : Renderer α β) (posInf : α) (vb : ViewBox α) (pal : Palette) :
    TransformOK (z.reset posInf vb pal) := ⟨rfl, rfl, rfl, rfl⟩

def isReset : Call α → Bool
  | .reset _ _ => true
  | _ => false

/-- what the transform is computed from, and the transform -/
def geom (z : Renderer α β) := (z.r, z.viewBox, z.scaleX, z.biasX, z.scaleY, z.biasY)

/-- every call other than `Reset` leaves rectangle, viewBox and transform alone (any arc implementation) -/
theorem step_geom (arc : ArcFn α β) (posInf : α) (z : Renderer α β) (c : Call α) (hc : isReset c = false) :
    geom (z.step arc posInf c).1 = geom z := by
  cases hs : isStyling c
  · have h := step_regs arc posInf z c hs
    simp only [regs, Prod.mk.injEq] at h
    obtain ⟨h1, h2, h3, h4, h5, h6, -⟩ := h
    simp only [geom, h1, h2, h3, h4, h5, h6]
  · cases c <;> simp only [isStyling, Bool.false_eq_true] at hs
    case reset vb pal => cases hc
    case setCSel v => rfl
    case setNSel v => rfl
    case setLOD a b => rfl
    case setCReg adj incr col => cases incr <;> rfl
    case setNReg adj incr f => cases incr <;> rfl

theorem transformOK_of_geom {z z' : Renderer α β} (h : geom z' = geom z) (hz : TransformOK z) : TransformOK z' := by
  simp only [geom, Prod.mk.injEq] at h
  obtain ⟨h1, h2, h3, h4, h5, h6⟩ := h
  simp only [TransformOK, h1, h2, h3, h4, h5, h6]
  exact hz

/-- every Destination call preserves the invariant -/
theorem transformOK_step (arc : ArcFn α β) (posInf : α) (z : Renderer α β) (c : Call α) (hz : TransformOK z) :
    TransformOK (z.step arc posInf c).1 := by
  cases hc : isReset c
  · exact transformOK_of_geom (step_geom arc posInf z c hc) hz
  · cases c <;> simp only [isReset, Bool.false_eq_true] at hc
    exact transformOK_reset z posInf _ _

theorem transformOK_stepOp (arc : ArcFn α β) (posInf : α) (z : Renderer α β) (op : RenOp α) (hz : TransformOK z) :
    TransformOK (z.stepOp arc posInf op).1 := by
  cases op with
  | call c => exact transformOK_step arc posInf z c hz
  | rast r => exact transformOK_setRasterizer z r

theorem transformOK_runOps (arc : ArcFn α β) (posInf : α) (h : List (RenOp α)) :
    ∀ z : Renderer α β, TransformOK z → TransformOK (z.runOps arc posInf h).1 := by
  induction h with
  | nil => intro z hz; exact hz
  | cons op ops ih => intro z hz; rw [runOps_cons]; exact ih _ (transformOK_stepOp arc posInf z op hz)

/-- the events that (re)compute the transform -/
def settles : RenOp α → Bool
  | .rast _ => true
  | .call c => isReset c

/-- **(a), invariant form.**  From ANY state (in particular the zero value, which does not satisfy the
    invariant at float32: `0/0` is NaN and `-0` is not `+0`), once the history contains one
    `SetRasterizer` or one `Reset`, the transform is the recalculated one — whatever came before or after. -/
theorem transformOK_of_settled (arc : ArcFn α β) (posInf : α) (h : List (RenOp α)) :
    ∀ z0 : Renderer α β, h.any settles = true → TransformOK (z0.runOps arc posInf h).1 := by
  induction h with
  | nil => intro z0 hs; cases hs
  | cons op ops ih =>
    intro z0 hs
    rw [runOps_cons]
    cases hop : settles op
    · rw [List.any_cons, hop, Bool.false_or] at hs
      exact ih _ hs
    · refine transformOK_runOps arc posInf ops _ ?_
      cases op with
      | rast r => exact transformOK_setRasterizer z0 r
      | call c =>
        cases c <;> simp only [settles, isReset, Bool.false_eq_true] at hop
        exact transformOK_reset z0 posInf _ _

/-- the rectangle after a history: the (normalised) rectangle of the last `SetRasterizer` -/
def rectAfter (R : Rect) : List (RenOp α) → Rect
  | [] => R
  | .rast r :: ops => rectAfter (Rect.norm r) ops
  | .call _ :: ops => rectAfter R ops

/-- the viewBox after a history: the viewBox of the last `Reset` -/
def viewBoxAfter (vb : ViewBox α) : List (RenOp α) → ViewBox α
  | [] => vb
  | .call (.reset vb' _) :: ops => viewBoxAfter vb' ops
  | _ :: ops => viewBoxAfter vb ops

theorem runOps_r (arc : ArcFn α β) (posInf : α) (h : List (RenOp α)) :
    ∀ z : Renderer α β, (z.runOps arc posInf h).1.r = rectAfter z.r h := by
  induction h with
  | nil => intro z; rfl
  | cons op ops ih =>
    intro z
    rw [runOps_cons, ih]
    cases op with
    | rast r => rfl
    | call c =>
      have : (z.step arc posInf c).1.r = z.r := step_r arc posInf z c
      simp only [Renderer.stepOp, this, rectAfter]

theorem viewBoxAfter_call (vb : ViewBox α) (c : Call α) (hc : isReset c = false) (ops : List (RenOp α)) :
    viewBoxAfter vb (.call c :: ops) = viewBoxAfter vb ops := by
  cases c <;> first | rfl | cases hc

theorem runOps_viewBox (arc : ArcFn α β) (posInf : α) (h : List (RenOp α)) :
    ∀ z : Renderer α β, (z.runOps arc posInf h).1.viewBox = viewBoxAfter z.viewBox h := by
  induction h with
  | nil => intro z; rfl
  | cons op ops ih =>
    intro z
    rw [runOps_cons, ih]
    cases op with
    | rast r => rfl
    | call c =>
      cases hc : isReset c
      · have h := step_geom arc posInf z c hc
        simp only [geom, Prod.mk.injEq] at h
        rw [viewBoxAfter_call _ c hc]
        simp only [Renderer.stepOp, h.2.1]
      · cases c <;> simp only [isReset, Bool.false_eq_true] at hc
        rfl

theorem rectAfter_append (R : Rect) (a b : List (RenOp α)) : rectAfter R (a ++ b) = rectAfter (rectAfter R a) b := by
  induction a generalizing R with
  | nil => rfl
  | cons op ops ih => cases op <;> simp only [List.cons_append, rectAfter, ih]

theorem rectAfter_calls (R : Rect) (cs : List (Call α)) : rectAfter R (cs.map .call) = R := by
  induction cs with
  | nil => rfl
  | cons c cs ih => simpa only [List.map_cons, rectAfter] using ih

theorem viewBoxAfter_append (vb : ViewBox α) (a b : List (RenOp α)) :
    viewBoxAfter vb (a ++ b) = viewBoxAfter (viewBoxAfter vb a) b := by
  induction a generalizing vb with
  | nil => rfl
  | cons op ops ih =>
    cases op with
    | rast r => simp only [List.cons_append, viewBoxAfter, ih]
    | call c => cases c <;> simp only [List.cons_append, viewBoxAfter, ih]

theorem viewBoxAfter_noReset (vb : ViewBox α) (cs : List (Call α)) (hcs : ∀ c ∈ cs, isReset c = false) :
    viewBoxAfter vb (cs.map .call) = vb := by
  induction cs with
  | nil => rfl
  | cons c cs ih =>
    rw [List.map_cons, viewBoxAfter_call vb c (hcs c (List.mem_cons_self ..))]
    exact ih (fun c h => hcs c (List.mem_cons_of_mem _ h))

/-- **(a), explicit form.**  In the state reached by ANY history that contains a `SetRasterizer` or a
    `Reset`, from ANY initial state: the rectangle is the one of the last `SetRasterizer`, the viewBox
    the one of the last `Reset`, and the transform is `recalcTransform` of exactly these two. -/
theorem transform_of_history (arc : ArcFn α β) (posInf : α) (z0 : Renderer α β) (h : List (RenOp α))
    (hs : h.any settles = true) :
    let z := (z0.runOps arc posInf h).1
    let R := rectAfter z0.r h
    let vb := viewBoxAfter z0.viewBox h
    z.r = R ∧ z.viewBox = vb ∧
    z.scaleX = Arith.ofInt R.dx / (vb.maxX - vb.minX) ∧ z.biasX = -vb.minX ∧
    z.scaleY = Arith.ofInt R.dy / (vb.maxY - vb.minY) ∧ z.biasY = -vb.minY := by
  have h1 := runOps_r arc posInf h z0
  have h2 := runOps_viewBox arc posInf h z0
  obtain ⟨t1, t2, t3, t4⟩ := transformOK_of_settled arc posInf h z0 hs
  rw [h1, h2] at t1 t3
  rw [h2] at t2 t4
  exact ⟨h1, h2, t1, t2, t3, t4⟩

/-- **(a) `setRasterizer_transform`.**  After ANY history `h` (from any state), `SetRasterizer r`, and any
    further calls `cs` other than `Reset` (styling, paths, …): the map used for the geometry that follows
    is the one of `r` and of the viewBox of the last `Reset` in `h`. -/
theorem setRasterizer_transform (arc : ArcFn α β) (posInf : α) (z0 : Renderer α β) (h : List (RenOp α))
    (r : Rect) (cs : List (Call α)) (hcs : ∀ c ∈ cs, isReset c = false) :
    let z := (z0.runOps arc posInf (h ++ .rast r :: cs.map .call)).1
    let vb := viewBoxAfter z0.viewBox h
    z.r = Rect.norm r ∧ z.viewBox = vb ∧
    z.scaleX = Arith.ofInt (Rect.norm r).dx / (vb.maxX - vb.minX) ∧ z.biasX = -vb.minX ∧
    z.scaleY = Arith.ofInt (Rect.norm r).dy / (vb.maxY - vb.minY) ∧ z.biasY = -vb.minY := by
  have hs : (h ++ RenOp.rast r :: cs.map RenOp.call).any settles = true := by
    simp [settles]
  have hR : rectAfter z0.r (h ++ .rast r :: cs.map .call) = Rect.norm r := by
    rw [rectAfter_append]; simp only [rectAfter]; exact rectAfter_calls _ cs
  have hV : viewBoxAfter z0.viewBox (h ++ .rast r :: cs.map .call) = viewBoxAfter z0.viewBox h := by
    rw [viewBoxAfter_append]; simp only [viewBoxAfter]; exact viewBoxAfter_noReset _ cs hcs
  have := transform_of_history arc posInf z0 (h ++ .rast r :: cs.map .call) hs
  simp only [hR, hV] at this
  exact this

/-- the same after `Reset` (the re-render of the SAME icon at a new size: `Reset` must recompute the
    transform even though the viewBox did not change) -/
theorem reset_transform (arc : ArcFn α β) (posInf : α) (z0 : Renderer α β) (h : List (RenOp α))
    (vb : ViewBox α) (pal : Palette) (cs : List (Call α)) (hcs : ∀ c ∈ cs, isReset c = false) :
    let z := (z0.runOps arc posInf (h ++ .call (.reset vb pal) :: cs.map .call)).1
    let R := rectAfter z0.r h
    z.r = R ∧ z.viewBox = vb ∧
    z.scaleX = Arith.ofInt R.dx / (vb.maxX - vb.minX) ∧ z.biasX = -vb.minX ∧
    z.scaleY = Arith.ofInt R.dy / (vb.maxY - vb.minY) ∧ z.biasY = -vb.minY := by
  have hs : (h ++ RenOp.call (.reset vb pal) :: cs.map RenOp.call).any settles = true := by
    simp [settles, isReset]
  have hR : rectAfter z0.r (h ++ .call (.reset vb pal) :: cs.map .call) = rectAfter z0.r h := by
    rw [rectAfter_append]; simp only [rectAfter]; exact rectAfter_calls _ cs
  have hV : viewBoxAfter z0.viewBox (h ++ .call (.reset vb pal) :: cs.map .call) = vb := by
    rw [viewBoxAfter_append]; simp only [viewBoxAfter]; exact viewBoxAfter_noReset _ cs hcs
  have := transform_of_history arc posInf z0 (h ++ .call (.reset vb pal) :: cs.map .call) hs
  simp only [hR, hV] at this
  exact this

end Ivg.RenderHist
