import Ivg.Lemmas.Codec
/-!
# C03, zero-to-one forms, structurally: float32 division of two integers is correctly rounded

`Num.div` and `F32.ofRatio` both round an exact quotient `T/d · 2^e` to nearest-even with a sticky bit,
but pre-scale the numerator differently.  `rq T d e` is the rounding expressed on the exact rational
(compare `T` with the half-way point `H`, no sticky bit); `roundPack_div` shows that `roundPack` with
the truncated quotient and the sticky flag computes `rq` as soon as the quotient carries 26 bits;
`rq_scale` / `rq_cancel` show that `rq` does not depend on the scaling.  Consequence
(`ofInt_div_eq_ofRatio`): for integers `0 < u, d < 2^24`, `float32(u) / float32(d)` is the float32
nearest to the rational `u/d`.
-/
namespace Ivg.SpecL
open Ivg Num Codec

/-- round-to-nearest-even of the rational `T/d · 2^e` to binary32 magnitude bits -/
def rq (T d : Nat) (e : Int) : Nat :=
  let fe : Int := if e + (bitLen (T / d) : Int) - 24 < -149 then -149 else e + (bitLen (T / d) : Int) - 24
  let s := (fe - e).toNat
  let q0 := T / (d * 2 ^ s)
  let H := d * 2 ^ (s - 1) * (2 * q0 + 1)
  let q := if T > H ∨ (T = H ∧ q0 % 2 = 1) then q0 + 1 else q0
  if (fe + 149).toNat * 8388608 + q ≥ 2139095040 then 2139095040 else (fe + 149).toNat * 8388608 + q

/-! ## bit lengths -/

theorem bitLen_ge {m k : Nat} (h : 2 ^ k ≤ m) : k + 1 ≤ bitLen m := by
  have hm : m ≠ 0 := by have := Nat.two_pow_pos k; omega
  have := (Nat.le_log2 hm).2 h
  unfold bitLen
  simp [hm]; omega

theorem bitLen_bounds {m : Nat} (hm : 0 < m) : 2 ^ (bitLen m - 1) ≤ m ∧ m < 2 ^ bitLen m := by
  have hm' : m ≠ 0 := by omega
  have h1 := Nat.log2_self_le hm'
  have h2 : m < 2 ^ (m.log2 + 1) := Nat.lt_log2_self
  have : bitLen m = m.log2 + 1 := bitLen_eq h1 h2
  rw [this]
  exact ⟨h1, h2⟩

theorem bitLen_double_succ (m : Nat) (hm : 0 < m) : bitLen (2 * m + 1) = bitLen m + 1 := by
  obtain ⟨h1, h2⟩ := bitLen_bounds hm
  have hpos : 1 ≤ bitLen m := bitLen_ge (k := 0) (by omega)
  have e : bitLen m = (bitLen m - 1) + 1 := by omega
  have e2 : 2 ^ bitLen m = 2 * 2 ^ (bitLen m - 1) := by
    conv => lhs; rw [e, Nat.pow_succ]
    omega
  apply bitLen_eq
  · rw [e2]; omega
  · rw [Nat.pow_succ]; omega

/-- the quotient of a numerator scaled by `2^j` is `j` bits longer -/
theorem bitLen_div_scale (T d j : Nat) (hd : 0 < d) (h1 : 1 ≤ T / d) :
    bitLen (T * 2 ^ j / d) = bitLen (T / d) + j := by
  obtain ⟨b1, b2⟩ := bitLen_bounds (m := T / d) (by omega)
  have hpos : 1 ≤ bitLen (T / d) := bitLen_ge (k := 0) (by omega)
  have hj := Nat.two_pow_pos j
  have c1 : 2 ^ (bitLen (T / d) - 1) * d ≤ T := (Nat.le_div_iff_mul_le hd).1 b1
  have c2 : T < 2 ^ bitLen (T / d) * d := (Nat.div_lt_iff_lt_mul hd).1 b2
  have e : bitLen (T / d) + j = (bitLen (T / d) - 1 + j) + 1 := by omega
  rw [e]
  apply bitLen_eq
  · apply (Nat.le_div_iff_mul_le hd).2
    rw [Nat.pow_add]
    calc 2 ^ (bitLen (T / d) - 1) * 2 ^ j * d = (2 ^ (bitLen (T / d) - 1) * d) * 2 ^ j := by grind
      _ ≤ T * 2 ^ j := Nat.mul_le_mul_right _ c1
  · apply (Nat.div_lt_iff_lt_mul hd).2
    have e' : bitLen (T / d) - 1 + j + 1 = bitLen (T / d) + j := by omega
    rw [e', Nat.pow_add]
    calc T * 2 ^ j < (2 ^ bitLen (T / d) * d) * 2 ^ j := (Nat.mul_lt_mul_right hj).2 c2
      _ = 2 ^ bitLen (T / d) * 2 ^ j * d := by grind

/-! ## the rounding decision on the exact rational -/

/-- with `T = d·(P·q0 + r) + ρ` (`r < P = 2·half`, `ρ < d`) and `H = d·half·(2·q0+1)`:
    comparing `T` with the half-way point is comparing `(r, ρ)` with `(half, 0)` -/
theorem decision_core (d half q0 r ρ : Nat) (hρ : ρ < d) :
    (d * (2 * half * q0 + r) + ρ > d * half * (2 * q0 + 1) ↔ (r > half ∨ (r = half ∧ ρ > 0))) ∧
    (d * (2 * half * q0 + r) + ρ = d * half * (2 * q0 + 1) ↔ (r = half ∧ ρ = 0)) := by
  have e1 : d * (2 * half * q0 + r) + ρ = d * (2 * half) * q0 + d * r + ρ := by grind
  have e2 : d * half * (2 * q0 + 1) = d * (2 * half) * q0 + d * half := by grind
  rw [e1, e2]
  generalize d * (2 * half) * q0 = A
  rcases Nat.lt_trichotomy r half with h | h | h
  · have : d * (r + 1) ≤ d * half := Nat.mul_le_mul_left d h
    rw [Nat.mul_add, Nat.mul_one] at this
    constructor <;> constructor <;> intro <;> omega
  · subst h
    constructor <;> constructor <;> intro <;> omega
  · have : d * (half + 1) ≤ d * r := Nat.mul_le_mul_left d h
    rw [Nat.mul_add, Nat.mul_one] at this
    constructor <;> constructor <;> intro <;> omega

theorem double_succ_div (m P : Nat) : (2 * m + 1) / (2 * P) = m / P := by
  rw [← Nat.div_div_eq_div_mul]
  have : (2 * m + 1) / 2 = m := by omega
  rw [this]

theorem double_succ_mod (m P : Nat) : (2 * m + 1) % (2 * P) = 2 * (m % P) + 1 := by
  have h1 := Nat.div_add_mod (2 * m + 1) (2 * P)
  have h2 := Nat.div_add_mod m P
  rw [double_succ_div m P] at h1
  have : 2 * P * (m / P) = 2 * (P * (m / P)) := by grind
  omega

/-- final packing of `roundMag`: exponent field, mantissa, overflow to infinity -/
def pack (fe : Int) (q : Nat) : Nat :=
  if (fe + 149).toNat * 8388608 + q ≥ 2139095040 then 2139095040 else (fe + 149).toNat * 8388608 + q

/-- round-to-nearest-even of `m / 2^s` -/
def rneShift (m s : Nat) : Nat :=
  if m % 2 ^ s > 2 ^ (s - 1) || (m % 2 ^ s == 2 ^ (s - 1) && m / 2 ^ s % 2 == 1) then m / 2 ^ s + 1
  else m / 2 ^ s

theorem roundMag_shift (m : Nat) (e fe : Int)
    (hfe : fe = if e + (bitLen m : Int) - 24 < -149 then -149 else e + (bitLen m : Int) - 24)
    (h : e < fe) : roundMag .f32 m e = pack fe (rneShift m (fe - e).toNat) := by
  rw [roundMag_f32 m e fe hfe]
  simp only [if_neg (show ¬ fe ≤ e by omega)]
  rfl

/-- `roundPack` on a truncated quotient of at least 26 bits plus sticky flag is the rounding of the
    exact rational -/
theorem roundPack_div (neg : Bool) (T d : Nat) (e : Int) (hd : 0 < d) (hb : 2 ^ 25 ≤ T / d) :
    roundPack .f32 neg (T / d) e (T % d != 0) = withSign .f32 neg (rq T d e) := by
  have hL : 26 ≤ bitLen (T / d) := bitLen_ge hb
  have hm0 : T / d ≠ 0 := by have : 0 < 2 ^ 25 := Nat.two_pow_pos _; omega
  have hT := Nat.div_add_mod T d
  have hρ : T % d < d := Nat.mod_lt _ hd
  generalize hfe : (if e + (bitLen (T / d) : Int) - 24 < -149 then (-149 : Int)
    else e + (bitLen (T / d) : Int) - 24) = fe
  have hfe2 : e + 2 ≤ fe := by rw [← hfe]; split <;> omega
  obtain ⟨s', hs'⟩ : ∃ s', (fe - e).toNat = s' + 2 := ⟨(fe - e).toNat - 2, by omega⟩
  have hP : (2 : Nat) ^ (s' + 2) = 2 * 2 ^ (s' + 1) := by rw [Nat.pow_succ]; omega
  have hhalf := Nat.two_pow_pos (s' + 1)
  have hm := Nat.div_add_mod (T / d) (2 ^ (s' + 2))
  have hr : T / d % 2 ^ (s' + 2) < 2 ^ (s' + 2) := Nat.mod_lt _ (Nat.two_pow_pos _)
  have hq0 : T / (d * 2 ^ (s' + 2)) = T / d / 2 ^ (s' + 2) := (Nat.div_div_eq_div_mul _ _ _).symm
  -- the decision on the rational, in terms of quotient and remainders
  have hdec := decision_core d (2 ^ (s' + 1)) (T / d / 2 ^ (s' + 2)) (T / d % 2 ^ (s' + 2)) (T % d) hρ
  have hTT : d * (2 * 2 ^ (s' + 1) * (T / d / 2 ^ (s' + 2)) + T / d % 2 ^ (s' + 2)) + T % d = T := by
    rw [← hP, hm, hT]
  rw [hTT] at hdec
  -- unfold the right-hand side
  have hrq : rq T d e =
      pack fe (if T > d * 2 ^ (s' + 1) * (2 * (T / d / 2 ^ (s' + 2)) + 1) ∨
          (T = d * 2 ^ (s' + 1) * (2 * (T / d / 2 ^ (s' + 2)) + 1) ∧ T / d / 2 ^ (s' + 2) % 2 = 1)
        then T / d / 2 ^ (s' + 2) + 1 else T / d / 2 ^ (s' + 2)) := by
    unfold rq
    simp only [hfe, hs', hq0]
    rfl
  rw [hrq]
  by_cases hst : T % d = 0
  · -- exact quotient: no sticky bit
    have hb' : (T % d != 0) = false := by simp [hst]
    rw [hb', roundPack_pos _ _ _ _ hm0, roundMag_shift (T / d) e fe hfe.symm (by omega), hs']
    congr 2
    unfold rneShift
    have hs1 : s' + 2 - 1 = s' + 1 := by omega
    rw [hs1]
    apply ite_congr (propext _) (fun _ => rfl) (fun _ => rfl)
    simp only [Bool.or_eq_true, Bool.and_eq_true, decide_eq_true_eq, beq_iff_eq]
    rw [hdec.1, hdec.2]
    constructor
    · rintro (h | ⟨h1, h2⟩)
      · exact Or.inl (Or.inl h)
      · exact Or.inr ⟨⟨h1, hst⟩, h2⟩
    · rintro ((h | ⟨_, h2⟩) | ⟨⟨h1, _⟩, h2⟩)
      · exact Or.inl h
      · omega
      · exact Or.inr ⟨h1, h2⟩
  · -- inexact quotient: sticky bit
    have hb' : (T % d != 0) = true := by simp [hst]
    have hrp : roundPack .f32 neg (T / d) e true =
        withSign .f32 neg (roundMag .f32 (2 * (T / d) + 1) (e - 1)) := by
      simp [roundPack]
    have hbl := bitLen_double_succ (T / d) (by omega)
    have hfe' : fe = if e - 1 + (bitLen (2 * (T / d) + 1) : Int) - 24 < -149 then -149
        else e - 1 + (bitLen (2 * (T / d) + 1) : Int) - 24 := by
      rw [hbl, ← hfe]; split <;> split <;> omega
    have hs3 : (fe - (e - 1)).toNat = s' + 3 := by omega
    have hP3 : (2 : Nat) ^ (s' + 3) = 2 * 2 ^ (s' + 2) := by rw [Nat.pow_succ]; omega
    rw [hb', hrp, roundMag_shift _ (e - 1) fe hfe' (by omega), hs3]
    congr 2
    unfold rneShift
    have hs2 : s' + 3 - 1 = s' + 2 := by omega
    rw [hs2, hP3, double_succ_div, double_succ_mod]
    apply ite_congr (propext _) (fun _ => rfl) (fun _ => rfl)
    simp only [Bool.or_eq_true, Bool.and_eq_true, decide_eq_true_eq, beq_iff_eq]
    rw [hdec.1, hdec.2]
    constructor
    · rintro (h | ⟨h1, _⟩)
      · by_cases h' : T / d % 2 ^ (s' + 2) = 2 ^ (s' + 1)
        · exact Or.inl (Or.inr ⟨h', by omega⟩)
        · exact Or.inl (Or.inl (by omega))
      · omega
    · rintro ((h | ⟨h1, _⟩) | ⟨⟨_, h2⟩, _⟩)
      · exact Or.inl (by omega)
      · exact Or.inl (by omega)
      · omega

/-! ## the rounding does not depend on the scaling -/

/-- `rq` with working exponent and shift named -/
def rqAt (T d : Nat) (fe : Int) (s : Nat) : Nat :=
  pack fe (if T > d * 2 ^ (s - 1) * (2 * (T / (d * 2 ^ s)) + 1) ∨
      (T = d * 2 ^ (s - 1) * (2 * (T / (d * 2 ^ s)) + 1) ∧ T / (d * 2 ^ s) % 2 = 1)
    then T / (d * 2 ^ s) + 1 else T / (d * 2 ^ s))

theorem rq_eq_rqAt (T d : Nat) (e fe : Int)
    (hfe : fe = if e + (bitLen (T / d) : Int) - 24 < -149 then -149 else e + (bitLen (T / d) : Int) - 24) :
    rq T d e = rqAt T d fe (fe - e).toNat := by
  unfold rq rqAt
  simp only [← hfe]
  rfl

theorem rqAt_mul (T d c : Nat) (fe : Int) (s : Nat) (hc : 0 < c) :
    rqAt (T * c) (d * c) fe s = rqAt T d fe s := by
  unfold rqAt
  have e1 : d * c * 2 ^ s = d * 2 ^ s * c := by grind
  rw [e1, Nat.mul_div_mul_right _ _ hc]
  generalize T / (d * 2 ^ s) = q0
  have e2 : d * c * 2 ^ (s - 1) * (2 * q0 + 1) = d * 2 ^ (s - 1) * (2 * q0 + 1) * c := by grind
  rw [e2]
  congr 1
  apply ite_congr (propext _) (fun _ => rfl) (fun _ => rfl)
  rw [gt_iff_lt, Nat.mul_lt_mul_right hc, Nat.mul_right_cancel_iff hc]

theorem rqAt_scale (T d j : Nat) (fe : Int) (s : Nat) (hs : 1 ≤ s) :
    rqAt (T * 2 ^ j) d fe (s + j) = rqAt T d fe s := by
  have hj := Nat.two_pow_pos j
  unfold rqAt
  have e1 : d * 2 ^ (s + j) = d * 2 ^ s * 2 ^ j := by rw [Nat.pow_add]; grind
  rw [e1, Nat.mul_div_mul_right _ _ hj]
  generalize T / (d * 2 ^ s) = q0
  have e0 : s + j - 1 = (s - 1) + j := by omega
  have e2 : d * 2 ^ (s + j - 1) * (2 * q0 + 1) = d * 2 ^ (s - 1) * (2 * q0 + 1) * 2 ^ j := by
    rw [e0, Nat.pow_add]; grind
  rw [e2]
  congr 1
  apply ite_congr (propext _) (fun _ => rfl) (fun _ => rfl)
  rw [gt_iff_lt, Nat.mul_lt_mul_right hj, Nat.mul_right_cancel_iff hj]

/-- common factor in numerator and denominator -/
theorem rq_cancel (T d c : Nat) (e : Int) (hc : 0 < c) : rq (T * c) (d * c) e = rq T d e := by
  rw [rq_eq_rqAt (T * c) (d * c) e _ rfl, rq_eq_rqAt T d e _ rfl, Nat.mul_div_mul_right _ _ hc, rqAt_mul _ _ _ _ _ hc]

/-- numerator scaled by `2^j`, exponent lowered by `j` -/
theorem rq_scale (T d j : Nat) (e : Int) (hd : 0 < d) (hb : 2 ^ 25 ≤ T / d) :
    rq (T * 2 ^ j) d (e - j) = rq T d e := by
  have hL : 26 ≤ bitLen (T / d) := bitLen_ge hb
  have h1 : 1 ≤ T / d := by have : 0 < 2 ^ 25 := Nat.two_pow_pos _; omega
  have hbl := bitLen_div_scale T d j hd h1
  generalize hfe : (if e + (bitLen (T / d) : Int) - 24 < -149 then (-149 : Int)
    else e + (bitLen (T / d) : Int) - 24) = fe
  have hfe2 : e + 2 ≤ fe := by rw [← hfe]; split <;> omega
  have hfe' : fe = if e - j + (bitLen (T * 2 ^ j / d) : Int) - 24 < -149 then -149
      else e - j + (bitLen (T * 2 ^ j / d) : Int) - 24 := by
    rw [hbl, ← hfe]; push_cast; split <;> split <;> omega
  rw [rq_eq_rqAt (T * 2 ^ j) d (e - j) fe hfe', rq_eq_rqAt T d e fe hfe.symm]
  have hs : (fe - (e - j)).toNat = (fe - e).toNat + j := by omega
  rw [hs, rqAt_scale _ _ _ _ _ (by omega)]

/-! ## division of two integers -/

/-- **float32 division of integers is correctly rounded**: for `0 < u, d < 2^24`, `float32(u) / float32(d)`
    (`Num.div`: 27-bit pre-scaling, sticky bit) is the float32 nearest to the rational `u/d`
    (`F32.ofRatio`: another pre-scaling) -/
theorem ofInt_div_eq_ofRatio (u d : Nat) (hu0 : 0 < u) (hu : u < 16777216) (hd0 : 0 < d) (hd : d < 16777216) :
    F32.ofInt (u : Int) / F32.ofInt (d : Int) = F32.ofRatio false u d := by
  obtain ⟨ku, hku, hu1, hu2, _, hunp⟩ := ofInt_small (u : Int) (by omega) (by simpa using hu)
  obtain ⟨kd, hkd, hd1, hd2, _, hdnp⟩ := ofInt_small (d : Int) (by omega) (by simpa using hd)
  simp only [Int.natAbs_natCast] at hu1 hu2 hd1 hd2 hunp hdnp
  have hnu : decide ((u : Int) < 0) = false := by simp
  have hnd : decide ((d : Int) < 0) = false := by simp
  rw [hnu] at hunp
  rw [hnd] at hdnp
  have blu : bitLen (u * 2 ^ ku) = 24 := bitLen_eq (k := 23) hu1 hu2
  have bld : bitLen (d * 2 ^ kd) = 24 := bitLen_eq (k := 23) hd1 hd2
  have blu' : bitLen u = 24 - ku := by have := bitLen_mul_pow u ku hu0; omega
  have bld' : bitLen d = 24 - kd := by have := bitLen_mul_pow d kd hd0; omega
  have hpd := Nat.two_pow_pos kd
  -- the common unscaled numerator
  obtain ⟨a, ha⟩ : ∃ a, a + kd = ku + 27 := ⟨ku + 27 - kd, by omega⟩
  have c27 : (2 : Nat) ^ 27 = 134217728 := by decide
  have hnum : u * 2 ^ ku * 2 ^ 27 = u * 2 ^ a * 2 ^ kd := by
    rw [Nat.mul_assoc, Nat.mul_assoc, ← Nat.pow_add, ← Nat.pow_add, ha]
  -- the quotient has at least 26 bits
  have hq : 2 ^ 25 ≤ u * 2 ^ a * 2 ^ kd / (d * 2 ^ kd) := by
    apply (Nat.le_div_iff_mul_le (by omega)).2
    rw [← hnum, c27]
    have : (2 : Nat) ^ 25 = 33554432 := by decide
    omega
  have hq' : 2 ^ 25 ≤ u * 2 ^ a / d := by
    rwa [Nat.mul_div_mul_right _ _ hpd] at hq
  -- model side
  have hdiv : Num.div .f32 (F32.ofInt (u : Int)).nb (F32.ofInt (d : Int)).nb =
      withSign .f32 false (rq (u * 2 ^ a) d (-(a : Int))) := by
    rw [div_fin_fin .f32 _ _ _ _ _ _ _ _ hunp hdnp (by omega) (by omega), blu, bld, prec_f32]
    have hK : 24 + 3 + 24 - 24 = 27 := rfl
    rw [hK, hnum]
    have he : -(ku : Int) - -(kd : Int) - ((27 : Nat) : Int) = -(a : Int) := by omega
    rw [he]
    have : (false != false) = false := rfl
    rw [this, roundPack_div false _ _ _ (by omega) hq, rq_cancel _ _ _ _ hpd]
  -- spec side
  have hrat : F32.ofRatio false u d = F32.ofNatBits (withSign .f32 false (rq (u * 2 ^ a) d (-(a : Int)))) := by
    unfold F32.ofRatio
    have hbeq : (u == 0) = false := by simp; omega
    have hK : 40 + bitLen d - bitLen u = a + 13 := by rw [blu', bld']; omega
    simp only [hbeq, Bool.false_eq_true, if_false, hK]
    have hnum' : u * 2 ^ (a + 13) = u * 2 ^ a * 2 ^ 13 := by rw [Nat.pow_add, Nat.mul_assoc]
    rw [hnum']
    have hq2 : 2 ^ 25 ≤ u * 2 ^ a * 2 ^ 13 / d := by
      apply (Nat.le_div_iff_mul_le hd0).2
      have h1 := (Nat.le_div_iff_mul_le hd0).1 hq'
      have : u * 2 ^ a ≤ u * 2 ^ a * 2 ^ 13 := Nat.le_mul_of_pos_right _ (Nat.two_pow_pos 13)
      omega
    rw [roundPack_div false _ _ _ hd0 hq2]
    have he : -((a + 13 : Nat) : Int) = -(a : Int) - ((13 : Nat) : Int) := by omega
    rw [he, rq_scale _ _ _ _ hd0 hq']
  rw [hrat]
  show F32.div _ _ = _
  unfold F32.div
  rw [hdiv]

end Ivg.SpecL
