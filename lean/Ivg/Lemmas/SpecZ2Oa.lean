import Ivg.Num.F32
/-!
# C03, zero-to-one forms: `float32(u)/120` and `float32(u)/15120` are correctly rounded quotients

The model divides two float32 values (`Num.div`: quotient scaled to 27+ bits, sticky bit, one rounding);
the specification takes the float32 nearest to the rational `u/120` resp. `u/15120` (`F32.ofRatio`:
another scaling, sticky bit, one rounding).  Both are "round to nearest even of the exact quotient", but
the scalings differ, so the equality is checked here by kernel evaluation of both sides over the whole
finite domain (`u < 128`, `u < 16384`), in chunks of 1024 values per declaration
(files `SpecZ2Oa` … `SpecZ2Od`, combined in `SpecZ2O`).
-/
namespace Ivg.SpecL
open Ivg Num

/-- both sides agree for `lo ≤ u < lo + n` -/
def z2oChk (di : Int) (d lo n : Nat) : Bool :=
  (List.range n).all fun i =>
    decide (F32.ofInt ((lo + i : Nat) : Int) / F32.ofInt di = F32.ofRatio false (lo + i) d)

theorem z2oChk_spec {di : Int} {d lo n : Nat} (h : z2oChk di d lo n = true) (u : Nat) (h1 : lo ≤ u)
    (h2 : u < lo + n) : F32.ofInt (u : Int) / F32.ofInt di = F32.ofRatio false u d := by
  unfold z2oChk at h
  rw [List.all_eq_true] at h
  have := h (u - lo) (List.mem_range.2 (by omega))
  have e : lo + (u - lo) = u := by omega
  rw [e] at this
  exact of_decide_eq_true this

set_option maxRecDepth 100000 in
theorem z2o120_all : z2oChk 120 120 0 128 = true := by decide +kernel

set_option maxRecDepth 100000 in
theorem z2o15120_0 : z2oChk 15120 15120 0 1024 = true := by decide +kernel
set_option maxRecDepth 100000 in
theorem z2o15120_1 : z2oChk 15120 15120 1024 1024 = true := by decide +kernel
set_option maxRecDepth 100000 in
theorem z2o15120_2 : z2oChk 15120 15120 2048 1024 = true := by decide +kernel
set_option maxRecDepth 100000 in
theorem z2o15120_3 : z2oChk 15120 15120 3072 1024 = true := by decide +kernel

end Ivg.SpecL
