import Ivg.Lemmas.Decoder2
import Ivg.Lemmas.EncoderInv
import Ivg.Lemmas.ColorCodec
/-!
# What the decoder delivers obeys the Encoder's protocol (converse direction of C01)

Every instruction the decoder accepts delivers calls that an `Encoder` accepts in the corresponding
mode (`EncoderInv.StylingOK`, `EncoderInv.IsDrawing`, `EncoderInv.Proto`), and an accepted stream
has the shape `Reset vb pal :: p` with `p` a protocol-respecting program, `pal` valid and `vb`
either the default or a box the decoder checked whose coordinates are `decodeCoordinate` outputs.
-/
namespace Ivg.DecoderProto
open Ivg Num Dec DecL Codec EncoderInv RoundTrip

/-! ## byte facts -/

set_option maxRecDepth 100000 in
theorem adjOf_ok : ∀ opcode : UInt8,
    (adjOf opcode).toNat ≤ 6 ∧ ((opcode &&& 0x07 == 7) = true → adjOf opcode = 0) := by
  decide +kernel

set_option maxRecDepth 100000 in
theorem startPath_adj_ok : ∀ opcode : UInt8, ¬ opcode < 0xc0 → opcode < 0xc7 →
    (opcode &&& 0x07).toNat ≤ 6 := by
  decide +kernel

/-! ## colours delivered by SetCReg are constructible -/

theorem blendColor_WF (t c0 c1 : UInt8) : (Color.blendColor t c0 c1).WF := by
  simp [Color.WF, Color.blendColor]

theorem cregSel_WF (sel : Nat) {b : Bytes} {c : Color} {rest : Bytes}
    (h : (cregSel sel).2.2 b = some (c, rest)) : c.WF := by
  unfold cregSel at h
  split at h
  · simp only at h
    unfold Dec.decodeColor1 at h
    split at h <;> simp at h
    obtain ⟨rfl, _⟩ := h
    exact ColorCodec.decodeColor1_WF _
  · simp only at h
    unfold Dec.decodeColor2 at h
    split at h <;> simp at h
    obtain ⟨rfl, _⟩ := h
    exact ColorCodec.rgbaColor_WF _
  · simp only at h
    unfold Dec.decodeColor3Direct at h
    split at h <;> simp at h
    obtain ⟨rfl, _⟩ := h
    exact ColorCodec.rgbaColor_WF _
  · simp only at h
    unfold Dec.decodeColor4 at h
    split at h <;> simp at h
    obtain ⟨rfl, _⟩ := h
    exact ColorCodec.rgbaColor_WF _
  · simp only at h
    unfold Dec.decodeColor3Indirect at h
    split at h <;> simp at h
    obtain ⟨rfl, _⟩ := h
    exact blendColor_WF _ _ _

/-! ## the calls of the instruction bodies -/

theorem cregBody_calls {opcode : UInt8} {rest0 : Bytes} {its : List Item} {m' : DMode} {rest : Bytes}
    (h : cregBody opcode rest0 = (its, .ok (m', rest))) :
    ∃ c, callsOf its = [.setCReg (adjOf opcode) (opcode &&& 0x07 == 7) c] ∧ c.WF ∧ m' = .styling := by
  unfold cregBody at h
  simp only at h
  rcases hdec : (cregSel ((opcode - 0x80) >>> 3).toNat).2.2 rest0 with _ | ⟨c, rest'⟩ <;>
    rw [hdec] at h <;> simp only at h
  · simp at h
  · simp only [Prod.mk.injEq, Except.ok.injEq] at h
    obtain ⟨rfl, rfl, _⟩ := h
    exact ⟨c, rfl, cregSel_WF _ hdec, rfl⟩

theorem nregBody_calls {opcode : UInt8} {rest0 : Bytes} {its : List Item} {m' : DMode} {rest : Bytes}
    (h : nregBody opcode rest0 = (its, .ok (m', rest))) :
    ∃ f, callsOf its = [.setNReg (adjOf opcode) (opcode &&& 0x07 == 7) f] ∧ m' = .styling := by
  unfold nregBody at h
  simp only at h
  rcases hdec : (nregSel ((opcode - 0xa8) >>> 3).toNat).2 rest0 with _ | ⟨c, rest'⟩ <;>
    rw [hdec] at h <;> simp only at h
  · simp at h
  · simp only [Prod.mk.injEq, Except.ok.injEq] at h
    obtain ⟨rfl, rfl, _⟩ := h
    exact ⟨c, rfl, rfl⟩

theorem twoNum_calls {dnf} (hd : NumDec dnf) {l : Line} {mk : F32 → F32 → Call F32} {m : DMode}
    {rest0 : Bytes} {its : List Item} {m' : DMode} {rest : Bytes}
    (h : twoNum dnf (.line l) mk m rest0 = (its, .ok (m', rest))) :
    ∃ x y, callsOf its = [mk x y] ∧ m' = m := by
  unfold twoNum at h
  rcases h1 : decodeNumber dnf rest0 with _ | ⟨lx, x, rest1⟩ <;> rw [h1] at h <;> simp only at h
  · simp at h
  · obtain ⟨p1, _, rfl, rfl, _⟩ := decodeNumber_some hd h1
    rcases h2 : decodeNumber dnf rest1 with _ | ⟨ly, y, rest2⟩ <;> rw [h2] at h <;> simp only at h
    · simp at h
    · obtain ⟨p2, _, rfl, rfl, _⟩ := decodeNumber_some hd h2
      simp only [Prod.mk.injEq, Except.ok.injEq] at h
      obtain ⟨rfl, rfl, _⟩ := h
      exact ⟨x, y, rfl, rfl⟩

theorem single2_calls {opcode : UInt8} {kind : LineKind} {mk : F32 → F32 → Call F32} {rest0 : Bytes}
    {its : List Item} {m' : DMode} {rest : Bytes}
    (h : single2 opcode kind mk rest0 = (its, .ok (m', rest))) :
    ∃ x y, callsOf its = [mk x y] ∧ m' = .drawing := by
  unfold single2 at h
  simp only at h
  rcases h1 : decodeCoordinates 2 rest0 with ⟨its1, _ | ⟨xs, rest'⟩⟩ <;> rw [h1] at h
  · simp at h
  · obtain ⟨pre, _, _, hc, hl, _⟩ := decodeCoordinates_some 2 h1
    obtain ⟨x, y, rfl⟩ : ∃ x y, xs = [x, y] := by
      match xs, hl with
      | [x, y], _ => exact ⟨x, y, rfl⟩
    simp only [Prod.mk.injEq, Except.ok.injEq] at h
    obtain ⟨rfl, rfl, _⟩ := h
    exact ⟨x, y, by simp [hc], rfl⟩

theorem single1_calls {opcode : UInt8} {kind : LineKind} {mk : F32 → Call F32} {rest0 : Bytes}
    {its : List Item} {m' : DMode} {rest : Bytes}
    (h : single1 opcode kind mk rest0 = (its, .ok (m', rest))) :
    ∃ x, callsOf its = [mk x] ∧ m' = .drawing := by
  unfold single1 at h
  simp only at h
  rcases h1 : decodeCoordinates 1 rest0 with ⟨its1, _ | ⟨xs, rest'⟩⟩ <;> rw [h1] at h
  · simp at h
  · obtain ⟨pre, _, _, hc, hl, _⟩ := decodeCoordinates_some 1 h1
    obtain ⟨x, rfl⟩ : ∃ x, xs = [x] := by
      match xs, hl with
      | [x], _ => exact ⟨x, rfl⟩
    simp only [Prod.mk.injEq, Except.ok.injEq] at h
    obtain ⟨rfl, rfl, _⟩ := h
    exact ⟨x, by simp [hc], rfl⟩

/-! ## repetitions deliver drawing calls -/

theorem mkCall_isDrawing {op : RepOp} {cs : List F32} {c : Call F32} (h : op.mkCall cs = some c) :
    IsDrawing c := by
  unfold RepOp.mkCall at h
  split at h <;> simp at h <;> subst h <;> exact ⟨_, rfl, by intro h; cases h⟩

theorem repCall_isDrawing {op : RepOp} {ks : List LineKind} {c : Call F32} (h : repCall op ks = some c) :
    IsDrawing c := by
  have arc : ∀ rel, arcCall rel ks = some c → IsDrawing c := by
    intro rel h
    unfold arcCall at h
    split at h <;> simp at h
    subst h
    cases rel <;> exact ⟨_, rfl, by intro h; cases h⟩
  unfold repCall at h
  split at h
  · exact arc _ h
  · exact arc _ h
  · cases hn : numbersOf ks with
    | none => simp [hn] at h
    | some cs => simp [hn] at h; exact mkCall_isDrawing h

theorem decodeReps_isDrawing (op : RepOp) : ∀ (n : Nat) (first : Bool) {src : Bytes} {its : List Item}
    {rest : Bytes}, decodeReps op n first src = (its, .ok rest) → ∀ c ∈ callsOf its, IsDrawing c
  | 0, first, src, its, rest, h => by
    simp [decodeReps] at h
    obtain ⟨rfl, _⟩ := h
    simp
  | n + 1, first, src, its, rest, h => by
    unfold decodeReps at h
    rcases h1 : decodeRep op src with ⟨its1, _ | ⟨c, r1⟩⟩ <;> rw [h1] at h <;> simp only at h
    · simp at h
    · obtain ⟨p1, _, _, hc1, _, hk1, _⟩ := decodeRep_some h1
      rcases h2 : decodeReps op n false r1 with ⟨its', r⟩
      rw [h2] at h
      simp at h
      obtain ⟨rfl, rfl⟩ := h
      intro c' hc'
      simp [callsOf_implicitPre, hc1] at hc'
      rcases hc' with rfl | hc'
      · exact repCall_isDrawing hk1
      · exact decodeReps_isDrawing op n false h2 c' hc'

/-! ## 1. one styling instruction -/

theorem stepDec_styling_proto {src : Bytes} {its : List Item} {m' : DMode} {rest : Bytes}
    (h : Dec.stepDec .styling src = (its, .ok (m', rest))) :
    ∃ c, callsOf its = [c] ∧
      ((StylingOK c ∧ m' = .styling) ∨
       (∃ adj x y, c = .startPath adj x y ∧ adj.toNat ≤ 6 ∧ m' = .drawing)) := by
  change decodeStyling src = _ at h
  cases src with
  | nil => simp [decodeStyling] at h
  | cons opcode rest0 =>
    by_cases h1 : opcode < 0x80
    · by_cases h2 : opcode < 0x40
      · simp only [decodeStyling, h1, h2, if_true, Prod.mk.injEq, Except.ok.injEq] at h
        obtain ⟨rfl, rfl, _⟩ := h
        exact ⟨_, rfl, .inl ⟨trivial, rfl⟩⟩
      · simp only [decodeStyling, h1, h2, if_true, if_false, Prod.mk.injEq, Except.ok.injEq] at h
        obtain ⟨rfl, rfl, _⟩ := h
        exact ⟨_, rfl, .inl ⟨trivial, rfl⟩⟩
    · by_cases h2 : opcode < 0xa8
      · rw [decodeStyling_creg opcode rest0 h1 h2] at h
        obtain ⟨c, hc, hwf, rfl⟩ := cregBody_calls h
        exact ⟨_, hc, .inl ⟨⟨(adjOf_ok opcode).1, (adjOf_ok opcode).2, hwf⟩, rfl⟩⟩
      · by_cases h3 : opcode < 0xc0
        · rw [decodeStyling_nreg opcode rest0 h1 h2 h3] at h
          obtain ⟨f, hc, rfl⟩ := nregBody_calls h
          exact ⟨_, hc, .inl ⟨⟨(adjOf_ok opcode).1, (adjOf_ok opcode).2⟩, rfl⟩⟩
        · by_cases h4 : opcode < 0xc7
          · rw [decodeStyling_startPath opcode rest0 h1 h2 h3 h4] at h
            obtain ⟨x, y, hc, rfl⟩ := twoNum_calls numDec_coordinate h
            exact ⟨_, hc, .inr ⟨_, x, y, rfl, startPath_adj_ok opcode h3 h4, rfl⟩⟩
          · by_cases h5 : opcode = 0xc7
            · subst h5
              rw [decodeStyling_setLOD rest0] at h
              obtain ⟨x, y, hc, rfl⟩ := twoNum_calls numDec_real h
              exact ⟨_, hc, .inl ⟨trivial, rfl⟩⟩
            · simp [decodeStyling, h1, h2, h3, h4, h5] at h

/-! ## 2. one drawing instruction -/

theorem stepDec_drawing_proto {src : Bytes} {its : List Item} {m' : DMode} {rest : Bytes}
    (h : Dec.stepDec .drawing src = (its, .ok (m', rest))) :
    (m' = .drawing ∧ ∀ c ∈ callsOf its, IsDrawing c) ∨ (m' = .styling ∧ callsOf its = [.closeEnd]) := by
  change decodeDrawing src = _ at h
  have one : ∀ {c : Call F32} {d : Enc.DrawOp}, drawOpOf c = some d → d ≠ .Z → callsOf its = [c] →
      ∀ c' ∈ callsOf its, IsDrawing c' := by
    intro c d h1 h2 h3 c' hc'
    rw [h3] at hc'
    simp at hc'
    subst hc'
    exact ⟨d, h1, h2⟩
  cases src with
  | nil => simp [decodeDrawing] at h
  | cons opcode rest0 =>
    by_cases h1 : opcode < 0xe0
    · rw [decodeDrawing_reps opcode rest0 h1] at h
      simp only at h
      generalize repOpOf (opcode >>> 4).toNat = op at h
      generalize (if (opcode >>> 4).toNat < 4 then 1 + (opcode &&& 0x1f).toNat
        else 1 + (opcode &&& 0x0f).toNat) = n at h
      rcases hr : decodeReps op n true rest0 with ⟨its', (e | rest')⟩ <;> rw [hr] at h <;> simp only at h
      · simp at h
      · simp only [Prod.mk.injEq, Except.ok.injEq] at h
        obtain ⟨rfl, rfl, _⟩ := h
        exact .inl ⟨rfl, by simpa using decodeReps_isDrawing op n true hr⟩
    · by_cases h2 : opcode = 0xe1
      · subst h2
        have e1 : decodeDrawing (0xe1 :: rest0) =
            ([.line ⟨[0xe1], .closeEnd⟩, .call .closeEnd], .ok (.styling, rest0)) := rfl
        rw [e1] at h
        simp only [Prod.mk.injEq, Except.ok.injEq] at h
        obtain ⟨rfl, rfl, _⟩ := h
        exact .inr ⟨rfl, rfl⟩
      · by_cases h3 : opcode = 0xe2
        · subst h3
          have e : decodeDrawing (0xe2 :: rest0) = single2 0xe2 .closeAbs (fun x y => .d2 .Y x y) rest0 := rfl
          rw [e] at h
          obtain ⟨x, y, hc, rfl⟩ := single2_calls h
          exact .inl ⟨rfl, one (d := .v2 .Y) rfl (by intro h; cases h) hc⟩
        · by_cases h4 : opcode = 0xe3
          · subst h4
            have e : decodeDrawing (0xe3 :: rest0) = single2 0xe3 .closeRel (fun x y => .d2 .y x y) rest0 := rfl
            rw [e] at h
            obtain ⟨x, y, hc, rfl⟩ := single2_calls h
            exact .inl ⟨rfl, one (d := .v2 .y) rfl (by intro h; cases h) hc⟩
          · by_cases h5 : opcode = 0xe6
            · subst h5
              have e : decodeDrawing (0xe6 :: rest0) = single1 0xe6 .absH (fun x => .d1 .H x) rest0 := rfl
              rw [e] at h
              obtain ⟨x, hc, rfl⟩ := single1_calls h
              exact .inl ⟨rfl, one (d := .v1 .H) rfl (by intro h; cases h) hc⟩
            · by_cases h6 : opcode = 0xe7
              · subst h6
                have e : decodeDrawing (0xe7 :: rest0) = single1 0xe7 .relH (fun x => .d1 .h x) rest0 := rfl
                rw [e] at h
                obtain ⟨x, hc, rfl⟩ := single1_calls h
                exact .inl ⟨rfl, one (d := .v1 .h) rfl (by intro h; cases h) hc⟩
              · by_cases h7 : opcode = 0xe8
                · subst h7
                  have e : decodeDrawing (0xe8 :: rest0) = single1 0xe8 .absV (fun x => .d1 .V x) rest0 := rfl
                  rw [e] at h
                  obtain ⟨x, hc, rfl⟩ := single1_calls h
                  exact .inl ⟨rfl, one (d := .v1 .V) rfl (by intro h; cases h) hc⟩
                · by_cases h8 : opcode = 0xe9
                  · subst h8
                    have e : decodeDrawing (0xe9 :: rest0) = single1 0xe9 .relV (fun x => .d1 .v x) rest0 := rfl
                    rw [e] at h
                    obtain ⟨x, hc, rfl⟩ := single1_calls h
                    exact .inl ⟨rfl, one (d := .v1 .v) rfl (by intro h; cases h) hc⟩
                  · simp [decodeDrawing, h1, h2, h3, h4, h5, h6, h7, h8] at h

/-! ## 3. the loop -/

/-- the Encoder-side mode flag of a decoder mode -/
def inPathOf : DMode → Bool
  | .styling => false
  | .drawing => true

theorem inPathOf_eq (m : DMode) : inPathOf m = decide (m = .drawing) := by
  cases m <;> rfl

theorem proto_drawing_append : ∀ (cs₁ cs₂ : List (Call F32)) (e : Bool),
    (∀ c ∈ cs₁, IsDrawing c) → Proto true cs₂ e → Proto true (cs₁ ++ cs₂) e
  | [], _, _, _, h => h
  | c :: cs, cs₂, e, hd, h => by
    rw [List.cons_append]
    simp only [Proto]
    exact .inl ⟨hd c List.mem_cons_self,
      proto_drawing_append cs cs₂ e (fun x hx => hd x (List.mem_cons_of_mem _ hx)) h⟩

/-- an error-free run of the instruction loop delivers a protocol-respecting program -/
theorem run_proto (m : DMode) (src : Bytes) :
    (run m src).2 = none → ∃ endPath, Proto (inPathOf m) (callsOf (run m src).1) endPath := by
  refine run_induction (P := fun m _ r => r.2 = none → ∃ e, Proto (inPathOf m) (callsOf r.1) e)
    ?_ ?_ ?_ m src
  · intro m _
    exact ⟨inPathOf m, by cases m <;> simp [Proto, inPathOf]⟩
  · intro m src its e _ _ h; simp at h
  · intro m src its m' rest hs ih h
    obtain ⟨e, he⟩ := ih h
    refine ⟨e, ?_⟩
    rw [DecL.callsOf_append]
    cases m with
    | styling =>
      obtain ⟨c, hc, hcase⟩ := stepDec_styling_proto hs
      rw [hc]
      simp only [List.cons_append, List.nil_append, inPathOf, Proto]
      rcases hcase with ⟨hok, rfl⟩ | ⟨adj, x, y, rfl, hadj, rfl⟩
      · exact .inl ⟨hok, he⟩
      · exact .inr ⟨adj, x, y, rfl, hadj, he⟩
    | drawing =>
      rcases stepDec_drawing_proto hs with ⟨rfl, hd⟩ | ⟨rfl, hc⟩
      · exact proto_drawing_append _ _ e hd he
      · rw [hc]
        simp only [List.cons_append, List.nil_append, inPathOf, Proto]
        exact .inr ⟨trivial, he⟩

theorem loop_proto (fuel : Nat) (m : DMode) (src : Bytes) (its : List Item)
    (h : Dec.loop fuel m src = (its, none)) (hf : src.length < fuel) :
    ∃ endPath, Proto (decide (m = .drawing)) (callsOf its) endPath := by
  rw [loop_eq_run hf] at h
  have := run_proto m src (by rw [h])
  rw [h, inPathOf_eq] at this
  exact this

/-! ## 4. an accepted stream -/

/-- what the decoder checked about the viewBox it hands to Reset: it is the default one, or a
    non-inverted box of finite numbers each of which is an output of `decodeCoordinate` -/
def ViewBoxAccepted (vb : ViewBox F32) : Prop :=
  vb = defaultViewBox ∨
  (¬ vb.maxX < vb.minX ∧ ¬ vb.maxY < vb.minY ∧
   isNaNOrInfinity vb.minX = false ∧ isNaNOrInfinity vb.minY = false ∧
   isNaNOrInfinity vb.maxX = false ∧ isNaNOrInfinity vb.maxY = false ∧
   ∀ v ∈ [vb.minX, vb.minY, vb.maxX, vb.maxY], ∃ b rest, Dec.decodeCoordinate b = some (v, rest))

theorem decodeCoordinates_outputs : ∀ (n : Nat) {src : Bytes} {its : List Item} {xs : List F32} {rest : Bytes},
    decodeCoordinates n src = (its, some (xs, rest)) →
    ∀ v ∈ xs, ∃ b r, Dec.decodeCoordinate b = some (v, r)
  | 0, src, its, xs, rest, h => by
    simp [decodeCoordinates] at h
    obtain ⟨_, rfl, _⟩ := h
    simp
  | n + 1, src, its, xs, rest, h => by
    unfold decodeCoordinates at h
    rcases h1 : decodeNumber decodeCoordinate src with _ | ⟨it, x, r1⟩ <;> rw [h1] at h <;> simp only at h
    · simp at h
    · obtain ⟨p1, _, _, _, hx, _⟩ := decodeNumber_some numDec_coordinate h1
      rcases h2 : decodeCoordinates n r1 with ⟨its', _ | ⟨xs', rest'⟩⟩ <;> rw [h2] at h <;> simp only at h
      · simp at h
      · simp only [Prod.mk.injEq, Option.some.injEq] at h
        obtain ⟨_, rfl, _⟩ := h
        intro v hv
        simp only [List.mem_cons] at hv
        rcases hv with rfl | hv
        · exact ⟨_, _, hx⟩
        · exact decodeCoordinates_outputs n h2 v hv

theorem chunk_viewBoxAccepted {m0 m' : Metadata} {mn : Nat} {s : Bytes} {i : List Item} {r : Bytes}
    (hc : ChunkOk m0 mn s i m' 1 r) : ViewBoxAccepted m'.viewBox := by
  obtain ⟨_, _, q1, q2, q3, q4, q5, q6, _, _, _, _, _, _, _, _, h4⟩ := hc.viewBox_spec
  exact .inr ⟨q1, q2, q3, q4, q5, q6, decodeCoordinates_outputs 4 h4⟩

theorem metaOk_viewBoxAccepted {src : Bytes} {hdr : List Item} {m : Metadata} {src3 : Bytes}
    (h : MetaOk {} src hdr m src3) : ViewBoxAccepted m.viewBox := by
  obtain ⟨l0, l1, its, src2, rfl, hs⟩ := h.chunks
  rcases hs with ⟨rfl, _⟩ | ⟨mm', hc⟩ | ⟨its1, m1, r1, its2, hc1, hc2, _⟩
  · exact .inl rfl
  · rcases chunkOk_mm hc with rfl | rfl
    · exact chunk_viewBoxAccepted hc
    · exact .inl hc.palette_spec.1
  · rw [hc2.palette_spec.1]
    exact chunk_viewBoxAccepted hc1

theorem palValid_toList {p : Palette} (h : PalValid p) : ∀ c ∈ p.toList, c.validPremul = true := by
  intro c hc
  obtain ⟨j, hj, rfl⟩ := List.mem_iff_getElem.1 hc
  have hj' : j < 64 := by simpa using hj
  simpa using h j hj'

/-- the shape of everything the decoder accepts -/
theorem decode_accepted_shape (bs : Bytes) (cs : List (Call F32)) (h : Dec.decode [] bs = (cs, none)) :
    ∃ vb pal p endPath, cs = .reset vb pal :: p ∧ Proto false p endPath ∧
      (∀ c ∈ pal.toList, c.validPremul = true) ∧ ViewBoxAccepted vb := by
  rcases metaOk_em {} bs with ⟨hdr, m, src3, hm⟩ | hm
  · rw [decode_of_metaOk hm []] at h
    simp only [Prod.mk.injEq] at h
    obtain ⟨rfl, hr⟩ := h
    obtain ⟨e, he⟩ := run_proto .styling src3 hr
    exact ⟨m.viewBox, m.palette, _, e, rfl, he, palValid_toList (hm.palValid []), metaOk_viewBoxAccepted hm⟩
  · obtain ⟨e, he⟩ := decode_of_not_metaOk hm []
    rw [he] at h
    simp at h

end Ivg.DecoderProto
