import Ivg.Lemmas.Selectors
import Ivg.Model.Generator
/-!
# The Generator's gradient helpers over an Encoder and over a Renderer (C07)

`generate.Generator.SetGradient` reads `CSel()` / `NSel()` back from its destination (to restore them
after writing the stops).  `genRun` drives a destination with a program of plain calls and gradient
helpers; what the helper emits depends on the destination only through the two selector reads.
-/
namespace Ivg.GenSel
open Ivg Num Enc Ren Selectors

/-- what a program using the Generator does: deliver a call, or invoke a gradient helper -/
inductive GenOp where
  | call (c : Call F32)
  | grad (shape spread : UInt8) (stops : List (F32 × RGBA)) (t : Gen.Aff3 F32)

/-- the calls one operation delivers, given the selectors read back from the destination -/
def genCalls (sel : UInt8 × UInt8) : GenOp → List (Call F32)
  | .call c => [c]
  | .grad sh sp stops t =>
    match Gen.setGradient sel.1 sel.2 sh sp stops t with
    | .ok cs => cs
    | .error _ => []

/-- an abstract destination: how it takes a call and what its selector reads report -/
structure Dest (D : Type) where
  run : D → List (Call F32) → D
  sel : D → UInt8 × UInt8

def genRun {D : Type} (dst : Dest D) (d : D) : List GenOp → D × List (Call F32)
  | [] => (d, [])
  | op :: ops =>
    let cs := genCalls (dst.sel d) op
    let r := genRun dst (dst.run d cs) ops
    (r.1, cs ++ r.2)

def encDest : Dest Encoder := ⟨fun e cs => e.run cs, esel⟩

section
variable {β : Type} [Arith β] [Wide F32 β]

def renDest (arc : ArcFn F32 β) (posInf : F32) : Dest (Renderer F32 β) :=
  ⟨fun z cs => (z.run arc posInf cs).1, rsel⟩

/-- A Generator program driven into an Encoder and into a Renderer that hold the same selectors
    delivers the SAME call sequence to both (so every read-back agrees), provided the Encoder accepts
    what it is given. -/
theorem gen_same_calls (arc : ArcFn F32 β) (posInf : F32) (ops : List GenOp) :
    ∀ (e : Encoder) (z : Renderer F32 β), esel e = rsel z →
      (∀ p, p <+: (genRun encDest e ops).2 → (e.run p).err = none) →
      (genRun encDest e ops).2 = (genRun (renDest arc posInf) z ops).2 ∧
      esel (genRun encDest e ops).1 = rsel (genRun (renDest arc posInf) z ops).1 := by
  induction ops with
  | nil => intro e z hs _; exact ⟨rfl, hs⟩
  | cons op ops ih =>
    intro e z hs herr
    simp only [genRun]
    have hsel : encDest.sel e = (renDest arc posInf).sel z := hs
    rw [← hsel]
    generalize hcs : genCalls (encDest.sel e) op = cs at *
    have herr1 : ∀ p, p <+: cs → (e.run p).err = none := fun p hp =>
      herr p (by simp only [genRun, hcs]; exact hp.trans (List.prefix_append _ _))
    have hs' : esel (e.run cs) = rsel (z.run arc posInf cs).1 :=
      sel_agree_gen arc posInf cs e z hs herr1 cs (List.prefix_refl _)
    have herr2 : ∀ p, p <+: (genRun encDest (e.run cs) ops).2 → ((e.run cs).run p).err = none := by
      intro p hp
      rw [← run_append]
      exact herr (cs ++ p) (by
        simp only [genRun, hcs]
        exact (List.prefix_append_right_inj cs).mpr hp)
    obtain ⟨h1, h2⟩ := ih (e.run cs) (z.run arc posInf cs).1 hs' herr2
    exact ⟨by show cs ++ _ = cs ++ _; rw [show (genRun encDest (encDest.run e cs) ops).2 = _ from h1]; rfl, h2⟩

end
end Ivg.GenSel
