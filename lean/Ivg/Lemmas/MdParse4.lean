import Ivg.Lemmas.MdParse3
import Ivg.Lemmas.GenQ
/-!
# C20 — the converter's `ParsePath` on printed path data (path data + circles + the one end of path)
-/
namespace Ivg.MdParse
open Ivg Gen Md Spec.PathData PathParse GenQ MdG
variable {α : Type} [Arith α]

theorem circ_false (size offX offY outSize : α) (adj : UInt8) (cs : List (Circle α)) :
    parsePath.circ size offX offY outSize adj false cs =
      cs.flatMap (circleCalls size offX offY outSize adj false) := by
  rw [circ_eq]; cases cs <;> rfl

theorem renderMd_ne_empty (cs : List MdCmd) : renderMd cs ≠ "" := by
  intro h
  have := congrArg String.toList h
  simp [renderMd, String.toList_ofList] at this

/-- **C20, converter, whole path.**  `ParsePath` on well-formed printed path data makes: the register
    write the opacity decision calls for (if any), the calls spelled by the path data with the ADJ of that
    decision, per circle a close-and-move and two half-turn arcs, and `ClosePathEndPath` exactly once, last. -/
theorem parsePath_renderMd (adjs : List (α × UInt8)) (cs : List MdCmd) (hwf : WellFormedMd cs)
    (opacity size offX offY outSize : α) (circles : List (Circle α)) :
    parsePath adjs (renderMd cs) opacity size offX offY outSize circles =
      (let dec := opacityDecision adjs opacity
       (dec.1, .ok (dec.2.2 ++
          spelledMd dec.2.1 size offX offY outSize (cs.map fun c => c.cmd.map fun t => t.tok.value32) ++
          circles.flatMap (circleCalls size offX offY outSize dec.2.1 false) ++ [.closeEnd]))) := by
  rw [parsePath_eq]
  simp only [if_neg (renderMd_ne_empty cs), parsePathData_renderMd _ size offX offY outSize cs hwf, circ_false]

end Ivg.MdParse
